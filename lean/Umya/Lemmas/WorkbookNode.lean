/-
  Helper lemmas for `Umya/Thm/C02Book.lean`: the anatomy of `Spec.Sml.decode` (its result as named functions
  of the package and the workbook root), and what those functions return on the workbook part and the
  workbook relationships part rendered by `Umya/Model/WorkbookNode.lean`.
-/
import Umya.Lemmas.SheetNodeDecode
import Umya.Model.WorkbookNode
namespace Umya.WorkbookNode
open Umya.CellNode Umya.Dec Umya.SheetNode
open Umya.Spec.Sml
open Umya.Spec.Xml (Node Attr localName)

/-! ## anatomy of `decode` -/

def dSst (p : Package) (wbPath : String) : List (List Char) :=
  match ((relsOf p wbPath).find? (fun r => r.type.endsWith "/sharedStrings")).map (fun r => resolveTarget wbPath r.target) with
  | some sp => sharedStrings p sp
  | none => []

def dStylesRoot (p : Package) (wbPath : String) : Option Node :=
  ((((relsOf p wbPath).find? (fun r => r.type.endsWith "/styles")).map (fun r => resolveTarget wbPath r.target)).bind p.part?).bind (·.xml)

def dNXf (p : Package) (wbPath : String) : Nat :=
  match dStylesRoot p wbPath with
  | some sr => ((sr.kid? "cellXfs").map (fun x => (x.kids "xf").length)).getD 1
  | none => 1

def dNDxf (p : Package) (wbPath : String) : Nat :=
  match dStylesRoot p wbPath with
  | some sr => ((sr.kid? "dxfs").map (fun x => (x.kids "dxf").length)).getD 0
  | none => 0

def dSheetEls (wb : Node) : List Node := ((kidL wb nSheets).map (kidsL · nSheet)).getD []

def sheetOf (p : Package) (wbPath : String) (s : Node) : SheetV × List String :=
  let name := (s.attr? ['n', 'a', 'm', 'e']).getD []
  let state := str ((s.attr? ['s', 't', 'a', 't', 'e']).getD ['v', 'i', 's', 'i', 'b', 'l', 'e'])
  match (s.attr? ['r', ':', 'i', 'd']).bind (fun rid => (relsOf p wbPath).find? (fun (r : Rel) => r.id = str rid)) with
  | none => (SheetV.mk name state [] [] [] [] [] [] false, [s!"sheet {str name}: r:id does not resolve"])
  | some r =>
    let path := resolveTarget wbPath r.target
    let (b, errs) := decodeSheet p path (dSst p wbPath) (dNXf p wbPath) (dNDxf p wbPath)
    (SheetV.mk name state b.cells b.merges b.links b.cols b.rows b.tables b.noR, errs)

def dSheetsE (p : Package) (wbPath : String) (wb : Node) : List (SheetV × List String) :=
  (dSheetEls wb).map (sheetOf p wbPath)

def dNames (wb : Node) : List NameV :=
  (((kidL wb nDefinedNames).map (kidsL · nDefinedName)).getD []).map fun d =>
    NameV.mk ((d.attr? ['n', 'a', 'm', 'e']).getD []) ((d.attr? ['l', 'o', 'c', 'a', 'l', 'S', 'h', 'e', 'e', 't', 'I', 'd']).bind natOf) d.ownText

def dE1 (wb : Node) : List String :=
  if (((dSheetEls wb).map (fun s => (s.attr? ['n', 'a', 'm', 'e']).getD [])).map (fun n => (str n).toLower)).eraseDups.length
      = (((dSheetEls wb).map (fun s => (s.attr? ['n', 'a', 'm', 'e']).getD [])).map (fun n => (str n).toLower)).length
  then [] else ["sheet names are not unique"]

def dE2 (wb : Node) : List String :=
  if ((dSheetEls wb).filterMap (fun s => s.attr? ['s', 'h', 'e', 'e', 't', 'I', 'd'])).eraseDups.length = ((dSheetEls wb).filterMap (fun s => s.attr? ['s', 'h', 'e', 'e', 't', 'I', 'd'])).length ∧
      ((dSheetEls wb).filterMap (fun s => s.attr? ['s', 'h', 'e', 'e', 't', 'I', 'd'])).length = (dSheetEls wb).length
  then [] else ["sheetIds missing or not unique"]

def dE4 (wb : Node) : List String :=
  (dNames wb).filterMap fun n => match n.scope with
    | some i => if i < (dSheetEls wb).length then none else some s!"defined name {str n.name}: localSheetId {i} outside the sheet list"
    | none => none

/-- the package-level diagnostics of `decode`: a part without content type, an XML part that is not
    well-formed, duplicate relationship ids, an internal relationship target that is not in the package -/
def dEPkg (p : Package) : List String :=
  (p.filterMap fun part =>
    if part.name = "[Content_Types].xml" then none
    else if (contentTypeOf p part.name).isNone then some s!"part {part.name} has no content type" else none) ++
  (p.filterMap fun part => if part.isXml ∧ part.xml.isNone then some s!"part {part.name} is not well-formed XML" else none) ++
  (p.flatMap fun part =>
    if isRelsNameL part.name.toList then
      let src := String.ofList (relsSourceL part.name.toList)
      let rs := relsOf p src
      let ids := rs.map (·.id)
      (if ids.eraseDups.length = ids.length then [] else [s!"{part.name}: duplicate relationship ids"]) ++
      rs.filterMap fun r =>
        if r.external then none
        else
          let t := resolveTarget src r.target
          if (p.part? t).isSome then none else some s!"{part.name}: relationship {r.id} targets {t} which is not in the package"
    else [])

def dActive (wb : Node) : Nat :=
  (((wb.kid? "bookViews").bind (·.kid? "workbookView")).bind (fun v => (v.attr? ['a', 'c', 't', 'i', 'v', 'e', 'T', 'a', 'b']).bind natOf)).getD 0

def dE3 (wb : Node) : List String :=
  if (dSheetEls wb).isEmpty ∨ dActive wb < (dSheetEls wb).length then []
  else [s!"activeTab {dActive wb} is outside the sheet list of {(dSheetEls wb).length}"]

/-- `decode` on a package whose main relationship and workbook part resolve: the sheet list, the defined
    names, and the diagnostics, each by name -/
theorem decode_anatomy (p : Package) (mr : Rel) (wb : Node)
    (h1 : (relsOf p "").find? (fun r => r.type.endsWith "/officeDocument") = some mr)
    (h2 : (p.part? (resolveTarget "" mr.target)).bind (·.xml) = some wb) :
    ∃ (b : BookV), decode p = (some b,
        dEPkg p ++ dE1 wb ++ dE2 wb ++ (dSheetsE p (resolveTarget "" mr.target) wb).flatMap (·.2) ++ dE3 wb ++ dE4 wb) ∧
      b.sheets = (dSheetsE p (resolveTarget "" mr.target) wb).map (·.1) ∧ b.names = dNames wb ∧ b.active = dActive wb := by
  unfold decode
  simp only [h1, h2]
  exact ⟨_, rfl, rfl, rfl, rfl⟩

/-! ## the workbook part -/

theorem wb_sheets (fr : WbFrame) (ss : List SheetE) (ds : List NameE) (h : fr.ok = true) :
    kidL (workbookNode fr ss ds) nSheets = some (Node.elem nSheets [] (sheetEls 1 ss)) ∧
    kidL (workbookNode fr ss ds) nDefinedNames = (definedNamesNodes ds).head? := by
  unfold WbFrame.ok at h
  rw [List.all_append, Bool.and_eq_true, List.all_eq_true, List.all_eq_true] at h
  have hno : ∀ (nm : List Char), nm = nSheets ∨ nm = nDefinedNames → ∀ l : List Node,
      (∀ k ∈ l, (!(k.isElem && (decide (localName k.name = nSheets) || decide (localName k.name = nDefinedNames)))) = true) →
      l.filter (isKid nm) = [] := by
    intro nm hnm l hl
    apply List.filter_eq_nil_iff.2
    intro k hk hkid
    have := hl k hk
    unfold isKid at hkid
    simp only [Bool.and_eq_true, decide_eq_true_eq] at hkid
    rcases hnm with rfl | rfl <;> simp [hkid.1, hkid.2] at this
  have dnS : (definedNamesNodes ds).filter (isKid nSheets) = [] := by
    unfold definedNamesNodes; split
    · rfl
    · have : isKid nSheets (Node.elem nDefinedNames [] (ds.map nameEl)) = false := by rw [isKid_elem]; decide
      simp only [List.filter_cons, this, Bool.false_eq_true, if_false, List.filter_nil]
  have dnD : (definedNamesNodes ds).filter (isKid nDefinedNames) = definedNamesNodes ds := by
    unfold definedNamesNodes; split
    · rfl
    · have : isKid nDefinedNames (Node.elem nDefinedNames [] (ds.map nameEl)) = true := by rw [isKid_elem]; decide
      simp only [List.filter_cons, this, if_true, List.filter_nil]
  have sS : isKid nSheets (Node.elem nSheets [] (sheetEls 1 ss)) = true := by rw [isKid_elem]; decide
  have sD : isKid nDefinedNames (Node.elem nSheets [] (sheetEls 1 ss)) = false := by rw [isKid_elem]; decide
  constructor
  · simp only [kidL, kidsL, workbookNode, Node.children, List.filter_append, hno nSheets (Or.inl rfl) fr.pre h.1,
      hno nSheets (Or.inl rfl) fr.post h.2, dnS, List.filter_cons, sS, if_true, List.filter_nil, List.nil_append, List.append_nil]
    rfl
  · simp only [kidL, kidsL, workbookNode, Node.children, List.filter_append, hno nDefinedNames (Or.inr rfl) fr.pre h.1,
      hno nDefinedNames (Or.inr rfl) fr.post h.2, dnD, List.filter_cons, sD, Bool.false_eq_true, if_false, List.filter_nil,
      List.nil_append, List.append_nil]

theorem sheetEls_isKid (ss : List SheetE) : ∀ k, (sheetEls k ss).filter (isKid nSheet) = sheetEls k ss := by
  induction ss with
  | nil => intro _; rfl
  | cons s ss ih =>
    intro k
    simp only [sheetEls]
    have : isKid nSheet (sheetEl k s) = true := by unfold sheetEl; rw [isKid_elem]; decide
    simp only [List.filter_cons, this, if_true, ih]

theorem dSheetEls_rendered (fr : WbFrame) (ss : List SheetE) (ds : List NameE) (h : fr.ok = true) :
    dSheetEls (workbookNode fr ss ds) = sheetEls 1 ss := by
  simp only [dSheetEls, (wb_sheets fr ss ds h).1, Option.map_some, Option.getD_some, kidsL, Node.children, sheetEls_isKid]

theorem nameEls_isKid (ds : List NameE) : (ds.map nameEl).filter (isKid nDefinedName) = ds.map nameEl := by
  induction ds with
  | nil => rfl
  | cons d ds ih =>
    have : isKid nDefinedName (nameEl d) = true := by unfold nameEl; rw [isKid_elem]; decide
    simp only [List.map_cons, List.filter_cons, this, if_true, ih]

theorem ownText_txt' (n : List Char) (as : List Attr) (s : List Char) : (Node.elem n as (txt s)).ownText = s := by
  unfold txt Node.ownText
  by_cases h : s = [] <;> simp [h, Node.children]

theorem nameEl_view (d : NameE) :
    NameV.mk (((nameEl d).attr? ['n', 'a', 'm', 'e']).getD [])
      (((nameEl d).attr? ['l', 'o', 'c', 'a', 'l', 'S', 'h', 'e', 'e', 't', 'I', 'd']).bind natOf) (nameEl d).ownText = nameView d := by
  obtain ⟨n, sc, a⟩ := d
  unfold nameEl nameView
  rw [ownText_txt']
  cases sc <;> simp [Node.attr?, Node.attrs, natOf_decDigits]

/-- the defined names the decoder reads are the workbook's, in order -/
theorem dNames_rendered (fr : WbFrame) (ss : List SheetE) (ds : List NameE) (h : fr.ok = true) :
    dNames (workbookNode fr ss ds) = ds.map nameView := by
  unfold dNames
  rw [(wb_sheets fr ss ds h).2]
  unfold definedNamesNodes
  cases ds with
  | nil => rfl
  | cons d ds =>
    simp only [List.isEmpty_cons, Bool.false_eq_true, if_false, List.head?_cons, Option.map_some, Option.getD_some, kidsL,
      Node.children, nameEls_isKid, List.map_map]
    apply List.map_congr_left
    intro d' _
    exact nameEl_view d'

/-! ## the workbook relationships part -/

def wsRecs : Nat → Nat → List Rel
  | _, 0 => []
  | k, n + 1 => { id := str (rIdText k), type := str worksheetType, target := str (sheetTarget k), external := false } :: wsRecs (k + 1) n

theorem wsRels_recs (n : Nat) : ∀ k, ((wsRels k n).filter (isKid nRelationship)).map relOf = wsRecs k n := by
  induction n with
  | zero => intro _; rfl
  | succ n ih =>
    intro k
    have hk : isKid nRelationship (Node.elem nRelationship [⟨['I', 'd'], rIdText k⟩, ⟨['T', 'y', 'p', 'e'], worksheetType⟩,
        ⟨['T', 'a', 'r', 'g', 'e', 't'], sheetTarget k⟩] []) = true := by rw [isKid_elem]; decide
    simp only [wsRels, wsRecs, List.filter_cons, hk, if_true, List.map_cons, ih]
    simp [relOf, Node.attr?, Node.attrs]

theorem relsOf_workbook (p : Package) (wbPath : String) (n : Nat) (rest : List Node)
    (h : (p.part? (relsNameOf wbPath)).bind (·.xml) = some (workbookRelsNode n rest)) :
    relsOf p wbPath = wsRecs 1 n ++ (rest.filter (isKid nRelationship)).map relOf := by
  unfold relsOf
  rw [h]
  show ((wsRels 1 n ++ rest).filter (isKid nRelationship)).map relOf = _
  rw [List.filter_append, List.map_append, wsRels_recs]

/-- the `K`-th worksheet relationship is found under `rIdK`, after relationships with smaller ids -/
theorem ws_find (R : List Rel) : ∀ (n k : Nat) (A : List Rel) (j : Nat),
    (∀ r ∈ A, ∃ i, i < k ∧ r.id = str (rIdText i)) → k ≤ j → j < k + n →
    (A ++ wsRecs k n ++ R).find? (fun (r : Rel) => r.id = str (rIdText j))
      = some { id := str (rIdText j), type := str worksheetType, target := str (sheetTarget j), external := false } := by
  intro n
  induction n with
  | zero => intro k A j _ h1 h2; omega
  | succ n ih =>
    intro k A j hA h1 h2
    by_cases hj : j = k
    · subst hj
      rw [List.append_assoc, List.find?_append]
      have hnone : A.find? (fun (r : Rel) => r.id = str (rIdText j)) = none := by
        apply List.find?_eq_none.2
        intro r hr
        obtain ⟨i, hi, hid⟩ := hA r hr
        simp only [decide_eq_true_eq]
        intro he
        rw [hid] at he
        have := rIdText_inj i j he
        omega
      rw [hnone]
      simp [wsRecs]
    · have hassoc : A ++ wsRecs k (n + 1) ++ R
          = (A ++ [{ id := str (rIdText k), type := str worksheetType, target := str (sheetTarget k), external := false }]) ++ wsRecs (k + 1) n ++ R := by
        simp [wsRecs]
      rw [hassoc]
      apply ih (k + 1) _ j _ (by omega) (by omega)
      intro r hr
      rcases List.mem_append.1 hr with hr | hr
      · obtain ⟨i, hi, hid⟩ := hA r hr
        exact ⟨i, by omega, hid⟩
      · simp only [List.mem_singleton] at hr
        subst hr
        exact ⟨k, by omega, rfl⟩

/-! ## uniqueness of names and ids -/

theorem eraseDups_nodup {α} [BEq α] [LawfulBEq α] : ∀ (l : List α), l.Nodup → l.eraseDups = l := by
  intro l
  induction l with
  | nil => intro _; simp
  | cons a as ih =>
    intro h
    have ha := List.nodup_cons.1 h
    rw [List.eraseDups_cons]
    have hf : as.filter (fun b => !b == a) = as := by
      apply List.filter_eq_self.2
      intro b hb
      simp only [Bool.not_eq_eq_eq_not, Bool.not_true, beq_eq_false_iff_ne, ne_eq]
      intro e; subst e; exact ha.1 hb
    rw [hf, ih ha.2]

theorem sheetEls_names (ss : List SheetE) : ∀ k, (sheetEls k ss).map (fun s => (s.attr? ['n', 'a', 'm', 'e']).getD []) = ss.map (·.name) := by
  induction ss with
  | nil => intro _; rfl
  | cons s ss ih =>
    intro k
    simp only [sheetEls, List.map_cons, ih]
    simp [sheetEl, Node.attr?, Node.attrs]

theorem sheetEls_ids (ss : List SheetE) : ∀ k, (sheetEls k ss).filterMap (fun s => s.attr? ['s', 'h', 'e', 'e', 't', 'I', 'd'])
    = (List.range' k ss.length).map decDigits := by
  induction ss with
  | nil => intro _; rfl
  | cons s ss ih =>
    intro k
    have : (sheetEl k s).attr? ['s', 'h', 'e', 'e', 't', 'I', 'd'] = some (decDigits k) := by
      simp [sheetEl, Node.attr?, Node.attrs]
    simp only [sheetEls]
    rw [List.filterMap_cons, this]
    simp only [ih, List.length_cons, List.range'_succ, List.map_cons]

theorem sheetEls_length (ss : List SheetE) : ∀ k, (sheetEls k ss).length = ss.length := by
  induction ss with
  | nil => intro _; rfl
  | cons s ss ih => intro k; simp [sheetEls, ih]

theorem decDigits_inj (a b : Nat) (h : decDigits a = decDigits b) : a = b := by
  have := congrArg parseDec h
  simpa [parseDec_decDigits] using this

theorem ids_nodup (n : Nat) : ∀ k, ((List.range' k n).map decDigits).Nodup := by
  induction n with
  | zero => intro _; simp
  | succ n ih =>
    intro k
    rw [List.range'_succ, List.map_cons, List.nodup_cons]
    refine ⟨?_, ih (k + 1)⟩
    intro hmem
    obtain ⟨j, hj, he⟩ := List.mem_map.1 hmem
    have := decDigits_inj j k he
    have := (List.mem_range'_1.1 hj).1
    omega

end Umya.WorkbookNode
