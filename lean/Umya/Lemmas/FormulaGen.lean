/-
  (T) translator: `translate_part`, `insert_part` and the grid limits of helper/formula.rs, regenerated
  from the source on every run (`Umya/Model/Gen/Kernels.lean`), are the hand model's `translatePart`,
  `insertPart`, `maxCol`, `maxRow`.
-/
import Umya.Model.Gen.Kernels
import Umya.Model.Formula
namespace Umya.Gen
open Umya.Formula

theorem gen_translate_part (p : Part) (d : Int) (max : Nat) :
    (translate_part ((p.1 : Int), p.2) d max).map (fun q => (q.1.toNat, q.2)) = translatePart p d max := by
  obtain ⟨n, l⟩ := p
  cases l with
  | true => simp [translate_part, translatePart]
  | false =>
    simp only [translate_part, translatePart, Bool.false_eq_true, if_false]
    by_cases h : ((n : Int) + d < 1) ∨ ((n : Int) + d > (max : Int))
    · have : (decide ((n : Int) + d < 1) || decide ((n : Int) + d > (max : Int))) = true := by
        rcases h with h | h <;> simp [h]
      simp [this]
    · have h1 : ¬ ((n : Int) + d < 1) := fun x => h (Or.inl x)
      have h2 : ¬ ((n : Int) + d > (max : Int)) := fun x => h (Or.inr x)
      simp [h1, h2]

theorem gen_insert_part (p : Part) (root off max : Nat) (isEnd : Bool) :
    (insert_part ((p.1 : Int), p.2) root off max isEnd).map (fun q => (q.1.toNat, q.2))
      = insertPart p root off max isEnd := by
  obtain ⟨n, l⟩ := p
  simp only [insert_part, insertPart]
  by_cases h1 : n < root
  · have : ((n : Int) < (root : Int)) := by omega
    simp [h1, this]
  · have h1' : ¬ ((n : Int) < (root : Int)) := by omega
    by_cases h2 : off = 0
    · simp [h2]
    · by_cases h3 : n + off ≤ max
      · have : ((n : Int) + (off : Int) ≤ (max : Int)) := by omega
        have e : ((n : Int) + (off : Int)).toNat = n + off := by omega
        simp [h1, h1', h2, h3, this, e]
      · have : ¬ ((n : Int) + (off : Int) ≤ (max : Int)) := by omega
        cases isEnd <;> simp [h1, h1', h2, h3, this]

theorem gen_grid_limits : max_column_num = maxCol ∧ max_row_num = maxRow := ⟨rfl, rfl⟩

end Umya.Gen
