/-
  (T) translator: `translate_part`, `insert_part` and the grid limits of helper/formula.rs, regenerated
  from the source on every run (`Umya/Model/Gen/Kernels.lean`), are the hand model's `translatePart`,
  `insertPart`, `maxCol`, `maxRow`.

  The proof script does not follow the shape of the generated term (`part_eq`): the lock flag and `is_end` are
  case-split up front, the Boolean conditions of BOTH sides are turned into arithmetic propositions, EVERY
  conditional of both sides is split, and each leaf is closed by `omega` (contradictory paths: from the path
  conditions; matching paths: the equality of the numbers, `Int.toNat` included).  Swapped branches under a negated
  condition, De Morgan forms, early returns or nested `if`s, commuted operands, renamed / inlined / hoisted locals
  still prove; a changed comparison, bound or operator does not.
-/
import Umya.Model.Gen.Kernels
import Umya.Model.Formula
namespace Umya.Gen
open Umya.Formula

/-- Boolean conditions (of the goal and of the hypotheses) as arithmetic propositions -/
macro "part_norm" : tactic => `(tactic|
  simp only [Bool.or_eq_true, Bool.and_eq_true, Bool.or_eq_false_iff, Bool.and_eq_false_iff, Bool.not_eq_true', Bool.not_eq_false',
    Bool.not_eq_true, Bool.not_eq_false, Bool.not_not, Bool.not_true, Bool.not_false,
    decide_eq_true_eq, decide_eq_false_iff_not, beq_iff_eq, bne_iff_ne, beq_eq_false_iff_ne, bne_eq_false_iff_eq, ne_eq,
    Bool.true_eq_false, Bool.false_eq_true, Bool.or_false, Bool.or_true, Bool.false_or, Bool.true_or, Bool.and_false,
    Bool.and_true, Bool.false_and, Bool.true_and, eq_self, not_true_eq_false, not_false_eq_true,
    if_true, if_false, ite_true, ite_false, ↓reduceIte] at *)

/-- split every conditional of both sides; normalise the path conditions; close each leaf by arithmetic -/
macro "part_eq" : tactic => `(tactic|
  ((try part_norm)
   repeat' split
   all_goals (try part_norm)
   all_goals (first
     | rfl
     | omega
     | (exfalso; omega)
     | (simp only [Option.map_some, Option.map_none, Option.some.injEq, Prod.mk.injEq, and_true, true_and, reduceCtorEq] at * <;> omega)
     | (simp_all <;> omega)
     | simp_all)))

theorem gen_translate_part (p : Part) (d : Int) (max : Nat) :
    (translate_part ((p.1 : Int), p.2) d max).map (fun q => (q.1.toNat, q.2)) = translatePart p d max := by
  obtain ⟨n, l⟩ := p
  cases l <;>
  · simp only [translate_part, translatePart]
    part_eq

theorem gen_insert_part (p : Part) (root off max : Nat) (isEnd : Bool) :
    (insert_part ((p.1 : Int), p.2) root off max isEnd).map (fun q => (q.1.toNat, q.2))
      = insertPart p root off max isEnd := by
  obtain ⟨n, l⟩ := p
  cases l <;> cases isEnd <;>
  · simp only [insert_part, insertPart]
    part_eq

theorem gen_grid_limits : max_column_num = maxCol ∧ max_row_num = maxRow := ⟨rfl, rfl⟩

end Umya.Gen
