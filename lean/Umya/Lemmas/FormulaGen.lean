/-
  (T) translator: `translate_part` and the grid limits of helper/formula.rs, regenerated from the source
  on every run (`Umya/Model/Gen/Kernels.lean`), are the hand model's `translatePart`, `maxCol`, `maxRow`.
-/
import Umya.Model.Gen.Kernels
import Umya.Model.Formula
namespace Umya.Gen
open Umya.Formula

theorem gen_translate_part (p : Part) (d : Int) (max : Nat) :
    (translate_part ((p.1 : Int), p.2) d max).map (fun q => (q.1.toNat, q.2)) = translatePart p d max := by
  obtain ⟨n, l⟩ := p
  cases l with
  | true => simp [translate_part, translatePart]
  | false =>
    simp only [translate_part, translatePart, Bool.false_eq_true, if_false]
    by_cases h : ((n : Int) + d < 1) ∨ ((n : Int) + d > (max : Int))
    · have : (decide ((n : Int) + d < 1) || decide ((n : Int) + d > (max : Int))) = true := by
        rcases h with h | h <;> simp [h]
      simp [this]
    · have h1 : ¬ ((n : Int) + d < 1) := fun x => h (Or.inl x)
      have h2 : ¬ ((n : Int) + d > (max : Int)) := fun x => h (Or.inr x)
      simp [h1, h2]

theorem gen_grid_limits : max_column_num = maxCol ∧ max_row_num = maxRow := ⟨rfl, rfl⟩

end Umya.Gen
