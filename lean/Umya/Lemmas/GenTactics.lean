/-
  (T) translator: two simplification procedures used by the equality proofs of the generated definitions to bring integer
  expressions to a canonical spelling WITHOUT associativity / commutativity rewriting (which does not terminate cheaply on
  the large guard conditions): the numeral of a product goes to the left (`a * 3 ↦ 3 * a`), the numeral of a sum to the
  right (`2 + a ↦ a + 2`).  `omega` does not care about either spelling at the top of a linear term, but under a truncating
  division (`Int.tdiv`, an atom for `omega`) the two spellings would be two atoms.  Each step is justified by
  `Int.mul_comm` / `Int.add_comm` / `Nat.mul_comm` / `Nat.add_comm`; nothing is trusted.
  Meta-level code only (no theorem lives here); not linked into the driver.
-/
import Lean
namespace Umya.Gen
open Lean Meta Simp

/-- `a * k ↦ k * a` for a numeral `k` and a non-numeral `a` (`Int` and `Nat`) -/
simproc_decl mulLitLeft (_ * _) := fun e => do
  let_expr HMul.hMul α _ _ _ a b ← e | return .continue
  let isInt := α.isConstOf ``Int
  unless isInt || α.isConstOf ``Nat do return .continue
  let lit (x : Expr) : MetaM Bool := do
    if isInt then return (← getIntValue? x).isSome else return (← getNatValue? x).isSome
  unless (← lit b) && !(← lit a) do return .continue
  let e' ← mkMul b a
  return .visit { expr := e', proof? := mkApp2 (mkConst (if isInt then ``Int.mul_comm else ``Nat.mul_comm)) a b }

/-- `k + a ↦ a + k` for a numeral `k` and a non-numeral `a` (`Int` and `Nat`) -/
simproc_decl addLitRight (_ + _) := fun e => do
  let_expr HAdd.hAdd α _ _ _ a b ← e | return .continue
  let isInt := α.isConstOf ``Int
  unless isInt || α.isConstOf ``Nat do return .continue
  let lit (x : Expr) : MetaM Bool := do
    if isInt then return (← getIntValue? x).isSome else return (← getNatValue? x).isSome
  unless (← lit a) && !(← lit b) do return .continue
  let e' ← mkAdd b a
  return .visit { expr := e', proof? := mkApp2 (mkConst (if isInt then ``Int.add_comm else ``Nat.add_comm)) a b }

end Umya.Gen
