/-
  C11: what the first loop of the writer adds, name by name WITH content (`ExtC`), and what the second loop can
  add (`Obj2P`); the smallest-free-index allocation is fresh (`firstFree_free`).
-/
import Umya.Lemmas.Lazy
import Umya.Lemmas.LazyClosed
namespace Umya.Lazy

variable {C : Type}

/-! ## lookups of absent names -/

theorem lookupPart_none_of_not_has : ∀ (ps : List (PName × Content C)) (n : PName), hasPart ps n = false → lookupPart ps n = none
  | [], _, _ => rfl
  | (m, c) :: r, n, h => by
    by_cases hm : m = n
    · simp [hasPart, hm] at h
    · simp only [hasPart, hm, if_false] at h
      simp [lookupPart, hm, lookupPart_none_of_not_has r n h]

theorem lookup_none_of_not_has (w : WM C) (n : PName) (h : w.has n = false) : w.lookup n = none :=
  lookupPart_none_of_not_has _ _ h

theorem has_of_lookup_some : ∀ (ps : List (PName × Content C)) (n : PName) (c : Content C), lookupPart ps n = some c → hasPart ps n = true
  | [], _, _, h => by simp [lookupPart] at h
  | (m, c') :: r, n, c, h => by
    by_cases hm : m = n
    · simp [hasPart, hm]
    · simp only [lookupPart, hm, if_false] at h
      simp [hasPart, hm, has_of_lookup_some r n c h]

/-! ## `b` arises from `a` by `add`s of (name, content) pairs that satisfy `P` -/

inductive ExtC (P : PName → Content C → Prop) : WM C → WM C → Prop where
  | refl (w : WM C) : ExtC P w w
  | add {a b : WM C} (n : PName) (c : Content C) : P n c → ExtC P a b → ExtC P a (b.add n c)

theorem ExtC.trans {P : PName → Content C → Prop} {a b c : WM C} (h1 : ExtC P a b) (h2 : ExtC P b c) : ExtC P a c := by
  induction h2 with
  | refl => exact h1
  | add n c hp _ ih => exact ExtC.add n c hp ih

theorem ExtC.single {P : PName → Content C → Prop} (w : WM C) (n : PName) (c : Content C) (h : P n c) : ExtC P w (w.add n c) :=
  ExtC.add n c h (ExtC.refl w)

theorem ExtC.mono {P Q : PName → Content C → Prop} {a b : WM C} (hpq : ∀ n c, P n c → Q n c) (h : ExtC P a b) : ExtC Q a b := by
  induction h with
  | refl => exact ExtC.refl _
  | add n c hp _ ih => exact ExtC.add n c (hpq n c hp) ih

theorem ExtC.toExt {P : PName → Content C → Prop} {a b : WM C} (h : ExtC P a b) : Ext (fun _ => True) a b := by
  induction h with
  | refl => exact Ext.refl _
  | add n c _ _ ih => exact Ext.add n c trivial ih

/-- a name that is in `b` was in `a` (same content), or was added with a content that satisfies `P` -/
theorem ExtC.lookup_new {P : PName → Content C → Prop} {a b : WM C} (h : ExtC P a b) (m : PName) (hm : b.has m = true) :
    (a.has m = true ∧ b.lookup m = a.lookup m) ∨ (a.has m = false ∧ ∃ c, P m c ∧ b.lookup m = some c) := by
  induction h with
  | refl =>
    exact Or.inl ⟨hm, rfl⟩
  | add n c hp h' ih =>
    rename_i b'
    by_cases hb : b'.has m = true
    · rw [add_lookup_of_has _ n m c hb]
      exact ih hb
    · have hb' : b'.has m = false := has_false_of_not hb
      rcases (add_has_iff _ n m c).mp hm with h1 | h1
      · exact absurd h1 hb
      · subst h1
        right
        refine ⟨?_, c, hp, add_lookup_new _ _ _ hb'⟩
        apply has_false_of_not
        intro ha
        exact hb (h'.toExt.has_mono _ ha)

theorem foldl_extC {α} {P : PName → Content C → Prop} (f : WM C → α → WM C) (l : List α)
    (hf : ∀ w x, x ∈ l → ExtC P w (f w x)) (w : WM C) : ExtC P w (l.foldl f w) := by
  induction l generalizing w with
  | nil => exact ExtC.refl w
  | cons x xs ih =>
    simp only [List.foldl_cons]
    exact (hf w x (List.mem_cons_self ..)).trans (ih (fun w y hy => hf w y (List.mem_cons_of_mem _ hy)) _)

/-- a step of a fold that puts `n` there, and the fold only ever adds -/
theorem foldl_has {α} (f : WM C → α → WM C) (l : List α) (n : PName) (x : α) (hx : x ∈ l)
    (hstep : ∀ w, (f w x).has n = true) (hmono : ∀ w y, w.has n = true → (f w y).has n = true) (w : WM C) :
    (l.foldl f w).has n = true := by
  induction l generalizing w with
  | nil => simp at hx
  | cons y ys ih =>
    simp only [List.foldl_cons]
    have keep : ∀ (zs : List α) (w : WM C), w.has n = true → (zs.foldl f w).has n = true := by
      intro zs
      induction zs with
      | nil => intro w h; exact h
      | cons z zs ihz => intro w h; simp only [List.foldl_cons]; exact ihz _ (hmono w z h)
    rcases List.mem_cons.mp hx with e | e
    · subst e; exact keep ys _ (hstep w)
    · exact ih e _

/-! ## what `RawWorksheet::write` adds -/

/-- the name a relationships part of the closure is written under -/
def relsTarget (p : Nat) (r : RawSheet) (q : RawRels) : PName := if q.name = .rels r.file then .rels (.sheet p) else q.name

/-- the (name, content) pairs `writeRaw w p r` can add -/
def RawP (p : Nat) (r : RawSheet) (n : PName) (c : Content C) : Prop :=
  (n = .sheet p ∧ c = .bytes r.cid) ∨
  (∃ q ∈ r.closure, q.rels.isEmpty = false ∧ n = relsTarget p r q ∧ c = .relsOf q.targets) ∨
  (∃ q ∈ r.closure, ∃ r' ∈ q.rels, r'.empty = false ∧ n = r'.file ∧ c = .bytes r'.cid)

theorem writeRels_extC (P : PName → Content C → Prop) (w : WM C) (q : RawRels) (tgt : PName)
    (ht : q.rels.isEmpty = false → P tgt (.relsOf q.targets))
    (hq : ∀ r ∈ q.rels, r.empty = false → P r.file (.bytes r.cid)) : ExtC P w (writeRels w q tgt) := by
  unfold writeRels
  split
  · exact ExtC.refl w
  · rename_i hne
    refine (ExtC.single w tgt _ (ht (by simpa using hne))).trans (foldl_extC _ _ ?_ _)
    intro w r hr
    split
    · exact ExtC.refl w
    · rename_i he
      exact ExtC.single w _ _ (hq r hr (by simpa using he))

theorem writeRaw_extC (w : WM C) (p : Nat) (r : RawSheet) : ExtC (RawP p r) w (writeRaw w p r) := by
  unfold writeRaw
  refine (ExtC.single w _ _ (Or.inl ⟨rfl, rfl⟩)).trans (foldl_extC _ _ ?_ _)
  intro w q hq
  apply writeRels_extC
  · intro hne
    exact Or.inr (Or.inl ⟨q, hq, hne, rfl, rfl⟩)
  · intro r' hr' he
    exact Or.inr (Or.inr ⟨q, hq, r', hr', he, rfl, rfl⟩)

theorem writeRels_mono (w : WM C) (q : RawRels) (tgt : PName) (n : PName) (h : w.has n = true) : (writeRels w q tgt).has n = true :=
  (writeRels_ext (fun _ => True) w q tgt trivial (fun _ _ => trivial)).has_mono n h

theorem writeRels_has_target (w : WM C) (q : RawRels) (tgt : PName) (hne : q.rels.isEmpty = false) :
    (writeRels w q tgt).has tgt = true := by
  unfold writeRels
  simp only [hne, Bool.false_eq_true, if_false]
  have h0 : (w.add tgt (.relsOf q.targets)).has tgt = true := add_has_self _ _ _
  exact (foldl_ext (P := fun _ => True) _ q.rels (by
    intro w r _
    split
    · exact Ext.refl w
    · exact Ext.single w _ _ trivial) _).has_mono _ h0

theorem writeRels_has_file (w : WM C) (q : RawRels) (tgt : PName) (r' : RawRel) (hr : r' ∈ q.rels) (he : r'.empty = false) :
    (writeRels w q tgt).has r'.file = true := by
  unfold writeRels
  have hne : q.rels.isEmpty = false := by
    cases hq : q.rels with
    | nil => rw [hq] at hr; simp at hr
    | cons _ _ => rfl
  simp only [hne, Bool.false_eq_true, if_false]
  apply foldl_has _ _ _ r' hr
  · intro w; simp only [he, Bool.false_eq_true, if_false]; exact add_has_self _ _ _
  · intro w y h
    split
    · exact h
    · exact add_has_mono _ _ _ _ h

/-- every name `RawP` describes (for a non-empty relationships part / non-empty data) is there afterwards -/
theorem writeRaw_has (w : WM C) (p : Nat) (r : RawSheet) :
    (writeRaw w p r).has (.sheet p) = true ∧
    (∀ q ∈ r.closure, q.rels.isEmpty = false → (writeRaw w p r).has (relsTarget p r q) = true) ∧
    (∀ q ∈ r.closure, ∀ r' ∈ q.rels, r'.empty = false → (writeRaw w p r).has r'.file = true) := by
  refine ⟨(writeRaw_from (fun _ => True) w p r trivial (fun _ _ => trivial)).has_mono _ (add_has_self _ _ _), ?_, ?_⟩
  · intro q hq hne
    unfold writeRaw
    exact foldl_has _ _ _ q hq (fun w => writeRels_has_target w q _ hne) (fun w y h => writeRels_mono w y _ _ h) _
  · intro q hq r' hr' he
    unfold writeRaw
    exact foldl_has _ _ _ q hq (fun w => writeRels_has_file w q _ r' hr' he) (fun w y h => writeRels_mono w y _ _ h) _

/-! ## the first loop, sheet by sheet -/

/-- what the step for sheet `s` at position `k` can add -/
def StepP (k : Nat) (s : Sheet C) (n : PName) (c : Content C) : Prop :=
  match s.body with
  | .loaded l => n = .sheet k ∧ c = .ser l.content
  | .raw r => RawP k r n c

def LoopP (p : Nat) (ss : List (Sheet C)) (n : PName) (c : Content C) : Prop :=
  ∃ j s, ss[j]? = some s ∧ StepP (p + j) s n c

theorem sheetStep_extC (w : WM C) (k : Nat) (s : Sheet C) : ExtC (StepP k s) w (sheetStep false w k s) := by
  unfold sheetStep
  cases hb : s.body with
  | loaded l =>
    apply ExtC.single
    simp [StepP, hb]
  | raw r =>
    simp only [Bool.false_eq_true, if_false]
    refine ExtC.mono ?_ (writeRaw_extC w k r)
    intro n c h
    simpa [StepP, hb] using h

theorem loop1_extC (ss : List (Sheet C)) (p : Nat) (w : WM C) : ExtC (LoopP p ss) w (loop1 false w p ss) := by
  induction ss generalizing p w with
  | nil => exact ExtC.refl w
  | cons s ss ih =>
    simp only [loop1]
    refine ExtC.trans (ExtC.mono ?_ (sheetStep_extC w p s)) (ExtC.mono ?_ (ih (p + 1) _))
    · intro n c h
      exact ⟨0, s, by simp, by simpa using h⟩
    · rintro n c ⟨j, s', hj, h⟩
      refine ⟨j + 1, s', by simpa using hj, ?_⟩
      rwa [show p + (j + 1) = p + 1 + j by omega]

/-- the final state extends the state right after the step of position `j` -/
theorem loop1_after_step (ss : List (Sheet C)) (p : Nat) (w : WM C) (j : Nat) (s : Sheet C) (hj : ss[j]? = some s) :
    ∃ w0, Ext (fun _ => True) w w0 ∧ Ext (fun _ => True) (sheetStep false w0 (p + j) s) (loop1 false w p ss) := by
  induction ss generalizing p w j with
  | nil => simp at hj
  | cons s0 ss ih =>
    simp only [loop1]
    cases j with
    | zero =>
      simp only [List.getElem?_cons_zero, Option.some.injEq] at hj
      subst hj
      exact ⟨w, Ext.refl w, loop1_ext false ss (p + 1) _⟩
    | succ j =>
      simp only [List.getElem?_cons_succ] at hj
      obtain ⟨w0, h1, h2⟩ := ih (p + 1) (sheetStep false w p s0) j hj
      refine ⟨w0, (sheetStep_ext false w p s0).trans h1, ?_⟩
      rwa [show p + (j + 1) = p + 1 + j by omega]

/-! ## the second loop: which names it can add -/

/-- names the second loop can add for the sheets `ss` at positions from `p` -/
def Obj2P (p : Nat) (ss : List (Sheet C)) (n : PName) : Prop :=
  (∃ f i, n = .fam f i) ∨ (∃ f i, n = .rels (.fam f i)) ∨
  (∃ j s l, ss[j]? = some s ∧ s.body = .loaded l ∧ (n = .rels (.sheet (p + j)) ∨ n ∈ profNames l.prof))

theorem loop2_extP (ss : List (Sheet C)) (p : Nat) (w : WM C) : Ext (Obj2P p ss) w (loop2 w p ss) := by
  induction ss generalizing p w with
  | nil => exact Ext.refl w
  | cons s ss ih =>
    simp only [loop2]
    refine Ext.trans ?_ (Ext.mono ?_ (ih (p + 1) _))
    · unfold objStep
      cases hb : s.body with
      | raw r => exact Ext.refl _
      | loaded l =>
        apply emitSheet_ext
        · intro f i; exact Or.inl ⟨f, i, rfl⟩
        · intro f i; exact Or.inr (Or.inl ⟨f, i, rfl⟩)
        · exact Or.inr (Or.inr ⟨0, s, l, by simp, hb, Or.inl rfl⟩)
        · intro n hn
          exact Or.inr (Or.inr ⟨0, s, l, by simp, hb, Or.inr hn⟩)
    · rintro n (h | h | ⟨j, s', l, hj, hb, h⟩)
      · exact Or.inl h
      · exact Or.inr (Or.inl h)
      · refine Or.inr (Or.inr ⟨j + 1, s', l, by simpa using hj, hb, ?_⟩)
        rwa [show p + (j + 1) = p + 1 + j by omega]

/-! ## `add_file_at_*`: the index chosen is free, and every smaller one is taken -/

theorem has_le_maxIdx (f : Fam) : ∀ (ps : List (PName × Content C)) (i : Nat), hasPart ps (.fam f i) = true → i ≤ maxIdx f ps
  | [], _, h => by simp [hasPart] at h
  | (m, c) :: r, i, h => by
    by_cases hm : m = .fam f i
    · subst hm
      simp only [maxIdx, if_true]
      exact Nat.le_max_left _ _
    · simp only [hasPart, hm, if_false] at h
      have ih := has_le_maxIdx f r i h
      cases m with
      | fam g k =>
        simp only [maxIdx]
        split
        · exact Nat.le_trans ih (Nat.le_max_right _ _)
        · exact ih
      | sheet k => simpa [maxIdx] using ih
      | other s => simpa [maxIdx] using ih
      | rels o => simpa [maxIdx] using ih

theorem firstFreeFrom_spec (w : WM C) (f : Fam) : ∀ (fuel i : Nat),
    (w.has (.fam f (firstFreeFrom w f fuel i)) = false ∨ firstFreeFrom w f fuel i = i + fuel) ∧
    i ≤ firstFreeFrom w f fuel i ∧
    (∀ k, i ≤ k → k < firstFreeFrom w f fuel i → w.has (.fam f k) = true)
  | 0, i => by
    simp only [firstFreeFrom]
    exact ⟨Or.inr rfl, Nat.le_refl _, fun k h1 h2 => by omega⟩
  | fuel + 1, i => by
    simp only [firstFreeFrom]
    by_cases h : w.has (.fam f i) = true
    · simp only [h, if_true]
      obtain ⟨a, b, c⟩ := firstFreeFrom_spec w f fuel (i + 1)
      refine ⟨?_, by omega, ?_⟩
      · rcases a with a | a
        · exact Or.inl a
        · right; omega
      · intro k h1 h2
        by_cases hk : k = i
        · subst hk; exact h
        · exact c k (by omega) h2
    · have h' := has_false_of_not h
      simp only [h', Bool.false_eq_true, if_false]
      exact ⟨Or.inl trivial, Nat.le_refl _, fun k h1 h2 => by omega⟩

/-- the index `add_file_at_*` picks names no part that is there -/
theorem firstFree_free (w : WM C) (f : Fam) : w.has (.fam f (w.firstFree f)) = false := by
  unfold WM.firstFree
  rcases (firstFreeFrom_spec w f (maxIdx f w.parts) 1).1 with h | h
  · exact h
  · apply has_false_of_not
    intro hh
    have := has_le_maxIdx f w.parts _ hh
    omega

/-- … and it is the smallest such index ≥ 1 -/
theorem firstFree_smallest (w : WM C) (f : Fam) (k : Nat) (h1 : 1 ≤ k) (h2 : k < w.firstFree f) : w.has (.fam f k) = true :=
  (firstFreeFrom_spec w f (maxIdx f w.parts) 1).2.2 k h1 h2

theorem firstFree_pos (w : WM C) (f : Fam) : 1 ≤ w.firstFree f :=
  (firstFreeFrom_spec w f (maxIdx f w.parts) 1).2.1

end Umya.Lazy
