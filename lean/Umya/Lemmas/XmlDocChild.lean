/-
  A childless element written (with `write_start_tag(.., true)`) among the children of a part's root element is, for
  the independent XML reader applied to the CHARACTERS of the part, the first child element of that local name —
  whatever other writer calls come before and after it (texts, new lines, elements), as long as no earlier sibling
  element has that local name.  Used to lift attribute-level codecs to the characters (`Thm/C15Xml.lean`).
-/
import Umya.Thm.C02Bytes
namespace Umya.XmlWrite
open Umya.Spec.Xml (Node Attr pushText localName)

theorem eraseKids_append : ∀ (a b : List WNode), eraseKids (a ++ b) = eraseKids a ++ eraseKids b
  | [], b => by simp [eraseKids]
  | .elem n as ks :: r, b => by simp [eraseKids, eraseKids_append r b]
  | .empty n as :: r, b => by simp [eraseKids, eraseKids_append r b]
  | .text s :: r, b => by simp [eraseKids, eraseKids_append r b]
  | .conv s :: r, b => by simp [eraseKids, eraseKids_append r b]
  | .raw x v :: r, b => by simp [eraseKids, eraseKids_append r b]
  | .nl :: r, b => by simp [eraseKids, eraseKids_append r b]

theorem wfKids_append : ∀ (a b : List WNode), wfKids (a ++ b) = (wfKids a && wfKids b)
  | [], b => by simp [wfKids]
  | .elem n as ks :: r, b => by simp [wfKids, wfKids_append r b, Bool.and_assoc]
  | .empty n as :: r, b => by simp [wfKids, wfKids_append r b, Bool.and_assoc]
  | .text s :: r, b => by simp [wfKids, wfKids_append r b, Bool.and_assoc]
  | .conv s :: r, b => by simp [wfKids, wfKids_append r b, Bool.and_assoc]
  | .raw x v :: r, b => by simp [wfKids, wfKids_append r b, Bool.and_assoc]
  | .nl :: r, b => by simp [wfKids, wfKids_append r b]

theorem normKidsAcc_append : ∀ (a b acc : List Node), normKidsAcc acc (a ++ b) = normKidsAcc (normKidsAcc acc a) b
  | [], b, acc => by simp [normKidsAcc]
  | .text s :: r, b, acc => by simp only [List.cons_append, normKidsAcc]; exact normKidsAcc_append r b _
  | .elem n as ks :: r, b, acc => by simp only [List.cons_append, normKidsAcc]; exact normKidsAcc_append r b _

/-- is `y` an element with local name `key`? -/
def isKid (key : List Char) (y : Node) : Bool := y.isElem && localName y.name = key

theorem isKid_pushP (key : List Char) (acc : List Node) (s : List Char) (h : ∀ y ∈ acc, isKid key y = false) :
    ∀ y ∈ pushP acc s, isKid key y = false := by
  unfold pushP
  split
  · exact h
  · unfold pushText
    split
    · intro y hy
      simp only [List.mem_cons] at hy
      rcases hy with rfl | hy
      · rfl
      · exact h y (List.mem_cons_of_mem _ hy)
    · intro y hy
      simp only [List.mem_cons] at hy
      rcases hy with rfl | hy
      · rfl
      · exact h y hy

/-- no element named `key` among the children stays so under normalisation -/
theorem isKid_normKidsAcc (key : List Char) : ∀ (ks acc : List Node), (∀ y ∈ acc, isKid key y = false) →
    (∀ y ∈ ks, isKid key y = false) → ∀ y ∈ normKidsAcc acc ks, isKid key y = false
  | [], acc, ha, _ => by rw [normKidsAcc]; exact ha
  | .text s :: r, acc, ha, hk => by
    rw [normKidsAcc]
    exact isKid_normKidsAcc key r _ (isKid_pushP key acc s ha) (fun y hy => hk y (List.mem_cons_of_mem _ hy))
  | .elem n as ks :: r, acc, ha, hk => by
    rw [normKidsAcc]
    apply isKid_normKidsAcc key r _ _ (fun y hy => hk y (List.mem_cons_of_mem _ hy))
    intro y hy
    simp only [List.mem_cons] at hy
    rcases hy with rfl | hy
    · have := hk _ (List.mem_cons_self ..)
      exact this
    · exact ha y hy

theorem pushP_elem_base (e : Node) (he : e.isElem = true) (X A : List Node) (s : List Char) :
    ∃ Y, pushP (X ++ e :: A) s = Y ++ e :: A := by
  unfold pushP
  split
  · exact ⟨X, rfl⟩
  · cases X with
    | nil =>
      cases e with
      | text t => simp [Node.isElem] at he
      | elem n as ks => exact ⟨[.text s], by simp [pushText]⟩
    | cons x X' =>
      cases x with
      | text t => exact ⟨.text (t ++ s) :: X', by simp [pushText]⟩
      | elem n as ks => exact ⟨.text s :: .elem n as ks :: X', by simp [pushText]⟩

/-- an element already delivered stays where it is -/
theorem normKidsAcc_elem_base (e : Node) (he : e.isElem = true) (A : List Node) : ∀ (ks X : List Node),
    ∃ Y, normKidsAcc (X ++ e :: A) ks = Y ++ e :: A
  | [], X => ⟨X, by rw [normKidsAcc]⟩
  | .text s :: r, X => by
    rw [normKidsAcc]
    obtain ⟨Y, hY⟩ := pushP_elem_base e he X A s
    rw [hY]
    exact normKidsAcc_elem_base e he A r Y
  | .elem n as ks :: r, X => by
    rw [normKidsAcc]
    exact normKidsAcc_elem_base e he A r (_ :: X)

/-- **a childless element written among the children of the root is the reader's first child of that name**, when no
    earlier sibling element has that local name -/
theorem kid_of_doc (rn : List Char) (ras : List Attr) (pre post : List WNode) (n : List Char) (as : List Attr)
    (key : String) (hkey : localName n = key.toList)
    (hwf : WF (.elem rn ras (pre ++ [.empty n as] ++ post)) = true)
    (hpre : ∀ y ∈ eraseKids pre, isKid key.toList y = false) :
    ∃ root, Umya.Spec.Xml.parse (renderDoc (.elem rn ras (pre ++ [.empty n as] ++ post))) = some root ∧
      root.kid? key = some (.elem n as []) := by
  refine ⟨_, Umya.Thm.C02.C02_bytes_parse _ rfl hwf, ?_⟩
  simp only [erase, normNode, normKids, eraseKids_append, eraseKids, List.append_assoc, List.cons_append, List.nil_append]
  rw [normKidsAcc_append, normKidsAcc]
  obtain ⟨Y, hY⟩ := normKidsAcc_elem_base (.elem n as (normKidsAcc [] []).reverse) rfl (normKidsAcc [] (eraseKids pre))
    (eraseKids post) []
  simp only [List.nil_append] at hY
  rw [hY]
  have hA := isKid_normKidsAcc key.toList (eraseKids pre) [] (by intro y hy; cases hy) hpre
  simp only [Node.kid?, Node.kids, Node.children, List.reverse_append, List.reverse_cons, List.append_assoc,
    List.filter_append, List.cons_append, List.nil_append]
  have hf : (normKidsAcc [] (eraseKids pre)).reverse.filter (fun c => c.isElem && decide (localName c.name = key.toList)) = [] := by
    rw [List.filter_eq_nil_iff]
    intro y hy
    have := hA y (List.mem_reverse.mp hy)
    simpa [isKid] using this
  rw [hf]
  simp [normKidsAcc, Node.isElem, Node.name, hkey]

end Umya.XmlWrite
