/-
  (T) The tag-level structure of `writer/driver.rs` as regenerated from the source on every run
  (`Umya.Gen.driver_shape`, `Umya.Gen.write_*_escape` in `Umya/Model/Gen/Tables.lean`) yields the functions of
  the hand model `Umya/Model/XmlWrite.lean`, for all arguments.
-/
import Umya.Model.XmlWrite
import Umya.Lemmas.TablesGen
namespace Umya.XmlWrite
open Umya.XmlEsc Umya.Gen
open Umya.Spec.Xml (Attr)

/-- quick-xml event names as they appear in the source -/
def kindOfEvent (s : String) : Option EvKind :=
  if s = "Start" then some .start else if s = "Empty" then some .empty
  else if s = "End" then some .stop else if s = "Text" then some .text else none

/-! the writer functions as read off a generated description `G` and the generated escape pipelines;
    `none` = the description is outside what the model covers -/

def genAttr (a : Attr) : Text :=
  ' ' :: a.name ++ '=' :: '"' :: write_start_tag_escape.run escapeOld partialEscapeOld a.value ++ ['"']

def genStartTag (G : DriverShape) (n : Text) (as : List Attr) (e : Bool) : Option Text :=
  if G.attrValueIsEscaped then
    (kindOfEvent (if e then G.startTagWhenEmpty else G.startTagOtherwise)).map fun k => writeEvent k (n ++ as.flatMap genAttr)
  else none

def genEndTag (G : DriverShape) (n : Text) : Option Text := (kindOfEvent G.endTag).map fun k => writeEvent k n

def genNoEscape (G : DriverShape) (s : Text) : Option Text := if G.noEscapeIsRawWrite then some s else none

def genTextNode (G : DriverShape) (s : Text) : Option Text :=
  if G.textNodeCtor = "from_escaped" then
    (kindOfEvent G.textNodeEvent).map fun k => writeEvent k (write_text_node_escape.run escapeOld partialEscapeOld s)
  else none

def genConversion (G : DriverShape) (s : Text) : Option Text :=
  if G.conversionVia = "write_text_node_no_escape" then
    genNoEscape G (write_text_node_conversion_escape.run escapeOld partialEscapeOld s)
  else none

def genNewLine (G : DriverShape) : Option Text :=
  if G.newLineVia = "write_text_node_no_escape" then genNoEscape G G.newLineLiteral.toList else none

theorem genAttr_eq (a : Attr) : genAttr a = renderAttr a := by
  simp [genAttr, renderAttr, gen_write_start_tag]

theorem writer_matches_source (n : Text) (as : List Attr) (e : Bool) (s : Text) :
    genStartTag driver_shape n as e = some (writeStartTag n as e) ∧
    genEndTag driver_shape n = some (writeEndTag n) ∧
    genTextNode driver_shape s = some (writeTextNode s) ∧
    genNoEscape driver_shape s = some (writeTextNodeNoEscape s) ∧
    genConversion driver_shape s = some (writeTextNodeConversion s) ∧
    genNewLine driver_shape = some writeNewLine := by
  have hA : (fun a => genAttr a) = renderAttr := funext genAttr_eq
  refine ⟨?_, ?_, ?_, ?_, ?_, ?_⟩
  · cases e <;> simp [genStartTag, driver_shape, kindOfEvent, writeStartTag, startKind, renderAttrs, hA]
  · simp [genEndTag, driver_shape, kindOfEvent, writeEndTag]
  · simp [genTextNode, driver_shape, kindOfEvent, writeTextNode, gen_write_text_node]
  · simp [genNoEscape, driver_shape, writeTextNodeNoEscape]
  · simp [genConversion, genNoEscape, driver_shape, writeTextNodeConversion, writeTextNodeNoEscape, gen_write_text_node_conversion]
  · simp [genNewLine, genNoEscape, driver_shape, writeNewLine, writeTextNodeNoEscape, newLineLit]

end Umya.XmlWrite
