/-
  What `decode` needs from the package of `Umya/Model/PackageNodeCmt.lean` besides the sheets (main relationship,
  shared strings, style sizes — as in the plain package), the numbers the sheets are given, and the `legacyDrawing`
  child of a sheet with comments.
-/
import Umya.Lemmas.PackageNodeCmtRels
import Umya.Lemmas.PackageNodeDecode
namespace Umya.PackageNode
open Umya.Xml Umya.CellXml Umya.CellNode Umya.SheetNode Umya.WorkbookNode Umya.Dec
open Umya.Spec.Xml (Node Attr localName)
open Umya.Spec.Sml

/-! ### the numbers, per position -/

def countTrue (l : List Bool) : Nat := (l.filter id).length

theorem numSpec_get (flags : List Bool) : ∀ (c i : Nat),
    (numSpec c flags)[i]? = (flags[i]?).map (fun f => if f then some (c + countTrue (flags.take i) + 1, c + countTrue (flags.take i) + 1) else none) := by
  induction flags with
  | nil => intro c i; simp [numSpec]
  | cons f r ih =>
    intro c i
    cases i with
    | zero => cases f <;> simp [numSpec, countTrue]
    | succ i =>
      cases f with
      | false => simp [numSpec, ih, countTrue]
      | true =>
        simp only [numSpec, List.getElem?_cons_succ, ih, List.take_succ_cons, countTrue, List.filter_cons, id, if_true, List.length_cons]
        congr 1
        funext g
        cases g <;> simp only [if_true, Bool.false_eq_true, if_false]
        congr 2 <;> omega

/-- the sheet at position `i` gets a pair exactly when it has comments, and then the pair `(m + 1, m + 1)` where `m`
    is the number of earlier sheets with comments -/
theorem annotate_num {N : Type} (ss : List (SheetC N)) (i : Nat) (s : SheetC N) (num : Option (Nat × Nat))
    (h : (annotate ss)[i]? = some (s, num)) :
    num = if s.has then some (countTrue ((ss.take i).map (·.has)) + 1, countTrue ((ss.take i).map (·.has)) + 1) else none := by
  unfold annotate at h
  rw [List.getElem?_zip_eq_some] at h
  obtain ⟨h1, h2⟩ := h
  rw [numbering_nil, numSpec_get, List.getElem?_map, h1] at h2
  simp only [Option.map_some, Option.some.injEq, Nat.zero_add, ← List.map_take] at h2
  exact h2.symm

theorem annotate_isSome {N : Type} (ss : List (SheetC N)) (i : Nat) (s : SheetC N) (num : Option (Nat × Nat))
    (h : (annotate ss)[i]? = some (s, num)) : num.isSome = s.has := by
  rw [annotate_num ss i s num h]
  cases s.has <;> rfl

/-! ### the `legacyDrawing` child -/

theorem ridsOk_append_left (ids ids' : List String) (fr : Frame) (h : fr.ridsOk ids = true) : fr.ridsOk (ids ++ ids') = true := by
  unfold Frame.ridsOk at h ⊢
  rw [List.all_eq_true] at h ⊢
  intro k hk
  have := h k hk
  cases hr : k.attr? ['r', ':', 'i', 'd'] with
  | none => rfl
  | some rid =>
    rw [hr] at this
    simp only [List.contains_eq_mem, List.mem_append, decide_eq_true_eq] at this ⊢
    exact Or.inl this

theorem legacy_attr (k : Nat) : (legacyEl k).attr? ['r', ':', 'i', 'd'] = some (rIdText k) := by
  simp [legacyEl, Node.attr?, Node.attrs]

/-- the ids of a list of relationship elements are the ids of the records the decoder reads -/
theorem relIds_recs (l : List Node) : relIds l = ((l.filter (isKid nRelationship)).map relOf).map (·.id) := by
  simp only [relIds, List.map_map]
  rfl

/-- THE FRAME WITH `legacyDrawing`.  If the opaque children name only hyperlink relationships, then every `r:id` of the
    written frame — the one of `legacyDrawing` included — is the `Id` of a relationship of the sheet's part -/
theorem frameW_ridsOk {N : Type} (s : SheetC N) (num : Option (Nat × Nat)) (hnum : num.isSome = s.has)
    (h : s.frameU.ridsOk (relIds (relWalk 1 s.sheet.links)) = true) :
    s.frameW.ridsOk (relIds (relWalk 1 s.sheet.links ++ restOf s.sheet.links num)) = true := by
  rw [relIds_append]
  have hU := ridsOk_append_left _ (relIds (restOf s.sheet.links num)) _ h
  unfold Frame.ridsOk Frame.kids at hU ⊢
  simp only [SheetC.frameU, SheetC.frameW, List.all_append, Bool.and_eq_true] at hU ⊢
  refine ⟨⟨⟨hU.1.1.1, hU.1.1.2⟩, hU.1.2⟩, ⟨hU.2.1, ?_⟩, hU.2.2⟩
  unfold SheetC.legacy
  cases hh : s.has with
  | false => rfl
  | true =>
    rw [hh] at hnum
    cases num with
    | none => cases hnum
    | some vc =>
      obtain ⟨v, c⟩ := vc
      simp only [if_true, List.all_cons, List.all_nil, Bool.and_true, legacy_attr, relIds_recs (restOf _ _), restOf_recs]
      simp [cmtRecs, relRec]

/-- the written `<worksheet>` has the `legacyDrawing` child the model says -/
theorem renderSheet_children (F : Umya.Num.NumFmt) (xf : List Char → Nat) (fr : Frame) (tbl : Table) (s : SheetW F.Num) (t : Table) (root : Node)
    (h : renderSheet F xf fr tbl s = some (t, root)) : ∀ k ∈ fr.post, k ∈ root.children := by
  unfold renderSheet at h
  cases hw : writeRows F tbl (rowGroups s.rows s.cells) with
  | none => simp [hw] at h
  | some q =>
    obtain ⟨t1, ws⟩ := q
    simp only [hw, Option.map_eq_some_iff] at h
    obtain ⟨sd, _, he⟩ := h
    have : root = worksheetNode fr sd s.merges s.links := (Prod.mk.inj he).2.symm
    subst this
    intro k hk
    simp only [worksheetNode, Node.children, List.mem_append]
    exact Or.inr hk

/-! ### main relationship, shared strings, style sizes -/

section
variable {F : Umya.Num.NumFmt}
variable {b : BookC F.Num} {cmt : List Part} {tbl : Table} {sst : List Part} (hb : Built F b cmt tbl sst) (hs : Bool) (roots : List Node)
include hb

theorem mainRelC :
    (relsOf (assembleC F b hs roots cmt sst) "").find? (fun r => r.type.endsWith "/officeDocument") = some (relRec 1 tOfficeDoc nWorkbookPart) := by
  rw [relsOfC_root hb hs roots]
  simp only [List.find?_cons, relRec, ends_xprops, ends_coreprops, ends_office]

theorem dStylesRootC : dStylesRoot (assembleC F b hs roots cmt sst) (String.ofList nWorkbookPart) = some b.styles := by
  unfold dStylesRoot
  rw [relsOfC_wb hb hs roots, List.find?_append, wsRecs_find_none _ (fun k => by simp only [ends_ws_styles]) _ 1]
  simp only [Option.none_or, wbRestRecs, List.cons_append, List.find?_cons, relRec, ends_styles_styles, Option.map_some, Option.bind_some]
  rw [resolve_wb tStylesTarget nStyles (by decide)]
  show ((assembleC F b hs roots cmt sst).part? (String.ofList nStyles)).bind (·.xml) = _
  rw [partC_styles hb hs roots]; rfl

theorem dNXfC :
    dNXf (assembleC F b hs roots cmt sst) (String.ofList nWorkbookPart) = nXfOf b.styles ∧
    dNDxf (assembleC F b hs roots cmt sst) (String.ofList nWorkbookPart) = nDxfOf b.styles := by
  unfold dNXf dNDxf
  rw [dStylesRootC hb hs roots]
  exact ⟨rfl, rfl⟩

omit hb in
/-- the shared strings the decoder finds are the texts of the final table -/
theorem dSstC (hb : Built F b cmt tbl sst) : dSst (assembleC F b (!tbl.isEmpty) roots cmt sst) (String.ofList nWorkbookPart) = tbl.map itemText := by
  unfold dSst
  rw [relsOfC_wb hb _ roots, List.find?_append, wsRecs_find_none _ (fun k => by simp only [ends_ws_sst]) _ 1]
  have hsst := hb.sst
  cases hsst with
  | absent h =>
    subst h
    simp only [Option.none_or, wbRestRecs, List.isEmpty_nil, Bool.not_true, Bool.false_eq_true, if_false, List.append_nil,
      List.find?_cons, relRec, ends_styles_sst, ends_theme_sst, List.find?_nil, Option.map_none, List.map_nil]
  | present root hne hroot =>
    have he : (!tbl.isEmpty) = true := by cases tbl with | nil => exact absurd rfl hne | cons _ _ => rfl
    simp only [he, Option.none_or, wbRestRecs, if_true, List.cons_append, List.nil_append,
      List.find?_cons, relRec, ends_styles_sst, ends_theme_sst, ends_sst_sst, Option.map_some]
    rw [resolve_wb tSstTarget nSst (by decide)]
    unfold sharedStrings
    rw [partC_sst hb true roots]
    obtain ⟨root', h1, h2⟩ := sstNode_texts tbl
    rw [hroot] at h1
    cases h1
    simpa [xmlPart] using h2

end
end Umya.PackageNode
