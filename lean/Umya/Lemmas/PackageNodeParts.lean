/-
  Looking a part up by name in the package of `Umya/Model/PackageNode.lean` (`Package.part?`), for every sheet
  number; the list of all its parts, classified.
-/
import Umya.Lemmas.PackagePath
import Umya.Lemmas.SheetNodeCells
namespace Umya.PackageNode
open Umya.Xml Umya.CellXml Umya.CellNode Umya.SheetNode Umya.WorkbookNode Umya.Dec
open Umya.Spec.Xml (Node Attr)
open Umya.Spec.Sml

theorem name_eq (a b : List Char) : (String.ofList a = String.ofList b) = (a = b) :=
  propext ⟨fun h => String.ofList_injective h, fun h => congrArg _ h⟩

theorem find_cons_eq (a : List Char) (r : Node) (l : List Part) :
    (xmlPart a r :: l).find? (fun x => x.name = String.ofList a) = some (xmlPart a r) := by
  simp [xmlPart]

theorem find_cons_ne (a b : List Char) (r : Node) (l : List Part) (h : a ≠ b) :
    (xmlPart a r :: l).find? (fun x => x.name = String.ofList b) = l.find? (fun x => x.name = String.ofList b) := by
  simp [xmlPart, name_eq, h]

/-! ## the sheet parts -/

theorem sheetParts_find_other (nm : List Char) (h : ∀ i, sheetPartL i ≠ nm) : ∀ (roots : List Node) (k : Nat),
    (sheetParts k roots).find? (fun x => x.name = String.ofList nm) = none := by
  intro roots
  induction roots with
  | nil => intro _; rfl
  | cons r rs ih => intro k; rw [sheetParts, find_cons_ne _ _ _ _ (h k), ih]

theorem sheetParts_find : ∀ (roots : List Node) (k j : Nat), k ≤ j →
    (sheetParts k roots).find? (fun x => x.name = String.ofList (sheetPartL j)) = (roots[j - k]?).map (xmlPart (sheetPartL j)) := by
  intro roots
  induction roots with
  | nil => intro _ _ _; rfl
  | cons r rs ih =>
    intro k j hkj
    rw [sheetParts]
    by_cases hj : j = k
    · subst hj; rw [find_cons_eq]; simp
    · rw [find_cons_ne _ _ _ _ (fun e => hj (sheetPartL_inj _ _ e).symm), ih (k + 1) j (by omega)]
      have : j - k = (j - (k + 1)) + 1 := by omega
      rw [this, List.getElem?_cons_succ]

theorem sheetParts_names : ∀ (roots : List Node) (k : Nat) (part : Part), part ∈ sheetParts k roots →
    ∃ j r, k ≤ j ∧ j < k + roots.length ∧ part = xmlPart (sheetPartL j) r := by
  intro roots
  induction roots with
  | nil => intro _ _ h; simp [sheetParts] at h
  | cons r rs ih =>
    intro k part h
    rw [sheetParts] at h
    rcases List.mem_cons.1 h with rfl | h
    · exact ⟨k, r, by omega, by simp, rfl⟩
    · obtain ⟨j, r', h1, h2, h3⟩ := ih (k + 1) part h
      exact ⟨j, r', by omega, by simp; omega, h3⟩

section
variable (F : Umya.Num.NumFmt)

theorem sheetRelsParts_find_other (nm : List Char) (h : ∀ i, sheetRelsL i ≠ nm) : ∀ (ss : List (SheetP F.Num)) (k : Nat),
    (sheetRelsParts F k ss).find? (fun x => x.name = String.ofList nm) = none := by
  intro ss
  induction ss with
  | nil => intro _; rfl
  | cons s ss ih =>
    intro k
    rw [sheetRelsParts, List.find?_append, ih]
    cases relsRoot s.sheet.links [] with
    | none => rfl
    | some rr => simp only [find_cons_ne _ _ _ _ (h k)]; rfl

theorem sheetRelsParts_find : ∀ (ss : List (SheetP F.Num)) (k j : Nat), k ≤ j →
    (sheetRelsParts F k ss).find? (fun x => x.name = String.ofList (sheetRelsL j)) =
      (ss[j - k]?).bind (fun s => (relsRoot s.sheet.links []).map (xmlPart (sheetRelsL j))) := by
  intro ss
  induction ss with
  | nil => intro _ _ _; rfl
  | cons s ss ih =>
    intro k j hkj
    rw [sheetRelsParts, List.find?_append]
    by_cases hj : j = k
    · subst hj
      simp only [Nat.sub_self, List.getElem?_cons_zero, Option.bind_some]
      cases hrr : relsRoot s.sheet.links [] with
      | some rr => simp only [find_cons_eq]; rfl
      | none =>
        simp only [List.find?_nil, Option.none_or, Option.map_none]
        -- no later part has this name
        have : ∀ (ss : List (SheetP F.Num)) (k' : Nat), j < k' → (sheetRelsParts F k' ss).find? (fun x => x.name = String.ofList (sheetRelsL j)) = none := by
          intro ss
          induction ss with
          | nil => intro _ _; rfl
          | cons s' ss' ih' =>
            intro k' hk'
            rw [sheetRelsParts, List.find?_append, ih' (k' + 1) (by omega)]
            cases relsRoot s'.sheet.links [] with
            | none => rfl
            | some rr => simp only [find_cons_ne (sheetRelsL k') (sheetRelsL j) _ _ (fun e => by have := sheetRelsL_inj _ _ e; omega)]; rfl
        exact this ss (j + 1) (by omega)
    · have hne : sheetRelsL k ≠ sheetRelsL j := fun e => hj (sheetRelsL_inj _ _ e).symm
      have h2 : (List.find? (fun (x : Part) => decide (x.name = String.ofList (sheetRelsL j))) (sheetRelsParts F (k + 1) ss)) =
          (s :: ss)[j - k]?.bind fun s => Option.map (xmlPart (sheetRelsL j)) (relsRoot s.sheet.links []) := by
        rw [ih (k + 1) j (by omega)]
        have : j - k = (j - (k + 1)) + 1 := by omega
        rw [this, List.getElem?_cons_succ]
      cases relsRoot s.sheet.links [] with
      | none => simpa using h2
      | some rr => simp only [find_cons_ne _ _ _ _ hne]; simpa using h2

theorem sheetRelsParts_names : ∀ (ss : List (SheetP F.Num)) (k : Nat) (part : Part), part ∈ sheetRelsParts F k ss →
    ∃ j s rr, k ≤ j ∧ ss[j - k]? = some s ∧ relsRoot s.sheet.links [] = some rr ∧ part = xmlPart (sheetRelsL j) rr := by
  intro ss
  induction ss with
  | nil => intro _ _ h; simp [sheetRelsParts] at h
  | cons s ss ih =>
    intro k part h
    rw [sheetRelsParts] at h
    rcases List.mem_append.1 h with h | h
    · cases hrr : relsRoot s.sheet.links [] with
      | none => rw [hrr] at h; simp at h
      | some rr =>
        rw [hrr] at h
        simp only [List.mem_singleton] at h
        exact ⟨k, s, rr, by omega, by simp, hrr, h⟩
    · obtain ⟨j, s', rr, h1, h2, h3, h4⟩ := ih (k + 1) part h
      refine ⟨j, s', rr, by omega, ?_, h3, h4⟩
      have : j - k = (j - (k + 1)) + 1 := by omega
      rw [this, List.getElem?_cons_succ]; exact h2

/-! ## rendering all sheets: lengths, tables -/

theorem renderSheet_grows (xf : List Char → Nat) (fr : Frame) (tbl : Table) (s : SheetW F.Num) (t : Table) (root : Node)
    (h : renderSheet F xf fr tbl s = some (t, root)) : ∃ ext, t = tbl ++ ext := by
  unfold renderSheet at h
  cases hw : writeRows F tbl (rowGroups s.rows s.cells) with
  | none => simp [hw] at h
  | some q =>
    obtain ⟨t1, ws⟩ := q
    simp only [hw, Option.map_eq_some_iff] at h
    obtain ⟨sd, _, he⟩ := h
    have : t1 = t := (Prod.mk.inj he).1
    subst this
    obtain ⟨h1, _⟩ := writeRows_eq_writeCells F _ tbl t1 ws hw
    exact (writeCells_decodes F (fun _ => 0) _ tbl t1 _ h1).1

/-- the K-th sheet is rendered from some table to some table, both prefixes of the final one -/
theorem renderSheetsP_nth : ∀ (ss : List (SheetP F.Num)) (tbl t : Table) (roots : List Node),
    renderSheetsP F tbl ss = some (t, roots) →
    roots.length = ss.length ∧ (∃ ext, t = tbl ++ ext) ∧
    ∀ (i : Nat) (s : SheetP F.Num), ss[i]? = some s →
      ∃ t0 t1 root, roots[i]? = some root ∧ renderSheet F s.xf s.frame t0 s.sheet = some (t1, root) ∧ ∃ ext, t = t1 ++ ext := by
  intro ss
  induction ss with
  | nil =>
    intro tbl t roots h
    simp only [renderSheetsP] at h
    cases h
    exact ⟨rfl, ⟨[], by simp⟩, fun i s hs => by simp at hs⟩
  | cons s ss ih =>
    intro tbl t roots h
    simp only [renderSheetsP] at h
    cases h1 : renderSheet F s.xf s.frame tbl s.sheet with
    | none => rw [h1] at h; cases h
    | some q =>
      obtain ⟨t1, root⟩ := q
      rw [h1] at h
      simp only at h
      cases h2 : renderSheetsP F t1 ss with
      | none => rw [h2] at h; cases h
      | some q2 =>
        obtain ⟨t2, rs⟩ := q2
        rw [h2] at h
        cases h
        obtain ⟨il, ⟨ext2, ie⟩, inth⟩ := ih t1 t rs h2
        obtain ⟨ext1, he1⟩ := renderSheet_grows F _ _ _ _ _ _ h1
        refine ⟨by simp [il], ⟨ext1 ++ ext2, by rw [ie, he1, List.append_assoc]⟩, ?_⟩
        intro i s' hs'
        cases i with
        | zero =>
          simp only [List.getElem?_cons_zero, Option.some.injEq] at hs'
          subst hs'
          exact ⟨tbl, t1, root, by simp, h1, ext2, ie⟩
        | succ i =>
          simp only [List.getElem?_cons_succ] at hs'
          obtain ⟨t0, t1', root', hr, hrend, hext⟩ := inth i s' hs'
          exact ⟨t0, t1', root', by simpa using hr, hrend, hext⟩

end
end Umya.PackageNode
