/-
  Helper definitions and lemmas for C03 at sheet level (`Umya/Thm/C03Sheet.lean`): the model of the reader's
  `<sheetData>` loop (`Umya.Reader.readRows`) against the decoder's cell list
  (`Spec.Sml.decodeSheet`: `rowNumbers`, `fillRefs`, `expandShared`).

  The decoder's shared-formula expansion is hard-wired to the spec's translator
  `Spec.SharedF.translateText`; `expandSharedT` is the same walk with the translator as a parameter
  (`expandSharedT_spec`: with the spec's translator it IS `Spec.Sml.expandShared`).
-/
import Umya.Model.ReaderSheet
import Umya.Thm.C03Cell
namespace Umya.Reader.Lemmas
open Umya.Reader Umya.Spec.Xml Umya.Spec.Sml Umya.Coord Umya.Thm.C03

/-! ## the decoder's cell list, as a function of the `<row>` elements -/

/-- the cells of one row as the decoder reads them: `decodeCell` per `<c>`, then `fillRefs` -/
def filledRow (sst : List Text) (rn prev : Nat) (cs : List Node) : List CellV :=
  fillRefs rn prev ((cs.map (decodeCell sst)).map (·.1))

/-- all cells of the sheet in document order, references filled in (before shared-formula expansion) -/
def specFilled (sst : List Text) : Nat → List Node → List CellV
  | _, [] => []
  | prev, r :: rest =>
    filledRow sst (((r.attr? "r".toList).bind natOf).getD (prev + 1)) 0 (r.kids "c") ++
      specFilled sst (((r.attr? "r".toList).bind natOf).getD (prev + 1)) rest

theorem specFilled_eq (sst : List Text) : ∀ (rows : List Node) (prev : Nat),
    specFilled sst prev rows =
      (rows.zip (rowNumbers prev rows)).flatMap
        (fun p => fillRefs p.2 0 (((p.1.kids "c").map (decodeCell sst)).map (·.1))) := by
  intro rows
  induction rows with
  | nil => intro _; rfl
  | cons r rest ih =>
    intro prev
    simp only [specFilled, rowNumbers, List.zip_cons_cons, List.flatMap_cons, ih, filledRow]

/-- the decoder's cells of a sheet: `decodeSheet`'s `cells` field -/
def specSheetCells (sst : List Text) (rows : List Node) : List CellV :=
  Umya.Spec.Sml.expandShared [] (specFilled sst 0 rows)

/-! ## shared-formula expansion with the translator as a parameter -/

/-- the master list after the cells `cs` (it does not depend on the translator) -/
def mastersAfter : List Master → List CellV → List Master
  | ms, [] => ms
  | ms, c :: rest =>
    match c.shared with
    | none => mastersAfter ms rest
    | some si =>
      match ms.find? (·.si = si) with
      | none => mastersAfter (⟨si, colOf c.ref, rowOf c.ref, c.formula.getD []⟩ :: ms) rest
      | some _ => mastersAfter ms rest

/-- `Spec.Sml.expandShared` with the translator `T` in the place of `SharedF.translateText`
    (`none` = the translator panics: at the master in `parseOk`, at a child in `tr`) -/
def expandSharedT (T : Tr) : List Master → List CellV → Option (List CellV)
  | _, [] => some []
  | ms, c :: rest =>
    match c.shared with
    | none => (expandSharedT T ms rest).map (c :: ·)
    | some si =>
      match ms.find? (·.si = si) with
      | none =>
        if T.parseOk (c.formula.getD []) then
          (expandSharedT T (⟨si, colOf c.ref, rowOf c.ref, c.formula.getD []⟩ :: ms) rest).map (c :: ·)
        else none
      | some m =>
        if (c.formula.getD []).isEmpty then
          match T.tr m.text ((colOf c.ref : Int) - m.col) ((rowOf c.ref : Int) - m.row) with
          | none => none
          | some t => (expandSharedT T ms rest).map ({ c with formula := some t, sharedChild := true } :: ·)
        else (expandSharedT T ms rest).map ({ c with sharedChild := true } :: ·)

/-- the spec's translator: never panics -/
def specTr : Tr where
  parseOk _ := true
  tr m dc dr := some (Umya.Spec.SharedF.translateText m dc dr)

theorem specTr_parseOk (m : Text) : specTr.parseOk m = true := rfl
theorem specTr_tr (m : Text) (dc dr : Int) : specTr.tr m dc dr = some (Umya.Spec.SharedF.translateText m dc dr) := rfl

theorem expandSharedT_spec : ∀ (cs : List CellV) (ms : List Master),
    expandSharedT specTr ms cs = some (Umya.Spec.Sml.expandShared ms cs) := by
  intro cs
  induction cs with
  | nil => intro _; rfl
  | cons c rest ih =>
    intro ms
    cases hs : c.shared with
    | none => simp only [expandSharedT, Umya.Spec.Sml.expandShared, hs, ih, Option.map_some]
    | some si =>
      cases hm : ms.find? (·.si = si) with
      | none => simp only [expandSharedT, Umya.Spec.Sml.expandShared, hs, hm, specTr_parseOk, if_true, ih, Option.map_some]
      | some m =>
        by_cases he : (c.formula.getD []).isEmpty = true
        · simp only [expandSharedT, Umya.Spec.Sml.expandShared, hs, hm, he, if_true, specTr_tr, ih, Option.map_some]
        · simp only [expandSharedT, Umya.Spec.Sml.expandShared, hs, hm, he, if_false, ih, Option.map_some,
            Bool.false_eq_true]

/-- **well-formed shared groups** (ECMA-376 18.3.1.40), walking the cells in document order: the first
    `f t="shared"` of an `si` is the master and carries the formula text; every later `f` of that `si` is a
    child and carries none.  (So each `si` has exactly one master, and it precedes its children.) -/
def groupsOk : List Master → List CellV → Bool
  | _, [] => true
  | ms, c :: rest =>
    match c.shared with
    | none => groupsOk ms rest
    | some si =>
      match ms.find? (·.si = si) with
      | none => !(c.formula.getD []).isEmpty && groupsOk (⟨si, colOf c.ref, rowOf c.ref, c.formula.getD []⟩ :: ms) rest
      | some _ => (c.formula.getD []).isEmpty && groupsOk ms rest

/-! ### the three walks over `xs ++ ys` -/

theorem mastersAfter_append : ∀ (xs ys : List CellV) (ms : List Master),
    mastersAfter ms (xs ++ ys) = mastersAfter (mastersAfter ms xs) ys := by
  intro xs
  induction xs with
  | nil => intro _ _; rfl
  | cons c rest ih =>
    intro ys ms
    cases hs : c.shared with
    | none => simp only [List.cons_append, mastersAfter, hs, ih]
    | some si =>
      cases hm : ms.find? (·.si = si) with
      | none => simp only [List.cons_append, mastersAfter, hs, hm, ih]
      | some _ => simp only [List.cons_append, mastersAfter, hs, hm, ih]

theorem groupsOk_append : ∀ (xs ys : List CellV) (ms : List Master),
    groupsOk ms (xs ++ ys) = (groupsOk ms xs && groupsOk (mastersAfter ms xs) ys) := by
  intro xs
  induction xs with
  | nil => intro _ _; simp only [List.nil_append, groupsOk, mastersAfter, Bool.true_and]
  | cons c rest ih =>
    intro ys ms
    cases hs : c.shared with
    | none => simp only [List.cons_append, groupsOk, mastersAfter, hs, ih]
    | some si =>
      cases hm : ms.find? (·.si = si) with
      | none => simp only [List.cons_append, groupsOk, mastersAfter, hs, hm, ih, Bool.and_assoc]
      | some _ => simp only [List.cons_append, groupsOk, mastersAfter, hs, hm, ih, Bool.and_assoc]

theorem expandSharedT_append (T : Tr) : ∀ (xs ys : List CellV) (ms : List Master),
    expandSharedT T ms (xs ++ ys) =
      (expandSharedT T ms xs).bind fun o1 => (expandSharedT T (mastersAfter ms xs) ys).map (o1 ++ ·) := by
  intro xs
  induction xs with
  | nil =>
    intro ys ms
    simp only [List.nil_append, expandSharedT, mastersAfter, Option.bind_some]
    cases expandSharedT T ms ys <;> rfl
  | cons c rest ih =>
    intro ys ms
    cases hs : c.shared with
    | none =>
      simp only [List.cons_append, expandSharedT, mastersAfter, hs, ih]
      cases expandSharedT T ms rest with
      | none => rfl
      | some o =>
        simp only [Option.bind_some, Option.map_some]
        cases expandSharedT T (mastersAfter ms rest) ys <;> rfl
    | some si =>
      cases hm : ms.find? (·.si = si) with
      | none =>
        by_cases hp : T.parseOk (c.formula.getD []) = true
        · simp only [List.cons_append, expandSharedT, mastersAfter, hs, hm, hp, if_true, ih]
          cases expandSharedT T (⟨si, colOf c.ref, rowOf c.ref, c.formula.getD []⟩ :: ms) rest with
          | none => rfl
          | some o =>
            simp only [Option.bind_some, Option.map_some]
            cases expandSharedT T (mastersAfter (⟨si, colOf c.ref, rowOf c.ref, c.formula.getD []⟩ :: ms) rest) ys <;> rfl
        · simp only [List.cons_append, expandSharedT, hs, hm, hp, if_false, Option.bind_none, Bool.false_eq_true]
      | some m =>
        by_cases he : (c.formula.getD []).isEmpty = true
        · cases ht : T.tr m.text ((colOf c.ref : Int) - m.col) ((rowOf c.ref : Int) - m.row) with
          | none => simp only [List.cons_append, expandSharedT, hs, hm, he, if_true, ht, Option.bind_none]
          | some t =>
            simp only [List.cons_append, expandSharedT, mastersAfter, hs, hm, he, if_true, ht, ih]
            cases expandSharedT T ms rest with
            | none => rfl
            | some o =>
              simp only [Option.bind_some, Option.map_some]
              cases expandSharedT T (mastersAfter ms rest) ys <;> rfl
        · simp only [List.cons_append, expandSharedT, mastersAfter, hs, hm, he, if_false, ih, Bool.false_eq_true]
          cases expandSharedT T ms rest with
          | none => rfl
          | some o =>
            simp only [Option.bind_some, Option.map_some]
            cases expandSharedT T (mastersAfter ms rest) ys <;> rfl

/-! ## views -/

/-- what is compared of a cell: (column, row, kind, value text, formula text, style index) -/
structure View where
  col : Nat
  row : Nat
  kind : String
  value : Text
  formula : Option Text
  style : Nat
  deriving DecidableEq, Repr

/-- … as the reader model leaves it (`shownKind`: an empty text is no value, as in `C03_cell`) -/
def outView (o : CellOut) : View :=
  ⟨o.col, o.row, shownKind o.cell.raw.kind o.cell.raw.text, o.cell.raw.text, o.formula, o.cell.style⟩

/-- … as the decoder gives it -/
def specView (v : CellV) : View :=
  ⟨colOf v.ref, rowOf v.ref, shownKind v.kind v.value, v.value, v.formula, v.style⟩

/-- an entry of `formula_shared_list` as a master of the spec -/
def toM (a : Anchor) : Master := ⟨a.si, a.col, a.row, a.text⟩

theorem find_toM (as : List Anchor) (si : Nat) :
    (as.map toM).find? (·.si = si) = (as.find? (·.si = si)).map toM := by
  induction as with
  | nil => rfl
  | cons a rest ih =>
    simp only [List.map_cons, List.find?_cons]
    have : (toM a).si = a.si := rfl
    rw [this]
    by_cases h : a.si = si
    · simp [h]
    · simp [h, ih]

/-! ## one cell -/

/-- what `readCell = some r` says about the formula fields -/
theorem readCell_some (sst : List (Option Text)) (c : Node) (r : CellR) (h : readCell sst c = some r) :
    groupOf c = some r.shared ∧ r.formula = (lastKid? c "f").map (lastText false) := by
  unfold readCell at h
  split at h
  · rename_i st sh rw _ hg _
    injection h with h
    subst h
    exact ⟨hg, rfl⟩
  · cases h

/-- the `<f>` children of a valid cell: at most one, so `fSteps` is one `fStep`, written with the
    decoder's view of the cell -/
theorem fSteps_valid (T : Tr) (sst : List (Option Text)) (c : Node) (r : CellR) (cv : CellV)
    (hr : readCell sst c = some r) (hf : (c.kids "f").length ≤ 1)
    (hform : r.formula = cv.formula) (hsh : r.shared = cv.shared) (col row : Nat) (as : List Anchor) :
    fSteps T col row as (c.kids "f") =
      (match cv.shared with
       | none => some (as, none)
       | some si =>
         match as.find? (·.si = si) with
         | some a => (T.tr a.text ((col : Int) - a.col) ((row : Int) - a.row)).map fun v => (as, some v)
         | none =>
           if T.parseOk (cv.formula.getD []) then some (⟨si, col, row, cv.formula.getD []⟩ :: as, none) else none) := by
  obtain ⟨hg, hfo⟩ := readCell_some sst c r hr
  rw [hsh] at hg
  rw [hform] at hfo
  unfold lastKid? at hfo
  unfold groupOf lastKid? at hg
  match hk : c.kids "f", hf with
  | [], _ =>
    rw [hk] at hg
    simp only [List.getLast?_nil] at hg
    injection hg with hg
    rw [← hg]
    rfl
  | [f], _ =>
    rw [hk] at hg hfo
    simp only [List.getLast?_singleton] at hg hfo
    simp only [fSteps, fStep, hg]
    cases hs : cv.shared with
    | none => rfl
    | some si =>
      simp only []
      have : cv.formula.getD [] = lastText false f := by rw [hfo]; rfl
      simp only [this]
      cases List.find? (fun x => decide (x.si = si)) as <;> rfl
  | _ :: _ :: _, h => simp at h

/-- the position of one cell: the library's rule and the spec's `fillRefs` step -/
theorem position_step (sst : List Text) (rn : Nat) (hrn : rn < 4294967296) (prev : Nat) (c : Node) (rest : List Node)
    (hok : (match c.attr? "r".toList with | some v => validRef v | none => true) = true)
    (hgrid : (filledRow sst rn prev (c :: rest)).all (fun c => decide (colOf c.ref ≤ 16384)) = true) :
    ∃ col row ref',
      setCoordinate (cellRefText rn prev c) = some (col, row) ∧
      filledRow sst rn prev (c :: rest) = { (decodeCell sst c).1 with ref := ref' } :: filledRow sst rn col rest ∧
      colOf ref' = col ∧ rowOf ref' = row := by
  simp only [filledRow, List.map_cons, fillRefs, decode_ref, cellRefText] at hgrid ⊢
  rcases Option.eq_none_or_eq_some (c.attr? "r".toList) with hr | ⟨v, hr⟩
  · simp only [hr, Option.getD_none, List.isEmpty_nil, if_true, List.all_cons, Bool.and_eq_true,
      decide_eq_true_eq] at hgrid ⊢
    have hcol : colOf (refText (prev + 1) rn) = prev + 1 := colOf_refText _ _ (by omega)
    have hle : prev + 1 ≤ 16384 := by rw [← hcol]; exact hgrid.1
    exact ⟨prev + 1, rn, refText (prev + 1) rn,
      setCoordinate_refText (prev + 1) rn (by omega) (by omega) hrn, rfl, hcol, rowOf_refText _ _⟩
  · have hv : validRef v = true := by rw [hr] at hok; exact hok
    obtain ⟨hne, hset⟩ := validRef_pos v hv
    have hemp : v.isEmpty = false := by
      cases v with
      | nil => exact absurd rfl hne
      | cons _ _ => rfl
    simp only [hr, Option.getD_some, hemp, Bool.false_eq_true, if_false]
    refine ⟨colOf v, rowOf v, v, hset, ?_, rfl, rfl⟩
    have : ({ (decodeCell sst c).1 with ref := v } : CellV) = (decodeCell sst c).1 := by
      have hre : (decodeCell sst c).1.ref = v := by rw [decode_ref, hr]; rfl
      rw [← hre]
    rw [this]

/-! ## the cells of one row, the rows of a sheet -/

theorem readCellAt_eq (T : Tr) (sstM : List (Option Text)) (rn prev : Nat) (as : List Anchor) (c : Node)
    (col row : Nat) (r : CellR)
    (hset : setCoordinate (cellRefText rn prev c) = some (col, row))
    (hr : readCell sstM c = some r) :
    readCellAt T sstM rn prev as c =
      (fSteps T col row as (c.kids "f")).map fun p =>
        ({ col := col, row := row, cell := r, formula := match p.2 with | some v => some v | none => r.formula }, p.1) := by
  unfold readCellAt
  simp only [hset, hr]
  cases fSteps T col row as (c.kids "f") with
  | none => rfl
  | some p => cases p; rfl

/-- the pair that is compared of a run over some cells: the views of the cells and the master list after them -/
def runView (p : List CellOut × List Anchor) : List View × List Master := (p.1.map outView, p.2.map toM)

theorem lift_step (o : CellOut) (v : CellV) (hview : outView o = specView v)
    (X : Option (List CellOut × List Anchor)) (Y : Option (List CellV)) (M : List Master)
    (E : X.map runView = Y.map (fun vs => (vs.map specView, M))) :
    (match X with
      | none => none
      | some (os, as'') => some (o :: os, as'')).map runView =
      (Y.map (v :: ·)).map (fun vs => (vs.map specView, M)) := by
  cases X with
  | none =>
    cases Y with
    | none => rfl
    | some y => simp at E
  | some x =>
    cases Y with
    | none => simp at E
    | some y =>
      obtain ⟨os, as''⟩ := x
      simp only [Option.map_some, Option.some.injEq, runView, Prod.mk.injEq] at E ⊢
      exact ⟨by rw [List.map_cons, List.map_cons, hview, E.1], E.2⟩

/-- one `<c>` and the rest of its row, with everything that is known about the cell as hypotheses -/
theorem cells_step (T : Tr) (sstM : List (Option Text)) (rn prev : Nat) (as : List Anchor) (c : Node)
    (restN : List Node) (col row : Nat) (r : CellR) (cv : CellV) (ref' : Text) (restV : List CellV)
    (hset : setCoordinate (cellRefText rn prev c) = some (col, row))
    (hr : readCell sstM c = some r) (hf1 : (c.kids "f").length ≤ 1)
    (hform : r.formula = cv.formula) (hsh : r.shared = cv.shared) (hstyle : r.style = cv.style)
    (htext : r.raw.text = cv.value) (hkind : shownKind r.raw.kind r.raw.text = shownKind cv.kind cv.value)
    (hcol : colOf ref' = col) (hrow : rowOf ref' = row)
    (hg : groupsOk (as.map toM) ({ cv with ref := ref' } :: restV) = true)
    (ih : ∀ as' : List Anchor, groupsOk (as'.map toM) restV = true →
      (readCells T sstM rn col as' restN).map runView =
        (expandSharedT T (as'.map toM) restV).map (fun vs => (vs.map specView, mastersAfter (as'.map toM) restV))) :
    (readCells T sstM rn prev as (c :: restN)).map runView =
      (expandSharedT T (as.map toM) ({ cv with ref := ref' } :: restV)).map
        (fun vs => (vs.map specView, mastersAfter (as.map toM) ({ cv with ref := ref' } :: restV))) := by
  have hsteps := fSteps_valid T sstM c r cv hr hf1 hform hsh col row as
  subst hcol hrow
  rw [htext] at hkind
  cases hs : cv.shared with
  | none =>
    simp only [hs] at hsteps
    simp only [groupsOk, hs] at hg
    simp only [readCells, readCellAt_eq T sstM rn prev as c _ _ r hset hr, hsteps, Option.map_some,
      expandSharedT, mastersAfter, hs]
    exact lift_step _ _ (by simp only [outView, specView, htext, hkind, hstyle, hform]) _ _ _ (ih as hg)
  | some si =>
    simp only [hs] at hsteps
    have hfind := find_toM as si
    cases hm : as.find? (·.si = si) with
    | none =>
      rw [hm] at hfind
      simp only [hm] at hsteps
      simp only [Option.map_none] at hfind
      simp only [groupsOk, hs, hfind, Bool.and_eq_true] at hg
      by_cases hp : T.parseOk (cv.formula.getD []) = true
      · simp only [hp, if_true] at hsteps
        simp only [readCells, readCellAt_eq T sstM rn prev as c _ _ r hset hr, hsteps, Option.map_some,
          expandSharedT, mastersAfter, hs, hfind, hp, if_true]
        exact lift_step _ _ (by simp only [outView, specView, htext, hkind, hstyle, hform]) _ _ _
          (ih (⟨si, colOf ref', rowOf ref', cv.formula.getD []⟩ :: as) hg.2)
      · simp only [hp, if_false, Bool.false_eq_true] at hsteps
        simp only [readCells, readCellAt_eq T sstM rn prev as c _ _ r hset hr, hsteps, Option.map_none,
          expandSharedT, hs, hfind, hp, if_false, Bool.false_eq_true]
    | some a =>
      rw [hm] at hfind
      simp only [hm] at hsteps
      simp only [Option.map_some] at hfind
      simp only [groupsOk, hs, hfind, Bool.and_eq_true] at hg
      have hta : (toM a).text = a.text ∧ ((toM a).col : Int) = a.col ∧ ((toM a).row : Int) = a.row := ⟨rfl, rfl, rfl⟩
      cases ht : T.tr a.text ((colOf ref' : Int) - a.col) ((rowOf ref' : Int) - a.row) with
      | none =>
        rw [ht] at hsteps
        simp only [readCells, readCellAt_eq T sstM rn prev as c _ _ r hset hr, hsteps, Option.map_none,
          expandSharedT, hs, hfind, hg.1, if_true, hta.1, hta.2.1, hta.2.2, ht]
      | some t =>
        rw [ht] at hsteps
        simp only [readCells, readCellAt_eq T sstM rn prev as c _ _ r hset hr, hsteps, Option.map_some,
          expandSharedT, mastersAfter, hs, hfind, hg.1, if_true, hta.1, hta.2.1, hta.2.2, ht]
        exact lift_step _ _ (by simp only [outView, specView, htext, hkind, hstyle]) _ _ _ (ih as hg.2)

theorem cells_sheet (T : Tr) (sis : List Node) (rn : Nat) (hrn : rn < 4294967296) :
    ∀ (cs : List Node) (prev : Nat) (as : List Anchor),
    (∀ c ∈ cs, validCell sis c = true) → cellRefsOk cs = true →
    (filledRow (sis.map rstText) rn prev cs).all (fun c => decide (colOf c.ref ≤ 16384)) = true →
    groupsOk (as.map toM) (filledRow (sis.map rstText) rn prev cs) = true →
    (readCells T (sis.map (stringItem false)) rn prev as cs).map runView =
      (expandSharedT T (as.map toM) (filledRow (sis.map rstText) rn prev cs)).map
        (fun vs => (vs.map specView, mastersAfter (as.map toM) (filledRow (sis.map rstText) rn prev cs))) := by
  intro cs
  induction cs with
  | nil => intro prev as _ _ _ _; rfl
  | cons c rest ih =>
    intro prev as hv hok hgrid hg
    have hvc := hv c List.mem_cons_self
    have hvr : ∀ c' ∈ rest, validCell sis c' = true := fun c' h => hv c' (List.mem_cons_of_mem _ h)
    simp only [cellRefsOk, List.all_cons, Bool.and_eq_true] at hok
    obtain ⟨col, row, ref', hset, hfill, hcol, hrow⟩ :=
      position_step (sis.map rstText) rn hrn prev c rest hok.1 hgrid
    obtain ⟨r, hr, hform, hsh, hstyle, _, htext, hkind⟩ := C03_cell sis c hvc
    have hf1 : (c.kids "f").length ≤ 1 := by
      simp only [validCell, Bool.and_eq_true, decide_eq_true_eq] at hvc; exact hvc.1.1.1.1.2
    rw [hfill] at hgrid hg ⊢
    simp only [List.all_cons, Bool.and_eq_true] at hgrid
    exact cells_step T _ rn prev as c rest col row r _ ref' _ hset hr hf1 hform hsh hstyle htext hkind hcol hrow hg
      (fun as' hg' => ih col as' hvr hok.2 hgrid.2 hg')

theorem map_append_view {α β} (f : α → β) (os : List α) (X : Option (List α)) :
    (X.map (os ++ ·)).map (·.map f) = (X.map (·.map f)).map (os.map f ++ ·) := by
  cases X <;> simp

/-- the `<row>` walk: for every start state (previous row number, `formula_shared_list`) -/
theorem rows_sheet (T : Tr) (sis : List Node) : ∀ (rows : List Node) (prev : Nat) (as : List Anchor),
    rowRefsOk rows = true → rows.all (fun r => cellRefsOk (r.kids "c")) = true →
    inGrid (sis.map rstText) prev rows = true →
    rows.all (fun r => (r.kids "c").all (validCell sis)) = true →
    groupsOk (as.map toM) (specFilled (sis.map rstText) prev rows) = true →
    (readRows T (sis.map (stringItem false)) prev as rows).map (·.map outView) =
      (expandSharedT T (as.map toM) (specFilled (sis.map rstText) prev rows)).map (·.map specView) := by
  intro rows
  induction rows with
  | nil => intro prev as _ _ _ _ _; rfl
  | cons r rest ih =>
    intro prev as h1 h2 h3 h4 hg
    simp only [rowRefsOk, List.all_cons, Bool.and_eq_true] at h1 h2 h4
    obtain ⟨n, hn1, hn2, hn3⟩ : ∃ n, rowNumber prev (r.attr? "r".toList) = some n ∧
        rowNumbers prev (r :: rest) = n :: rowNumbers n rest ∧
        ((r.attr? "r".toList).bind natOf).getD (prev + 1) = n := by
      rcases Option.eq_none_or_eq_some (r.attr? "r".toList) with hr | ⟨v, hr⟩
      · have hr' : r.attr? ['r'] = none := hr
        refine ⟨prev + 1, ?_, by simp [rowNumbers, hr'], by simp [hr']⟩
        have hle : prev + 1 ≤ 1048576 := by
          simp only [inGrid, rowNumbers, hr, Option.bind_none, Option.getD_none, List.all_cons, Bool.and_eq_true,
            decide_eq_true_eq] at h3
          exact h3.1.1
        have hlt : prev + 1 < u32Bound := by unfold u32Bound; omega
        simp only [rowNumber, hr, if_pos hlt]
      · have hr' : r.attr? ['r'] = some v := hr
        have hv := h1.1
        rw [hr] at hv
        obtain ⟨n, e1, e2⟩ := uintOk_parse _ v hv
        exact ⟨n, by simp only [rowNumber, hr]; exact e2, by simp [rowNumbers, hr', e1], by simp [hr', e1]⟩
    simp only [inGrid, specPositions, hn2, List.zip_cons_cons, List.map_cons, List.all_cons, Bool.and_eq_true,
      decide_eq_true_eq] at h3
    obtain ⟨⟨hn4, hrows⟩, hcols, hrest⟩ := h3
    have hcols' : (filledRow (sis.map rstText) n 0 (r.kids "c")).all (fun c => decide (colOf c.ref ≤ 16384)) = true := by
      simpa [specRowPositions, List.all_map, filledRow] using hcols
    simp only [specFilled, hn3] at hg ⊢
    rw [groupsOk_append, Bool.and_eq_true] at hg
    have E := cells_sheet T sis n (by omega) (r.kids "c") 0 as (fun c hc => List.all_eq_true.mp h4.1 c hc) h2.1 hcols' hg.1
    rw [expandSharedT_append]
    simp only [readRows, hn1]
    cases hX : readCells T (sis.map (stringItem false)) n 0 as (r.kids "c") with
    | none =>
      rw [hX] at E
      cases hY : expandSharedT T (as.map toM) (filledRow (sis.map rstText) n 0 (r.kids "c")) with
      | none => rfl
      | some y => rw [hY] at E; simp at E
    | some x =>
      rw [hX] at E
      cases hY : expandSharedT T (as.map toM) (filledRow (sis.map rstText) n 0 (r.kids "c")) with
      | none => rw [hY] at E; simp at E
      | some vs =>
        rw [hY] at E
        obtain ⟨os, as'⟩ := x
        simp only [Option.map_some, Option.some.injEq, runView, Prod.mk.injEq] at E
        have hih := ih n as' h1.2 h2.2
          (by simp only [inGrid, specPositions, Bool.and_eq_true]; exact ⟨hrows, hrest⟩) h4.2
          (by rw [E.2]; exact hg.2)
        simp only [Option.bind_some]
        rw [map_append_view, map_append_view, hih, E.1, E.2]

end Umya.Reader.Lemmas
