/-
  Lexer correctness on printed expressions, pass 1 (the character machine).

  From a state at a token boundary, reading the text of one expression leaves the machine in an
  explicitly described state: the tokens of the expression emitted (`preE`), plus what is still
  pending in the accumulator (`pendE`: a plain operand, a closed string literal, or nothing).
  Helper lemmas for `Umya/Thm/C09Lex.lean`.
-/
import Umya.Lemmas.Formula
import Umya.Lemmas.CleanAst
namespace Umya.Formula
open Umya.Coord Umya.Dec Umya.Spec

/-! ### ordinary characters: appended to the accumulator by `stepNormal` -/

def isOrd (c : Char) : Bool :=
  !(c = '"' || c = '\'' || c = '[' || c = '#' || c = '{' || c = ';' || c = '}' || c = ' ' ||
    c = '<' || c = '>' || c = '+' || c = '-' || c = '*' || c = '/' || c = '^' || c = '&' ||
    c = '=' || c = '%' || c = '(' || c = ',' || c = ')')

def ordText (t : List Char) : Bool := t.all isOrd

theorem stepNormal_ord (st : LexSt) (c : Char) (h : isOrd c = true) :
    stepNormal st c = { st with value := st.value ++ [c] } := by
  simp only [isOrd, Bool.not_eq_true', Bool.or_eq_false_iff, decide_eq_false_iff_not] at h
  obtain ⟨⟨⟨⟨⟨⟨⟨⟨⟨⟨⟨⟨⟨⟨⟨⟨⟨⟨⟨⟨h1, h2⟩, h3⟩, h4⟩, h5⟩, h6⟩, h7⟩, h8⟩, h9⟩, h10⟩, h11⟩, h12⟩, h13⟩, h14⟩, h15⟩, h16⟩, h17⟩, h18⟩, h19⟩, h20⟩, h21⟩ := h
  simp [stepNormal, isInfixChar, h1, h2, h3, h4, h5, h6, h7, h8, h9, h10, h11, h12, h13, h14, h15, h16, h17,
    h18, h19, h20, h21]

theorem foldl_ord (r : List Char) (h : ordText r = true) (T S : List Tok) (v : List Char) :
    r.foldl step ⟨T, S, v, .normal⟩ = ⟨T, S, v ++ r, .normal⟩ := by
  induction r generalizing v with
  | nil => simp
  | cons c r ih =>
    simp only [ordText, List.all_cons, Bool.and_eq_true] at h
    simp only [List.foldl_cons, step, stepNormal_ord _ c h.1]
    rw [ih h.2]; simp

/-! ### states from which an expression may start -/

/-- at a token boundary: nothing accumulated, and either plainly between tokens or just behind a
    `<` / `>` whose token is not emitted yet (one character of look-ahead) -/
def Startable (st : LexSt) (T S : List Tok) : Prop :=
  st = ⟨T, S, [], .normal⟩ ∨
  ∃ a T0, st = ⟨T0, S, [], .cmp a⟩ ∧ T = T0 ++ [⟨[a], .opInfix, .nothing, .none⟩]

theorem startable_fresh (T S : List Tok) : Startable ⟨T, S, [], .normal⟩ T S := Or.inl rfl

theorem step_start (st : LexSt) (T S : List Tok) (hs : Startable st T S) (c : Char)
    (h1 : c ≠ '=') (h2 : c ≠ '>') : step st c = stepNormal ⟨T, S, [], .normal⟩ c := by
  rcases hs with h | ⟨a, T0, h, hT⟩
  · subst h; rfl
  · subst h; subst hT
    simp [step, isMultiCmp, h1, h2, LexSt.push]

theorem ord_ne (c : Char) (h : isOrd c = true) : c ≠ '=' ∧ c ≠ '>' := by
  constructor <;> (intro e; subst e; simp [isOrd] at h)

theorem lex_ord (t : List Char) (hne : t ≠ []) (h : ordText t = true) (st : LexSt) (T S : List Tok)
    (hs : Startable st T S) : t.foldl step st = ⟨T, S, t, .normal⟩ := by
  cases t with
  | nil => exact absurd rfl hne
  | cons c r =>
    simp only [ordText, List.all_cons, Bool.and_eq_true] at h
    rw [List.foldl_cons, step_start st T S hs c (ord_ne c h.1).1 (ord_ne c h.1).2,
      stepNormal_ord _ c h.1]
    exact foldl_ord r h.2 T S _

/-! ### what is pending after an expression -/

inductive Pend where
  | none
  | val (v : List Char)     -- accumulator holds a plain operand
  | str (v : List Char)     -- a string literal whose closing quote has been read
  deriving Repr, DecidableEq

def Pend.st (T S : List Tok) : Pend → LexSt
  | .none => ⟨T, S, [], .normal⟩
  | .val v => ⟨T, S, v, .normal⟩
  | .str v => ⟨T, S, v, .strQ⟩

def Pend.toks : Pend → List Tok
  | .none => []
  | .val v => if v = [] then [] else [⟨v, .operand, .nothing, .none⟩]
  | .str v => [⟨v, .operand, .text, .none⟩]

/-- characters that end an operand -/
def isDelim (c : Char) : Bool :=
  c = '+' || c = '-' || c = '*' || c = '/' || c = '^' || c = '&' || c = '=' || c = '<' || c = '>' ||
  c = '%' || c = ')' || c = ','

theorem step_delim (p : Pend) (T S : List Tok) (c : Char) (hc : isDelim c = true) :
    step (p.st T S) c = stepNormal ⟨T ++ p.toks, S, [], .normal⟩ c := by
  simp only [isDelim, Bool.or_eq_true, decide_eq_true_eq] at hc
  cases p with
  | none => simp [Pend.st, Pend.toks, step]
  | val v =>
    by_cases hv : v = []
    · subst hv; simp [Pend.st, Pend.toks, step]
    · rcases hc with ((((((((((h | h) | h) | h) | h) | h) | h) | h) | h) | h) | h) | h <;> subst h <;>
        simp [Pend.st, Pend.toks, step, stepNormal, LexSt.flush, LexSt.push, LexSt.close, isInfixChar, hv]
  | str v =>
    rcases hc with ((((((((((h | h) | h) | h) | h) | h) | h) | h) | h) | h) | h) | h <;> subst h <;>
      simp [Pend.st, Pend.toks, step]

/-! ### pass-1 tokens of an expression -/

/-- the pass-1 token of an operator -/
def op1 : BinOp → Tok
  | .le => ⟨['<', '='], .opInfix, .logical, .none⟩
  | .ge => ⟨['>', '='], .opInfix, .logical, .none⟩
  | .ne => ⟨['<', '>'], .opInfix, .logical, .none⟩
  | op => ⟨op.text, .opInfix, .nothing, .none⟩

/-- the token a comma becomes inside a bracket opened by a token of type `k` -/
def sepTok (k : TT) : Tok :=
  if k = .function then ⟨[','], .opInfix, .union, .none⟩ else ⟨[','], .argument, .nothing, .none⟩

def boolText (b : Bool) : List Char := if b then ['T', 'R', 'U', 'E'] else ['F', 'A', 'L', 'S', 'E']

mutual
  def pendE : Expr → Pend
    | .num t => .val t
    | .str s => .str s
    | .bool b => .val (boolText b)
    | .err _ => .none
    | .name n => .val n
    | .ref r => .val r.text
    | .opaque t => .val t
    | .array _ => .none
    | .neg e => pendE e
    | .pos e => pendE e
    | .pct _ => .none
    | .bin _ _ b => pendE b
    | .isect _ b => pendE b
    | .union _ => .none
    | .paren _ => .none
    | .call _ _ => .none
end

def pendA : Args → Pend
  | .nil => .none
  | .cons e .nil => pendE e
  | .cons _ rest => pendA rest
  | .skip .nil => .none
  | .skip rest => pendA rest

mutual
  def preE : Expr → List Tok
    | .num _ => []
    | .str _ => []
    | .bool _ => []
    | .err e => [⟨e.text, .operand, .error, .none⟩]
    | .name _ => []
    | .ref _ => []
    | .opaque _ => []
    | .array _ => []
    | .neg e => ⟨['-'], .opInfix, .nothing, .none⟩ :: preE e
    | .pos e => ⟨['+'], .opInfix, .nothing, .none⟩ :: preE e
    | .pct e => preE e ++ (pendE e).toks ++ [⟨['%'], .opPostfix, .nothing, .none⟩]
    | .bin op a b => preE a ++ (pendE a).toks ++ op1 op :: preE b
    | .isect a b => preE a ++ (pendE a).toks ++ preE b
    | .union es => ⟨[], .subexpression, .start, .none⟩ ::
        (preA .subexpression es ++ (pendA es).toks ++ [⟨[], .subexpression, .stop, .none⟩])
    | .paren e => ⟨[], .subexpression, .start, .none⟩ ::
        (preE e ++ (pendE e).toks ++ [⟨[], .subexpression, .stop, .none⟩])
    | .call f as => ⟨f, .function, .start, .none⟩ ::
        (preA .function as ++ (pendA as).toks ++ [⟨[], .function, .stop, .none⟩])
  def preA (k : TT) : Args → List Tok
    | .nil => []
    | .cons e .nil => preE e
    | .cons e rest => preE e ++ (pendE e).toks ++ sepTok k :: preA k rest
    | .skip .nil => []
    | .skip rest => sepTok k :: preA k rest
end

/-- the pass-1 token list of an expression -/
def toks1 (e : Expr) : List Tok := preE e ++ (pendE e).toks
def toks1A (k : TT) (as : Args) : List Tok := preA k as ++ (pendA as).toks

/-! ### string literals, quoted qualifiers, error literals -/

theorem foldl_dbl (s : List Char) (T S : List Tok) (v : List Char) :
    (dbl s).foldl step ⟨T, S, v, .str⟩ = ⟨T, S, v ++ s, .str⟩ := by
  induction s generalizing v with
  | nil => simp [dbl]
  | cons c r ih =>
    have hd : dbl (c :: r) = (if c = '"' then ['"', '"'] else [c]) ++ dbl r := by simp [dbl]
    rw [hd, List.foldl_append]
    by_cases hc : c = '"'
    · subst hc
      simp only [if_true, List.foldl_cons, List.foldl_nil, step]
      rw [ih]; simp
    · simp only [hc, if_false, List.foldl_cons, List.foldl_nil, step]
      rw [ih]; simp

theorem lex_str (s : List Char) (st : LexSt) (T S : List Tok) (hs : Startable st T S) :
    ('"' :: (dbl s ++ ['"'])).foldl step st = ⟨T, S, s, .strQ⟩ := by
  rw [List.foldl_cons, step_start st T S hs '"' (by decide) (by decide)]
  have : stepNormal ⟨T, S, [], .normal⟩ '"' = ⟨T, S, [], .str⟩ := by simp [stepNormal, LexSt.flush]
  rw [this, List.foldl_append, foldl_dbl]
  simp [step]

theorem foldl_apos (s : List Char) (T S : List Tok) (v : List Char) :
    (replaceApos s).foldl step ⟨T, S, v, .path⟩ = ⟨T, S, v ++ replaceApos s, .path⟩ := by
  induction s generalizing v with
  | nil => simp [replaceApos]
  | cons c r ih =>
    have hd : replaceApos (c :: r) = (if c = '\'' then ['\'', '\''] else [c]) ++ replaceApos r := by
      simp [replaceApos]
    rw [hd, List.foldl_append]
    by_cases hc : c = '\''
    · subst hc
      simp only [if_true, List.foldl_cons, List.foldl_nil, step]
      rw [ih]; simp
    · simp only [hc, if_false, List.foldl_cons, List.foldl_nil, step]
      rw [ih]; simp

theorem lex_err (e : ErrLit) (st : LexSt) (T S : List Tok) (hs : Startable st T S) :
    e.text.foldl step st = ⟨T ++ [⟨e.text, .operand, .error, .none⟩], S, [], .normal⟩ := by
  have h0 : stepNormal ⟨T, S, [], .normal⟩ '#' = ⟨T, S, ['#'], .error⟩ := by simp [stepNormal, LexSt.flush]
  cases e <;>
    (simp only [ErrLit.text, List.foldl_cons, List.foldl_nil]
     rw [step_start st T S hs '#' (by decide) (by decide), h0]
     simp [step, errors])

/-! ### references -/

theorem ord_of_upper (c : Char) (h : isUpperAZ c = true) : isOrd c = true := by
  have := (isUpperAZ_iff c).1 h
  simp only [isOrd, Bool.not_eq_true', Bool.or_eq_false_iff, decide_eq_false_iff_not]
  refine ⟨⟨⟨⟨⟨⟨⟨⟨⟨⟨⟨⟨⟨⟨⟨⟨⟨⟨⟨⟨?_, ?_⟩, ?_⟩, ?_⟩, ?_⟩, ?_⟩, ?_⟩, ?_⟩, ?_⟩, ?_⟩, ?_⟩, ?_⟩, ?_⟩, ?_⟩, ?_⟩, ?_⟩, ?_⟩, ?_⟩, ?_⟩, ?_⟩, ?_⟩ <;>
    (intro e; subst e; simp at this)

theorem ord_of_digit (c : Char) (h : isDigit c = true) : isOrd c = true := by
  simp only [isDigit, Bool.and_eq_true, decide_eq_true_eq] at h
  simp only [isOrd, Bool.not_eq_true', Bool.or_eq_false_iff, decide_eq_false_iff_not]
  refine ⟨⟨⟨⟨⟨⟨⟨⟨⟨⟨⟨⟨⟨⟨⟨⟨⟨⟨⟨⟨?_, ?_⟩, ?_⟩, ?_⟩, ?_⟩, ?_⟩, ?_⟩, ?_⟩, ?_⟩, ?_⟩, ?_⟩, ?_⟩, ?_⟩, ?_⟩, ?_⟩, ?_⟩, ?_⟩, ?_⟩, ?_⟩, ?_⟩, ?_⟩ <;>
    (intro e; subst e; simp at h)

theorem ord_append (a b : List Char) (ha : ordText a = true) (hb : ordText b = true) :
    ordText (a ++ b) = true := by
  simp only [ordText, List.all_append, Bool.and_eq_true] at *
  exact ⟨ha, hb⟩

theorem ord_col (x : Ref) : ordText (colRefText x) = true := by
  simp only [ordText, colRefText, List.all_append, Bool.and_eq_true]
  constructor
  · split <;> simp [isOrd]
  · rw [List.all_eq_true]; intro c hc
    exact ord_of_upper c (List.all_eq_true.1 (indexToAlpha_upper x.num) c hc)

theorem ord_row (x : Ref) : ordText (rowRefText x) = true := by
  simp only [ordText, rowRefText, List.all_append, Bool.and_eq_true]
  constructor
  · split <;> simp [isOrd]
  · rw [List.all_eq_true]; intro c hc
    exact ord_of_digit c (List.all_eq_true.1 (decDigits_all_digit x.num) c hc)

theorem ord_corner (k : Spec.Corner) : ordText k.text = true := by
  obtain ⟨c, r⟩ := k
  apply ord_append
  · cases c with
    | none => rfl
    | some x => exact ord_col x
  · cases r with
    | none => rfl
    | some x => exact ord_row x

theorem ord_area (a : Spec.Area) : ordText a.text = true := by
  cases a with
  | one k => exact ord_corner k
  | two a b =>
    have h1 := ord_corner a
    have h2 := ord_corner b
    simp only [Area.text]
    exact ord_append _ _ h1 (by simp only [ordText, List.all_cons, Bool.and_eq_true]; exact ⟨by decide, h2⟩)

theorem step_path_q (T S : List Tok) (v : List Char) :
    step ⟨T, S, v, .path⟩ '\'' = ⟨T, S, v, .pathQ⟩ := by simp [step]

theorem step_pathQ_bang (T S : List Tok) (v : List Char) :
    step ⟨T, S, v, .pathQ⟩ '!' = ⟨T, S, v ++ ['\'', '!'], .normal⟩ := by
  simp [step, stepNormal_ord _ '!' (by decide)]

/-- the hypothesis on a reference: well-formed, an unquoted qualifier consists of ordinary
    characters, and the area text is not empty -/
def RefLexOk (r : CRef) : Prop :=
  r.area.text ≠ [] ∧ ∀ q, r.sheet = some q → q.name ≠ [] ∧ (q.quoted = false → ordText q.name = true)

theorem lex_ref (r : CRef) (h : RefLexOk r) (st : LexSt) (T S : List Tok) (hs : Startable st T S) :
    r.text.foldl step st = ⟨T, S, r.text, .normal⟩ := by
  obtain ⟨q, a⟩ := r
  cases q with
  | none =>
    simp only [CRef.text, List.nil_append]
    exact lex_ord a.text h.1 (ord_area a) st T S hs
  | some q =>
    obtain ⟨hn, hq⟩ := h.2 q rfl
    obtain ⟨name, quoted⟩ := q
    cases quoted with
    | false =>
      have ho : ordText ((name ++ ['!']) ++ a.text) = true :=
        ord_append _ _ (ord_append _ _ (hq rfl) (by decide)) (ord_area a)
      simp only [CRef.text, Qual.text]
      exact lex_ord _ (by simp) ho st T S hs
    | true =>
      simp only [CRef.text, Qual.text, if_true, List.cons_append, List.foldl_cons]
      rw [step_start st T S hs '\'' (by decide) (by decide)]
      have h0 : stepNormal ⟨T, S, [], .normal⟩ '\'' = ⟨T, S, ['\''], .path⟩ := by
        simp [stepNormal, LexSt.flush]
      rw [h0, List.append_assoc, List.foldl_append, foldl_apos]
      show List.foldl step _ ('\'' :: '!' :: a.text) = _
      rw [List.foldl_cons, List.foldl_cons, step_path_q, step_pathQ_bang, foldl_ord a.text (ord_area a)]
      simp

end Umya.Formula
