/-
  Every tree `Umya/Model/CellNode.lean` renders is in the XML reader's normal form (`isNF`: no empty text
  node, no two adjacent text nodes): `cellNode_isNF`, `siNode_isNF`, `renderCells_isNF`.  The only text
  nodes the rendering produces come from `charData raw` with `raw ≠ []`, and character data that is not
  empty does not expand to the empty text (`textValue_ne_nil`: a literal character stays a character,
  a reference stands for one character).
-/
import Umya.Model.CellNode
import Umya.Model.XmlWrite
namespace Umya.CellNode
open Umya.Xml Umya.CellXml Umya.XmlWrite
open Umya.Spec.Xml (Node Attr textValue expandGo resolveRef normalizeEol)

theorem resolveRef_ne_nil (p v : List Char) (h : resolveRef p = some v) : v ≠ [] := by
  unfold resolveRef at h
  split at h
  · simp only [Option.bind_eq_some_iff] at h
    obtain ⟨n, _, h2⟩ := h
    split at h2
    · cases h2; simp
    · cases h2
  · simp only [Option.bind_eq_some_iff] at h
    obtain ⟨n, _, h2⟩ := h
    split at h2
    · cases h2; simp
    · cases h2
  · repeat' split at h
    all_goals first | (cases h; simp) | cases h

theorem expandGo_some_ne_nil (lit : Char → List Char) : ∀ (l : List Char) (p v : List Char), expandGo lit (some p) l = some v → v ≠ [] := by
  intro l
  induction l with
  | nil => intro p v h; simp [expandGo] at h
  | cons c r ih =>
    intro p v h
    simp only [expandGo] at h
    split at h
    · simp only [Option.bind_eq_some_iff, Option.map_eq_some_iff] at h
      obtain ⟨v0, h0, w, _, rfl⟩ := h
      have := resolveRef_ne_nil _ _ h0
      cases v0 with
      | nil => exact absurd rfl this
      | cons a b => simp
    · split at h
      · cases h
      · exact ih _ _ h

theorem expandGo_none_ne_nil (lit : Char → List Char) (hl : ∀ c, lit c ≠ []) (l : List Char) (hne : l ≠ []) (v : List Char)
    (h : expandGo lit none l = some v) : v ≠ [] := by
  cases l with
  | nil => exact absurd rfl hne
  | cons c r =>
    simp only [expandGo] at h
    split at h
    · exact expandGo_some_ne_nil lit r [] v h
    · simp only [Option.map_eq_some_iff] at h
      obtain ⟨w, _, rfl⟩ := h
      have := hl c
      cases hc : lit c with
      | nil => exact absurd hc this
      | cons a b => simp

theorem normalizeEol_ne_nil : ∀ l : List Char, l ≠ [] → normalizeEol l ≠ []
  | [], h => absurd rfl h
  | c :: r, _ => by
    unfold normalizeEol
    split <;> simp_all

/-- character data that is not empty is not read as the empty text -/
theorem textValue_ne_nil (raw v : List Char) (hne : raw ≠ []) (h : textValue raw = some v) : v ≠ [] :=
  expandGo_none_ne_nil _ (fun c => by simp) _ (normalizeEol_ne_nil raw hne) v h

theorem charData_nf (raw : List Char) (ks : List Node) (h : charData raw = some ks) : isNFKids ks = true := by
  unfold charData at h
  split at h
  · cases h; simp [isNFKids]
  · rename_i hne
    split at h
    · cases h
    · simp only [Option.map_eq_some_iff] at h
      obtain ⟨v, hv, rfl⟩ := h
      have := textValue_ne_nil raw v hne hv
      cases v with
      | nil => exact absurd rfl this
      | cons a b => simp [isNFKids, startsText]

theorem isNFKids_elem_cons (k : Node) (r : List Node) (hk : k.isElem = true) : isNFKids (k :: r) = (isNF k && isNFKids r) := by
  cases k with
  | elem n as ks => simp [isNFKids, isNF]
  | text s => simp [Node.isElem] at hk

theorem isNFKids_append (a b : List Node) (ha : ∀ k ∈ a, k.isElem = true) : isNFKids (a ++ b) = (isNFKids a && isNFKids b) := by
  induction a with
  | nil => simp [isNFKids]
  | cons k r ih =>
    have hk := ha k (by simp)
    rw [List.cons_append, isNFKids_elem_cons k _ hk, isNFKids_elem_cons k _ hk, ih (fun x hx => ha x (by simp [hx])), Bool.and_assoc]

theorem textElem_nf (n : List Char) (as : List Attr) (raw : List Char) (t : Node) (h : textElem n as raw = some t) :
    t.isElem = true ∧ isNF t = true := by
  simp only [textElem, Option.map_eq_some_iff] at h
  obtain ⟨ks, hk, rfl⟩ := h
  exact ⟨rfl, charData_nf raw ks hk⟩

theorem tNode_nf (tx : TX) (t : Node) (h : tNode tx = some t) : t.isElem = true ∧ isNF t = true := by
  simp only [tNode, Option.bind_eq_some_iff] at h
  obtain ⟨as, _, h2⟩ := h
  exact textElem_nf _ _ _ _ h2

theorem fNodes_nf (f : Option (List Char)) (ks : List Node) (h : fNodes f = some ks) : (∀ k ∈ ks, k.isElem = true) ∧ isNFKids ks = true := by
  cases f with
  | none => cases h; simp [isNFKids]
  | some raw =>
    simp only [fNodes, Option.map_eq_some_iff] at h
    obtain ⟨t, ht, rfl⟩ := h
    obtain ⟨h1, h2⟩ := textElem_nf _ _ _ _ ht
    refine ⟨by simpa using h1, ?_⟩
    rw [isNFKids_elem_cons t [] h1, h2]; simp [isNFKids]

theorem vNodes_nf (v : VNode) (ks : List Node) (h : vNodes v = some ks) : (∀ k ∈ ks, k.isElem = true) ∧ isNFKids ks = true := by
  cases v with
  | absent => cases h; simp [isNFKids]
  | emptyTag => cases h; simp [isNFKids, Node.isElem]
  | text raw =>
    simp only [vNodes, Option.map_eq_some_iff] at h
    obtain ⟨t, ht, rfl⟩ := h
    obtain ⟨h1, h2⟩ := textElem_nf _ _ _ _ ht
    refine ⟨by simpa using h1, ?_⟩
    rw [isNFKids_elem_cons t [] h1, h2]; simp [isNFKids]

theorem isNodes_nf (i : Option TX) (ks : List Node) (h : isNodes i = some ks) : (∀ k ∈ ks, k.isElem = true) ∧ isNFKids ks = true := by
  cases i with
  | none => cases h; simp [isNFKids]
  | some tx =>
    simp only [isNodes, Option.map_eq_some_iff] at h
    obtain ⟨t, ht, rfl⟩ := h
    obtain ⟨h1, h2⟩ := tNode_nf _ _ ht
    refine ⟨by simp [Node.isElem], ?_⟩
    simp only [isNFKids, Bool.and_true]
    rw [isNFKids_elem_cons t [] h1, h2]; simp [isNFKids]

/-- **(a)** every `<c>` the model renders is in the reader's normal form -/
theorem cellNode_isNF (xf : Nat) (cx : CellX) (n : Node) (h : cellNode xf cx = some n) : isNF n = true := by
  simp only [cellNode, Option.bind_eq_some_iff] at h
  obtain ⟨as, _, f, hf, v, hv, i, hi, h5⟩ := h
  cases h5
  obtain ⟨f1, f2⟩ := fNodes_nf _ _ hf
  obtain ⟨v1, v2⟩ := vNodes_nf _ _ hv
  obtain ⟨_, i2⟩ := isNodes_nf _ _ hi
  show isNFKids (f ++ v ++ i) = true
  rw [isNFKids_append _ _ (by intro k hk; rcases List.mem_append.1 hk with hk | hk; exact f1 k hk; exact v1 k hk),
    isNFKids_append _ _ f1, f2, v2, i2]; rfl

theorem cellNode_shape (xf : Nat) (cx : CellX) (n : Node) (h : cellNode xf cx = some n) : ∃ as ks, n = .elem ['c'] as ks := by
  simp only [cellNode, Option.bind_eq_some_iff] at h
  obtain ⟨as, _, f, _, v, _, i, _, h5⟩ := h
  exact ⟨_, _, (Option.some.inj h5).symm⟩

theorem runNode_nf (r : RunX) (n : Node) (h : runNode r = some n) : n.isElem = true ∧ isNF n = true := by
  simp only [runNode, Option.map_eq_some_iff] at h
  obtain ⟨t, ht, rfl⟩ := h
  obtain ⟨h1, h2⟩ := tNode_nf _ _ ht
  refine ⟨rfl, ?_⟩
  show isNFKids (_ ++ [t]) = true
  rw [isNFKids_append _ _ (by cases r.font <;> simp [Node.isElem]), isNFKids_elem_cons t [] h1, h2]
  cases r.font <;> simp [isNFKids]

theorem mapOpt_runNode_nf : ∀ (rs : List RunX) (ns : List Node), mapOpt runNode rs = some ns →
    (∀ k ∈ ns, k.isElem = true) ∧ isNFKids ns = true := by
  intro rs
  induction rs with
  | nil => intro ns h; cases h; simp [isNFKids]
  | cons r rs ih =>
    intro ns h
    simp only [mapOpt] at h
    split at h
    · cases h
    · rename_i b hb
      split at h
      · cases h
      · rename_i bs hbs
        cases h
        obtain ⟨h1, h2⟩ := runNode_nf r b hb
        obtain ⟨i1, i2⟩ := ih bs hbs
        refine ⟨by intro k hk; rcases List.mem_cons.1 hk with rfl | hk; exact h1; exact i1 k hk, ?_⟩
        rw [isNFKids_elem_cons b bs h1, h2, i2]; rfl

theorem phoneticPr_nf : phoneticPr.isElem = true ∧ isNF phoneticPr = true := ⟨rfl, by simp [phoneticPr, isNF, isNFKids]⟩

/-- **(a)** every `<si>` the model renders is in the reader's normal form -/
theorem siNode_isNF (x : SiX) (n : Node) (h : siNode x = some n) : isNF n = true := by
  simp only [siNode, Option.bind_eq_some_iff] at h
  obtain ⟨t, ht, rs, hrs, h3⟩ := h
  cases h3
  obtain ⟨r1, r2⟩ := mapOpt_runNode_nf _ _ hrs
  have ht' : (∀ k ∈ t, k.isElem = true) ∧ isNFKids t = true := by
    cases hx : x.t with
    | none => rw [hx] at ht; cases ht; simp [isNFKids]
    | some tx =>
      rw [hx] at ht
      simp only [Option.map_eq_some_iff] at ht
      obtain ⟨tn, htn, rfl⟩ := ht
      obtain ⟨h1, h2⟩ := tNode_nf _ _ htn
      refine ⟨by simpa using h1, ?_⟩
      rw [isNFKids_elem_cons tn [] h1, h2]; simp [isNFKids]
  show isNFKids (t ++ rs ++ [phoneticPr]) = true
  rw [isNFKids_append _ _ (by intro k hk; rcases List.mem_append.1 hk with hk | hk; exact ht'.1 k hk; exact r1 k hk),
    isNFKids_append _ _ ht'.1, ht'.2, r2]; simp [isNFKids, phoneticPr]

theorem siNode_shape (x : SiX) (n : Node) (h : siNode x = some n) : ∃ ks, n = .elem ['s', 'i'] [] ks := by
  simp only [siNode, Option.bind_eq_some_iff] at h
  obtain ⟨t, _, rs, _, h3⟩ := h
  exact ⟨_, (Option.some.inj h3).symm⟩

theorem renderCells_nf (xf : List Char → Nat) : ∀ (xs : List CellX) (ns : List Node), renderCells xf xs = some ns →
    (∀ k ∈ ns, k.isElem = true) ∧ isNFKids ns = true := by
  intro xs
  induction xs with
  | nil => intro ns h; cases h; simp [isNFKids]
  | cons x xs ih =>
    intro ns h
    simp only [renderCells, mapOpt] at h
    split at h
    · cases h
    · rename_i b hb
      split at h
      · cases h
      · rename_i bs hbs
        cases h
        obtain ⟨as, ks, rfl⟩ := cellNode_shape _ _ _ hb
        have h2 := cellNode_isNF _ _ _ hb
        obtain ⟨i1, i2⟩ := ih bs hbs
        refine ⟨by intro k hk; rcases List.mem_cons.1 hk with rfl | hk; rfl; exact i1 k hk, ?_⟩
        rw [isNFKids_elem_cons _ bs rfl, h2, i2]; rfl

end Umya.CellNode
