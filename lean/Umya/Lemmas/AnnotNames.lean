/-
  Defined names: reading the written text gives back the areas (helper lemmas for `Umya.Thm.C06`).
  Builds on the C17 theorems (range print/parse, `rsplit_once('!')`, quote stripping).
-/
import Umya.Lemmas.Annot
import Umya.Thm.C17
namespace Umya.Annot
open Umya.Coord Umya.Dec Umya.XmlEsc Umya.Thm.C17

/-- the shapes `is_address` accepts: a cell, or cell:cell -/
def CellShape (ρ : Range) : Prop :=
  (ρ.startCol.isSome ∧ ρ.startRow.isSome ∧ ρ.endCol.isNone ∧ ρ.endRow.isNone) ∨
  (ρ.startCol.isSome ∧ ρ.startRow.isSome ∧ ρ.endCol.isSome ∧ ρ.endRow.isSome)

/-- legal sheet names: non-empty, not starting with an apostrophe, none of `: \ ? [ ] / *` -/
def LegalSheet (n : Text) : Prop := LegalSheetName n ∧ ∀ c ∈ n, forbidden c = false

theorem dropWhile_digits_append (ds rest : List Char) (hd : ds.all isDigit = true)
    (hr : rest = [] ∨ ∃ c r, rest = c :: r ∧ isDigit c = false) :
    (ds ++ rest).dropWhile isDigit = rest := by
  induction ds with
  | nil =>
    rcases hr with h | ⟨c, r, h, hc⟩
    · subst h; rfl
    · subst h; simp [List.dropWhile, hc]
  | cons d ds ih =>
    simp only [List.all_cons, Bool.and_eq_true] at hd
    simp [List.dropWhile, hd.1, ih hd.2]

theorem matchRowRest_rowText (x : Ref) (rest : Text)
    (hr : rest = [] ∨ ∃ c r, rest = c :: r ∧ isDigit c = false) :
    matchRowRest (rowRefText x ++ rest) = some rest := by
  obtain ⟨d, ds, hd, hdig⟩ := decDigits_head x.num
  have hall := decDigits_all_digit x.num
  have htw := takeWhile_digits_append (decDigits x.num) rest hall hr
  have hdw := dropWhile_digits_append (decDigits x.num) rest hall hr
  have hne : decDigits x.num ≠ [] := decDigits_ne_nil x.num
  cases hl : x.lock
  · have hnd : d ≠ '$' := by intro h; subst h; simp [isDigit] at hdig
    have e : rowRefText x ++ rest = d :: (ds ++ rest) := by simp [rowRefText, hl, hd]
    have e2 : d :: (ds ++ rest) = decDigits x.num ++ rest := by simp [hd]
    unfold matchRowRest
    rw [e]
    split
    · rename_i r heq; injection heq with h1 _; exact absurd h1 hnd
    · simp only [e2, htw, hdw]
      cases h : decDigits x.num with
      | nil => exact absurd h hne
      | cons _ _ => simp
  · have e : rowRefText x ++ rest = '$' :: (decDigits x.num ++ rest) := by simp [rowRefText, hl]
    unfold matchRowRest
    rw [e]
    simp only [htw, hdw]
    cases h : decDigits x.num with
    | nil => exact absurd h hne
    | cons _ _ => simp

theorem matchCell_coord (c r : Ref) (rest : Text) (hc : 1 ≤ c.num ∧ c.num ≤ 18278)
    (hr : rest = [] ∨ ∃ ch rs, rest = ch :: rs ∧ isDigit ch = false) :
    matchCell (colRefText c ++ (rowRefText r ++ rest)) = some rest := by
  obtain ⟨ch, rs, hrow, hnu⟩ := rowRefText_head r
  have := matchColGroup_colText c (rowRefText r ++ rest) hc (Or.inr ⟨ch, rs ++ rest, by simp [hrow], hnu⟩)
  unfold matchCell
  rw [this]
  exact matchRowRest_rowText r rest hr

theorem matchCellRange_print (ρ : Range) (hs : CellShape ρ) (hb : Range.InBounds ρ) :
    matchCellRange ρ.print = true := by
  obtain ⟨sc, sr, ec, er⟩ := ρ
  obtain ⟨b1, b2, b3, b4⟩ := hb
  simp only at b1 b2 b3 b4
  unfold CellShape at hs
  simp only at hs
  rcases hs with ⟨h1, h2, h3, h4⟩ | ⟨h1, h2, h3, h4⟩
  · cases sc <;> cases sr <;> cases ec <;> cases er <;> simp at h1 h2 h3 h4
    rename_i a b
    have hp : Range.print ⟨some a, some b, none, none⟩ = colRefText a ++ (rowRefText b ++ []) := by
      simp [Range.print, optText]
    rw [hp]
    unfold matchCellRange
    rw [matchCell_coord a b [] (b1 a rfl) (Or.inl rfl)]
  · cases sc <;> cases sr <;> cases ec <;> cases er <;> simp at h1 h2 h3 h4
    rename_i a b x y
    have hp : Range.print ⟨some a, some b, some x, some y⟩
        = colRefText a ++ (rowRefText b ++ ':' :: (colRefText x ++ (rowRefText y ++ []))) := by
      simp [Range.print, optText]
    rw [hp]
    unfold matchCellRange
    rw [matchCell_coord a b _ (b1 a rfl) (Or.inr ⟨':', _, rfl, by decide⟩)]
    simp only [Bool.and_eq_true, decide_eq_true_eq, true_and]
    rw [matchCell_coord x y [] (b2 x rfl) (Or.inl rfl)]

theorem bang_free_print (ρ : Range) : '!' ∉ ρ.print := by
  intro h; exact rangeChar_ne_bang _ (print_chars ρ _ h) rfl

theorem apos_free_print (ρ : Range) : '\'' ∉ ρ.print := by
  intro h; exact (rangeChar_plain _ (print_chars ρ _ h)).1 rfl

theorem isAddress_pre (pre : Text) (ρ : Range) (hne : pre ≠ []) (hf : ∀ c ∈ pre, forbidden c = false)
    (hs : CellShape ρ) (hb : Range.InBounds ρ) : isAddress (pre ++ '!' :: ρ.print) = true := by
  unfold isAddress
  rw [rsplitBang_join pre ρ.print (bang_free_print ρ)]
  simp only [matchCellRange_print ρ hs hb, Bool.and_true, Bool.and_eq_true, Bool.not_eq_true', List.all_eq_true]
  refine ⟨?_, ?_⟩
  · cases pre with
    | nil => exact absurd rfl hne
    | cons _ _ => rfl
  · intro c hc; simp [hf c hc]

theorem replaceApos_mem (s : Text) (c : Char) (h : c ∈ replaceApos s) : c ∈ s := by
  induction s with
  | nil => simp [replaceApos] at h
  | cons d r ih =>
    rw [replaceApos_cons] at h
    rcases List.mem_append.1 h with h | h
    · by_cases hd : d = '\''
      · simp [hd] at h; simp [hd, h]
      · simp [hd] at h; simp [h]
    · exact List.mem_cons_of_mem _ (ih h)

theorem replaceApos_head (s : Text) (hne : s ≠ []) (hh : s.head? ≠ some '\'') :
    (replaceApos s).head? ≠ some '\'' ∧ replaceApos s ≠ [] := by
  cases s with
  | nil => exact absurd rfl hne
  | cons c r =>
    have hc : c ≠ '\'' := by simpa using hh
    rw [replaceApos_cons]; simp [hc]

structure AreaOK (a : Address) : Prop where
  sheet : LegalSheet a.sheet
  shape : CellShape a.range
  bounds : Range.InBounds a.range

theorem isShape_of_cell (ρ : Range) (h : CellShape ρ) : Range.IsShape ρ := by
  rcases h with h | h
  · exact Or.inl h
  · exact Or.inr (Or.inl h)

/-- the written text of one area is accepted by `is_address` -/
theorem isAddress_area (a : Address) (h : AreaOK a) : isAddress a.text = true := by
  obtain ⟨⟨⟨hne, hh⟩, hf⟩, hs, hb⟩ := h
  unfold Address.text
  rcases addressText_forms a.sheet a.range.print hne with ⟨e, _⟩ | e
  · rw [e]; exact isAddress_pre a.sheet a.range hne hf hs hb
  · rw [e]
    have : '\'' :: (replaceApos a.sheet ++ '\'' :: '!' :: a.range.print)
        = ('\'' :: (replaceApos a.sheet ++ ['\''])) ++ '!' :: a.range.print := by simp
    rw [this]
    refine isAddress_pre _ a.range (by simp) ?_ hs hb
    intro c hc
    simp only [List.mem_cons, List.mem_append, List.not_mem_nil, or_false] at hc
    rcases hc with h | h | h
    · subst h; decide
    · exact hf c (replaceApos_mem _ _ h)
    · subst h; decide

/-- the written text of one area passes through `split_str` unchanged and leaves its state alone -/
theorem neutral_area (a : Address) (h : AreaOK a) : Neutral a.text ∧ a.text ≠ [] := by
  obtain ⟨⟨⟨hne, hh⟩, hf⟩, hs, hb⟩ := h
  have hrng : ∀ c ∈ '!' :: a.range.print, Plain c := by
    intro c hc
    rcases List.mem_cons.1 hc with e | e
    · subst e; refine ⟨?_, ?_, ?_, ?_, ?_⟩ <;> decide
    · exact rangeChar_plain c (print_chars _ c e)
  unfold Address.text
  rcases addressText_forms a.sheet a.range.print hne with ⟨e, hal⟩ | e
  · rw [e]
    refine ⟨neutral_append _ _ (neutral_plain _ ?_) (neutral_plain _ hrng), by simp⟩
    intro c hc; exact alnum_plain c (List.all_eq_true.1 hal c hc)
  · rw [e]
    have : '\'' :: (replaceApos a.sheet ++ '\'' :: '!' :: a.range.print)
        = ('\'' :: (replaceApos a.sheet ++ ['\''])) ++ '!' :: a.range.print := by simp
    rw [this]
    exact ⟨neutral_append _ _ (neutral_quoted _) (neutral_plain _ hrng), by simp⟩

/-- un-doubling and splitting the written text of one area gives the area back -/
theorem parse_area (a : Address) (h : AreaOK a) : Address.parse (undouble a.text) = .ok a := by
  obtain ⟨⟨⟨hne, hh⟩, hf⟩, hs, hb⟩ := h
  have hleg : LegalSheetName a.sheet := ⟨hne, hh⟩
  have hpr := C17_range a.range (isShape_of_cell _ hs) hb
  have hbang := bang_free_print a.range
  have hapos : '\'' ∉ '!' :: a.range.print := by
    intro hm
    rcases List.mem_cons.1 hm with e | e
    · exact absurd e (by decide)
    · exact apos_free_print _ e
  obtain ⟨sheet, ρ⟩ := a
  simp only at hne hh hf hs hb hleg hpr hbang hapos
  unfold Address.text
  simp only
  rcases addressText_forms sheet ρ.print hne with ⟨e, hal⟩ | e
  · rw [e]
    have hfree : '\'' ∉ sheet ++ '!' :: ρ.print := by
      intro hm
      rcases List.mem_append.1 hm with h | h
      · exact alnum_ne_apos _ (List.all_eq_true.1 hal _ h) rfl
      · exact hapos h
    rw [undouble_id _ hfree]
    simp only [Address.parse, splitAddress, rsplitBang_join sheet ρ.print hbang, stripSheetQuote_legal sheet hleg, hpr]
  · rw [e]
    have hhd : (replaceApos sheet ++ '\'' :: '!' :: ρ.print).head? ≠ some '\'' := by
      obtain ⟨h1, h2⟩ := replaceApos_head sheet hne hh
      cases hr : replaceApos sheet with
      | nil => exact absurd hr h2
      | cons c r => rw [hr] at h1; simpa using h1
    rw [undouble_apos_single _ hhd, undouble_double,
      undouble_apos_single _ (by simp), undouble_id _ hapos]
    have : '\'' :: (sheet ++ '\'' :: '!' :: ρ.print) = ('\'' :: (sheet ++ ['\''])) ++ '!' :: ρ.print := by simp
    rw [this]
    simp only [Address.parse, splitAddress, rsplitBang_join _ ρ.print hbang, stripSheetQuote_quoted, hpr]

theorem addAll_areas (as acc : List Address) (h : ∀ a ∈ as, AreaOK a) :
    addAll acc (as.map Address.text) = .ok (acc ++ as) := by
  induction as generalizing acc with
  | nil => simp [addAll]
  | cons a r ih =>
    simp only [List.map_cons, addAll, parse_area a (h a (by simp))]
    rw [ih (acc ++ [a]) (fun x hx => h x (List.mem_cons_of_mem _ hx))]; simp

end Umya.Annot
