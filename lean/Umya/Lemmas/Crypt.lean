/-
  Helper lemmas for C14: the model's building blocks (`Umya/Model/Crypt.lean`) against the
  decryptor of the specification (`Umya/Spec/Agile.lean`).
-/
import Umya.Model.Crypt
import Umya.Spec.Agile
import Umya.Lemmas.PwHash
namespace Umya.Crypt
open Umya.Crypto Umya.Agile
open Umya.Spec.Agile (fitTo deriveHn deriveKey ivOf leValue segments decryptSegments)

/-! ### cut / pad -/

theorem fit_eq_fitTo (n : Nat) (x : Bytes) : fit n x = fitTo n x := by
  unfold fit fitTo
  split
  · rename_i h
    rw [List.take_of_length_le (by omega)]
  · rename_i h
    have : n - x.length = 0 := by omega
    simp [this]

theorem fit_length (n : Nat) (x : Bytes) : (fit n x).length = n := by
  unfold fit
  split
  · simp; omega
  · simp; omega

theorem createIv_length (P : Prims) (salt : Bytes) (n : Nat) (bk : Bytes) : (createIv P salt n bk).length = n :=
  fit_length _ _

theorem createIv_eq_ivOf (P : Prims) (salt : Bytes) (n : Nat) (bk : Bytes) :
    createIv P salt n bk = ivOf P salt bk n := by
  unfold createIv ivOf
  exact fit_eq_fitTo _ _

/-! ### key derivation: the model's loop is §2.3.4.11 -/

theorem kdf_eq (P : Prims) (pw : List Char) (salt : Bytes) (spin bits : Nat) (bk : Bytes) :
    convertPasswordToKey P pw salt spin bits bk = deriveKey P (deriveHn P pw salt spin) bk bits := by
  unfold convertPasswordToKey deriveKey deriveHn
  rw [fit_eq_fitTo, spinLoop_eq_spinUp, spinUp_eq_foldl, Umya.PwHash.utf16le_eq]
  congr 4
  funext h i
  rw [Umya.PwHash.le32_eq_leBytes]

theorem kdf_length (P : Prims) (pw : List Char) (salt : Bytes) (spin : Nat) (bk : Bytes) :
    (convertPasswordToKey P pw salt spin 256 bk).length = 32 := by
  unfold convertPasswordToKey
  exact fit_length _ _

/-! ### `crypt` does not panic on the inputs `encrypt` gives it -/

theorem crypt_some (P : Prims) (key iv m : Bytes) (hk : key.length = 32) (hiv : iv.length = 16)
    (hm : m.length % 16 = 0) (hl : m.length ≤ 4096) : crypt P key iv m = some (P.aesCbcEnc key iv m) := by
  unfold crypt
  have h1 : ¬ m.length > 4096 := by omega
  have h2 : ¬ key.length * 8 ≠ 256 := by omega
  have h3 : ¬ iv.length ≠ 16 := by omega
  have h4 : ¬ m.length % 16 ≠ 0 := by omega
  simp only [h1, h2, h3, h4, if_false]

/-! ### the length prefix -/

theorem toNat_ofNat_mod (n : Nat) : (UInt8.ofNat (n % 256)).toNat = n % 256 := by
  simp [UInt8.toNat_ofNat']

theorem leValue_prefix (n : Nat) : leValue (le32 n ++ [0, 0, 0, 0]) = n % 4294967296 := by
  simp only [le32, List.cons_append, List.nil_append, leValue, toNat_ofNat_mod]
  simp
  omega

/-! ### padding and chunking -/

theorem padChunk_mod (c : Bytes) : (padChunk c).length % 16 = 0 := by
  unfold padChunk
  split
  · simp; omega
  · omega

theorem padChunk_le (c : Bytes) (h : c.length ≤ 4096) : (padChunk c).length ≤ 4096 := by
  unfold padChunk
  split
  · simp; omega
  · exact h

theorem padChunk_full (c : Bytes) (h : c.length % 16 = 0) : padChunk c = c := by
  unfold padChunk
  simp [h]

theorem padChunk_length (c : Bytes) : (padChunk c).length = (c.length + 15) / 16 * 16 := by
  unfold padChunk
  split
  · simp; omega
  · omega

theorem padChunk_take (c : Bytes) : (padChunk c).take c.length = c := by
  unfold padChunk
  split
  · simp
  · simp

theorem chunks_nil : chunks [] = [] := by
  rw [chunks]; simp

theorem chunks_cons (xs : Bytes) (h : xs.length ≠ 0) :
    chunks xs = xs.take chunkSize :: chunks (xs.drop chunkSize) := by
  rw [chunks]; simp [h]

theorem chunks_le (data : Bytes) : ∀ c ∈ chunks data, c.length ≤ 4096 := by
  induction hn : data.length using Nat.strongRecOn generalizing data with
  | _ n ih =>
    by_cases h0 : data.length = 0
    · have : data = [] := List.eq_nil_of_length_eq_zero h0
      subst this
      rw [chunks_nil]; simp
    · rw [chunks_cons data h0]
      intro c hc
      simp only [List.mem_cons] at hc
      rcases hc with hc | hc
      · subst hc; simp [chunkSize]; omega
      · exact ih (data.drop chunkSize).length (by simp [chunkSize]; omega) _ rfl c hc

/-- chunk-wise zero padding is padding of the whole (4096 is a multiple of 16) -/
theorem chunks_pad_flatten (data : Bytes) : ((chunks data).map padChunk).flatten = padChunk data := by
  induction hn : data.length using Nat.strongRecOn generalizing data with
  | _ n ih =>
    by_cases h0 : data.length = 0
    · have : data = [] := List.eq_nil_of_length_eq_zero h0
      subst this
      rw [chunks_nil]; simp [padChunk]
    · rw [chunks_cons data h0]
      simp only [List.map_cons, List.flatten_cons]
      rw [ih (data.drop chunkSize).length (by simp [chunkSize]; omega) _ rfl]
      by_cases hl : data.length ≤ 4096
      · have h1 : data.take chunkSize = data := List.take_of_length_le (by simp [chunkSize]; omega)
        have h2 : data.drop chunkSize = [] := List.drop_eq_nil_of_le (by simp [chunkSize]; omega)
        rw [h1, h2]; simp [padChunk]
      · have hlen : (data.take chunkSize).length = 4096 := by simp [chunkSize]; omega
        rw [padChunk_full _ (by omega)]
        have hd : (data.drop chunkSize).length = data.length - 4096 := by simp [chunkSize]
        unfold padChunk
        have hm : (data.drop chunkSize).length % 16 = data.length % 16 := by omega
        rw [hm]
        split
        · rw [← List.append_assoc, List.take_append_drop]
        · rw [List.take_append_drop]

/-! ### the chunk loop without the panic plumbing -/

/-- what `cryptChunks` returns when nothing panics -/
def encChunks (P : Prims) (salt key : Bytes) : Nat → List Bytes → List Bytes
  | _, [] => []
  | i, c :: cs => P.aesCbcEnc key (createIv P salt 16 (le32 i)) (padChunk c) :: encChunks P salt key (i + 1) cs

theorem cryptChunks_eq (P : Prims) (salt key : Bytes) (hk : key.length = 32) (i : Nat) (cs : List Bytes)
    (hcs : ∀ c ∈ cs, c.length ≤ 4096) :
    cryptChunks P salt key i cs = some (encChunks P salt key i cs) := by
  induction cs generalizing i with
  | nil => rfl
  | cons c cs ih =>
    have hc := hcs c (by simp)
    simp only [cryptChunks, encChunks]
    rw [crypt_some P key _ _ hk (createIv_length _ _ _ _) (padChunk_mod c) (padChunk_le c hc),
      ih (i + 1) (fun c' h => hcs c' (by simp [h]))]

theorem cryptPackage_eq (P : Prims) (salt key data : Bytes) (hk : key.length = 32) :
    cryptPackage P salt key data =
      some (le32 data.length ++ [0, 0, 0, 0] ++ (encChunks P salt key 0 (chunks data)).flatten) := by
  unfold cryptPackage
  rw [cryptChunks_eq P salt key hk 0 _ (chunks_le data)]

theorem encChunks_flatten_length (P : Prims) (hP : P.Lawful) (salt key : Bytes) (i : Nat) (cs : List Bytes) :
    (encChunks P salt key i cs).flatten.length = (cs.map padChunk).flatten.length := by
  induction cs generalizing i with
  | nil => rfl
  | cons c cs ih =>
    simp only [encChunks, List.flatten_cons, List.length_append, List.map_cons, hP.enc_len, ih]

/-- §2.3.4.15 read back: cutting the concatenated ciphertext into 4096-byte segments recovers the
    per-chunk ciphertexts (every chunk but the last is exactly 4096 bytes, the last is non-empty) -/
theorem segments_encChunks (P : Prims) (hP : P.Lawful) (salt key : Bytes) (i : Nat) (data : Bytes) :
    segments (encChunks P salt key i (chunks data)).flatten = encChunks P salt key i (chunks data) := by
  induction hn : data.length using Nat.strongRecOn generalizing data i with
  | _ n ih =>
    by_cases h0 : data.length = 0
    · have : data = [] := List.eq_nil_of_length_eq_zero h0
      subst this
      rw [chunks_nil]
      simp only [encChunks, List.flatten_nil]
      rw [segments]; simp
    · rw [chunks_cons data h0]
      simp only [encChunks, List.flatten_cons]
      have hrec := ih (data.drop chunkSize).length (by simp [chunkSize]; omega) (i + 1) _ rfl
      generalize hR : (encChunks P salt key (i + 1) (chunks (List.drop chunkSize data))) = R at hrec ⊢
      generalize hH : P.aesCbcEnc key (createIv P salt 16 (le32 i)) (padChunk (List.take chunkSize data)) = H
      have hHlen : H.length = (padChunk (data.take chunkSize)).length := by rw [← hH, hP.enc_len]
      by_cases hl : data.length ≤ 4096
      · -- single (last) chunk
        have h2 : data.drop chunkSize = [] := List.drop_eq_nil_of_le (by simp [chunkSize]; omega)
        rw [h2, chunks_nil] at hR
        simp only [encChunks] at hR
        subst hR
        have h1 : data.take chunkSize = data := List.take_of_length_le (by simp [chunkSize]; omega)
        rw [h1, padChunk_length] at hHlen
        simp only [List.flatten_nil, List.append_nil]
        rw [segments]
        have hpos : H.length ≠ 0 := by omega
        have hle : H.length ≤ 4096 := by omega
        simp only [hpos, if_false]
        rw [List.take_of_length_le hle, List.drop_eq_nil_of_le hle, segments]
        simp
      · have hlen : (data.take chunkSize).length = 4096 := by simp [chunkSize]; omega
        rw [padChunk_full _ (by omega), hlen] at hHlen
        rw [segments]
        have hpos : (H ++ R.flatten).length ≠ 0 := by rw [List.length_append]; omega
        simp only [hpos, if_false]
        rw [List.take_append_of_le_length (by omega), List.take_of_length_le (by omega),
          List.drop_append_of_le_length (by omega), List.drop_eq_nil_of_le (by omega)]
        simp only [List.nil_append]
        rw [hrec]

/-- §2.3.4.15 read back: segment `i` decrypts, with its own IV, to the padded chunk `i` -/
theorem decryptSegments_encChunks (P : Prims) (hP : P.Lawful) (salt key : Bytes) (hk : key.length = 32)
    (i : Nat) (cs : List Bytes) :
    decryptSegments P key salt 16 i (encChunks P salt key i cs) = cs.map padChunk := by
  induction cs generalizing i with
  | nil => rfl
  | cons c cs ih =>
    simp only [encChunks, decryptSegments, List.map_cons]
    rw [← Umya.PwHash.le32_eq_leBytes, ← createIv_eq_ivOf,
      hP.dec_enc _ _ _ hk (createIv_length _ _ _ _) (padChunk_mod c), ih]

/-! ### `encrypt` without the panic plumbing -/

/-- the `EncryptedPackage` stream `encrypt` produces -/
def encPackage (P : Prims) (ρ : Randoms) (data : Bytes) : Bytes :=
  le32 data.length ++ [0, 0, 0, 0] ++ (encChunks P ρ.packageSalt ρ.packageKey 0 (chunks data)).flatten

/-- the descriptor `encrypt` produces -/
def encInfo (P : Prims) (spin : Nat) (data : Bytes) (pw : List Char) (ρ : Randoms) : Info :=
  { keyData := { saltSize := ρ.packageSalt.length, blockSize := 16, keyBits := ρ.packageKey.length * 8,
                 hashSize := 64, cipherAlgorithm := aes, cipherChaining := cbc,
                 hashAlgorithm := sha512Name, saltValue := P.b64 ρ.packageSalt }
    encryptedHmacKey := P.b64 (P.aesCbcEnc ρ.packageKey (createIv P ρ.packageSalt 16 blkHmacKey) ρ.hmacKey)
    encryptedHmacValue := P.b64 (P.aesCbcEnc ρ.packageKey (createIv P ρ.packageSalt 16 blkHmacValue)
      (P.hmac ρ.hmacKey (encPackage P ρ data)))
    spinCount := spin
    key := { saltSize := ρ.keySalt.length, blockSize := 16, keyBits := 256, hashSize := 64,
             cipherAlgorithm := aes, cipherChaining := cbc, hashAlgorithm := sha512Name,
             saltValue := P.b64 ρ.keySalt }
    encryptedVerifierHashInput :=
      P.b64 (P.aesCbcEnc (convertPasswordToKey P pw ρ.keySalt spin 256 blkVerifierInput) ρ.keySalt ρ.verifierInput)
    encryptedVerifierHashValue :=
      P.b64 (P.aesCbcEnc (convertPasswordToKey P pw ρ.keySalt spin 256 blkVerifierValue) ρ.keySalt
        (P.sha512 ρ.verifierInput))
    encryptedKeyValue :=
      P.b64 (P.aesCbcEnc (convertPasswordToKey P pw ρ.keySalt spin 256 blkKey) ρ.keySalt ρ.packageKey) }

/-- **No panic**: with lawful primitives and random material of the sizes `gen_random_*` draws,
    `encrypt` returns, and its result is `(encInfo, encPackage)` -/
theorem encryptWith_eq (P : Prims) (hP : P.Lawful) (spin : Nat) (data : Bytes) (pw : List Char) (ρ : Randoms)
    (hρ : ρ.wellFormed) :
    encryptWith P spin data pw ρ = some (encInfo P spin data pw ρ, encPackage P ρ data) := by
  obtain ⟨h1, h2, h3, h4, h5⟩ := hρ
  unfold encryptWith
  rw [cryptPackage_eq P _ _ data h1]
  simp only []
  rw [crypt_some P _ _ _ h1 (createIv_length _ _ _ _) (by omega) (by omega)]
  simp only []
  rw [crypt_some P _ _ _ h1 (createIv_length _ _ _ _) (by rw [hP.hmac_len]) (by rw [hP.hmac_len]; omega)]
  simp only []
  rw [crypt_some P _ _ _ (kdf_length _ _ _ _ _) h3 (by omega) (by omega)]
  simp only []
  rw [crypt_some P _ _ _ (kdf_length _ _ _ _ _) h3 (by omega) (by omega)]
  simp only []
  rw [crypt_some P _ _ _ (kdf_length _ _ _ _ _) h3 (by rw [hP.sha_len]) (by rw [hP.sha_len]; omega)]
  rfl

/-! ### the specification's decryptor on `encrypt`'s output, stage by stage -/

open Umya.Spec.Agile (verifyPassword packageKey integrityOk declaredSize decryptData paramsOk)

theorem blk_eq : Umya.Spec.Agile.blkVerifierInput = blkVerifierInput ∧
    Umya.Spec.Agile.blkVerifierValue = blkVerifierValue ∧ Umya.Spec.Agile.blkKeyValue = blkKey ∧
    Umya.Spec.Agile.blkHmacKey = blkHmacKey ∧ Umya.Spec.Agile.blkHmacValue = blkHmacValue :=
  ⟨rfl, rfl, rfl, rfl, rfl⟩

theorem paramsOk_key (P : Prims) (spin : Nat) (data : Bytes) (pw : List Char) (ρ : Randoms) :
    paramsOk (encInfo P spin data pw ρ).key = true := rfl

theorem paramsOk_keyData (P : Prims) (spin : Nat) (data : Bytes) (pw : List Char) (ρ : Randoms)
    (h1 : ρ.packageKey.length = 32) : paramsOk (encInfo P spin data pw ρ).keyData = true := by
  have : (encInfo P spin data pw ρ).keyData =
      ⟨ρ.packageSalt.length, 16, 256, 64, aes, cbc, sha512Name, P.b64 ρ.packageSalt⟩ := by
    simp [encInfo, h1]
  rw [this]; rfl

/-- §2.3.4.13: the verifier matches for the password the file was written with -/
theorem verify_ok (P : Prims) (hP : P.Lawful) (spin : Nat) (data : Bytes) (pw : List Char) (ρ : Randoms)
    (hρ : ρ.wellFormed) :
    verifyPassword P (encInfo P spin data pw ρ) pw = some (deriveHn P pw ρ.keySalt spin) := by
  obtain ⟨h1, h2, h3, h4, h5⟩ := hρ
  unfold verifyPassword
  rw [paramsOk_key, paramsOk_keyData _ _ _ _ _ h1]
  simp only [Bool.and_self, Bool.not_true, Bool.false_eq_true, if_false]
  have e1 : (encInfo P spin data pw ρ).key.saltValue = P.b64 ρ.keySalt := rfl
  have e2 : (encInfo P spin data pw ρ).encryptedVerifierHashInput =
      P.b64 (P.aesCbcEnc (convertPasswordToKey P pw ρ.keySalt spin 256 blkVerifierInput) ρ.keySalt ρ.verifierInput) := rfl
  have e3 : (encInfo P spin data pw ρ).encryptedVerifierHashValue =
      P.b64 (P.aesCbcEnc (convertPasswordToKey P pw ρ.keySalt spin 256 blkVerifierValue) ρ.keySalt
        (P.sha512 ρ.verifierInput)) := rfl
  have e4 : (encInfo P spin data pw ρ).key.saltSize = ρ.keySalt.length := rfl
  have e5 : (encInfo P spin data pw ρ).key.keyBits = 256 := rfl
  have e6 : (encInfo P spin data pw ρ).key.hashSize = 64 := rfl
  have e7 : (encInfo P spin data pw ρ).spinCount = spin := rfl
  rw [e1, e2, e3, hP.unb64_b64, hP.unb64_b64, hP.unb64_b64]
  simp only [e4, e5, e6, e7, ne_eq, not_true_eq_false, if_false]
  rw [blk_eq.1, blk_eq.2.1, ← kdf_eq, ← kdf_eq,
    hP.dec_enc _ _ _ (kdf_length _ _ _ _ _) h3 (by omega),
    hP.dec_enc _ _ _ (kdf_length _ _ _ _ _) h3 (by rw [hP.sha_len])]
  rw [List.take_of_length_le (by omega), List.take_of_length_le (by rw [hP.sha_len]; omega)]
  simp

/-- §2.3.4.13: the package key unwraps -/
theorem packageKey_ok (P : Prims) (hP : P.Lawful) (spin : Nat) (data : Bytes) (pw : List Char) (ρ : Randoms)
    (hρ : ρ.wellFormed) :
    packageKey P (encInfo P spin data pw ρ) (deriveHn P pw ρ.keySalt spin) = some ρ.packageKey := by
  obtain ⟨h1, h2, h3, h4, h5⟩ := hρ
  unfold packageKey
  have e1 : (encInfo P spin data pw ρ).key.saltValue = P.b64 ρ.keySalt := rfl
  have e2 : (encInfo P spin data pw ρ).encryptedKeyValue =
      P.b64 (P.aesCbcEnc (convertPasswordToKey P pw ρ.keySalt spin 256 blkKey) ρ.keySalt ρ.packageKey) := rfl
  have e5 : (encInfo P spin data pw ρ).key.keyBits = 256 := rfl
  have e6 : (encInfo P spin data pw ρ).keyData.keyBits = ρ.packageKey.length * 8 := rfl
  rw [e1, e2, hP.unb64_b64, hP.unb64_b64]
  simp only [e5, e6]
  rw [blk_eq.2.2.1, ← kdf_eq, hP.dec_enc _ _ _ (kdf_length _ _ _ _ _) h3 (by omega),
    List.take_of_length_le (by omega)]

/-- §2.3.4.14: the HMAC over the whole `EncryptedPackage` stream verifies -/
theorem integrity_ok (P : Prims) (hP : P.Lawful) (spin : Nat) (data : Bytes) (pw : List Char) (ρ : Randoms)
    (hρ : ρ.wellFormed) :
    integrityOk P (encInfo P spin data pw ρ) ρ.packageKey (encPackage P ρ data) = true := by
  obtain ⟨h1, h2, h3, h4, h5⟩ := hρ
  unfold integrityOk
  have e1 : (encInfo P spin data pw ρ).keyData.saltValue = P.b64 ρ.packageSalt := rfl
  have e2 : (encInfo P spin data pw ρ).encryptedHmacKey =
      P.b64 (P.aesCbcEnc ρ.packageKey (createIv P ρ.packageSalt 16 blkHmacKey) ρ.hmacKey) := rfl
  have e3 : (encInfo P spin data pw ρ).encryptedHmacValue =
      P.b64 (P.aesCbcEnc ρ.packageKey (createIv P ρ.packageSalt 16 blkHmacValue)
        (P.hmac ρ.hmacKey (encPackage P ρ data))) := rfl
  have e4 : (encInfo P spin data pw ρ).keyData.blockSize = 16 := rfl
  have e5 : (encInfo P spin data pw ρ).keyData.hashSize = 64 := rfl
  have e6 : (encInfo P spin data pw ρ).keyData.saltSize = ρ.packageSalt.length := rfl
  rw [e1, e2, e3, hP.unb64_b64, hP.unb64_b64, hP.unb64_b64]
  simp only [e4, e5, e6]
  rw [blk_eq.2.2.2.1, blk_eq.2.2.2.2, ← createIv_eq_ivOf, ← createIv_eq_ivOf,
    hP.dec_enc _ _ _ h1 (createIv_length _ _ _ _) (by omega),
    hP.dec_enc _ _ _ h1 (createIv_length _ _ _ _) (by rw [hP.hmac_len]),
    List.take_of_length_le (by omega), List.take_of_length_le (by rw [hP.hmac_len]; omega)]
  simp

theorem encPackage_take8 (P : Prims) (ρ : Randoms) (data : Bytes) :
    (encPackage P ρ data).take 8 = le32 data.length ++ [0, 0, 0, 0] := by
  unfold encPackage
  rw [List.take_append_of_le_length (by simp [le32])]
  exact List.take_of_length_le (by simp [le32])

theorem encPackage_drop8 (P : Prims) (ρ : Randoms) (data : Bytes) :
    (encPackage P ρ data).drop 8 = (encChunks P ρ.packageSalt ρ.packageKey 0 (chunks data)).flatten := by
  unfold encPackage
  rw [List.drop_append_of_le_length (by simp [le32])]
  rw [List.drop_eq_nil_of_le (by simp [le32])]
  rfl

/-- §2.3.4.15: StreamSize is the package length (as long as it fits the 32 bits the code writes) -/
theorem declaredSize_ok (P : Prims) (ρ : Randoms) (data : Bytes) :
    declaredSize (encPackage P ρ data) = data.length % 4294967296 := by
  unfold declaredSize
  rw [encPackage_take8, leValue_prefix]

theorem encPackage_length (P : Prims) (hP : P.Lawful) (ρ : Randoms) (data : Bytes) :
    (encPackage P ρ data).length = 8 + (data.length + 15) / 16 * 16 := by
  unfold encPackage
  rw [List.length_append, encChunks_flatten_length P hP, chunks_pad_flatten, padChunk_length]
  simp [le32]

/-- §2.3.4.15: the segments decrypt and, cut to StreamSize, give back the package -/
theorem decryptData_ok (P : Prims) (hP : P.Lawful) (spin : Nat) (data : Bytes) (pw : List Char) (ρ : Randoms)
    (hρ : ρ.wellFormed) (hn : data.length < 4294967296) :
    decryptData P (encInfo P spin data pw ρ) ρ.packageKey (encPackage P ρ data) = some data := by
  obtain ⟨h1, h2, h3, h4, h5⟩ := hρ
  unfold decryptData
  have e1 : (encInfo P spin data pw ρ).keyData.saltValue = P.b64 ρ.packageSalt := rfl
  have e4 : (encInfo P spin data pw ρ).keyData.blockSize = 16 := rfl
  rw [e1, hP.unb64_b64]
  simp only [e4]
  have hlen := encPackage_length P hP ρ data
  have hd : ((encPackage P ρ data).drop 8).length % 16 = 0 := by
    rw [List.length_drop, hlen]; omega
  have h8 : ¬ (encPackage P ρ data).length < 8 := by omega
  simp only [h8, if_false, hd, ne_eq, not_true_eq_false]
  rw [encPackage_drop8, segments_encChunks P hP, decryptSegments_encChunks P hP _ _ h1, chunks_pad_flatten,
    declaredSize_ok, Nat.mod_eq_of_lt hn, padChunk_take]
  have : ¬ data.length > (padChunk data).length := by rw [padChunk_length]; omega
  simp only [this, if_false]

end Umya.Crypt
