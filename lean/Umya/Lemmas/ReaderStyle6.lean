/-
  Helper lemmas for C03, style resolution: the whole `styles.xml` (`readStyleSheet` against `styleTable`).
-/
import Umya.Lemmas.ReaderStyle5
namespace Umya.Reader.Lemmas
open Umya.Reader Umya.Spec.Xml Umya.Spec.Sml
open Umya.StyleCodec

def applyNames : List String :=
  ["applyNumberFormat", "applyFont", "applyFill", "applyBorder", "applyAlignment", "applyProtection"]

/-- the first `<xf>` of `cellStyleXfs` (the library's `def_cell_format` for EVERY cell xf, `xfId` is not read) carries
    no `apply*` attribute (it may have an alignment / protection child: those are no longer handed on to the cell xfs) -/
def defNeutral : Option Node → Bool
  | none => true
  | some d => applyNames.all (fun k => (d.attr? k.toList).isNone)

/-- shape: unprefixed element names in the root and in every table, each table at most once -/
def stylesShape (root : Node) : Bool :=
  root.children.all plain && root.children.all (fun c => c.children.all plain) &&
  uniq root.children "numFmts" && uniq root.children "fonts" && uniq root.children "fills" &&
  uniq root.children "borders" && uniq root.children "cellStyleXfs" && uniq root.children "cellXfs"

/-- items: every `numFmt` / `font` / `fill` / `border` valid, number-format ids pairwise different -/
def stylesItems (root : Node) : Bool :=
  (tableNodes root "numFmts" "numFmt").all validNumFmt && decide (((numFmtTable root).map (·.1)).Nodup) &&
  (tableNodes root "fonts" "font").all validFont && (tableNodes root "fills" "fill").all validFill &&
  (tableNodes root "borders" "border").all validBorder

/-- xfs: every `<xf>` of both lists valid, the first of `cellStyleXfs` neutral, the ids of every cell xf inside
    their tables (where applied) -/
def stylesXfs (root : Node) : Bool :=
  (tableNodes root "cellStyleXfs" "xf").all validXf && defNeutral (tableNodes root "cellStyleXfs" "xf").head? &&
  (tableNodes root "cellXfs" "xf").all (fun x => validXf x &&
    xfInRange (numFmtTable root) (tableNodes root "fonts" "font").length (tableNodes root "fills" "fill").length
      (tableNodes root "borders" "border").length x)

/-- **the valid `styles.xml`** (root element `root`) -/
def validStyles (root : Node) : Bool := stylesShape root && stylesItems root && stylesXfs root

theorem mapM_view₂ {α β γ δ : Type} (f : α → Option γ) (view : γ → δ) (spec : β → δ) (R : α → β → Prop) :
    ∀ (ns : List β) (xs : List α), xs.length = ns.length →
      (∀ (i : Nat) (b : β), ns[i]? = some b → ∃ a, xs[i]? = some a ∧ R a b) →
      (∀ a b, b ∈ ns → R a b → ∃ s, f a = some s ∧ view s = spec b) →
      ∃ ys, xs.mapM f = some ys ∧ ys.map view = ns.map spec := by
  intro ns
  induction ns with
  | nil =>
    intro xs hl _ _
    have : xs = [] := List.eq_nil_of_length_eq_zero hl
    subst this
    exact ⟨[], rfl, rfl⟩
  | cons b r ih =>
    intro xs hl hrel hf
    cases xs with
    | nil => simp at hl
    | cons a xs' =>
      obtain ⟨a0, ha0, hR⟩ := hrel 0 b rfl
      simp only [List.getElem?_cons_zero, Option.some.injEq] at ha0
      subst ha0
      obtain ⟨s, hs, hsv⟩ := hf a b List.mem_cons_self hR
      obtain ⟨ys, hys, hysv⟩ := ih xs' (by simpa using hl)
        (fun i b' hb' => by simpa using hrel (i + 1) b' (by simpa using hb'))
        (fun a' b' hb' => hf a' b' (List.mem_cons_of_mem _ hb'))
      refine ⟨s :: ys, ?_, by simp only [List.map_cons, hsv, hysv]⟩
      simp only [List.mapM_cons, hs, hys]
      rfl

theorem numFmtTable_eq (root : Node) :
    numFmtTable root = (tableNodes root "numFmts" "numFmt").filterMap fun n =>
      match (n.attr? "numFmtId".toList).bind natOf, n.attr? "formatCode".toList with
      | some i, some c => some (i, c)
      | _, _ => none := rfl

theorem styleTable_eq (root : Node) :
    styleTable root = (tableNodes root "cellXfs" "xf").map
      (xfV (numFmtTable root) (tableNodes root "fonts" "font") (tableNodes root "fills" "fill") (tableNodes root "borders" "border")) := rfl

theorem neutral_of (d : XfR) (dn : Node) (hx : XfAgrees d dn) (hn : defNeutral (some dn) = true) : Neutral d := by
  simp only [defNeutral, applyNames, List.all_cons, List.all_nil, Bool.and_true, Bool.and_eq_true,
    Option.isNone_iff_eq_none] at hn
  obtain ⟨a1, a2, a3, a4, a5, a6⟩ := hn
  have hf := hx.flags
  simp only [a1, a2, a3, a4, a5, a6, Option.map_none, Prod.mk.injEq] at hf
  obtain ⟨f1, f2, f3, f4, f5, f6⟩ := hf
  exact ⟨f1, f2, f3, f4, f5, f6⟩

/-- **the style sheet as a whole**: `Stylesheet::set_attributes` + `make_style` on a valid `styles.xml` do not panic
    and `maked_style_list` holds, xf by xf, the decoder's facts -/
theorem styles_agree (cf : Tok → Tok) (root : Node) (h : validStyles root = true) :
    ∃ made, readStyleSheet cf root = some made ∧ made.map styleFacts = (styleTable root).map (xfFacts cf) := by
  simp only [validStyles, stylesShape, stylesItems, stylesXfs, Bool.and_eq_true, decide_eq_true_eq] at h
  obtain ⟨⟨⟨⟨⟨⟨⟨⟨⟨hpl, hin⟩, u1⟩, u2⟩, u3⟩, u4⟩, u5⟩, u6⟩, ⟨⟨⟨⟨vnf, hnd⟩, vfo⟩, vfi⟩, vbo⟩⟩, ⟨vsx, hdn⟩, vxs⟩ := h
  obtain ⟨nf, hnf, hnfv⟩ := mapM_view NumFmt.read (fun v => some (v.id, v.code))
    (fun n => match (n.attr? "numFmtId".toList).bind natOf, n.attr? "formatCode".toList with
      | some i, some c => some (i, c)
      | _, _ => none) (tableNodes root "numFmts" "numFmt")
    (fun n hn => by
      obtain ⟨v, hv, he⟩ := numFmt_agrees n (List.all_eq_true.mp vnf n hn)
      exact ⟨v, hv, he.symm⟩)
  obtain ⟨fo, hfo, hfov⟩ := mapM_view (Font.read cf) fontFacts (fun n => cfFont cf (fontV n)) (tableNodes root "fonts" "font")
    (fun n hn => font_agrees cf n (List.all_eq_true.mp vfo n hn))
  obtain ⟨fi, hfi, hfiv⟩ := mapM_view (Fill.read cf) fillFacts (fun n => cfFill cf (fillV n)) (tableNodes root "fills" "fill")
    (fun n hn => fill_agrees cf n (List.all_eq_true.mp vfi n hn))
  obtain ⟨bo, hbo, hbov⟩ := mapM_view (Borders.read cf) borderFacts (fun n => cfBorder cf (borderV n))
    (tableNodes root "borders" "border") (fun n hn => border_agrees cf n (List.all_eq_true.mp vbo n hn))
  obtain ⟨sx, hsx, hsxl, hsxv⟩ := mapM_rel readXf XfAgrees (tableNodes root "cellStyleXfs" "xf")
    (fun n hn => xf_agrees n (List.all_eq_true.mp vsx n hn))
  obtain ⟨xs, hxs, hxsl, hxsv⟩ := mapM_rel readXf XfAgrees (tableNodes root "cellXfs" "xf")
    (fun n hn => xf_agrees n (by
      have := List.all_eq_true.mp vxs n hn
      simp only [Bool.and_eq_true] at this
      exact this.1))
  have hnum : nf.map (fun v => (v.id, v.code)) = numFmtTable root := by
    rw [numFmtTable_eq]
    apply Eq.symm
    apply filterMap_of_map_some
    rw [← hnfv, List.map_map]
    rfl
  let t : StyleTables := { numFmts := nf, fonts := fo, fills := fi, borders := bo, styleXfs := sx, xfs := xs }
  have ht : TablesAgree cf t (numFmtTable root) (tableNodes root "fonts" "font") (tableNodes root "fills" "fill")
      (tableNodes root "borders" "border") := ⟨hfov, hfiv, hbov, hnum, hnd⟩
  have hread : readStyles cf root = some t := by
    unfold readStyles
    rw [tableOf_eq root _ _ hpl u1 hin, tableOf_eq root _ _ hpl u2 hin, tableOf_eq root _ _ hpl u3 hin,
      tableOf_eq root _ _ hpl u4 hin, tableOf_eq root _ _ hpl u5 hin, tableOf_eq root _ _ hpl u6 hin,
      hnf, hfo, hfi, hbo, hsx, hxs]
  have hd : Neutral ((t.styleXfs[0]?).getD {}) := by
    show Neutral ((sx[0]?).getD {})
    cases hh : (tableNodes root "cellStyleXfs" "xf")[0]? with
    | none =>
      have : sx = [] := by
        have hl : (tableNodes root "cellStyleXfs" "xf").length = 0 := by
          cases hq : tableNodes root "cellStyleXfs" "xf" with
          | nil => rfl
          | cons a r => rw [hq] at hh; simp at hh
        exact List.eq_nil_of_length_eq_zero (by rw [hsxl, hl])
      rw [this]
      exact ⟨rfl, rfl, rfl, rfl, rfl, rfl⟩
    | some dn =>
      obtain ⟨d, hd0, hda⟩ := hsxv 0 dn hh
      rw [hd0]
      have : (tableNodes root "cellStyleXfs" "xf").head? = some dn := by
        rw [← hh]; cases tableNodes root "cellStyleXfs" "xf" <;> rfl
      rw [this] at hdn
      exact neutral_of d dn hda hdn
  obtain ⟨made, hmade, hmv⟩ := mapM_view₂ (resolveXf t ((t.styleXfs[0]?).getD {})) styleFacts
    (fun n => xfFacts cf (xfV (numFmtTable root) (tableNodes root "fonts" "font") (tableNodes root "fills" "fill")
      (tableNodes root "borders" "border") n)) XfAgrees (tableNodes root "cellXfs" "xf") xs hxsl hxsv
    (fun x n hn hx => by
      have := List.all_eq_true.mp vxs n hn
      simp only [Bool.and_eq_true] at this
      exact resolve_agrees cf t _ _ _ _ ht _ x n hd hx this.2)
  refine ⟨made, ?_, ?_⟩
  · unfold readStyleSheet
    rw [hread]
    exact hmade
  · rw [hmv, styleTable_eq, List.map_map]
    rfl

end Umya.Reader.Lemmas
