/-
  Helper lemmas for `Umya/Thm/C02Sheet.lean`, part 2: the anatomy of `Spec.Sml.decodeSheet` (its result
  as named functions of the root element), and the `<row>` / `<sheetData>` level: what the decoder reads
  from the rows the model of the row loop renders.
-/
import Umya.Lemmas.SheetNodeLoop
import Umya.Lemmas.CellDecode
import Umya.Lemmas.CellBridge
namespace Umya.SheetNode
open Umya.CellXml Umya.CellNode Umya.Dec Umya.Coord
open Umya.Spec.Sml
open Umya.Spec.Xml (Node Attr localName)

/-! ## anatomy of `decodeSheet` -/

/-- `Node.kids` / `Node.kid?` / `boolAttr` with the name as a character list -/
def kidsL (n : Node) (name : List Char) : List Node := n.children.filter (isKid name)
def kidL (n : Node) (name : List Char) : Option Node := (kidsL n name).head?
def boolAttrL (n : Node) (name : List Char) : Bool :=
  match n.attr? name with
  | some v => v = ['1'] ∨ v = ['t', 'r', 'u', 'e']
  | none => false

def dsRows (root : Node) : List Node := ((kidL root nSheetData).map (kidsL · nRow)).getD []

def perRowOf (path : String) (sst : List (List Char)) (nXf : Nat) (r : Node) (rn : Nat) : List CellV × List String :=
  let cs0 : List (CellV × List String) := (kidsL r ['c']).map (decodeCell sst)
  let cells : List CellV := fillRefs rn 0 (cs0.map (·.1))
  let cols := cells.map (fun c => colOf c.ref)
  let errs := (cs0.flatMap (·.2)) ++
    (if ascending cols then [] else [s!"{path}: cells of row {rn} not strictly ascending"]) ++
    (if cells.all (fun c => rowOf c.ref = rn ∧ 1 ≤ colOf c.ref ∧ colOf c.ref ≤ 16384) then []
     else [s!"{path}: a cell of row {rn} has a reference outside its row or the grid"]) ++
    (if cells.all (fun c => c.style < nXf) then [] else [s!"{path}: a cell style index of row {rn} is outside cellXfs ({nXf})"])
  (cells, errs)

def dsPerRow (path : String) (sst : List (List Char)) (nXf : Nat) (rows : List Node) : List (List CellV × List String) :=
  (rows.zip (rowNumbers 0 rows)).map fun (r, rn) => perRowOf path sst nXf r rn

def dsRowVs (rows : List Node) : List RowV :=
  (rows.zip (rowNumbers 0 rows)).map fun (r, rn) =>
    { num := rn, height := r.attr? ['h', 't'], hidden := boolAttrL r ['h', 'i', 'd', 'd', 'e', 'n'],
      style := if boolAttrL r ['c', 'u', 's', 't', 'o', 'm', 'F', 'o', 'r', 'm', 'a', 't'] then (r.attr? ['s']).bind natOf else none : RowV }

def dsKidsNames (root : Node) : List String :=
  ((root.children.filter (·.isElem)).map (fun k => str (localName k.name))).filter (· ≠ "AlternateContent")

def dsE1 (path : String) (root : Node) : List String :=
  if nonDecreasing ((dsKidsNames root).filterMap (indexIn worksheetOrder)) then []
  else [s!"{path}: worksheet children out of schema order: {dsKidsNames root}"]

def dsE1b (path : String) (root : Node) : List String :=
  ((dsKidsNames root).filter (fun k => (indexIn worksheetOrder k).isNone)).map (fun k => s!"{path}: unknown worksheet child {k}")

def dsE2 (path : String) (rows : List Node) : List String :=
  if ascending (rowNumbers 0 rows) then [] else [s!"{path}: rows not strictly ascending"]

def dsE2b (path : String) (rows : List Node) : List String :=
  if (rowNumbers 0 rows).all (fun r => 1 ≤ r ∧ r ≤ 1048576) then [] else [s!"{path}: row number outside 1..1048576"]

def dsColVs (root : Node) : List ColV :=
  (((kidL root ['c', 'o', 'l', 's']).map (kidsL · ['c', 'o', 'l'])).getD []).map fun c =>
    { min := ((c.attr? ['m', 'i', 'n']).bind natOf).getD 0, max := ((c.attr? ['m', 'a', 'x']).bind natOf).getD 0,
      width := c.attr? ['w', 'i', 'd', 't', 'h'], hidden := boolAttrL c ['h', 'i', 'd', 'd', 'e', 'n'],
      style := ((c.attr? ['s', 't', 'y', 'l', 'e']).bind natOf).getD 0 : ColV }

def dsE3b (path : String) (nXf : Nat) (root : Node) : List String :=
  if (dsColVs root).all (fun c => 1 ≤ c.min ∧ c.min ≤ c.max ∧ c.max ≤ 16384 ∧ c.style < nXf) then []
  else [s!"{path}: a col element is outside the grid, inverted or has a style outside cellXfs"]

def dsMerges (root : Node) : List (List Char) :=
  ((kidL root nMergeCells).map (kidsL · nMergeCell)).getD [] |>.filterMap (·.attr? ['r', 'e', 'f'])

def linkOf (path : String) (rels : List Rel) (h : Node) : Link × List String :=
  let ref := (h.attr? ['r', 'e', 'f']).getD []
  let tip := h.attr? ['t', 'o', 'o', 'l', 't', 'i', 'p']
  let disp := h.attr? ['d', 'i', 's', 'p', 'l', 'a', 'y']
  match h.attr? ['r', ':', 'i', 'd'] with
  | some rid =>
    (match rels.find? (fun (r : Rel) => r.id = str rid) with
     | some r => ({ ref := ref, external := true, target := r.target.toList, location := h.attr? ['l', 'o', 'c', 'a', 't', 'i', 'o', 'n'], tooltip := tip, display := disp : Link }, ([] : List String))
     | none => ({ ref := ref, external := true, target := [], tooltip := tip, display := disp : Link }, [s!"{path}: hyperlink {str ref} refers to relationship {str rid} which does not exist"]))
  | none => ({ ref := ref, external := false, target := (h.attr? ['l', 'o', 'c', 'a', 't', 'i', 'o', 'n']).getD [], tooltip := tip, display := disp : Link }, [])

def dsLinksE (path : String) (rels : List Rel) (root : Node) : List (Link × List String) :=
  (((kidL root nHyperlinks).map (kidsL · nHyperlink)).getD []).map (linkOf path rels)

def dsE5 (path : String) (rels : List Rel) (root : Node) : List String :=
  ((root.children.filter (·.isElem)).filter (fun k => (k.attr? ['r', ':', 'i', 'd']).isSome)).filterMap fun k =>
    match k.attr? ['r', ':', 'i', 'd'] with
    | some rid => if rels.any (fun (r : Rel) => r.id = str rid) then none else some s!"{path}: <{str k.name}> refers to relationship {str rid} which does not exist"
    | none => none

def dsDxfIds (root : Node) : List Nat :=
  (kidsL root ['c', 'o', 'n', 'd', 'i', 't', 'i', 'o', 'n', 'a', 'l', 'F', 'o', 'r', 'm', 'a', 't', 't', 'i', 'n', 'g']).flatMap (fun cf => (kidsL cf ['c', 'f', 'R', 'u', 'l', 'e']).filterMap (fun r => (r.attr? ['d', 'x', 'f', 'I', 'd']).bind natOf))

def dsE6 (path : String) (nDxf : Nat) (root : Node) : List String :=
  if (dsDxfIds root).all (· < nDxf) then [] else [s!"{path}: a dxfId is outside dxfs ({nDxf})"]

def dsTables (p : Package) (path : String) (rels : List Rel) (root : Node) : List TableV :=
  (((kidL root ['t', 'a', 'b', 'l', 'e', 'P', 'a', 'r', 't', 's']).map (kidsL · ['t', 'a', 'b', 'l', 'e', 'P', 'a', 'r', 't'])).getD []).filterMap fun tp =>
    ((tp.attr? ['r', ':', 'i', 'd']).bind (fun rid => rels.find? (fun (r : Rel) => r.id = str rid))).bind fun r =>
      decodeTable p (resolveTarget path r.target)

def dsNoR (rows : List Node) : Bool :=
  rows.any (fun r => (r.attr? ['r']).isNone ∨ (kidsL r ['c']).any (fun c => (c.attr? ['r']).isNone))

/-- `decodeSheet` on a part that parses: every component by name -/
theorem decodeSheet_anatomy (p : Package) (path : String) (sst : List (List Char)) (nXf nDxf : Nat) (root : Node)
    (h : (p.part? path).bind (·.xml) = some root) :
    decodeSheet p path sst nXf nDxf =
      ({ cells := expandShared [] ((dsPerRow path sst nXf (dsRows root)).flatMap (·.1)),
         merges := dsMerges root, links := (dsLinksE path (relsOf p path) root).map (·.1),
         cols := dsColVs root, rows := dsRowVs (dsRows root), tables := dsTables p path (relsOf p path) root,
         noR := dsNoR (dsRows root) },
       dsE1 path root ++ dsE1b path root ++ dsE2 path (dsRows root) ++ dsE2b path (dsRows root) ++
         (dsPerRow path sst nXf (dsRows root)).flatMap (·.2) ++ dsE3b path nXf root ++
         (dsLinksE path (relsOf p path) root).flatMap (·.2) ++ dsE5 path (relsOf p path) root ++ dsE6 path nDxf root) := by
  unfold decodeSheet
  rw [h]
  rfl

/-! ## the shape of a rendered `<c>` -/

theorem mapOpt_mem {α β} (f : α → Option β) : ∀ (l : List α) (r : List β), mapOpt f l = some r →
    ∀ y ∈ r, ∃ x ∈ l, f x = some y := by
  intro l
  induction l with
  | nil => intro r h y hy; simp [mapOpt] at h; subst h; simp at hy
  | cons a as ih =>
    intro r h y hy
    simp only [mapOpt] at h
    cases hf : f a with
    | none => simp [hf] at h
    | some b =>
      cases hm : mapOpt f as with
      | none => simp [hf, hm] at h
      | some bs =>
        simp only [hf, hm] at h
        injection h with h
        subst h
        rcases List.mem_cons.1 hy with rfl | hy
        · exact ⟨a, by simp, hf⟩
        · obtain ⟨x, hx, hfx⟩ := ih bs hm y hy
          exact ⟨x, by simp [hx], hfx⟩

/-- a rendered `<c>` is an element named `c` whose first attribute is `r` -/
def IsC (k : Node) : Prop := ∃ ref as ks, k = Node.elem ['c'] (⟨['r'], ref⟩ :: as) ks

theorem cellNode_isC (xf : Nat) (cx : CellX) (n : Node) (h : cellNode xf cx = some n) : IsC n := by
  have ha : ∃ as, cellAttrs xf cx = some (⟨['r'], cx.ref⟩ :: as) := by
    unfold cellAttrs
    simp only [attrOf_eq]
    by_cases ht : cx.t = [] <;> cases cx.styled <;> simp [ht]
  obtain ⟨as, ha⟩ := ha
  unfold cellNode at h
  rw [ha] at h
  simp only [Option.bind_some] at h
  cases hf : fNodes cx.f with
  | none => simp [hf] at h
  | some f =>
    cases hv : vNodes cx.v with
    | none => simp [hf, hv] at h
    | some v =>
      cases hi : isNodes cx.is with
      | none => simp [hf, hv, hi] at h
      | some i =>
        simp only [hf, hv, hi, Option.bind_some] at h
        injection h with h
        exact ⟨cx.ref, as, _, h.symm⟩

theorem renderCells_isC (xf : List Char → Nat) (xs : List CellX) (nodes : List Node) (h : renderCells xf xs = some nodes) :
    ∀ k ∈ nodes, IsC k := by
  intro k hk
  obtain ⟨cx, _, hcx⟩ := mapOpt_mem _ xs nodes h k hk
  exact cellNode_isC _ cx k hcx

theorem localName_c : localName ['c'] = ['c'] := by decide

theorem kids_c_all (nodes : List Node) (h : ∀ k ∈ nodes, IsC k) : nodes.filter (isKid ['c']) = nodes := by
  apply List.filter_eq_self.2
  intro k hk
  obtain ⟨ref, as, ks, rfl⟩ := h k hk
  simp [isKid_elem, localName_c]

theorem isC_has_r (k : Node) (h : IsC k) : (k.attr? ['r']).isNone = false := by
  obtain ⟨ref, as, ks, rfl⟩ := h
  simp [Node.attr?, Node.attrs]

/-! ## one written row -/

section
variable (F : Umya.Num.NumFmt)

/-- a row of the loop and the `<row>` rendered for it, against the final table `tblF` -/
def RowRel (xf : List Char → Nat) (tblF : Table) (g : RowW × List (Cell F.Num)) (n : Node) : Prop :=
  ∃ nodes, n = Node.elem nRow (rowAttrs g.1 g.2) nodes ∧ (∀ k ∈ nodes, IsC k) ∧
    ∀ sst : Table, Extends sst tblF →
      nodes.map (decodeCell (sst.map itemText)) = viewCells F xf (g.2.filter (fun c => !blankUnstyled F c))

/-- two lists related element by element -/
inductive All₂ {α β : Type} (R : α → β → Prop) : List α → List β → Prop
  | nil : All₂ R [] []
  | cons {a b as bs} : R a b → All₂ R as bs → All₂ R (a :: as) (b :: bs)

/-- every row of the loop renders; its `<c>` children decode to the views of the row's kept cells -/
theorem writeRows_decodes (xf : List Char → Nat) (gs : List (RowW × List (Cell F.Num))) :
    ∀ (tbl tbl' : Table) (ws : List (RowX F.Num)), writeRows F tbl gs = some (tbl', ws) →
      (∃ ext, tbl' = tbl ++ ext) ∧
      ∃ rowNodes, mapOpt (rowNode xf) ws = some rowNodes ∧ All₂ (RowRel F xf tbl') gs rowNodes := by
  induction gs with
  | nil =>
    intro tbl tbl' ws h
    simp only [writeRows] at h
    injection h with h; injection h with h1 h2
    subst h1; subst h2
    exact ⟨⟨[], by simp⟩, [], rfl, All₂.nil⟩
  | cons g gs ih =>
    intro tbl tbl' ws h
    obtain ⟨r, cs⟩ := g
    simp only [writeRows] at h
    cases hw : writeCells F tbl cs with
    | none => simp [hw] at h
    | some q =>
      obtain ⟨t1, xs⟩ := q
      simp only [hw] at h
      cases hws : writeRows F t1 gs with
      | none => simp [hws] at h
      | some q2 =>
        obtain ⟨t2, ys⟩ := q2
        simp only [hws] at h
        injection h with h; injection h with h1 h2
        subst h1; subst h2
        obtain ⟨⟨e1, he1⟩, nodes, hn, hd⟩ := writeCells_decodes F xf cs tbl t1 xs hw
        obtain ⟨⟨e2, he2⟩, rowNodes, hrn, hrel⟩ := ih t1 t2 ys hws
        refine ⟨⟨e1 ++ e2, by rw [he2, he1, List.append_assoc]⟩,
          Node.elem nRow (rowAttrs r cs) nodes :: rowNodes, ?_, ?_⟩
        · simp only [mapOpt, rowNode, hn, Option.map_some, hrn]
        · refine All₂.cons ⟨nodes, rfl, renderCells_isC xf xs nodes hn, ?_⟩ hrel
          intro sst hx
          have hx1 : Extends sst t1 := by rw [he2] at hx; exact hx.trans_append
          exact hd sst hx1

/-! ## what the decoder reads from a rendered row -/

theorem attr_head (nm : List Char) (a : Attr) (as : List Attr) (ks : List Node) (n : List Char) (h : a.name = n) :
    (Node.elem nm (a :: as) ks).attr? n = some a.value := by
  simp [Node.attr?, Node.attrs, h]

theorem attr_skip (nm : List Char) (a : Attr) (as : List Attr) (ks : List Node) (n : List Char) (h : a.name ≠ n) :
    (Node.elem nm (a :: as) ks).attr? n = (Node.elem nm as ks).attr? n := by
  simp [Node.attr?, Node.attrs, h]

theorem attr_nil (nm : List Char) (ks : List Node) (n : List Char) : (Node.elem nm [] ks).attr? n = none := rfl

theorem row_attr_r {N} (r : RowW) (cs : List (Cell N)) (nodes : List Node) :
    (Node.elem nRow (rowAttrs r cs) nodes).attr? ['r'] = some (decDigits r.num) := by
  unfold rowAttrs
  exact attr_head _ _ _ _ _ rfl

theorem row_kids_c {N} (r : RowW) (cs : List (Cell N)) (nodes : List Node) (h : ∀ k ∈ nodes, IsC k) :
    kidsL (Node.elem nRow (rowAttrs r cs) nodes) ['c'] = nodes :=
  kids_c_all nodes h

theorem fileView_ref_nonempty (xf : Nat) (c : Cell F.Num) : (fileView F xf c).ref.isEmpty = false := by
  have href : coordinateFromIndexWithLock c.col c.row false false = indexToAlpha c.col ++ decDigits c.row := by
    simp [coordinateFromIndexWithLock]
  have := decDigits_isEmpty c.row
  simp only [fileView, fileViewCore, Umya.CellXml.Cell.resolved, href]
  cases hd : decDigits c.row with
  | nil => rw [hd] at this; simp at this
  | cons d ds => simp

theorem viewCells_fst (xf : List Char → Nat) (l : List (Cell F.Num)) :
    (viewCells F xf l).map (·.1) = l.map (fun c => fileView F (xf (coordinateFromIndexWithLock c.col c.row false false)) c) := by
  simp [viewCells]

theorem viewCells_snd (xf : List Char → Nat) (l : List (Cell F.Num)) : (viewCells F xf l).flatMap (·.2) = [] := by
  induction l with
  | nil => rfl
  | cons c l ih => simp [viewCells]

/-- ONE ROW: the decoder's per-row result on the rendered `<row>` of a row whose cells lie in that row,
    in strictly ascending columns inside the grid: the views of the kept cells, no diagnostics -/
theorem perRow_rendered (path : String) (nXf : Nat) (xf : List Char → Nat) (tblF sst : Table) (hx : Extends sst tblF)
    (g : RowW × List (Cell F.Num)) (n : Node) (hrel : RowRel F xf tblF g n)
    (hrow : ∀ c ∈ g.2, c.row = g.1.num) (hcol : g.2.Pairwise (fun a b => a.col < b.col))
    (hrng : ∀ c ∈ g.2, 1 ≤ c.col ∧ c.col ≤ 16384) (hn : 0 < nXf) (hxf : ∀ ref, xf ref < nXf) :
    perRowOf path (sst.map itemText) nXf n g.1.num = (cellViews F xf g.2, []) := by
  obtain ⟨r, cs⟩ := g
  obtain ⟨nodes, rfl, hc, hd⟩ := hrel
  simp only at hrow hcol hrng ⊢
  unfold perRowOf
  simp only [row_kids_c r cs nodes hc, hd sst hx, viewCells_fst, viewCells_snd]
  have hkeep : ∀ c ∈ cs.filter (fun c => !blankUnstyled F c), c ∈ cs := fun c hc => (List.mem_filter.1 hc).1
  -- references present: nothing is filled in
  rw [fillRefs_id]
  · have hcols : (List.map (fun c => colOf c.ref)
        (List.map (fun c => fileView F (xf (coordinateFromIndexWithLock c.col c.row false false)) c)
          (cs.filter (fun c => !blankUnstyled F c)))) = (cs.filter (fun c => !blankUnstyled F c)).map (·.col) := by
      rw [List.map_map]
      apply List.map_congr_left
      intro c hc'
      exact (ref_position c.col c.row (hrng c (hkeep c hc')).1).1
    have hasc : ascending ((cs.filter (fun c => !blankUnstyled F c)).map (·.col)) = true := by
      apply ascending_of_pairwise
      rw [List.pairwise_map]
      exact hcol.sublist List.filter_sublist
    have hall1 : (List.map (fun c => fileView F (xf (coordinateFromIndexWithLock c.col c.row false false)) c)
          (cs.filter (fun c => !blankUnstyled F c))).all
          (fun c => decide (rowOf c.ref = r.num ∧ 1 ≤ colOf c.ref ∧ colOf c.ref ≤ 16384)) = true := by
      rw [List.all_eq_true]
      intro v hv
      obtain ⟨c, hc', rfl⟩ := List.mem_map.1 hv
      have hp := ref_position c.col c.row (hrng c (hkeep c hc')).1
      have hr := hrow c (hkeep c hc')
      have hg := hrng c (hkeep c hc')
      simp only [fileView, fileViewCore, Umya.CellXml.Cell.resolved]
      apply decide_eq_true
      rw [hp.1, hp.2]
      omega
    have hall2 : (List.map (fun c => fileView F (xf (coordinateFromIndexWithLock c.col c.row false false)) c)
          (cs.filter (fun c => !blankUnstyled F c))).all (fun c => decide (c.style < nXf)) = true := by
      rw [List.all_eq_true]
      intro v hv
      obtain ⟨c, _, rfl⟩ := List.mem_map.1 hv
      simp only [fileView, fileViewCore, Umya.CellXml.Cell.resolved]
      apply decide_eq_true
      show (if c.styled = true then xf (coordinateFromIndexWithLock c.col c.row false false) else 0) < nXf
      split
      · exact hxf _
      · exact hn
    rw [hcols, hasc, hall1, hall2]
    simp [cellViews]
  · intro v hv
    obtain ⟨c, _, rfl⟩ := List.mem_map.1 hv
    exact fileView_ref_nonempty F _ c

end

end Umya.SheetNode
