/-
  Two more links of the cell bridge of C02 (`Umya/Model/CellNode.lean`):

  * character data: the lexer of `Umya/Spec/XmlLex.lean` turns the raw text between two tags into ONE text
    token that carries `textValue raw` (none for empty text) — what `CellNode.charData` renders;
  * the reference: the independent A1 reading of the decoder (`Spec/Sml.lean::colOf`, `rowOf`) of the
    reference `Cell::write_to` prints is the cell's own column and row.
-/
import Umya.Lemmas.CellDecode
import Umya.Lemmas.Coord
namespace Umya.CellNode
open Umya.Coord Umya.Dec
open Umya.Spec.Xml (lexGo flushText isXmlChar Mode)
open Umya.Spec.Sml (colOf rowOf natOf)

/-! ## character data through the lexer -/

theorem lexGo_text_step (acc : List Char) (c : Char) (r : List Char) (hx : isXmlChar c = true) (hc : c ≠ '<') :
    lexGo (Mode.text acc) (c :: r) = lexGo (Mode.text (c :: acc)) r := by
  rw [lexGo]
  simp [hx, hc]

theorem lexGo_text_lt (acc : List Char) (r : List Char) :
    lexGo (Mode.text acc) ('<' :: r) = flushText acc (lexGo Mode.lt r) := by
  rw [lexGo]
  have : isXmlChar '<' = true := by decide
  simp [this]

theorem lexGo_text_run (raw : List Char) (hx : ∀ c ∈ raw, isXmlChar c = true) (hlt : '<' ∉ raw) :
    ∀ (acc rest : List Char), lexGo (Mode.text acc) (raw ++ '<' :: rest) = flushText (raw.reverse ++ acc) (lexGo Mode.lt rest) := by
  induction raw with
  | nil => intro acc rest; simpa using lexGo_text_lt acc rest
  | cons c r ih =>
    intro acc rest
    have hc : c ≠ '<' := by intro e; subst e; simp at hlt
    rw [List.cons_append, lexGo_text_step acc c _ (hx c (by simp)) hc,
      ih (fun d hd => hx d (by simp [hd])) (fun h => hlt (by simp [h])) (c :: acc) rest]
    simp

/-! ## the reference -/

theorem upper_isAlpha (c : Char) (h : isUpperAZ c = true) : c.isAlpha = true ∧ c.toUpper = c := by
  have h' := (isUpperAZ_iff c).1 h
  constructor
  · simp [Char.isAlpha, Char.isUpper, UInt32.le_iff_toNat_le]
    left
    exact h'
  · simp [Char.toUpper, UInt32.le_iff_toNat_le]
    intro h1
    have : c.val.toNat = c.toNat := rfl
    omega

theorem digit_not_alpha (c : Char) (h : isDigit c = true) : c.isAlpha = false := by
  simp [isDigit] at h
  simp [Char.isAlpha, Char.isUpper, Char.isLower, UInt32.le_iff_toNat_le]
  have : c.val.toNat = c.toNat := rfl
  omega

theorem takeWhile_append_stop {α} (p : α → Bool) (a d : List α) (ha : ∀ x ∈ a, p x = true)
    (hd : ∀ x r, d = x :: r → p x = false) : (a ++ d).takeWhile p = a ∧ (a ++ d).dropWhile p = d := by
  induction a with
  | nil =>
    cases d with
    | nil => simp
    | cons x r => simp [hd x r rfl]
  | cons y ys ih =>
    have hy := ha y (by simp)
    have := ih (fun x hx => ha x (by simp [hx]))
    simp [hy, this.1, this.2]

theorem foldl_col_upper (s : List Char) (hu : s.all isUpperAZ = true) :
    ∀ acc : Nat, s.foldl (fun a c => 26 * a + (c.toUpper.toNat - 64)) acc = s.foldl (fun a c => 26 * a + (c.toNat - 65 + 1)) acc := by
  induction s with
  | nil => intro acc; rfl
  | cons c r ih =>
    intro acc
    simp only [List.all_cons, Bool.and_eq_true] at hu
    have h1 := (upper_isAlpha c hu.1).2
    have h2 := (isUpperAZ_iff c).1 hu.1
    simp only [List.foldl, h1]
    have : c.toNat - 64 = c.toNat - 65 + 1 := by omega
    rw [this]
    exact ih hu.2 _

/-- the independent A1 reading (`Spec/Sml.lean::colOf`, `rowOf`) of the reference `Cell::write_to` prints is
    the cell's own column and row -/
theorem ref_position (col row : Nat) (hc : 1 ≤ col) :
    colOf (coordinateFromIndexWithLock col row false false) = col ∧
    rowOf (coordinateFromIndexWithLock col row false false) = row := by
  have href : coordinateFromIndexWithLock col row false false = indexToAlpha col ++ decDigits row := by
    simp [coordinateFromIndexWithLock]
  obtain ⟨d, r, hd, hdig⟩ := decDigits_head row
  have hsplit := takeWhile_append_stop Char.isAlpha (indexToAlpha col) (decDigits row)
    (fun x hx => (upper_isAlpha x (List.all_eq_true.1 (indexToAlpha_upper col) x hx)).1)
    (fun x r' hx => by rw [hd] at hx; injection hx with hx _; subst hx; exact digit_not_alpha _ hdig)
  constructor
  · unfold colOf
    rw [href, hsplit.1, foldl_col_upper _ (indexToAlpha_upper col) 0]
    exact alphaVal_indexToAlpha col hc
  · unfold rowOf
    rw [href, hsplit.2, natOf_decDigits]
    rfl

end Umya.CellNode
