/-
  Lemmas about the cell-store model (`Umya.Model.Sheet`): ordered sets, association lists,
  the coherence invariant and its preservation by every primitive operation.
-/
import Umya.Model.Sheet
namespace Umya.Sheet
open Umya.Coord (Res)

/-! ### the key order -/

theorem keyLt_iff (a b : Key) : keyLt a b = true ↔ a.1 < b.1 ∨ (a.1 = b.1 ∧ a.2 < b.2) := by
  simp [keyLt]

theorem keyLt_irrefl (a : Key) : keyLt a a = false := by
  simp [keyLt]

theorem keyLt_trans {a b c : Key} (h1 : keyLt a b = true) (h2 : keyLt b c = true) : keyLt a c = true := by
  rw [keyLt_iff] at *; omega

theorem keyLt_asymm {a b : Key} (h : keyLt a b = true) : keyLt b a = false := by
  have : ¬ (keyLt b a = true) := by rw [keyLt_iff] at *; omega
  simpa using this

theorem keyLt_trichotomy (a b : Key) : keyLt a b = true ∨ a = b ∨ keyLt b a = true := by
  rw [keyLt_iff, keyLt_iff]
  rcases a with ⟨a1, a2⟩; rcases b with ⟨b1, b2⟩
  simp only [Prod.mk.injEq]
  omega

abbrev SSorted (l : List Key) : Prop := l.Pairwise (fun a b => keyLt a b = true)

/-! ### ordered-set operations -/

theorem mem_setInsert (k x : Key) (l : List Key) : x ∈ setInsert k l ↔ x = k ∨ x ∈ l := by
  induction l with
  | nil => simp [setInsert]
  | cons y ys ih =>
    simp only [setInsert]
    split
    · simp
    · split
      · rename_i h; subst h; simp
      · simp [ih]; constructor
        · rintro (h | h | h) <;> simp [h]
        · rintro (h | h | h) <;> simp [h]

theorem sorted_setInsert (k : Key) (l : List Key) (h : SSorted l) : SSorted (setInsert k l) := by
  induction l with
  | nil => simp [setInsert, SSorted]
  | cons y ys ih =>
    simp only [setInsert]
    have hy := List.pairwise_cons.1 h
    split
    · rename_i hlt
      apply List.pairwise_cons.2
      refine ⟨?_, h⟩
      intro z hz
      rcases List.mem_cons.1 hz with rfl | hz
      · exact hlt
      · exact keyLt_trans hlt (hy.1 z hz)
    · split
      · exact h
      · rename_i hnlt hne
        apply List.pairwise_cons.2
        refine ⟨?_, ih hy.2⟩
        intro z hz
        rcases (mem_setInsert k z ys).1 hz with rfl | hz
        · rcases keyLt_trichotomy z y with h1 | h1 | h1
          · exact absurd h1 hnlt
          · exact absurd h1 hne
          · exact h1
        · exact hy.1 z hz

theorem mem_setErase (k x : Key) (l : List Key) : x ∈ setErase k l ↔ x ≠ k ∧ x ∈ l := by
  simp [setErase, List.mem_filter]; exact And.comm

theorem sorted_setErase (k : Key) (l : List Key) (h : SSorted l) : SSorted (setErase k l) :=
  List.Pairwise.filter _ h

theorem setOfList_foldl (l : List Key) (acc : List Key) (hacc : SSorted acc) :
    SSorted (l.foldl (fun acc k => setInsert k acc) acc) ∧
    ∀ x, x ∈ l.foldl (fun acc k => setInsert k acc) acc ↔ x ∈ l ∨ x ∈ acc := by
  induction l generalizing acc with
  | nil => simp [hacc]
  | cons y ys ih =>
    simp only [List.foldl_cons]
    have := ih (setInsert y acc) (sorted_setInsert y acc hacc)
    refine ⟨this.1, ?_⟩
    intro x
    rw [this.2 x, mem_setInsert]
    simp only [List.mem_cons]
    constructor
    · rintro (h | h | h) <;> simp [h]
    · rintro ((h | h) | h) <;> simp [h]

theorem sorted_setOfList (l : List Key) : SSorted (setOfList l) :=
  (setOfList_foldl l [] List.Pairwise.nil).1

theorem mem_setOfList (l : List Key) (x : Key) : x ∈ setOfList l ↔ x ∈ l := by
  have := (setOfList_foldl l [] List.Pairwise.nil).2 x
  simpa [setOfList] using this

/-- two strictly sorted lists with the same elements are equal -/
theorem sorted_ext (l1 l2 : List Key) (h1 : SSorted l1) (h2 : SSorted l2)
    (h : ∀ x, x ∈ l1 ↔ x ∈ l2) : l1 = l2 := by
  induction l1 generalizing l2 with
  | nil =>
    cases l2 with
    | nil => rfl
    | cons y ys => exact absurd ((h y).2 (by simp)) (by simp)
  | cons x xs ih =>
    cases l2 with
    | nil => exact absurd ((h x).1 (by simp)) (by simp)
    | cons y ys =>
      have hx := List.pairwise_cons.1 h1
      have hy := List.pairwise_cons.1 h2
      have hxy : x = y := by
        have hx2 : x ∈ y :: ys := (h x).1 (by simp)
        have hy1 : y ∈ x :: xs := (h y).2 (by simp)
        rcases List.mem_cons.1 hx2 with e | hx2
        · exact e
        · rcases List.mem_cons.1 hy1 with e | hy1
          · exact e.symm
          · have a := hy.1 x hx2
            have b := hx.1 y hy1
            rw [keyLt_asymm a] at b; exact absurd b (by simp)
      subst hxy
      congr 1
      apply ih ys hx.2 hy.2
      intro z
      constructor
      · intro hz
        have := (h z).1 (List.mem_cons_of_mem _ hz)
        rcases List.mem_cons.1 this with e | this
        · subst e; have := hx.1 z hz; rw [keyLt_irrefl] at this; exact absurd this (by simp)
        · exact this
      · intro hz
        have := (h z).2 (List.mem_cons_of_mem _ hz)
        rcases List.mem_cons.1 this with e | this
        · subst e; have := hy.1 z hz; rw [keyLt_irrefl] at this; exact absurd this (by simp)
        · exact this

/-! ### association lists -/

theorem lookup_some_mem {k : Key} {c : CellM} {l : List (Key × CellM)} (h : lookup k l = some c) :
    (k, c) ∈ l := by
  induction l with
  | nil => simp [lookup] at h
  | cons p r ih =>
    obtain ⟨k', c'⟩ := p
    simp only [lookup] at h
    split at h
    · rename_i e; subst e; injection h with h; subst h; simp
    · exact List.mem_cons_of_mem _ (ih h)

theorem lookup_none_iff {k : Key} {l : List (Key × CellM)} : lookup k l = none ↔ k ∉ l.map (·.1) := by
  induction l with
  | nil => simp [lookup]
  | cons p r ih =>
    obtain ⟨k', c'⟩ := p
    simp only [lookup, List.map_cons, List.mem_cons]
    split
    · rename_i e; subst e; simp
    · rename_i e; rw [ih]; constructor
      · intro h; rintro (h' | h')
        · exact e h'.symm
        · exact h h'
      · intro h h'; exact h (Or.inr h')

theorem lookup_isSome_iff {k : Key} {l : List (Key × CellM)} : (lookup k l).isSome ↔ k ∈ l.map (·.1) := by
  cases h : lookup k l with
  | none => simp [lookup_none_iff.1 h]
  | some c =>
    simp only [Option.isSome_some, true_iff]
    exact List.mem_map.2 ⟨(k, c), lookup_some_mem h, rfl⟩

theorem lookup_of_mem_nodup {k : Key} {c : CellM} {l : List (Key × CellM)}
    (hn : (l.map (·.1)).Nodup) (h : (k, c) ∈ l) : lookup k l = some c := by
  induction l with
  | nil => simp at h
  | cons p r ih =>
    obtain ⟨k', c'⟩ := p
    simp only [List.map_cons, List.nodup_cons] at hn
    simp only [lookup]
    rcases List.mem_cons.1 h with e | h
    · injection e with e1 e2; subst e1; subst e2; simp
    · split
      · rename_i e; subst e
        exact absurd (List.mem_map.2 ⟨(k', c), h, rfl⟩) hn.1
      · exact ih hn.2 h

theorem map_fst_replaceKey (k : Key) (c : CellM) (l : List (Key × CellM)) :
    (replaceKey k c l).map (·.1) = l.map (·.1) := by
  induction l with
  | nil => rfl
  | cons p r ih =>
    obtain ⟨k', c'⟩ := p
    simp only [replaceKey]
    split <;> simp [ih]

theorem mem_replaceKey {k : Key} {c : CellM} {l : List (Key × CellM)} {p : Key × CellM}
    (h : p ∈ replaceKey k c l) : p ∈ l ∨ p = (k, c) := by
  induction l with
  | nil => simp [replaceKey] at h
  | cons q r ih =>
    obtain ⟨k', c'⟩ := q
    simp only [replaceKey] at h
    split at h
    · rename_i e; subst e
      rcases List.mem_cons.1 h with e | h
      · right; exact e
      · left; exact List.mem_cons_of_mem _ h
    · rcases List.mem_cons.1 h with e | h
      · left; rw [e]; simp
      · rcases ih h with h | h
        · left; exact List.mem_cons_of_mem _ h
        · right; exact h

theorem lookupRow_isSome_iff {n : Nat} {l : List (Nat × RowM)} : (lookupRow n l).isSome ↔ n ∈ l.map (·.1) := by
  induction l with
  | nil => simp [lookupRow]
  | cons p r ih =>
    obtain ⟨k, x⟩ := p
    simp only [lookupRow, List.map_cons, List.mem_cons]
    split
    · rename_i e; subst e; simp
    · rename_i e; rw [ih]; constructor
      · intro h; exact Or.inr h
      · rintro (h | h)
        · exact absurd h.symm e
        · exact h

end Umya.Sheet
