/-
  From token lists to whole texts: a token-wise adjuster that is the Spec's map on reference
  tokens and the identity elsewhere maps `tokensOf e` to `tokensOf (e.mapRefs F)`, and the latter
  renders to the printed text.  Helper lemmas for `Umya/Thm/C09Lex.lean`, `Umya/Thm/C08Lex.lean`.
-/
import Umya.Lemmas.FormulaLexPass
import Umya.Lemmas.CoordParse
import Umya.Lemmas.Passes
namespace Umya.Formula
open Umya.Coord Umya.Dec Umya.Spec

/-- a defined name that the adjusters leave alone: no `!`, and no colon-separated piece of it is a
    cell / column / row reference (`AB12` is a reference, `Q1Sales` is not) -/
def NameInert (n : List Char) : Bool :=
  !n.contains '!' && (splitColon n).all (fun s => (parseCorner s).isNone)

mutual
  /-- every reference is well-formed, every name is inert, no structured references / array constants -/
  def RefsOk : Expr → Prop
    | .num _ => True
    | .str _ => True
    | .bool _ => True
    | .err _ => True
    | .name n => NameInert n = true
    | .ref r => r.WF
    | .opaque _ => False
    | .array _ => False
    | .neg e => RefsOk e
    | .pos e => RefsOk e
    | .pct e => RefsOk e
    | .bin _ a b => RefsOk a ∧ RefsOk b
    | .isect a b => RefsOk a ∧ RefsOk b
    | .union es => RefsOkA es
    | .paren e => RefsOk e
    | .call _ as => RefsOkA as
  def RefsOkA : Args → Prop
    | .nil => True
    | .cons e rest => RefsOk e ∧ RefsOkA rest
    | .skip rest => RefsOkA rest
end

def nameTok (n : List Char) : Tok := ⟨n, .operand, .range, .none⟩

/-- what the three adjusters have in common -/
structure TokMap (g : Tok → Res Tok) (F : CRef → Expr) : Prop where
  other : ∀ t, isRangeOperand t = false → g t = .ok t
  ref : ∀ r, r.WF → g (refTok r) = .ok (exprTok (F r))
  name : ∀ n, NameInert n = true → g (nameTok n) = .ok (nameTok n)
  shape : ∀ r, (∃ r', F r = .ref r') ∨ F r = .err .ref

theorem mapRes_cons_ok {α β} (g : α → Res β) (t : α) (t' : β) (l : List α) (l' : List β)
    (h1 : g t = .ok t') (h2 : mapRes g l = .ok l') : mapRes g (t :: l) = .ok (t' :: l') := by
  simp [mapRes, h1, h2]

theorem mapRes_append_ok {α β} (g : α → Res β) (a b : List α) (a' b' : List β)
    (h1 : mapRes g a = .ok a') (h2 : mapRes g b = .ok b') : mapRes g (a ++ b) = .ok (a' ++ b') := by
  induction a generalizing a' with
  | nil => simp [mapRes] at h1; subst h1; simpa using h2
  | cons t r ih =>
    simp only [mapRes] at h1
    cases ht : g t with
    | panic => simp [ht] at h1
    | ok t' =>
      cases hr : mapRes g r with
      | panic => simp [ht, hr] at h1
      | ok r' =>
        simp [ht, hr] at h1; subst h1
        exact mapRes_cons_ok g t t' _ _ ht (ih r' hr)

theorem shape_tokens {F : CRef → Expr} (r : CRef)
    (h : (∃ r', F r = .ref r') ∨ F r = .err .ref) : tokensOf (F r) = [exprTok (F r)] := by
  rcases h with ⟨r', h⟩ | h <;> rw [h] <;> simp [tokensOf, exprTok]

section
variable {g : Tok → Res Tok} {F : CRef → Expr} (M : TokMap g F)
include M

theorem sep_other (k : TT) : g (sepTok k) = .ok (sepTok k) := by
  apply M.other; by_cases h : k = .function <;> simp [isRangeOperand, sepTok, h]

mutual
  theorem map_tokensOf (e : Expr) (h : RefsOk e) :
      mapRes g (tokensOf e) = .ok (tokensOf (e.mapRefs F)) := by
    match e, h with
    | .num t, _ => exact mapRes_cons_ok g _ _ _ _ (M.other _ (by simp [isRangeOperand])) rfl
    | .str s, _ => exact mapRes_cons_ok g _ _ _ _ (M.other _ (by simp [isRangeOperand])) rfl
    | .bool b, _ => exact mapRes_cons_ok g _ _ _ _ (M.other _ (by simp [isRangeOperand])) rfl
    | .err e, _ => exact mapRes_cons_ok g _ _ _ _ (M.other _ (by simp [isRangeOperand])) rfl
    | .name n, h => exact mapRes_cons_ok g _ _ _ _ (M.name n h) rfl
    | .ref r, h =>
      simp only [Expr.mapRefs, shape_tokens r (M.shape r), tokensOf]
      exact mapRes_cons_ok g _ _ _ _ (M.ref r h) rfl
    | .opaque _, h => exact absurd h (by simp [RefsOk])
    | .array _, h => exact absurd h (by simp [RefsOk])
    | .neg e, h =>
      simp only [Expr.mapRefs, tokensOf]
      exact mapRes_cons_ok g _ _ _ _ (M.other _ (by simp [isRangeOperand, prefixTok])) (map_tokensOf e h)
    | .pos e, h =>
      simp only [Expr.mapRefs, tokensOf]
      exact mapRes_cons_ok g _ _ _ _ (M.other _ (by simp [isRangeOperand, prefixTok])) (map_tokensOf e h)
    | .pct e, h =>
      simp only [Expr.mapRefs, tokensOf]
      exact mapRes_append_ok g _ _ _ _ (map_tokensOf e h)
        (mapRes_cons_ok g _ _ _ _ (M.other _ (by simp [isRangeOperand, pctTok])) rfl)
    | .bin op a b, h =>
      simp only [Expr.mapRefs, tokensOf]
      exact mapRes_append_ok g _ _ _ _ (map_tokensOf a h.1)
        (mapRes_cons_ok g _ _ _ _ (M.other _ (by simp [isRangeOperand, op3])) (map_tokensOf b h.2))
    | .isect a b, h =>
      simp only [Expr.mapRefs, tokensOf]
      exact mapRes_append_ok g _ _ _ _ (map_tokensOf a h.1)
        (mapRes_cons_ok g _ _ _ _ (M.other _ (by simp [isRangeOperand])) (map_tokensOf b h.2))
    | .paren e, h =>
      simp only [Expr.mapRefs, tokensOf]
      exact mapRes_cons_ok g _ _ _ _ (M.other _ (by simp [isRangeOperand, subStart]))
        (mapRes_append_ok g _ _ _ _ (map_tokensOf e h)
          (mapRes_cons_ok g _ _ _ _ (M.other _ (by simp [isRangeOperand, subStop])) rfl))
    | .union es, h =>
      simp only [Expr.mapRefs, tokensOf]
      exact mapRes_cons_ok g _ _ _ _ (M.other _ (by simp [isRangeOperand, subStart]))
        (mapRes_append_ok g _ _ _ _ (map_tokensOfA es h .subexpression)
          (mapRes_cons_ok g _ _ _ _ (M.other _ (by simp [isRangeOperand, subStop])) rfl))
    | .call f as, h =>
      simp only [Expr.mapRefs, tokensOf]
      exact mapRes_cons_ok g _ _ _ _ (M.other _ (by simp [isRangeOperand, fnStart]))
        (mapRes_append_ok g _ _ _ _ (map_tokensOfA as h .function)
          (mapRes_cons_ok g _ _ _ _ (M.other _ (by simp [isRangeOperand, fnStop])) rfl))
  theorem map_tokensOfA (as : Args) (h : RefsOkA as) (k : TT) :
      mapRes g (tokensOfA k as) = .ok (tokensOfA k (as.mapRefs F)) := by
    match as, h with
    | .nil, _ => rfl
    | .cons e .nil, h => simpa [Args.mapRefs, tokensOfA] using map_tokensOf e h.1
    | .cons e (.cons e2 r), h =>
      have h2 := map_tokensOfA (.cons e2 r) h.2 k
      simp only [Args.mapRefs] at h2
      simp only [Args.mapRefs, tokensOfA]
      exact mapRes_append_ok g _ _ _ _ (map_tokensOf e h.1) (mapRes_cons_ok g _ _ _ _ (sep_other M k) h2)
    | .cons e (.skip r), h =>
      have h2 := map_tokensOfA (.skip r) h.2 k
      simp only [Args.mapRefs] at h2
      simp only [Args.mapRefs, tokensOfA]
      exact mapRes_append_ok g _ _ _ _ (map_tokensOf e h.1) (mapRes_cons_ok g _ _ _ _ (sep_other M k) h2)
    | .skip .nil, _ => rfl
    | .skip (.cons e2 r), h =>
      have h2 := map_tokensOfA (.cons e2 r) h k
      simp only [Args.mapRefs] at h2
      simp only [Args.mapRefs, tokensOfA]
      exact mapRes_cons_ok g _ _ _ _ (sep_other M k) h2
    | .skip (.skip r), h =>
      have h2 := map_tokensOfA (.skip r) h k
      simp only [Args.mapRefs] at h2
      simp only [Args.mapRefs, tokensOfA]
      exact mapRes_cons_ok g _ _ _ _ (sep_other M k) h2
end
end

/-! ### rendering the token list of an expression gives its printed text -/

theorem render_append (a b : List Tok) : render (a ++ b) = render a ++ render b := by
  simp [render, List.flatMap_append]

theorem render_nil : render [] = [] := rfl

theorem render_sep (k : TT) : renderTok (sepTok k) = [','] := by
  by_cases h : k = .function <;> simp [renderTok, sepTok, h]

theorem render_op3 (op : BinOp) : renderTok (op3 op) = op.text := by
  cases op <;> simp [renderTok, op3, opSub]

theorem render_refTok (r : CRef) : renderTok (refTok r) = r.text := by simp [renderTok, refTok]

theorem dblQuote_eq (s : List Char) : dblQuote s = dbl s := rfl

mutual
  theorem render_mapRefs (F : CRef → Expr) (hF : ∀ r, (∃ r', F r = .ref r') ∨ F r = .err .ref)
      (e : Expr) (h : RefsOk e) : render (tokensOf (e.mapRefs F)) = (e.mapRefs F).print := by
    match e, h with
    | .num t, _ => simp [Expr.mapRefs, tokensOf, render, renderTok, Expr.print]
    | .str s, _ => simp [Expr.mapRefs, tokensOf, render, renderTok, Expr.print, dblQuote_eq]
    | .bool b, _ => cases b <;> simp [Expr.mapRefs, tokensOf, render, renderTok, Expr.print, boolText]
    | .err e, _ => simp [Expr.mapRefs, tokensOf, render, renderTok, Expr.print]
    | .name n, _ => simp [Expr.mapRefs, tokensOf, render, renderTok, Expr.print]
    | .ref r, _ =>
      rcases hF r with ⟨r', hr⟩ | hr <;>
        simp [Expr.mapRefs, hr, tokensOf, render, renderTok, Expr.print, refTok]
    | .opaque _, h => exact absurd h (by simp [RefsOk])
    | .array _, h => exact absurd h (by simp [RefsOk])
    | .neg e, h =>
      simp only [Expr.mapRefs, tokensOf, render_cons, Expr.print, render_mapRefs F hF e h]
      simp [renderTok, prefixTok]
    | .pos e, h =>
      simp only [Expr.mapRefs, tokensOf, render_cons, Expr.print, render_mapRefs F hF e h]
      simp [renderTok, prefixTok]
    | .pct e, h =>
      simp only [Expr.mapRefs, tokensOf, render_append, render_cons, Expr.print, render_mapRefs F hF e h]
      simp [renderTok, pctTok, render_nil]
    | .bin op a b, h =>
      simp only [Expr.mapRefs, tokensOf, render_append, render_cons, Expr.print, render_mapRefs F hF a h.1,
        render_mapRefs F hF b h.2, render_op3]
      simp
    | .isect a b, h =>
      simp only [Expr.mapRefs, tokensOf, render_append, render_cons, Expr.print, render_mapRefs F hF a h.1,
        render_mapRefs F hF b h.2]
      simp [renderTok]
    | .paren e, h =>
      simp only [Expr.mapRefs, tokensOf, render_append, render_cons, Expr.print, render_mapRefs F hF e h]
      simp [renderTok, subStart, subStop, render_nil]
    | .union es, h =>
      simp only [Expr.mapRefs, tokensOf, render_append, render_cons, Expr.print,
        render_mapRefsA F hF es h .subexpression]
      simp [renderTok, subStart, subStop, render_nil]
    | .call f as, h =>
      simp only [Expr.mapRefs, tokensOf, render_append, render_cons, Expr.print,
        render_mapRefsA F hF as h .function]
      simp [renderTok, fnStart, fnStop, render_nil]
  theorem render_mapRefsA (F : CRef → Expr) (hF : ∀ r, (∃ r', F r = .ref r') ∨ F r = .err .ref)
      (as : Args) (h : RefsOkA as) (k : TT) :
      render (tokensOfA k (as.mapRefs F)) = (as.mapRefs F).print := by
    match as, h with
    | .nil, _ => rfl
    | .cons e .nil, h => simpa [Args.mapRefs, tokensOfA, Args.print] using render_mapRefs F hF e h.1
    | .cons e (.cons e2 r), h =>
      have h2 := render_mapRefsA F hF (.cons e2 r) h.2 k
      simp only [Args.mapRefs] at h2
      simp only [Args.mapRefs, tokensOfA, Args.print, render_append, render_cons, render_sep,
        render_mapRefs F hF e h.1, h2]
      simp
    | .cons e (.skip r), h =>
      have h2 := render_mapRefsA F hF (.skip r) h.2 k
      simp only [Args.mapRefs] at h2
      simp only [Args.mapRefs, tokensOfA, Args.print, render_append, render_cons, render_sep,
        render_mapRefs F hF e h.1, h2]
      simp
    | .skip .nil, _ => rfl
    | .skip (.cons e2 r), h =>
      have h2 := render_mapRefsA F hF (.cons e2 r) h k
      simp only [Args.mapRefs] at h2
      simp only [Args.mapRefs, tokensOfA, Args.print, render_cons, render_sep, h2]
      simp
    | .skip (.skip r), h =>
      have h2 := render_mapRefsA F hF (.skip r) h k
      simp only [Args.mapRefs] at h2
      simp only [Args.mapRefs, tokensOfA, Args.print, render_cons, render_sep, h2]
      simp
end

mutual
  theorem render_tokensOf (e : Expr) (h : LexOk e) : render (tokensOf e) = e.print := by
    match e, h with
    | .num t, _ => simp [tokensOf, render, renderTok, Expr.print]
    | .str s, _ => simp [tokensOf, render, renderTok, Expr.print, dblQuote_eq]
    | .bool b, _ => cases b <;> simp [tokensOf, render, renderTok, Expr.print, boolText]
    | .err e, _ => simp [tokensOf, render, renderTok, Expr.print]
    | .name n, _ => simp [tokensOf, render, renderTok, Expr.print]
    | .ref r, _ => simp [tokensOf, render, renderTok, Expr.print, refTok]
    | .opaque _, h => exact absurd h (by simp [LexOk])
    | .array _, h => exact absurd h (by simp [LexOk])
    | .isect _ _, h => exact absurd h (by simp [LexOk])
    | .neg e, h =>
      simp only [tokensOf, render_cons, Expr.print, render_tokensOf e h]
      simp [renderTok, prefixTok]
    | .pos e, h =>
      simp only [tokensOf, render_cons, Expr.print, render_tokensOf e h]
      simp [renderTok, prefixTok]
    | .pct e, h =>
      simp only [tokensOf, render_append, render_cons, Expr.print, render_tokensOf e h]
      simp [renderTok, pctTok, render_nil]
    | .bin op a b, h =>
      simp only [tokensOf, render_append, render_cons, Expr.print, render_tokensOf a h.1,
        render_tokensOf b h.2, render_op3]
      simp
    | .paren e, h =>
      simp only [tokensOf, render_append, render_cons, Expr.print, render_tokensOf e h]
      simp [renderTok, subStart, subStop, render_nil]
    | .union es, h =>
      simp only [tokensOf, render_append, render_cons, Expr.print, render_tokensOfA es h .subexpression]
      simp [renderTok, subStart, subStop, render_nil]
    | .call f as, h =>
      simp only [tokensOf, render_append, render_cons, Expr.print, render_tokensOfA as h.2 .function]
      simp [renderTok, fnStart, fnStop, render_nil]
  theorem render_tokensOfA (as : Args) (h : LexOkA as) (k : TT) :
      render (tokensOfA k as) = as.print := by
    match as, h with
    | .nil, _ => rfl
    | .cons e .nil, h => simpa [tokensOfA, Args.print] using render_tokensOf e h.1
    | .cons e (.cons e2 r), h =>
      simp only [tokensOfA, Args.print, render_append, render_cons, render_sep,
        render_tokensOf e h.1, render_tokensOfA (.cons e2 r) h.2 k]
      simp
    | .cons e (.skip r), h =>
      simp only [tokensOfA, Args.print, render_append, render_cons, render_sep,
        render_tokensOf e h.1, render_tokensOfA (.skip r) h.2 k]
      simp
    | .skip .nil, _ => rfl
    | .skip (.cons e2 r), h =>
      simp only [tokensOfA, Args.print, render_cons, render_sep, render_tokensOfA (.cons e2 r) h k]
      simp
    | .skip (.skip r), h =>
      simp only [tokensOfA, Args.print, render_cons, render_sep, render_tokensOfA (.skip r) h k]
      simp
end

/-! ### inert names under the three adjusters -/

theorem not_mem_of_contains (n : List Char) (h : n.contains '!' = false) : '!' ∉ n := by
  intro hm
  have : n.contains '!' = true := by simpa using hm
  rw [h] at this; cases this

theorem joinColon_same (l : List (List Char)) : Umya.Formula.joinColon l = Umya.Coord.joinColon l := by
  induction l with
  | nil => rfl
  | cons a r ih =>
    cases r with
    | nil => rfl
    | cons b r' => simp only [Umya.Formula.joinColon, Umya.Coord.joinColon, ih]; simp

theorem joinColon_split (n : List Char) : Umya.Formula.joinColon (splitColon n) = n := by
  rw [joinColon_same, Umya.Coord.joinColon_splitColon]

theorem splitQ_inert (n : List Char) (h : n.contains '!' = false) :
    splitSheetQualifier n = ([], [], n) := by
  simp [splitSheetQualifier, splitAddress, rsplitBang_none n (not_mem_of_contains n h), undouble]

theorem translateList_inert (dc dr : Int) (l : List (List Char)) (h : ∀ s ∈ l, parseCorner s = none) :
    translateList dc dr l = .ok (some l) := by
  induction l with
  | nil => rfl
  | cons s r ih =>
    have hs := h s (List.mem_cons_self ..)
    simp [translateList, translateCoord, hs, ih (fun x hx => h x (List.mem_cons_of_mem _ hx))]

theorem insertList_inert (rc oc rr orr : Nat) (isEnd : Bool) (l : List (List Char))
    (h : ∀ s ∈ l, parseCorner s = none) : insertList rc oc rr orr isEnd l = .ok (some l) := by
  induction l generalizing isEnd with
  | nil => rfl
  | cons s r ih =>
    have hs := h s (List.mem_cons_self ..)
    simp [insertList, insertCoord, hs, ih true (fun x hx => h x (List.mem_cons_of_mem _ hx))]

theorem corners_inert (l : List (List Char)) (h : ∀ s ∈ l, parseCorner s = none) :
    colsOf (l.map parseCorner) = [] ∧ rowsOf (l.map parseCorner) = [] ∧
    putCols (l.map parseCorner) [] = l.map parseCorner ∧ putRows (l.map parseCorner) [] = l.map parseCorner ∧
    renderCorners (l.map parseCorner) l = .ok l := by
  induction l with
  | nil => simp [colsOf, rowsOf, putCols, putRows, renderCorners]
  | cons s r ih =>
    have hs := h s (List.mem_cons_self ..)
    obtain ⟨h1, h2, h3, h4, h5⟩ := ih (fun x hx => h x (List.mem_cons_of_mem _ hx))
    simp only [colsOf, rowsOf] at h1 h2
    refine ⟨?_, ?_, ?_, ?_, ?_⟩
    · simp [colsOf, hs, h1]
    · simp [rowsOf, hs, h2]
    · simp [List.map, hs, putCols, h3]
    · simp [List.map, hs, putRows, h4]
    · simp [List.map, hs, renderCorners, h5]

theorem inert_parts (n : List Char) (h : NameInert n = true) :
    n.contains '!' = false ∧ ∀ s ∈ splitColon n, parseCorner s = none := by
  simp only [NameInert, Bool.and_eq_true, Bool.not_eq_true', List.all_eq_true, Option.isNone_iff_eq_none] at h
  exact h

theorem translateTok_name (dc dr : Int) (n : List Char) (h : NameInert n = true) :
    translateTok dc dr (nameTok n) = .ok (nameTok n) := by
  obtain ⟨h1, h2⟩ := inert_parts n h
  simp [translateTok, nameTok, isRangeOperand, splitQ_inert n h1, translateList_inert dc dr _ h2,
    joinColon_split]

theorem insertTok_name (rc oc rr orr : Nat) (ws selfWs : List Char) (ig : Bool) (n : List Char)
    (h : NameInert n = true) : insertTok rc oc rr orr ws selfWs ig (nameTok n) = .ok (nameTok n) := by
  obtain ⟨h1, h2⟩ := inert_parts n h
  simp only [insertTok, nameTok, isRangeOperand, splitQ_inert n h1, insertList_inert rc oc rr orr false _ h2,
    joinColon_split]
  simp

theorem removeTok_name (rc oc rr orr : Nat) (ws selfWs : List Char) (ig : Bool) (n : List Char)
    (h : NameInert n = true) : removeTok rc oc rr orr ws selfWs ig (nameTok n) = .ok (nameTok n) := by
  obtain ⟨h1, h2⟩ := inert_parts n h
  obtain ⟨c1, c2, c3, c4, c5⟩ := corners_inert _ h2
  simp only [removeTok, nameTok, isRangeOperand, splitQ_inert n h1, c1, removeParts_nil, c3, c2, c4, c5,
    joinColon_split]
  simp

theorem tokMap_translate (dc dr : Int) :
    TokMap (translateTok dc dr) (fun r => Spec.translateRef r dc dr) where
  other := fun t h => by simp [translateTok, h]
  ref := fun r hw => by rw [translateTok_ref r hw dc dr, Spec.translateRef, exprTok_refOr]
  name := fun n h => translateTok_name dc dr n h
  shape := fun r => by
    simp only [Spec.translateRef]
    cases Spec.trArea r.area dc dr <;> simp [Spec.refOr]

end Umya.Formula
