/-
  (T) translator, part 3 — `src/structs/cell_value.rs`: `CellValue::guess_typed_data` as compiled from the source on
  this run (the enum `CellRawValue` with its payloads regenerated too) is the hand model's `guessTyped`
  (`Umya/Model/Reader.lean`), for every text.  Externs: `CellErrorType::from_str` and `str::parse::<f64>` are
  parameters of the compiled definition; the model represents an error value and a number by their texts, so they
  are instantiated with the membership test in `errorLits` and with `parseF64Ok`.
-/
import Umya.Lemmas.FnsGen
import Umya.Model.Reader
namespace Umya.Gen
open Umya.Reader Umya.Coord
set_option linter.unusedSimpArgs false

/-- the model's view of a compiled `CellRawValue` (error values and numbers by their texts; rich text and lazy
    values do not arise from `guess_typed_data`) -/
def rawView : CellRawValue_val (List Char) (List Char) Unit → Raw
  | .String s => .str s
  | .RichText _ => .str []
  | .Lazy s => .str s
  | .Numeric t => .num t
  | .Bool b => .bool b
  | .Error e => .err e
  | .Empty => .empty

/-- `CellErrorType::from_str` on the model's representation: the literals of `errorLits` -/
def errorFromStr (up : List Char) : Option (List Char) := if errorLits.contains up then some up else none

/-- `str::parse::<f64>` on the model's representation: the text itself where the model's grammar accepts it -/
def parseF64Text (t : List Char) : Option (List Char) := if Umya.Formula.parseF64Ok t then some t else none

theorem gen_guess_typed_data (v : List Char) :
    rawView (guess_typed_data (List Char) (List Char) Unit errorFromStr parseF64Text v) = guessTyped v := by
  have eT : "TRUE".toList = ['T', 'R', 'U', 'E'] := by decide
  have eF : "FALSE".toList = ['F', 'A', 'L', 'S', 'E'] := by decide
  unfold guess_typed_data guessTyped rt_to_uppercase errorFromStr parseF64Text
  simp only [eT, eF]
  by_cases h0 : v = []
  · subst h0; rfl
  · by_cases h1 : List.map upcase v = ['T', 'R', 'U', 'E']
    · simp [h0, h1, rawView]
    · by_cases h2 : List.map upcase v = ['F', 'A', 'L', 'S', 'E']
      · simp [h0, h1, h2, rawView]
      · have hn : List.map upcase v ≠ [] := by simpa using h0
        simp only [h0, h1, h2, hn, if_false, decide_false, decide_true, Bool.false_eq_true, decide_eq_true_eq, reduceCtorEq]
        by_cases he : errorLits.contains (List.map upcase v) = true <;>
          by_cases hp : Umya.Formula.parseF64Ok v = true <;>
          simp only [he, hp, h1, h2, hn, if_true, if_false, Bool.false_eq_true] <;>
          (first
            | rfl
            | (split <;> first
                | (exact absurd ‹_› hn)
                | (exact absurd ‹_› h1)
                | (exact absurd ‹_› h2)
                | rfl
                | simp [rawView])
            | simp [rawView])

end Umya.Gen
