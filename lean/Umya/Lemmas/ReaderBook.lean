/-
  Helper definitions and lemmas for C03 above the sheet data: shared-strings part, relationships, hyperlinks,
  merged ranges, sheet list, defined names (`Umya.Model.ReaderSheet` against `Spec.Sml.decodeSheet` / `decode`).
  The `spec…` functions are the decoder's own expressions, taken out of `decodeSheet` / `decode` / `relsOf`
  (`decodeSheet_links`, `decodeSheet_merges`, `relsOf_eq`, `sharedStrings_eq` show that they are).
-/
import Umya.Lemmas.ReaderSheet
namespace Umya.Reader.Lemmas
open Umya.Reader Umya.Spec.Xml Umya.Spec.Sml

/-! ## `mapM` over a list whose every element succeeds -/

theorem mapM_some {α β} (f : α → Option β) (g : α → β) : ∀ (l : List α), (∀ x ∈ l, f x = some (g x)) →
    l.mapM f = some (l.map g) := by
  intro l
  induction l with
  | nil => intro _; rfl
  | cons a r ih =>
    intro h
    simp only [List.mapM_cons, h a List.mem_cons_self, ih (fun x hx => h x (List.mem_cons_of_mem _ hx)), List.map_cons]
    rfl

/-! ## relationships -/

/-- the decoder's relationship list of a relationships part with root `root` (`relsOf`) -/
def specRels (root : Node) : List Rel :=
  (root.kids "Relationship").map fun r =>
    { id := str ((r.attr? "Id".toList).getD []), type := str ((r.attr? "Type".toList).getD []),
      target := str ((r.attr? "Target".toList).getD []),
      external := (r.attr? "TargetMode".toList) = some "External".toList }

theorem relsOf_eq (p : Package) (part : String) (root : Node)
    (h : (p.part? (relsNameOf part)).bind (·.xml) = some root) : relsOf p part = specRels root := by
  unfold relsOf
  simp only [h, specRels]

/-- model list and decoder list name the same ids and targets, in the same order -/
def RelsAgree (rs : List RelR) (srels : List Rel) : Prop :=
  srels.map (fun r => (r.id, r.target)) = rs.map (fun r => (str r.id, str r.target))

/-- every `<Relationship>` carries `Id`, `Type`, `Target` (the library unwraps all three) -/
def validRels (root : Node) : Bool :=
  (root.kids "Relationship").all fun r =>
    (r.attr? "Id".toList).isSome && (r.attr? "Type".toList).isSome && (r.attr? "Target".toList).isSome

theorem readRels_spec (root : Node) (h : validRels root = true) :
    ∃ rs, readRels root = some rs ∧ RelsAgree rs (specRels root) := by
  refine ⟨(root.kids "Relationship").map fun r =>
    ⟨(r.attr? "Id".toList).getD [], (r.attr? "Type".toList).getD [], (r.attr? "Target".toList).getD []⟩, ?_, ?_⟩
  · unfold readRels
    apply mapM_some
    intro r hr
    have := List.all_eq_true.mp h r hr
    simp only [Bool.and_eq_true, Option.isSome_iff_exists] at this
    obtain ⟨⟨⟨i, hi⟩, ⟨t, ht⟩⟩, ⟨g, hg⟩⟩ := this
    simp only [hi, ht, hg, Option.getD_some]
  · simp only [RelsAgree, specRels, List.map_map]
    rfl

theorem find_rel : ∀ (rs : List RelR) (srels : List Rel) (rid : Text), RelsAgree rs srels →
    (srels.find? (fun r => r.id = str rid)).map (·.target) = (rs.find? (·.id = rid)).map (fun r => str r.target) := by
  intro rs
  induction rs with
  | nil =>
    intro srels rid h
    simp only [RelsAgree, List.map_nil, List.map_eq_nil_iff] at h
    subst h; rfl
  | cons r rest ih =>
    intro srels rid h
    cases srels with
    | nil => simp [RelsAgree] at h
    | cons s srest =>
      simp only [RelsAgree, List.map_cons, List.cons.injEq, Prod.mk.injEq] at h
      obtain ⟨⟨hid, htg⟩, hrest⟩ := h
      simp only [List.find?_cons, hid]
      by_cases he : r.id = rid
      · have : str r.id = str rid := by rw [he]
        simp [he, htg]
      · have : ¬ str r.id = str rid := by
          intro e; exact he (String.ofList_inj.mp e)
        simp only [this, he, decide_false]
        exact ih srest rid hrest

/-- … and for ALL relationships with that id, in document order (the library's loop visits every one of them) -/
theorem filter_rel : ∀ (rs : List RelR) (srels : List Rel) (rid : Text), RelsAgree rs srels →
    (srels.filter (fun r => r.id = str rid)).map (·.target) = (rs.filter (·.id = rid)).map (fun r => str r.target) := by
  intro rs
  induction rs with
  | nil =>
    intro srels rid h
    simp only [RelsAgree, List.map_nil, List.map_eq_nil_iff] at h
    subst h; rfl
  | cons r rest ih =>
    intro srels rid h
    cases srels with
    | nil => simp [RelsAgree] at h
    | cons s srest =>
      simp only [RelsAgree, List.map_cons, List.cons.injEq, Prod.mk.injEq] at h
      obtain ⟨⟨hid, htg⟩, hrest⟩ := h
      have ih' := ih srest rid hrest
      by_cases he : r.id = rid
      · have : s.id = str rid := by rw [hid, he]
        simp only [List.filter_cons, this, he, decide_true, if_true, List.map_cons, htg, ih']
      · have : ¬ s.id = str rid := by
          rw [hid]; intro e; exact he (String.ofList_inj.mp e)
        simp only [List.filter_cons, this, he, decide_false]
        exact ih'

/-- at most one hit: the last hit is the first -/
theorem getLast?_filter_unique {α} (p : α → Bool) (l : List α) (h : (l.filter p).length ≤ 1) :
    (l.filter p).getLast? = l.find? p := by
  rw [← List.head?_filter]
  generalize l.filter p = m at h
  match m, h with
  | [], _ => rfl
  | [a], _ => rfl
  | a :: b :: t, h => simp at h

/-! ## hyperlinks -/

/-- the decoder's reading of one `<hyperlink>`: the link component of `decodeSheet`'s `linksE` -/
def specLink (rels : List Rel) (h : Node) : Link :=
  match h.attr? "r:id".toList with
  | some rid =>
    (match rels.find? (fun (r : Rel) => r.id = str rid) with
     | some r => { ref := (h.attr? "ref".toList).getD [], external := true, target := r.target.toList,
                   location := h.attr? "location".toList, tooltip := h.attr? "tooltip".toList,
                   display := h.attr? "display".toList }
     | none => { ref := (h.attr? "ref".toList).getD [], external := true, target := [],
                 tooltip := h.attr? "tooltip".toList, display := h.attr? "display".toList })
  | none => { ref := (h.attr? "ref".toList).getD [], external := false, target := (h.attr? "location".toList).getD [],
              tooltip := h.attr? "tooltip".toList, display := h.attr? "display".toList }

/-- what is compared of a link: (anchor, external?, target / location text, tooltip) -/
structure LinkView where
  ref : Text
  external : Bool
  target : Text
  tooltip : Text
  deriving DecidableEq, Repr

def linkViewR (l : LinkR) : LinkView := ⟨l.ref, !l.location, l.url, l.tooltip⟩
def linkViewS (l : Link) : LinkView := ⟨l.ref, l.external, l.target, l.tooltip.getD []⟩

/-- the hyperlinks whose meaning the library can hold: an external link (`r:id`) whose relationship exists and
    which has NO `location` (known finding C03-hyperlink-location-with-rid: `Hyperlink` holds one string and a
    flag; `C03_hyperlink_location_with_rid_fails`), or an internal link (`location` only).  A `<hyperlink>` with
    neither is schema-valid but means nothing; it is outside. -/
def validHyperlinks (rs : Option (List RelR)) (hs : List Node) : Bool :=
  hs.all fun h =>
    match h.attr? "r:id".toList with
    | some rid => (h.attr? "location".toList).isNone &&
        (match rs with | some l => l.any (fun r => r.id = rid) | none => false)
    | none => (h.attr? "location".toList).isSome

theorem hyperlink_agrees (rs : Option (List RelR)) (srels : List Rel) (hag : RelsAgree (rs.getD []) srels) (h : Node)
    (hv : validHyperlinks rs [h] = true) :
    ∃ l, readHyperlink rs h = some l ∧ linkViewR l = linkViewS (specLink srels h) := by
  simp only [validHyperlinks, List.all_cons, List.all_nil, Bool.and_true] at hv
  unfold readHyperlink specLink
  cases hrid : h.attr? "r:id".toList with
  | none =>
    rw [hrid] at hv
    simp only [Option.isSome_iff_exists] at hv
    obtain ⟨loc, hloc⟩ := hv
    simp only [hloc, Option.getD_some]
    exact ⟨_, rfl, by simp [linkViewR, linkViewS]⟩
  | some rid =>
    rw [hrid] at hv
    simp only [Bool.and_eq_true, Option.isNone_iff_eq_none] at hv
    obtain ⟨hloc, hany⟩ := hv
    cases rs with
    | none => simp at hany
    | some l =>
      simp only [List.any_eq_true, decide_eq_true_eq] at hany
      obtain ⟨r0, hr0, hid0⟩ := hany
      have hfind := find_rel l srels rid hag
      cases hf : l.find? (·.id = rid) with
      | none =>
        have := List.find?_eq_none.mp hf r0 hr0
        simp [hid0] at this
      | some r =>
        rw [hf] at hfind
        simp only [Option.map_some] at hfind
        cases hs : srels.find? (fun r => r.id = str rid) with
        | none => rw [hs] at hfind; simp at hfind
        | some s =>
          rw [hs] at hfind
          simp only [Option.map_some, Option.some.injEq] at hfind
          simp only [hloc, hf, hs, Option.map_some]
          refine ⟨_, rfl, ?_⟩
          simp [linkViewR, linkViewS, hfind, str]

/-! ## defined names -/

/-- the decoder's reading of one `<definedName>` (`decode`) -/
def specName (d : Node) : NameV :=
  NameV.mk ((d.attr? "name".toList).getD []) ((d.attr? "localSheetId".toList).bind natOf) d.ownText

/-- `localSheetId` an unsigned decimal that fits `u32`; the content character data only, without blanks at its
    ends (the workbook part is read with `trim_text(true)`) -/
def validDefinedName (d : Node) : Bool :=
  (match d.attr? "localSheetId".toList with | some v => uintOk u32Bound v | none => true) && plainText true d

theorem definedName_agrees (d : Node) (h : validDefinedName d = true) :
    readDefinedName d = some ⟨(specName d).name, (specName d).scope, (specName d).text⟩ := by
  simp only [validDefinedName, Bool.and_eq_true] at h
  unfold readDefinedName specName
  rw [lastText_plain true d h.2]
  cases hl : d.attr? "localSheetId".toList with
  | none => rfl
  | some v =>
    have h1 := h.1
    rw [hl] at h1
    obtain ⟨n, e1, e2⟩ := uintOk_parse _ v h1
    have e2' : parseU32 v = some n := e2
    simp only [e2', Option.map_some, Option.bind_some, e1]

end Umya.Reader.Lemmas
