/-
  Helper lemmas for the data-validation codec (`Umya/Model/AnnotDv.lean`): attribute lists, scalar
  wrappers, enum tables, the sqref codec (on top of `C17_range`), the formula children, and the round trip
  of one validation and of the whole list.
-/
import Umya.Model.AnnotDv
import Umya.Lemmas.Annot
import Umya.Thm.C17
namespace Umya.AnnotDv
open Umya.Coord Umya.Annot Umya.Thm.C17
open Umya.Spec.Xml (Node Attr)

/-! ### attribute lists -/

theorem getAttr_render_notin : ∀ (ns : List Text) (vs : List (Option Text)) (k : Text), k ∉ ns →
    getAttr (render ns vs) k = none
  | [], _, _, _ => by cases ‹List (Option Text)› <;> rfl
  | _ :: _, [], _, _ => rfl
  | n :: ns, none :: vs, k, h => by
    simp only [render]
    exact getAttr_render_notin ns vs k (fun hm => h (List.mem_cons_of_mem _ hm))
  | n :: ns, some v :: vs, k, h => by
    have hne : n ≠ k := fun e => h (e ▸ List.mem_cons_self)
    simp only [render, getAttr, hne, if_false]
    exact getAttr_render_notin ns vs k (fun hm => h (List.mem_cons_of_mem _ hm))

/-- looking up the `i`-th name in the rendered list gives the `i`-th value: names are pairwise distinct, so
    no attribute is read from a sibling's slot -/
theorem getAttr_render_idx : ∀ (ns : List Text) (vs : List (Option Text)), ns.Nodup → vs.length = ns.length →
    ∀ (i : Nat) (hi : i < ns.length) (hv : i < vs.length), getAttr (render ns vs) ns[i] = vs[i]
  | [], _, _, _, i, hi, _ => by simp at hi
  | n :: ns, [], _, hl, _, _, _ => by simp at hl
  | n :: ns, v :: vs, hnd, hl, i, hi, hv => by
    have hnd' := List.nodup_cons.1 hnd
    have hl' : vs.length = ns.length := by simpa using hl
    cases i with
    | zero =>
      cases v with
      | none =>
        simp only [render, List.getElem_cons_zero]
        exact getAttr_render_notin ns vs n hnd'.1
      | some x => simp [render, getAttr]
    | succ j =>
      have hj : j < ns.length := by simpa using hi
      have hjv : j < vs.length := by simpa using hv
      have hne : n ≠ ns[j] := fun e => hnd'.1 (e ▸ List.getElem_mem hj)
      have ih := getAttr_render_idx ns vs hnd'.2 hl' j hj hjv
      cases v with
      | none => simpa [render] using ih
      | some x => simpa [render, getAttr, hne] using ih

/-! ### scalar wrappers and enum tables -/

theorem boolOf_boolStr (b : Bool) : boolOf (boolStr b) = b := by cases b <;> decide

theorem dvType_table (v : DvType) : DvType.fromStr (DvType.toStr v) = some v := by cases v <;> decide
theorem dvOp_table (v : DvOp) : DvOp.fromStr (DvOp.toStr v) = some v := by cases v <;> decide

theorem readEnum_written {α} (fromStr : Text → Option α) (toStr : α → Text)
    (h : ∀ v, fromStr (toStr v) = some v) (o : Option α) : readEnum fromStr (o.map toStr) = o := by
  cases o with
  | none => rfl
  | some v => simp [readEnum, setEnum, h]

theorem map_boolOf_boolStr (o : Option Bool) : (o.map boolStr).map boolOf = o := by
  cases o <;> simp [boolOf_boolStr]

/-! ### sqref -/

theorem splitSp_go_free (s cur : Text) (h : ' ' ∉ s) : splitSp.go s cur = [cur.reverse ++ s] := by
  induction s generalizing cur with
  | nil => simp [splitSp.go]
  | cons c r ih =>
    have hc : c ≠ ' ' := by intro e; subst e; simp at h
    have hr : ' ' ∉ r := fun e => h (List.mem_cons_of_mem _ e)
    simp [splitSp.go, hc, ih _ hr]

theorem splitSp_go_cons (a rest cur : Text) (ha : ' ' ∉ a) :
    splitSp.go (a ++ ' ' :: rest) cur = (cur.reverse ++ a) :: splitSp.go rest [] := by
  induction a generalizing cur with
  | nil => simp [splitSp.go]
  | cons c r ih =>
    have hc : c ≠ ' ' := by intro e; subst e; simp at ha
    have hr : ' ' ∉ r := fun e => ha (List.mem_cons_of_mem _ e)
    simp [splitSp.go, hc, ih _ hr]

/-- `split(' ')` undoes `join(" ")` on a non-empty list of blank-free pieces -/
theorem splitSp_joinSp : ∀ (ts : List Text), ts ≠ [] → (∀ t ∈ ts, ' ' ∉ t) → splitSp (joinSp ts) = ts
  | [], h, _ => absurd rfl h
  | [a], _, hf => by
    simp only [joinSp, splitSp]
    rw [splitSp_go_free a [] (hf a (by simp))]; simp
  | a :: b :: r, _, hf => by
    have ih := splitSp_joinSp (b :: r) (by simp) (fun t ht => hf t (List.mem_cons_of_mem _ ht))
    simp only [joinSp, splitSp] at ih ⊢
    rw [splitSp_go_cons a _ [] (hf a (by simp)), ih]; simp

theorem blank_free_print (ρ : Range) : ' ' ∉ ρ.print := by
  intro h
  have := print_chars ρ ' ' h
  rcases this with h | h | h | h <;> revert h <;> decide

theorem print_ne_nil (ρ : Range) (hs : Range.IsShape ρ) (hb : Range.InBounds ρ) : ρ.print ≠ [] := by
  intro e
  have h := C17_range ρ hs hb
  rw [e] at h
  have h0 : Range.parse [] = .ok {} := by decide
  rw [h0] at h
  injection h with h
  subst h
  rcases hs with ⟨h1, _⟩ | ⟨h1, _⟩ | ⟨_, h1, _⟩ | ⟨h1, _⟩ <;> simp at h1

/-- the ranges a validation / a conditional format may carry: the four printable shapes within the grid
    bounds of the C17 codec -/
def RangesOK (rs : List Range) : Prop := ∀ ρ ∈ rs, Range.IsShape ρ ∧ Range.InBounds ρ

theorem pushRanges_print : ∀ (rs acc : List Range), RangesOK rs →
    pushRanges acc (rs.map Range.print) = .ok (acc ++ rs)
  | [], acc, _ => by simp [pushRanges]
  | ρ :: rs, acc, h => by
    have hρ := h ρ (by simp)
    simp only [List.map_cons, pushRanges, C17_range ρ hρ.1 hρ.2]
    rw [pushRanges_print rs (acc ++ [ρ]) (fun x hx => h x (List.mem_cons_of_mem _ hx))]
    simp

theorem joinSp_eq_nil : ∀ (ts : List Text), joinSp ts = [] → ts = [] ∨ ts = [[]]
  | [], _ => Or.inl rfl
  | [a], h => by simp only [joinSp] at h; subst h; exact Or.inr rfl
  | a :: b :: r, h => by simp [joinSp] at h

theorem sqrefText_ne_nil (rs : List Range) (h : RangesOK rs) (hne : rs ≠ []) : sqrefText rs ≠ [] := by
  intro e
  rcases joinSp_eq_nil _ e with h0 | h0
  · exact hne (List.map_eq_nil_iff.1 h0)
  · cases rs with
    | nil => exact hne rfl
    | cons ρ r =>
      simp only [List.map_cons, List.cons.injEq] at h0
      exact print_ne_nil ρ (h ρ (by simp)).1 (h ρ (by simp)).2 h0.1

/-- the sqref attribute reads back as the same ranges in the same order, for any number of ranges (none
    included: the attribute is then omitted, or — in `<conditionalFormatting>` — written empty) -/
theorem readSqref_written (rs : List Range) (h : RangesOK rs) : readSqref (sqrefAttr rs) = .ok rs := by
  cases rs with
  | nil => decide
  | cons ρ r =>
    have hne := sqrefText_ne_nil (ρ :: r) h (by simp)
    have ha : sqrefAttr (ρ :: r) = some (sqrefText (ρ :: r)) := by simp [sqrefAttr, hne]
    rw [ha]
    simp only [readSqref, setSqref, sqrefText]
    rw [splitSp_joinSp _ (by simp) (by
      intro t ht
      obtain ⟨x, _, rfl⟩ := List.mem_map.1 ht
      exact blank_free_print x)]
    have hf : ((ρ :: r).map Range.print).filter (fun p => !p.isEmpty) = (ρ :: r).map Range.print := by
      apply List.filter_eq_self.2
      intro p hp
      obtain ⟨x, hx, rfl⟩ := List.mem_map.1 hp
      have := print_ne_nil x (h x hx).1 (h x hx).2
      cases hq : x.print with
      | nil => exact absurd hq this
      | cons a q => rfl
    rw [hf]
    simpa using pushRanges_print (ρ :: r) [] h

/-- the text `get_sqref` gives reads back as the same ranges — none included: the empty text is no range
    (fix 13062503) -/
theorem setSqref_text (rs : List Range) (h : RangesOK rs) : setSqref [] (sqrefText rs) = .ok rs := by
  cases rs with
  | nil => decide
  | cons ρ r =>
    have := readSqref_written (ρ :: r) h
    simpa [sqrefAttr, sqrefText_ne_nil (ρ :: r) h (by simp), readSqref] using this

/-! ### formula children -/

theorem lastText_textElem_kids (t : Text) : lastText (if t = [] then [] else [Node.text t]) [] = t := by
  by_cases h : t = []
  · simp [h, lastText]
  · simp [h, lastText]

theorem readKids_written (f1 f2 : Option Text) :
    readKids (optElem nFormula1 f1 ++ optElem nFormula2 f2) (none, none) = (f1, f2) := by
  have h21 : nFormula2 ≠ nFormula1 := by decide
  cases f1 <;> cases f2 <;> simp [optElem, textElem, readKids, lastText_textElem_kids, h21]

/-! ### one validation -/

theorem dvNames_nodup : dvNames.Nodup := by decide

theorem dv_attr (vs : List (Option Text)) (hl : vs.length = 10) (i : Nat) (hi : i < 10) :
    getAttr (render dvNames vs) (dvNames[i]'(by simpa [dvNames] using hi)) = vs[i]'(by omega) :=
  getAttr_render_idx dvNames vs dvNames_nodup (by simpa [dvNames] using hl) i _ _

/-- a validation reachable through the public setters whose ranges the sqref codec carries -/
def Dv.WF (x : Dv) : Prop := RangesOK x.sqref

theorem read_write (x : Dv) (h : x.WF) : read (write x) = .ok x := by
  obtain ⟨ty, op, ab, si, se, pt, pr, et, er, sq, f1, f2⟩ := x
  have hl : (dvValues ⟨ty, op, ab, si, se, pt, pr, et, er, sq, f1, f2⟩).length = 10 := rfl
  have a0 := dv_attr _ hl 0 (by decide)
  have a1 := dv_attr _ hl 1 (by decide)
  have a2 := dv_attr _ hl 2 (by decide)
  have a3 := dv_attr _ hl 3 (by decide)
  have a4 := dv_attr _ hl 4 (by decide)
  have a5 := dv_attr _ hl 5 (by decide)
  have a6 := dv_attr _ hl 6 (by decide)
  have a7 := dv_attr _ hl 7 (by decide)
  have a8 := dv_attr _ hl 8 (by decide)
  have a9 := dv_attr _ hl 9 (by decide)
  simp only [dvNames, dvValues, List.getElem_cons_zero, List.getElem_cons_succ] at a0 a1 a2 a3 a4 a5 a6 a7 a8 a9
  simp only [write, read, dvNames, dvValues, a0, a1, a2, a3, a4, a5, a6, a7, a8, a9,
    readSqref_written sq h, readKids_written, readEnum_written _ _ dvType_table, readEnum_written _ _ dvOp_table,
    map_boolOf_boolStr]

/-! ### the list -/

theorem readAll_written : ∀ (l : List Dv), (∀ x ∈ l, x.WF) → readAll (l.map write) = .ok l
  | [], _ => rfl
  | x :: r, h => by
    have hx := read_write x (h x (by simp))
    have hr := readAll_written r (fun y hy => h y (List.mem_cons_of_mem _ hy))
    simp only [List.map_cons]
    have hw : write x = .elem nDataValidation (render dvNames (dvValues x))
        (optElem nFormula1 x.formula1 ++ optElem nFormula2 x.formula2) := rfl
    rw [hw] at hx ⊢
    simp only [readAll, if_true, hx, hr]

end Umya.AnnotDv
