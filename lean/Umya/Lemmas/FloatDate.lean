/-
  Error analysis of the `f64` code of `helper/date.rs` under the standard model
  (`Umya.Lemmas.FloatStd.StdModel`):

    (i)   `serial_err`:  `fl(D + fl(T / 86400))` is within `eps0 = 2958469·2⁻⁵³` (≈ 3.3·10⁻¹⁰ day,
          ≈ 2.8·10⁻⁵ s) of `D + T/86400`;
    (ii)  `split_err`:   for ANY finite float within `eps0` of `D + T/86400`, the floor / subtract /
          ×24 / floor / ×60 / floor / ×60 / round chain of `excel_to_date_time_object` recomposes to
          exactly `86400·D + T` seconds.  The three floors are not claimed to be the "right" ones
          (they may be off by one, e.g. 23:59:59.99997 → hour 23 or 24·0 …): whatever integers
          `d, h, m` they return, the last product is within `1/2` of the integer
          `86400·(D − d) + T − 3600·h − 60·m`, so `round` returns that integer and the sum
          `86400·d + 3600·h + 60·m + s` is `86400·D + T`.
-/
import Umya.Lemmas.FloatStd
namespace Umya.Lemmas.FloatStd
open Umya.Date Umya.Date.FloatOps

/-- bound on `|fl(D + fl(T/86400)) − (D + T/86400)|` in days, `D ≤ 2958465` -/
def eps0 : ℚ := 2958469 * u

theorem le_big (B : ℚ) (hB : B ≤ 2 ^ 53) : B ≤ big := le_trans hB big_ge

/-! ## the four floats handed to chrono, and the integer side of the checked sum -/

/-- `(days, hours, minutes, seconds)` of `excel_to_date_time_object`, as floats -/
def splitParts {F : Type} [FloatOps F] (ts : F) : F × F × F × F :=
  let days := floor ts
  let partDay := sub ts days
  let hours := floor (mul partDay (ofInt 24))
  let partDay := sub (mul partDay (ofInt 24)) hours
  let minutes := floor (mul partDay (ofInt 60))
  let partDay := sub (mul partDay (ofInt 60)) minutes
  let seconds := round (mul partDay (ofInt 60))
  (days, hours, minutes, seconds)

theorem splitSeconds_parts {F : Type} [FloatOps F] (ts : F) (base : ℤ) :
    splitSeconds ts base = (base + toInt (splitParts ts).1) * 86400 + toInt (splitParts ts).2.1 * 3600 +
      toInt (splitParts ts).2.2.1 * 60 + toInt (splitParts ts).2.2.2 := rfl

theorem checked_parts {F : Type} [FloatOps F] (ts : F) :
    excelToEpochSecondsChecked ts = (do
      let d ← tryUnits 86400 (clampI64 (toInt (splitParts ts).1))
      let t ← checkedAddSigned (baseFor ts * 86400) d
      let h ← tryUnits 3600 (clampI64 (toInt (splitParts ts).2.1))
      let t ← checkedAddSigned t h
      let mi ← tryUnits 60 (clampI64 (toInt (splitParts ts).2.2.1))
      let t ← checkedAddSigned t mi
      let s ← tryUnits 1 (clampI64 (toInt (splitParts ts).2.2.2))
      checkedAddSigned t s) := rfl

theorem baseFor_range {F : Type} [FloatOps F] (ts : F) : -25569 ≤ baseFor ts ∧ baseFor ts ≤ 0 := by
  have e1 : base18991231 = -25568 := by decide
  have e2 : base18991230 = -25569 := by decide
  unfold baseFor
  split
  · unfold base1970; omega
  · split <;> omega

theorem tryUnits_small (unit n : ℤ) (hu : 1 ≤ unit ∧ unit ≤ 86400) (hn : -10000000 ≤ n ∧ n ≤ 10000000) :
    tryUnits unit (clampI64 n) = some (n * unit) := by
  have c : clampI64 n = n := by
    unfold clampI64; rw [if_neg (by omega), if_neg (by omega)]
  have b1 : -864000000000 ≤ n * unit := by nlinarith [hu.1, hu.2, hn.1, hn.2]
  have b2 : n * unit ≤ 864000000000 := by nlinarith [hu.1, hu.2, hn.1, hn.2]
  rw [c]
  unfold tryUnits i64? trySeconds
  rw [if_pos ⟨by omega, by omega⟩]
  simp only [Option.bind_some]
  rw [if_pos ⟨by omega, by omega⟩]

theorem checkedAdd_small (t d : ℤ) (h : -8000000000000 ≤ t + d ∧ t + d ≤ 8000000000000) :
    checkedAddSigned t d = some (t + d) := by
  have e1 : chronoMinSec = -8334601228800 := by decide
  have e2 : chronoMaxSec = 8210266876799 := by decide
  unfold checkedAddSigned
  rw [e1, e2, if_pos ⟨by omega, by omega⟩]

theorem checked_of_parts (base d hh mm ss : ℤ) (hb : -25569 ≤ base ∧ base ≤ 0)
    (hd : -1 ≤ d ∧ d ≤ 2958465) (hh' : -1 ≤ hh ∧ hh ≤ 48) (hm : -1 ≤ mm ∧ mm ≤ 120)
    (hs : -122 ≤ ss ∧ ss ≤ 122) :
    (do
      let a ← tryUnits 86400 (clampI64 d)
      let t ← checkedAddSigned (base * 86400) a
      let b ← tryUnits 3600 (clampI64 hh)
      let t ← checkedAddSigned t b
      let c ← tryUnits 60 (clampI64 mm)
      let t ← checkedAddSigned t c
      let e ← tryUnits 1 (clampI64 ss)
      checkedAddSigned t e) = some (base * 86400 + d * 86400 + hh * 3600 + mm * 60 + ss * 1) := by
  rw [tryUnits_small 86400 d (by omega) (by omega), tryUnits_small 3600 hh (by omega) (by omega),
    tryUnits_small 60 mm (by omega) (by omega), tryUnits_small 1 ss (by omega) (by omega)]
  simp only [bind, Option.bind_some]
  rw [checkedAdd_small _ _ (by omega)]
  simp only [Option.bind_some]
  rw [checkedAdd_small _ _ (by omega)]
  simp only [Option.bind_some]
  rw [checkedAdd_small _ _ (by omega)]
  simp only [Option.bind_some]
  rw [checkedAdd_small _ _ (by omega)]

section chain
variable {F : Type} [FloatOps F] {val : F → ℚ} {fin : F → Prop}

/-- (i) the serial computed by `convert_date_crate` is within `eps0` of the exact serial -/
theorem serial_err (h : StdModel F val fin) (D T : ℤ) (hD : 0 ≤ D ∧ D ≤ 2958465)
    (hT : 0 ≤ T ∧ T < 86400) :
    fin (serialOf F D T) ∧ |val (serialOf F D T) - ((D : ℚ) + (T : ℚ) / 86400)| ≤ eps0 := by
  obtain ⟨fT, vT⟩ := ofInt_ok h T (by omega) (by omega)
  obtain ⟨fK, vK⟩ := ofInt_ok h 86400 (by norm_num) (by norm_num)
  obtain ⟨fD, vD⟩ := ofInt_ok h D (by omega) (by omega)
  have t0 : (0 : ℚ) ≤ T := by exact_mod_cast hT.1
  have t1 : (T : ℚ) < 86400 := by exact_mod_cast hT.2
  have d0 : (0 : ℚ) ≤ D := by exact_mod_cast hD.1
  have d1 : (D : ℚ) ≤ 2958465 := by exact_mod_cast hD.2
  have r0 : (0 : ℚ) ≤ (T : ℚ) / 86400 := div_nonneg t0 (by norm_num)
  have r1 : (T : ℚ) / 86400 ≤ 1 := by rw [div_le_one (by norm_num)]; linarith
  have vK' : val (ofInt 86400 : F) = 86400 := by rw [vK]; norm_num
  have hq : |val (ofInt T : F) / val (ofInt 86400 : F)| ≤ 1 := by
    rw [vT, vK']; exact abs_le.2 ⟨by linarith, r1⟩
  obtain ⟨fq, eq⟩ := div_abs h fT fK (by rw [vK']; norm_num) hq (le_big _ (by norm_num))
  rw [vT, vK'] at eq
  obtain ⟨q1, q2⟩ := abs_le.1 eq
  have hu := u_val
  have he0 := eta_nonneg
  have he1 := eta_le_u
  have hs : |val (ofInt D : F) + val (div (ofInt T : F) (ofInt 86400))| ≤ 2958467 := by
    rw [vD]; exact abs_le.2 ⟨by linarith, by linarith⟩
  obtain ⟨fs, es⟩ := add_abs h fD fq hs (le_big _ (by norm_num))
  rw [vD] at es
  obtain ⟨s1, s2⟩ := abs_le.1 es
  refine ⟨fs, ?_⟩
  unfold serialOf eps0
  exact abs_le.2 ⟨by linarith, by linarith⟩

/-- (ii) + recomposition: on any finite float within `eps0` of `D + T/86400` the four integers that
    `excel_to_date_time_object` hands to chrono (`days as i64`, `hours as i64`, `minutes as i64`,
    `seconds as i64`) are small and recompose to exactly `86400·D + T` seconds -/
theorem split_parts (h : StdModel F val fin) (ts : F) (fts : fin ts) (D T : ℤ)
    (hD : 0 ≤ D ∧ D ≤ 2958465) (hT : 0 ≤ T ∧ T < 86400)
    (he : |val ts - ((D : ℚ) + (T : ℚ) / 86400)| ≤ eps0) :
    ∃ d hh mm ss : ℤ, toInt (splitParts ts).1 = d ∧ toInt (splitParts ts).2.1 = hh ∧
      toInt (splitParts ts).2.2.1 = mm ∧ toInt (splitParts ts).2.2.2 = ss ∧
      D - 1 ≤ d ∧ d ≤ D ∧ -1 ≤ hh ∧ hh ≤ 48 ∧ -1 ≤ mm ∧ mm ≤ 120 ∧ -122 ≤ ss ∧ ss ≤ 122 ∧
      86400 * d + 3600 * hh + 60 * mm + ss = 86400 * D + T := by
  have hu := u_val
  have he0 := eta_nonneg
  have he1 := eta_le_u
  have t0 : (0 : ℚ) ≤ T := by exact_mod_cast hT.1
  have t1 : (T : ℚ) ≤ 86399 := by
    have : T ≤ 86399 := by omega
    exact_mod_cast this
  have d0 : (0 : ℚ) ≤ D := by exact_mod_cast hD.1
  have d1 : (D : ℚ) ≤ 2958465 := by exact_mod_cast hD.2
  obtain ⟨x1, x2⟩ := abs_le.1 he
  unfold eps0 at x1 x2
  -- days
  obtain ⟨fd, vd⟩ := h.floor_exact ts fts
  have fl1 : ((⌊val ts⌋ : ℤ) : ℚ) ≤ val ts := Int.floor_le _
  have fl2 : val ts < ((⌊val ts⌋ : ℤ) : ℚ) + 1 := Int.lt_floor_add_one _
  obtain ⟨d, hd⟩ : ∃ d : ℤ, ⌊val ts⌋ = d := ⟨_, rfl⟩
  rw [hd] at vd fl1 fl2
  -- part of day
  have hp0 : |val ts - val (floor ts)| ≤ 1 := by rw [vd]; exact abs_le.2 ⟨by linarith, by linarith⟩
  obtain ⟨fp0, ep0⟩ := sub_abs h fts fd hp0 (le_big _ (by norm_num))
  rw [vd] at ep0
  obtain ⟨p01, p02⟩ := abs_le.1 ep0
  -- × 24
  obtain ⟨f24, v24⟩ := ofInt_ok h 24 (by norm_num) (by norm_num)
  have v24' : val (ofInt 24 : F) = 24 := by rw [v24]; norm_num
  have ha1 : |val (sub ts (floor ts)) * val (ofInt 24 : F)| ≤ 48 := by
    rw [v24']; exact abs_le.2 ⟨by linarith, by linarith⟩
  obtain ⟨fa1, ea1⟩ := mul_abs h fp0 f24 ha1 (le_big _ (by norm_num))
  rw [v24'] at ea1
  obtain ⟨a11, a12⟩ := abs_le.1 ea1
  -- hours
  obtain ⟨fh, vh⟩ := h.floor_exact _ fa1
  have fh1 := Int.floor_le (val (mul (sub ts (floor ts)) (ofInt 24 : F)))
  have fh2 := Int.lt_floor_add_one (val (mul (sub ts (floor ts)) (ofInt 24 : F)))
  obtain ⟨hh, hhd⟩ : ∃ k : ℤ, ⌊val (mul (sub ts (floor ts)) (ofInt 24 : F))⌋ = k := ⟨_, rfl⟩
  rw [hhd] at vh fh1 fh2
  have hp1 : |val (mul (sub ts (floor ts)) (ofInt 24 : F)) -
      val (floor (mul (sub ts (floor ts)) (ofInt 24 : F)))| ≤ 1 := by
    rw [vh]; exact abs_le.2 ⟨by linarith, by linarith⟩
  obtain ⟨fp1, ep1⟩ := sub_abs h fa1 fh hp1 (le_big _ (by norm_num))
  rw [vh] at ep1
  obtain ⟨p11, p12⟩ := abs_le.1 ep1
  -- × 60
  obtain ⟨f60, v60⟩ := ofInt_ok h 60 (by norm_num) (by norm_num)
  have v60' : val (ofInt 60 : F) = 60 := by rw [v60]; norm_num
  obtain ⟨P1, hP1⟩ : ∃ p : F, sub (mul (sub ts (floor ts)) (ofInt 24 : F))
      (floor (mul (sub ts (floor ts)) (ofInt 24 : F))) = p := ⟨_, rfl⟩
  rw [hP1] at fp1 ep1 p11 p12
  have ha2 : |val P1 * val (ofInt 60 : F)| ≤ 120 := by
    rw [v60']; exact abs_le.2 ⟨by linarith, by linarith⟩
  obtain ⟨fa2, ea2⟩ := mul_abs h fp1 f60 ha2 (le_big _ (by norm_num))
  rw [v60'] at ea2
  obtain ⟨a21, a22⟩ := abs_le.1 ea2
  -- minutes
  obtain ⟨fm, vm⟩ := h.floor_exact _ fa2
  have fm1 := Int.floor_le (val (mul P1 (ofInt 60 : F)))
  have fm2 := Int.lt_floor_add_one (val (mul P1 (ofInt 60 : F)))
  obtain ⟨mm, hmd⟩ : ∃ k : ℤ, ⌊val (mul P1 (ofInt 60 : F))⌋ = k := ⟨_, rfl⟩
  rw [hmd] at vm fm1 fm2
  have hp2 : |val (mul P1 (ofInt 60 : F)) - val (floor (mul P1 (ofInt 60 : F)))| ≤ 1 := by
    rw [vm]; exact abs_le.2 ⟨by linarith, by linarith⟩
  obtain ⟨fp2, ep2⟩ := sub_abs h fa2 fm hp2 (le_big _ (by norm_num))
  rw [vm] at ep2
  obtain ⟨p21, p22⟩ := abs_le.1 ep2
  obtain ⟨P2, hP2⟩ : ∃ p : F, sub (mul P1 (ofInt 60 : F)) (floor (mul P1 (ofInt 60 : F))) = p := ⟨_, rfl⟩
  rw [hP2] at fp2 ep2 p21 p22
  -- × 60, seconds
  have ha3 : |val P2 * val (ofInt 60 : F)| ≤ 120 := by
    rw [v60']; exact abs_le.2 ⟨by linarith, by linarith⟩
  obtain ⟨fa3, ea3⟩ := mul_abs h fp2 f60 ha3 (le_big _ (by norm_num))
  rw [v60'] at ea3
  obtain ⟨a31, a32⟩ := abs_le.1 ea3
  obtain ⟨fs, vs⟩ := h.round_exact _ fa3
  have hN : ratRound (val (mul P2 (ofInt 60 : F))) = 86400 * (D - d) + T - 3600 * hh - 60 * mm := by
    apply ratRound_eq
    push_cast
    exact abs_lt.2 ⟨by linarith, by linarith⟩
  rw [hN] at vs
  -- `as i64`
  have i1 : toInt (floor ts) = d := by
    rw [h.toInt_exact _ fd (by rw [vd]; exact abs_le.2 ⟨by norm_num; linarith, by norm_num; linarith⟩), vd]
    exact ratTrunc_int d
  have i2 : toInt (floor (mul (sub ts (floor ts)) (ofInt 24 : F))) = hh := by
    rw [h.toInt_exact _ fh (by rw [vh]; exact abs_le.2 ⟨by norm_num; linarith, by norm_num; linarith⟩), vh]
    exact ratTrunc_int hh
  have i3 : toInt (floor (mul P1 (ofInt 60 : F))) = mm := by
    rw [h.toInt_exact _ fm (by rw [vm]; exact abs_le.2 ⟨by norm_num; linarith, by norm_num; linarith⟩), vm]
    exact ratTrunc_int mm
  have i4 : toInt (round (mul P2 (ofInt 60 : F))) = 86400 * (D - d) + T - 3600 * hh - 60 * mm := by
    rw [h.toInt_exact _ fs (by
      rw [vs]; push_cast; exact abs_le.2 ⟨by norm_num; linarith, by norm_num; linarith⟩), vs]
    exact ratTrunc_int _
  -- integer bounds
  have bd1 : d < D + 1 := by
    have : (d : ℚ) < (D : ℚ) + 1 := by linarith
    exact_mod_cast this
  have bd2 : D - 2 < d := by
    have : (D : ℚ) - 2 < (d : ℚ) := by linarith
    exact_mod_cast this
  have bh1 : hh < 49 := by
    have : (hh : ℚ) < 49 := by linarith
    exact_mod_cast this
  have bh2 : -2 < hh := by
    have : (-2 : ℚ) < (hh : ℚ) := by linarith
    exact_mod_cast this
  have bm1 : mm < 121 := by
    have : (mm : ℚ) < 121 := by linarith
    exact_mod_cast this
  have bm2 : -2 < mm := by
    have : (-2 : ℚ) < (mm : ℚ) := by linarith
    exact_mod_cast this
  have bs1 : 86400 * (D - d) + T - 3600 * hh - 60 * mm < 123 := by
    have : ((86400 * (D - d) + T - 3600 * hh - 60 * mm : ℤ) : ℚ) < 123 := by push_cast; linarith
    exact_mod_cast this
  have bs2 : -123 < 86400 * (D - d) + T - 3600 * hh - 60 * mm := by
    have : (-123 : ℚ) < ((86400 * (D - d) + T - 3600 * hh - 60 * mm : ℤ) : ℚ) := by push_cast; linarith
    exact_mod_cast this
  subst hP2
  subst hP1
  exact ⟨d, hh, mm, 86400 * (D - d) + T - 3600 * hh - 60 * mm, i1, i2, i3, i4,
    by omega, by omega, by omega, by omega, by omega, by omega, by omega, by omega, by ring⟩

/-- the day/time split of `excel_to_date_time_object` on any finite float within `eps0` of
    `D + T/86400` yields exactly `D` days and `T` seconds after the base date -/
theorem split_err (h : StdModel F val fin) (ts : F) (fts : fin ts) (D T : ℤ)
    (hD : 0 ≤ D ∧ D ≤ 2958465) (hT : 0 ≤ T ∧ T < 86400)
    (he : |val ts - ((D : ℚ) + (T : ℚ) / 86400)| ≤ eps0) (base : ℤ) :
    splitSeconds ts base = (base + D) * 86400 + T := by
  obtain ⟨d, hh, mm, ss, i1, i2, i3, i4, _, _, _, _, _, _, _, _, hsum⟩ := split_parts h ts fts D T hD hT he
  rw [splitSeconds_parts, i1, i2, i3, i4]
  linarith

/-- the same through the checked sum of `excel_to_date_time_object_checked`: every `try_*` and every
    `checked_add_signed` succeeds (the partial sums stay within a few days of 1899-12-30 + `D`) -/
theorem split_checked (h : StdModel F val fin) (ts : F) (fts : fin ts) (D T : ℤ)
    (hD : 0 ≤ D ∧ D ≤ 2958465) (hT : 0 ≤ T ∧ T < 86400)
    (he : |val ts - ((D : ℚ) + (T : ℚ) / 86400)| ≤ eps0) :
    excelToEpochSecondsChecked ts = some ((baseFor ts + D) * 86400 + T) := by
  obtain ⟨d, hh, mm, ss, i1, i2, i3, i4, b1, b2, b3, b4, b5, b6, b7, b8, hsum⟩ :=
    split_parts h ts fts D T hD hT he
  rw [checked_parts, i1, i2, i3, i4]
  have hb : -25569 ≤ baseFor ts ∧ baseFor ts ≤ 0 := baseFor_range ts
  rw [checked_of_parts (baseFor ts) d hh mm ss hb ⟨by omega, by omega⟩ ⟨b3, b4⟩ ⟨b5, b6⟩ ⟨b7, b8⟩]
  congr 1
  linarith

/-- 1900-01-01T00:00:00 under correct rounding: `fl(1 + fl(0/86400))` is exactly `1` -/
theorem serial_one_exact (h : StdModel F val fin) (hx : ExactRepr F val fin) :
    fin (serialOf F 1 0) ∧ val (serialOf F 1 0) = 1 := by
  obtain ⟨f0, v0⟩ := ofInt_ok h 0 (by norm_num) (by norm_num)
  obtain ⟨fK, vK⟩ := ofInt_ok h 86400 (by norm_num) (by norm_num)
  obtain ⟨f1, v1⟩ := ofInt_ok h 1 (by norm_num) (by norm_num)
  have vK' : val (ofInt 86400 : F) = 86400 := by rw [vK]; norm_num
  have v0' : val (ofInt 0 : F) = 0 := by rw [v0]; norm_num
  have v1' : val (ofInt 1 : F) = 1 := by rw [v1]; norm_num
  have hq : |val (ofInt 0 : F) / val (ofInt 86400 : F)| ≤ 1 := by rw [v0', vK']; norm_num
  obtain ⟨fq, _⟩ := div_abs h f0 fK (by rw [vK']; norm_num) hq (le_big _ (by norm_num))
  have eq : val (div (ofInt 0 : F) (ofInt 86400)) = val (ofInt 0 : F) :=
    hx.div_exact _ _ _ f0 fK f0 (by rw [vK']; norm_num) (by rw [v0', vK']; norm_num)
  have hs : |val (ofInt 1 : F) + val (div (ofInt 0 : F) (ofInt 86400))| ≤ 1 := by
    rw [eq, v0', v1']; norm_num
  obtain ⟨fs, _⟩ := add_abs h f1 fq hs (le_big _ (by norm_num))
  refine ⟨fs, ?_⟩
  unfold serialOf
  rw [hx.add_exact _ _ (ofInt 1) f1 fq f1 (by rw [eq, v0']; ring), v1']

/-- the base date chosen by the two comparisons, for a finite float within `eps0` of `D + T/86400`
    whose value is not below `1` -/
theorem baseFor_near (h : StdModel F val fin) (ts : F) (fts : fin ts) (D T : ℤ)
    (hD : 1 ≤ D ∧ D ≤ 2958465) (hD60 : D ≠ 60) (hT : 0 ≤ T ∧ T < 86400)
    (he : |val ts - ((D : ℚ) + (T : ℚ) / 86400)| ≤ eps0) (h1 : 1 ≤ val ts) :
    baseFor ts = if D < 60 then base18991231 else base18991230 := by
  obtain ⟨f1, v1⟩ := ofInt_ok h 1 (by norm_num) (by norm_num)
  obtain ⟨f60, v60⟩ := ofInt_ok h 60 (by norm_num) (by norm_num)
  have v1' : val (ofInt 1 : F) = 1 := by rw [v1]; norm_num
  have v60' : val (ofInt 60 : F) = 60 := by rw [v60]; norm_num
  have hu := u_val
  have t0 : (0 : ℚ) ≤ T := by exact_mod_cast hT.1
  have t1 : (T : ℚ) ≤ 86399 := by
    have : T ≤ 86399 := by omega
    exact_mod_cast this
  obtain ⟨x1, x2⟩ := abs_le.1 he
  unfold eps0 at x1 x2
  unfold baseFor
  rw [if_neg (by rw [h.lt_exact _ _ fts f1, v1']; linarith)]
  by_cases hlt : D < 60
  · have : (D : ℚ) ≤ 59 := by
      have : D ≤ 59 := by omega
      exact_mod_cast this
    rw [if_pos (by rw [h.lt_exact _ _ fts f60, v60']; linarith), if_pos hlt]
  · have : (61 : ℚ) ≤ D := by
      have : 61 ≤ D := by omega
      exact_mod_cast this
    rw [if_neg (by rw [h.lt_exact _ _ fts f60, v60']; linarith), if_neg hlt]

/-- the serial of `convert_date_crate` is a finite float within `eps0` of `D + T/86400` and not below `1`
    (at `D = 1, T = 0` this needs correct rounding) -/
theorem serial_near (h : StdModel F val fin) (D T : ℤ) (hD : 1 ≤ D ∧ D ≤ 2958465)
    (hT : 0 ≤ T ∧ T < 86400) (hx : ExactRepr F val fin ∨ ¬ (D = 1 ∧ T = 0)) :
    fin (serialOf F D T) ∧ |val (serialOf F D T) - ((D : ℚ) + (T : ℚ) / 86400)| ≤ eps0 ∧
      1 ≤ val (serialOf F D T) := by
  have hu := u_val
  by_cases h10 : D = 1 ∧ T = 0
  · obtain ⟨rfl, rfl⟩ := h10
    rcases hx with hx | hx
    · obtain ⟨f, v⟩ := serial_one_exact h hx
      refine ⟨f, ?_, by rw [v]⟩
      rw [v]; unfold eps0; norm_num; linarith
    · exact absurd ⟨rfl, rfl⟩ hx
  · obtain ⟨f, e⟩ := serial_err h D T ⟨by omega, hD.2⟩ hT
    refine ⟨f, e, ?_⟩
    obtain ⟨x1, x2⟩ := abs_le.1 e
    unfold eps0 at x1 x2
    have t0 : (0 : ℚ) ≤ T := by exact_mod_cast hT.1
    by_cases hD1 : D = 1
    · subst hD1
      have : (1 : ℚ) ≤ T := by
        have : 1 ≤ T := by omega
        exact_mod_cast this
      push_cast at x1
      linarith
    · have : (2 : ℚ) ≤ D := by
        have : 2 ≤ D := by omega
        exact_mod_cast this
      linarith

/-- two serials in calendar order: the later one is the larger float -/
theorem serial_lt (h : StdModel F val fin) (D T D' T' : ℤ) (hD : 0 ≤ D ∧ D ≤ 2958465)
    (hT : 0 ≤ T ∧ T < 86400) (hD' : 0 ≤ D' ∧ D' ≤ 2958465) (hT' : 0 ≤ T' ∧ T' < 86400)
    (hlt : 86400 * D + T < 86400 * D' + T') :
    val (serialOf F D T) < val (serialOf F D' T') := by
  obtain ⟨_, e⟩ := serial_err h D T hD hT
  obtain ⟨_, e'⟩ := serial_err h D' T' hD' hT'
  obtain ⟨x1, x2⟩ := abs_le.1 e
  obtain ⟨y1, y2⟩ := abs_le.1 e'
  unfold eps0 at x1 x2 y1 y2
  have hu := u_val
  have k : (86400 : ℚ) * D + T + 1 ≤ 86400 * D' + T' := by
    have : 86400 * D + T + 1 ≤ 86400 * D' + T' := by omega
    exact_mod_cast this
  linarith

end chain

end Umya.Lemmas.FloatStd
