/-
  (T) translator, part 3 — `src/helper/crypt.rs`: `convert_password_to_hash` and the three `encrypt_*_protection` setters as compiled
  from the source on this run are the hand model's (`Umya/Model/PwHash.lean`), for all arguments.

  Representations: the compiled `hash` (externs: the `Sha512` hasher as the bytes fed so far, `finalize` = `P.sha512`) is `hashOf P` by
  `gen_hash` (SHA-512 of the concatenation for the two accepted algorithm names, `Err` otherwise; every caller unwraps, so `Err` =
  `none` = panic); base64 is `P.b64`; the k-th `gen_random_16()` of a function is
  `draw k`; the protection object is `rt_Obj` (its `StringValue` / `UInt32Value` fields by name; which field a setter writes is read by
  the translator from `src/structs/sheet_protection.rs` / `workbook_protection.rs`); `sheetView` / `workbookView` read the model's
  records out of it.
-/
import Umya.Lemmas.FnsGenCryptBuf
import Umya.Model.PwHash
namespace Umya.Gen
open Umya.Crypto Umya.PwHash
set_option linter.unusedSimpArgs false

/-- normal form of the byte-buffer programs: binds of `some`, list algebra, folds as `flatMap` / `foldl`, the helpers as list functions -/
macro "crypt_norm" : tactic => `(tactic| simp only [Option.bind_eq_bind, Option.bind_some, Option.bind_none, Option.bind_fun_some,
  rt_u16_le_bytes, rt_index_zero, rt_index_one, rt_index_succ, List.append_assoc, List.cons_append, List.nil_append, List.append_nil,
  rt_foldlM_some, foldl_append_flatMap, foldl_append_flatten, List.flatMap_id', utf16le_gen,
  gen_le32_none, gen_le32_some8, le32_mod, gen_buffer_alloc, gen_buffer_concat, gen_buffer_copy, gen_buffer_slice,
  List.flatten_cons, List.flatten_nil])

/-- `convert_password_to_hash(password, algorithm, salt, spin)` for ALL arguments: the model's hash for the two algorithm names `hash`
    accepts, a panic (`unwrap` of `Err`) for any other -/
theorem gen_convert_password_to_hash (P : Prims) (pw alg : List Char) (salt : Bytes) (spin : Nat) :
    crypt_convert_password_to_hash P.sha512 [] shaUpd pw alg salt spin =
      if algOk alg then some (convertPasswordToHash P pw salt spin) else none := by
  gen_unfold_crypt_convert_password_to_hash
  simp only [gen_hash]
  by_cases h : algOk alg
  · simp only [hashOf_ok P alg _ h, if_pos h]
    crypt_norm
    simp only [convertPasswordToHash, spinLoop_eq_foldl]
  · simp only [hashOf_bad P alg _ h, if_neg h]
    crypt_norm

/-! ## the setters -/

/-- the model's five password fields of one kind, read out of the object by field name -/
def pwView (o : rt_Obj) (alg hash salt spin pw : String) : PwFields :=
  { algorithmName := o.str alg, hashValue := o.str hash, saltValue := o.str salt, spinCount := o.u32 spin, password := o.str pw }

def sheetView (o : rt_Obj) : SheetProtection :=
  { pw := pwView o "algorithm_name" "hash_value" "salt_value" "spin_count" "password" }

def workbookView (o : rt_Obj) : WorkbookProtection :=
  { workbook := pwView o "workbook_algorithm_name" "workbook_hash_value" "workbook_salt_value" "workbook_spin_count" "workbook_password"
    revisions := pwView o "revisions_algorithm_name" "revisions_hash_value" "revisions_salt_value" "revisions_spin_count" "revisions_password" }

/-- the fields of the object outside a set of names are unchanged -/
def sameOutside (names : List String) (o o' : rt_Obj) : Prop :=
  (∀ f, f ∉ names → o'.str f = o.str f) ∧ (∀ f, f ∉ names → o'.u32 f = o.u32 f)

macro "setter_proof" : tactic => `(tactic| (
  simp only [gen_convert_password_to_hash, if_pos algOk_sha_512, Option.bind_eq_bind, Option.bind_some]
  refine ⟨_, rfl, ?_, ?_⟩
  · simp [sheetView, workbookView, pwView, rt_Obj.setStr, rt_Obj.setU32, rt_Obj.removeStr, rt_Obj.removeU32, setSheetPassword,
      setWorkbookPassword, setRevisionsPassword, setPasswordFields, algName, spinCountConst]
  · constructor <;> intro f hf <;> simp only [List.mem_cons, List.not_mem_nil, or_false, not_or] at hf <;>
      simp [rt_Obj.setStr, rt_Obj.setU32, rt_Obj.removeStr, rt_Obj.removeU32, hf]))

theorem gen_encrypt_sheet_protection (P : Prims) (draw : Nat → Bytes) (pw : List Char) (o : rt_Obj) :
    ∃ o', crypt_encrypt_sheet_protection P.b64 draw P.sha512 [] shaUpd pw o = some o' ∧
      sheetView o' = setSheetPassword P pw (draw 0) (sheetView o) ∧
      sameOutside ["algorithm_name", "hash_value", "salt_value", "spin_count", "password"] o o' := by
  gen_unfold_crypt_encrypt_sheet_protection
  setter_proof

theorem gen_encrypt_workbook_protection (P : Prims) (draw : Nat → Bytes) (pw : List Char) (o : rt_Obj) :
    ∃ o', crypt_encrypt_workbook_protection P.b64 draw P.sha512 [] shaUpd pw o = some o' ∧
      workbookView o' = setWorkbookPassword P pw (draw 0) (workbookView o) ∧
      sameOutside ["workbook_algorithm_name", "workbook_hash_value", "workbook_salt_value", "workbook_spin_count", "workbook_password"] o o' := by
  gen_unfold_crypt_encrypt_workbook_protection
  setter_proof

theorem gen_encrypt_revisions_protection (P : Prims) (draw : Nat → Bytes) (pw : List Char) (o : rt_Obj) :
    ∃ o', crypt_encrypt_revisions_protection P.b64 draw P.sha512 [] shaUpd pw o = some o' ∧
      workbookView o' = setRevisionsPassword P pw (draw 0) (workbookView o) ∧
      sameOutside ["revisions_algorithm_name", "revisions_hash_value", "revisions_salt_value", "revisions_spin_count", "revisions_password"] o o' := by
  gen_unfold_crypt_encrypt_revisions_protection
  setter_proof

end Umya.Gen
