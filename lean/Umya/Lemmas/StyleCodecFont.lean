/-
  Font: `Font::set_attributes (Font::write_to f) = norm f`, `norm` idempotent and invisible through the getters.
-/
import Umya.Lemmas.StyleCodec
namespace Umya.StyleCodec
open Umya.Spec.Xml (Node Attr)
open Umya.Dec

theorem Color.write_fold {α : Type} (cf : Tok → Tok) (tag : String) (c : Color) (h : c.Range cf)
    (step : α → Node → Option α) (acc : α) (set : α → Color → α)
    (hstep : ∀ as, step acc (mkEl tag as []) = (Color.readInto cf {} as).map (set acc))
    (hset : c.attrs = [] → set acc {} = acc) :
    foldOpt step (c.write tag) acc = some (set acc c.norm) := by
  unfold Color.write
  by_cases he : c.attrs = []
  · simp [he, Color.attrs_empty_norm c he, hset he]
  · have : c.attrs.isEmpty = false := by cases hc : c.attrs <;> simp_all
    simp [this, hstep, Color.read_attrs cf c h]

@[simp] theorem children_mkEl (n : String) (as : List Attr) (cs : List Node) : (mkEl n as cs).children = cs := rfl
@[simp] theorem attrs_mkEl (n : String) (as : List Attr) (cs : List Node) : (mkEl n as cs).attrs = as := rfl

section FontSeg
variable (cf : Tok → Tok)

theorem Font.seg_bold (b : Option Bool) (acc : Font) :
    foldOpt (Font.step cf) (if b.getD false then [mkEl "b" [] []] else []) acc =
      some { acc with bold := if b.getD false then some true else acc.bold } := by
  cases h : b.getD false <;> simp [Font.step, mkEl, boolAttr]

theorem Font.seg_italic (b : Option Bool) (acc : Font) :
    foldOpt (Font.step cf) (if b.getD false then [mkEl "i" [] []] else []) acc =
      some { acc with italic := if b.getD false then some true else acc.italic } := by
  cases h : b.getD false <;> simp [Font.step, mkEl, boolAttr]

theorem Font.seg_underline (u : Option Underline) (acc : Font) :
    foldOpt (Font.step cf)
      (optEl u (fun u => mkEl "u" (if u.toStr = Underline.single.toStr then [] else [mkAttr "val" u.toStr.toList]) [])) acc =
      some { acc with underline := match u with | some v => some v | none => acc.underline } := by
  cases u with
  | none => simp [optEl]
  | some v => cases v <;> simp [optEl, Font.step, mkEl, mkAttr, enumAttr, getAttr, Underline.toStr, Underline.fromStr, fromStrIn, Underline.fromTable]

theorem Font.seg_strike (b : Option Bool) (acc : Font) :
    foldOpt (Font.step cf) (optEl b (fun b => mkEl "strike" (if b then [] else [mkAttr "val" (boolStr b)]) [])) acc =
      some { acc with strike := match b with | some v => some v | none => acc.strike } := by
  cases b with
  | none => simp [optEl]
  | some v => cases v <;> simp [optEl, Font.step, mkEl, mkAttr, boolAttr, getAttr, boolStr, boolOf]

theorem Font.seg_vert (u : Option VertRun) (acc : Font) :
    foldOpt (Font.step cf) (optEl u (fun v => mkEl "vertAlign" [mkAttr "val" v.toStr.toList] [])) acc =
      some { acc with vertAlign := match u with | some v => some v | none => acc.vertAlign } := by
  cases u with
  | none => simp [optEl]
  | some v => cases v <;> simp [optEl, Font.step, mkEl, mkAttr, enumAttr, getAttr, VertRun.toStr, VertRun.fromStr, fromStrIn, VertRun.fromTable]

theorem Font.seg_size (s : Option Tok) (hs : ∀ t, s = some t → cf t = t) (acc : Font) :
    foldOpt (Font.step cf) (optEl s (fun s => mkEl "sz" [mkAttr "val" s] [])) acc =
      some { acc with size := match s with | some v => some v | none => acc.size } := by
  cases s with
  | none => simp [optEl]
  | some v => simp [optEl, Font.step, mkEl, mkAttr, getAttr, hs v rfl]

theorem Font.seg_name (s : Option Tok) (acc : Font) :
    foldOpt (Font.step cf) (optEl s (fun s => mkEl "name" [mkAttr "val" s] [])) acc =
      some { acc with name := match s with | some v => some v | none => acc.name } := by
  cases s with
  | none => simp [optEl]
  | some v => simp [optEl, Font.step, mkEl, mkAttr, getAttr]

theorem Font.seg_family (s : Option Int) (hs : ∀ z, s = some z → i32Range z) (acc : Font) :
    foldOpt (Font.step cf) (optEl s (fun z => mkEl "family" [mkAttr "val" (i32Str z)] [])) acc =
      some { acc with family := match s with | some v => some v | none => acc.family } := by
  cases s with
  | none => simp [optEl]
  | some v => simp [optEl, Font.step, mkEl, mkAttr, getAttr, i32Of_i32Str v (hs v rfl)]

theorem Font.seg_charset (s : Option Int) (hs : ∀ z, s = some z → i32Range z) (acc : Font) :
    foldOpt (Font.step cf) (optEl s (fun z => mkEl "charset" [mkAttr "val" (i32Str z)] [])) acc =
      some { acc with charset := match s with | some v => some v | none => acc.charset } := by
  cases s with
  | none => simp [optEl]
  | some v => simp [optEl, Font.step, mkEl, mkAttr, getAttr, i32Of_i32Str v (hs v rfl)]

theorem Font.seg_scheme (u : Option FontScheme) (acc : Font) :
    foldOpt (Font.step cf) (optEl u (fun v => mkEl "scheme" [mkAttr "val" v.toStr.toList] [])) acc =
      some { acc with scheme := match u with | some v => some v | none => acc.scheme } := by
  cases u with
  | none => simp [optEl]
  | some v => cases v <;> simp [optEl, Font.step, mkEl, mkAttr, enumAttr, getAttr, FontScheme.toStr, FontScheme.fromStr, fromStrIn, FontScheme.fromTable]

theorem Font.seg_color (c : Color) (h : c.Range cf) (acc : Font) (hacc : acc.color = {}) :
    foldOpt (Font.step cf) (c.write "color") acc = some { acc with color := c.norm } := by
  apply Color.write_fold cf "color" c h (Font.step cf) acc (fun a c => { a with color := c })
  · intro as
    simp [Font.step, mkEl, hacc]
  · intro _; rw [← hacc]


theorem Font.read_write (f : Font) (h : f.Range cf) : Font.read cf f.write = some f.norm := by
  obtain ⟨hsz, hfam, hcs, hcol⟩ := h
  simp only [Font.read, Font.write, children_mkEl, Font.kids, List.append_assoc]
  rw [foldOpt_append, Font.seg_bold]; simp only [Option.bind_some]
  rw [foldOpt_append, Font.seg_italic]; simp only [Option.bind_some]
  rw [foldOpt_append, Font.seg_underline]; simp only [Option.bind_some]
  rw [foldOpt_append, Font.seg_strike]; simp only [Option.bind_some]
  rw [foldOpt_append, Font.seg_vert]; simp only [Option.bind_some]
  rw [foldOpt_append, Font.seg_size cf _ hsz]; simp only [Option.bind_some]
  rw [foldOpt_append, Font.seg_color cf _ hcol _ rfl]; simp only [Option.bind_some]
  rw [foldOpt_append, Font.seg_name]; simp only [Option.bind_some]
  rw [foldOpt_append, Font.seg_family cf _ hfam]; simp only [Option.bind_some]
  rw [foldOpt_append, Font.seg_charset cf _ hcs]; simp only [Option.bind_some]
  rw [Font.seg_scheme]
  obtain ⟨name, size, family, bold, italic, underline, strike, color, charset, scheme, vertAlign⟩ := f
  cases name <;> cases size <;> cases family <;> cases underline <;> cases strike <;> cases charset <;>
    cases scheme <;> cases vertAlign <;> simp [Font.norm, normFlag]

end FontSeg

theorem normFlag_idem (b : Option Bool) : normFlag (normFlag b) = normFlag b := by
  cases b with
  | none => rfl
  | some v => cases v <;> rfl

theorem normFlag_getD (b : Option Bool) : (normFlag b).getD false = b.getD false := by
  cases b with
  | none => rfl
  | some v => cases v <;> rfl

theorem Font.norm_idem (f : Font) : f.norm.norm = f.norm := by
  simp [Font.norm, normFlag_idem, Color.norm_idem]

theorem Font.norm_range (cf : Tok → Tok) (f : Font) (h : f.Range cf) : f.norm.Range cf := by
  obtain ⟨h1, h2, h3, h4⟩ := h
  exact ⟨h1, h2, h3, Color.norm_range cf _ h4⟩

theorem Font.eff_norm (f : Font) (h : f.color.OneForm = true) : f.norm.eff = f.eff := by
  simp [Font.norm, Font.eff, normFlag_getD, Color.norm_of_oneForm _ h]

end Umya.StyleCodec
