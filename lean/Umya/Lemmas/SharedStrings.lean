import Umya.Model.SharedStrings
namespace Umya.Sst

theorem indexOf?_some {x : Text} {t : Table} {i : Nat} (h : indexOf? x t = some i) : t[i]? = some x := by
  induction t generalizing i with
  | nil => simp [indexOf?] at h
  | cons y ys ih =>
    simp only [indexOf?] at h
    split at h
    · rename_i e; injection h with h; subst h; simp [e]
    · cases hi : indexOf? x ys with
      | none => rw [hi] at h; simp at h
      | some j =>
        rw [hi] at h; simp at h; subst h
        simp [ih hi]

theorem indexOf?_none {x : Text} {t : Table} : indexOf? x t = none ↔ x ∉ t := by
  induction t with
  | nil => simp [indexOf?]
  | cons y ys ih =>
    simp only [indexOf?, List.mem_cons]
    split
    · rename_i e; simp [e]
    · rename_i e
      constructor
      · intro h
        have : indexOf? x ys = none := by
          cases hi : indexOf? x ys with
          | none => rfl
          | some j => rw [hi] at h; simp at h
        rintro (h' | h')
        · exact e h'.symm
        · exact ih.1 this h'
      · intro h
        have := ih.2 (fun h' => h (Or.inr h'))
        simp [this]

theorem getElem?_append_left' {t ext : Table} {i : Nat} {x : Text} (h : t[i]? = some x) : (t ++ ext)[i]? = some x := by
  have hi : i < t.length := by
    rcases Nat.lt_or_ge i t.length with h1 | h1
    · exact h1
    · rw [List.getElem?_eq_none h1] at h; simp at h
  rw [List.getElem?_append_left hi]; exact h

/-- registration appends at most one entry, never moves an existing one, and the index it returns
    resolves to the registered string -/
theorem intern_spec (t : Table) (x : Text) :
    (∃ ext, (intern t x).1 = t ++ ext ∧ (∀ y ∈ ext, y = x ∧ x ∉ t)) ∧ (intern t x).1[(intern t x).2]? = some x := by
  unfold intern
  cases h : indexOf? x t with
  | some i => exact ⟨⟨[], by simp, by simp⟩, indexOf?_some h⟩
  | none =>
    refine ⟨⟨[x], rfl, ?_⟩, by simp⟩
    intro y hy; simp at hy; exact ⟨hy, indexOf?_none.1 h⟩

theorem intern_nodup (t : Table) (x : Text) (h : t.Nodup) : (intern t x).1.Nodup := by
  unfold intern
  cases hi : indexOf? x t with
  | some i => exact h
  | none =>
    simp only
    rw [List.nodup_append]
    refine ⟨h, by simp, ?_⟩
    intro a ha b hb; simp at hb; subst hb
    intro e; subst e; exact indexOf?_none.1 hi ha

theorem intern_mem (t : Table) (x y : Text) : y ∈ (intern t x).1 ↔ y ∈ t ∨ y = x := by
  unfold intern
  cases hi : indexOf? x t with
  | some i =>
    simp only
    constructor
    · intro h; exact Or.inl h
    · rintro (h | h)
      · exact h
      · subst h
        have := indexOf?_some hi
        exact List.mem_of_getElem? this
  | none => simp

/-- registering a list of strings: the table grows by appending, stays duplicate-free, contains exactly
    the old entries and the registered strings, and every index handed out resolves (in the final
    table) to the string it was handed out for -/
theorem internAll_spec (t : Table) (xs : List Text) :
    (∃ ext, (internAll t xs).1 = t ++ ext ∧ (∀ y ∈ ext, y ∈ xs ∧ y ∉ t)) ∧
    (t.Nodup → (internAll t xs).1.Nodup) ∧
    (∀ y, y ∈ (internAll t xs).1 ↔ y ∈ t ∨ y ∈ xs) ∧
    (internAll t xs).2.length = xs.length ∧
    (∀ (j : Nat) (x : Text), xs[j]? = some x → ∃ i : Nat, (internAll t xs).2[j]? = some i ∧ (internAll t xs).1[i]? = some x) := by
  induction xs generalizing t with
  | nil => simp [internAll]
  | cons x xs ih =>
    obtain ⟨⟨e1, he1, hn1⟩, hget1⟩ := intern_spec t x
    obtain ⟨⟨e2, he2, hn2⟩, hnd2, hmem2, hlen2, hres2⟩ := ih (intern t x).1
    simp only [internAll]
    refine ⟨⟨e1 ++ e2, by rw [he2, he1, List.append_assoc], ?_⟩, ?_, ?_, by simp [hlen2], ?_⟩
    · intro y hy
      rcases List.mem_append.1 hy with hy | hy
      · have := hn1 y hy; exact ⟨by simp [this.1], by rw [this.1]; exact this.2⟩
      · have := hn2 y hy
        refine ⟨List.mem_cons_of_mem _ this.1, ?_⟩
        intro hyt; apply this.2; rw [he1]; exact List.mem_append_left _ hyt
    · intro hnd; exact hnd2 (intern_nodup t x hnd)
    · intro y
      rw [hmem2, intern_mem]
      simp only [List.mem_cons]
      constructor
      · rintro ((h | h) | h) <;> simp [h]
      · rintro (h | h | h) <;> simp [h]
    · intro j y hj
      cases j with
      | zero =>
        simp at hj; subst hj
        refine ⟨(intern t x).2, by simp, ?_⟩
        rw [he2]; exact getElem?_append_left' hget1
      | succ j =>
        simp at hj
        obtain ⟨i, hi1, hi2⟩ := hres2 j y hj
        exact ⟨i, by simpa using hi1, hi2⟩

end Umya.Sst
