/-
  C14 — from the CHARACTERS of the EncryptionInfo stream back to the descriptor record.

  * the bytes of the stream are the characters of the text (`bytes_chars`: every character of a plain descriptor's text
    is ASCII, `encryptionInfoXml_ascii`);
  * the writer-call tree `infoW i` is well formed (`infoW_wf`), so the XML 1.0 reader returns the element tree that was
    meant (`parse_infoW`, from `C02_bytes_parse`), which is `infoNode i`;
  * the walk of `Umya.Spec.Agile.infoOfTree` over `infoNode i` — namespace resolution from the `xmlns` declarations in
    scope, the `keyEncryptor` whose `uri` is the password namespace, each attribute by name, `natOf (decDigits n) = n` —
    returns `i` (`infoOfTree_infoNode`).
-/
import Umya.Lemmas.AgileInfoW
import Umya.Spec.Agile
import Umya.Thm.C02Bytes
namespace Umya.Crypt
open Umya.Agile Umya.XmlWrite Umya.XmlEsc Umya.Dec Umya.Crypto
open Umya.Spec.Xml (Attr Node isXmlChar)

/-- characters that survive the trip through a byte -/
def ascii (s : List Char) : Bool := s.all fun c => decide (c.toNat < 128)

theorem ascii_append (a b : List Char) : ascii (a ++ b) = (ascii a && ascii b) := by simp [ascii]

theorem ascii_of_plain (s : List Char) (h : plain s = true) : ascii s = true := by
  simp only [plain, ascii, List.all_eq_true, decide_eq_true_eq] at h ⊢
  intro c hc
  have := h c hc
  simp only [plainChar, Bool.and_eq_true, decide_eq_true_eq] at this
  omega

theorem bytes_chars (s : List Char) (h : ascii s = true) :
    (charsToBytes s).map (fun b => Char.ofNat b.toNat) = s := by
  induction s with
  | nil => rfl
  | cons c r ih =>
    simp only [ascii, List.all_cons, Bool.and_eq_true, decide_eq_true_eq] at h
    simp only [charsToBytes, List.map_cons, List.map_map] at ih ⊢
    have hr : ascii r = true := h.2
    rw [ih hr]
    congr 1
    have : (UInt8.ofNat c.toNat).toNat = c.toNat := by
      simp only [UInt8.toNat_ofNat']
      omega
    rw [this, Char.ofNat_toNat]

theorem attrText_ascii (p : List Char × List Char) (h1 : ascii p.1 = true) (h2 : ascii p.2 = true) :
    ascii (attrText p) = true := by
  simp only [attrText, ascii_append, h1, h2, Bool.and_true]
  decide

theorem attrs_ascii (l : List (List Char × List Char)) (h : ∀ p ∈ l, ascii p.1 = true ∧ ascii p.2 = true) :
    ascii (l.flatMap attrText) = true := by
  induction l with
  | nil => rfl
  | cons p r ih =>
    rw [List.flatMap_cons, ascii_append, attrText_ascii p (h p (List.mem_cons_self ..)).1 (h p (List.mem_cons_self ..)).2,
      ih (fun q hq => h q (List.mem_cons_of_mem _ hq))]
    rfl

theorem startTag_ascii (n : List Char) (l : List (List Char × List Char)) (e : Bool) (hn : ascii n = true)
    (h : ∀ p ∈ l, ascii p.1 = true ∧ ascii p.2 = true) : ascii (startTag n l e) = true := by
  simp only [startTag, ascii_append, hn, attrs_ascii l h, Bool.and_true]
  cases e <;> decide

theorem endTag_ascii (n : List Char) (hn : ascii n = true) : ascii (endTag n) = true := by
  simp only [endTag, ascii_append, hn, Bool.and_true]
  decide

def kdNames : List (List Char) :=
  ["saltSize".toList, "blockSize".toList, "keyBits".toList, "hashSize".toList, "cipherAlgorithm".toList,
   "cipherChaining".toList, "hashAlgorithm".toList, "saltValue".toList]

theorem keyDataAttrs_names (k : KeyData) : (keyDataAttrs k).map (·.1) = kdNames := rfl

theorem encryptedKeyAttrs_names (i : Info) : (encryptedKeyAttrs i).map (·.1) =
    ["spinCount".toList] ++ kdNames ++ ["encryptedVerifierHashInput".toList, "encryptedVerifierHashValue".toList,
      "encryptedKeyValue".toList] := rfl

theorem pairs_ascii (l : List (List Char × List Char)) (hn : (l.map (·.1)).all ascii = true)
    (hv : ∀ p ∈ l, plain p.2 = true) : ∀ p ∈ l, ascii p.1 = true ∧ ascii p.2 = true := by
  intro p hp
  simp only [List.all_eq_true, List.mem_map, forall_exists_index, and_imp, forall_apply_eq_imp_iff₂] at hn
  exact ⟨hn p hp, ascii_of_plain _ (hv p hp)⟩

theorem encryptionInfoXml_ascii (i : Info) (h : infoPlain i = true) : ascii (encryptionInfoXml i) = true := by
  have hp := h
  simp only [infoPlain, Bool.and_eq_true] at hp
  obtain ⟨⟨⟨⟨⟨⟨h1, h2⟩, h3⟩, h4⟩, h5⟩, h6⟩, h7⟩ := hp
  have t1 := startTag_ascii "encryption".toList
    [("xmlns".toList, encryptionNs), ("xmlns:p".toList, passwordNs), ("xmlns:c".toList, certificateNs)] false (by decide)
    (by intro p hp; simp only [List.mem_cons, List.not_mem_nil, or_false] at hp
        rcases hp with rfl | rfl | rfl
        · exact ⟨by decide, ascii_of_plain _ ns_plain.1⟩
        · exact ⟨by decide, ascii_of_plain _ ns_plain.2.1⟩
        · exact ⟨by decide, ascii_of_plain _ ns_plain.2.2⟩)
  have t2 := startTag_ascii "keyData".toList (keyDataAttrs i.keyData) true (by decide)
    (pairs_ascii _ (by rw [keyDataAttrs_names]; decide) (keyDataAttrs_plain _ h1))
  have t3 := startTag_ascii "dataIntegrity".toList
    [("encryptedHmacKey".toList, i.encryptedHmacKey), ("encryptedHmacValue".toList, i.encryptedHmacValue)] true (by decide)
    (pairs_ascii _ (by simp [ascii]) (by
      intro p hp; simp only [List.mem_cons, List.not_mem_nil, or_false] at hp
      rcases hp with rfl | rfl
      · exact h2
      · exact h3))
  have t4 := startTag_ascii "keyEncryptors".toList [] false (by decide) (by intro p hp; cases hp)
  have t5 := startTag_ascii "keyEncryptor".toList [("uri".toList, passwordNs)] false (by decide)
    (by intro p hp; simp only [List.mem_cons, List.not_mem_nil, or_false] at hp; subst hp; exact ⟨by decide, ascii_of_plain _ ns_plain.2.1⟩)
  have t6 := startTag_ascii "p:encryptedKey".toList (encryptedKeyAttrs i) true (by decide)
    (pairs_ascii _ (by rw [encryptedKeyAttrs_names]; simp [kdNames, ascii]) (encryptedKeyAttrs_plain i h))
  have t7 := endTag_ascii "keyEncryptor".toList (by decide)
  have t8 := endTag_ascii "keyEncryptors".toList (by decide)
  have t9 := endTag_ascii "encryption".toList (by decide)
  have t0 : ascii "<?xml version=\"1.0\" encoding=\"UTF-8\" standalone=\"yes\"?>\r\n".toList = true := by decide
  unfold encryptedKeyAttrs at t6
  unfold encryptionInfoXml
  rw [ascii_append, ascii_append, ascii_append, ascii_append, ascii_append, ascii_append, ascii_append, ascii_append, ascii_append,
    t0, t1, t2, t3, t4, t5, t6, t7, t8, t9]
  rfl

theorem prefix_take (xs : Bytes) : (encryptionInfoPrefix ++ xs).take 8 = [4, 0, 4, 0, 0x40, 0, 0, 0] := rfl
theorem prefix_drop (xs : Bytes) : (encryptionInfoPrefix ++ xs).drop 8 = xs := rfl


theorem isXmlChar_of_plainChar (c : Char) (h : plainChar c = true) : isXmlChar c = true := by
  simp only [plainChar, Bool.and_eq_true, decide_eq_true_eq] at h
  obtain ⟨⟨⟨⟨⟨⟨h1, h2⟩, _⟩, _⟩, _⟩, _⟩, _⟩ := h
  simp only [isXmlChar, Bool.or_eq_true, Bool.and_eq_true, decide_eq_true_eq]
  omega

theorem allXml_of_plain (s : List Char) (h : plain s = true) : allXml s = true := by
  simp only [plain, allXml, List.all_eq_true] at h ⊢
  exact fun c hc => isXmlChar_of_plainChar c (h c hc)

theorem wfAttrs_toAttrs (l : List (List Char × List Char)) (hn : (l.map (·.1)).all wfName = true)
    (hd : (l.map (·.1)).Nodup) (hv : ∀ p ∈ l, plain p.2 = true) : wfAttrs (toAttrs l) = true := by
  simp only [wfAttrs, Bool.and_eq_true, decide_eq_true_eq, List.all_eq_true]
  constructor
  · intro a ha
    simp only [toAttrs, List.mem_map] at ha
    obtain ⟨p, hp, rfl⟩ := ha
    simp only [List.all_eq_true, List.mem_map, forall_exists_index, and_imp, forall_apply_eq_imp_iff₂] at hn
    exact ⟨hn p hp, allXml_of_plain _ (hv p hp)⟩
  · have : (toAttrs l).map (·.name) = l.map (·.1) := by simp [toAttrs, Function.comp_def]
    rw [this]; exact hd

theorem infoW_isElem (i : Info) : isElemW (infoW i) = true := rfl

theorem infoW_wf (i : Info) (h : infoPlain i = true) : WF (infoW i) = true := by
  have hp := h
  simp only [infoPlain, Bool.and_eq_true] at hp
  obtain ⟨⟨⟨⟨⟨⟨h1, h2⟩, h3⟩, h4⟩, h5⟩, h6⟩, h7⟩ := hp
  have a1 : wfAttrs (toAttrs [("xmlns".toList, encryptionNs), ("xmlns:p".toList, passwordNs), ("xmlns:c".toList, certificateNs)]) = true :=
    wfAttrs_toAttrs _ (by decide) (by decide) (by
      intro p hp; simp only [List.mem_cons, List.not_mem_nil, or_false] at hp
      rcases hp with rfl | rfl | rfl
      · exact ns_plain.1
      · exact ns_plain.2.1
      · exact ns_plain.2.2)
  have a2 : wfAttrs (toAttrs (keyDataAttrs i.keyData)) = true :=
    wfAttrs_toAttrs _ (by rw [keyDataAttrs_names]; decide) (by rw [keyDataAttrs_names]; decide) (keyDataAttrs_plain _ h1)
  have a3 : wfAttrs (toAttrs [("encryptedHmacKey".toList, i.encryptedHmacKey), ("encryptedHmacValue".toList, i.encryptedHmacValue)]) = true :=
    wfAttrs_toAttrs _ (by simp only [List.map_cons, List.map_nil]; decide) (by simp only [List.map_cons, List.map_nil]; decide) (by
      intro p hp; simp only [List.mem_cons, List.not_mem_nil, or_false] at hp
      rcases hp with rfl | rfl <;> assumption)
  have a4 : wfAttrs (toAttrs [("uri".toList, passwordNs)]) = true :=
    wfAttrs_toAttrs _ (by decide) (by decide) (by
      intro p hp; simp only [List.mem_cons, List.not_mem_nil, or_false] at hp; subst hp; exact ns_plain.2.1)
  have a5 : wfAttrs (toAttrs (encryptedKeyAttrs i)) = true :=
    wfAttrs_toAttrs _ (by rw [encryptedKeyAttrs_names]; decide) (by rw [encryptedKeyAttrs_names]; decide) (encryptedKeyAttrs_plain i h)
  have n1 : wfName "encryption".toList = true := by decide
  have n2 : wfName "keyData".toList = true := by decide
  have n3 : wfName "dataIntegrity".toList = true := by decide
  have n4 : wfName "keyEncryptors".toList = true := by decide
  have n5 : wfName "keyEncryptor".toList = true := by decide
  have n6 : wfName "p:encryptedKey".toList = true := by decide
  have a0 : wfAttrs [] = true := by decide
  simp only [WF, infoW, wfKids, a0, a1, a2, a3, a4, a5, n1, n2, n3, n4, n5, n6, Bool.and_self]

/-- the element tree the reader delivers -/
def infoNode (i : Info) : Node :=
  .elem "encryption".toList
    (toAttrs [("xmlns".toList, encryptionNs), ("xmlns:p".toList, passwordNs), ("xmlns:c".toList, certificateNs)])
    [ .elem "keyData".toList (toAttrs (keyDataAttrs i.keyData)) [],
      .elem "dataIntegrity".toList
        (toAttrs [("encryptedHmacKey".toList, i.encryptedHmacKey), ("encryptedHmacValue".toList, i.encryptedHmacValue)]) [],
      .elem "keyEncryptors".toList []
        [ .elem "keyEncryptor".toList (toAttrs [("uri".toList, passwordNs)])
            [ .elem "p:encryptedKey".toList (toAttrs (encryptedKeyAttrs i)) [] ] ] ]

theorem norm_erase_infoW (i : Info) : normNode (erase (infoW i)) = infoNode i := by
  simp [infoW, infoNode, erase, eraseKids, normNode, normKids, normKidsAcc]

theorem parse_infoW (i : Info) (h : infoPlain i = true) :
    Umya.Spec.Xml.parse (renderDoc (infoW i)) = some (infoNode i) := by
  rw [Umya.Thm.C02.C02_bytes_parse (infoW i) (infoW_isElem i) (infoW_wf i h), norm_erase_infoW]


theorem charIsDigit_eq (c : Char) : c.isDigit = Umya.Dec.isDigit c := by
  simp only [Char.isDigit, Umya.Dec.isDigit, Char.toNat, ge_iff_le]
  rw [Bool.eq_iff_iff]
  simp only [Bool.and_eq_true, decide_eq_true_eq, UInt32.le_iff_toNat_le]
  simp

theorem natOf_decDigits (n : Nat) : Umya.Spec.Agile.natOf (decDigits n) = some n := by
  unfold Umya.Spec.Agile.natOf
  have h1 : (decDigits n).isEmpty = false := by
    cases hd : decDigits n with
    | nil => exact absurd hd (decDigits_ne_nil n)
    | cons _ _ => rfl
  have h2 : (decDigits n).all Char.isDigit = true := by
    have := decDigits_all_digit n
    simp only [List.all_eq_true] at this ⊢
    intro c hc; rw [charIsDigit_eq]; exact this c hc
  have h3 := parseDec_decDigits n
  unfold parseDec digitVal at h3
  simp [h1, h2, h3]



theorem keyDataOfNode_kd (n : List Char) (k : KeyData) (ks : List Node) :
    Umya.Spec.Agile.keyDataOfNode (.elem n (toAttrs (keyDataAttrs k)) ks) = some k := by
  simp [Umya.Spec.Agile.keyDataOfNode, Node.attr?, Node.attrs, toAttrs, keyDataAttrs, List.find?, natOf_decDigits]



theorem keyDataOfNode_ek (n : List Char) (i : Info) (ks : List Node) :
    Umya.Spec.Agile.keyDataOfNode (.elem n (toAttrs (encryptedKeyAttrs i)) ks) = some i.key := by
  simp [Umya.Spec.Agile.keyDataOfNode, Node.attr?, Node.attrs, toAttrs, encryptedKeyAttrs, keyDataAttrs, List.find?, natOf_decDigits]

theorem ns_eq : Umya.Spec.Agile.encryptionNs = encryptionNs ∧ Umya.Spec.Agile.passwordNs = passwordNs := ⟨rfl, rfl⟩

theorem infoOfTree_infoNode (i : Info) : Umya.Spec.Agile.infoOfTree (infoNode i) = some i := by
  have e1 := keyDataOfNode_kd "keyData".toList i.keyData []
  have e2 := keyDataOfNode_ek "p:encryptedKey".toList i []
  simp [toAttrs, keyDataAttrs, encryptedKeyAttrs] at e1 e2
  simp [Umya.Spec.Agile.infoOfTree, infoNode, Umya.Spec.Agile.isElemOf, Umya.Spec.Agile.childOf, Umya.Spec.Agile.nsOf,
    Umya.Spec.Agile.nsDeclName, Umya.Spec.Xml.localName, Node.isElem, Node.name, Node.attrs, Node.children, Node.attr?,
    ns_eq.1, ns_eq.2, toAttrs, keyDataAttrs, encryptedKeyAttrs, List.find?, natOf_decDigits, e1, e2]


end Umya.Crypt
