/-
  (T) translator, part 3 — `src/helper/crypt.rs`: the constants (`const` items, compiled by the expression
  compiler) and the literal `let` initialisers of `encrypt_parts` and of the three `encrypt_*_protection` setters
  (token-level scan inside the function: those bodies are outside the fragment) as read from the source on this
  run are the values the hand models use (`Umya/Model/Crypt.lean`, `Umya/Model/PwHash.lean`).
  Only the constants are tied here; the functions are compiled and proved equal to the hand models in `FnsGenCryptBuf.lean` (buffer helpers,
  `hash`), `FnsGenCryptPw.lean` (C15: `convert_password_to_hash`, the three setters) and `FnsGenCryptPkg.lean` (C14: `convert_password_to_key`,
  `create_iv`, `crypt_package`, `build_encryption_info`, `encrypt_parts`).
-/
import Umya.Lemmas.FnsGen
import Umya.Model.Crypt
import Umya.Model.PwHash
namespace Umya.Gen
open Umya.Crypt Umya.Crypto Umya.Agile

/-- value of `function.variable` in a table of literal `let` initialisers -/
def litOf {α} (tbl : List (String × α)) (k : String) : Option α := (tbl.find? (fun p => p.1 == k)).map (·.2)

/-- the block keys, the chunk size, the stream offset and the `EncryptionInfo` prefix -/
theorem gen_crypt_consts :
    crypt_block_keys_data_integrity_hmac_key.map UInt8.ofNat = blkHmacKey ∧
    crypt_block_keys_data_integrity_hmac_value.map UInt8.ofNat = blkHmacValue ∧
    crypt_block_keys_key.map UInt8.ofNat = blkKey ∧
    crypt_block_verifier_hash_input.map UInt8.ofNat = blkVerifierInput ∧
    crypt_block_verifier_hash_value.map UInt8.ofNat = blkVerifierValue ∧
    crypt_encryption_info_prefix.map UInt8.ofNat = encryptionInfoPrefix ∧
    crypt_package_encryption_chunk_size = chunkSize ∧
    crypt_package_offset = 8 ∧ crypt_package_offset = (le32 0 ++ [0, 0, 0, 0]).length ∧
    (crypt_block_keys_data_integrity_hmac_key ++ crypt_block_keys_data_integrity_hmac_value ++ crypt_block_keys_key ++
      crypt_block_verifier_hash_input ++ crypt_block_verifier_hash_value ++ crypt_encryption_info_prefix).all (· < 256) = true := by
  decide

/-- the literals of `encrypt_parts`: hash size 64, block size 16, spin count 100000, key bits 256 and the algorithm
    names — the numbers `encryptWith` / `encrypt` of the model use (`blockSize := 16`, `hashSize := 64`, `keyBits := 256`,
    `createIv … 16 …`, `convertPasswordToKey … 256 …`, spin count of `encrypt`) -/
theorem gen_crypt_encrypt_literals :
    litOf crypt_encrypt_literals_ints "encrypt_parts.package_hash_size" = some 64 ∧
    litOf crypt_encrypt_literals_ints "encrypt_parts.package_block_size" = some 16 ∧
    litOf crypt_encrypt_literals_ints "encrypt_parts.key_hash_size" = some 64 ∧
    litOf crypt_encrypt_literals_ints "encrypt_parts.key_block_size" = some 16 ∧
    litOf crypt_encrypt_literals_ints "encrypt_parts.key_spin_count" = some 100000 ∧
    litOf crypt_encrypt_literals_ints "encrypt_parts.key_key_bits" = some 256 ∧
    (litOf crypt_encrypt_literals_strs "encrypt_parts.package_hash_algorithm").map String.toList = some sha512Name ∧
    (litOf crypt_encrypt_literals_strs "encrypt_parts.key_hash_algorithm").map String.toList = some sha512Name ∧
    (litOf crypt_encrypt_literals_strs "encrypt_parts.package_cipher_algorithm").map String.toList = some aes ∧
    (litOf crypt_encrypt_literals_strs "encrypt_parts.key_cipher_algorithm").map String.toList = some aes ∧
    (litOf crypt_encrypt_literals_strs "encrypt_parts.package_cipher_chaining").map String.toList = some cbc ∧
    (litOf crypt_encrypt_literals_strs "encrypt_parts.key_cipher_chaining").map String.toList = some cbc := by
  decide

/-- the model's `encrypt` runs `encryptWith` with the spin count that is in the source -/
theorem gen_crypt_encrypt_spin (P : Prims) (data : Bytes) (pw : List Char) (ρ : Randoms) (n : Nat)
    (h : litOf crypt_encrypt_literals_ints "encrypt_parts.key_spin_count" = some n) :
    encrypt P data pw ρ = encryptWith P n data pw ρ := by
  have h0 : litOf crypt_encrypt_literals_ints "encrypt_parts.key_spin_count" = some 100000 := by decide
  rw [h0] at h
  cases h
  rfl

/-- the three `encrypt_*_protection` setters: spin count and algorithm name of the model (`Umya/Model/PwHash.lean`) -/
theorem gen_protection_literals :
    crypt_protection_literals_ints.map (·.2) = [Umya.PwHash.spinCountConst, Umya.PwHash.spinCountConst, Umya.PwHash.spinCountConst] ∧
    crypt_protection_literals_strs.map (fun p => p.2.toList) = [Umya.PwHash.algName, Umya.PwHash.algName, Umya.PwHash.algName] ∧
    crypt_protection_literals_ints.map (·.1) =
      ["encrypt_sheet_protection.key_spin_count", "encrypt_workbook_protection.key_spin_count", "encrypt_revisions_protection.key_spin_count"] := by
  decide

end Umya.Gen
