/-
  Lemmas for the cell clause of C02: what the writer model (`Umya/Model/CellXml.lean`) writes, rendered
  as the element tree an XML 1.0 reader delivers (`Umya/Model/CellNode.lean`), is decoded by the
  independent SpreadsheetML decoder (`Umya/Spec/Sml.lean`: `decodeCell`, `rstText`, `sharedStrings`) to
  the model cell.
-/
import Umya.Model.CellNode
import Umya.Lemmas.XmlChannel
import Umya.Lemmas.CellRoundTrip
namespace Umya.CellNode
open Umya.Xml Umya.CellXml Umya.Dec Umya.InternC01 Umya.Num Umya.Coord
open Umya.Spec.Xml (Node Attr textValue attrValue localName)
open Umya.Spec.Sml (decodeCell rstText natOf sharedStrings CellV)

/-! ## text content and attributes -/

/-- the children of an element whose character data has the value `s` -/
def txt (s : List Char) : List Node := if s = [] then [] else [Node.text s]

theorem ownText_txt (n : List Char) (as : List Attr) (s : List Char) : (Node.elem n as (txt s)).ownText = s := by
  by_cases h : s = []
  · simp [txt, h, Node.ownText, Node.children]
  · simp [txt, h, Node.ownText, Node.children]

theorem charData_escape (s : List Char) : charData (escape s) = some (txt s) := by
  unfold charData txt
  by_cases h : s = []
  · subst h; simp [escape]
  · have h1 : escape s ≠ [] := fun e => h (escape_eq_nil.1 e)
    have h2 : '<' ∉ escape s := by rw [Umya.XmlChannel.xml_escape_eq]; exact Umya.XmlChannel.escape_noLt s
    have h3 : textValue (escape s) = some s := by
      rw [Umya.XmlChannel.xml_escape_eq]; exact Umya.XmlChannel.textValue_escape s
    simp [h, h1, h2, h3]

theorem charData_partialEscape (s : List Char) : charData (partialEscape s) = some (txt s) := by
  unfold charData txt
  by_cases h : s = []
  · subst h; simp [partialEscape]
  · have h1 : partialEscape s ≠ [] := fun e => h (partialEscape_eq_nil.1 e)
    have h2 : '<' ∉ partialEscape s := by
      rw [Umya.XmlChannel.xml_partialEscape_eq]; exact Umya.XmlChannel.partialEscape_noLt s
    have h3 : textValue (partialEscape s) = some s := by
      rw [Umya.XmlChannel.xml_partialEscape_eq]; exact Umya.XmlChannel.textValue_partialEscape s
    simp [h, h1, h2, h3]

theorem attrOf_eq (name value : List Char) : attrOf name value = some ⟨name, value⟩ := by
  simp [attrOf, Umya.XmlChannel.attrValue_attrEscape]

theorem textElem_escape (n : List Char) (as : List Attr) (s : List Char) :
    textElem n as (escape s) = some (Node.elem n as (txt s)) := by
  simp [textElem, charData_escape]

theorem textElem_partialEscape (n : List Char) (as : List Attr) (s : List Char) :
    textElem n as (partialEscape s) = some (Node.elem n as (txt s)) := by
  simp [textElem, charData_partialEscape]

/-! ## shared-string items -/

def preserveAttrs (s : List Char) : List Attr :=
  if needsPreserve s then [⟨['x', 'm', 'l', ':', 's', 'p', 'a', 'c', 'e'], ['p', 'r', 'e', 's', 'e', 'r', 'v', 'e']⟩] else []

/-- the `<t>` written for the text `s`, as read -/
def tElem (s : List Char) : Node := Node.elem ['t'] (preserveAttrs s) (txt s)

theorem tNode_writeText (s : List Char) : tNode (writeText s) = some (tElem s) := by
  unfold tNode writeText tElem preserveAttrs
  by_cases h : needsPreserve s = true
  · simp [h, attrOf_eq, textElem_escape]
  · simp [h, textElem_escape]

/-- the `<r>` written for a run, as read -/
def rElem (r : Run) : Node :=
  Node.elem ['r'] [] ((match r.font with | some _ => [Node.elem ['r', 'P', 'r'] [] []] | none => []) ++ [tElem r.text])

theorem runNode_write (r : Run) : runNode { font := r.font, t := writeText r.text } = some (rElem r) := by
  obtain ⟨t, f⟩ := r
  cases f <;> simp [runNode, tNode_writeText, rElem]

/-- the `<si>` written for an item, as read -/
def siElem (it : Item) : Node :=
  Node.elem ['s', 'i'] []
    ((match it.text with | some s => [tElem s] | none => []) ++
     (match it.rich with | some rs => rs.map rElem | none => []) ++ [phoneticPr])

theorem mapOpt_runNode (rs : List Run) :
    mapOpt runNode (rs.map (fun r => ({ font := r.font, t := writeText r.text } : RunX))) = some (rs.map rElem) := by
  induction rs with
  | nil => rfl
  | cons r rs ih => simp [mapOpt, runNode_write, ih]

/-- every item the writer can hold renders, to `siElem` -/
theorem siNode_siOf (it : Item) : siNode (siOf it) = some (siElem it) := by
  obtain ⟨t, r⟩ := it
  cases t <;> cases r <;> simp [siNode, siOf, siElem, tNode_writeText, mapOpt_runNode, mapOpt]

theorem mapOpt_siNode (tbl : Table) : mapOpt siNode (tbl.map siOf) = some (tbl.map siElem) := by
  induction tbl with
  | nil => rfl
  | cons it tbl ih => simp [mapOpt, siNode_siOf, ih]

/-! ### the decoder's `rstText` on a written item -/

theorem lit_t : "t".toList = ['t'] := rfl
theorem lit_r : "r".toList = ['r'] := rfl
theorem lit_s : "s".toList = ['s'] := rfl
theorem lit_v : "v".toList = ['v'] := rfl
theorem lit_f : "f".toList = ['f'] := rfl
theorem lit_si : "si".toList = ['s', 'i'] := rfl
theorem lit_is : "is".toList = ['i', 's'] := rfl

theorem localName_t : localName ['t'] = ['t'] := by decide
theorem localName_r : localName ['r'] = ['r'] := by decide
theorem localName_rPr : localName ['r', 'P', 'r'] = ['r', 'P', 'r'] := by decide
theorem localName_ph : localName ['p', 'h', 'o', 'n', 'e', 't', 'i', 'c', 'P', 'r'] = ['p', 'h', 'o', 'n', 'e', 't', 'i', 'c', 'P', 'r'] := by decide

/-- the filter of `Node.kids` -/
def isKid (name : List Char) (c : Node) : Bool := c.isElem && decide (localName c.name = name)

theorem kids_eq (n : Node) (name : String) : n.kids name = n.children.filter (isKid name.toList) := rfl

theorem isKid_elem (name n : List Char) (as : List Attr) (cs : List Node) :
    isKid name (Node.elem n as cs) = decide (localName n = name) := rfl

theorem isKid_t_tN (s : List Char) : isKid ['t'] (tElem s) = true := by simp [tElem, isKid_elem, localName_t]
theorem isKid_r_tN (s : List Char) : isKid ['r'] (tElem s) = false := by simp [tElem, isKid_elem, localName_t]
theorem isKid_t_rN (r : Run) : isKid ['t'] (rElem r) = false := by simp [rElem, isKid_elem, localName_r]
theorem isKid_r_rN (r : Run) : isKid ['r'] (rElem r) = true := by simp [rElem, isKid_elem, localName_r]
theorem isKid_t_ph : isKid ['t'] phoneticPr = false := by simp [phoneticPr, isKid_elem, localName_ph]
theorem isKid_r_ph : isKid ['r'] phoneticPr = false := by simp [phoneticPr, isKid_elem, localName_ph]
theorem isKid_t_rPr : isKid ['t'] (Node.elem ['r', 'P', 'r'] [] []) = false := by simp [isKid_elem, localName_rPr]

theorem kids_t_runs (rs : List Run) : (rs.map rElem).filter (isKid ['t']) = [] := by
  induction rs with
  | nil => rfl
  | cons r rs ih => simp [isKid_t_rN, ih]

theorem kids_r_runs (rs : List Run) : (rs.map rElem).filter (isKid ['r']) = rs.map rElem := by
  induction rs with
  | nil => rfl
  | cons r rs ih => simp [isKid_r_rN, ih]

theorem runText (r : Run) : ((rElem r).kids "t").flatMap (·.ownText) = r.text := by
  obtain ⟨t, f⟩ := r
  cases f <;> simp [kids_eq, lit_t, rElem, Node.children, isKid_t_tN, isKid_t_rPr] <;> simp [tElem, ownText_txt]

theorem runsText (rs : List Run) : (rs.map rElem).flatMap (fun r => (r.kids "t").flatMap (·.ownText)) = richText rs := by
  induction rs with
  | nil => rfl
  | cons r rs ih =>
    rw [List.map_cons, List.flatMap_cons, ih, runText]
    simp [richText]

/-- the independent reader's text of a written `<si>` is the item's text: the `<t>` content for a plain
    item, the concatenation of the run texts for a rich item (the empty text for a rich text without runs) -/
theorem rstText_siN (it : Item) : rstText (siElem it) = itemText it := by
  obtain ⟨t, r⟩ := it
  unfold rstText
  rw [kids_eq, kids_eq, lit_t, lit_r]
  cases t <;> cases r <;>
    simp only [siElem, Node.children, List.filter_append, List.filter_cons, List.filter_nil, isKid_t_tN, isKid_r_tN,
      isKid_t_ph, isKid_r_ph, kids_t_runs, kids_r_runs, runsText, itemText, List.nil_append, List.append_nil,
      List.flatMap_nil, List.flatMap_cons, if_true, Bool.false_eq_true, if_false]
  all_goals simp [tElem, ownText_txt, richText]

/-! ### the shared-string part -/

theorem localName_si : localName ['s', 'i'] = ['s', 'i'] := by decide

theorem isKid_si_siN (it : Item) : isKid ['s', 'i'] (siElem it) = true := by simp [siElem, isKid_elem, localName_si]

theorem kids_si (tbl : Table) : (tbl.map siElem).filter (isKid ['s', 'i']) = tbl.map siElem := by
  induction tbl with
  | nil => rfl
  | cons it tbl ih => simp [isKid_si_siN, ih]

/-- the texts the independent reader takes from the root element of the written shared-string part -/
theorem sstNode_texts (tbl : Table) :
    ∃ root, sstNode (tbl.map siOf) = some root ∧ (root.kids "si").map rstText = tbl.map itemText := by
  refine ⟨Node.elem ['s', 's', 't'] [] (tbl.map siElem), by simp [sstNode, mapOpt_siNode], ?_⟩
  rw [kids_eq, lit_si]
  simp only [Node.children, kids_si, List.map_map]
  apply List.map_congr_left
  intro it _
  exact rstText_siN it

/-- … and from the package: the part is absent for an empty table, and then the reader's table is empty too -/
theorem sharedStrings_written (tbl : Table) :
    ∃ pkg, sstParts (tbl.map siOf) = some pkg ∧ sharedStrings pkg sstPath = tbl.map itemText := by
  by_cases h : tbl = []
  · subst h
    exact ⟨[], by simp [sstParts], by simp [sharedStrings, Umya.Spec.Sml.Package.part?]⟩
  · obtain ⟨root, h1, h2⟩ := sstNode_texts tbl
    refine ⟨[{ name := sstPath, xml := some root, isXml := true }], by simp [sstParts, h, h1], ?_⟩
    simp [sharedStrings, Umya.Spec.Sml.Package.part?, h2]

/-! ## numbers in attribute / index position -/

theorem charIsDigit_digitChar (d : Nat) : Char.isDigit (digitChar d) = true := by
  unfold digitChar
  split <;> decide

theorem decDigits_all_charDigit (n : Nat) : (decDigits n).all Char.isDigit = true := by
  induction n using Nat.strongRecOn with
  | _ n ih =>
    rw [decDigits]
    split
    · simp [charIsDigit_digitChar]
    · simp only [List.all_append, ih (n / 10) (by omega), List.all_cons, charIsDigit_digitChar,
        List.all_nil, Bool.and_self]

/-- the decoder's unsigned-integer reading of what `to_string()` printed -/
theorem natOf_decDigits (n : Nat) : natOf (decDigits n) = some n := by
  unfold natOf
  rw [if_pos ⟨decDigits_ne_nil n, decDigits_all_charDigit n⟩]
  have : (decDigits n).foldl (fun a c => 10 * a + (c.toNat - 48)) 0 = parseDec (decDigits n) := rfl
  rw [this, parseDec_decDigits]

/-! ## the `<c>` element -/

def fKids (fo : Option (List Char)) : List Node :=
  match fo with | some f => [Node.elem ['f'] [] (txt f)] | none => []

def vKids (ov : Option (List Char)) : List Node :=
  match ov with | some v => [Node.elem ['v'] [] (txt v)] | none => []

/-- closed form of a rendered `<c>`: reference, `t` (absent when empty), style, the VALUE of the formula
    text and of the `<v>` content (`none` = no such child) -/
def cElem (ref t : List Char) (styled : Bool) (xf : Nat) (fo ov : Option (List Char)) : Node :=
  Node.elem ['c']
    (⟨['r'], ref⟩ :: (if t = [] then [] else [⟨['t'], t⟩]) ++ (if styled then [⟨['s'], decDigits xf⟩] else []))
    (fKids fo ++ vKids ov)

theorem vNodes_absent : vNodes .absent = some (vKids none) := rfl
theorem vNodes_emptyTag : vNodes .emptyTag = some (vKids (some [])) := rfl
theorem vNodes_escape (s : List Char) : vNodes (.text (escape s)) = some (vKids (some s)) := by
  simp [vNodes, vKids, textElem_escape]
theorem vNodes_partialEscape (s : List Char) : vNodes (.text (partialEscape s)) = some (vKids (some s)) := by
  simp [vNodes, vKids, textElem_partialEscape]
theorem fNodes_write (fo : Option (List Char)) : fNodes (fo.map partialEscape) = some (fKids fo) := by
  cases fo <;> simp [fNodes, fKids, textElem_partialEscape]

/-- a `<c>` fact whose `<f>` is written by `write_text_node_conversion`, whose `<v>` renders to the value
    `ov`, and that has no `<is>`, renders to the closed form -/
theorem cellNode_written (xf : Nat) (ref t : List Char) (styled : Bool) (fo : Option (List Char)) (vx : VNode)
    (ov : Option (List Char)) (hv : vNodes vx = some (vKids ov)) :
    cellNode xf { ref := ref, t := t, styled := styled, f := fo.map partialEscape, v := vx } = some (cElem ref t styled xf fo ov) := by
  unfold cellNode cellAttrs cElem
  by_cases ht : t = [] <;> cases styled <;> simp [ht, attrOf_eq, fNodes_write, hv, isNodes]

/-! ### the decoder's accessors on the closed form -/

theorem localName_f : localName ['f'] = ['f'] := by decide
theorem localName_v : localName ['v'] = ['v'] := by decide

theorem attr_r (ref t : List Char) (styled : Bool) (xf : Nat) (fo ov : Option (List Char)) :
    (cElem ref t styled xf fo ov).attr? ['r'] = some ref := by
  simp [cElem, Node.attr?, Node.attrs]

theorem attr_t (ref t : List Char) (styled : Bool) (xf : Nat) (fo ov : Option (List Char)) :
    (cElem ref t styled xf fo ov).attr? ['t'] = if t = [] then none else some t := by
  by_cases ht : t = [] <;> cases styled <;> simp [cElem, Node.attr?, Node.attrs, ht]

theorem attr_s (ref t : List Char) (styled : Bool) (xf : Nat) (fo ov : Option (List Char)) :
    (cElem ref t styled xf fo ov).attr? ['s'] = if styled then some (decDigits xf) else none := by
  by_cases ht : t = [] <;> cases styled <;> simp [cElem, Node.attr?, Node.attrs, ht]

theorem kid_v (ref t : List Char) (styled : Bool) (xf : Nat) (fo ov : Option (List Char)) :
    ((cElem ref t styled xf fo ov).kid? "v").map (·.ownText) = ov := by
  unfold Node.kid?
  rw [kids_eq, lit_v]
  cases fo <;> cases ov <;>
    simp [cElem, Node.children, fKids, vKids, isKid_elem, localName_f, localName_v, ownText_txt]

theorem kid_f (ref t : List Char) (styled : Bool) (xf : Nat) (fo ov : Option (List Char)) :
    ((cElem ref t styled xf fo ov).kid? "f").map (·.ownText) = fo := by
  unfold Node.kid?
  rw [kids_eq, lit_f]
  cases fo <;> cases ov <;>
    simp [cElem, Node.children, fKids, vKids, isKid_elem, localName_f, localName_v, ownText_txt]

theorem kid_f_shared (ref t : List Char) (styled : Bool) (xf : Nat) (fo ov : Option (List Char)) (g : Node → Option Nat) :
    ((cElem ref t styled xf fo ov).kid? "f").bind
      (fun fe => if fe.attr? ['t'] = some ['s', 'h', 'a', 'r', 'e', 'd'] then g fe else none) = none := by
  unfold Node.kid?
  rw [kids_eq, lit_f]
  cases fo <;> cases ov <;>
    simp [cElem, Node.children, fKids, vKids, isKid_elem, localName_f, localName_v, Node.attr?, Node.attrs]

/-! ### `decodeCell` on the closed form, one lemma per `t` the writer can produce -/

theorem lit_n : "n".toList = ['n'] := rfl
theorem lit_shared : "shared".toList = ['s', 'h', 'a', 'r', 'e', 'd'] := rfl

theorem style_dec (styled : Bool) (xf : Nat) :
    ((if styled = true then some (decDigits xf) else none).bind natOf).getD 0 = if styled = true then xf else 0 := by
  cases styled <;> simp [natOf_decDigits]

/-- no `t` attribute: the default type `n` (§18.3.1.4) -/
theorem decode_cN_n (sst : List (List Char)) (ref : List Char) (styled : Bool) (xf : Nat) (fo ov : Option (List Char)) :
    decodeCell sst (cElem ref [] styled xf fo ov) =
      ({ ref := ref, kind := if ov.isSome then "n" else "", value := ov.getD [], formula := fo,
         style := if styled then xf else 0, shared := none }, []) := by
  simp [decodeCell, lit_t, lit_r, lit_s, lit_n, lit_shared, attr_r, attr_t, attr_s, kid_v, kid_f, kid_f_shared,
    style_dec, Umya.Spec.Sml.str]

/-- `t="s"`: the index is looked up in the shared-string table -/
theorem decode_cN_s (sst : List (List Char)) (ref : List Char) (styled : Bool) (xf : Nat) (fo : Option (List Char))
    (i : Nat) (s : List Char) (hi : sst[i]? = some s) :
    decodeCell sst (cElem ref ['s'] styled xf fo (some (decDigits i))) =
      ({ ref := ref, kind := "s", value := s, formula := fo, style := if styled then xf else 0, shared := none }, []) := by
  simp [decodeCell, lit_t, lit_r, lit_s, lit_n, lit_shared, attr_r, attr_t, attr_s, kid_v, kid_f, kid_f_shared,
    style_dec, Umya.Spec.Sml.str, natOf_decDigits, hi]

/-- `t="str"`: the `<v>` content is the string -/
theorem decode_cN_str (sst : List (List Char)) (ref : List Char) (styled : Bool) (xf : Nat) (fo ov : Option (List Char)) :
    decodeCell sst (cElem ref ['s', 't', 'r'] styled xf fo ov) =
      ({ ref := ref, kind := if ov.isSome then "s" else "", value := ov.getD [], formula := fo,
         style := if styled then xf else 0, shared := none }, []) := by
  simp [decodeCell, lit_t, lit_r, lit_s, lit_n, lit_shared, attr_r, attr_t, attr_s, kid_v, kid_f, kid_f_shared,
    style_dec, Umya.Spec.Sml.str]

/-- `t="b"`: `1` / `0` -/
theorem decode_cN_b (sst : List (List Char)) (ref : List Char) (styled : Bool) (xf : Nat) (fo : Option (List Char)) (b : Bool) :
    decodeCell sst (cElem ref ['b'] styled xf fo (some (if b then ['1'] else ['0']))) =
      ({ ref := ref, kind := "b", value := if b then ['T', 'R', 'U', 'E'] else ['F', 'A', 'L', 'S', 'E'], formula := fo,
         style := if styled then xf else 0, shared := none }, []) := by
  cases b <;>
  simp [decodeCell, lit_t, lit_r, lit_s, lit_n, lit_shared, attr_r, attr_t, attr_s, kid_v, kid_f, kid_f_shared,
    style_dec, Umya.Spec.Sml.str]

/-- `t="e"`: the `<v>` content is the error code -/
theorem decode_cN_e (sst : List (List Char)) (ref : List Char) (styled : Bool) (xf : Nat) (fo ov : Option (List Char)) :
    decodeCell sst (cElem ref ['e'] styled xf fo ov) =
      ({ ref := ref, kind := if ov.isSome then "e" else "", value := ov.getD [], formula := fo,
         style := if styled then xf else 0, shared := none }, []) := by
  simp [decodeCell, lit_t, lit_r, lit_s, lit_n, lit_shared, attr_r, attr_t, attr_s, kid_v, kid_f, kid_f_shared,
    style_dec, Umya.Spec.Sml.str]

/-! ## the writer: `writeV`, `writeTo`, `writeCells`, `writeSheets`, `writeBook` -/

theorem tAttrOf_s : tAttrOf tS = ['s'] := by decide
theorem tAttrOf_str : tAttrOf tSTR = ['s', 't', 'r'] := by decide
theorem tAttrOf_b : tAttrOf tB = ['b'] := by decide
theorem tAttrOf_e : tAttrOf tE = ['e'] := by decide
theorem tAttrOf_n : tAttrOf Umya.CellXml.tN = [] := by decide
theorem tAttrOf_nil : tAttrOf [] = [] := by decide

section
variable (F : NumFmt)

/-- what the decoder must find for a value and a formula -/
def viewAt (ref : List Char) (styled : Bool) (xf : Nat) (raw : RawValue F.Num) (fo : Option (List Char)) : CellV :=
  { ref := ref, kind := fileKind F raw fo, value := valueText F raw, formula := fo, style := if styled then xf else 0 }

/-- the shared-string branch: the index written resolves, in the reader's table of any item table that
    extends the writer's, to the text of the item registered -/
theorem sLookup (tbl : Table) (it : Item) (sst : Table) (hext : Extends sst (intern tbl it).1) :
    (sst.map itemText)[(intern tbl it).2]? = some (itemText it) := by
  have hs := hext _ _ (intern_spec tbl it).2
  simp [hs]

theorem writeV_decodes (tbl : Table) (raw : RawValue F.Num) (fo : Option (List Char))
    (hnl : raw.isLazy = false) (hne : ¬ (raw.isEmpty = true ∧ fo = none)) :
    (∃ ext, (writeV F tbl (dataTypeOf F raw fo) raw).1 = tbl ++ ext) ∧
    ∃ ov, vNodes (writeV F tbl (dataTypeOf F raw fo) raw).2 = some (vKids ov) ∧
      ∀ (sst : Table) (ref : List Char) (styled : Bool) (xf : Nat),
        Extends sst (writeV F tbl (dataTypeOf F raw fo) raw).1 →
        decodeCell (sst.map itemText) (cElem ref (tAttrOf (dataTypeOf F raw fo)) styled xf fo ov)
          = (viewAt F ref styled xf raw fo, []) := by
  cases raw with
  | empty =>
    cases fo with
    | none => exact absurd ⟨rfl, rfl⟩ hne
    | some f =>
      refine ⟨⟨[], by simp [writeV, RawValue.isEmpty]⟩, some [], by simp [writeV, RawValue.isEmpty, vNodes_emptyTag], ?_⟩
      intro sst ref styled xf _
      have : dataTypeOf F (.empty : RawValue F.Num) (some f) = tSTR := rfl
      rw [this, tAttrOf_str, decode_cN_str]
      simp [viewAt, fileKind, valueText]
  | str s =>
    cases fo with
    | none =>
      have hd : dataTypeOf F (.str s : RawValue F.Num) none = tS := rfl
      have e : writeV F tbl tS (.str s)
          = ((intern tbl (itemOf F (.str s))).1, .text (escape (decDigits (intern tbl (itemOf F (.str s))).2))) := by
        simp [writeV, RawValue.isEmpty]
      rw [hd, e]
      obtain ⟨⟨ext, he, _⟩, _⟩ := intern_spec tbl (itemOf F (.str s : RawValue F.Num))
      refine ⟨⟨ext, he⟩, some (decDigits (intern tbl (itemOf F (.str s))).2), vNodes_escape _, ?_⟩
      intro sst ref styled xf hext
      rw [tAttrOf_s, decode_cN_s _ _ _ _ _ _ _ (sLookup tbl _ sst hext)]
      simp [viewAt, fileKind, valueText, itemText, itemOf, getText, getRich]
    | some f =>
      have hd : dataTypeOf F (.str s : RawValue F.Num) (some f) = tSTR := rfl
      have e : writeV F tbl tSTR (.str s) = (tbl, .text (partialEscape s)) := by
        simp [writeV, RawValue.isEmpty, valueText, tS, tSTR]
      rw [hd, e]
      refine ⟨⟨[], by simp⟩, some s, vNodes_partialEscape _, ?_⟩
      intro sst ref styled xf _
      rw [tAttrOf_str, decode_cN_str]
      simp [viewAt, fileKind, valueText]
  | rich rs =>
    -- with or without a formula: a shared-string item (fix 5)
    have hd : dataTypeOf F (.rich rs : RawValue F.Num) fo = tS := by cases fo <;> rfl
    have e : writeV F tbl tS (.rich rs)
        = ((intern tbl (itemOf F (.rich rs))).1, .text (escape (decDigits (intern tbl (itemOf F (.rich rs))).2))) := by
      simp [writeV, RawValue.isEmpty]
    rw [hd, e]
    obtain ⟨⟨ext, he, _⟩, _⟩ := intern_spec tbl (itemOf F (.rich rs : RawValue F.Num))
    refine ⟨⟨ext, he⟩, some (decDigits (intern tbl (itemOf F (.rich rs))).2), vNodes_escape _, ?_⟩
    intro sst ref styled xf hext
    rw [tAttrOf_s, decode_cN_s _ _ _ _ _ _ _ (sLookup tbl _ sst hext)]
    simp [viewAt, fileKind, valueText, itemText, itemOf, getText, getRich]
  | num n =>
    have hd : dataTypeOf F (.num n) fo = tN := by cases fo <;> rfl
    have e : writeV F tbl tN (.num n) = (tbl, .text (partialEscape (F.fmt n))) := by
      simp [writeV, RawValue.isEmpty, valueText, tS, tSTR, tN, tB, tE]
    rw [hd, e]
    refine ⟨⟨[], by simp⟩, some (F.fmt n), vNodes_partialEscape _, ?_⟩
    intro sst ref styled xf _
    rw [tAttrOf_n, decode_cN_n]
    simp [viewAt, fileKind, valueText]
  | bool b =>
    have hd : dataTypeOf F (.bool b) fo = tB := by cases fo <;> rfl
    have e : writeV F tbl tB (.bool b) = (tbl, .text (escape (if b then ['1'] else ['0']))) := by
      cases b <;> simp [writeV, RawValue.isEmpty, valueText, tS, tSTR, tB, upper_boolText]
    rw [hd, e]
    refine ⟨⟨[], by simp⟩, some (if b then ['1'] else ['0']), vNodes_escape _, ?_⟩
    intro sst ref styled xf _
    rw [tAttrOf_b, decode_cN_b]
    cases b <;> simp [viewAt, fileKind, valueText, boolText, sTRUE, sFALSE]
  | err e =>
    have hd : dataTypeOf F (.err e) fo = tE := by cases fo <;> rfl
    have e' : writeV F tbl tE (.err e) = (tbl, .text (escape e.text)) := by
      simp [writeV, RawValue.isEmpty, valueText, tS, tSTR, tB, tE]
    rw [hd, e']
    refine ⟨⟨[], by simp⟩, some e.text, vNodes_escape _, ?_⟩
    intro sst ref styled xf _
    rw [tAttrOf_e, decode_cN_e]
    simp [viewAt, fileKind, valueText]
  | lazy s => simp [RawValue.isLazy] at hnl

/-- one cell, the body of `write_to` (value not lazy): whatever it writes for a cell renders, and the
    independent decoder reads from it the cell's reference, kind, value text, formula text and style — against
    the reader's table of ANY item table that extends the writer's (whatever later cells register) -/
theorem writeCore_decodes (tbl : Table) (c : Cell F.Num) (hnl : c.raw.isLazy = false) (tbl' : Table) (cx : CellX)
    (h : writeCore F tbl c = some (tbl', some cx)) (xf : Nat) :
    1 ≤ c.col ∧ cx.ref = coordinateFromIndexWithLock c.col c.row false false ∧ (∃ ext, tbl' = tbl ++ ext) ∧
    ∃ node, cellNode xf cx = some node ∧
      ∀ sst : Table, Extends sst tbl' → decodeCell (sst.map itemText) node = (fileViewCore F xf c, []) := by
  obtain ⟨col, row, raw, fo, styled⟩ := c
  unfold writeCore at h
  by_cases hb : blankCore F { col := col, row := row, raw := raw, formula := fo, styled := styled } = true
  · simp [hb] at h
  · by_cases hcol : col ≥ 1
    · have hco : coordinateFromIndexWithLock? col row false false = some (coordinateFromIndexWithLock col row false false) := by
        simp [coordinateFromIndexWithLock?, coordinateFromIndexWithLock, hcol]
      simp only [hb, hco, Bool.false_eq_true, if_false] at h
      by_cases he : raw.isEmpty = true ∧ fo.isNone = true
      · -- `<c r= s= />`
        rw [if_pos he] at h
        injection h with h; injection h with h1 h2; injection h2 with h2
        subst h1; subst h2
        obtain ⟨he1, he2⟩ := he
        have hraw : raw = .empty := by cases raw <;> simp [RawValue.isEmpty] at he1 ⊢
        have hfo : fo = none := by cases fo <;> simp at he2 ⊢
        subst hraw; subst hfo
        have hd : tAttrOf (dataTypeCrate F { col := col, row := row, raw := (.empty : RawValue F.Num), formula := none, styled := styled }) = [] := tAttrOf_nil
        refine ⟨hcol, rfl, ⟨[], by simp⟩, cElem (coordinateFromIndexWithLock col row false false) [] styled xf none none, ?_, ?_⟩
        · rw [hd]
          exact cellNode_written xf _ [] styled none .absent none vNodes_absent
        · intro sst _
          rw [decode_cN_n]
          simp [fileViewCore, fileKind, valueText]
      · rw [if_neg he] at h
        injection h with h; injection h with h1 h2; injection h2 with h2
        have hne : ¬ (raw.isEmpty = true ∧ fo = none) := by
          intro hh; apply he; exact ⟨hh.1, by rw [hh.2]; rfl⟩
        obtain ⟨⟨ext, hext⟩, ov, hv, hdec⟩ := writeV_decodes F tbl raw fo hnl hne
        subst h1; subst h2
        refine ⟨hcol, rfl, ⟨ext, hext⟩,
          cElem (coordinateFromIndexWithLock col row false false) (tAttrOf (dataTypeOf F raw fo)) styled xf fo ov, ?_, ?_⟩
        · exact cellNode_written xf _ _ styled fo _ ov hv
        · intro sst hx
          rw [hdec sst _ styled xf hx]
          rfl
    · have hco : coordinateFromIndexWithLock? col row false false = none := by
        simp [coordinateFromIndexWithLock?, hcol]
      simp [hb, hco] at h

/-- one cell, `Cell::write_to` itself: the view decoded is the one of the cell with its value resolved -/
theorem writeTo_decodes (tbl : Table) (c : Cell F.Num) (tbl' : Table) (cx : CellX)
    (h : writeTo F tbl c = some (tbl', some cx)) (xf : Nat) :
    1 ≤ c.col ∧ cx.ref = coordinateFromIndexWithLock c.col c.row false false ∧ (∃ ext, tbl' = tbl ++ ext) ∧
    ∃ node, cellNode xf cx = some node ∧
      ∀ sst : Table, Extends sst tbl' → decodeCell (sst.map itemText) node = (fileView F xf c, []) :=
  writeCore_decodes F tbl (Cell.resolved F c) (resolveRaw_not_lazy F c.raw) tbl' cx h xf

/-- a cell that is not written leaves the table alone; a written one only appends to it -/
theorem writeCore_grows (tbl : Table) (c : Cell F.Num) (hnl : c.raw.isLazy = false) (tbl' : Table) (ox : Option CellX)
    (h : writeCore F tbl c = some (tbl', ox)) :
    (∃ ext, tbl' = tbl ++ ext) ∧ (ox = none ↔ blankCore F c = true) := by
  cases ox with
  | some cx =>
    obtain ⟨_, _, hg, _⟩ := writeCore_decodes F tbl c hnl tbl' cx h 0
    refine ⟨hg, ?_⟩
    constructor
    · intro e; cases e
    · intro hb; simp [writeCore, hb] at h
  | none =>
    unfold writeCore at h
    by_cases hb : blankCore F c = true
    · simp only [hb, if_true] at h
      injection h with h; injection h with h1 _
      exact ⟨⟨[], by simp [h1]⟩, by simp [hb]⟩
    · simp only [hb, Bool.false_eq_true, if_false] at h
      split at h
      · cases h
      · split at h <;> · injection h with h; injection h with _ h2; cases h2

theorem writeTo_grows (tbl : Table) (c : Cell F.Num) (tbl' : Table) (ox : Option CellX)
    (h : writeTo F tbl c = some (tbl', ox)) :
    (∃ ext, tbl' = tbl ++ ext) ∧ (ox = none ↔ blankUnstyled F c = true) :=
  writeCore_grows F tbl (Cell.resolved F c) (resolveRaw_not_lazy F c.raw) tbl' ox h

/-- the view does not change when the value is resolved beforehand -/
theorem fileView_resolved (xf : Nat) (c : Cell F.Num) : fileView F xf (Cell.resolved F c) = fileView F xf c := by
  unfold fileView; rw [resolved_idem]

theorem viewCells_resolved (xf : List Char → Nat) (cs : List (Cell F.Num)) :
    viewCells F xf (cs.map (Cell.resolved F)) = viewCells F xf cs := by
  simp only [viewCells, List.map_map]
  apply List.map_congr_left
  intro c _
  show (fileView F (xf _) (Cell.resolved F c), _) = _
  rw [fileView_resolved]; rfl

theorem extends_of_append {sst tbl ext : Table} (h : Extends sst (tbl ++ ext)) : Extends sst tbl := h.trans_append

/-- one sheet: the written `<c>` elements render, and decode — in document order — to the views of exactly
    the cells that are not blank-and-unstyled, against the reader's table of any extension of the final table -/
theorem writeCells_decodes (xf : List Char → Nat) (cs : List (Cell F.Num)) :
    ∀ (tbl tbl' : Table) (xs : List CellX), writeCells F tbl cs = some (tbl', xs) →
      (∃ ext, tbl' = tbl ++ ext) ∧
      ∃ nodes, renderCells xf xs = some nodes ∧
        ∀ sst : Table, Extends sst tbl' →
          nodes.map (decodeCell (sst.map itemText)) = viewCells F xf (cs.filter (fun c => !blankUnstyled F c)) := by
  induction cs with
  | nil =>
    intro tbl tbl' xs h
    simp only [writeCells] at h
    injection h with h; injection h with h1 h2
    subst h1; subst h2
    exact ⟨⟨[], by simp⟩, [], rfl, fun _ _ => rfl⟩
  | cons c cs ih =>
    intro tbl tbl' xs h
    simp only [writeCells] at h
    cases hw : writeTo F tbl c with
    | none => simp [hw] at h
    | some p =>
      obtain ⟨t1, ox⟩ := p
      simp only [hw] at h
      cases hws : writeCells F t1 cs with
      | none => simp [hws] at h
      | some q =>
        obtain ⟨t2, ys⟩ := q
        simp only [hws] at h
        injection h with h; injection h with h1 h2
        subst h1; subst h2
        obtain ⟨⟨e2, he2⟩, nodes, hn, hd⟩ := ih t1 t2 ys hws
        obtain ⟨⟨e1, he1⟩, hblank⟩ := writeTo_grows F tbl c t1 ox hw
        refine ⟨⟨e1 ++ e2, by rw [he2, he1, List.append_assoc]⟩, ?_⟩
        cases ox with
        | none =>
          have hb : blankUnstyled F c = true := hblank.1 rfl
          refine ⟨nodes, by simpa [consOpt] using hn, ?_⟩
          intro sst hx
          simp only [List.filter_cons, hb, Bool.not_true, Bool.false_eq_true, if_false]
          exact hd sst hx
        | some cx =>
          have hb : blankUnstyled F c = false := by
            cases hbb : blankUnstyled F c with
            | false => rfl
            | true => have := hblank.2 hbb; cases this
          obtain ⟨_, href, _, node, hnode, hdec⟩ := writeTo_decodes F tbl c t1 cx hw (xf cx.ref)
          refine ⟨node :: nodes, ?_, ?_⟩
          · simp only [renderCells, consOpt, mapOpt, hnode]
            simp only [renderCells] at hn
            rw [hn]
          · intro sst hx
            have hx1 : Extends sst t1 := by rw [he2] at hx; exact hx.trans_append
            simp only [List.filter_cons, hb, Bool.not_false, if_true, List.map_cons, viewCells]
            rw [hdec sst hx1, ← href]
            have := hd sst hx
            simp only [viewCells] at this
            rw [this]

/-- all sheets on one table -/
theorem writeSheets_decodes (xf : Nat → List Char → Nat) (sheets : List (List (Cell F.Num))) :
    ∀ (k : Nat) (tbl tbl' : Table) (xss : List (List CellX)), writeSheets F tbl sheets = some (tbl', xss) →
      (∃ ext, tbl' = tbl ++ ext) ∧
      ∃ nodess, renderSheets xf k xss = some nodess ∧
        ∀ sst : Table, Extends sst tbl' →
          nodess.map (fun ns => ns.map (decodeCell (sst.map itemText))) = viewSheets F xf k (normalize F sheets) := by
  induction sheets with
  | nil =>
    intro k tbl tbl' xss h
    simp only [writeSheets] at h
    injection h with h; injection h with h1 h2
    subst h1; subst h2
    exact ⟨⟨[], by simp⟩, [], rfl, fun _ _ => rfl⟩
  | cons s ss ih =>
    intro k tbl tbl' xss h
    simp only [writeSheets] at h
    cases hw : writeCells F tbl s with
    | none => simp [hw] at h
    | some p =>
      obtain ⟨t1, xs⟩ := p
      simp only [hw] at h
      cases hws : writeSheets F t1 ss with
      | none => simp [hws] at h
      | some q =>
        obtain ⟨t2, yss⟩ := q
        simp only [hws] at h
        injection h with h; injection h with h1 h2
        subst h1; subst h2
        obtain ⟨⟨e1, he1⟩, nodes, hn, hd⟩ := writeCells_decodes F (xf k) s tbl t1 xs hw
        obtain ⟨⟨e2, he2⟩, nodess, hns, hds⟩ := ih (k + 1) t1 t2 yss hws
        refine ⟨⟨e1 ++ e2, by rw [he2, he1, List.append_assoc]⟩, nodes :: nodess, by simp [renderSheets, hn, hns], ?_⟩
        intro sst hx
        have hx1 : Extends sst t1 := by rw [he2] at hx; exact hx.trans_append
        simp only [List.map_cons, normalize, viewSheets, viewCells_resolved]
        rw [hd sst hx1]
        have := hds sst hx
        simp only [normalize] at this
        rw [this]

/-- the whole package (cell side): the shared-string part renders (or is absent for an empty table), every
    sheet's cells render, and every `<c>` of every sheet decodes — against the table the independent reader
    takes from the FINAL shared-string part — to the view of its model cell, sheet by sheet, in order -/
theorem writeBook_decodes (light : Bool) (sheets : List (List (Cell F.Num))) (b : BookX)
    (h : writeBook F light sheets = some b) (xf : Nat → List Char → Nat) :
    ∃ pkg nodess, sstParts b.sst = some pkg ∧ renderSheets xf 0 b.sheets = some nodess ∧
      nodess.map (fun ns => ns.map (decodeCell (sharedStrings pkg sstPath))) = viewSheets F xf 0 (normalize F sheets) := by
  unfold writeBook at h
  cases hw : writeSheets F [] sheets with
  | none => simp [hw] at h
  | some p =>
    obtain ⟨t, xss⟩ := p
    simp only [hw] at h
    injection h with h
    subst h
    obtain ⟨_, nodess, hn, hd⟩ := writeSheets_decodes F xf sheets 0 [] t xss hw
    obtain ⟨pkg, hp, hs⟩ := sharedStrings_written t
    refine ⟨pkg, nodess, hp, hn, ?_⟩
    rw [hs]
    exact hd t (fun _ _ hi => hi)

/-! ### the writer is total on cells with a column ≥ 1 (the only panic of `Cell::write_to` modelled) -/

theorem writeCore_total (tbl : Table) (c : Cell F.Num) (hc : 1 ≤ c.col) :
    ∃ tbl' ox, writeCore F tbl c = some (tbl', ox) ∧ (blankCore F c = false → ∃ cx, ox = some cx) := by
  unfold writeCore
  by_cases hb : blankCore F c = true
  · exact ⟨tbl, none, by simp [hb], fun h => by simp [hb] at h⟩
  · have hco : coordinateFromIndexWithLock? c.col c.row false false = some (coordinateFromIndexWithLock c.col c.row false false) := by
      simp [coordinateFromIndexWithLock?, coordinateFromIndexWithLock, hc]
    simp only [hb, hco, Bool.false_eq_true, if_false]
    by_cases he : c.raw.isEmpty = true ∧ c.formula.isNone = true
    · rw [if_pos he]; exact ⟨_, _, rfl, fun _ => ⟨_, rfl⟩⟩
    · rw [if_neg he]; exact ⟨_, _, rfl, fun _ => ⟨_, rfl⟩⟩

theorem writeTo_total (tbl : Table) (c : Cell F.Num) (hc : 1 ≤ c.col) :
    ∃ tbl' ox, writeTo F tbl c = some (tbl', ox) ∧ (blankUnstyled F c = false → ∃ cx, ox = some cx) :=
  writeCore_total F tbl (Cell.resolved F c) hc

theorem writeCells_total (cs : List (Cell F.Num)) (hc : ∀ c ∈ cs, 1 ≤ c.col) :
    ∀ tbl : Table, ∃ tbl' xs, writeCells F tbl cs = some (tbl', xs) := by
  induction cs with
  | nil => intro tbl; exact ⟨tbl, [], rfl⟩
  | cons c cs ih =>
    intro tbl
    obtain ⟨t1, ox, hw, _⟩ := writeTo_total F tbl c (hc c (by simp))
    obtain ⟨t2, xs, hws⟩ := ih (fun d hd => hc d (by simp [hd])) t1
    exact ⟨t2, consOpt ox xs, by simp [writeCells, hw, hws]⟩

theorem writeSheets_total (sheets : List (List (Cell F.Num))) (hc : ∀ s ∈ sheets, ∀ c ∈ s, 1 ≤ c.col) :
    ∀ tbl : Table, ∃ tbl' xss, writeSheets F tbl sheets = some (tbl', xss) := by
  induction sheets with
  | nil => intro tbl; exact ⟨tbl, [], rfl⟩
  | cons s ss ih =>
    intro tbl
    obtain ⟨t1, xs, hw⟩ := writeCells_total F s (hc s (by simp)) tbl
    obtain ⟨t2, xss, hws⟩ := ih (fun s' hs' => hc s' (by simp [hs'])) t1
    exact ⟨t2, xs :: xss, by simp [writeSheets, hw, hws]⟩

theorem writeBook_total (light : Bool) (sheets : List (List (Cell F.Num))) (hc : ∀ s ∈ sheets, ∀ c ∈ s, 1 ≤ c.col) :
    ∃ b, writeBook F light sheets = some b := by
  obtain ⟨t, xss, hw⟩ := writeSheets_total F sheets hc []
  exact ⟨{ sheets := xss, sst := t.map siOf }, by simp [writeBook, hw]⟩

/-- position `i` of `viewSheets` -/
theorem viewSheets_get (xf : Nat → List Char → Nat) (css : List (List (Cell F.Num))) :
    ∀ (k i : Nat), (viewSheets F xf k css)[i]? = (css[i]?).map (viewCells F (xf (k + i))) := by
  induction css with
  | nil => intro k i; simp [viewSheets]
  | cons cs css ih =>
    intro k i
    cases i with
    | zero => simp [viewSheets]
    | succ i =>
      simp only [viewSheets, List.getElem?_cons_succ]
      rw [ih (k + 1) i]
      have : k + 1 + i = k + (i + 1) := by omega
      rw [this]

end

end Umya.CellNode
