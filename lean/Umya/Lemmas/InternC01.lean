import Umya.Model.InternC01
import Umya.Model.SharedStrings
namespace Umya.InternC01

variable {α : Type} [DecidableEq α]

theorem indexOf?_some {x : α} {t : List α} {i : Nat} (h : indexOf? x t = some i) : t[i]? = some x := by
  induction t generalizing i with
  | nil => simp [indexOf?] at h
  | cons y ys ih =>
    simp only [indexOf?] at h
    split at h
    · rename_i e; injection h with h; subst h; simp [e]
    · cases hi : indexOf? x ys with
      | none => rw [hi] at h; simp at h
      | some j =>
        rw [hi] at h; simp at h; subst h
        simp [ih hi]

omit [DecidableEq α] in
theorem getElem?_append_left' {t ext : List α} {i : Nat} {x : α} (h : t[i]? = some x) : (t ++ ext)[i]? = some x := by
  have hi : i < t.length := by
    rcases Nat.lt_or_ge i t.length with h1 | h1
    · exact h1
    · rw [List.getElem?_eq_none h1] at h; simp at h
  rw [List.getElem?_append_left hi]; exact h

/-- registration appends at most one entry, never moves an existing one, and the index it returns
    resolves to the registered item -/
theorem intern_spec (t : List α) (x : α) :
    (∃ ext, (intern t x).1 = t ++ ext ∧ ∀ y ∈ ext, y = x) ∧ (intern t x).1[(intern t x).2]? = some x := by
  unfold intern
  cases h : indexOf? x t with
  | some i => exact ⟨⟨[], by simp, by simp⟩, indexOf?_some h⟩
  | none => exact ⟨⟨[x], rfl, by simp⟩, by simp⟩

/-- the shared-string registration of C12 / C16 is this function at plain text -/
theorem sst_intern_eq (t : Umya.Sst.Table) (x : Umya.Sst.Text) : Umya.Sst.intern t x = intern t x := by
  have e : ∀ t : Umya.Sst.Table, Umya.Sst.indexOf? x t = indexOf? x t := by
    intro t
    induction t with
    | nil => rfl
    | cons y ys ih => simp [Umya.Sst.indexOf?, indexOf?, ih]
  unfold Umya.Sst.intern intern
  rw [e]
  cases indexOf? x t <;> rfl

end Umya.InternC01
