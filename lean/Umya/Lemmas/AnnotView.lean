/-
  Round trips of the sheet-view codecs (`Model/AnnotView.lean`).
-/
import Umya.Model.AnnotView
import Umya.Lemmas.AnnotCodec
import Umya.Thm.C17
namespace Umya.AnnotView
open Umya.Spec.Xml (Node Attr)
open Umya.Dec Umya.AnnotCodec Umya.Coord
open Umya.Thm.C17 (Range.IsShape Range.InBounds)

/-! ## enum tables -/

theorem PaneV.fromStr_toStr (v : PaneV) : PaneV.fromStr v.toStr = some v := by cases v <;> decide
theorem PaneState.fromStr_toStr (v : PaneState) : PaneState.fromStr v.toStr = some v := by cases v <;> decide
theorem ViewV.fromStr_toStr (v : ViewV) : ViewV.fromStr v.toStr = some v := by cases v <;> decide

theorem enumRead_paneV (o : Option PaneV) : enumRead PaneV.fromStr none (o.map PaneV.toStr) = o := by
  cases o <;> simp [enumRead, PaneV.fromStr_toStr]

theorem enumRead_viewV (o : Option ViewV) : enumRead ViewV.fromStr none (o.map ViewV.toStr) = o := by
  cases o <;> simp [enumRead, ViewV.fromStr_toStr]

/-! ## coordinates -/

theorem Coord.text_parse (c : Coord) (h : c.WF) :
    c.text? = some (coordinateFromIndexWithLock c.col c.row c.lockCol c.lockRow) ∧
    Coord.parse? (coordinateFromIndexWithLock c.col c.row c.lockCol c.lockRow) = some c := by
  obtain ⟨h1, h2, h3⟩ := h
  have := Umya.Thm.C17.C17_coord c.col c.row c.lockCol c.lockRow ⟨h1, h2⟩ h3
  refine ⟨this.1, ?_⟩
  simp [Coord.parse?, this.2]

theorem coordText_ne_nil (c r : Nat) (lc lr : Bool) : coordinateFromIndexWithLock c r lc lr ≠ [] := by
  intro h
  have h2 := congrArg List.length h
  simp only [coordinateFromIndexWithLock, List.length_append, List.length_nil] at h2
  have := List.length_pos_iff.2 (decDigits_ne_nil r)
  omega

/-! ## `<pane>` -/

theorem Pane.fields_nodup {Z} (p : Pane Z) (tl : Text) : ((p.fields tl).map (·.1)).Nodup := by
  simp only [Pane.fields, List.map_cons, List.map_nil]; decide

theorem Pane.read_write {Z : NumZ} (hs : Z.F.Sound) (p : Pane Z) (h : p.WF) :
    ∃ n, p.write = some n ∧ Pane.read n = some p.norm := by
  obtain ⟨ht, hp⟩ := Coord.text_parse p.topLeft h
  generalize coordinateFromIndexWithLock p.topLeft.col p.topLeft.row p.topLeft.lockCol p.topLeft.lockRow = tl at ht hp
  refine ⟨elem "pane" (render (p.fields tl)) [], by simp [Pane.write, ht], ?_⟩
  have nd := p.fields_nodup tl
  have e1 : getAttr (render (p.fields tl)) "xSplit".toList = p.xSplit.map Z.F.fmt :=
    getAttr_render _ nd (by simp [Pane.fields])
  have e2 : getAttr (render (p.fields tl)) "ySplit".toList = p.ySplit.map Z.F.fmt :=
    getAttr_render _ nd (by simp [Pane.fields])
  have e3 : getAttr (render (p.fields tl)) "topLeftCell".toList = some tl :=
    getAttr_render _ nd (by simp [Pane.fields])
  have e4 : getAttr (render (p.fields tl)) "activePane".toList = some (p.activePane.getD PaneV.dflt).toStr :=
    getAttr_render _ nd (by simp [Pane.fields])
  have e5 : getAttr (render (p.fields tl)) "state".toList = some (p.state.getD PaneState.dflt).toStr :=
    getAttr_render _ nd (by simp [Pane.fields])
  have n1 : ∀ o : Option Z.F.Num, (o.map Z.F.fmt).map (numRead Z) = o := by
    intro o; cases o <;> simp [numRead_fmt Z hs]
  simp only [Pane.read, elem, Node.attrs, e1, e2, e3, e4, e5, paneTl?, hp, n1, enumRead, PaneV.fromStr_toStr,
    PaneState.fromStr_toStr, Option.map_some, Pane.norm]

/-! ## `sqref` -/

theorem space_free_col (x : Ref) : ' ' ∉ colRefText x := by
  intro h
  simp only [colRefText, List.mem_append] at h
  rcases h with h | h
  · split at h <;> simp at h
  · have := List.all_eq_true.1 (indexToAlpha_upper x.num) _ h
    simp [isUpperAZ] at this

theorem space_free_row (x : Ref) : ' ' ∉ rowRefText x := by
  intro h
  simp only [rowRefText, List.mem_append] at h
  rcases h with h | h
  · split at h <;> simp at h
  · have := List.all_eq_true.1 (decDigits_all_digit x.num) _ h
    simp [isDigit] at this

theorem space_free_text (c r : Option Ref) : ' ' ∉ optText colRefText c ++ optText rowRefText r := by
  intro h
  simp only [List.mem_append] at h
  rcases h with h | h
  · cases c with
    | none => simp [optText] at h
    | some x => exact space_free_col x h
  · cases r with
    | none => simp [optText] at h
    | some x => exact space_free_row x h

theorem space_free_print (ρ : Range) : ' ' ∉ ρ.print := by
  intro h
  unfold Range.print at h
  split at h
  · simp only [List.mem_append, List.mem_singleton] at h
    rcases h with (h | h) | h
    · exact space_free_text _ _ (by simpa [List.mem_append] using h)
    · exact absurd h (by decide)
    · exact space_free_text _ _ (by simpa [List.mem_append] using h)
  · exact space_free_text _ _ h

theorem rowRefText_ne_nil (x : Ref) : rowRefText x ≠ [] := by
  intro h
  have h2 := congrArg List.length h
  simp only [rowRefText, List.length_append, List.length_nil] at h2
  have := List.length_pos_iff.2 (decDigits_ne_nil x.num)
  omega

theorem colRefText_ne_nil (x : Ref) : colRefText x ≠ [] := by
  intro h
  obtain ⟨c, r, hc, _⟩ := indexToAlpha_head x.num
  have h2 := congrArg List.length h
  simp only [colRefText, hc, List.length_append, List.length_cons, List.length_nil] at h2
  omega

/-- a range of one of the four shapes has a non-empty text -/
theorem print_ne_nil (ρ : Range) (hs : Range.IsShape ρ) : ρ.print ≠ [] := by
  obtain ⟨sc, sr, ec, er⟩ := ρ
  unfold Range.IsShape at hs
  simp only at hs
  have key : optText colRefText sc ++ optText rowRefText sr ≠ [] := by
    rcases hs with ⟨h1, h2, _, _⟩ | ⟨h1, h2, _, _⟩ | ⟨_, h2, _, _⟩ | ⟨h1, _, _, _⟩
    · cases sr <;> simp at h2; simp [optText, rowRefText_ne_nil]
    · cases sr <;> simp at h2; simp [optText, rowRefText_ne_nil]
    · cases sr <;> simp at h2; simp [optText, rowRefText_ne_nil]
    · cases sc <;> simp at h1; simp [optText, colRefText_ne_nil]
  unfold Range.print
  simp only
  split
  · simp
  · exact key

theorem joinCh_ne_nil (d : Char) (a : List Char) (r : List (List Char)) (h : a ≠ []) : joinCh d (a :: r) ≠ [] := by
  cases r with
  | nil => simpa [joinCh] using h
  | cons b r' => simp [joinCh, h]

theorem mapM_parse_print (rs : List Range) (h : ∀ ρ ∈ rs, Range.IsShape ρ ∧ Range.InBounds ρ) :
    (rs.map Range.print).mapM (fun piece => match Range.parse piece with | .ok ρ => some ρ | .panic => none)
      = some rs := by
  induction rs with
  | nil => rfl
  | cons ρ r ih =>
    have h1 := h ρ (by simp)
    have := Umya.Thm.C17.C17_range ρ h1.1 h1.2
    simp [List.mapM_cons, this, ih (fun x hx => h x (List.mem_cons_of_mem _ hx))]

/-- a non-empty sequence of references of the four shapes reads back, in order -/
theorem sqrefRead_sqrefText (rs : List Range) (hne : rs ≠ []) (h : ∀ ρ ∈ rs, Range.IsShape ρ ∧ Range.InBounds ρ) :
    sqrefRead (sqrefText rs) = some rs := by
  unfold sqrefRead sqrefText
  rw [splitCh_joinCh ' ' (rs.map Range.print) (by simpa using hne)
    (by intro p hp; obtain ⟨ρ, _, rfl⟩ := List.mem_map.mp hp; exact space_free_print ρ)]
  have hf : (rs.map Range.print).filter (fun p => !p.isEmpty) = rs.map Range.print := by
    apply List.filter_eq_self.2
    intro p hp
    obtain ⟨ρ, hρ, rfl⟩ := List.mem_map.mp hp
    have := print_ne_nil ρ (h ρ hρ).1
    cases hq : ρ.print with
    | nil => exact absurd hq this
    | cons a r => rfl
  rw [hf]
  exact mapM_parse_print rs h

theorem sqrefText_ne_nil (rs : List Range) (hne : rs ≠ []) (h : ∀ ρ ∈ rs, Range.IsShape ρ ∧ Range.InBounds ρ) :
    sqrefText rs ≠ [] := by
  cases rs with
  | nil => exact absurd rfl hne
  | cons ρ r => exact joinCh_ne_nil ' ' _ _ (print_ne_nil ρ (h ρ (by simp)).1)

/-! ## `<selection>` -/

/-- storable and meaningful: the active cell is on the grid the codecs cover, the ranges have one of the
    four shapes of C17 within the same bounds -/
def Selection.WF (s : Selection) : Prop :=
  (∀ c, s.activeCell = some c → c.WF) ∧ (∀ ρ ∈ s.sqref, Range.IsShape ρ ∧ Range.InBounds ρ)

theorem Selection.fields_nodup (s : Selection) (cell : Option Text) : ((s.fields cell).map (·.1)).Nodup := by
  simp only [Selection.fields, List.map_cons, List.map_nil]; decide

theorem Selection.read_write (s : Selection) (h : s.WF) : ∃ n, s.write = some n ∧ Selection.read n = some s := by
  obtain ⟨pn, ac, sq⟩ := s
  obtain ⟨h1, h2⟩ := h
  simp only at h1 h2
  -- the active cell text
  have hcell : ∃ cell : Option Text, optCoordText? ac = some cell ∧ optCoordParse? (cellAttr cell) = some ac := by
    cases ac with
    | none => exact ⟨none, rfl, rfl⟩
    | some c =>
      obtain ⟨ht, hp⟩ := Coord.text_parse c (h1 c rfl)
      refine ⟨some (coordinateFromIndexWithLock c.col c.row c.lockCol c.lockRow), by simp [optCoordText?, ht], ?_⟩
      simp [cellAttr, optCoordParse?, coordText_ne_nil, hp]
  obtain ⟨cell, hw, hr⟩ := hcell
  refine ⟨elem "selection" (render (Selection.fields ⟨pn, ac, sq⟩ cell)) [], by simp [Selection.write, hw], ?_⟩
  have nd := Selection.fields_nodup ⟨pn, ac, sq⟩ cell
  have e1 : getAttr (render (Selection.fields ⟨pn, ac, sq⟩ cell)) "pane".toList = pn.map PaneV.toStr :=
    getAttr_render _ nd (by simp [Selection.fields])
  have e2 : getAttr (render (Selection.fields ⟨pn, ac, sq⟩ cell)) "activeCell".toList = cellAttr cell :=
    getAttr_render _ nd (by simp [Selection.fields])
  have e3 : getAttr (render (Selection.fields ⟨pn, ac, sq⟩ cell)) "sqref".toList
      = (if sqrefText sq = [] then none else some (sqrefText sq)) :=
    getAttr_render _ nd (by simp [Selection.fields])
  have hsq : optSqrefRead (if sqrefText sq = [] then none else some (sqrefText sq)) = some sq := by
    cases sq with
    | nil => simp [sqrefText, joinCh, optSqrefRead]
    | cons ρ r =>
      have := sqrefText_ne_nil (ρ :: r) (by simp) h2
      simp only [this, if_false, optSqrefRead]
      exact sqrefRead_sqrefText (ρ :: r) (by simp) h2
  simp only [Selection.read, elem, Node.attrs, e1, e2, e3, hr, hsq, enumRead_paneV, Option.bind_some, Option.map_some]

/-! ## `<sheetView>` -/

theorem elemKids_elem (name : String) (as : List Attr) (ks : List Node) (h : ∀ k ∈ ks, k.isElem = true) :
    elemKids (elem name as ks) = ks := by
  simp only [elemKids, elem, Node.children]
  exact List.filter_eq_self.mpr h

theorem Selection.write_isElem (s : Selection) (n : Node) (h : s.write = some n) :
    n.isElem = true ∧ n.name = "selection".toList := by
  unfold Selection.write at h
  cases hc : optCoordText? s.activeCell with
  | none => simp [hc] at h
  | some cell => simp [hc] at h; subst h; simp [elem, Node.isElem, Node.name]

theorem readKids_selections {Z : NumZ} (ss : List Selection) (h : ∀ s ∈ ss, s.WF) (p : Option (Pane Z)) (acc : List Selection) :
    ∃ ns, ss.mapM Selection.write = some ns ∧ (∀ k ∈ ns, k.isElem = true) ∧
      readKids ns (p, acc) = some (p, acc ++ ss) := by
  induction ss generalizing acc with
  | nil => exact ⟨[], rfl, by simp, by simp [readKids]⟩
  | cons s r ih =>
    obtain ⟨n, hw, hr⟩ := Selection.read_write s (h s (by simp))
    obtain ⟨ns, hws, hel, hrs⟩ := ih (fun x hx => h x (List.mem_cons_of_mem _ hx)) (acc ++ [s])
    obtain ⟨he, hn⟩ := Selection.write_isElem s n hw
    refine ⟨n :: ns, by simp [List.mapM_cons, hw, hws], ?_, ?_⟩
    · intro k hk
      rcases List.mem_cons.mp hk with rfl | hk
      · exact he
      · exact hel k hk
    · simp only [readKids, hn, if_true, hr, Option.bind_some]
      simpa [List.append_assoc] using hrs

/-- every selection is well-formed, the pane too, the numbers are `u32` -/
def SheetView.WF {Z} (v : SheetView Z) : Prop :=
  (∀ p, v.pane = some p → p.WF) ∧ (∀ s ∈ v.selections, s.WF) ∧
  (∀ n, v.workbookViewId = some n → n < 4294967296) ∧ (∀ n, v.zoomScale = some n → n < 4294967296) ∧
  (∀ n, v.zoomScaleNormal = some n → n < 4294967296) ∧ (∀ n, v.zoomScalePageLayoutView = some n → n < 4294967296) ∧
  (∀ n, v.zoomScaleSheetLayoutView = some n → n < 4294967296)

theorem SheetView.fields_nodup {Z} (v : SheetView Z) : (v.fields.map (·.1)).Nodup := by
  simp only [SheetView.fields, List.map_cons, List.map_nil]; decide

theorem Pane.write_isElem {Z} (p : Pane Z) (n : Node) (h : p.write = some n) :
    n.isElem = true ∧ n.name = "pane".toList := by
  unfold Pane.write at h
  cases hc : p.topLeft.text? with
  | none => simp [hc] at h
  | some tl => simp [hc] at h; subst h; simp [elem, Node.isElem, Node.name]

theorem SheetView.read_write {Z : NumZ} (hs : Z.F.Sound) (v : SheetView Z) (h : v.WF) :
    ∃ n, v.write = some n ∧ n.isElem = true ∧ n.name = "sheetView".toList ∧ SheetView.read n = some v.norm := by
  obtain ⟨hp, hsel, h1, h2, h3, h4, h5⟩ := h
  -- children
  have hk : ∃ pn : List Node, paneKids v.pane = some pn ∧
      (∀ k ∈ pn, k.isElem = true) ∧
      ∀ ns : List Node, (∀ acc : List Selection, readKids ns (v.pane.map Pane.norm, acc) = some (v.pane.map Pane.norm, acc ++ v.selections)) →
        readKids (pn ++ ns) ((none : Option (Pane Z)), []) = some (v.pane.map Pane.norm, v.selections) := by
    cases hv : v.pane with
    | none =>
      refine ⟨[], rfl, by simp, ?_⟩
      intro ns hns
      simpa using hns []
    | some p =>
      obtain ⟨n, hw, hr⟩ := Pane.read_write hs p (hp p hv)
      obtain ⟨he, hn⟩ := Pane.write_isElem p n hw
      refine ⟨[n], by simp [paneKids, hw], by simpa using he, ?_⟩
      intro ns hns
      simp only [List.singleton_append, readKids, hn, if_true, hr, Option.bind_some, Option.map_some]
      simpa using hns []
  obtain ⟨pn, hpw, hpe, hpr⟩ := hk
  obtain ⟨ns, hws, hel, hrs⟩ := readKids_selections (Z := Z) v.selections hsel (v.pane.map Pane.norm) []
  have hrs' : ∀ acc : List Selection, readKids ns (v.pane.map Pane.norm, acc) = some (v.pane.map Pane.norm, acc ++ v.selections) := by
    intro acc
    obtain ⟨ns', hws', _, hrs'⟩ := readKids_selections (Z := Z) v.selections hsel (v.pane.map Pane.norm) acc
    rw [hws] at hws'; injection hws' with e; subst e; exact hrs'
  refine ⟨elem "sheetView" (render v.fields) (pn ++ ns), by simp [SheetView.write, hpw, hws],
    by simp [elem, Node.isElem], by simp [elem, Node.name], ?_⟩
  have hkids : elemKids (elem "sheetView" (render v.fields) (pn ++ ns)) = pn ++ ns :=
    elemKids_elem _ _ _ (by
      intro k hk
      rcases List.mem_append.mp hk with hk | hk
      · exact hpe k hk
      · exact hel k hk)
  have nd := v.fields_nodup
  have e1 : getAttr (render v.fields) "showGridLines".toList = v.showGridLines.map boolStr :=
    getAttr_render _ nd (by simp [SheetView.fields])
  have e2 : getAttr (render v.fields) "tabSelected".toList = (if v.tabSelected.getD false then some (boolStr true) else none) :=
    getAttr_render _ nd (by simp [SheetView.fields])
  have e3 : getAttr (render v.fields) "view".toList = v.view.map ViewV.toStr :=
    getAttr_render _ nd (by simp [SheetView.fields])
  have e4 : getAttr (render v.fields) "zoomScale".toList = v.zoomScale.map decDigits :=
    getAttr_render _ nd (by simp [SheetView.fields])
  have e5 : getAttr (render v.fields) "zoomScaleNormal".toList = v.zoomScaleNormal.map decDigits :=
    getAttr_render _ nd (by simp [SheetView.fields])
  have e6 : getAttr (render v.fields) "zoomScalePageLayoutView".toList = v.zoomScalePageLayoutView.map decDigits :=
    getAttr_render _ nd (by simp [SheetView.fields])
  have e7 : getAttr (render v.fields) "zoomScaleSheetLayoutView".toList = v.zoomScaleSheetLayoutView.map decDigits :=
    getAttr_render _ nd (by simp [SheetView.fields])
  have e8 : getAttr (render v.fields) "topLeftCell".toList = v.topLeftCell :=
    getAttr_render _ nd (by simp [SheetView.fields])
  have e9 : getAttr (render v.fields) "workbookViewId".toList = some (u32Str v.workbookViewId) :=
    getAttr_render _ nd (by simp [SheetView.fields])
  have hwid : optU32 (some (u32Str v.workbookViewId)) = some (some (v.workbookViewId.getD 0)) := by
    have : v.workbookViewId.getD 0 < 4294967296 := by
      cases hv : v.workbookViewId with
      | none => simp
      | some n => simpa using h1 n hv
    simp [optU32, u32Str, u32Attr_decDigits _ this]
  have htab : optBool (if v.tabSelected.getD false then some (boolStr true) else none)
      = (if v.tabSelected.getD false then some true else none) := by
    split <;> simp [optBool, boolRead_boolStr]
  rw [SheetView.read, hkids]
  simp only [elem, Node.attrs, e1, e2, e3, e4, e5, e6, e7, e8, e9, hwid, htab,
    optU32_map_decDigits _ h2, optU32_map_decDigits _ h3, optU32_map_decDigits _ h4, optU32_map_decDigits _ h5,
    optBool_map_boolStr, enumRead_viewV, hpr ns hrs', Option.bind_some, Option.map_some, SheetView.norm]

/-! ## `<sheetViews>` -/

theorem writeViews_readViews {Z : NumZ} (hs : Z.F.Sound) (vs : List (SheetView Z)) (hne : vs ≠ [])
    (h : ∀ v ∈ vs, v.WF) :
    ∃ n, writeViews vs = some [n] ∧ readViews n = some (vs.map SheetView.norm) := by
  have key : ∃ ks, vs.mapM SheetView.write = some ks ∧ (∀ k ∈ ks, k.isElem = true ∧ k.name = "sheetView".toList) ∧
      ks.mapM (SheetView.read (Z := Z)) = some (vs.map SheetView.norm) := by
    clear hne
    induction vs with
    | nil => exact ⟨[], rfl, by simp, rfl⟩
    | cons v r ih =>
      obtain ⟨n, hw, he, hn, hr⟩ := SheetView.read_write hs v (h v (by simp))
      obtain ⟨ks, hws, hes, hrs⟩ := ih (fun x hx => h x (List.mem_cons_of_mem _ hx))
      refine ⟨n :: ks, by simp [List.mapM_cons, hw, hws], ?_, by simp [List.mapM_cons, hr, hrs]⟩
      intro k hk
      rcases List.mem_cons.mp hk with rfl | hk
      · exact ⟨he, hn⟩
      · exact hes k hk
  obtain ⟨ks, hws, hes, hrs⟩ := key
  refine ⟨elem "sheetViews" [] ks, ?_, ?_⟩
  · have : vs.isEmpty = false := by cases vs <;> simp_all
    simp [writeViews, this, hws]
  · unfold readViews
    rw [elemKids_elem _ _ _ (fun k hk => (hes k hk).1)]
    rw [List.filter_eq_self.mpr (fun k hk => decide_eq_true (hes k hk).2)]
    exact hrs

/-! ## norm -/

theorem Pane.norm_idem {Z} (p : Pane Z) : p.norm.norm = p.norm := by simp [Pane.norm]

theorem SheetView.norm_idem {Z} (v : SheetView Z) : v.norm.norm = v.norm := by
  cases hp : v.pane <;> cases ht : v.tabSelected.getD false <;> simp [SheetView.norm, hp, ht, Pane.norm]

end Umya.AnnotView
