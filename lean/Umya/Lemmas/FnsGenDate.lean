/-
  (T) translator, part 3 — `src/helper/date.rs`: `convert_date_crate` and `excel_to_date_time_object_checked` / `excel_to_date_time_object`
  as compiled from the source on this run are the hand model's `convertDateCrate` (+ `serialOf`) and
  `excelToEpochSecondsChecked` (`Umya/Model/Date.lean`), for all arguments and every float interface.
-/
import Umya.Lemmas.FnsGen
import Umya.Model.Date
namespace Umya.Gen
open Umya.Date Umya.Spec.Calendar
set_option linter.unusedSimpArgs false

/-! the run-time library of the compiled code is the model's -/
theorem i32q_bind {β} (x : Int) (f : Int → Option β) :
    (i32? x).bind f = guardO (-2147483648 ≤ x ∧ x ≤ 2147483647) (f x) := by
  unfold i32? guardO; split <;> simp
theorem i32q_eq (x : Int) : i32? x = guardO (-2147483648 ≤ x ∧ x ≤ 2147483647) (some x) := rfl
theorem rt_i32_to_string_eq : rt_i32_to_string = i32ToString := rfl
theorem rt_slice_eq : rt_slice = slice := rfl
theorem rt_parse_i32_eq : rt_parse_i32 = parseI32 := by funext cs; rfl

/-- the model's float interface, seen as the compiled code's -/
instance rfloatOfFloatOps (F : Type) [FloatOps F] : RFloat F :=
  ⟨FloatOps.ofInt, FloatOps.add, FloatOps.sub, FloatOps.mul, FloatOps.div, FloatOps.floor, FloatOps.round,
   FloatOps.lt, FloatOps.toInt⟩

theorem rf_ofInt (F : Type) [FloatOps F] (x : Int) : (RFloat.ofInt x : F) = FloatOps.ofInt x := rfl
theorem rf_add (F : Type) [FloatOps F] (x y : F) : RFloat.add x y = FloatOps.add x y := rfl
theorem rf_sub (F : Type) [FloatOps F] (x y : F) : RFloat.sub x y = FloatOps.sub x y := rfl
theorem rf_mul (F : Type) [FloatOps F] (x y : F) : RFloat.mul x y = FloatOps.mul x y := rfl
theorem rf_div (F : Type) [FloatOps F] (x y : F) : RFloat.div x y = FloatOps.div x y := rfl
theorem rf_floor (F : Type) [FloatOps F] (x : F) : RFloat.floor x = FloatOps.floor x := rfl
theorem rf_round (F : Type) [FloatOps F] (x : F) : RFloat.round x = FloatOps.round x := rfl
theorem rf_lt (F : Type) [FloatOps F] (x y : F) : RFloat.lt x y = FloatOps.lt x y := rfl
theorem rf_toInt (F : Type) [FloatOps F] (x : F) : RFloat.toInt x = FloatOps.toInt x := rfl

theorem slice_bind {β} (s : List Char) (a b : Nat) (f : List Char → Option β) :
    (slice s a b).bind f = guardO (a ≤ b ∧ b ≤ s.length) (f ((s.drop a).take (b - a))) := by
  unfold slice guardO; split <;> simp
theorem slice_eq (s : List Char) (a b : Nat) :
    slice s a b = guardO (a ≤ b ∧ b ≤ s.length) (some ((s.drop a).take (b - a))) := rfl

/-- normal form of an `Option` program: guards folded (checked arithmetic, slices), binds right-nested and pushed through
    conditionals, maps pushed to the leaves -/
macro "opt_norm" : tactic => `(tactic| simp only [rt_i32_to_string_eq, rt_slice_eq, rt_parse_i32_eq, Option.bind_eq_bind,
    Option.pure_def, i32c_bind, i32q_bind, i32c_eq, i32q_eq, slice_bind, slice_eq, guardO_bind, guardO_map, guardO_guardO,
    guardO_none, guardO_eq_some_iff, guardO_eq_none_iff, Option.bind_assoc, Option.bind_some, Option.bind_none, Option.map_bind, Option.map_some, Option.map_none,
    Function.comp_def, ite_bind', ite_map', Bool.and_eq_true, Bool.or_eq_true, Bool.or_eq_false_iff, Bool.and_eq_false_iff,
    Bool.not_eq_true', Bool.not_eq_false', Bool.not_eq_true, Bool.not_eq_false, Bool.not_not, decide_eq_true_eq, decide_eq_false_iff_not,
    rf_ofInt, rf_add, rf_sub, rf_mul, rf_div, rf_floor,
    rf_round, rf_lt, rf_toInt, if_true, if_false, ite_true, ite_false, Bool.false_eq_true, Bool.true_eq_false, ↓reduceIte, *] at *)

/-- split every conditional of both sides, then every bind of an opaque option (as a `match`), normalising on the way;
    compare the leaves -/
macro "opt_eq" : tactic => `(tactic|
  ((try opt_norm)
   repeat' (split <;> (try opt_norm))
   all_goals (try simp only [bind_as_match] at *)
   repeat' (split <;> (try opt_norm))
   all_goals opt_leaf))

/-- `convert_date_crate` as it is in the source = the model's integer part followed by `serialOf` -/
theorem gen_convert_date_crate (F : Type) [FloatOps F] (y m d h mi s : Int) (w : Bool) :
    convert_date_crate F y m d h mi s w = (convertDateCrate y m d h mi s w).map (fun p => serialOf F p.1 p.2) := by
  unfold convert_date_crate convertDateCrate adjustMonthYear centuryDecade excelDate excelSecs serialOf
  cases w <;> opt_eq

/-- chrono's calendar is represented by the reference calendar (trusted, as in the model) -/
def refChrono : Chrono := ⟨daysFromCivil⟩

/-! chrono's checked arithmetic in the run-time library of the compiled code is the model's -/
theorem rt_f64_as_i64_eq (F : Type) [FloatOps F] (x : F) : rt_f64_as_i64 x = clampI64 (FloatOps.toInt x) := rfl
theorem rt_try_units_eq : rt_try_units = tryUnits := rfl
theorem rt_checked_add_signed_eq (t d : Int) : rt_checked_add_signed refChrono t d = checkedAddSigned t d := rfl
theorem midnight_ref (y m d : Int) : Chrono.midnight refChrono y m d = daysFromCivil y m d * 86400 := rfl

/-- the three base dates, in seconds (closed terms: evaluated once) -/
theorem base_seconds : daysFromCivil 1970 1 1 * 86400 = 0 ∧ daysFromCivil 1899 12 31 * 86400 = -2209075200 ∧
    daysFromCivil 1899 12 30 * 86400 = -2209161600 := by decide

theorem tryUnits_bind {β} (u n : Int) (f : Int → Option β) :
    (tryUnits u n).bind f =
      guardO ((-9223372036854775808 ≤ n * u ∧ n * u ≤ 9223372036854775807) ∧
              (-9223372036854775 ≤ n * u ∧ n * u ≤ 9223372036854775)) (f (n * u)) := by
  unfold tryUnits i64? trySeconds guardO
  by_cases h1 : -9223372036854775808 ≤ n * u ∧ n * u ≤ 9223372036854775807 <;>
    by_cases h2 : -9223372036854775 ≤ n * u ∧ n * u ≤ 9223372036854775 <;> simp [h1, h2]

theorem tryUnits_eq (u n : Int) :
    tryUnits u n =
      guardO ((-9223372036854775808 ≤ n * u ∧ n * u ≤ 9223372036854775807) ∧
              (-9223372036854775 ≤ n * u ∧ n * u ≤ 9223372036854775)) (some (n * u)) := by
  have := tryUnits_bind u n some
  simpa using this

theorem checkedAddSigned_bind {β} (t d : Int) (f : Int → Option β) :
    (checkedAddSigned t d).bind f = guardO (chronoMinSec ≤ t + d ∧ t + d ≤ chronoMaxSec) (f (t + d)) := by
  unfold checkedAddSigned guardO; split <;> simp

theorem checkedAddSigned_eq (t d : Int) :
    checkedAddSigned t d = guardO (chronoMinSec ≤ t + d ∧ t + d ≤ chronoMaxSec) (some (t + d)) := rfl

/-- `excel_to_date_time_object_checked` as it is in the source — base date by the two thresholds, the floor /
    fraction chain, the saturating `as i64`, `Duration::try_*` and `checked_add_signed` with `?` — is the model's
    `excelToEpochSecondsChecked` (`none` = the function returns `None`); the unused time-zone argument is
    irrelevant.  Both sides are brought to guard normal form, so the order of the checks does not matter. -/
theorem gen_excel_to_date_time_object_checked (F : Type) [FloatOps F] (ts : F) (tz : Option (List Char)) :
    excel_to_date_time_object_checked F refChrono ts tz = excelToEpochSecondsChecked ts := by
  obtain ⟨b1, b2, b3⟩ := base_seconds
  unfold excel_to_date_time_object_checked excelToEpochSecondsChecked baseFor base1970 base18991231 base18991230
  simp only [rt_f64_as_i64_eq, rt_try_units_eq, rt_checked_add_signed_eq, midnight_ref, rf_ofInt, rf_add, rf_sub,
    rf_mul, rf_div, rf_floor, rf_round, rf_lt, rf_toInt, Option.bind_eq_bind, bind, tryUnits_bind, tryUnits_eq,
    checkedAddSigned_bind, checkedAddSigned_eq, guardO_bind, guardO_guardO, guardO_none, Option.bind_some, Option.bind_none,
    b1, b2, b3, Int.zero_mul]
  -- the two thresholds: every combination of the two comparisons (an abstract float interface need not order them)
  rcases Bool.eq_false_or_eq_true (FloatOps.lt ts (FloatOps.ofInt 1 : F)) with h1 | h1 <;>
  rcases Bool.eq_false_or_eq_true (FloatOps.lt ts (FloatOps.ofInt 60 : F)) with h60 | h60 <;>
    simp only [h1, h60, b1, b2, b3, Bool.not_true, Bool.not_false, Bool.false_eq_true, Bool.true_eq_false, eq_self, if_true,
      if_false, ↓reduceIte, Int.zero_mul] <;> opt_eq

/-- the public `excel_to_date_time_object` as it is in the source (`…_checked(..).expect(..)`): `none` = the Rust
    panics, exactly where the checked function returns `None` -/
theorem gen_excel_to_date_time_object (F : Type) [FloatOps F] (ts : F) (tz : Option (List Char)) :
    excel_to_date_time_object F refChrono ts tz = excelToEpochSecondsChecked ts := by
  unfold excel_to_date_time_object
  rw [gen_excel_to_date_time_object_checked]
  cases excelToEpochSecondsChecked ts <;> rfl

/-- the end of `format_as_date` as it is in the source — `match excel_to_date_time_object_checked(value, None)`,
    `None => return value.to_string()`, otherwise chrono's rendering of the date-time under the converted format —
    followed by the trimming `to_formatted_string` does, is the model's `formatAsDateChecked`: `g` stands for
    `f64::to_string(value)`, chrono's `format(..).to_string()` is represented by the model's `strftime`
    (`none` = outside the modelled specifiers), `sf` is the strftime string of the format `f` -/
theorem gen_format_as_date_tail (F : Type) [FloatOps F] (f g sf : List Char) (ts : F) (h : strftimeOf f = some sf) :
    (format_as_date_tail F refChrono (fun t s => strftime (ofEpochSeconds t) s (s.length + 1)) (fun _ => g) ts sf).map trimBlanks
      = formatAsDateChecked f g ts := by
  unfold format_as_date_tail formatAsDateChecked
  rw [gen_excel_to_date_time_object_checked, h]
  cases excelToEpochSecondsChecked ts <;> simp

end Umya.Gen
