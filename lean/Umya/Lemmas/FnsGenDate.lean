/-
  (T) translator, part 3 — `src/helper/date.rs`: `convert_date_crate` and `excel_to_date_time_object`
  as compiled from the source on this run are the hand model's `convertDateCrate` (+ `serialOf`) and
  `excelToEpochSeconds` (`Umya/Model/Date.lean`), for all arguments and every float interface.
-/
import Umya.Lemmas.FnsGen
import Umya.Model.Date
namespace Umya.Gen
open Umya.Date Umya.Spec.Calendar
set_option linter.unusedSimpArgs false

/-! the run-time library of the compiled code is the model's -/
theorem i32q_bind {β} (x : Int) (f : Int → Option β) :
    (i32? x).bind f = guardO (-2147483648 ≤ x ∧ x ≤ 2147483647) (f x) := by
  unfold i32? guardO; split <;> simp
theorem i32q_eq (x : Int) : i32? x = guardO (-2147483648 ≤ x ∧ x ≤ 2147483647) (some x) := rfl
theorem rt_i32_to_string_eq : rt_i32_to_string = i32ToString := rfl
theorem rt_slice_eq : rt_slice = slice := rfl
theorem rt_parse_i32_eq : rt_parse_i32 = parseI32 := by funext cs; rfl

/-- the model's float interface, seen as the compiled code's -/
instance rfloatOfFloatOps (F : Type) [FloatOps F] : RFloat F :=
  ⟨FloatOps.ofInt, FloatOps.add, FloatOps.sub, FloatOps.mul, FloatOps.div, FloatOps.floor, FloatOps.round,
   FloatOps.lt, FloatOps.toInt⟩

theorem rf_ofInt (F : Type) [FloatOps F] (x : Int) : (RFloat.ofInt x : F) = FloatOps.ofInt x := rfl
theorem rf_add (F : Type) [FloatOps F] (x y : F) : RFloat.add x y = FloatOps.add x y := rfl
theorem rf_sub (F : Type) [FloatOps F] (x y : F) : RFloat.sub x y = FloatOps.sub x y := rfl
theorem rf_mul (F : Type) [FloatOps F] (x y : F) : RFloat.mul x y = FloatOps.mul x y := rfl
theorem rf_div (F : Type) [FloatOps F] (x y : F) : RFloat.div x y = FloatOps.div x y := rfl
theorem rf_floor (F : Type) [FloatOps F] (x : F) : RFloat.floor x = FloatOps.floor x := rfl
theorem rf_round (F : Type) [FloatOps F] (x : F) : RFloat.round x = FloatOps.round x := rfl
theorem rf_lt (F : Type) [FloatOps F] (x y : F) : RFloat.lt x y = FloatOps.lt x y := rfl
theorem rf_toInt (F : Type) [FloatOps F] (x : F) : RFloat.toInt x = FloatOps.toInt x := rfl

/-- normal form of an `Option` program: guards folded, binds right-nested, maps pushed to the leaves -/
macro "opt_norm" : tactic => `(tactic| simp only [rt_i32_to_string_eq, rt_slice_eq, rt_parse_i32_eq, Option.bind_eq_bind,
    Option.pure_def, i32c_bind, i32q_bind, i32c_eq, i32q_eq, guardO_bind, guardO_map, guardO_guardO, Option.bind_assoc,
    Option.bind_some, Option.map_bind, Option.map_some, Function.comp_def, Bool.and_eq_true, Bool.or_eq_true,
    Bool.not_eq_true', decide_eq_true_eq, decide_eq_false_iff_not, rf_ofInt, rf_add, rf_sub, rf_mul, rf_div, rf_floor,
    rf_round, rf_lt, rf_toInt, if_true, if_false, ite_true, ite_false, *] at *)

syntax "opt_eq" : tactic
macro_rules | `(tactic| opt_eq) => `(tactic| first
  | rfl
  | omega
  | (apply guardO_congr (by arith); intro _; opt_eq)
  | (apply bind_congr'; intro _; opt_eq)
  | (apply some_congr'; arith_congr)
  | (split <;> (try opt_norm) <;> opt_eq))

/-- `convert_date_crate` as it is in the source = the model's integer part followed by `serialOf` -/
theorem gen_convert_date_crate (F : Type) [FloatOps F] (y m d h mi s : Int) (w : Bool) :
    convert_date_crate F y m d h mi s w = (convertDateCrate y m d h mi s w).map (fun p => serialOf F p.1 p.2) := by
  unfold convert_date_crate convertDateCrate adjustMonthYear centuryDecade excelDate excelSecs serialOf
  opt_norm
  opt_eq

/-- chrono's calendar is represented by the reference calendar (trusted, as in the model) -/
def refChrono : Chrono := ⟨daysFromCivil⟩

syntax "int_eq" : tactic
macro_rules | `(tactic| int_eq) => `(tactic| first
  | rfl
  | omega
  | (split <;> (try simp only [*, if_true, if_false] at *) <;> int_eq))

/-- `excel_to_date_time_object` as it is in the source (base date by the two thresholds, the floor / fraction
    chain, the `Duration` sum) = the model's second count; the unused time-zone argument is irrelevant -/
theorem gen_excel_to_date_time_object (F : Type) [FloatOps F] (ts : F) (tz : Option (List Char)) :
    excel_to_date_time_object F refChrono ts tz = excelToEpochSeconds ts := by
  have e1970 : daysFromCivil 1970 1 1 = 0 := by decide
  unfold excel_to_date_time_object excelToEpochSeconds splitSeconds baseFor Chrono.midnight refChrono
    base1970 base18991231 base18991230
  simp only [rf_ofInt, rf_add, rf_sub, rf_mul, rf_div, rf_floor, rf_round, rf_lt, rf_toInt, e1970]
  int_eq

end Umya.Gen
