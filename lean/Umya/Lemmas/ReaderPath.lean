/-
  The reader's path functions (`Umya.Reader.joinPaths` = reader/driver.rs `join_paths` + `normalize_path`, `stripXl` =
  workbook_rels.rs, `relsPartOf` = `RawFile::make_rel_name`) against the decoder's (`Spec.Sml.resolveTargetL`,
  `relsNameOfL`: OPC Part 2 §8.3 / §8.5 on `List Char`).
-/
import Umya.Model.ReaderBook
import Umya.Spec.Sml
namespace Umya.Reader.Lemmas
open Umya.Reader Umya.Spec.Sml

/-! ## splitting and joining are the same functions on both sides -/

theorem splitSlash_cons (c : Char) (r : List Char) :
    splitSlash (c :: r) = if c = '/' then [] :: splitSlash r else
      match splitSlash r with
      | [] => [[c]]
      | h :: r' => (c :: h) :: r' := rfl

theorem splitSlash_eq (t : List Char) : splitSlash t = splitOnChar '/' t := by
  induction t with
  | nil => rfl
  | cons c r ih =>
    rw [splitSlash_cons, ih]
    by_cases h : c = '/'
    · simp [h, splitOnChar, splitGo]
    · simp [h, splitOnChar, splitGo]

theorem joinSlash_eq : ∀ segs : List (List Char), joinSlash segs = joinSegs segs
  | [] => rfl
  | [a] => by simp [joinSlash, joinSegs, List.intercalate, List.intersperse]
  | a :: b :: r => by
    have ih := joinSlash_eq (b :: r)
    simp only [joinSegs, List.intercalate] at ih ⊢
    simp only [joinSlash, ih, List.intersperse, List.flatten_cons, List.singleton_append]

theorem normSegs_eq : ∀ (l acc : List (List Char)), normSegs acc l = resolveSegs acc (l.filter (· ≠ [])) := by
  intro l
  induction l with
  | nil => intro acc; rfl
  | cons s rest ih =>
    intro acc
    unfold normSegs
    by_cases h0 : s = []
    · subst h0
      simp [ih]
    · have hf : (s :: rest).filter (· ≠ []) = s :: rest.filter (· ≠ []) := by simp [h0]
      rw [hf]
      by_cases h1 : s = ['.']
      · subst h1
        simp only [or_true, if_true, ih]
        rw [resolveSegs]
        simp
      · by_cases h2 : s = ['.', '.']
        · subst h2
          simp only [ih]
          rw [resolveSegs]
          simp
        · simp only [h0, h1, h2, or_self, if_false, ih]
          rw [resolveSegs]
          simp [h1, h2]

theorem splitOnChar_cons_eq (c : Char) (r : List Char) : splitOnChar c (c :: r) = [] :: splitOnChar c r := by
  simp [splitOnChar, splitGo]

/-- no dot segments: nothing to resolve -/
theorem resolveSegs_clean : ∀ (l acc : List (List Char)), (∀ s ∈ l, s ≠ ['.'] ∧ s ≠ ['.', '.']) → resolveSegs acc l = acc ++ l := by
  intro l
  induction l with
  | nil => intro acc _; simp [resolveSegs]
  | cons s rest ih =>
    intro acc h
    have hs := h s List.mem_cons_self
    rw [resolveSegs]
    simp only [hs.1, hs.2, if_false]
    rw [ih _ (fun x hx => h x (List.mem_cons_of_mem _ hx))]
    simp

/-! ## the targets -/

/-- a segment of an absolute target: not empty, not `.`, not `..` -/
def cleanSeg (s : List Char) : Bool := decide (s ≠ []) && decide (s ≠ ['.']) && decide (s ≠ ['.', '.'])

/-- **the targets for which `join_paths("xl", target)` (after workbook_rels.rs took `/xl/` off) is the part the
    standard's resolution names.**  A RELATIVE target — `worksheets/sheet1.xml`, `../xl/worksheets/sheet1.xml`,
    `./worksheets//sheet1.xml`, anything that does not start with `/` — is always fine: both sides drop empty segments and
    `.` and let `..` pop.  An ABSOLUTE target (`/xl/worksheets/sheet1.xml`) must be in normal form: the standard does
    not resolve dot segments of an absolute part name (they are not allowed there, Part 2 §6.2.2.2), the library does, and
    the library's `/xl/` stripping sees the characters, not the segments (`/xl//a` would be re-read as absolute). -/
def targetOk (t : List Char) : Bool :=
  match t with
  | '/' :: r => (splitOnChar '/' r).all cleanSeg
  | _ => true

theorem stripXl_rel (c : Char) (r : List Char) (hc : c ≠ '/') : stripXl (c :: r) = c :: r := by
  unfold stripXl
  split
  · rename_i heq; injection heq with h1 _; exact absurd h1 hc
  · rfl

theorem xlBase : (segsOf "xl/workbook.xml".toList).dropLast = [['x', 'l']] := by decide

/-- a relative target against the base `xl` -/
theorem joinPaths_rel (c : Char) (r : List Char) (hc : c ≠ '/') :
    joinPaths "xl".toList (c :: r) = joinSegs (resolveSegs [['x', 'l']] (segsOf (c :: r))) := by
  have e : joinPaths "xl".toList (c :: r) = joinSlash (normSegs [] (splitSlash ("xl".toList ++ '/' :: c :: r))) := by
    unfold joinPaths
    split
    · rename_i heq; injection heq with h1 _; exact absurd h1 hc
    · rfl
  rw [e, joinSlash_eq, normSegs_eq, splitSlash_eq]
  have e2 : splitOnChar '/' ("xl".toList ++ '/' :: c :: r) = ['x', 'l'] :: splitOnChar '/' (c :: r) := by
    show splitOnChar '/' ('x' :: 'l' :: '/' :: c :: r) = _
    simp [splitOnChar, splitGo]
  rw [e2]
  have e3 : (['x', 'l'] :: splitOnChar '/' (c :: r)).filter (· ≠ []) = ['x', 'l'] :: segsOf (c :: r) := by
    simp [segsOf]
  rw [e3, resolveSegs]
  simp

theorem joinPaths_rel_nil : joinPaths "xl".toList [] = joinSegs (resolveSegs [['x', 'l']] (segsOf [])) := by decide

theorem all_clean_filter (l : List (List Char)) (h : l.all cleanSeg = true) : l.filter (· ≠ []) = l := by
  rw [List.filter_eq_self]
  intro s hs
  have := List.all_eq_true.mp h s hs
  simp only [cleanSeg, Bool.and_eq_true, decide_eq_true_eq] at this
  simpa using this.1.1

theorem all_clean_nodots (l : List (List Char)) (h : l.all cleanSeg = true) : ∀ s ∈ l, s ≠ ['.'] ∧ s ≠ ['.', '.'] := by
  intro s hs
  have := List.all_eq_true.mp h s hs
  simp only [cleanSeg, Bool.and_eq_true, decide_eq_true_eq] at this
  exact ⟨this.1.2, this.2⟩

/-- **`join_paths` = the standard's resolution** for the workbook's relationship targets -/
theorem joinPaths_resolve (t : List Char) (h : targetOk t = true) :
    joinPaths "xl".toList (stripXl t) = resolveTargetL "xl/workbook.xml".toList t := by
  cases t with
  | nil => decide
  | cons c r =>
    by_cases hc : c = '/'
    · subst hc
      have hcl : (splitOnChar '/' r).all cleanSeg = true := h
      have spec : resolveTargetL "xl/workbook.xml".toList ('/' :: r) = joinSegs (splitOnChar '/' r) := by
        unfold resolveTargetL
        simp only [List.head?_cons, if_true, segsOf, splitOnChar_cons_eq]
        have : ([] :: splitOnChar '/' r).filter (· ≠ []) = (splitOnChar '/' r).filter (· ≠ []) := by simp
        rw [this, all_clean_filter _ hcl]
      rw [spec]
      unfold stripXl
      split
      · -- `/xl/r'`
        rename_i r' heq
        injection heq with _ heq
        subst heq
        have e2 : splitOnChar '/' ('x' :: 'l' :: '/' :: r') = ['x', 'l'] :: splitOnChar '/' r' := by
          simp [splitOnChar, splitGo]
        rw [e2] at hcl ⊢
        simp only [List.all_cons, Bool.and_eq_true] at hcl
        have hcl' := hcl.2
        cases r' with
        | nil => simp [splitOnChar, splitGo, cleanSeg] at hcl'
        | cons d r'' =>
          have hd : d ≠ '/' := by
            intro e; subst e
            rw [splitOnChar_cons_eq] at hcl'
            simp [cleanSeg] at hcl'
          rw [joinPaths_rel d r'' hd, segsOf, all_clean_filter _ hcl', resolveSegs_clean _ _ (all_clean_nodots _ hcl')]
          rfl
      · -- any other absolute target stands for itself
        have e : joinPaths "xl".toList ('/' :: r) = joinSlash (normSegs [] (splitSlash r)) := rfl
        rw [e, joinSlash_eq, normSegs_eq, splitSlash_eq, all_clean_filter _ hcl, resolveSegs_clean _ _ (all_clean_nodots _ hcl)]
        rfl
    · rw [stripXl_rel c r hc, joinPaths_rel c r hc]
      unfold resolveTargetL
      have : ¬ ((c :: r).head? = some '/') := by simpa using hc
      simp only [this, if_false, xlBase]

end Umya.Reader.Lemmas
