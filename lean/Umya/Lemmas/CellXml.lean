import Umya.Model.CellXml
import Umya.Lemmas.Xml
import Umya.Lemmas.InternC01
import Umya.Lemmas.Coord
namespace Umya.CellXml
open Umya.Xml Umya.Num Umya.Coord Umya.Dec

/-! ## typing by guessing -/

theorem mem_upper {s : Text} {c : Char} (h : c ∈ upper s) : ∃ d ∈ s, upChar d = c := by
  simpa [upper] using h

theorem numChar_cases {c : Char} (h : numChar c = true) :
    c = '-' ∨ c = '0' ∨ c = '1' ∨ c = '2' ∨ c = '3' ∨ c = '4' ∨ c = '5' ∨ c = '6' ∨ c = '7' ∨ c = '8' ∨ c = '9' ∨
    c = '.' ∨ c = 'e' ∨ c = 'E' ∨ c = '+' ∨ c = 'i' ∨ c = 'n' ∨ c = 'f' ∨ c = 'N' ∨ c = 'a' := by
  simpa [numChar] using h

/-- no character of a number text upper-cases to `T`, `L` or `#`, and none is an XML blank -/
theorem numChar_props {c : Char} (h : numChar c = true) :
    upChar c ≠ 'T' ∧ upChar c ≠ 'L' ∧ upChar c ≠ '#' ∧ isXmlWs c = false := by
  rcases numChar_cases h with h | h | h | h | h | h | h | h | h | h | h | h | h | h | h | h | h | h | h | h <;>
    subst h <;> decide

theorem errText_mem_hash (e : ErrT) : '#' ∈ e.text := by cases e <;> simp [ErrT.text]

theorem errText_ne_nil (e : ErrT) : e.text ≠ [] := by cases e <;> simp [ErrT.text]

theorem errText_no_ws (e : ErrT) : ∀ c ∈ e.text, isXmlWs c = false := by
  cases e <;> decide

theorem ofText?_none_of_no_hash {u : Text} (h : '#' ∉ u) : ErrT.ofText? u = none := by
  unfold ErrT.ofText?
  rw [List.find?_eq_none]
  intro e _ he
  have : e.text = u := by simpa using he
  exact h (this ▸ errText_mem_hash e)

section
variable (F : NumFmt)

/-- a printed number is typed as that number when read back -/
theorem guess_fmt (hF : F.Sound) (n : F.Num) : guess F (F.fmt n) = .num n := by
  have hT : 'T' ∉ upper (F.fmt n) := by
    intro h; obtain ⟨d, hd, e⟩ := mem_upper h; exact (numChar_props (hF.fmt_chars n d hd)).1 e
  have hL : 'L' ∉ upper (F.fmt n) := by
    intro h; obtain ⟨d, hd, e⟩ := mem_upper h; exact (numChar_props (hF.fmt_chars n d hd)).2.1 e
  have hH : '#' ∉ upper (F.fmt n) := by
    intro h; obtain ⟨d, hd, e⟩ := mem_upper h; exact (numChar_props (hF.fmt_chars n d hd)).2.2.1 e
  have h0 : upper (F.fmt n) ≠ [] := by
    intro h; exact hF.fmt_ne n (by simpa [upper] using h)
  have h1 : upper (F.fmt n) ≠ sTRUE := by intro h; rw [h] at hT; exact hT (by decide)
  have h2 : upper (F.fmt n) ≠ sFALSE := by intro h; rw [h] at hL; exact hL (by decide)
  simp only [guess, if_neg h0, if_neg h1, if_neg h2, ofText?_none_of_no_hash hH, hF.parse_fmt n]

/-- an error code is typed as that error when read back -/
theorem guess_errText (e : ErrT) : guess F e.text = .err e := by
  cases e <;> simp [guess, upper, upChar, ErrT.text, ErrT.ofText?, ErrT.all, sTRUE, sFALSE]

theorem fmt_no_ws (hF : F.Sound) (n : F.Num) : ∀ c ∈ F.fmt n, isXmlWs c = false :=
  fun c hc => (numChar_props (hF.fmt_chars n c hc)).2.2.2

/-- what `guess_typed_data` can return: empty, a boolean, an error, a number, or the text itself —
    never rich text, never a lazy value -/
theorem guess_cases (s : Text) :
    guess F s = .empty ∨ (∃ b, guess F s = .bool b) ∨ (∃ e, guess F s = .err e) ∨ (∃ n, guess F s = .num n) ∨
      guess F s = .str s := by
  unfold guess
  simp only []
  split
  · exact Or.inl rfl
  · split
    · exact Or.inr (Or.inl ⟨true, rfl⟩)
    · split
      · exact Or.inr (Or.inl ⟨false, rfl⟩)
      · split
        · exact Or.inr (Or.inr (Or.inl ⟨_, rfl⟩))
        · split
          · exact Or.inr (Or.inr (Or.inr (Or.inl ⟨_, rfl⟩)))
          · exact Or.inr (Or.inr (Or.inr (Or.inr rfl)))

theorem guess_not_lazy (s : Text) : (guess F s).isLazy = false := by
  rcases guess_cases F s with h | ⟨_, h⟩ | ⟨_, h⟩ | ⟨_, h⟩ | h <;> rw [h] <;> rfl

/-- the value `write_to` works on is never a lazy one -/
theorem resolveRaw_not_lazy (r : RawValue F.Num) : (resolveRaw F r).isLazy = false := by
  cases r <;> first | rfl | exact guess_not_lazy F _

theorem resolveRaw_of_not_lazy {r : RawValue F.Num} (h : r.isLazy = false) : resolveRaw F r = r := by
  cases r <;> first | rfl | simp [RawValue.isLazy] at h

theorem resolveRaw_idem (r : RawValue F.Num) : resolveRaw F (resolveRaw F r) = resolveRaw F r :=
  resolveRaw_of_not_lazy F (resolveRaw_not_lazy F r)

theorem resolved_of_not_lazy {c : Cell F.Num} (h : c.raw.isLazy = false) : Cell.resolved F c = c := by
  obtain ⟨col, row, raw, fo, styled⟩ := c
  simp only [Cell.resolved]
  rw [resolveRaw_of_not_lazy F h]

theorem resolved_idem (c : Cell F.Num) : Cell.resolved F (Cell.resolved F c) = Cell.resolved F c :=
  resolved_of_not_lazy F (resolveRaw_not_lazy F c.raw)

theorem blankUnstyled_of_not_lazy {c : Cell F.Num} (h : c.raw.isLazy = false) : blankUnstyled F c = blankCore F c := by
  unfold blankUnstyled; rw [resolved_of_not_lazy F h]

theorem blankUnstyled_resolved (c : Cell F.Num) : blankUnstyled F (Cell.resolved F c) = blankUnstyled F c := by
  unfold blankUnstyled; rw [resolved_idem]

/-- `write_to` of a cell whose value is not lazy is the body -/
theorem writeTo_of_not_lazy (tbl : Table) {c : Cell F.Num} (h : c.raw.isLazy = false) :
    writeTo F tbl c = writeCore F tbl c := by
  unfold writeTo; rw [resolved_of_not_lazy F h]

/-- the literal shape of the repaired `write_to`: a lazy value is converted on a clone and the clone is written -/
theorem writeTo_lazy (tbl : Table) (c : Cell F.Num) (s : Text) (h : c.raw = .lazy s) :
    writeTo F tbl c = writeTo F tbl { c with raw := guess F s } := by
  have e : Cell.resolved F c = { c with raw := guess F s } := by simp [Cell.resolved, h, resolveRaw]
  have e2 : writeTo F tbl { c with raw := guess F s } = writeCore F tbl { c with raw := guess F s } :=
    writeTo_of_not_lazy F tbl (guess_not_lazy F s)
  rw [e2, ← e]; rfl

end

theorem upper_boolText (b : Bool) : (upper (boolText b) = sTRUE) ↔ b = true := by
  cases b <;> decide

/-! ## shared-string items -/

def ItemOK (it : Item) : Prop := it.rich ≠ some []

theorem mapOpt_map_of {α β γ} (f : β → Option γ) (g : α → β) (k : α → γ) (l : List α)
    (h : ∀ a ∈ l, f (g a) = some (k a)) : mapOpt f (l.map g) = some (l.map k) := by
  induction l with
  | nil => rfl
  | cons a as ih =>
    simp only [List.map_cons, mapOpt, h a (by simp)]
    rw [ih (fun b hb => h b (by simp [hb]))]

theorem readTX_writeText (s : Text) : readTX (writeText s) = some s := by
  simp [readTX, writeText, readText_false_escape]

theorem readRun_write (r : Run) : readRun { font := r.font, t := writeText r.text } = some r := by
  simp [readRun, readTX_writeText]

/-- an item written to the shared-string part reads back as itself -/
theorem readSi_siOf (it : Item) (h : ItemOK it) : readSi (siOf it) = some it := by
  obtain ⟨text, rich⟩ := it
  have e1 : readOptTX (Option.map writeText text) = some text := by
    cases text <;> simp [readOptTX, readTX_writeText]
  cases rich with
  | none => simp [readSi, siOf, e1, mapOpt]
  | some rs =>
    have e2 := mapOpt_map_of readRun (fun (r : Run) => ({ font := r.font, t := writeText r.text } : RunX)) id rs
      (by intro a _; exact readRun_write a)
    have hne : rs ≠ [] := by intro e; exact h (by simp [e])
    simp [readSi, siOf, e1, e2, hne]

theorem readSst_writeSst (t : Table) (h : ∀ it ∈ t, ItemOK it) : mapOpt readSi (t.map siOf) = some t := by
  have := mapOpt_map_of readSi siOf id t (fun a ha => readSi_siOf a (h a ha))
  simpa using this

/-! ## digits -/

theorem isDigit_not_ws {c : Char} (h : isDigit c = true) : isXmlWs c = false := by
  unfold isDigit at h
  unfold isXmlWs
  have h1 : 48 ≤ c.toNat := by simp at h; exact h.1
  have : c ≠ ' ' ∧ c ≠ '\r' ∧ c ≠ '\n' ∧ c ≠ '\t' := by
    refine ⟨?_, ?_, ?_, ?_⟩ <;> (intro e; subst e; revert h1; decide)
  simp [this]

theorem decDigits_no_ws (n : Nat) : ∀ c ∈ decDigits n, isXmlWs c = false := by
  intro c hc
  have := decDigits_all_digit n
  rw [List.all_eq_true] at this
  exact isDigit_not_ws (this c hc)

theorem decDigits_head_not_plus (n : Nat) : ∀ r, decDigits n ≠ '+' :: r := by
  intro r e
  have := decDigits_all_digit n
  rw [e] at this
  simp [isDigit] at this

theorem stripPlus_decDigits (n : Nat) : stripPlus (decDigits n) = decDigits n := by
  unfold stripPlus
  split
  · rename_i r he; exact absurd he (decDigits_head_not_plus n r)
  · rfl

theorem parseUsize_decDigits (n : Nat) (h : n < 18446744073709551616) : parseUsize (decDigits n) = some n := by
  unfold parseUsize
  simp only [stripPlus_decDigits, if_neg (decDigits_ne_nil n), decDigits_all_digit, if_true, parseDec_decDigits, h]

end Umya.CellXml
