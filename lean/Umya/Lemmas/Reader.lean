/-
  Helper lemmas for C03: the library's attribute / text unescaping (`Umya.XmlEsc`, the model of
  quick-xml's `unescape`) returns the value the XML 1.0 reader of `Umya.Spec.Xml` assigns, whenever
  that reader accepts the text.
-/
import Umya.Model.Reader
import Umya.Spec.Sml
import Umya.Lemmas.XmlEsc
import Umya.Lemmas.Xml
namespace Umya.Reader.Lemmas
open Umya.XmlEsc Umya.Spec.Xml

theorem hexVal_eq (c : Char) : Umya.Spec.Xml.hexVal c = Umya.XmlEsc.hexVal c := rfl

def stepS (radix : Nat) (acc : Option Nat) (c : Char) : Option Nat :=
  match acc, Umya.Spec.Xml.hexVal c with
    | some a, some d => if d < radix ∧ a < 0x110000 then some (a * radix + d) else none
    | _, _ => none
def stepM (radix : Nat) (acc : Option Nat) (c : Char) : Option Nat :=
  match acc, Umya.XmlEsc.hexVal c with
    | some a, some d => if d < radix ∧ a * radix + d < 4294967296 then some (a * radix + d) else none
    | _, _ => none

theorem foldS_none (radix : Nat) (ds : List Char) : ds.foldl (stepS radix) none = none := by
  induction ds with
  | nil => rfl
  | cons c r ih => simpa [List.foldl, stepS] using ih

theorem fold_agree (radix : Nat) (hr : radix ≤ 16) (ds : List Char) :
    ∀ (acc : Option Nat) (n : Nat), ds.foldl (stepS radix) acc = some n → ds.foldl (stepM radix) acc = some n := by
  induction ds with
  | nil => intro acc n h; simpa using h
  | cons c r ih =>
    intro acc n h
    simp only [List.foldl] at h ⊢
    cases acc with
    | none => simp [stepS, foldS_none] at h
    | some a =>
      cases hv : Umya.Spec.Xml.hexVal c with
      | none => simp [stepS, hv, foldS_none] at h
      | some d =>
        by_cases hc : d < radix ∧ a < 0x110000
        · have hm : stepM radix (some a) c = stepS radix (some a) c := by
            have : a * radix + d < 4294967296 := by
              have h1 : a * radix ≤ 0x110000 * 16 := Nat.mul_le_mul (Nat.le_of_lt hc.2) hr
              omega
            simp [stepM, stepS, ← hexVal_eq, hv, hc, this]
          rw [hm]; exact ih _ _ h
        · simp [stepS, hv, hc, foldS_none] at h

theorem parseNum_eq (radix : Nat) (ds : List Char) :
    parseNum radix ds = if ds.isEmpty then none else ds.foldl (stepS radix) (some 0) := rfl
theorem parseRadix_eq (radix : Nat) (ds : List Char) :
    parseRadix radix ds = if ds.isEmpty then none else ds.foldl (stepM radix) (some 0) := rfl

theorem parse_agree (radix : Nat) (hr : radix ≤ 16) (ds : List Char) (n : Nat)
    (h : parseNum radix ds = some n) : parseRadix radix ds = some n := by
  rw [parseNum_eq] at h; rw [parseRadix_eq]
  by_cases he : ds.isEmpty
  · simp [he] at h
  · simp only [he] at h ⊢
    exact fold_agree radix hr ds _ _ h

theorem xmlChar_ne_zero (n : Nat) (h : isXmlChar (Char.ofNat n) = true) : n ≠ 0 := by
  intro hn; subst hn; revert h; decide

/-- a successful decimal parse starts with a digit -/
theorem parseNum_head (ds : List Char) (n : Nat) (c : Char) (r : List Char) (hd : ds = c :: r)
    (h : parseNum 10 ds = some n) : c ≠ 'x' ∧ c ≠ '+' ∧ c ≠ '-' := by
  subst hd
  rw [parseNum_eq] at h
  simp only [List.isEmpty_cons, List.foldl] at h
  refine ⟨?_, ?_, ?_⟩ <;> intro hc <;> subst hc <;> simp [stepS, Umya.Spec.Xml.hexVal, foldS_none] at h

theorem resolve_agree (p v : List Char) (h : resolveRef p = some v) : resolve p = some v := by
  unfold resolveRef at h
  split at h
  · -- &#x…;
    rename_i hex
    cases hp : parseNum 16 hex with
    | none => simp [hp] at h
    | some n =>
      simp only [hp, Option.bind_some] at h
      by_cases hc : n.isValidChar ∧ isXmlChar (Char.ofNat n) = true
      · simp only [hc, and_self, if_true] at h
        have hr := parse_agree 16 (by decide) hex n hp
        have hz := xmlChar_ne_zero n hc.2
        simp [resolve, parseCharRef, hr, hz, hc.1, ← h]
      · simp [hc] at h
  · -- &#…;
    rename_i dec hnx
    cases hp : parseNum 10 dec with
    | none => simp [hp] at h
    | some n =>
      simp only [hp, Option.bind_some] at h
      by_cases hc : n.isValidChar ∧ isXmlChar (Char.ofNat n) = true
      · simp only [hc, and_self, if_true] at h
        have hr := parse_agree 10 (by decide) dec n hp
        have hz := xmlChar_ne_zero n hc.2
        cases dec with
        | nil => simp [parseNum_eq] at hp
        | cons c r =>
          have hh := parseNum_head (c :: r) n c r rfl hp
          have : parseCharRef (c :: r) = some (Char.ofNat n) := by
            unfold parseCharRef
            split
            · rename_i heq; injection heq with h1 _; exact absurd h1 hh.1
            · rename_i heq; injection heq with h1 _; exact absurd h1 hh.2.1
            · rename_i heq; injection heq with h1 _; exact absurd h1 hh.2.2
            · simp [hr, hz, hc.1]
          simp [resolve, this, ← h]
      · simp [hc] at h
  · -- named entities
    rename_i h1 h2
    unfold resolve
    split
    · rename_i num; exfalso
      cases num with
      | nil => exact h2 [] rfl
      | cons c r => by_cases hx : c = 'x'
                    · subst hx; exact h1 r rfl
                    · exact h2 (c :: r) rfl
    · exact h

/-- the two reference expanders agree wherever the XML one succeeds and no literal is rewritten -/
theorem expand_agree (lit : Char → List Char) (s : List Char) :
    ∀ (st : Option (List Char)) (v : List Char), (∀ c ∈ s, lit c = [c]) →
      expandGo lit st s = some v →
      unescGo (match st with | none => .out | some p => .ent p) s = some v := by
  induction s with
  | nil =>
    intro st v _ h
    cases st with
    | none => simpa [expandGo, unescGo] using h
    | some p => simp [expandGo] at h
  | cons c r ih =>
    intro st v hl h
    have hl' : ∀ c ∈ r, lit c = [c] := fun x hx => hl x (List.mem_cons_of_mem _ hx)
    have hc : lit c = [c] := hl c (List.mem_cons_self ..)
    cases st with
    | none =>
      simp only [expandGo] at h
      simp only [unescGo]
      by_cases ha : c = '&'
      · simp only [ha, if_true] at h ⊢
        exact ih (some []) v hl' h
      · simp only [ha, if_false] at h ⊢
        cases hr : expandGo lit none r with
        | none => simp [hr] at h
        | some w =>
          have := ih none w hl' hr
          simp only [hr, Option.map_some, hc] at h
          simp only at this
          simp [this, ← h]
    | some p =>
      simp only [expandGo] at h
      simp only [unescGo]
      by_cases hs : c = ';'
      · simp only [hs, if_true] at h ⊢
        cases hres : resolveRef p.reverse with
        | none => simp [hres] at h
        | some w =>
          simp only [hres, Option.bind_some] at h
          cases hr : expandGo lit none r with
          | none => simp [hr] at h
          | some u =>
            have := ih none u hl' hr
            simp only at this
            simp only [hr, Option.map_some] at h
            simp [resolve_agree _ _ hres, this, ← h]
      · simp only [hs, if_false] at h ⊢
        by_cases ha : c = '&' ∨ c = '<'
        · simp [ha] at h
        · simp only [ha, if_false] at h
          have hna : c ≠ '&' := fun e => ha (Or.inl e)
          simp only [hna, if_false]
          exact ih (some (c :: p)) v hl' h


/-! ## attribute-value and line-end normalisation: the reader after fix ddd0f34 vs XML 1.0 -/

/-- 3.3.3 on one literal character -/
def wsMap (c : Char) : Char := if c = '\t' ∨ c = '\n' ∨ c = '\r' then ' ' else c

theorem nE_crlf (r : List Char) : normalizeEol ('\r' :: '\n' :: r) = '\n' :: normalizeEol r :=
  normalizeEol.eq_1 r
theorem nE_cr (r : List Char) (h : ∀ r', r ≠ '\n' :: r') : normalizeEol ('\r' :: r) = '\n' :: normalizeEol r :=
  normalizeEol.eq_2 r (fun r' e => h r' e)
theorem nE_other (c : Char) (r : List Char) (h : c ≠ '\r') : normalizeEol (c :: r) = c :: normalizeEol r :=
  normalizeEol.eq_3 c r (fun _ e _ => h e) h

theorem attrNorm_eq (s : List Char) : attrNorm s = (normalizeEol s).map wsMap := by
  fun_induction attrNorm s with
  | case1 => rfl
  | case2 r ih => rw [nE_crlf]; simp [wsMap, ih]
  | case3 c r hne ih =>
    by_cases hc : c = '\r'
    · subst hc
      rw [nE_cr r (fun r' e => hne r' rfl e)]; simp [wsMap, ih]
    · rw [nE_other c r hc]; simp only [List.map_cons, ih, wsMap]

theorem normEol_eq (s : List Char) : Umya.Xml.normEol s = normalizeEol s := by
  fun_induction Umya.Xml.normEol s with
  | case1 => rfl
  | case2 r ih => rw [nE_crlf, ih]
  | case3 c r hne ih =>
    by_cases hc : c = '\r'
    · subst hc
      rw [nE_cr r (fun r' e => hne r' rfl e)]; simp [ih]
    · rw [nE_other c r hc]; simp [hc, ih]

theorem foldS_some_hex (radix : Nat) (ds : List Char) :
    ∀ (acc : Option Nat) (n : Nat), ds.foldl (stepS radix) acc = some n →
      ∀ c ∈ ds, Umya.Spec.Xml.hexVal c ≠ none := by
  induction ds with
  | nil => intro _ _ _ c hc; cases hc
  | cons d r ih =>
    intro acc n h c hc
    simp only [List.foldl] at h
    cases acc with
    | none => simp [stepS, foldS_none] at h
    | some a =>
      cases hv : Umya.Spec.Xml.hexVal d with
      | none => simp [stepS, hv, foldS_none] at h
      | some x =>
        rcases List.mem_cons.1 hc with e | e
        · subst e; simp [hv]
        · exact ih _ _ h c e

theorem hexVal_ws (c : Char) (h : Umya.Spec.Xml.hexVal c ≠ none) : wsMap c = c := by
  unfold wsMap
  split
  · rename_i hc; rcases hc with e | e | e <;> subst e <;> exact absurd (by decide) h
  · rfl

theorem parseNum_no_ws (radix : Nat) (ds : List Char) (n : Nat) (h : parseNum radix ds = some n) :
    ds.map wsMap = ds := by
  rw [parseNum_eq] at h
  by_cases he : ds.isEmpty
  · simp [he] at h
  · simp only [he] at h
    have := foldS_some_hex radix ds _ _ h
    calc ds.map wsMap = ds.map id := List.map_congr_left (fun c hc => hexVal_ws c (this c hc))
      _ = ds := List.map_id ds

/-- a reference the XML reader accepts contains no literal white space -/
theorem resolveRef_no_ws (p v : List Char) (h : resolveRef p = some v) : p.map wsMap = p := by
  unfold resolveRef at h
  split at h
  · rename_i hex
    cases hp : parseNum 16 hex with
    | none => simp [hp] at h
    | some n => simp [wsMap, parseNum_no_ws 16 hex n hp]
  · rename_i dec _
    cases hp : parseNum 10 dec with
    | none => simp [hp] at h
    | some n => simp [wsMap, parseNum_no_ws 10 dec n hp]
  · repeat' split at h
    all_goals first | (rename_i e; subst e; decide) | cases h

theorem wsMap_ne (c d : Char) (hd : d ≠ ' ') (h : c ≠ d) : wsMap c ≠ d := by
  unfold wsMap; split
  · exact fun e => hd e.symm
  · exact h

theorem wsMap_fix (d : Char) (h : d ≠ '\t' ∧ d ≠ '\n' ∧ d ≠ '\r') : wsMap d = d := by
  unfold wsMap; rw [if_neg]; rintro (e | e | e)
  · exact h.1 e
  · exact h.2.1 e
  · exact h.2.2 e

/-- attribute-value normalisation commutes with reference expansion: mapping the literals while
    expanding = mapping the raw text first (a reference that resolves contains no white space) -/
theorem expand_ws (s : List Char) : ∀ (st : Option (List Char)) (v : List Char),
    expandGo (fun c => [wsMap c]) st s = some v →
    expandGo (fun c => [c]) (st.map (·.map wsMap)) (s.map wsMap) = some v := by
  induction s with
  | nil => intro st v h; cases st <;> simpa [expandGo] using h
  | cons c r ih =>
    intro st v h
    cases st with
    | none =>
      simp only [expandGo, List.map_cons, Option.map_none] at h ⊢
      by_cases hc : c = '&'
      · subst hc
        have : wsMap '&' = '&' := by decide
        simp only [this, if_true] at h ⊢
        exact ih (some []) v h
      · have hw : wsMap c ≠ '&' := wsMap_ne c '&' (by decide) hc
        simp only [hc, hw, if_false] at h ⊢
        cases hr : expandGo (fun c => [wsMap c]) none r with
        | none => simp [hr] at h
        | some w =>
          have := ih none w hr
          simp only [Option.map_none] at this
          simp [hr] at h
          simp [this, h]
    | some p =>
      simp only [expandGo, List.map_cons, Option.map_some] at h ⊢
      by_cases hc : c = ';'
      · subst hc
        have : wsMap ';' = ';' := by decide
        simp only [this, if_true] at h ⊢
        cases hp : resolveRef p.reverse with
        | none => simp [hp] at h
        | some x =>
          have hmap : (p.map wsMap).reverse = p.reverse := by
            rw [← List.map_reverse]; exact resolveRef_no_ws _ _ hp
          simp only [hp, Option.bind_some] at h
          rw [hmap, hp]; simp only [Option.bind_some]
          cases hr : expandGo (fun c => [wsMap c]) none r with
          | none => simp [hr] at h
          | some w =>
            have := ih none w hr
            simp only [Option.map_none] at this
            simp [hr] at h
            simp [this, h]
      · have hw : wsMap c ≠ ';' := wsMap_ne c ';' (by decide) hc
        simp only [hc, hw, if_false] at h ⊢
        by_cases hc2 : c = '&' ∨ c = '<'
        · simp [hc2] at h
        · have hw2 : ¬ (wsMap c = '&' ∨ wsMap c = '<') := by
            rintro (e | e)
            · exact wsMap_ne c '&' (by decide) (fun x => hc2 (Or.inl x)) e
            · exact wsMap_ne c '<' (by decide) (fun x => hc2 (Or.inr x)) e
          simp only [hc2, hw2, if_false] at h ⊢
          exact ih (some (c :: p)) v h

theorem attrLit_eq : (fun c : Char => if c = '\t' ∨ c = '\n' ∨ c = '\r' then [' '] else [c]) = fun c => [wsMap c] := by
  funext c; unfold wsMap; split <;> rfl

theorem normalizeEol_noCR (s : List Char) (h : '\r' ∉ s) : normalizeEol s = s := by
  induction s with
  | nil => rfl
  | cons c r ih =>
    have hc : c ≠ '\r' := fun e => h (e ▸ List.mem_cons_self ..)
    have hr : '\r' ∉ r := fun m => h (List.mem_cons_of_mem _ m)
    unfold normalizeEol
    split
    · rename_i heq; injection heq with h1 _; exact absurd h1 hc
    · rename_i heq; injection heq with h1 _; exact absurd h1 hc
    · rename_i heq; injection heq with h1 h2; subst h1; subst h2; rw [ih hr]
    · rename_i heq; cases heq

/-! ## cell elements -/
open Umya.Reader Umya.Spec.Sml

theorem getLast_head {α} (l : List α) (h : l.length ≤ 1) : l.getLast? = l.head? := by
  match l, h with
  | [], _ => rfl
  | [a], _ => rfl
  | a :: b :: r, h => simp at h

/-- an element that holds character data only: nothing, or one text node; where the reader trims
    (`trim`), a text without blanks at its ends -/
def plainText (trim : Bool) (n : Node) : Bool :=
  match n.children with
  | [] => true
  | [.text s] => !trim || trimWs s == s
  | _ => false

theorem lastText_plain (trim : Bool) (n : Node) (h : plainText trim n = true) : lastText trim n = n.ownText := by
  unfold plainText at h
  unfold lastText textEvents Node.ownText
  split at h
  · rename_i hc; simp [hc]
  · rename_i s hc
    have e : (if trim = true then trimWs s else s) = s := by
      cases trim with
      | false => rfl
      | true => simpa using h
    by_cases hs : s = []
    · subst hs; simp [hc, e]
    · simp [hc, e, hs]
  · simp at h

theorem stripPlus_digits (t : Text) (h2 : t.all Char.isDigit = true) : stripPlus t = t := by
  cases t with
  | nil => rfl
  | cons c r =>
    have hc : c ≠ '+' := by
      intro e; subst e; simp [Char.isDigit] at h2
    unfold stripPlus
    split
    · rename_i r' heq; injection heq with a _; exact absurd a hc
    · rfl

/-- an unsigned decimal below `bound` -/
def uintOk (bound : Nat) (s : Text) : Bool :=
  match natOf s with
  | some n => decide (n < bound)
  | none => false

theorem natOf_some (s : Text) (n : Nat) (h : natOf s = some n) :
    s ≠ [] ∧ s.all Char.isDigit = true ∧ s.foldl (fun a c => 10 * a + (c.toNat - 48)) 0 = n := by
  unfold natOf at h
  split at h
  · rename_i hc; injection h with h; exact ⟨hc.1, hc.2, h⟩
  · cases h

theorem parseUInt_of_natOf (bound : Nat) (s : Text) (n : Nat) (h : natOf s = some n) (hb : n < bound) :
    parseUInt bound s = some n := by
  obtain ⟨h1, h2, h3⟩ := natOf_some s n h
  unfold parseUInt
  simp only [stripPlus_digits s h2, h1, h2, h3, hb, ne_eq, not_false_eq_true, and_self, if_true]

theorem uintOk_parse (bound : Nat) (s : Text) (h : uintOk bound s = true) :
    ∃ n, natOf s = some n ∧ parseUInt bound s = some n := by
  unfold uintOk at h
  split at h
  · rename_i n hn
    exact ⟨n, hn, parseUInt_of_natOf bound s n hn (by simpa using h)⟩
  · cases h

end Umya.Reader.Lemmas
