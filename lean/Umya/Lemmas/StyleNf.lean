/-
  Lemmas about the number-format table of the style sheet model: what an id resolves to after
  save + reload (`nfAt`), the table invariant, and its preservation by `nfSetStyle`.
-/
import Umya.Model.Style
namespace Umya.Style
open Umya.Interning

/-- what `numbering_formats.get(id)` yields after save + reload: a custom entry written to the file
    (code normalised by the codec), else the built-in of that id -/
def nfAt (cs : Codecs) (t : List (Nat × NumFmt)) (id : Nat) : Option NumFmt :=
  match (customs t).find? (fun p => p.1 == id) with
  | some p => some { id := p.1, code := cs.code.norm p.2.code, builtIn := false }
  | none => (builtin id).map (fun c => { id := id, code := c, builtIn := true })

theorem assoc_builtinEntries (id : Nat) :
    assoc builtinEntries id = (builtin id).map (fun c => ({ id := id, code := c, builtIn := true } : NumFmt)) := by
  unfold assoc builtinEntries builtin assoc
  rw [List.find?_map]
  cases h : List.find? ((fun p : Nat × NumFmt => p.1 == id) ∘ fun p : Nat × Tok => (p.1, ({ id := p.1, code := p.2, builtIn := true } : NumFmt))) builtinCodes with
  | none =>
    have h' : List.find? (fun p : Nat × Tok => p.1 == id) builtinCodes = none := by
      simpa [Function.comp_def] using h
    simp [h']
  | some p =>
    have h' : List.find? (fun p : Nat × Tok => p.1 == id) builtinCodes = some p := by
      simpa [Function.comp_def] using h
    have hp : p.1 = id := by
      have := List.find?_some h'
      simpa using this
    simp [h', hp]

theorem assoc_reload (cs : Codecs) (t : List (Nat × NumFmt)) (id : Nat) :
    assoc (reloadNumFmtsN cs t) id = nfAt cs t id := by
  unfold nfAt
  have hb := assoc_builtinEntries id
  unfold assoc at hb ⊢
  unfold reloadNumFmtsN
  rw [List.find?_append, List.find?_map]
  cases h : List.find? (fun p : Nat × NumFmt => p.1 == id) (customs t) with
  | none =>
    have h' : List.find? ((fun p : Nat × NumFmt => p.1 == id) ∘ fun p : Nat × NumFmt =>
        (p.1, ({ id := p.1, code := cs.code.norm p.2.code, builtIn := false } : NumFmt))) (customs t) = none := by
      simpa [Function.comp_def] using h
    simp [h', hb]
  | some p =>
    have h' : List.find? ((fun p : Nat × NumFmt => p.1 == id) ∘ fun p : Nat × NumFmt =>
        (p.1, ({ id := p.1, code := cs.code.norm p.2.code, builtIn := false } : NumFmt))) (customs t) = some p := by
      simpa [Function.comp_def] using h
    simp [h']

structure NfInv (t : List (Nat × NumFmt)) : Prop where
  nodup : (t.map (·.1)).Nodup
  bi : ∀ p ∈ t, p.2.builtIn = true → builtin p.1 = some p.2.code
  cu : ∀ p ∈ t, p.2.builtIn = false → builtin p.1 = none

theorem eq_of_key_eq : ∀ {t : List (Nat × NumFmt)}, (t.map (·.1)).Nodup → ∀ {p q}, p ∈ t → q ∈ t → p.1 = q.1 → p = q
  | [], _, _, _, hp, _, _ => by simp at hp
  | a :: t, hnd, p, q, hp, hq, hk => by
    have hnd' : a.1 ∉ t.map (·.1) ∧ (t.map (·.1)).Nodup := by simpa using hnd
    rcases List.mem_cons.mp hp with rfl | hp'
    · rcases List.mem_cons.mp hq with rfl | hq'
      · rfl
      · exact absurd (List.mem_map.mpr ⟨q, hq', hk.symm⟩) hnd'.1
    · rcases List.mem_cons.mp hq with rfl | hq'
      · exact absurd (List.mem_map.mpr ⟨p, hp', hk⟩) hnd'.1
      · exact eq_of_key_eq hnd'.2 hp' hq' hk

theorem mem_customs {t : List (Nat × NumFmt)} {p : Nat × NumFmt} :
    p ∈ customs t ↔ p ∈ t ∧ p.2.builtIn = false := by
  unfold customs; simp

theorem nfAt_builtin (cs : Codecs) {t : List (Nat × NumFmt)} (h : NfInv t) {id : Nat} {c : Tok}
    (hb : builtin id = some c) : nfAt cs t id = some { id := id, code := c, builtIn := true } := by
  unfold nfAt
  have hnone : (customs t).find? (fun p => p.1 == id) = none := by
    rw [List.find?_eq_none]
    intro p hp hk
    have hk' : p.1 = id := by simpa using hk
    have := h.cu p (mem_customs.mp hp).1 (mem_customs.mp hp).2
    rw [hk', hb] at this
    cases this
  simp [hnone, hb]

theorem nfAt_custom (cs : Codecs) {t : List (Nat × NumFmt)} (h : NfInv t) {p : Nat × NumFmt}
    (hp : p ∈ t) (hc : p.2.builtIn = false) :
    nfAt cs t p.1 = some { id := p.1, code := cs.code.norm p.2.code, builtIn := false } := by
  unfold nfAt
  cases hf : (customs t).find? (fun q => q.1 == p.1) with
  | none =>
    rw [List.find?_eq_none] at hf
    have := hf p (mem_customs.mpr ⟨hp, hc⟩)
    simp at this
  | some q =>
    have hq := List.mem_of_find?_eq_some hf
    have hk : q.1 = p.1 := by simpa using List.find?_some hf
    have : q = p := eq_of_key_eq h.nodup (mem_customs.mp hq).1 hp hk
    subst this
    rfl

theorem maxId_aux : ∀ (t : List (Nat × NumFmt)) (m : Nat),
    m ≤ t.foldl (fun m p => if m < p.1 then p.1 else m) m ∧
    ∀ p ∈ t, p.1 ≤ t.foldl (fun m p => if m < p.1 then p.1 else m) m
  | [], m => ⟨Nat.le_refl _, by simp⟩
  | a :: t, m => by
    simp only [List.foldl_cons]
    obtain ⟨h1, h2⟩ := maxId_aux t (if m < a.1 then a.1 else m)
    refine ⟨Nat.le_trans (by split <;> omega) h1, ?_⟩
    intro p hp
    rcases List.mem_cons.mp hp with rfl | hp'
    · exact Nat.le_trans (by split <;> omega) h1
    · exact h2 p hp'

theorem maxId_ge (t : List (Nat × NumFmt)) : 175 ≤ maxId t ∧ ∀ p ∈ t, p.1 ≤ maxId t := maxId_aux t 175

theorem builtinCodes_lt : ∀ p ∈ builtinCodes, p.1 < 176 := by
  have h : builtinCodes.all (fun p => decide (p.1 < 176)) = true := by decide
  intro p hp
  have := List.all_eq_true.mp h p hp
  simpa using this

theorem builtin_lt {id : Nat} {c : Tok} (h : builtin id = some c) : id < 176 := by
  unfold builtin assoc at h
  cases hf : builtinCodes.find? (fun p => p.1 == id) with
  | none => simp [hf] at h
  | some p =>
    have hm := List.mem_of_find?_eq_some hf
    have hk : p.1 = id := by simpa using List.find?_some hf
    rw [← hk]; exact builtinCodes_lt p hm

theorem builtin_none_of_ge {id : Nat} (h : 176 ≤ id) : builtin id = none := by
  cases hb : builtin id with
  | none => rfl
  | some c => have := builtin_lt hb; omega

theorem customs_append (t : List (Nat × NumFmt)) (x : Nat × NumFmt) (hx : x.2.builtIn = false) :
    customs (t ++ [x]) = customs t ++ [x] := by
  unfold customs; simp [List.filter_append, hx]

/-- appending a custom entry under a fresh id: the new id resolves to the new code, every other id as before -/
theorem nfAt_append (cs : Codecs) (t : List (Nat × NumFmt)) (v : NumFmt) (hv : v.builtIn = false) (k : Nat) :
    nfAt cs (t ++ [(maxId t + 1, { v with id := maxId t + 1 })]) k =
      if k = maxId t + 1 then some { id := maxId t + 1, code := cs.code.norm v.code, builtIn := false }
      else nfAt cs t k := by
  have hge := maxId_ge t
  unfold nfAt
  rw [customs_append _ _ (by simpa using hv), List.find?_append]
  by_cases hk : k = maxId t + 1
  · subst hk
    have hnone : (customs t).find? (fun p => p.1 == maxId t + 1) = none := by
      rw [List.find?_eq_none]
      intro p hp hkk
      have h1 : p.1 = maxId t + 1 := by simpa using hkk
      have := hge.2 p (mem_customs.mp hp).1
      omega
    simp [hnone]
  · cases hf : (customs t).find? (fun p => p.1 == k) with
    | some p => simp [hk]
    | none =>
      have : ¬ (maxId t + 1 = k) := fun h => hk h.symm
      simp [hk, this]

theorem NfInv_append {t : List (Nat × NumFmt)} (h : NfInv t) (v : NumFmt) (hv : v.builtIn = false) :
    NfInv (t ++ [(maxId t + 1, { v with id := maxId t + 1 })]) := by
  have hge := maxId_ge t
  refine ⟨?_, ?_, ?_⟩
  · rw [List.map_append, List.nodup_append]
    refine ⟨h.nodup, by simp, ?_⟩
    intro a ha b hb
    simp at hb
    subst hb
    obtain ⟨p, hp, rfl⟩ := List.mem_map.mp ha
    have := hge.2 p hp
    omega
  · intro p hp hb
    rcases List.mem_append.mp hp with hp | hp
    · exact h.bi p hp hb
    · simp at hp; subst hp; simp [hv] at hb
  · intro p hp hb
    rcases List.mem_append.mp hp with hp | hp
    · exact h.cu p hp hb
    · simp at hp; subst hp
      exact builtin_none_of_ge (by simp; omega)

theorem NfInv_nil : NfInv [] := ⟨by simp, by simp, by simp⟩

end Umya.Style
