/-
  Helper lemmas for C19: value of digit lists, truncation / padding / increment in terms of values,
  rendering of digit lists in terms of `decDigits` / `padLeft` / `groupNat`.
-/
import Umya.Model.NumFmt
import Umya.Spec.Round
import Mathlib.Tactic.Ring
import Mathlib.Tactic.Linarith
namespace Umya.NumFmt
open Umya.Dec Umya.Spec

/-- the natural number a digit string denotes (most significant digit first; `[] ↦ 0`) -/
def valOf (ds : List Digit) : Nat := ds.foldl (fun a d => 10 * a + d.val) 0

/-- value of a little-endian digit string -/
def valRev : List Digit → Nat
  | [] => 0
  | d :: r => d.val + 10 * valRev r

theorem foldl_acc (ys : List Digit) (a : Nat) :
    ys.foldl (fun a d => 10 * a + d.val) a = a * 10 ^ ys.length + ys.foldl (fun a d => 10 * a + d.val) 0 := by
  induction ys generalizing a with
  | nil => simp
  | cons d r ih =>
    simp only [List.foldl_cons, List.length_cons]
    rw [ih (10 * a + d.val), ih (10 * 0 + d.val)]
    ring

theorem valOf_nil : valOf [] = 0 := rfl

theorem valOf_append (xs ys : List Digit) : valOf (xs ++ ys) = valOf xs * 10 ^ ys.length + valOf ys := by
  simp only [valOf, List.foldl_append]
  exact foldl_acc ys _

theorem valOf_cons (d : Digit) (r : List Digit) : valOf (d :: r) = d.val * 10 ^ r.length + valOf r := by
  have := valOf_append [d] r
  simpa [valOf] using this

theorem valOf_snoc (r : List Digit) (d : Digit) : valOf (r ++ [d]) = 10 * valOf r + d.val := by
  rw [valOf_append]; simp [valOf]; ring

theorem valOf_lt (ds : List Digit) : valOf ds < 10 ^ ds.length := by
  induction ds with
  | nil => simp [valOf]
  | cons d r ih =>
    rw [valOf_cons, List.length_cons, Nat.pow_succ]
    have hd := d.isLt
    have : d.val * 10 ^ r.length ≤ 9 * 10 ^ r.length := Nat.mul_le_mul_right _ (by omega)
    omega

theorem valOf_replicate_zero (p : Nat) : valOf (List.replicate p (0 : Digit)) = 0 := by
  induction p with
  | zero => rfl
  | succ p ih => rw [List.replicate_succ, valOf_cons, ih]; simp

theorem valOf_take_drop (ds : List Digit) (j : Nat) :
    valOf ds = valOf (ds.take j) * 10 ^ (ds.drop j).length + valOf (ds.drop j) := by
  conv => lhs; rw [← List.take_append_drop j ds]
  exact valOf_append _ _

theorem valOf_take (ds : List Digit) (j : Nat) : valOf (ds.take j) = valOf ds / 10 ^ (ds.length - j) := by
  have h := valOf_take_drop ds j
  have hl := valOf_lt (ds.drop j)
  rw [List.length_drop] at h hl
  rw [h, Nat.mul_comm, Nat.mul_add_div (Nat.pow_pos (by omega)), Nat.div_eq_of_lt hl]
  simp

theorem valOf_drop (ds : List Digit) (j : Nat) : valOf (ds.drop j) = valOf ds % 10 ^ (ds.length - j) := by
  have h := valOf_take_drop ds j
  have hl := valOf_lt (ds.drop j)
  rw [List.length_drop] at h hl
  rw [h, Nat.mul_comm, Nat.mul_add_mod, Nat.mod_eq_of_lt hl]

/-! ### increment -/

theorem valRev_incRev (r : List Digit) : valRev (incRev r) = valRev r + 1 := by
  induction r with
  | nil => rfl
  | cons d r ih =>
    unfold incRev
    split
    · rename_i h; simp only [valRev, ih, h]; simp; omega
    · simp only [valRev]; omega

theorem valOf_reverse (ds : List Digit) : valOf ds.reverse = valRev ds := by
  induction ds with
  | nil => rfl
  | cons d r ih => rw [List.reverse_cons, valOf_snoc, ih, valRev]; omega

theorem valOf_increment (ds : List Digit) : valOf (increment ds) = valOf ds + 1 := by
  unfold increment
  rw [valOf_reverse, valRev_incRev, ← valOf_reverse, List.reverse_reverse]

theorem length_incRev (r : List Digit) : r.length ≤ (incRev r).length := by
  induction r with
  | nil => simp [incRev]
  | cons d r ih =>
    unfold incRev
    split
    · simp; omega
    · simp

theorem length_increment (ds : List Digit) : ds.length ≤ (increment ds).length := by
  unfold increment
  have := length_incRev ds.reverse
  simpa using this

/-! ### rounding a digit list = rounding its value -/

theorem div_half_up (q r M : Nat) (hr : r < M) :
    (2 * (q * M + r) + M) / (2 * M) = if M ≤ 2 * r then q + 1 else q := by
  split
  · apply Nat.div_eq_of_lt_le
    · nlinarith
    · nlinarith
  · apply Nat.div_eq_of_lt_le
    · nlinarith
    · nlinarith

theorem roundUp_iff (ds : List Digit) (keep : Nat) (h : keep < ds.length) :
    roundUp ds keep = true ↔ 10 ^ (ds.length - keep) ≤ 2 * valOf (ds.drop keep) := by
  unfold roundUp
  rw [List.getElem?_eq_getElem h]
  have hd : ds.drop keep = ds[keep] :: ds.drop (keep + 1) := List.drop_eq_getElem_cons h
  rw [hd, valOf_cons]
  have hl : (ds.drop (keep + 1)).length = ds.length - keep - 1 := by rw [List.length_drop]; omega
  have hlt := valOf_lt (ds.drop (keep + 1))
  rw [hl] at hlt ⊢
  have hp : 10 ^ (ds.length - keep) = 10 * 10 ^ (ds.length - keep - 1) := by
    rw [← Nat.pow_succ']; congr 1; omega
  rw [hp]
  generalize 10 ^ (ds.length - keep - 1) = X at *
  generalize valOf (List.drop (keep + 1) ds) = w at *
  simp only [decide_eq_true_eq]
  constructor
  · intro h5
    have : 5 * X ≤ (ds[keep]).val * X := Nat.mul_le_mul_right _ h5
    omega
  · intro hle
    by_contra hn
    have : (ds[keep]).val * X ≤ 4 * X := Nat.mul_le_mul_right _ (by omega)
    omega

theorem roundUp_false_of_le (ds : List Digit) (keep : Nat) (h : ds.length ≤ keep) : roundUp ds keep = false := by
  unfold roundUp
  rw [List.getElem?_eq_none h]

/-- value of the kept-and-rounded digits: `valOf ds · 10^keep / 10^|ds|` rounded half up -/
theorem valOf_roundDigits (ds : List Digit) (keep : Nat) :
    valOf (roundDigits ds keep) = (2 * valOf ds * 10 ^ keep + 10 ^ ds.length) / (2 * 10 ^ ds.length) := by
  unfold roundDigits
  by_cases h : keep < ds.length
  · -- digits are dropped
    have hres : resize ds keep = ds.take keep := by
      unfold resize; rw [show keep - ds.length = 0 by omega]; simp
    have hq := valOf_take ds keep
    have hr := valOf_drop ds keep
    have hru := roundUp_iff ds keep h
    have hL : 10 ^ ds.length = 10 ^ (ds.length - keep) * 10 ^ keep := by
      rw [← Nat.pow_add]; congr 1; omega
    have hM : 0 < 10 ^ (ds.length - keep) := Nat.pow_pos (by omega)
    have hK : 0 < 10 ^ keep := Nat.pow_pos (by omega)
    have hN := Nat.div_add_mod (valOf ds) (10 ^ (ds.length - keep))
    have hrl : valOf ds % 10 ^ (ds.length - keep) < 10 ^ (ds.length - keep) := Nat.mod_lt _ hM
    rw [hres, hL]
    rw [hr] at hru
    generalize 10 ^ (ds.length - keep) = M at *
    generalize 10 ^ keep = K at *
    generalize valOf ds / M = q at *
    generalize valOf ds % M = r at *
    have e1 : 2 * valOf ds * K + M * K = (2 * (q * M + r) + M) * K := by rw [← hN]; ring
    have e2 : 2 * (M * K) = (2 * M) * K := by ring
    rw [e1, e2, Nat.mul_div_mul_right _ _ hK, div_half_up q r M hrl]
    by_cases hc : M ≤ 2 * r
    · rw [if_pos (hru.2 hc), if_pos hc, valOf_increment, hq]
    · have : roundUp ds keep = false := by
        cases hb : roundUp ds keep with
        | false => rfl
        | true => exact absurd (hru.1 hb) hc
      rw [this, if_neg hc]; simp [hq]
  · -- zeros are appended
    have hle : ds.length ≤ keep := by omega
    rw [roundUp_false_of_le ds keep hle]
    simp only [Bool.false_eq_true, if_false]
    unfold resize
    rw [List.take_of_length_le hle, valOf_append, valOf_replicate_zero, List.length_replicate]
    have hK : 10 ^ keep = 10 ^ (keep - ds.length) * 10 ^ ds.length := by
      rw [← Nat.pow_add]; congr 1; omega
    have hP : 0 < 10 ^ ds.length := Nat.pow_pos (by omega)
    rw [hK]
    generalize 10 ^ (keep - ds.length) = Q
    generalize 10 ^ ds.length = P at *
    generalize valOf ds = N
    symm
    apply Nat.div_eq_of_lt_le
    · nlinarith
    · nlinarith

theorem length_resize (ds : List Digit) (keep : Nat) : (resize ds keep).length = keep := by
  unfold resize
  simp [List.length_take]; omega

theorem length_roundDigits (ds : List Digit) (keep : Nat) : keep ≤ (roundDigits ds keep).length := by
  unfold roundDigits
  split
  · have := length_increment (resize ds keep); rw [length_resize] at this; exact this
  · rw [length_resize]

/-! ### digit lists as text -/

theorem map_digitCh_reverse (r : List Digit) :
    r.reverse.map digitCh = padLeft r.length (valOf r.reverse) := by
  induction r with
  | nil => rfl
  | cons d r ih =>
    rw [List.reverse_cons, List.map_append, ih, valOf_snoc, List.length_cons, padLeft]
    have hd := d.isLt
    have h1 : (10 * valOf r.reverse + d.val) / 10 = valOf r.reverse := by omega
    have h2 : (10 * valOf r.reverse + d.val) % 10 = d.val := by omega
    rw [h1, h2]; rfl

/-- a digit list is the zero-padded text of its value on its length -/
theorem map_digitCh (ds : List Digit) : ds.map digitCh = padLeft ds.length (valOf ds) := by
  have := map_digitCh_reverse ds.reverse
  simpa using this

theorem decDigits_lt10 (v : Nat) (h : v < 10) : decDigits v = [digitChar v] := by
  rw [decDigits, if_pos h]

theorem decDigits_ge10 (v : Nat) (h : 10 ≤ v) : decDigits v = decDigits (v / 10) ++ [digitChar (v % 10)] := by
  rw [decDigits, if_neg (by omega)]

/-- without a leading zero the padded text is the shortest text -/
theorem padLeft_eq_decDigits (n v : Nat) (h1 : 10 ^ n ≤ v) (h2 : v < 10 ^ (n + 1)) :
    padLeft (n + 1) v = decDigits v := by
  induction n generalizing v with
  | zero =>
    simp at h2
    rw [padLeft, padLeft, decDigits_lt10 v h2, Nat.mod_eq_of_lt h2]; rfl
  | succ n ih =>
    have h10 : 10 ≤ v := by
      have : 10 ^ 1 ≤ 10 ^ (n + 1) := Nat.pow_le_pow_right (by omega) (by omega)
      omega
    rw [padLeft, decDigits_ge10 v h10, ih (v / 10)]
    · rw [Nat.pow_succ] at h1; omega
    · rw [Nat.pow_succ] at h2; omega

theorem valOf_zero_cons (r : List Digit) : valOf ((0 : Digit) :: r) = valOf r := by
  rw [valOf_cons]; simp

/-- integer part: leading zeros stripped = shortest decimal text of the value -/
theorem stripZeros_text (ds : List Digit) : (stripZeros ds).map digitCh = decDigits (valOf ds) := by
  induction ds with
  | nil => rw [valOf_nil, decDigits_lt10 0 (by omega)]; rfl
  | cons d r ih =>
    by_cases hd : d = 0
    · subst hd
      rw [valOf_zero_cons, ← ih]
      simp [stripZeros, List.dropWhile]
    · have hs : stripZeros (d :: r) = d :: r := by
        simp [stripZeros, List.dropWhile, hd]
      rw [hs, map_digitCh, List.length_cons]
      apply padLeft_eq_decDigits
      · rw [valOf_cons]
        have : 1 ≤ d.val := by
          rcases d with ⟨v, hv⟩
          cases v with
          | zero => exact absurd rfl hd
          | succ v => simp
        have := Nat.mul_le_mul_right (10 ^ r.length) this
        omega
      · have := valOf_lt (d :: r); simpa using this

/-! ### separators -/

theorem groupThousands_short (xs : List Char) (h : xs.length ≤ 3) : groupThousands xs = xs := by
  match xs, h with
  | [], _ => rfl
  | [a], _ => simp [groupThousands]
  | [a, b], _ => simp [groupThousands]
  | [a, b, c], _ => simp [groupThousands]
  | _ :: _ :: _ :: _ :: _, h => simp at h

theorem groupThousands_append3 (xs ys : List Char) (hy : ys.length = 3) (hx : xs ≠ []) :
    groupThousands (xs ++ ys) = groupThousands xs ++ ',' :: ys := by
  induction xs with
  | nil => exact absurd rfl hx
  | cons c r ih =>
    have hyne : ys ≠ [] := by intro h; rw [h] at hy; simp at hy
    by_cases hr : r = []
    · subst hr
      simp [groupThousands, hyne, hy, groupThousands_short ys (by omega)]
    · have ih' := ih hr
      have hne : r ++ ys ≠ [] := by simp [hr]
      rw [List.cons_append, groupThousands, groupThousands]
      have hm : (r ++ ys).length % 3 = r.length % 3 := by rw [List.length_append, hy]; omega
      by_cases hc : r.length % 3 = 0
      · rw [if_pos ⟨hne, by rw [hm]; exact hc⟩, if_pos ⟨hr, hc⟩, ih']; simp
      · rw [if_neg (by rw [hm]; tauto), if_neg (by tauto), ih']; simp

theorem padLeft_length (n v : Nat) : (padLeft n v).length = n := by
  induction n generalizing v with
  | zero => rfl
  | succ n ih => rw [padLeft, List.length_append, ih]; rfl

theorem decDigits_lt1000_length (m : Nat) (h : m < 1000) : (decDigits m).length ≤ 3 := by
  by_cases h1 : m < 10
  · rw [decDigits_lt10 m h1]; simp
  · rw [decDigits_ge10 m (by omega)]
    by_cases h2 : m / 10 < 10
    · rw [decDigits_lt10 _ h2]; simp
    · rw [decDigits_ge10 _ (by omega), decDigits_lt10 (m / 10 / 10) (by omega)]; simp

theorem decDigits_ge1000 (m : Nat) (h : 1000 ≤ m) :
    decDigits m = decDigits (m / 1000) ++ padLeft 3 (m % 1000) := by
  rw [decDigits_ge10 m (by omega), decDigits_ge10 (m / 10) (by omega), decDigits_ge10 (m / 10 / 10) (by omega)]
  simp only [padLeft, List.nil_append, List.append_assoc, List.cons_append]
  have e0 : m / 10 / 10 / 10 = m / 1000 := by omega
  have e1 : m / 10 / 10 % 10 = m % 1000 / 10 / 10 % 10 := by omega
  have e2 : m / 10 % 10 = m % 1000 / 10 % 10 := by omega
  have e3 : m % 10 = m % 1000 % 10 := by omega
  rw [e0, e1, e2, e3]

theorem decDigits_ne_nil' (m : Nat) : decDigits m ≠ [] := decDigits_ne_nil m

/-- the separator loop on the shortest text of `m` is the arithmetic grouping of `m` -/
theorem groupThousands_decDigits (m : Nat) : groupThousands (decDigits m) = groupNat m := by
  induction m using Nat.strongRecOn with
  | _ m ih =>
    rw [groupNat]
    split
    · rename_i h; exact groupThousands_short _ (decDigits_lt1000_length m h)
    · rename_i h
      rw [decDigits_ge1000 m (by omega),
        groupThousands_append3 _ _ (padLeft_length 3 _) (decDigits_ne_nil _), ih (m / 1000) (by omega)]

/-! ### the whole rendering -/

theorem roundHalfAway_scaled (N k n s a : Nat) :
    (2 * N * 10 ^ (a + s + n) + 10 ^ (a + k)) / (2 * 10 ^ (a + k)) = roundHalfAway (10 ^ s * N) k n := by
  unfold roundHalfAway
  have hA : 0 < 10 ^ a := Nat.pow_pos (by omega)
  have e1 : 2 * N * 10 ^ (a + s + n) + 10 ^ (a + k) = (2 * (10 ^ s * N) * 10 ^ n + 10 ^ k) * 10 ^ a := by
    rw [Nat.pow_add, Nat.pow_add, Nat.pow_add]; ring
  have e2 : 2 * 10 ^ (a + k) = (2 * 10 ^ k) * 10 ^ a := by rw [Nat.pow_add]; ring
  rw [e1, e2, Nat.mul_div_mul_right _ _ hA]

/-- `format_decimal_text` on digits = render of the arithmetic rounding -/
theorem formatDecimal_eq (t : DecText) (shift n : Nat) (th : Bool) :
    formatDecimal t shift n th
      = render t.neg (roundHalfAway (10 ^ shift * valOf (t.int ++ t.frac)) t.frac.length n) n th := by
  have hR := valOf_roundDigits (t.int ++ t.frac) (t.int.length + shift + n)
  rw [List.length_append, roundHalfAway_scaled] at hR
  have hlen := length_roundDigits (t.int ++ t.frac) (t.int.length + shift + n)
  unfold formatDecimal render intText
  simp only []
  generalize roundDigits (t.int ++ t.frac) (t.int.length + shift + n) = digits at *
  have hn : n ≤ digits.length := by omega
  have hint : valOf (digits.take (digits.length - n)) = valOf digits / 10 ^ n := by
    rw [valOf_take]; congr 2; omega
  have hfrac : valOf (digits.drop (digits.length - n)) = valOf digits % 10 ^ n := by
    rw [valOf_drop]; congr 2; omega
  have hfl : (digits.drop (digits.length - n)).length = n := by rw [List.length_drop]; omega
  rw [stripZeros_text, map_digitCh, hfl, hint, hfrac, hR, groupThousands_decDigits]

/-! ### shape of the rendered pieces -/

theorem padLeft_all_digit (n v : Nat) : (padLeft n v).all isDigit = true := by
  induction n generalizing v with
  | zero => rfl
  | succ n ih => rw [padLeft, List.all_append, ih]; simp [isDigit_digitChar]

theorem groupNat_all (m : Nat) : (groupNat m).all (fun c => isDigit c || c == ',') = true := by
  induction m using Nat.strongRecOn with
  | _ m ih =>
    rw [groupNat]
    split
    · have := decDigits_all_digit m
      rw [List.all_eq_true] at this ⊢
      intro c hc; simp [this c hc]
    · rw [List.all_append, ih (m / 1000) (by omega), List.all_cons]
      have := padLeft_all_digit 3 (m % 1000)
      rw [List.all_eq_true] at this
      simp only [beq_self_eq_true, Bool.or_true, Bool.true_and, List.all_eq_true]
      intro c hc; simp [this c hc]

/-- removing the commas gives back the plain decimal text -/
theorem groupNat_filter (m : Nat) : (groupNat m).filter (· ≠ ',') = decDigits m := by
  have hf : ∀ l : List Char, l.all isDigit = true → l.filter (· ≠ ',') = l := by
    intro l hl
    rw [List.filter_eq_self]
    intro c hc
    rw [List.all_eq_true] at hl
    have := hl c hc
    have : c ≠ ',' := by intro h; subst h; revert this; decide
    simpa using this
  induction m using Nat.strongRecOn with
  | _ m ih =>
    rw [groupNat]
    split
    · exact hf _ (decDigits_all_digit m)
    · rename_i h
      rw [List.filter_append, ih (m / 1000) (by omega), List.filter_cons]
      simp only [ne_eq, not_true_eq_false, decide_false, Bool.false_eq_true, if_false]
      rw [hf _ (padLeft_all_digit 3 _), ← decDigits_ge1000 m (by omega)]

/-- counting from the right, exactly every fourth character of the grouped text is a comma
    (so every comma is followed by a block of exactly three digits) -/
theorem groupNat_commas (m : Nat) (i : Nat) (hi : i < (groupNat m).length) :
    (groupNat m).reverse[i]? = some ',' ↔ i % 4 = 3 := by
  induction m using Nat.strongRecOn generalizing i with
  | _ m ih =>
    by_cases h : m < 1000
    · rw [groupNat, if_pos h] at hi ⊢
      have hl := decDigits_lt1000_length m h
      have hd := decDigits_all_digit m
      constructor
      · intro hc
        have hmem : ',' ∈ (decDigits m).reverse := List.mem_of_getElem? hc
        rw [List.mem_reverse] at hmem
        rw [List.all_eq_true] at hd
        exact absurd (hd _ hmem) (by decide)
      · intro h3; omega
    · rw [groupNat, if_neg h] at hi ⊢
      rw [List.reverse_append, List.reverse_cons]
      have hp : (padLeft 3 (m % 1000)).reverse.length = 3 := by rw [List.length_reverse, padLeft_length]
      have hpd := padLeft_all_digit 3 (m % 1000)
      rw [List.all_eq_true] at hpd
      rw [List.length_append, List.length_cons, padLeft_length] at hi
      by_cases h3 : i < 3
      · rw [List.getElem?_append_left (by simp [padLeft_length]; omega)]
        constructor
        · intro hc
          have hmem : ',' ∈ (padLeft 3 (m % 1000)).reverse ++ [','] := List.mem_of_getElem? hc
          rw [List.getElem?_append_left (by rw [hp]; exact h3)] at hc
          have hmem2 : ',' ∈ (padLeft 3 (m % 1000)).reverse := List.mem_of_getElem? hc
          rw [List.mem_reverse] at hmem2
          exact absurd (hpd _ hmem2) (by decide)
        · intro; omega
      · by_cases h4 : i = 3
        · subst h4
          rw [List.getElem?_append_left (by simp [padLeft_length]),
            List.getElem?_append_right (by rw [hp]), hp]
          simp
        · rw [List.getElem?_append_right (by simp [padLeft_length]; omega)]
          simp only [List.length_append, hp, List.length_cons, List.length_nil]
          rw [ih (m / 1000) (by omega) (i - (3 + (0 + 1))) (by omega)]
          omega

end Umya.NumFmt
