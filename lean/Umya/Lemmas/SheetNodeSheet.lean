/-
  Helper lemmas for `Umya/Thm/C02Sheet.lean`, part 3: `<sheetData>` as a whole, the children of
  `<worksheet>` (schema order, look-ups by name through the opaque frame), merged ranges, hyperlinks and
  the relationships part.
-/
import Umya.Lemmas.SheetNodeRows
namespace Umya.SheetNode
open Umya.CellXml Umya.CellNode Umya.Dec Umya.Coord
open Umya.Spec.Sml
open Umya.Spec.Xml (Node Attr localName)

/-! ## rows -/

section
variable (F : Umya.Num.NumFmt)

theorem rowNumbers_rendered {xf : List Char → Nat} {t : Table} {gs : List (RowW × List (Cell F.Num))} {ns : List Node}
    (h : All₂ (RowRel F xf t) gs ns) : ∀ prev, rowNumbers prev ns = gs.map (·.1.num) := by
  induction h with
  | nil => intro _; rfl
  | cons hr _ ih =>
    intro prev
    obtain ⟨nodes, rfl, _, _⟩ := hr
    simp only [rowNumbers, List.map_cons]
    rw [lit_r, row_attr_r]
    simp only [Option.bind_some, natOf_decDigits, Option.getD_some]
    rw [ih]

/-- the conditions on the cells under one row -/
def GroupOk (g : RowW × List (Cell F.Num)) : Prop :=
  (∀ c ∈ g.2, c.row = g.1.num) ∧ g.2.Pairwise (fun a b => a.col < b.col) ∧ (∀ c ∈ g.2, 1 ≤ c.col ∧ c.col ≤ 16384)

theorem perRow_all (path : String) (nXf : Nat) (xf : List Char → Nat) (tblF sst : Table) (hx : Extends sst tblF)
    (hn : 0 < nXf) (hxf : ∀ ref, xf ref < nXf)
    {gs : List (RowW × List (Cell F.Num))} {ns : List Node} (h : All₂ (RowRel F xf tblF) gs ns) :
    (∀ g ∈ gs, GroupOk F g) →
    (ns.zip (gs.map (·.1.num))).map (fun (r, rn) => perRowOf path (sst.map itemText) nXf r rn)
      = gs.map (fun g => (cellViews F xf g.2, [])) := by
  induction h with
  | nil => intro _; rfl
  | @cons g n gs' ns' hr _ ih =>
    intro hg
    have hg1 := hg g (by simp)
    simp only [List.map_cons, List.zip_cons_cons]
    rw [perRow_rendered F path nXf xf tblF sst hx g n hr hg1.1 hg1.2.1 hg1.2.2 hn hxf]
    rw [ih (fun g' hg' => hg g' (by simp [hg']))]

theorem rowVs_all {xf : List Char → Nat} {t : Table} {gs : List (RowW × List (Cell F.Num))} {ns : List Node}
    (h : All₂ (RowRel F xf t) gs ns) :
    (ns.zip (gs.map (·.1.num))).map (fun (r, rn) =>
      ({ num := rn, height := r.attr? ['h', 't'], hidden := boolAttrL r ['h', 'i', 'd', 'd', 'e', 'n'],
         style := if boolAttrL r ['c', 'u', 's', 't', 'o', 'm', 'F', 'o', 'r', 'm', 'a', 't'] then (r.attr? ['s']).bind natOf else none } : RowV))
      = gs.map (fun g => rowView g.1) := by
  induction h with
  | nil => rfl
  | @cons g n gs' ns' hr _ ih =>
    obtain ⟨⟨num, ht, hidden, x⟩, cs⟩ := g
    obtain ⟨nodes, rfl, _, _⟩ := hr
    simp only [List.map_cons, List.zip_cons_cons, ih, List.cons.injEq, and_true]
    simp only [boolAttrL, rowAttrs, rowView, Node.attr?, Node.attrs]
    by_cases hx : x > 0 <;> cases ht <;> cases hidden <;> by_cases hc : cs.isEmpty = true <;>
      simp [hx, hc, natOf_decDigits]

theorem noR_all {xf : List Char → Nat} {t : Table} {gs : List (RowW × List (Cell F.Num))} {ns : List Node}
    (h : All₂ (RowRel F xf t) gs ns) : dsNoR ns = false := by
  unfold dsNoR
  induction h with
  | nil => rfl
  | @cons g n gs' ns' hr _ ih =>
    obtain ⟨nodes, rfl, hc, _⟩ := hr
    simp only [List.any_cons, ih, Bool.or_false]
    rw [row_attr_r, row_kids_c g.1 g.2 nodes hc]
    have : nodes.any (fun c => (c.attr? ['r']).isNone) = false := by
      rw [List.any_eq_false]
      intro k hk
      simp [isC_has_r k (hc k hk)]
    simp [this]

theorem all2_isRow {xf : List Char → Nat} {t : Table} {gs : List (RowW × List (Cell F.Num))} {ns : List Node}
    (h : All₂ (RowRel F xf t) gs ns) : ns.filter (isKid nRow) = ns := by
  induction h with
  | nil => rfl
  | @cons g n gs' ns' hr _ ih =>
    obtain ⟨nodes, rfl, _, _⟩ := hr
    have : isKid nRow (Node.elem nRow (rowAttrs g.1 g.2) nodes) = true := by
      rw [isKid_elem]; decide
    simp [this, ih]

end

/-! ## the children of `<worksheet>`: names and schema order -/

/-- a child the decoder knows by name -/
def Known (k : Node) : Prop := k.isElem = true ∧ ∃ i, nameIdx k = some i

/-- a run of children at schema positions `lo..hi`, in schema order -/
def Seg (lo hi : Nat) (l : List Node) : Prop :=
  (∀ k ∈ l, Known k ∧ lo ≤ idxOf k ∧ idxOf k ≤ hi) ∧ l.Pairwise (fun a b => idxOf a ≤ idxOf b)

theorem seg_nil (lo hi : Nat) : Seg lo hi [] := ⟨by simp, List.Pairwise.nil⟩

theorem seg_single (k : Node) (i : Nat) (he : k.isElem = true) (hi : nameIdx k = some i) : Seg i i [k] := by
  refine ⟨?_, List.pairwise_singleton _ _⟩
  intro k' hk'
  simp only [List.mem_singleton] at hk'
  subst hk'
  exact ⟨⟨he, i, hi⟩, by simp [idxOf, hi], by simp [idxOf, hi]⟩

theorem seg_append {lo hi lo' hi' : Nat} {l l' : List Node} (h : Seg lo hi l) (h' : Seg lo' hi' l') (hle : hi ≤ lo')
    (hlo : lo ≤ lo') (hhi : hi ≤ hi') : Seg lo hi' (l ++ l') := by
  refine ⟨?_, List.pairwise_append.2 ⟨h.2, h'.2, ?_⟩⟩
  · intro k hk
    rcases List.mem_append.1 hk with hk | hk
    · have := h.1 k hk; exact ⟨this.1, this.2.1, by omega⟩
    · have := h'.1 k hk; exact ⟨this.1, by omega, this.2.2⟩
  · intro a ha b hb
    have := h.1 a ha
    have := h'.1 b hb
    omega

theorem sortedIdx_pairwise (l : List Node) (h : sortedIdx l = true) : l.Pairwise (fun a b => idxOf a ≤ idxOf b) := by
  induction l with
  | nil => exact List.Pairwise.nil
  | cons a r ih =>
    simp only [sortedIdx, Bool.and_eq_true, List.all_eq_true, decide_eq_true_eq] at h
    exact List.pairwise_cons.2 ⟨h.1, ih h.2⟩

theorem opaqueOk_spec (lo hi : Nat) (k : Node) (h : opaqueOk lo hi k = true) : Known k ∧ lo ≤ idxOf k ∧ idxOf k ≤ hi := by
  unfold opaqueOk at h
  cases hi' : nameIdx k with
  | none => simp [hi'] at h
  | some i =>
    simp only [hi', Bool.and_eq_true, decide_eq_true_eq] at h
    exact ⟨⟨h.1, i, hi'⟩, by simp [idxOf, hi']; exact h.2.1, by simp [idxOf, hi']; exact h.2.2⟩

theorem seg_of_opaque (lo hi : Nat) (l : List Node) (h1 : l.all (opaqueOk lo hi) = true) (h2 : sortedIdx l = true) : Seg lo hi l :=
  ⟨fun k hk => opaqueOk_spec lo hi k (List.all_eq_true.1 h1 k hk), sortedIdx_pairwise l h2⟩

theorem seg_of_opaque2 (l : List Node) (h1 : l.all (fun k => opaqueOk 19 36 k || opaqueOk 38 38 k) = true) (h2 : sortedIdx l = true) :
    Seg 19 38 l := by
  refine ⟨fun k hk => ?_, sortedIdx_pairwise l h2⟩
  have := List.all_eq_true.1 h1 k hk
  simp only [Bool.or_eq_true] at this
  rcases this with h | h
  · have := opaqueOk_spec _ _ k h; exact ⟨this.1, this.2.1, by omega⟩
  · have := opaqueOk_spec _ _ k h; exact ⟨this.1, by omega, this.2.2⟩

/-- a child named `nm` sits at `nm`'s schema position -/
theorem isKid_idx (nm : List Char) (k : Node) (h : isKid nm k = true) :
    nameIdx k = indexIn worksheetOrder (str nm) := by
  unfold isKid at h
  simp only [Bool.and_eq_true, decide_eq_true_eq] at h
  unfold nameIdx
  rw [h.2]

/-- a run of children at positions other than `nm`'s has no child named `nm` -/
theorem seg_filter_none (nm : List Char) (j : Nat) (hj : indexIn worksheetOrder (str nm) = some j) (l : List Node)
    (h : ∀ k ∈ l, (∃ i, nameIdx k = some i) → idxOf k ≠ j) (hk : ∀ k ∈ l, ∃ i, nameIdx k = some i) :
    l.filter (isKid nm) = [] := by
  apply List.filter_eq_nil_iff.2
  intro k hkm hkid
  have := isKid_idx nm k hkid
  rw [hj] at this
  exact h k hkm (hk k hkm) (by simp [idxOf, this])

theorem seg_no (nm : List Char) (j : Nat) (hj : indexIn worksheetOrder (str nm) = some j) {lo hi : Nat} {l : List Node}
    (h : Seg lo hi l) (hout : j < lo ∨ hi < j) : l.filter (isKid nm) = [] := by
  apply seg_filter_none nm j hj l
  · intro k hk _; have := h.1 k hk; omega
  · intro k hk; exact (h.1 k hk).1.2

/-! ### the decoder's name checks on known children in schema order -/

theorem alt_none : indexIn worksheetOrder "AlternateContent" = none := by decide

theorem known_names (l : List Node) (h : ∀ k ∈ l, Known k) :
    ((l.filter (·.isElem)).map (fun k => str (localName k.name))).filter (· ≠ "AlternateContent")
      = l.map (fun k => str (localName k.name)) := by
  have h1 : l.filter (·.isElem) = l := List.filter_eq_self.2 (fun k hk => (h k hk).1)
  rw [h1]
  apply List.filter_eq_self.2
  intro s hs
  obtain ⟨k, hk, rfl⟩ := List.mem_map.1 hs
  obtain ⟨_, i, hi⟩ := h k hk
  simp only [decide_eq_true_eq]
  intro he
  unfold nameIdx at hi
  rw [he, alt_none] at hi
  cases hi

theorem known_idxs (l : List Node) (h : ∀ k ∈ l, Known k) :
    (l.map (fun k => str (localName k.name))).filterMap (indexIn worksheetOrder) = l.map idxOf := by
  induction l with
  | nil => rfl
  | cons k l ih =>
    obtain ⟨_, i, hi⟩ := h k (by simp)
    have hi' : indexIn worksheetOrder (str (localName k.name)) = some i := hi
    simp only [List.map_cons, List.filterMap_cons, hi']
    rw [ih (fun k' hk' => h k' (by simp [hk']))]
    simp [idxOf, hi]

theorem known_unknown (l : List Node) (h : ∀ k ∈ l, Known k) :
    (l.map (fun k => str (localName k.name))).filter (fun k => (indexIn worksheetOrder k).isNone) = [] := by
  apply List.filter_eq_nil_iff.2
  intro s hs
  obtain ⟨k, hk, rfl⟩ := List.mem_map.1 hs
  obtain ⟨_, i, hi⟩ := h k hk
  have hi' : indexIn worksheetOrder (str (localName k.name)) = some i := hi
  simp [hi']

/-- children that are all known and in schema order: no order diagnostic, no unknown-child diagnostic -/
theorem e1_nil (path : String) (nm : List Char) (as : List Attr) (l : List Node) (h : Seg 0 38 l) :
    dsE1 path (Node.elem nm as l) = [] ∧ dsE1b path (Node.elem nm as l) = [] := by
  have hk : ∀ k ∈ l, Known k := fun k hk => (h.1 k hk).1
  have hn : dsKidsNames (Node.elem nm as l) = l.map (fun k => str (localName k.name)) := known_names l hk
  constructor
  · unfold dsE1
    rw [hn, known_idxs l hk, nonDecreasing_of_pairwise _ (by rw [List.pairwise_map]; exact h.2)]
    rfl
  · unfold dsE1b
    rw [hn, known_unknown l hk]
    rfl

/-! ## merged ranges -/

theorem localName_mergeCell : localName nMergeCell = nMergeCell := by decide

theorem merges_kids (merges : List (List Char)) :
    ((merges.map fun m => Node.elem nMergeCell [⟨['r', 'e', 'f'], m⟩] []).filter (isKid nMergeCell)).filterMap
      (·.attr? ['r', 'e', 'f']) = merges := by
  induction merges with
  | nil => rfl
  | cons m ms ih =>
    have hk : isKid nMergeCell (Node.elem nMergeCell [⟨['r', 'e', 'f'], m⟩] []) = true := by
      rw [isKid_elem]; decide
    simp only [List.map_cons, List.filter_cons, hk, if_true, List.filterMap_cons]
    rw [ih]
    simp [Node.attr?, Node.attrs]

/-- the decoder's merged ranges of the `<mergeCells>` the writer emits (none when there is no range) -/
theorem merges_decode (merges : List (List Char)) :
    ((((mergeNodes merges).head?).map (kidsL · nMergeCell)).getD []).filterMap (·.attr? ['r', 'e', 'f']) = merges := by
  unfold mergeNodes
  cases merges with
  | nil => rfl
  | cons m ms =>
    simp only [List.isEmpty_cons, Bool.false_eq_true, if_false, List.head?_cons, Option.map_some, Option.getD_some, kidsL,
      Node.children]
    exact merges_kids (m :: ms)

/-! ## hyperlinks and the relationships part -/

/-- the relationship the decoder reads from a `Relationship` element -/
def relOf (r : Node) : Rel :=
  { id := str ((r.attr? ['I', 'd']).getD []), type := str ((r.attr? ['T', 'y', 'p', 'e']).getD []),
    target := str ((r.attr? ['T', 'a', 'r', 'g', 'e', 't']).getD []),
    external := (r.attr? ['T', 'a', 'r', 'g', 'e', 't', 'M', 'o', 'd', 'e']) = some ['E', 'x', 't', 'e', 'r', 'n', 'a', 'l'] }

/-- the relationships an independent reader takes from the part the writer emits (none written: none read) -/
def relsView (links : List LinkW) (rest : List Node) : List Rel :=
  ((relWalk 1 links ++ rest).filter (isKid nRelationship)).map relOf

theorem relsOf_rendered (p : Package) (path : String) (links : List LinkW) (rest : List Node)
    (h : (p.part? (relsNameOf path)).bind (·.xml) = relsRoot links rest) : relsOf p path = relsView links rest := by
  unfold relsOf
  rw [h]
  unfold relsRoot relsView
  by_cases he : relWalk 1 links ++ rest = []
  · simp [he]
  · rw [if_neg he]
    rfl

/-- the records of the hyperlink relationships, `k` = the counter of worksheet_rels.rs -/
def relRecs : Nat → List LinkW → List Rel
  | _, [] => []
  | k, l :: ls =>
    if l.location then relRecs k ls
    else { id := str (rIdText k), type := str hyperlinkType, target := str l.url, external := true } :: relRecs (k + 1) ls

theorem isKid_relNode (k : Nat) (u : List Char) : isKid nRelationship (relNode k u) = true := by
  unfold relNode; rw [isKid_elem]; decide

theorem relOf_relNode (k : Nat) (u : List Char) :
    relOf (relNode k u) = { id := str (rIdText k), type := str hyperlinkType, target := str u, external := true } := by
  simp [relOf, relNode, Node.attr?, Node.attrs, nRelationship]

theorem relWalk_recs (ls : List LinkW) : ∀ k, ((relWalk k ls).filter (isKid nRelationship)).map relOf = relRecs k ls := by
  induction ls with
  | nil => intro _; rfl
  | cons l ls ih =>
    intro k
    simp only [relWalk, relRecs]
    split
    · exact ih k
    · simp only [List.filter_cons, isKid_relNode, if_true, List.map_cons, relOf_relNode, ih]

theorem relsView_eq (links : List LinkW) (rest : List Node) :
    relsView links rest = relRecs 1 links ++ (rest.filter (isKid nRelationship)).map relOf := by
  simp [relsView, List.filter_append, relWalk_recs]

theorem rIdText_inj (i j : Nat) (h : str (rIdText i) = str (rIdText j)) : i = j := by
  have h1 : rIdText i = rIdText j := String.ofList_injective h
  simp only [rIdText, List.cons.injEq, true_and] at h1
  have := congrArg parseDec h1
  simpa [parseDec_decDigits] using this

theorem linkOf_location (path : String) (rels : List Rel) (l : LinkW) :
    linkOf path rels (Node.elem nHyperlink ([⟨['r', 'e', 'f'], l.ref⟩, ⟨['l', 'o', 'c', 'a', 't', 'i', 'o', 'n'], l.url⟩] ++ tooltipAttr l) [])
      = ({ ref := l.ref, external := false, target := l.url, location := none,
           tooltip := if l.tooltip = [] then none else some l.tooltip, display := none }, []) := by
  by_cases ht : l.tooltip = [] <;> simp [linkOf, tooltipAttr, ht, Node.attr?, Node.attrs]

theorem linkOf_external (path : String) (rels : List Rel) (l : LinkW) (k : Nat) (r : Rel)
    (hf : rels.find? (fun (r : Rel) => r.id = str (rIdText k)) = some r) :
    linkOf path rels (Node.elem nHyperlink ([⟨['r', 'e', 'f'], l.ref⟩, ⟨['r', ':', 'i', 'd'], rIdText k⟩] ++ tooltipAttr l) [])
      = ({ ref := l.ref, external := true, target := r.target.toList, location := none,
           tooltip := if l.tooltip = [] then none else some l.tooltip, display := none }, []) := by
  by_cases ht : l.tooltip = [] <;> simp [linkOf, tooltipAttr, ht, Node.attr?, Node.attrs, hf]

/-- THE PAIRING, on the decoder's own functions: the hyperlink elements of the sheet part, walked with the
    counter at `k`, against a relationship list that holds — after relationships with smaller ids — the
    records the relationships writer produces for the same links from the same counter: every link comes
    back with its own reference, target and tooltip, no diagnostic -/
theorem links_decode (path : String) (R : List Rel) : ∀ (ls : List LinkW) (k : Nat) (A : List Rel),
    (∀ r ∈ A, ∃ i, i < k ∧ r.id = str (rIdText i)) →
    (hlWalk k ls).map (linkOf path (A ++ relRecs k ls ++ R)) = ls.map (fun l => (linkView l, [])) := by
  intro ls
  induction ls with
  | nil => intro _ _ _; rfl
  | cons l ls ih =>
    intro k A hA
    by_cases hl : l.location = true
    · simp only [hlWalk, relRecs, hl, if_true, List.map_cons]
      rw [linkOf_location, ih k A hA]
      simp [linkView, hl]
    · have hl' : l.location = false := by simpa using hl
      simp only [hlWalk, relRecs, hl', Bool.false_eq_true, if_false, List.map_cons]
      have hfind : (A ++ ({ id := str (rIdText k), type := str hyperlinkType, target := str l.url, external := true } :: relRecs (k + 1) ls) ++ R).find?
          (fun (r : Rel) => r.id = str (rIdText k))
          = some { id := str (rIdText k), type := str hyperlinkType, target := str l.url, external := true } := by
        rw [List.append_assoc, List.find?_append]
        have hnone : A.find? (fun (r : Rel) => r.id = str (rIdText k)) = none := by
          apply List.find?_eq_none.2
          intro r hr
          obtain ⟨i, hi, hid⟩ := hA r hr
          simp only [decide_eq_true_eq]
          intro he
          rw [hid] at he
          have := rIdText_inj i k he
          omega
        rw [hnone]
        simp
      rw [linkOf_external path _ l k _ hfind]
      have hassoc : A ++ ({ id := str (rIdText k), type := str hyperlinkType, target := str l.url, external := true } :: relRecs (k + 1) ls) ++ R
          = (A ++ [{ id := str (rIdText k), type := str hyperlinkType, target := str l.url, external := true }]) ++ relRecs (k + 1) ls ++ R := by
        simp
      rw [hassoc, ih (k + 1) _ ?_]
      · simp [linkView, hl', str]
      · intro r hr
        rcases List.mem_append.1 hr with hr | hr
        · obtain ⟨i, hi, hid⟩ := hA r hr
          exact ⟨i, by omega, hid⟩
        · simp only [List.mem_singleton] at hr
          subst hr
          exact ⟨k, by omega, rfl⟩

theorem hlWalk_isKid (ls : List LinkW) : ∀ k, (hlWalk k ls).filter (isKid nHyperlink) = hlWalk k ls := by
  induction ls with
  | nil => intro _; rfl
  | cons l ls ih =>
    intro k
    simp only [hlWalk]
    split
    · have : isKid nHyperlink (Node.elem nHyperlink ([⟨['r', 'e', 'f'], l.ref⟩, ⟨['l', 'o', 'c', 'a', 't', 'i', 'o', 'n'], l.url⟩] ++ tooltipAttr l) []) = true := by
        rw [isKid_elem]; decide
      simp only [List.filter_cons, this, if_true, ih]
    · have : isKid nHyperlink (Node.elem nHyperlink ([⟨['r', 'e', 'f'], l.ref⟩, ⟨['r', ':', 'i', 'd'], rIdText k⟩] ++ tooltipAttr l) []) = true := by
        rw [isKid_elem]; decide
      simp only [List.filter_cons, this, if_true, ih]

/-- the decoder's hyperlinks of the `<hyperlinks>` element the writer emits, through the relationships part
    the writer emits for the same links -/
theorem hyperlinks_decode (path : String) (links : List LinkW) (rest : List Node) :
    ((((hyperlinkNodes links).head?).map (kidsL · nHyperlink)).getD []).map (linkOf path (relsView links rest))
      = links.map (fun l => (linkView l, [])) := by
  unfold hyperlinkNodes
  cases links with
  | nil => rfl
  | cons l ls =>
    simp only [List.isEmpty_cons, Bool.false_eq_true, if_false, List.head?_cons, Option.map_some, Option.getD_some, kidsL,
      Node.children, hlWalk_isKid, relsView_eq]
    have := links_decode path ((rest.filter (isKid nRelationship)).map relOf) (l :: ls) 1 [] (by simp)
    simpa using this

end Umya.SheetNode
