/-
  Helper definitions and lemmas for the composed theorem `C03_book` (`Umya/Thm/C03Names.lean`): the components of
  `Spec.Sml.decode`'s `BookV` taken out of `decode` (`decode_book`), the views compared, `mapM` with a view.
-/
import Umya.Lemmas.ReaderNames
import Umya.Lemmas.ReaderPath
import Umya.Model.ReaderStyleView
namespace Umya.Reader.Lemmas
open Umya.Reader Umya.Spec.Xml Umya.Spec.Sml

/-- the decoder's shared-string table, style root and sheet of a workbook part at `wbPath` -/
def specSst (p : Package) (wbPath : String) : List Text :=
  match ((relsOf p wbPath).find? (fun r => r.type.endsWith "/sharedStrings")).map (fun r => resolveTarget wbPath r.target) with
  | some sp => sharedStrings p sp
  | none => []

def specStylesRoot (p : Package) (wbPath : String) : Option Node :=
  ((((relsOf p wbPath).find? (fun r => r.type.endsWith "/styles")).map (fun r => resolveTarget wbPath r.target)).bind p.part?).bind (·.xml)

def specNXf (sr : Option Node) : Nat := match sr with
  | some sr => ((sr.kid? "cellXfs").map (fun x => (x.kids "xf").length)).getD 1
  | none => 1
def specNDxf (sr : Option Node) : Nat := match sr with
  | some sr => ((sr.kid? "dxfs").map (fun x => (x.kids "dxf").length)).getD 0
  | none => 0

def specSheetOf (p : Package) (wbPath : String) (s : Node) : SheetV :=
  let name := (s.attr? "name".toList).getD []
  let state := str ((s.attr? "state".toList).getD "visible".toList)
  match (s.attr? "r:id".toList).bind (fun rid => (relsOf p wbPath).find? (fun (r : Rel) => r.id = str rid)) with
  | none => SheetV.mk name state [] [] [] [] [] [] false
  | some r =>
    let b := (decodeSheet p (resolveTarget wbPath r.target) (specSst p wbPath) (specNXf (specStylesRoot p wbPath)) (specNDxf (specStylesRoot p wbPath))).1
    SheetV.mk name state b.cells b.merges b.links b.cols b.rows b.tables b.noR

theorem decode_book (p : Package) (mr : Rel) (wb : Node)
    (h1 : (relsOf p "").find? (fun r => r.type.endsWith "/officeDocument") = some mr)
    (h2 : (p.part? (resolveTarget "" mr.target)).bind (·.xml) = some wb) :
    ∃ bv, (decode p).1 = some bv ∧
      bv.sheets = (((wb.kid? "sheets").map (·.kids "sheet")).getD []).map (specSheetOf p (resolveTarget "" mr.target)) ∧
      bv.names = (((wb.kid? "definedNames").map (·.kids "definedName")).getD []).map specName ∧
      bv.xfs = ((specStylesRoot p (resolveTarget "" mr.target)).map styleTable).getD [] := by
  unfold decode
  simp only [h1, h2]
  refine ⟨_, rfl, ?_, rfl, rfl⟩
  simp only [List.map_map]
  apply List.map_congr_left
  intro s _
  simp only [Function.comp, specSheetOf, specSst, specStylesRoot, specNXf, specNDxf]
  cases (s.attr? "r:id".toList).bind (fun rid => (relsOf p (resolveTarget "" mr.target)).find? (fun (r : Rel) => r.id = str rid)) <;> rfl

/-! ## the views compared -/

/-- what is compared of a sheet: name, state, the cells (`View`: column, row, kind, value, formula, style index) in document
    order, the resolved style facts of every `<c>` in document order, the merged ranges, the links -/
structure SheetView where
  name : Text
  state : String
  cells : List View
  facts : List StyleFacts
  merges : List Text
  links : List LinkView

def viewR (sb : SheetB) : SheetView :=
  ⟨sb.sheet.name, str (sb.sheet.state.getD "visible".toList), sb.cells.map outView, sb.styles.map styleFacts,
    shownMerges sb.merges, sb.links.map linkViewR⟩

def viewS (sv : SheetV) (facts : List StyleFacts) : SheetView :=
  ⟨sv.name, sv.state, sv.cells.map specView, facts, sv.merges, sv.links.map linkViewS⟩

/-- the decoder's style facts of one `<c>`: through `cellXfs` by the cell's style index (18.3.1.4 `s`); a cell without `s`
    has no style of its own in the view (the library keeps `Style::default()`, the decoder's index is 0) -/
def specFacts (cf : Umya.StyleCodec.Tok → Umya.StyleCodec.Tok) (tab : List XfV) (sst : List Text) (c : Node) : StyleFacts :=
  match c.attr? "s".toList with
  | none => {}
  | some _ => ((tab[(decodeCell sst c).1.style]?).map (xfFacts cf)).getD {}

def cellNodes (root : Node) : List Node := (((root.kid? "sheetData").map (·.kids "row")).getD []).flatMap (·.kids "c")

end Umya.Reader.Lemmas
