/-
  Helper lemmas of `Umya/Thm/C17ParseMore.lean`: `Address::set_address` / `get_address_ptn2` on areas of all four range
  shapes, with or without a sheet qualifier.
-/
import Umya.Lemmas.CoordParseQuote
import Umya.Model.CoordCanonMore
namespace Umya.Annot
open Umya.Coord Umya.Dec Umya.Thm.C17

theorem dropWhile_all' {α} (p : α → Bool) (l : List α) (h : ∀ x ∈ l, p x = true) : l.dropWhile p = [] := by
  induction l with
  | nil => rfl
  | cons a t ih =>
    simp only [List.dropWhile_cons, h a (by simp), if_true]
    exact ih (fun x hx => h x (List.mem_cons_of_mem _ hx))

theorem rsplitBang_none' (t : List Char) (h : '!' ∉ t) : rsplitBang t = none := by
  have hd : t.reverse.dropWhile (fun x => decide (x ≠ '!')) = [] := by
    apply dropWhile_all'
    intro x hx
    have : x ∈ t := List.mem_reverse.1 hx
    simp only [ne_eq, decide_not, Bool.not_eq_eq_eq_not, Bool.not_true, decide_eq_false_iff_not]
    intro e; subst e; exact h this
  simp only [rsplitBang, hd]

theorem apos_bang_print (ρ : Range) : '\'' ∉ '!' :: ρ.print := by
  intro hm
  rcases List.mem_cons.1 hm with e | e
  · exact absurd e (by decide)
  · exact apos_free_print _ e

/-- an address without a sheet: prints the bare range text, and that text parses back -/
theorem unqual_text (ρ : Range) : (⟨[], ρ⟩ : Address).text = ρ.print := by
  simp [Address.text, addressText]

theorem unqual_parse (ρ : Range) (hs : Range.IsShape ρ) (hb : Range.InBounds ρ) :
    Address.parse ρ.print = .ok ⟨[], ρ⟩ ∧ Address.parse (undouble ρ.print) = .ok ⟨[], ρ⟩ := by
  have h1 : Address.parse ρ.print = .ok ⟨[], ρ⟩ := by
    simp only [Address.parse, splitAddress, rsplitBang_none' _ (bang_free_print ρ), C17_range ρ hs hb]
  exact ⟨h1, by rw [undouble_id _ (apos_free_print ρ)]; exact h1⟩

/-- `parse_area` for every shape -/
theorem parse_area' (a : Address) (hl : LegalSheet a.sheet) (hs : Range.IsShape a.range) (hb : Range.InBounds a.range) :
    Address.parse (undouble a.text) = .ok a := by
  obtain ⟨⟨hne, hh⟩, hf⟩ := hl
  have hleg : LegalSheetName a.sheet := ⟨hne, hh⟩
  have hpr := C17_range a.range hs hb
  have hbang := bang_free_print a.range
  have hapos := apos_bang_print a.range
  obtain ⟨sheet, ρ⟩ := a
  simp only at hne hh hf hs hb hleg hpr hbang hapos
  unfold Address.text
  simp only
  rcases addressText_forms sheet ρ.print hne with ⟨e, hal⟩ | e
  · rw [e]
    have hfree : '\'' ∉ sheet ++ '!' :: ρ.print := by
      intro hm
      rcases List.mem_append.1 hm with h | h
      · exact alnum_ne_apos _ (List.all_eq_true.1 hal _ h) rfl
      · exact hapos h
    rw [undouble_id _ hfree]
    simp only [Address.parse, splitAddress, rsplitBang_join sheet ρ.print hbang, stripSheetQuote_legal sheet hleg, hpr]
  · rw [e]
    have hhd : (replaceApos sheet ++ '\'' :: '!' :: ρ.print).head? ≠ some '\'' := by
      obtain ⟨h1, h2⟩ := replaceApos_head sheet hne hh
      cases hr : replaceApos sheet with
      | nil => exact absurd hr h2
      | cons c r => rw [hr] at h1; simpa using h1
    rw [undouble_apos_single _ hhd, undouble_double,
      undouble_apos_single _ (by simp), undouble_id _ hapos]
    have : '\'' :: (sheet ++ '\'' :: '!' :: ρ.print) = ('\'' :: (sheet ++ ['\''])) ++ '!' :: ρ.print := by simp
    rw [this]
    simp only [Address.parse, splitAddress, rsplitBang_join _ ρ.print hbang, stripSheetQuote_quoted, hpr]

/-- `canonArea_piece` for every shape (address level: no `is_address` filter here) -/
theorem canonArea_piece' (t : Text) (h : canonAreaB' t = true) :
    ∃ a : Address, LegalSheet a.sheet ∧ Range.IsShape a.range ∧ Range.InBounds a.range ∧
      Address.parse (undouble t) = .ok a ∧ a.text = canonArea t := by
  unfold canonAreaB' at h
  split at h
  · rename_i q r hsp
    simp only [Bool.and_eq_true] at h
    obtain ⟨ht, hbang⟩ := rsplitBang_some_eq t q r hsp
    obtain ⟨ρ, hs, hb, hρ⟩ := canonRange_spec r h.2
    obtain ⟨⟨hleg, hforb⟩, hq⟩ := canonQual_cases q h.1
    have hpr := C17_range ρ hs hb
    have hbang' := bang_free_print ρ
    have hapos := apos_bang_print ρ
    have hcanon : canonArea t = quoteName (nameOfQual q) ++ '!' :: r := by
      unfold canonArea; rw [hsp]
    generalize nameOfQual q = n at hleg hforb hq hcanon
    subst hρ
    refine ⟨⟨n, ρ⟩, ⟨hleg, hforb⟩, hs, hb, ?_, ?_⟩
    · rcases hq with ⟨hqe, hpl⟩ | hqe
      · have hfree : '\'' ∉ q ++ '!' :: ρ.print := by
          intro hm
          rcases List.mem_append.1 hm with e | e
          · exact (hpl _ e).1 rfl
          · exact hapos e
        rw [ht, undouble_id _ hfree]
        simp only [Address.parse, splitAddress, rsplitBang_join q ρ.print hbang']
        rw [hqe]
        simp only [stripSheetQuote_legal _ hleg, hpr]
      · rw [ht, hqe]
        have e1 : '\'' :: (replaceApos n ++ ['\'']) ++ '!' :: ρ.print
            = '\'' :: (replaceApos n ++ '\'' :: '!' :: ρ.print) := by simp
        rw [e1, undouble_quoted _ hleg.2 hleg.1 _ (by simp), undouble_id _ hapos]
        have e2 : '\'' :: (n ++ '\'' :: '!' :: ρ.print)
            = ('\'' :: (n ++ ['\''])) ++ '!' :: ρ.print := by simp
        rw [e2]
        simp only [Address.parse, splitAddress, rsplitBang_join _ ρ.print hbang', stripSheetQuote_quoted, hpr]
    · rw [hcanon]
      exact addressText_quoteName _ _ hleg.1
  · cases h

theorem canonArea_text' (a : Address) (hleg : LegalSheet a.sheet) (hs : Range.IsShape a.range)
    (hb : Range.InBounds a.range) : canonAreaB' a.text = true ∧ canonArea a.text = a.text := by
  have ht : a.text = quoteName a.sheet ++ '!' :: a.range.print := addressText_quoteName _ _ hleg.1.1
  have hsp := rsplitBang_join (quoteName a.sheet) a.range.print (bang_free_print _)
  obtain ⟨h1, h2⟩ := canonQual_quoteName a.sheet hleg
  constructor
  · unfold canonAreaB'
    rw [ht, hsp]
    simp [h1, canonRange_print a.range hs hb]
  · unfold canonArea
    rw [ht, hsp]
    simp only [h2]

theorem canonAddr_of_area (t : Text) (h : canonAreaB' t = true) : canonAddrB t = true := by
  unfold canonAreaB' at h; unfold canonAddrB
  split at h
  · exact h
  · cases h

end Umya.Annot
