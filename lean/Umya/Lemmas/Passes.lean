/-
  Pass 2 and pass 3 of `parse_to_tokens` with respect to rendering and panic-freedom.
-/
import Umya.Lemmas.Clean
namespace Umya.Formula
open Umya.Coord Umya.Dec

theorem render_cons (t : Tok) (l : List Tok) : render (t :: l) = renderTok t ++ render l := by
  simp [render]

/-- pass 2 only deletes blanks: intersections are rendered as the one blank they were -/
theorem pass2_erasure (l : List Tok) (prev : Option Tok) (lv : List Char) :
    BlankErasure (render1 l) (render (pass2Go prev lv l)) := by
  induction l generalizing prev lv with
  | nil => exact .nil
  | cons t rest ih =>
    rw [render1_cons]
    unfold pass2Go
    by_cases hw : t.ty = .whitespace
    · have hr : render1Tok t = [' '] := by simp [render1Tok, hw]
      rw [hr]
      simp only [hw, ne_eq, not_true_eq_false, if_false]
      cases prev with
      | none => exact .drop (ih _ _)
      | some p =>
        cases rest with
        | nil => exact .drop (ih _ _)
        | cons n rest' =>
          simp only
          split
          · rw [render_cons]
            have : renderTok ⟨lv, .opInfix, .intersection, .none⟩ = [' '] := by simp [renderTok]
            rw [this]
            exact .keep ' ' (ih _ _)
          · exact .drop (ih _ _)
    · have : render1Tok t = renderTok t := by simp [render1Tok, hw]
      rw [this]
      simp only [ne_eq, hw, not_false_eq_true, if_true, render_cons]
      exact (BlankErasure.refl _).append (ih _ _)

/-- the conditions under which pass 3 leaves the rendering of a token alone -/
def renderStable (t : Tok) : Prop :=
  (t.ty = .function → t.val.head? ≠ some '@') ∧
  (t.ty = .opInfix → t.sub = .intersection → t.val ≠ ['-'] ∧ t.val ≠ ['+']) ∧
  ((t.ty = .opInfix ∨ t.ty = .operand) → t.arr = .none)

/-- what pass 3 needs: no plain infix token with an empty text -/
def okTok1 (t : Tok) : Prop := t.ty = .opInfix → t.sub = .nothing → t.val ≠ []

/-- the tokens pass 2 hands over: pass-1 tokens and intersection tokens carrying `lv` or nothing -/
theorem pass2_mem (l : List Tok) (prev : Option Tok) (lv : List Char) (t : Tok)
    (h : t ∈ pass2Go prev lv l) :
    t ∈ l ∨ (t.ty = .opInfix ∧ t.sub = .intersection ∧ t.arr = .none ∧ (t.val = lv ∨ t.val = [])) := by
  induction l generalizing prev lv with
  | nil => simp [pass2Go] at h
  | cons a rest ih =>
    have lift : ∀ lv' prev', t ∈ pass2Go prev' lv' rest →
        (t.val = lv' ∨ t.val = [] → t.val = lv ∨ t.val = []) →
        t ∈ a :: rest ∨ (t.ty = .opInfix ∧ t.sub = .intersection ∧ t.arr = .none ∧ (t.val = lv ∨ t.val = [])) := by
      intro lv' prev' hx hconv
      rcases ih prev' lv' hx with h1 | ⟨h1, h2, h2', h3⟩
      · exact Or.inl (List.mem_cons_of_mem _ h1)
      · exact Or.inr ⟨h1, h2, h2', hconv h3⟩
    unfold pass2Go at h
    split at h
    · simp at h
      rcases h with h | h
      · subst h; left; simp
      · exact lift _ _ h id
    · cases prev with
      | none => exact lift _ _ h id
      | some p =>
        cases rest with
        | nil => exact lift _ _ h id
        | cons n rest' =>
          simp only at h
          split at h
          · simp at h
            rcases h with h | h
            · subst h; right; exact ⟨rfl, rfl, rfl, Or.inl rfl⟩
            · exact lift [] _ h (by intro h3; right; rcases h3 with h3 | h3 <;> exact h3)
          · exact lift _ _ h id

theorem pass2_ok1 (l : List Tok) (prev : Option Tok) (lv : List Char) (h : AllOk l) :
    ∀ t ∈ pass2Go prev lv l, okTok1 t := by
  intro t ht
  rcases pass2_mem l prev lv t ht with h1 | ⟨_, h2, _, _⟩
  · intro hty _; exact (h t h1 hty).1
  · intro _ hs; rw [h2] at hs; cases hs

/-- pass 3 does not panic when no plain infix token has an empty value -/
theorem pass3Tok_ok (prev : Option Tok) (t : Tok) (h : okTok1 t) : ∃ t', pass3Tok prev t = .ok t' := by
  unfold pass3Tok
  split
  · cases prev with
    | none => exact ⟨_, rfl⟩
    | some p => simp only; split <;> exact ⟨_, rfl⟩
  · split
    · rename_i h2
      simp only [Bool.and_eq_true, decide_eq_true_eq] at h2
      cases hv : t.val with
      | nil => exact absurd hv (h h2.1 h2.2)
      | cons c r =>
        simp only
        split
        · exact ⟨_, rfl⟩
        · split <;> exact ⟨_, rfl⟩
    · split
      · split
        · split <;> exact ⟨_, rfl⟩
        · exact ⟨_, rfl⟩
      · split
        · split <;> exact ⟨_, rfl⟩
        · exact ⟨_, rfl⟩

theorem pass3Go_ok (l : List Tok) (prev : Option Tok) (h : ∀ t ∈ l, okTok1 t) :
    ∃ r, pass3Go prev l = .ok r := by
  induction l generalizing prev with
  | nil => exact ⟨[], rfl⟩
  | cons t rest ih =>
    obtain ⟨t', ht'⟩ := pass3Tok_ok prev t (h t (List.mem_cons_self ..))
    obtain ⟨r, hr⟩ := ih (some t) (fun x hx => h x (List.mem_cons_of_mem _ hx))
    exact ⟨t' :: r, by simp [pass3Go, ht', hr]⟩

/-- the pass-2 output is render-stable under pass 3 -/
theorem pass2_stable (l : List Tok) (lv : List Char) (h : AllOk l) (hp : AllPlain l)
    (hat : ∀ t ∈ l, t.ty = .function → t.val.head? ≠ some '@')
    (hlv : lv ≠ ['-'] ∧ lv ≠ ['+']) :
    ∀ t ∈ pass2Go none lv l, renderStable t := by
  intro t ht
  rcases pass2_mem l none lv t ht with h1 | ⟨h1, h2, h2', h3⟩
  · exact ⟨hat t h1, fun hty hs => absurd hs (h t h1 hty).2, hp t h1⟩
  · refine ⟨(by intro hf; rw [h1] at hf; cases hf), ?_, fun _ => h2'⟩
    intro _ _
    rcases h3 with h3 | h3
    · rw [h3]; exact hlv
    · rw [h3]; simp

theorem pass3Tok_render (prev : Option Tok) (t t' : Tok) (hs : renderStable t)
    (h : pass3Tok prev t = .ok t') : renderTok t' = renderTok t := by
  obtain ⟨v, ty, sub, arr⟩ := t
  cases ty with
  | opInfix =>
    have ha : arr = .none := hs.2.2 (Or.inl rfl)
    subst ha
    by_cases hv : v = ['-'] ∨ v = ['+']
    · have hni : sub ≠ .intersection := by
        intro hi
        have := hs.2.1 rfl hi
        rcases hv with h1 | h1
        · exact this.1 h1
        · exact this.2 h1
      have hb : (decide (v = ['-']) || decide (v = ['+'])) = true := by simpa using hv
      cases prev with
      | none =>
        simp [pass3Tok, hb] at h; subst h
        simp [renderTok, hni]
      | some p =>
        simp only [pass3Tok, hb, decide_true, Bool.and_true, if_true] at h
        split at h <;> (injection h with h; subst h) <;> simp [renderTok, hni]
    · have hb : (decide (v = ['-']) || decide (v = ['+'])) = false := by simpa using hv
      by_cases hsub : sub = .nothing
      · subst hsub
        cases v with
        | nil => simp [pass3Tok, hb] at h
        | cons c r =>
          simp only [pass3Tok, hb, decide_true, Bool.and_false, Bool.false_eq_true, if_false,
            Bool.and_true, if_true] at h
          split at h
          · injection h with h; subst h; simp [renderTok]
          · split at h <;> (injection h with h; subst h) <;> simp [renderTok]
      · have hb2 : decide (sub = ST.nothing) = false := by simpa using hsub
        simp [pass3Tok, hb, hb2] at h
        subst h; rfl
  | operand =>
    have ha : arr = .none := hs.2.2 (Or.inr rfl)
    subst ha
    by_cases hsub : sub = .nothing
    · subst hsub
      simp only [pass3Tok, reduceCtorEq, decide_false, Bool.false_and, Bool.false_eq_true, if_false,
        decide_true, Bool.and_true, if_true] at h
      split at h
      · split at h <;> (injection h with h; subst h) <;> simp [renderTok]
      · injection h with h; subst h; simp [renderTok]
    · have hb2 : decide (sub = ST.nothing) = false := by simpa using hsub
      simp [pass3Tok, hb2] at h
      subst h; rfl
  | function =>
    cases v with
    | nil => simp [pass3Tok] at h; subst h; rfl
    | cons c r =>
      by_cases hc : c = '@'
      · subst hc
        have := hs.1 rfl
        simp at this
      · simp only [pass3Tok, reduceCtorEq, decide_false, Bool.false_and, Bool.false_eq_true, if_false,
          decide_true, if_true] at h
        split at h
        · rename_i r' heq
          injection heq with h1 _
          exact absurd h1 hc
        · injection h with h; subst h; rfl
  | noop => simp [pass3Tok] at h; subst h; rfl
  | subexpression => simp [pass3Tok] at h; subst h; rfl
  | argument => simp [pass3Tok] at h; subst h; rfl
  | opPrefix => simp [pass3Tok] at h; subst h; rfl
  | opPostfix => simp [pass3Tok] at h; subst h; rfl
  | whitespace => simp [pass3Tok] at h; subst h; rfl
  | unknown => simp [pass3Tok] at h; subst h; rfl

theorem pass3Go_render (l r : List Tok) (prev : Option Tok) (hs : ∀ t ∈ l, renderStable t)
    (h : pass3Go prev l = .ok r) : render r = render l := by
  induction l generalizing prev r with
  | nil => simp [pass3Go] at h; subst h; rfl
  | cons t rest ih =>
    simp only [pass3Go] at h
    cases ht : pass3Tok prev t with
    | panic => simp [ht] at h
    | ok t' =>
      cases hr : pass3Go (some t) rest with
      | panic => simp [ht, hr] at h
      | ok r' =>
        simp [ht, hr] at h
        subst h
        rw [render_cons, render_cons, pass3Tok_render prev t t' (hs t (List.mem_cons_self ..)) ht,
          ih r' (some t) (fun x hx => hs x (List.mem_cons_of_mem _ hx)) hr]

end Umya.Formula
