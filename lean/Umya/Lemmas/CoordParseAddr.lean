/-
  Parse-then-print for sheet-qualified areas and defined-name texts in ANY canonical spelling
  (`canonAreaB`, `canonNameTextB` of `Umya/Model/CoordCanon.lean`): what `DefinedName::set_address` makes of such a
  text, and that `get_address` prints `canonArea` / `canonText` of it.
-/
import Umya.Lemmas.CoordParse
import Umya.Lemmas.AnnotNames
import Umya.Thm.C06
namespace Umya.Annot
open Umya.Coord Umya.Dec Umya.Thm.C17

/-! ### the library's quoting rule -/

theorem needsQuote_of_apos (n : Text) (h : n.contains '\'' = true) : needsQuote n = true := by
  unfold needsQuote; rw [h]; simp

/-- `get_address_ptn2` = the re-quoted name, `!`, the range text -/
theorem addressText_quoteName (n r : Text) (hne : n ≠ []) : addressText n r true = quoteName n ++ '!' :: r := by
  have he : n.isEmpty = false := by cases n <;> simp_all
  unfold addressText quoteName
  simp only [he, Bool.false_eq_true, if_false, if_true]
  cases hap : n.contains '\''
  · have hq : needsQuote n = (n.any isWhitespace || n.contains '!' || n.contains '"' ||
        (n.any fun c => !isAlnumAscii c) || indexFromCoordinate n != (none, none, none, none)) := by
      unfold needsQuote; rw [hap]; simp
    simp only [Bool.false_eq_true, if_false, hq, replaceApos_noApos n hap]
    generalize (n.any isWhitespace || n.contains '!' || n.contains '"' ||
      (n.any fun c => !isAlnumAscii c) || indexFromCoordinate n != (none, none, none, none)) = q
    cases q <;> simp
  · simp [needsQuote_of_apos n hap]

/-! ### `rsplit_once('!')` -/

theorem dropWhile_head_false {α} (p : α → Bool) (l : List α) (x : α) (r : List α) (h : l.dropWhile p = x :: r) :
    p x = false := by
  induction l with
  | nil => simp at h
  | cons a t ih =>
    simp only [List.dropWhile_cons] at h
    split at h
    · exact ih h
    · rename_i hp
      injection h with h1 _
      subst h1
      simpa using hp

theorem mem_takeWhile_true {α} (p : α → Bool) (l : List α) (x : α) (h : x ∈ l.takeWhile p) : p x = true := by
  induction l with
  | nil => simp at h
  | cons a t ih =>
    simp only [List.takeWhile_cons] at h
    split at h
    · rename_i hp
      rcases List.mem_cons.1 h with e | e
      · subst e; exact hp
      · exact ih e
    · simp at h

theorem rsplitBang_some_eq (t q a : Text) (h : rsplitBang t = some (q, a)) : t = q ++ '!' :: a ∧ '!' ∉ a := by
  simp only [rsplitBang] at h
  split at h
  · cases h
  · rename_i x hd hdw
    injection h with h
    injection h with h1 h2
    have hx : x = '!' := by
      have := dropWhile_head_false _ _ _ _ hdw
      simpa using this
    have hr : t.reverse = t.reverse.takeWhile (fun c => decide (c ≠ '!')) ++ x :: hd := by
      rw [← hdw, List.takeWhile_append_dropWhile]
    constructor
    · have := congrArg List.reverse hr
      rw [List.reverse_reverse] at this
      rw [this, ← h1, ← h2, hx]; simp
    · rw [← h2]
      intro hm
      have hm' : '!' ∈ t.reverse.takeWhile (fun c => decide (c ≠ '!')) := List.mem_reverse.1 hm
      have := mem_takeWhile_true _ _ _ hm'
      simp at this

/-! ### qualifiers -/

theorem plainB_iff (c : Char) : plainB c = true ↔ Plain c := by
  simp only [plainB, Plain, Bool.not_eq_true', Bool.or_eq_false_iff, decide_eq_false_iff_not]
  constructor
  · rintro ⟨⟨⟨⟨h1, h2⟩, h3⟩, h4⟩, h5⟩; exact ⟨h1, h2, h3, h4, h5⟩
  · rintro ⟨h1, h2, h3, h4, h5⟩; exact ⟨⟨⟨⟨h1, h2⟩, h3⟩, h4⟩, h5⟩

theorem legalSheetB_iff (n : Text) : legalSheetB n = true ↔ LegalSheet n := by
  simp only [legalSheetB, Bool.and_eq_true, Bool.not_eq_true', decide_eq_true_eq, List.all_eq_true, LegalSheet,
    LegalSheetName]
  constructor
  · rintro ⟨⟨h1, h2⟩, h3⟩
    exact ⟨⟨by intro e; subst e; simp at h1, h2⟩, h3⟩
  · rintro ⟨⟨h1, h2⟩, h3⟩
    refine ⟨⟨?_, h2⟩, h3⟩
    cases n with
    | nil => exact absurd rfl h1
    | cons _ _ => rfl

theorem undouble_quoted (n : Text) (hh : n.head? ≠ some '\'') (hne : n ≠ []) (rest : Text)
    (hr : rest.head? ≠ some '\'') :
    undouble ('\'' :: (replaceApos n ++ '\'' :: rest)) = '\'' :: (n ++ '\'' :: undouble rest) := by
  have hhd : (replaceApos n ++ '\'' :: rest).head? ≠ some '\'' := by
    obtain ⟨h1, h2⟩ := replaceApos_head n hne hh
    cases hx : replaceApos n with
    | nil => exact absurd hx h2
    | cons c r => rw [hx] at h1; simpa using h1
  rw [undouble_apos_single _ hhd, undouble_double, undouble_apos_single _ hr]

/-- the two spellings of a canonical qualifier, with the name it stands for -/
theorem canonQual_cases (q : Text) (h : canonQualB q = true) :
    LegalSheet (nameOfQual q) ∧
      ((q = nameOfQual q ∧ ∀ c ∈ q, Plain c) ∨ q = '\'' :: (replaceApos (nameOfQual q) ++ ['\''])) := by
  unfold canonQualB at h
  split at h
  · rename_i r
    split at h
    · rename_i m hm
      simp only [Bool.and_eq_true, decide_eq_true_eq] at h
      obtain ⟨hrep, hleg⟩ := h
      have hleg' := (legalSheetB_iff _).1 hleg
      have hr : r = m.reverse ++ ['\''] := by
        have := congrArg List.reverse hm
        simpa using this
      have hq : '\'' :: r = '\'' :: (replaceApos (undouble m.reverse) ++ ['\'']) := by rw [hrep, hr]
      have hn : nameOfQual ('\'' :: r) = undouble m.reverse := by
        unfold nameOfQual
        rw [hq, undouble_quoted _ hleg'.1.2 hleg'.1.1 [] (by simp)]
        simp only [undouble]
        exact stripSheetQuote_quoted _
      rw [hn]
      exact ⟨hleg', Or.inr hq⟩
    · cases h
  · rename_i hnq
    simp only [Bool.and_eq_true, List.all_eq_true] at h
    obtain ⟨hleg, hpl⟩ := h
    have hleg' := (legalSheetB_iff _).1 hleg
    have hplain : ∀ c ∈ q, Plain c := fun c hc => (plainB_iff c).1 (hpl c hc)
    have hfree : '\'' ∉ q := fun hm => (hplain _ hm).1 rfl
    have hn : nameOfQual q = q := by
      unfold nameOfQual
      rw [undouble_id q hfree, stripSheetQuote_legal q hleg'.1]
    rw [hn]
    exact ⟨hleg', Or.inl ⟨rfl, hplain⟩⟩

/-! ### one area -/

theorem canonCellRange_spec (a : Text) (h : canonCellRangeB a = true) :
    ∃ ρ : Range, CellShape ρ ∧ Range.InBounds ρ ∧ a = ρ.print := by
  unfold canonCellRangeB at h
  split at h
  · rename_i x hx
    obtain ⟨c, r, hc, hr, e⟩ := canonCell_spec x h
    refine ⟨⟨some c, some r, none, none⟩, Or.inl ⟨rfl, rfl, rfl, rfl⟩, ?_, ?_⟩
    · refine ⟨?_, ?_, ?_, ?_⟩ <;> intro y hy <;> simp at hy
      · subst hy; exact hc
      · subst hy; exact hr
    · rw [splitColon_one_eq a x hx, e]; simp [Range.print, optText]
  · rename_i x y hxy
    simp only [Bool.and_eq_true] at h
    obtain ⟨c, r, hc, hr, e⟩ := canonCell_spec x h.1
    obtain ⟨c', r', hc', hr', e'⟩ := canonCell_spec y h.2
    refine ⟨⟨some c, some r, some c', some r'⟩, Or.inr ⟨rfl, rfl, rfl, rfl⟩, ?_, ?_⟩
    · refine ⟨?_, ?_, ?_, ?_⟩ <;> intro z hz <;> simp at hz <;> subst hz <;> assumption
    · rw [splitColon_two_eq a x y hxy, e, e']; simp [Range.print, optText]
  · cases h

theorem canonCellRange_print (ρ : Range) (hs : CellShape ρ) (hb : Range.InBounds ρ) : canonCellRangeB ρ.print = true := by
  have h := canonRange_print ρ (isShape_of_cell ρ hs) hb
  obtain ⟨sc, sr, ec, er⟩ := ρ
  have fS := colon_free_text sc sr
  have fE := colon_free_text ec er
  unfold CellShape at hs
  simp only at hs
  rcases hs with ⟨h1, h2, h3, h4⟩ | ⟨h1, h2, h3, h4⟩
  · cases sc <;> cases sr <;> cases ec <;> cases er <;> simp at h1 h2 h3 h4
    rename_i a b
    have hp : Range.print ⟨some a, some b, none, none⟩ = colRefText a ++ rowRefText b := by simp [Range.print, optText]
    simp only [optText] at fS
    rw [hp] at h ⊢
    unfold canonRangeB at h
    unfold canonCellRangeB
    rw [splitColon_one _ fS] at h ⊢
    exact h
  · cases sc <;> cases sr <;> cases ec <;> cases er <;> simp at h1 h2 h3 h4
    rename_i a b x y
    obtain ⟨b1, b2, b3, b4⟩ := hb
    have hp : Range.print ⟨some a, some b, some x, some y⟩
        = (colRefText a ++ rowRefText b) ++ ':' :: (colRefText x ++ rowRefText y) := by simp [Range.print, optText]
    simp only [optText] at fS fE
    rw [hp]
    unfold canonCellRangeB
    rw [splitColon_two _ _ fS fE]
    simp [canonCell_print a b (b1 a rfl) (b3 b rfl), canonCell_print x y (b2 x rfl) (b4 y rfl)]

/-- **one area in any canonical spelling**: `split_str` keeps it whole, `is_address` accepts it, `add_address`
    (un-doubling, `split_address`, `Range::set_range`) reads the area it denotes, and `get_address_ptn2` prints that area
    as `canonArea t` -/
theorem canonArea_piece (t : Text) (h : canonAreaB t = true) :
    ∃ a : Address, AreaOK a ∧ Neutral t ∧ t ≠ [] ∧ isAddress t = true ∧ Address.parse (undouble t) = .ok a ∧
      a.text = canonArea t := by
  unfold canonAreaB at h
  split at h
  · rename_i q r hsp
    simp only [Bool.and_eq_true] at h
    obtain ⟨ht, hbang⟩ := rsplitBang_some_eq t q r hsp
    obtain ⟨ρ, hs, hb, hρ⟩ := canonCellRange_spec r h.2
    obtain ⟨⟨hleg, hforb⟩, hq⟩ := canonQual_cases q h.1
    have hpr := C17_range ρ (isShape_of_cell _ hs) hb
    have hbang' := bang_free_print ρ
    have hapos : '\'' ∉ '!' :: ρ.print := by
      intro hm
      rcases List.mem_cons.1 hm with e | e
      · exact absurd e (by decide)
      · exact apos_free_print _ e
    have hrng : ∀ c ∈ '!' :: ρ.print, Plain c := by
      intro c hc
      rcases List.mem_cons.1 hc with e | e
      · subst e; refine ⟨?_, ?_, ?_, ?_, ?_⟩ <;> decide
      · exact rangeChar_plain c (print_chars _ c e)
    have hcanon : canonArea t = quoteName (nameOfQual q) ++ '!' :: r := by
      unfold canonArea; rw [hsp]
    generalize nameOfQual q = n at hleg hforb hq hcanon
    subst hρ
    refine ⟨⟨n, ρ⟩, ⟨⟨hleg, hforb⟩, hs, hb⟩, ?_, by rw [ht]; simp, ?_, ?_, ?_⟩
    · rcases hq with ⟨hqe, hpl⟩ | hqe
      · rw [ht]
        exact neutral_append _ _ (neutral_plain _ hpl) (neutral_plain _ hrng)
      · rw [ht, hqe]
        exact neutral_append _ _ (neutral_quoted _) (neutral_plain _ hrng)
    · rcases hq with ⟨hqe, hpl⟩ | hqe
      · rw [ht, hqe]
        exact isAddress_pre _ ρ hleg.1 hforb hs hb
      · rw [ht, hqe]
        refine isAddress_pre _ ρ (by simp) ?_ hs hb
        intro c hc
        simp only [List.mem_cons, List.mem_append, List.not_mem_nil, or_false] at hc
        rcases hc with e | e | e
        · subst e; decide
        · exact hforb c (replaceApos_mem _ _ e)
        · subst e; decide
    · rcases hq with ⟨hqe, hpl⟩ | hqe
      · have hfree : '\'' ∉ q ++ '!' :: ρ.print := by
          intro hm
          rcases List.mem_append.1 hm with e | e
          · exact (hpl _ e).1 rfl
          · exact hapos e
        rw [ht, undouble_id _ hfree]
        simp only [Address.parse, splitAddress, rsplitBang_join q ρ.print hbang']
        rw [hqe]
        simp only [stripSheetQuote_legal _ hleg, hpr]
      · rw [ht, hqe]
        have e1 : '\'' :: (replaceApos n ++ ['\'']) ++ '!' :: ρ.print
            = '\'' :: (replaceApos n ++ '\'' :: '!' :: ρ.print) := by simp
        rw [e1, undouble_quoted _ hleg.2 hleg.1 _ (by simp), undouble_id _ hapos]
        have e2 : '\'' :: (n ++ '\'' :: '!' :: ρ.print)
            = ('\'' :: (n ++ ['\''])) ++ '!' :: ρ.print := by simp
        rw [e2]
        simp only [Address.parse, splitAddress, rsplitBang_join _ ρ.print hbang', stripSheetQuote_quoted, hpr]
    · rw [hcanon]
      exact addressText_quoteName _ _ hleg.1
  · cases h

/-! ### the library's own spelling is inside the grammar, and is a fixed point of `canonArea` -/

theorem canonQual_quoteName (n : Text) (h : LegalSheet n) : canonQualB (quoteName n) = true ∧ nameOfQual (quoteName n) = n := by
  unfold quoteName
  cases hq : needsQuote n
  · simp only [Bool.false_eq_true, if_false]
    -- every character is alphanumeric
    have hal : n.all isAlnumAscii = true := by
      simp only [needsQuote, Bool.or_eq_false_iff] at hq
      have h4 := hq.1.2
      rw [List.all_eq_true]
      intro c hc
      have := List.any_eq_false.1 h4 c hc
      simpa using this
    have hpl : ∀ c ∈ n, Plain c := fun c hc => alnum_plain c (List.all_eq_true.1 hal c hc)
    have hfree : '\'' ∉ n := fun hm => (hpl _ hm).1 rfl
    constructor
    · unfold canonQualB
      split
      · rename_i r
        exact absurd List.mem_cons_self hfree
      · simp only [Bool.and_eq_true, List.all_eq_true]
        exact ⟨(legalSheetB_iff n).2 h, fun c hc => (plainB_iff c).2 (hpl c hc)⟩
    · unfold nameOfQual
      rw [undouble_id n hfree, stripSheetQuote_legal n h.1]
  · simp only [if_true]
    have hu : undouble (replaceApos n) = n := by
      have := undouble_double n []
      simpa [undouble] using this
    constructor
    · unfold canonQualB
      simp only [List.reverse_append, List.reverse_cons, List.reverse_nil, List.nil_append, List.singleton_append,
        List.reverse_reverse, hu, decide_true, Bool.true_and]
      exact (legalSheetB_iff n).2 h
    · unfold nameOfQual
      have := undouble_quoted n h.1.2 h.1.1 [] (by simp)
      simp only [undouble] at this
      rw [this]
      exact stripSheetQuote_quoted _

theorem canonArea_text (a : Address) (h : AreaOK a) : canonAreaB a.text = true ∧ canonArea a.text = a.text := by
  obtain ⟨hleg, hs, hb⟩ := h
  have ht : a.text = quoteName a.sheet ++ '!' :: a.range.print := addressText_quoteName _ _ hleg.1.1
  have hsp := rsplitBang_join (quoteName a.sheet) a.range.print (bang_free_print _)
  obtain ⟨h1, h2⟩ := canonQual_quoteName a.sheet hleg
  constructor
  · unfold canonAreaB
    rw [ht, hsp]
    simp [h1, canonCellRange_print a.range hs hb]
  · unfold canonArea
    rw [ht, hsp]
    simp only [h2]

/-! ### area lists -/

theorem addAll_canon (ts : List Text) (h : ∀ t ∈ ts, canonAreaB t = true) (acc : List Address) :
    ∃ as : List Address, (∀ a ∈ as, AreaOK a) ∧ addAll acc ts = .ok (acc ++ as) ∧
      as.map Address.text = ts.map canonArea := by
  induction ts generalizing acc with
  | nil => exact ⟨[], by simp, by simp [addAll], rfl⟩
  | cons t r ih =>
    obtain ⟨a, hok, _, _, _, hp, htx⟩ := canonArea_piece t (h t (by simp))
    obtain ⟨as, has, hadd, hmap⟩ := ih (fun x hx => h x (List.mem_cons_of_mem _ hx)) (acc ++ [a])
    refine ⟨a :: as, ?_, ?_, ?_⟩
    · intro x hx
      rcases List.mem_cons.1 hx with e | e
      · subst e; exact hok
      · exact has x e
    · simp only [addAll, hp, hadd]; simp
    · simp [htx, hmap]

/-- **a list of canonical areas, any spelling**: `set_address` reads areas that are `AreaOK`, and `get_address` prints
    every piece re-quoted by `canonArea` -/
theorem setAddress_canon (ts : List Text) (hne : ts ≠ []) (h : ∀ t ∈ ts, canonAreaB t = true) :
    ∃ as : List Address, (∀ a ∈ as, AreaOK a) ∧ DefName.setAddress {} (joinComma ts) = .ok { areas := as } ∧
      DefName.text { areas := as } = joinComma (ts.map canonArea) ∧ splitStr (joinComma ts) = ts ∧
      ts.all isAddress = true := by
  have hsplit : splitStr (joinComma ts) = ts :=
    splitStr_join ts hne (fun t ht => by
      obtain ⟨_, _, hN, hn, _, _, _⟩ := canonArea_piece t (h t ht)
      exact ⟨hN, hn⟩)
  have hall : ts.all isAddress = true := by
    rw [List.all_eq_true]
    intro t ht
    obtain ⟨_, _, _, _, hi, _, _⟩ := canonArea_piece t (h t ht)
    exact hi
  obtain ⟨as, has, hadd, hmap⟩ := addAll_canon ts h []
  refine ⟨as, has, ?_, ?_, hsplit, hall⟩
  · simp only [DefName.setAddress, hsplit, hall, if_true, hadd, List.nil_append]
  · simp only [DefName.text, hmap]

theorem canonText_join (ts : List Text) (hne : ts ≠ []) (h : ∀ t ∈ ts, canonAreaB t = true) :
    canonText (joinComma ts) = joinComma (ts.map canonArea) := by
  obtain ⟨_, _, _, _, hsplit, hall⟩ := setAddress_canon ts hne h
  simp only [canonText, hsplit, hall, if_true]

theorem canonNameText_spec (v : Text) (h : canonNameTextB v = true) :
    ∃ ts : List Text, (∀ t ∈ ts, canonAreaB t = true) ∧ v = joinComma ts := by
  simp only [canonNameTextB, Bool.and_eq_true, decide_eq_true_eq, List.all_eq_true] at h
  exact ⟨splitStr v, h.1, h.2.symm⟩

/-- the text `get_address` prints for areas that are `AreaOK` is inside the grammar -/
theorem canonNameText_text (as : List Address) (h : ∀ a ∈ as, AreaOK a) :
    canonNameTextB (DefName.text { areas := as }) = true := by
  cases as with
  | nil => decide
  | cons a r =>
    have hsplit : splitStr (joinComma ((a :: r).map Address.text)) = (a :: r).map Address.text :=
      splitStr_join _ (by simp) (by
        intro t ht
        obtain ⟨x, hx, rfl⟩ := List.mem_map.1 ht
        exact neutral_area x (h x hx))
    simp only [canonNameTextB, DefName.text, hsplit, Bool.and_eq_true, decide_eq_true_eq, List.all_eq_true, and_true]
    intro t ht
    obtain ⟨x, hx, rfl⟩ := List.mem_map.1 ht
    exact (canonArea_text x (h x hx)).1

/-- the library's own spelling of an area list is a fixed point of `canonText` -/
theorem canonText_text (as : List Address) (h : ∀ a ∈ as, AreaOK a) :
    canonText (DefName.text { areas := as }) = DefName.text { areas := as } := by
  cases as with
  | nil => decide
  | cons a r =>
    have hc : ∀ t ∈ (a :: r).map Address.text, canonAreaB t = true := by
      intro t ht
      obtain ⟨x, hx, rfl⟩ := List.mem_map.1 ht
      exact (canonArea_text x (h x hx)).1
    have := canonText_join ((a :: r).map Address.text) (by simp) hc
    simp only [DefName.text]
    rw [this, List.map_map]
    congr 1
    apply List.map_congr_left
    intro x hx
    exact (canonArea_text x (h x hx)).2

end Umya.Annot
