/-
  C01 at tree level, one worksheet and a workbook of n worksheets: the `<c>` elements C01's tree reader finds in
  the rendered `<worksheet>` (`Umya/Model/SheetNode.lean::renderSheet`: row loop, opaque frame) are the renderings
  of the facts `writeCells` produces for the sheet's cells, in order (`renderSheet_sheetCells`); reading them back
  gives the sheet's kept cells (`renderSheet_readSheetN`); the table threaded through the sheets of a workbook
  (`renderSheetsP`) is the one `writeSheets` builds (`renderSheetsP_readBookN`).
-/
import Umya.Lemmas.CellCharsSst
import Umya.Lemmas.SheetNodeDecode
import Umya.Lemmas.SheetNodeCells
import Umya.Lemmas.BookRoundTrip
import Umya.Model.PackageNode
import Umya.Lemmas.XmlWriteParse
namespace Umya.CellTree
open Umya.Xml Umya.CellXml Umya.CellNode Umya.SheetNode Umya.Num Umya.Coord Umya.Dec Umya.InternC01
open Umya.Spec.Xml (Node Attr localName)

theorem mapOpt_append {α β} (f : α → Option β) : ∀ (a b : List α) (ra rb : List β),
    mapOpt f a = some ra → mapOpt f b = some rb → mapOpt f (a ++ b) = some (ra ++ rb)
  | [], b, ra, rb, ha, hb => by simp only [mapOpt] at ha; cases ha; simpa using hb
  | x :: a, b, ra, rb, ha, hb => by
    simp only [mapOpt] at ha
    cases hx : f x with
    | none => simp [hx] at ha
    | some y =>
      cases hr : mapOpt f a with
      | none => simp [hx, hr] at ha
      | some ys =>
        simp only [hx, hr] at ha
        cases ha
        simp only [List.cons_append, mapOpt, hx, mapOpt_append f a b ys rb hr hb]

theorem mapOpt_map_comp {α β γ} (f : β → Option γ) (g : α → β) : ∀ l : List α, mapOpt f (l.map g) = mapOpt (fun a => f (g a)) l
  | [] => rfl
  | a :: l => by simp only [List.map_cons, mapOpt, mapOpt_map_comp f g l]

section
variable (F : NumFmt)

/-! ## the cells of one sheet, as trees -/

/-- one sheet's cells: every covered cell that is not blank-and-unstyled is written once, in order; each written
    fact renders to an element tree (any style indexes), and C01's reader on those TREES gives the kept cells back -/
theorem writeCells_readCellsN (hF : F.Sound) (cs : List (Cell F.Num)) :
    ∀ (tbl : Table), (∀ c ∈ cs, cellOK F c = true ∧ charsOK F c = true) →
    ∃ tbl' xs, writeCells F tbl cs = some (tbl', xs) ∧
      (∃ ext, tbl' = tbl ++ ext ∧ ∀ it ∈ ext, ItemOK it) ∧
      ∀ xf : Text → Nat, ∃ nodes, renderCells xf xs = some nodes ∧
        ∀ sst : Table, sst.length < 18446744073709551616 → Extends sst tbl' →
          mapOpt (readCellN F sst) nodes = some ((cs.filter (keep F)).map (Cell.resolved F)) := by
  induction cs with
  | nil =>
    intro tbl _
    exact ⟨tbl, [], rfl, ⟨[], by simp, by simp⟩, fun _ => ⟨[], rfl, fun _ _ _ => rfl⟩⟩
  | cons c cs ih =>
    intro tbl h
    obtain ⟨t1, ox, hw, ⟨e1, he1, hok1⟩, hblank, hkeep⟩ := writeTo_readCellN F hF tbl c (h c (by simp)).1 (h c (by simp)).2
    obtain ⟨t2, xs, hws, ⟨e2, he2, hok2⟩, hrd⟩ := ih t1 (fun d hd => h d (by simp [hd]))
    refine ⟨t2, consOpt ox xs, by simp [writeCells, hw, hws],
      ⟨e1 ++ e2, by rw [he2, he1, List.append_assoc], ?_⟩, ?_⟩
    · intro it hit
      rcases List.mem_append.1 hit with h1 | h1
      · exact hok1 it h1
      · exact hok2 it h1
    · intro xf
      obtain ⟨nodes, hn, hr⟩ := hrd xf
      cases hb : blankUnstyled F c with
      | true =>
        rw [hblank hb]
        refine ⟨nodes, hn, fun sst hlen hx => ?_⟩
        simp only [List.filter_cons, keep, hb, Bool.not_true, Bool.false_eq_true, if_false]
        exact hr sst hlen hx
      | false =>
        obtain ⟨x, hox, hrx⟩ := hkeep hb
        obtain ⟨node, hnode, hread⟩ := hrx (xf x.ref)
        rw [hox]
        refine ⟨node :: nodes, by simp only [consOpt, renderCells, mapOpt, hnode]; rw [← renderCells, hn], fun sst hlen hx => ?_⟩
        have hx1 : Extends sst t1 := by rw [he2] at hx; exact hx.trans_append
        simp only [mapOpt, hread sst hlen hx1, hr sst hlen hx, List.filter_cons, keep, hb, Bool.not_false, if_true, List.map_cons]

/-! ## the rows and the `<worksheet>` -/

/-- the rendered rows are `<row>` elements whose `<c>` children, concatenated, are the renderings of the rows' facts -/
theorem rowNodes_cells {N} (xf : Text → Nat) : ∀ (ws : List (RowX N)) (rowNodes : List Node),
    mapOpt (rowNode xf) ws = some rowNodes →
    rowNodes.filter (isKid nRow) = rowNodes ∧
    ∃ nodes, renderCells xf (ws.flatMap (·.xs)) = some nodes ∧
      rowNodes.flatMap (fun r => r.children.filter (isKid ['c'])) = nodes
  | [], rowNodes, h => by
    simp only [mapOpt] at h; cases h
    exact ⟨rfl, [], rfl, rfl⟩
  | w :: ws, rowNodes, h => by
    simp only [mapOpt] at h
    cases hw : rowNode xf w with
    | none => simp [hw] at h
    | some n =>
      cases hr : mapOpt (rowNode xf) ws with
      | none => simp [hw, hr] at h
      | some ns =>
        simp only [hw, hr] at h
        cases h
        obtain ⟨h1, nodes, h2, h3⟩ := rowNodes_cells xf ws ns hr
        simp only [rowNode, Option.map_eq_some_iff] at hw
        obtain ⟨cn, hcn, rfl⟩ := hw
        have hk : isKid nRow (Node.elem nRow (rowAttrs w.row w.cells) cn) = true := by rw [isKid_elem]; decide
        refine ⟨by simp [hk, h1], cn ++ nodes, ?_, ?_⟩
        · simp only [List.flatMap_cons]
          exact mapOpt_append _ _ _ _ _ hcn h2
        · rw [List.flatMap_cons, h3]
          show List.filter (isKid ['c']) cn ++ nodes = cn ++ nodes
          rw [kids_c_all cn (renderCells_isC xf w.xs cn hcn)]

theorem lit_sheetData : "sheetData".toList = nSheetData := rfl
theorem lit_row : "row".toList = nRow := rfl
theorem lit_c : "c".toList = ['c'] := rfl

/-- **the `<c>` elements of the rendered `<worksheet>`** (frame children in schema order, `Frame.ok`): the
    renderings of the facts the row loop wrote, in order -/
theorem renderSheet_sheetCells (xf : Text → Nat) (fr : Frame) (tbl : Table) (s : SheetW F.Num)
    (tbl' : Table) (root : Node) (h : renderSheet F xf fr tbl s = some (tbl', root)) (hfr : fr.ok = true) :
    ∃ ws, writeRows F tbl (rowGroups s.rows s.cells) = some (tbl', ws) ∧
      renderCells xf (ws.flatMap (·.xs)) = some (sheetCells root) := by
  unfold renderSheet at h
  cases hw : writeRows F tbl (rowGroups s.rows s.cells) with
  | none => simp [hw] at h
  | some q =>
    obtain ⟨t1, ws⟩ := q
    simp only [hw, sheetDataNode, Option.map_eq_some_iff] at h
    obtain ⟨sd, ⟨rowNodes, hrn, hsd⟩, he⟩ := h
    obtain ⟨ht, hroot⟩ := Prod.mk.inj he
    subst ht
    subst hsd
    obtain ⟨hrows, nodes, hnodes, hflat⟩ := rowNodes_cells xf ws rowNodes hrn
    refine ⟨ws, rfl, ?_⟩
    obtain ⟨spre, smid1, smid2, spost, _⟩ := frame_segs fr hfr
    have smc := seg_mergeNodes s.merges
    have sph := seg_phoneticPr
    have shl := seg_hyperlinkNodes s.links
    have fsd : lastKid root "sheetData" = some (Node.elem nSheetData [] rowNodes) := by
      rw [← hroot, lastKid_eq, lit_sheetData]
      simp only [worksheetNode, Node.children, List.filter_append,
        seg_no nSheetData 5 rfl spre (by omega), seg_no nSheetData 5 rfl smid1 (by omega), seg_no nSheetData 5 rfl smc (by omega),
        seg_no nSheetData 5 rfl sph (by omega), seg_no nSheetData 5 rfl smid2 (by omega), seg_no nSheetData 5 rfl shl (by omega),
        seg_no nSheetData 5 rfl spost (by omega)]
      rfl
    rw [hnodes]
    congr 1
    unfold sheetCells
    simp only [fsd, Option.map_some, Option.getD_some, kids_eq, lit_row, lit_c, Node.children, hrows]
    exact hflat.symm

/-- the grid part of `cellOK` follows from the sheet's well-formedness -/
theorem cellOK_of_wf (s : SheetW F.Num) (hwf : s.WF) (c : Cell F.Num) (hc : c ∈ s.cells)
    (hv : rawOK F c.raw = true) : cellOK F c = true := by
  obtain ⟨h1, h2⟩ := hwf.cellsIn c hc
  obtain ⟨r, hr, hrn⟩ := List.mem_map.1 (hwf.rowKnown c hc)
  obtain ⟨h3, h4⟩ := hwf.rowsIn r hr
  simp only [cellOK, Bool.and_eq_true, decide_eq_true_eq]
  exact ⟨⟨h1, h2, by omega, by omega⟩, hv⟩

/-- **One worksheet, as a tree.**  The rendered `<worksheet>` of a well-formed sheet, read by C01's reader on
    trees against any table that extends the writer's, gives exactly the sheet's kept cells, in order. -/
theorem renderSheet_readSheetN (hF : F.Sound) (xf : Text → Nat) (fr : Frame) (tbl : Table) (s : SheetW F.Num) (hwf : s.WF)
    (hval : ∀ c ∈ s.cells, rawOK F c.raw = true ∧ charsOK F c = true)
    (tbl' : Table) (root : Node) (h : renderSheet F xf fr tbl s = some (tbl', root)) (hfr : fr.ok = true) :
    (∃ xs, writeCells F tbl s.cells = some (tbl', xs)) ∧
    (∃ ext, tbl' = tbl ++ ext ∧ ∀ it ∈ ext, ItemOK it) ∧
    ∀ sst : Table, sst.length < 18446744073709551616 → Extends sst tbl' →
      readSheetN F sst root = some ((s.cells.filter (keep F)).map (Cell.resolved F)) := by
  obtain ⟨ws, hw, hcells⟩ := renderSheet_sheetCells F xf fr tbl s tbl' root h hfr
  obtain ⟨hwc, _⟩ := writeRows_eq_writeCells F _ tbl tbl' ws hw
  rw [rowGroups_cells F s hwf] at hwc
  obtain ⟨t2, xs, hws, hext, hrd⟩ := writeCells_readCellsN F hF s.cells tbl
    (fun c hc => ⟨cellOK_of_wf F s hwf c hc (hval c hc).1, (hval c hc).2⟩)
  rw [hwc] at hws
  cases hws
  refine ⟨⟨_, hwc⟩, hext, fun sst hlen hx => ?_⟩
  obtain ⟨nodes, hn, hr⟩ := hrd xf
  rw [hcells] at hn
  cases hn
  exact hr sst hlen hx

/-! ## a workbook of n worksheets on one table -/

open Umya.PackageNode in
/-- the cells of the sheets of a workbook, as C01's writer takes them -/
def cellsOfP (ss : List (Umya.PackageNode.SheetP F.Num)) : List (List (Cell F.Num)) := ss.map (·.sheet.cells)

/-- the hypotheses per sheet: well-formed (C10's coherence + grid), frame children in schema order, values covered -/
def SheetsOK (ss : List (Umya.PackageNode.SheetP F.Num)) : Prop :=
  ∀ p ∈ ss, p.sheet.WF ∧ p.frame.ok = true ∧
    ∀ c ∈ p.sheet.cells, rawOK F c.raw = true ∧ charsOK F c = true

open Umya.PackageNode in
/-- **n worksheets, as trees.**  The table is threaded through the sheets in order (`renderSheetsP`); it is the
    table `writeSheets` builds on the sheets' cells; every rendered `<worksheet>`, read by C01's reader on trees
    against any table that extends the final one, gives that sheet's kept cells. -/
theorem renderSheetsP_readSheets (hF : F.Sound) : ∀ (ss : List (SheetP F.Num)) (tbl : Table), SheetsOK F ss →
    ∀ (T : Table) (roots : List Node), renderSheetsP F tbl ss = some (T, roots) →
      (∃ xss, writeSheets F tbl (cellsOfP F ss) = some (T, xss)) ∧
      (∃ ext, T = tbl ++ ext ∧ ∀ it ∈ ext, ItemOK it) ∧
      ∀ sst : Table, sst.length < 18446744073709551616 → Extends sst T →
        mapOpt (readSheetN F sst) roots = some (normalize F (cellsOfP F ss))
  | [], tbl, _, T, roots, h => by
    simp only [renderSheetsP] at h
    cases h
    exact ⟨⟨[], rfl⟩, ⟨[], by simp, by simp⟩, fun _ _ _ => rfl⟩
  | p :: ss, tbl, hok, T, roots, h => by
    simp only [renderSheetsP] at h
    cases h1 : renderSheet F p.xf p.frame tbl p.sheet with
    | none => simp [h1] at h
    | some q =>
      obtain ⟨t1, root⟩ := q
      cases h2 : renderSheetsP F t1 ss with
      | none => simp [h1, h2] at h
      | some q2 =>
        obtain ⟨t2, rs⟩ := q2
        simp only [h1, h2] at h
        cases h
        obtain ⟨hwf, hfr, hval⟩ := hok p (by simp)
        obtain ⟨⟨xs, hxs⟩, ⟨e1, he1, hok1⟩, hr1⟩ := renderSheet_readSheetN F hF p.xf p.frame tbl p.sheet hwf hval t1 root h1 hfr
        obtain ⟨⟨xss, hxss⟩, ⟨e2, he2, hok2⟩, hr2⟩ :=
          renderSheetsP_readSheets hF ss t1 (fun p' hp' => hok p' (by simp [hp'])) T rs h2
        refine ⟨⟨xs :: xss, by simp [cellsOfP, writeSheets, hxs] at hxss ⊢; simp [hxss]⟩,
          ⟨e1 ++ e2, by rw [he2, he1, List.append_assoc], ?_⟩, fun sst hlen hx => ?_⟩
        · intro it hit
          rcases List.mem_append.1 hit with h | h
          · exact hok1 it h
          · exact hok2 it h
        · have hx1 : Extends sst t1 := by rw [he2] at hx; exact hx.trans_append
          have e : (fun c => !blankUnstyled F c) = keep F := rfl
          simp only [mapOpt, hr1 sst hlen hx1, hr2 sst hlen hx, cellsOfP, normalize, List.map_cons, e]

theorem readSheetN_facts (sst : Table) (root : Node) : mapOpt (readCell F sst) (sheetFacts root) = readSheetN F sst root := by
  unfold sheetFacts readSheetN
  rw [mapOpt_map_comp]
  rfl

theorem readBook_facts (sst : Table) (roots : List Node) :
    mapOpt (mapOpt (readCell F sst)) (roots.map sheetFacts) = mapOpt (readSheetN F sst) roots := by
  rw [mapOpt_map_comp]
  congr 1
  funext r
  exact readSheetN_facts F sst r

open Umya.PackageNode in
/-- **The workbook, as trees.**  For the trees of the written parts — the n rendered `<worksheet>`s and, when the
    final table is not empty, the rendered `<sst>` (any root attributes) — C01's reader returns the workbook
    without its blank unstyled cells, run-property tokens erased. -/
theorem renderSheetsP_readBookN (hF : F.Sound) (ss : List (SheetP F.Num)) (hok : SheetsOK F ss)
    (T : Table) (roots : List Node) (h : renderSheetsP F [] ss = some (T, roots))
    (hlen : T.length < 18446744073709551616) (sstRoot : Option Node)
    (hs : match sstRoot with
          | some r => ∃ as, r = Node.elem ['s', 's', 't'] as (T.map siElem)
          | none => T = []) :
    readBookN F sstRoot roots = some ((normalize F (cellsOfP F ss)).map (·.map (eraseFonts F))) := by
  obtain ⟨_, ⟨ext, he, hext⟩, hr⟩ := renderSheetsP_readSheets F hF ss [] hok T roots h
  have hall : ∀ it ∈ T, ItemOK it := by
    intro it hit; rw [he] at hit; exact hext it (by simpa using hit)
  have hsst : mapOpt readSi (bookFacts sstRoot roots).sst = some (T.map eraseItem) := by
    cases sstRoot with
    | none => simp only at hs; subst hs; rfl
    | some r =>
      obtain ⟨as, rfl⟩ := hs
      exact readSstN_root as T hall
  unfold readBookN readBook
  rw [hsst]
  simp only [Option.bind_some, bookFacts, readBook_facts]
  have := mapOpt_map_opt (readSheetN F T) (fun l => l.map (eraseFonts F)) (readSheetN F (T.map eraseItem))
    (fun r => readSheetN_erase F T r) roots
  rw [this, hr T hlen (fun _ _ hi => hi)]
  rfl

end

/-! ## the written parts as characters -/

open Umya.XmlWrite in
open Umya.Spec.Xml (parse) in
section
/-- the shared-strings part of a save whose final table is `T`: absent for an empty table; otherwise any tree of
    writer calls (element, `WF`: XML `Char`s …) that means `<sst …>` with the rendered items of `T` -/
def SstWritten (T : Table) : Option WNode → Prop
  | none => T = []
  | some wS => isElemW wS = true ∧ WF wS = true ∧ ∃ as, normNode (erase wS) = Node.elem ['s', 's', 't'] as (T.map siElem)

/-- the shared-strings part is read as the table `T` with its run-property tokens erased -/
theorem sst_chars (T : Table) (hall : ∀ it ∈ T, ItemOK it) (sstW : Option WNode) (hs : SstWritten T sstW) :
    readSstChars (sstW.map renderDoc) = some (T.map eraseItem) := by
  cases sstW with
  | none => simp only [SstWritten] at hs; subst hs; rfl
  | some wS =>
    obtain ⟨h1, h2, as, h3⟩ := hs
    simp only [Option.map_some, readSstChars, parse_renderDoc wS h1 h2, h3, Option.bind_some]
    exact readSstN_root as T hall

/-- the parts of a save of n sheets: the i-th worksheet part is ANY tree of writer calls that means the i-th
    rendered `<worksheet>` (element, `WF`) -/
def SheetsWritten : List Node → List WNode → Prop
  | [], [] => True
  | root :: roots, w :: ws => isElemW w = true ∧ WF w = true ∧ normNode (erase w) = root ∧ SheetsWritten roots ws
  | _, _ => False

theorem parseAll_written : ∀ (roots : List Node) (ws : List WNode), SheetsWritten roots ws →
    parseAll (ws.map renderDoc) = some roots
  | [], [], _ => rfl
  | root :: roots, w :: ws, h => by
    obtain ⟨h1, h2, h3, h4⟩ := h
    simp only [List.map_cons, parseAll, parse_renderDoc w h1 h2, h3, parseAll_written roots ws h4, Option.map_some]
  | [], _ :: _, h => by simp [SheetsWritten] at h
  | _ :: _, [], h => by simp [SheetsWritten] at h

end

end Umya.CellTree
