/-
  Round trips of page setup, margins, print options and header / footer (`Model/AnnotPage.lean`).
-/
import Umya.Model.AnnotPage
import Umya.Lemmas.AnnotCodec
namespace Umya.AnnotPage
open Umya.Spec.Xml (Node Attr)
open Umya.Dec Umya.AnnotCodec

theorem Orientation.fromStr_toStr (v : Orientation) : Orientation.fromStr v.toStr = some v := by cases v <;> decide

theorem enumRead_orientation (o : Option Orientation) :
    enumRead Orientation.fromStr none (o.map Orientation.toStr) = o := by
  cases o <;> simp [enumRead, Orientation.fromStr_toStr]

/-! ## page setup -/

theorem PageSetup.fields_nodup {Tok} (p : PageSetup Tok) (rid : Nat) : ((p.fields rid).map (·.1)).Nodup := by
  simp only [PageSetup.fields, List.map_cons, List.map_nil]; decide

theorem PageSetup.readAttrs_fields {Tok} (rels : Text → Option Tok) (p : PageSetup Tok) (rid : Nat) (h : p.WF)
    (hrel : ∀ d, p.objectData = some d → rels (ridText rid) = some d) :
    PageSetup.readAttrs rels (render (p.fields rid)) = some p := by
  obtain ⟨h1, h2, h3, h4, h5, h6⟩ := h
  have nd := p.fields_nodup rid
  have e1 : getAttr (render (p.fields rid)) "paperSize".toList = p.paperSize.map decDigits :=
    getAttr_render _ nd (by simp [PageSetup.fields])
  have e2 : getAttr (render (p.fields rid)) "scale".toList = p.scale.map decDigits :=
    getAttr_render _ nd (by simp [PageSetup.fields])
  have e3 : getAttr (render (p.fields rid)) "orientation".toList = p.orientation.map Orientation.toStr :=
    getAttr_render _ nd (by simp [PageSetup.fields])
  have e4 : getAttr (render (p.fields rid)) "fitToHeight".toList = p.fitToHeight.map decDigits :=
    getAttr_render _ nd (by simp [PageSetup.fields])
  have e5 : getAttr (render (p.fields rid)) "fitToWidth".toList = p.fitToWidth.map decDigits :=
    getAttr_render _ nd (by simp [PageSetup.fields])
  have e6 : getAttr (render (p.fields rid)) "horizontalDpi".toList = p.horizontalDpi.map decDigits :=
    getAttr_render _ nd (by simp [PageSetup.fields])
  have e7 : getAttr (render (p.fields rid)) "verticalDpi".toList = p.verticalDpi.map decDigits :=
    getAttr_render _ nd (by simp [PageSetup.fields])
  have e8 : getAttr (render (p.fields rid)) "r:id".toList = p.objectData.map (fun _ => ridText rid) :=
    getAttr_render _ nd (by simp [PageSetup.fields])
  have hod : relData rels (p.objectData.map (fun _ => ridText rid)) = some p.objectData := by
    cases hd : p.objectData with
    | none => rfl
    | some d => simp [relData, hrel d hd]
  simp only [PageSetup.readAttrs, e1, e2, e3, e4, e5, e6, e7, e8, hod, optU32_map_decDigits _ h1,
    optU32_map_decDigits _ h2, optU32_map_decDigits _ h3, optU32_map_decDigits _ h4, optU32_map_decDigits _ h5,
    optU32_map_decDigits _ h6, enumRead_orientation, Option.bind_some, Option.map_some]

theorem PageSetup.default_of_no_param {Tok} (p : PageSetup Tok) (h : p.hasParam = false) : p = {} := by
  obtain ⟨a, b, c, d, e, f, g, o⟩ := p
  simp only [PageSetup.hasParam, Bool.or_eq_false_iff, Option.isSome_eq_false_iff, Option.isNone_iff_eq_none] at h
  obtain ⟨⟨⟨⟨⟨⟨⟨h1, h2⟩, h3⟩, h4⟩, h5⟩, h6⟩, h7⟩, h8⟩ := h
  subst h1 h2 h3 h4 h5 h6 h7 h8
  rfl

theorem PageSetup.read_write {Tok} (rels : Text → Option Tok) (p : PageSetup Tok) (rid : Nat) (h : p.WF)
    (hrel : ∀ d, p.objectData = some d → rels (ridText rid) = some d) :
    PageSetup.read rels (p.write rid).1 = some p := by
  unfold PageSetup.write
  cases hp : p.hasParam with
  | true => simpa [PageSetup.read, elem, Node.attrs] using PageSetup.readAttrs_fields rels p rid h hrel
  | false => simp [PageSetup.read, PageSetup.default_of_no_param p hp]

/-! ## margins -/

theorem PageMargins.fields_nodup {Z} (m : PageMargins Z) : (m.fields.map (·.1)).Nodup := by
  simp only [PageMargins.fields, List.map_cons, List.map_nil]; decide

theorem PageMargins.read_write {Z : NumZ} (hs : Z.F.Sound) (m : PageMargins Z) :
    PageMargins.read m.write = some m.norm := by
  have nd := m.fields_nodup
  have e1 : getAttr (render m.fields) "left".toList = some (numStr Z m.left) :=
    getAttr_render _ nd (by simp [PageMargins.fields])
  have e2 : getAttr (render m.fields) "right".toList = some (numStr Z m.right) :=
    getAttr_render _ nd (by simp [PageMargins.fields])
  have e3 : getAttr (render m.fields) "top".toList = some (numStr Z m.top) :=
    getAttr_render _ nd (by simp [PageMargins.fields])
  have e4 : getAttr (render m.fields) "bottom".toList = some (numStr Z m.bottom) :=
    getAttr_render _ nd (by simp [PageMargins.fields])
  have e5 : getAttr (render m.fields) "header".toList = some (numStr Z m.header) :=
    getAttr_render _ nd (by simp [PageMargins.fields])
  have e6 : getAttr (render m.fields) "footer".toList = some (numStr Z m.footer) :=
    getAttr_render _ nd (by simp [PageMargins.fields])
  simp only [PageMargins.read, PageMargins.write, elem, Node.attrs, e1, e2, e3, e4, e5, e6, numStr,
    numRead_fmt Z hs, Option.bind_some, Option.map_some, PageMargins.norm]

theorem PageMargins.norm_idem {Z} (m : PageMargins Z) : m.norm.norm = m.norm := by simp [PageMargins.norm]

/-! ## print options -/

theorem PrintOptions.fields_nodup (p : PrintOptions) : (p.fields.map (·.1)).Nodup := by
  simp only [PrintOptions.fields, List.map_cons, List.map_nil]; decide

theorem PrintOptions.read_write (p : PrintOptions) : PrintOptions.read p.write = p := by
  have nd := p.fields_nodup
  have e1 : getAttr (render p.fields) "horizontalCentered".toList = p.horizontalCentered.map boolStr :=
    getAttr_render _ nd (by simp [PrintOptions.fields])
  have e2 : getAttr (render p.fields) "verticalCentered".toList = p.verticalCentered.map boolStr :=
    getAttr_render _ nd (by simp [PrintOptions.fields])
  obtain ⟨a, b⟩ := p
  unfold PrintOptions.write
  split
  · simp only [PrintOptions.read, elem, Node.attrs, e1, e2, optBool_map_boolStr]
  · rename_i hn
    cases a <;> cases b <;> simp_all [PrintOptions.read]

/-! ## header / footer -/

theorem readOdd_writeOdd (name : String) (t : Text) (old : Option Text) :
    readOdd old (elem name [] (txt t)) = if t = [] then old else some t := by
  unfold txt
  split <;> simp [readOdd, elem, Node.children]

theorem HeaderFooter.read_write (h : HeaderFooter) : HeaderFooter.read h.write = h.norm := by
  obtain ⟨hd, ft⟩ := h
  rcases hd with _ | _ | ⟨c, r⟩ <;> rcases ft with _ | _ | ⟨c', r'⟩ <;>
    simp [HeaderFooter.write, HeaderFooter.read, HeaderFooter.norm, writeOdd, elem, elemKids, Node.children,
      Node.isElem, readHfKids, Node.name, txt, readOdd]

theorem HeaderFooter.norm_idem (h : HeaderFooter) : h.norm.norm = h.norm := by
  obtain ⟨a, b⟩ := h
  cases a with
  | none => cases b with
    | none => rfl
    | some f => cases f <;> rfl
  | some t => cases t <;> (cases b with
    | none => rfl
    | some f => cases f <;> rfl)

/-- the getters see no difference -/
theorem HeaderFooter.norm_text (h : HeaderFooter) :
    h.norm.headerText = h.headerText ∧ h.norm.footerText = h.footerText := by
  obtain ⟨a, b⟩ := h
  constructor
  · cases a with
    | none => rfl
    | some t => cases t <;> rfl
  · cases b with
    | none => rfl
    | some t => cases t <;> rfl

end Umya.AnnotPage
