/-
  (T) translator, C06 view / page / protection part: the enum string tables and the field ↔ attribute
  tables regenerated from the Rust source on every run (`Umya/Model/Gen/Tables.lean`, the functions marked
  "C06 view / page / protection" of tools/extract_tables.py) are the hand model's
  (`Model/AnnotView.lean`, `AnnotPage.lean`, `AnnotProt.lean`).  A renamed attribute, a flag written from
  or read into another field, a changed enum text or default breaks this proof.
-/
import Umya.Model.Gen.Tables
import Umya.Model.AnnotView
import Umya.Model.AnnotPage
import Umya.Model.AnnotProt
namespace Umya.Gen
open Umya.AnnotView Umya.AnnotPage Umya.AnnotProt

theorem view_tables_match :
    pane_values_to_str = PaneV.all.map (fun v => (v.nameS, v.toStrS)) ∧
    pane_values_from_str = PaneV.all.map (fun v => (v.toStrS, v.nameS)) ∧
    pane_values_default = PaneV.dflt.nameS ∧
    pane_state_values_to_str = PaneState.all.map (fun v => (v.nameS, v.toStrS)) ∧
    pane_state_values_from_str = PaneState.all.map (fun v => (v.toStrS, v.nameS)) ∧
    pane_state_values_default = PaneState.dflt.nameS ∧
    sheet_view_values_to_str = ViewV.all.map (fun v => (v.nameS, v.toStrS)) ∧
    sheet_view_values_from_str = ViewV.all.map (fun v => (v.toStrS, v.nameS)) ∧
    sheet_view_values_default = ViewV.dflt.nameS ∧
    orientation_values_to_str = Orientation.all.map (fun v => (v.nameS, v.toStrS)) ∧
    orientation_values_from_str = Orientation.all.map (fun v => (v.toStrS, v.nameS)) ∧
    orientation_values_default = Orientation.default.nameS ∧
    sheet_protection_read_table = sheetProtectionTable ∧
    sheet_protection_write_table = sheetProtectionTable.map (fun p => (p.1, p.2, p.1)) ∧
    workbook_protection_read_table = workbookProtectionTable ∧
    workbook_protection_write_table = workbookProtectionTable.map (fun p => (p.1, p.2, p.1)) := by
  refine ⟨?_, ?_, ?_, ?_, ?_, ?_, ?_, ?_, ?_, ?_, ?_, ?_, ?_, ?_, ?_, ?_⟩ <;> decide

end Umya.Gen
