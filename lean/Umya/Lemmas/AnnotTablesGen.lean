/-
  (T) for the data-validation / conditional-formatting enums: the string tables `tools/extract_tables.py`
  regenerates from the Rust source on every run (`Umya/Model/Gen/Tables.lean`: `dv_type_table`, `dv_operator_table`,
  `cf_type_table`, `cf_operator_table`, `time_period_table`, `cfvo_type_table`; each the `get_value_string` arms and the
  `from_str` arms in source order) are the hand model's tables (`Umya/Model/AnnotDv.lean`, `AnnotCf.lean`).

  For each enum: the variants and their spellings, in arm order, are the model's constructors and `toStr` texts; the
  `from_str` arms are exactly the `get_value_string` arms turned round (so the source's two tables are inverse to each
  other); and the model's `fromStr` returns, for the text of every `from_str` arm, the constructor of that arm.
  A changed spelling, a dropped or swapped arm in either direction breaks these proofs.
-/
import Umya.Model.Gen.Tables
import Umya.Model.AnnotDv
import Umya.Model.AnnotCf
namespace Umya.Gen
open Umya.AnnotDv Umya.AnnotCf

/-- what "the generated pair of tables is the model's enum" means -/
def EnumMatches {α} (tbl : List (String × String) × List (String × String)) (names : List String) (all : List α)
    (toStr : α → List Char) (fromStr : List Char → Option α) : Prop :=
  tbl.1.map (fun p => p.1.toList) = names.map String.toList ∧
  tbl.1.map (fun p => p.2.toList) = all.map toStr ∧
  tbl.2.map (fun p => (p.1.toList, p.2.toList)) = tbl.1.map (fun p => (p.2.toList, p.1.toList)) ∧
  tbl.2.map (fun p => fromStr p.1.toList) = all.map some

theorem gen_dv_type : EnumMatches dv_type_table
    ["Custom", "Date", "Decimal", "List", "None", "TextLength", "Time", "Whole"] DvType.all DvType.toStr DvType.fromStr := by
  refine ⟨?_, ?_, ?_, ?_⟩ <;> decide

theorem gen_dv_operator : EnumMatches dv_operator_table
    ["Between", "Equal", "GreaterThan", "GreaterThanOrEqual", "LessThan", "LessThanOrEqual", "NotBetween", "NotEqual"]
    DvOp.all DvOp.toStr DvOp.fromStr := by
  refine ⟨?_, ?_, ?_, ?_⟩ <;> decide

theorem gen_cf_type : EnumMatches cf_type_table
    ["AboveAverage", "BeginsWith", "CellIs", "ColorScale", "ContainsBlanks", "ContainsErrors", "ContainsText", "DataBar",
     "DuplicateValues", "EndsWith", "Expression", "IconSet", "NotContainsBlanks", "NotContainsErrors", "NotContainsText",
     "TimePeriod", "Top10", "UniqueValues"] CfType.all CfType.toStr CfType.fromStr := by
  refine ⟨?_, ?_, ?_, ?_⟩ <;> decide

theorem gen_cf_operator : EnumMatches cf_operator_table
    ["BeginsWith", "Between", "ContainsText", "EndsWith", "Equal", "GreaterThan", "GreaterThanOrEqual", "LessThan",
     "LessThanOrEqual", "NotBetween", "NotContains", "NotEqual"] CfOp.all CfOp.toStr CfOp.fromStr := by
  refine ⟨?_, ?_, ?_, ?_⟩ <;> decide

theorem gen_time_period : EnumMatches time_period_table
    ["Last7Days", "LastMonth", "LastWeek", "NextMonth", "NextWeek", "ThisMonth", "ThisWeek", "Today", "Tomorrow", "Yesterday"]
    TimePeriod.all TimePeriod.toStr TimePeriod.fromStr := by
  refine ⟨?_, ?_, ?_, ?_⟩ <;> decide

theorem gen_cfvo_type : EnumMatches cfvo_type_table
    ["Formula", "Max", "Min", "Number", "Percent", "Percentile"] CfvoType.all CfvoType.toStr CfvoType.fromStr := by
  refine ⟨?_, ?_, ?_, ?_⟩ <;> decide

end Umya.Gen
