/-
  The collection stage of `move_or_copy_range` (`iter_all_cells_by_range_sorted_by_row`): on a
  coherent store the merge of the rectangle's positions with the index scan yields exactly the
  scan's coordinates, and every `map.get(..).unwrap()` succeeds.
-/
import Umya.Lemmas.MoveRange
namespace Umya.Sheet
open Umya.Coord (Res)

theorem sorted_range (lo hi : Nat) : (range lo hi).Pairwise (· < ·) := by
  unfold range
  rw [List.pairwise_map]
  exact List.Pairwise.imp (fun h => by omega) List.pairwise_lt_range

theorem sorted_rectPositions (rs re cs ce : Nat) : SSorted (rectPositions rs re cs ce) := by
  unfold rectPositions
  apply List.pairwise_flatMap.2
  constructor
  · intro r _
    rw [List.pairwise_map]
    refine List.Pairwise.imp ?_ (sorted_range cs ce)
    intro a b hab
    rw [keyLt_iff]; right; exact ⟨rfl, hab⟩
  · refine List.Pairwise.imp ?_ (sorted_range rs re)
    intro a b hab x hx y hy
    obtain ⟨_, _, rfl⟩ := List.mem_map.1 hx
    obtain ⟨_, _, rfl⟩ := List.mem_map.1 hy
    rw [keyLt_iff]; left; exact hab

/-- merging a sorted position list with a sorted scan whose coordinates all occur among the
    positions yields the scan's coordinates, in order -/
theorem scanAll_filterMap (P : List Key) (hP : SSorted P) (coords : List Key)
    (hs : SSorted (coords.map swap)) (hsub : ∀ k ∈ coords, swap k ∈ P) :
    (scanAll P coords).filterMap id = coords := by
  induction P generalizing coords with
  | nil =>
    cases coords with
    | nil => rfl
    | cons k ks => exact absurd (hsub k (List.mem_cons_self ..)) (by simp)
  | cons x xs ih =>
    have hPx := List.pairwise_cons.1 hP
    cases coords with
    | nil =>
      simp only [scanAll]
      show List.filterMap id (scanAll xs []) = []
      exact ih hPx.2 [] (by simp [SSorted]) (by simp)
    | cons cur it =>
      have hsc := List.pairwise_cons.1 (by simpa using hs : SSorted (swap cur :: it.map swap))
      have hcur : swap cur ∈ x :: xs := hsub cur (List.mem_cons_self ..)
      simp only [scanAll]
      by_cases hlt : keyLt x (cur.2, cur.1) = true
      · rw [if_pos hlt]
        show List.filterMap id (scanAll xs (cur :: it)) = cur :: it
        apply ih hPx.2 (cur :: it) hs
        intro k hk
        have hkP := hsub k hk
        rcases List.mem_cons.1 hkP with e | hin
        · -- swap k = x is impossible: x < swap cur ≤ swap k
          exfalso
          rcases List.mem_cons.1 hk with e2 | hk2
          · subst e2
            have : keyLt x (swap k) = true := hlt
            rw [e, keyLt_irrefl] at this; simp at this
          · have h2 : keyLt (swap cur) (swap k) = true := hsc.1 _ (List.mem_map.2 ⟨k, hk2, rfl⟩)
            have h3 : keyLt x (swap k) = true := keyLt_trans hlt h2
            rw [e, keyLt_irrefl] at h3; simp at h3
        · exact hin
      · rw [if_neg hlt]
        have hx : swap cur = x := by
          rcases List.mem_cons.1 hcur with e | hin
          · exact e
          · exact absurd (hPx.1 _ hin) hlt
        have hcx : (x.2, x.1) = cur := by rw [← hx]; rfl
        rw [hcx]
        show cur :: List.filterMap id (scanAll xs it) = cur :: it
        congr 1
        apply ih hPx.2 it (by simpa using hsc.2)
        intro k hk
        have hkP := hsub k (List.mem_cons_of_mem _ hk)
        rcases List.mem_cons.1 hkP with e | hin
        · exfalso
          have h2 : keyLt (swap cur) (swap k) = true := hsc.1 _ (List.mem_map.2 ⟨k, hk, rfl⟩)
          rw [hx, e, keyLt_irrefl] at h2; simp at h2
        · exact hin

theorem mapRes_lookup (cells : List (Key × CellM)) (l : List Key)
    (h : ∀ k ∈ l, (lookup (k.2, k.1) cells).isSome) :
    mapRes (fun k => match lookup (k.2, k.1) cells with | some c => Res.ok c | none => Res.panic) l =
      .ok (l.filterMap (fun k => lookup (k.2, k.1) cells)) := by
  induction l with
  | nil => rfl
  | cons k ks ih =>
    have hk := h k (List.mem_cons_self ..)
    have ih' := ih (fun z hz => h z (List.mem_cons_of_mem _ hz))
    cases hl : lookup (k.2, k.1) cells with
    | none => rw [hl] at hk; simp at hk
    | some c =>
      simp only [mapRes, hl, ih']
      have e := List.filterMap_cons_some (f := fun z : Key => lookup (z.2, z.1) cells) (a := k) (l := ks) hl
      rw [e]

/-- on a coherent store the collection stage does not panic and returns the cells the scan names -/
theorem collectCells_eq (s : Sheet) (h : Coherent s) (rs re cs ce : Nat) (coords : List Key)
    (hok : coordsInRange s rs re cs ce = .ok coords) :
    collectCells s rs re cs ce coords = .ok (copiesOf s coords) := by
  obtain ⟨hs, hmem⟩ := coordsInRange_spec s h rs re cs ce coords hok
  have hin : ∀ k ∈ coords, (k.2, k.1) ∈ keysOf s ∧ rs ≤ k.2 ∧ k.2 ≤ re ∧ cs ≤ k.1 ∧ k.1 ≤ ce := by
    intro k hk
    exact (hmem (k.2, k.1)).1 (by simpa [swap] using hk)
  unfold collectCells
  rw [scanAll_filterMap _ (sorted_rectPositions rs re cs ce) coords hs]
  · exact mapRes_lookup s.cells coords (fun k hk => lookup_isSome_iff.2 (hin k hk).1)
  · intro k hk
    exact (mem_rectPositions _ _ _ _ _).2 (hin k hk).2

end Umya.Sheet
