/-
  Helper lemmas for `Umya/Thm/C02Sheet.lean`, part 1: the decoder's list checks (`ascending`,
  `nonDecreasing`, `fillRefs`, `expandShared`) on lists of the shape the writer produces, and the row loop
  of `Umya/Model/SheetNode.lean` (`takeRow`, `rowGroups`) on a well-formed sheet.
-/
import Umya.Model.SheetNode
namespace Umya.SheetNode
open Umya.CellXml Umya.Spec.Sml

/-! ## `ascending` / `nonDecreasing` -/

theorem asc_fold (xs : List Nat) : ∀ (b : Bool) (x : Nat),
    xs.Pairwise (· < ·) → (∀ y ∈ xs, x < y) →
    (xs.foldl (fun (acc : Bool × Nat) y => (acc.1 && acc.2 < y, y)) (b, x)).1 = b := by
  induction xs with
  | nil => intro b x _ _; rfl
  | cons y ys ih =>
    intro b x hp hx
    simp only [List.foldl_cons]
    have hy := List.pairwise_cons.1 hp
    rw [ih _ y hy.2 hy.1]
    simp [hx y (by simp)]

theorem ascending_of_pairwise (l : List Nat) (h : l.Pairwise (· < ·)) : ascending l = true := by
  cases l with
  | nil => rfl
  | cons x xs =>
    have hx := List.pairwise_cons.1 h
    exact asc_fold xs true x hx.2 hx.1

theorem nondec_fold (xs : List Nat) : ∀ (b : Bool) (x : Nat),
    xs.Pairwise (· ≤ ·) → (∀ y ∈ xs, x ≤ y) →
    (xs.foldl (fun (acc : Bool × Nat) y => (acc.1 && acc.2 ≤ y, y)) (b, x)).1 = b := by
  induction xs with
  | nil => intro b x _ _; rfl
  | cons y ys ih =>
    intro b x hp hx
    simp only [List.foldl_cons]
    have hy := List.pairwise_cons.1 hp
    rw [ih _ y hy.2 hy.1]
    simp [hx y (by simp)]

theorem nonDecreasing_of_pairwise (l : List Nat) (h : l.Pairwise (· ≤ ·)) : nonDecreasing l = true := by
  cases l with
  | nil => rfl
  | cons x xs =>
    have hx := List.pairwise_cons.1 h
    exact nondec_fold xs true x hx.2 hx.1

/-! ## `fillRefs`, `expandShared` on cells that carry a reference and no shared formula -/

theorem fillRefs_id (rn : Nat) (cs : List CellV) : ∀ prev, (∀ c ∈ cs, c.ref.isEmpty = false) → fillRefs rn prev cs = cs := by
  induction cs with
  | nil => intro _ _; rfl
  | cons c cs ih =>
    intro prev h
    simp only [fillRefs, h c (by simp), Bool.false_eq_true, if_false]
    rw [ih _ (fun d hd => h d (by simp [hd]))]

theorem expandShared_id (cs : List CellV) : ∀ ms, (∀ c ∈ cs, c.shared = none) → expandShared ms cs = cs := by
  induction cs with
  | nil => intro _ _; rfl
  | cons c cs ih =>
    intro ms h
    simp only [expandShared, h c (by simp)]
    rw [ih _ (fun d hd => h d (by simp [hd]))]

/-! ## the row loop -/

section
variable {N : Type}

theorem takeRow_split (n : Nat) (cells : List (Cell N)) :
    (takeRow n cells).1 ++ (takeRow n cells).2 = cells ∧ (∀ c ∈ (takeRow n cells).1, c.row = n) ∧
    (∀ c, (takeRow n cells).2.head? = some c → c.row ≠ n) := by
  induction cells with
  | nil => simp [takeRow]
  | cons c cs ih =>
    simp only [takeRow]
    split
    · rename_i hc
      obtain ⟨i1, i2, i3⟩ := ih
      refine ⟨by simp [i1], ?_, i3⟩
      intro x hx
      rcases List.mem_cons.1 hx with rfl | hx
      · exact hc
      · exact i2 x hx
    · rename_i hc
      refine ⟨by simp, by simp, ?_⟩
      intro x hx; simp at hx; subst hx; exact hc

/-- the rows of the loop are the row table -/
theorem rowGroups_rows (rs : List RowW) : ∀ cells : List (Cell N), (rowGroups rs cells).map (·.1) = rs := by
  induction rs with
  | nil => intro _; rfl
  | cons r rs ih => intro cells; simp [rowGroups, ih]

/-- the cells under a row have that row's number -/
theorem rowGroups_row (rs : List RowW) : ∀ cells : List (Cell N), ∀ g ∈ rowGroups rs cells, ∀ c ∈ g.2, c.row = g.1.num := by
  induction rs with
  | nil => intro _ g hg; simp [rowGroups] at hg
  | cons r rs ih =>
    intro cells g hg
    simp only [rowGroups, List.mem_cons] at hg
    rcases hg with rfl | hg
    · exact (takeRow_split r.num cells).2.1
    · exact ih _ g hg

/-- the cells under a row are a sublist of the cell list (same order) -/
theorem rowGroups_sublist (rs : List RowW) : ∀ cells : List (Cell N), ∀ g ∈ rowGroups rs cells, g.2.Sublist cells := by
  induction rs with
  | nil => intro _ g hg; simp [rowGroups] at hg
  | cons r rs ih =>
    intro cells g hg
    simp only [rowGroups, List.mem_cons] at hg
    have hs := (takeRow_split r.num cells).1
    rcases hg with rfl | hg
    · have : (takeRow r.num cells).1.Sublist ((takeRow r.num cells).1 ++ (takeRow r.num cells).2) := List.sublist_append_left _ _
      rwa [hs] at this
    · have h1 := ih _ g hg
      have : (takeRow r.num cells).2.Sublist ((takeRow r.num cells).1 ++ (takeRow r.num cells).2) := List.sublist_append_right _ _
      rw [hs] at this
      exact h1.trans this

/-- the peek-and-consume loop hands over every cell, in order, when rows are strictly ascending, cells are
    ordered by row, and every cell's row is in the row table -/
theorem rowGroups_all (rs : List RowW) (cells : List (Cell N))
    (hrs : rs.Pairwise (fun a b => a.num < b.num))
    (hcs : cells.Pairwise (fun a b => a.row ≤ b.row))
    (hin : ∀ c ∈ cells, c.row ∈ rs.map (·.num)) : (rowGroups rs cells).flatMap (·.2) = cells := by
  induction rs generalizing cells with
  | nil =>
    cases cells with
    | nil => rfl
    | cons c cs => have := hin c (by simp); simp at this
  | cons r rs ih =>
    simp only [rowGroups, List.flatMap_cons]
    obtain ⟨s1, s2, s3⟩ := takeRow_split r.num cells
    have hr := List.pairwise_cons.1 hrs
    have hsorted2 : ((takeRow r.num cells).1 ++ (takeRow r.num cells).2).Pairwise (fun a b => a.row ≤ b.row) := by
      rw [s1]; exact hcs
    have hrest : ∀ c ∈ (takeRow r.num cells).2, c.row ∈ rs.map (·.num) := by
      intro c hc
      have hc' : c ∈ cells := by rw [← s1]; exact List.mem_append_right _ hc
      have hmem := hin c hc'
      simp only [List.map_cons, List.mem_cons] at hmem
      rcases hmem with hmem | hmem
      · exfalso
        cases hrest2 : (takeRow r.num cells).2 with
        | nil => rw [hrest2] at hc; simp at hc
        | cons d ds =>
          have hd : d.row ≠ r.num := s3 d (by rw [hrest2]; rfl)
          have hs2 := (List.pairwise_append.1 hsorted2).2.1
          rw [hrest2] at hs2 hc
          have hdc : d.row ≤ c.row := by
            rcases List.mem_cons.1 hc with rfl | hc
            · exact Nat.le_refl _
            · exact (List.pairwise_cons.1 hs2).1 c hc
          have hdm := hin d (by rw [← s1, hrest2]; simp)
          simp only [List.map_cons, List.mem_cons] at hdm
          rcases hdm with hdm | hdm
          · exact hd hdm
          · obtain ⟨w, hw, ew⟩ := List.mem_map.1 hdm
            have := hr.1 w hw
            omega
      · exact hmem
    rw [ih _ hr.2 (List.pairwise_append.1 hsorted2).2.1 hrest]
    exact s1

end

end Umya.SheetNode
