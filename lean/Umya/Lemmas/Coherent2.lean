/-
  Coherence under the structural edits (`rebuild_map_and_indices`) and the compound operations.
-/
import Umya.Lemmas.Coherent
namespace Umya.Sheet
open Umya.Coord (Res)

/-! ### rebuild -/

theorem rebuild_coherent (cells' : List (Key × CellM)) (rows : List (Nat × RowM)) (cols : List ColM)
    (hn : (cells'.map (fun p => (p.2.row, p.2.col))).Nodup)
    (hrows : ∀ p ∈ cells', p.2.row ∈ rows.map (·.1))
    (hkey : ∀ q ∈ rows, q.2.num = q.1) (hnd : (rows.map (·.1)).Nodup) :
    Coherent { cells := (rebuild cells').1, rowIdx := (rebuild cells').2.1, colIdx := (rebuild cells').2.2,
               rows := rows, cols := cols } := by
  have hk : ((rebuild cells').1).map (·.1) = cells'.map (fun p => (p.2.row, p.2.col)) := by
    simp [rebuild, List.map_map, Function.comp]
  refine ⟨?_, ?_, ?_, ?_, ?_, ?_, ?_, hkey, hnd⟩
  · simp only [keysOf]; rw [hk]; exact hn
  · intro p hp
    simp only [rebuild, List.mem_map] at hp
    obtain ⟨q, _, e⟩ := hp; subst e; simp
  · exact sorted_setOfList _
  · intro k; simp only [rebuild, keysOf]; rw [mem_setOfList]
  · exact sorted_setOfList _
  · intro k; simp only [rebuild, keysOf]; rw [mem_setOfList]
    simp only [List.mem_map]
    constructor
    · rintro ⟨a, ha, e⟩; subst e; exact ⟨a, ha, rfl⟩
    · rintro ⟨a, ha, e⟩; exact ⟨a, ha, by rw [e]; rfl⟩
  · intro k hk'
    simp only [keysOf] at hk'; rw [hk] at hk'
    obtain ⟨p, hp, e⟩ := List.mem_map.1 hk'
    subst e; exact hrows p hp

/-! ### insert -/

theorem adjIns_inj (root off a b : Nat) (h : adjIns a root off = adjIns b root off) : a = b := by
  unfold adjIns at h; split at h <;> split at h <;> omega

theorem adjInsV_eq (num root off : Nat) (h : off ≠ 0) : adjInsV num root off = adjIns num root off := by
  simp [adjInsV, adjIns, h]

theorem adjIns_zero (num root : Nat) : adjIns num root 0 = num := by simp [adjIns]

theorem nodup_map_of_inj {α β} (f : α → β) (l : List α) (hf : ∀ a b, f a = f b → a = b) (h : l.Nodup) :
    (l.map f).Nodup := by
  rw [List.Nodup, List.pairwise_map]
  exact List.Pairwise.imp (fun hne e => hne (hf _ _ e)) h

theorem insertAdj_coherent (s : Sheet) (rc oc rr or_ : Nat) (h : Coherent s) :
    Coherent (insertAdj s rc oc rr or_) := by
  unfold insertAdj
  by_cases h0 : oc = 0 ∧ or_ = 0
  · obtain ⟨a, b⟩ := h0; subst a; subst b
    simp only [ne_eq, not_true_eq_false, if_false, and_self, if_true]
    exact coherent_of_eq h rfl rfl rfl rfl
  · simp only [h0, if_false]
    apply rebuild_coherent
    · -- new coordinates are distinct
      have e : (s.cells.map (fun p => (p.1, ({ p.2 with col := adjIns p.2.col rc oc, row := adjIns p.2.row rr or_ } : CellM)))).map
          (fun p => (p.2.row, p.2.col)) = (keysOf s).map (fun k => (adjIns k.1 rr or_, adjIns k.2 rc oc)) := by
        simp only [keysOf, List.map_map]
        apply List.map_congr_left
        intro p hp
        have := h.coord p hp
        simp [Function.comp, this.1, this.2]
      rw [e]
      apply nodup_map_of_inj _ _ _ h.nodup
      intro a b hab
      injection hab with h1 h2
      exact Prod.ext (adjIns_inj _ _ _ _ h1) (adjIns_inj _ _ _ _ h2)
    · intro p hp
      obtain ⟨q, hq, e⟩ := List.mem_map.1 hp
      subst e
      simp only
      have hqr := h.rowKnown q.1 (List.mem_map.2 ⟨q, hq, rfl⟩)
      have hc := (h.coord q hq).1
      obtain ⟨w, hw, ew⟩ := List.mem_map.1 hqr
      by_cases hor : or_ = 0
      · subst hor; simp only [ne_eq, not_true_eq_false, if_false, adjIns_zero]; rw [hc]; exact hqr
      · simp only [ne_eq, hor, not_false_eq_true, if_true]
        apply List.mem_map.2
        refine ⟨_, List.mem_map.2 ⟨w, hw, rfl⟩, ?_⟩
        simp only
        rw [adjInsV_eq _ _ _ hor, h.rowKey w hw, ew, hc]
    · intro q hq
      by_cases hor : or_ = 0
      · subst hor; simp only [ne_eq, not_true_eq_false, if_false] at hq; exact h.rowKey q hq
      · simp only [ne_eq, hor, not_false_eq_true, if_true] at hq
        obtain ⟨w, _, e⟩ := List.mem_map.1 hq; subst e; rfl
    · by_cases hor : or_ = 0
      · subst hor; simp only [ne_eq, not_true_eq_false, if_false]; exact h.rowNodup
      · simp only [ne_eq, hor, not_false_eq_true, if_true]
        have e : (s.rows.map (fun p => (({ p.2 with num := adjInsV p.2.num rr or_ } : RowM).num,
            ({ p.2 with num := adjInsV p.2.num rr or_ } : RowM)))).map (·.1) = (s.rows.map (·.1)).map (fun n => adjIns n rr or_) := by
          simp only [List.map_map]
          apply List.map_congr_left
          intro p hp
          simp [Function.comp, adjInsV_eq _ _ _ hor, h.rowKey p hp]
        rw [e]
        exact nodup_map_of_inj _ _ (fun a b hab => adjIns_inj _ _ _ _ hab) h.rowNodup

/-! ### remove -/

def Res.getD {α} (d : α) : Res α → α
  | .ok a => a
  | .panic => d

theorem mapRes_ok {α β} [Inhabited β] (f : α → Res β) (l : List α) (l' : List β) (h : mapRes f l = .ok l') :
    l' = l.map (fun x => Res.getD default (f x)) ∧ ∀ x ∈ l, f x = .ok (Res.getD default (f x)) := by
  induction l generalizing l' with
  | nil => simp [mapRes] at h; subst h; simp
  | cons x xs ih =>
    simp only [mapRes] at h
    cases hx : f x with
    | panic => rw [hx] at h; simp at h
    | ok y =>
      rw [hx] at h
      cases hxs : mapRes f xs with
      | panic => rw [hxs] at h; simp at h
      | ok ys =>
        rw [hxs] at h
        simp only at h
        injection h with h; subst h
        obtain ⟨e1, e2⟩ := ih ys hxs
        refine ⟨by simp [hx, Res.getD, e1], ?_⟩
        intro z hz
        rcases List.mem_cons.1 hz with rfl | hz
        · simp [hx, Res.getD]
        · exact e2 z hz

/-- total companion of `adjRem` -/
def adjRemT (num root off : Nat) : Nat := if num ≥ root ∧ off ≠ 0 then num - off else num

theorem adjRem_ok {num root off n : Nat} (h : adjRem num root off = .ok n) :
    n = adjRemT num root off ∧ (num ≥ root ∧ off ≠ 0 → off ≤ num) := by
  unfold adjRem at h; unfold adjRemT
  by_cases hc : num ≥ root ∧ off ≠ 0
  · rw [if_pos hc] at h; rw [if_pos hc]
    by_cases ho : off ≤ num
    · rw [if_pos ho] at h; injection h with h; exact ⟨h.symm, fun _ => ho⟩
    · rw [if_neg ho] at h; simp at h
  · rw [if_neg hc] at h; rw [if_neg hc]; injection h with h; exact ⟨h.symm, fun x => absurd x hc⟩

theorem adjRemT_inj_kept {root off a b : Nat} (ha : isRem a root off = false) (hb : isRem b root off = false)
    (ua : a ≥ root ∧ off ≠ 0 → off ≤ a) (ub : b ≥ root ∧ off ≠ 0 → off ≤ b)
    (e : adjRemT a root off = adjRemT b root off) : a = b := by
  unfold isRem at ha hb; unfold adjRemT at e
  by_cases hz : root ≠ 0 ∧ off ≠ 0
  · rw [if_pos hz] at ha hb
    have ha' : ¬ (a ≥ root ∧ a < root + off) := by simpa using ha
    have hb' : ¬ (b ≥ root ∧ b < root + off) := by simpa using hb
    split at e <;> split at e <;> omega
  · split at e <;> split at e <;> omega

theorem removeAdj_coherent (s t : Sheet) (rc oc rr or_ : Nat) (h : Coherent s)
    (hok : removeAdj s rc oc rr or_ = .ok t) : Coherent t := by
  unfold removeAdj at hok
  generalize hR : rowsRemove s.rows rr or_ = rowsR at hok
  generalize hC : colsRemove s.cols rc oc = colsR at hok
  unfold rowsRemove at hR
  unfold colsRemove at hC
  cases colsR with
  | panic => simp at hok
  | ok cols =>
  cases rowsR with
  | panic => simp at hok
  | ok rows =>
  simp only at hok
  by_cases h0 : oc = 0 ∧ or_ = 0
  · obtain ⟨a, b⟩ := h0; subst a; subst b
    simp only [ne_eq, not_true_eq_false, if_false] at hR hC
    injection hR with hR; injection hC with hC; subst hR; subst hC
    simp only [and_self, if_true] at hok
    injection hok with hok; subst hok
    exact h
  · simp only [h0, if_false] at hok
    split at hok
    · simp at hok
    · rename_i cells hcells
      injection hok with hok; subst hok
      unfold cellsRemove at hcells
      obtain ⟨ecells, hcellsok⟩ := mapRes_ok _ _ _ hcells
      -- facts about the rows table
      have rowsFact : (∀ q ∈ rows, q.2.num = q.1) ∧ (rows.map (·.1)).Nodup ∧
          (∀ n, n ∈ s.rows.map (·.1) → or_ = 0 ∨ (n ≥ rr ∧ n ≤ rr + or_ - 1) ∨ adjRemT n rr or_ ∈ rows.map (·.1))
          ∧ (or_ = 0 → rows = s.rows) := by
        by_cases hor : or_ = 0
        · subst hor
          simp only [ne_eq, not_true_eq_false, if_false] at hR
          injection hR with hR; subst hR
          exact ⟨h.rowKey, h.rowNodup, fun n _ => Or.inl rfl, fun _ => rfl⟩
        · simp only [ne_eq, hor, not_false_eq_true, if_true] at hR
          split at hR
          · simp at hR
          · rename_i flagged hflag
            obtain ⟨efl, hflok⟩ := mapRes_ok _ _ _ hflag
            obtain ⟨erows, hrowsok⟩ := mapRes_ok _ _ _ hR
            -- every row's flag is defined (root + off ≥ 1 since off ≠ 0)
            have isRemV_def : ∀ n, isRemV n rr or_ = .ok (decide (n ≥ rr ∧ n ≤ rr + or_ - 1)) := by
              intro n; unfold isRemV
              by_cases hn : n ≥ rr
              · have : 1 ≤ rr + or_ := by omega
                simp [hn, this]
              · simp [hn]
            have keptChar : ∀ p, p ∈ (flagged.filter (fun p => !p.2)).map (·.1) ↔
                p ∈ s.rows ∧ ¬ (p.2.num ≥ rr ∧ p.2.num ≤ rr + or_ - 1) := by
              intro p
              rw [efl]
              simp only [List.mem_map, List.mem_filter, isRemV_def, Res.bind, Res.getD]
              constructor
              · rintro ⟨⟨q, b⟩, ⟨⟨w, hw, e⟩, hb⟩, e2⟩
                simp only at e2; subst e2
                injection e with e1 e2; subst e1
                simp only [← e2, Bool.not_eq_true', decide_eq_false_iff_not] at hb
                exact ⟨hw, hb⟩
              · rintro ⟨hp, hb⟩
                exact ⟨(p, decide (p.2.num ≥ rr ∧ p.2.num ≤ rr + or_ - 1)), ⟨⟨p, hp, rfl⟩, by simp only [Bool.not_eq_true', decide_eq_false_iff_not]; exact hb⟩, rfl⟩
            -- kept rows do not underflow and shift injectively
            have keptShift : ∀ p, p ∈ (flagged.filter (fun p => !p.2)).map (·.1) →
                adjRemV p.2.num rr or_ = .ok (adjRemT p.2.num rr or_) ∧ (p.2.num ≥ rr → or_ ≤ p.2.num) := by
              intro p hp
              have := hrowsok p hp
              unfold adjRemV at this ⊢
              unfold adjRemT
              by_cases hn : p.2.num ≥ rr
              · by_cases ho : or_ ≤ p.2.num
                · simp [hn, ho, hor]
                · simp [hn, ho, Res.bind] at this
              · simp [hn]
            refine ⟨?_, ?_, ?_, fun e => absurd e hor⟩
            · intro q hq
              rw [erows] at hq
              obtain ⟨p, hp, e⟩ := List.mem_map.1 hq
              subst e
              rw [(keptShift p hp).1]; simp [Res.bind, Res.getD]
            · rw [erows, List.map_map]
              have e : ((flagged.filter (fun p => !p.2)).map (·.1)).map
                  ((fun (x : Nat × RowM) => x.1) ∘ fun p => Res.getD default ((adjRemV p.2.num rr or_).bind fun n => Res.ok (n, ({ p.2 with num := n } : RowM))))
                  = ((flagged.filter (fun p => !p.2)).map (·.1)).map (fun p => adjRemT p.2.num rr or_) := by
                apply List.map_congr_left
                intro p hp
                simp [Function.comp, (keptShift p hp).1, Res.bind, Res.getD]
              rw [e]
              rw [List.Nodup, List.pairwise_map]
              -- the kept list is a sublist-like image of s.rows with distinct numbers
              have hsub : (((flagged.filter (fun p => !p.2)).map (·.1))).Pairwise (fun a b => a.2.num ≠ b.2.num) := by
                rw [efl]
                rw [List.pairwise_map, List.pairwise_filter, List.pairwise_map]
                have := h.rowNodup
                rw [List.Nodup, List.pairwise_map] at this
                refine List.Pairwise.imp_of_mem ?_ this
                intro a b ha hb hne _ _
                simp only [isRemV_def, Res.bind, Res.getD]
                rw [h.rowKey a ha, h.rowKey b hb]; exact hne
              refine List.Pairwise.imp_of_mem ?_ hsub
              intro a b ha hb hne
              have ka := (keptChar a).1 ha
              have kb := (keptChar b).1 hb
              have sa := (keptShift a ha).2
              have sb := (keptShift b hb).2
              unfold adjRemT
              by_cases h1 : a.2.num ≥ rr <;> by_cases h2 : b.2.num ≥ rr <;> simp [h1, h2, hor] <;> omega
            · intro n hn
              by_cases hb : n ≥ rr ∧ n ≤ rr + or_ - 1
              · right; left; exact hb
              · right; right
                obtain ⟨w, hw, ew⟩ := List.mem_map.1 hn
                have hkw := h.rowKey w hw
                have hkept : w ∈ (flagged.filter (fun p => !p.2)).map (·.1) :=
                  (keptChar w).2 ⟨hw, by rw [hkw, ew]; exact hb⟩
                have hs := (keptShift w hkept).1
                rw [hkw, ew] at hs
                rw [erows]
                apply List.mem_map.2
                refine ⟨_, List.mem_map.2 ⟨w, hkept, rfl⟩, ?_⟩
                simp [hkw, ew, hs, Res.bind, Res.getD]
      obtain ⟨rk, rnd, rshift, rsame⟩ := rowsFact
      -- facts about kept cells
      have cellFact : ∀ p ∈ s.cells.filter (fun p => !(isRem p.2.col rc oc || isRem p.2.row rr or_)),
          (Res.getD default ((adjRem p.2.col rc oc).bind fun c => (adjRem p.2.row rr or_).bind fun r =>
              Res.ok (p.1, ({ p.2 with col := c, row := r } : CellM)))).2.row = adjRemT p.2.row rr or_ ∧
          (Res.getD default ((adjRem p.2.col rc oc).bind fun c => (adjRem p.2.row rr or_).bind fun r =>
              Res.ok (p.1, ({ p.2 with col := c, row := r } : CellM)))).2.col = adjRemT p.2.col rc oc ∧
          (p.2.row ≥ rr ∧ or_ ≠ 0 → or_ ≤ p.2.row) ∧ (p.2.col ≥ rc ∧ oc ≠ 0 → oc ≤ p.2.col) := by
        intro p hp
        have hok' := hcellsok p hp
        cases hc : adjRem p.2.col rc oc with
        | panic => rw [hc] at hok'; simp [Res.bind] at hok'
        | ok c =>
          cases hr : adjRem p.2.row rr or_ with
          | panic => rw [hc, hr] at hok'; simp [Res.bind] at hok'
          | ok r =>
            obtain ⟨e1, e2⟩ := adjRem_ok hc
            obtain ⟨e3, e4⟩ := adjRem_ok hr
            refine ⟨?_, ?_, e4, e2⟩ <;> simp [Res.bind, Res.getD, e1, e3]
      rw [ecells]
      apply rebuild_coherent
      · -- distinct new coordinates
        rw [List.map_map, List.Nodup, List.pairwise_map]
        have hbase : (s.cells.filter (fun p => !(isRem p.2.col rc oc || isRem p.2.row rr or_))).Pairwise
            (fun a b => (a.2.row, a.2.col) ≠ (b.2.row, b.2.col)) := by
          apply List.Pairwise.filter
          have := h.nodup
          rw [keysOf, List.Nodup, List.pairwise_map] at this
          refine List.Pairwise.imp_of_mem ?_ this
          intro a b ha hb hne e
          apply hne
          have ca := h.coord a ha; have cb := h.coord b hb
          injection e with e1 e2
          exact Prod.ext (by rw [← ca.1, ← cb.1]; exact e1) (by rw [← ca.2, ← cb.2]; exact e2)
        refine List.Pairwise.imp_of_mem ?_ hbase
        intro a b ha hb hne
        obtain ⟨ar, ac, au1, au2⟩ := cellFact a ha
        obtain ⟨br, bc, bu1, bu2⟩ := cellFact b hb
        simp only [Function.comp, ar, ac, br, bc]
        have fa := (List.mem_filter.1 ha).2
        have fb := (List.mem_filter.1 hb).2
        simp only [Bool.not_eq_true', Bool.or_eq_false_iff] at fa fb
        intro e
        injection e with e1 e2
        apply hne
        have rowEq : a.2.row = b.2.row := adjRemT_inj_kept fa.2 fb.2 au1 bu1 e1
        have colEq : a.2.col = b.2.col := adjRemT_inj_kept fa.1 fb.1 au2 bu2 e2
        exact Prod.ext rowEq colEq
      · -- rows of surviving cells are in the new row table
        intro p hp
        obtain ⟨q, hq, e⟩ := List.mem_map.1 hp
        subst e
        obtain ⟨qr, _, qu1, _⟩ := cellFact q hq
        rw [qr]
        have hqs : q ∈ s.cells := (List.mem_filter.1 hq).1
        have hkn := h.rowKnown q.1 (List.mem_map.2 ⟨q, hqs, rfl⟩)
        rw [← (h.coord q hqs).1] at hkn
        have fq := (List.mem_filter.1 hq).2
        simp only [Bool.not_eq_true', Bool.or_eq_false_iff] at fq
        have hkn' : q.2.row ∈ s.rows.map (·.1) := hkn
        by_cases hor : or_ = 0
        · subst hor; rw [rsame rfl]; simp only [adjRemT, ne_eq, not_true_eq_false, and_false, if_false]; exact hkn'
        · rcases rshift _ hkn' with hz | hband | hmem
          · exact absurd hz hor
          · -- the row would be deleted although the cell survives: impossible
            exfalso
            have f2 := fq.2
            unfold isRem at f2
            by_cases hz : rr ≠ 0 ∧ or_ ≠ 0
            · rw [if_pos hz] at f2
              have : ¬ (q.2.row ≥ rr ∧ q.2.row < rr + or_) := by simpa using f2
              omega
            · have := qu1 ⟨hband.1, hor⟩; omega
          · exact hmem
      · exact rk
      · exact rnd

end Umya.Sheet
