/-
  Helper lemmas for `Umya/Thm/C20Wrap.lean`: the string-quote reader (`Umya/Spec/CsvWrap.lean`)
  run over the text written by the multi-character wrap model (`Umya/Model/CsvWrap.lean`).
-/
import Umya.Model.CsvWrap
import Umya.Spec.CsvWrap
namespace Umya.Lemmas.CsvWrap
open Umya.Csv Umya.Rfc4180

/-- `w` has no proper self-overlap: no shift `0 < p < |w|` lets `w` continue itself
    (equivalently: no proper non-empty prefix of `w` is also a suffix of `w`). -/
def Unbordered (w : Text) : Prop := ∀ p, 0 < p → p < w.length → ¬ (w.drop p <+: w)

theorem escAux_skip (w a t : Text) : escapeWAux w a.length (a ++ t) = a ++ escapeWAux w 0 t := by
  induction a with
  | nil => simp
  | cons c a ih => simp [escapeWAux, ih]

theorem escapeW_nil (w : Text) : escapeW w [] = [] := by simp [escapeW, escapeWAux]

theorem escapeW_match (w t : Text) (hne : w ≠ []) : escapeW w (w ++ t) = w ++ w ++ escapeW w t := by
  obtain ⟨c, w', rfl⟩ := List.exists_cons_of_ne_nil hne
  have hp : (c :: w').isPrefixOf (c :: (w' ++ t)) = true := by
    rw [List.isPrefixOf_iff_prefix]; exact ⟨t, rfl⟩
  simp only [escapeW, List.cons_append, escapeWAux, hp, if_true, List.length_cons, Nat.add_sub_cancel]
  rw [escAux_skip]
  simp

theorem escapeW_nomatch (w : Text) (c : Char) (cs : Text) (h : ¬ w <+: c :: cs) :
    escapeW w (c :: cs) = c :: escapeW w cs := by
  have hp : w.isPrefixOf (c :: cs) = false := by
    rw [← Bool.not_eq_true, List.isPrefixOf_iff_prefix]; exact h
  simp [escapeW, escapeWAux, hp]

theorem runW_skip (w : Text) (m : ModeW) (a t fld : Text) (rec : Record) (out : List Record) :
    runW w m a.length fld rec out (a ++ t) = runW w m 0 fld rec out t := by
  induction a with
  | nil => simp
  | cons c a ih => simp [runW, ih]

/-- the border lemma -/
theorem prefix_of_shifted (w a t : Text) (hub : Unbordered w) (ha : a ≠ []) (h : w <+: a ++ (w ++ t)) : w <+: a := by
  by_cases hl : w.length ≤ a.length
  · exact List.prefix_of_prefix_length_le h (List.prefix_append a (w ++ t)) hl
  · exfalso
    have hl' : a.length ≤ w.length := by omega
    have haw : a <+: w := List.prefix_of_prefix_length_le (List.prefix_append a (w ++ t)) h hl'
    obtain ⟨s, hs⟩ := haw
    have h1 : a ++ s <+: a ++ (w ++ t) := by rw [hs]; exact h
    have h2 : s <+: w ++ t := (List.prefix_append_right_inj a).mp h1
    have hsl : s.length ≤ w.length := by rw [← hs]; simp
    have h3 : s <+: w := List.prefix_of_prefix_length_le h2 (List.prefix_append w t) hsl
    have hd : w.drop a.length = s := by rw [← hs]; simp
    have hpos : 0 < a.length := List.length_pos_iff.mpr ha
    exact hub a.length hpos (by omega) (hd ▸ h3)

/-- the escaped text followed by the closing quote begins with a prefix of the value followed by `w` -/
theorem esc_shape (w : Text) (hne : w ≠ []) (v : Text) : ∃ a t, escapeW w v ++ w = a ++ (w ++ t) ∧ a <+: v := by
  induction v with
  | nil => exact ⟨[], [], by simp [escapeW_nil], List.nil_prefix⟩
  | cons c cs ih =>
    by_cases hp : w <+: c :: cs
    · obtain ⟨t0, ht0⟩ := hp
      refine ⟨[], w ++ escapeW w t0 ++ w, ?_, List.nil_prefix⟩
      rw [← ht0, escapeW_match w t0 hne]; simp
    · obtain ⟨a, t, h1, h2⟩ := ih
      refine ⟨c :: a, t, ?_, ?_⟩
      · rw [escapeW_nomatch w c cs hp]; simp [h1]
      · exact List.cons_prefix_cons.mpr ⟨rfl, h2⟩

theorem no_false_quote (w : Text) (hne : w ≠ []) (hub : Unbordered w) (c : Char) (cs rest : Text)
    (h : ¬ w <+: c :: cs) : ¬ w <+: c :: (escapeW w cs ++ (w ++ rest)) := by
  intro hw
  obtain ⟨a, t, h1, h2⟩ := esc_shape w hne cs
  have e : c :: (escapeW w cs ++ (w ++ rest)) = (c :: a) ++ (w ++ (t ++ rest)) := by
    rw [← List.append_assoc, h1]; simp
  rw [e] at hw
  have := prefix_of_shifted w (c :: a) (t ++ rest) hub (by simp) hw
  exact h (this.trans (List.cons_prefix_cons.mpr ⟨rfl, h2⟩))


/-! ### reader steps -/

theorem ww_prefix_iff (w t : Text) : (w ++ w) <+: (w ++ t) ↔ w <+: t := by
  rw [List.prefix_append_right_inj]

theorem run_start (w : Text) (hne : w ≠ []) (t fld : Text) (rec : Record) (out : List Record) :
    runW w .start 0 fld rec out (w ++ t) = runW w .quoted 0 [] rec out t := by
  obtain ⟨c, w', rfl⟩ := List.exists_cons_of_ne_nil hne
  have hp : (c :: w').isPrefixOf (c :: (w' ++ t)) = true := by
    rw [List.isPrefixOf_iff_prefix]; exact ⟨t, rfl⟩
  simp only [List.cons_append, runW, hp, if_true, List.length_cons, Nat.add_sub_cancel]
  exact runW_skip _ _ w' t _ _ _

theorem run_close (w : Text) (hne : w ≠ []) (t fld : Text) (rec : Record) (out : List Record)
    (h : ¬ w <+: t) : runW w .quoted 0 fld rec out (w ++ t) = runW w .after 0 fld rec out t := by
  have h2 : ¬ (w ++ w) <+: (w ++ t) := by rw [ww_prefix_iff]; exact h
  obtain ⟨c, w', rfl⟩ := List.exists_cons_of_ne_nil hne
  have hp : (c :: w').isPrefixOf (c :: (w' ++ t)) = true := by
    rw [List.isPrefixOf_iff_prefix]; exact ⟨t, rfl⟩
  have hp2 : ((c :: w') ++ (c :: w')).isPrefixOf (c :: (w' ++ t)) = false := by
    rw [← Bool.not_eq_true, List.isPrefixOf_iff_prefix]; exact h2
  simp only [List.cons_append] at hp2
  simp only [List.cons_append, runW, hp, hp2, if_true, List.length_cons, Nat.add_sub_cancel]
  exact runW_skip _ _ w' t _ _ _

theorem run_esc (w : Text) (hne : w ≠ []) (t fld : Text) (rec : Record) (out : List Record) :
    runW w .quoted 0 fld rec out (w ++ (w ++ t)) = runW w .quoted 0 (fld ++ w) rec out t := by
  obtain ⟨c, w', rfl⟩ := List.exists_cons_of_ne_nil hne
  have hp2 : ((c :: w') ++ (c :: w')).isPrefixOf (c :: (w' ++ (c :: (w' ++ t)))) = true := by
    rw [List.isPrefixOf_iff_prefix]; exact ⟨t, by simp⟩
  simp only [List.cons_append] at hp2
  simp only [List.cons_append, runW, hp2, if_true, List.length_cons]
  have hl : w'.length + 1 + (w'.length + 1) - 1 = (w' ++ c :: w').length := by simp; omega
  have ht : w' ++ c :: (w' ++ t) = (w' ++ c :: w') ++ t := by simp
  rw [hl, ht]
  exact runW_skip _ _ (w' ++ c :: w') t _ _ _

theorem run_char (w : Text) (c : Char) (cs fld : Text) (rec : Record) (out : List Record)
    (h : ¬ w <+: c :: cs) : runW w .quoted 0 fld rec out (c :: cs) = runW w .quoted 0 (fld ++ [c]) rec out cs := by
  have hp : w.isPrefixOf (c :: cs) = false := by
    rw [← Bool.not_eq_true, List.isPrefixOf_iff_prefix]; exact h
  have hp2 : (w ++ w).isPrefixOf (c :: cs) = false := by
    rw [← Bool.not_eq_true, List.isPrefixOf_iff_prefix]
    exact fun h2 => h ((List.prefix_append w w).trans h2)
  simp [runW, hp, hp2]

/-- the inside of one escaped field -/
theorem run_escaped (w : Text) (hne : w ≠ []) (hub : Unbordered w) (n : Nat) :
    ∀ (v : Text), v.length = n → ∀ (fld rest : Text) (rec : Record) (out : List Record), ¬ w <+: rest →
      runW w .quoted 0 fld rec out (escapeW w v ++ (w ++ rest)) = runW w .after 0 (fld ++ v) rec out rest := by
  induction n using Nat.strongRecOn with
  | _ n ih =>
    intro v hv fld rest rec out hr
    cases v with
    | nil => rw [escapeW_nil]; simpa using run_close w hne rest fld rec out hr
    | cons c cs =>
      by_cases hp : w <+: c :: cs
      · obtain ⟨t0, ht0⟩ := hp
        have hlen : t0.length < n := by
          rw [← hv, ← ht0]
          have : 0 < w.length := List.length_pos_iff.mpr hne
          simp; omega
        rw [← ht0, escapeW_match w t0 hne]
        simp only [List.append_assoc]
        rw [run_esc w hne, ih t0.length hlen t0 rfl _ rest rec out hr]
        simp
      · rw [escapeW_nomatch w c cs hp, List.cons_append,
          run_char w c _ fld rec out (no_false_quote w hne hub c cs rest hp)]
        have hlen : cs.length < n := by rw [← hv]; simp
        rw [ih cs.length hlen cs rfl _ rest rec out hr]
        simp

theorem run_fieldW (w : Text) (hne : w ≠ []) (hub : Unbordered w) (v fld rest : Text) (rec : Record)
    (out : List Record) (hr : ¬ w <+: rest) :
    runW w .start 0 fld rec out (quotedW w v ++ rest) = runW w .after 0 v rec out rest := by
  unfold quotedW
  simp only [List.append_assoc]
  rw [run_start w hne, run_escaped w hne hub v.length v rfl [] rest rec out hr]
  simp


/-! ### rows -/

/-- what may follow a line break: nothing, or the next field's opening quote -/
def RestOk (w rest : Text) : Prop := rest = [] ∨ ∃ t, rest = w ++ t

theorem prefix_one (w : Text) (x : Char) (hne : w ≠ []) (h : w <+: [x]) : w = [x] := by
  match w, hne, h with
  | [a], _, h => simpa [List.cons_prefix_cons] using h
  | a :: b :: r, _, h => simp [List.cons_prefix_cons] at h

theorem prefix_two (w : Text) (x y : Char) (hne : w ≠ []) (h : w <+: [x, y]) : w = [x] ∨ w = [x, y] := by
  match w, hne, h with
  | [a], _, h => left; simpa [List.cons_prefix_cons] using h
  | [a, b], _, h => right; simpa [List.cons_prefix_cons] using h
  | a :: b :: c :: r, _, h => simp [List.cons_prefix_cons] at h

theorem not_prefix_comma (w : Text) (hne : w ≠ []) (hub : Unbordered w) (hc : w ≠ [',']) (t : Text) :
    ¬ w <+: ',' :: (w ++ t) := by
  intro h
  exact hc (prefix_one w ',' hne (prefix_of_shifted w [','] t hub (by simp) h))

theorem not_prefix_crlf (w : Text) (hne : w ≠ []) (hub : Unbordered w) (h1 : w ≠ ['\r']) (h2 : w ≠ ['\r', '\n'])
    (rest : Text) (hr : RestOk w rest) : ¬ w <+: '\r' :: '\n' :: rest := by
  intro h
  have : w <+: ['\r', '\n'] := by
    rcases hr with rfl | ⟨t, rfl⟩
    · exact h
    · exact prefix_of_shifted w ['\r', '\n'] t hub (by simp) h
  rcases prefix_two w '\r' '\n' hne this with e | e
  · exact h1 e
  · exact h2 e

theorem join_starts (tr : Bool) (w : Text) (row : List Text) (hne : row ≠ []) (rest : Text) :
    ∃ t, join [','] (row.map (renderFieldW tr w)) ++ rest = w ++ t := by
  match row, hne with
  | [v], _ => exact ⟨_, by simp only [List.map, join, renderFieldW, quotedW, List.append_assoc]; rfl⟩
  | v :: v2 :: r, _ => exact ⟨_, by simp only [List.map, join, renderFieldW, quotedW, List.append_assoc]; rfl⟩

def fv (tr : Bool) (v : Text) : Text := if tr then trim v else v

theorem run_rowW_aux (tr : Bool) (w : Text) (hne : w ≠ []) (hub : Unbordered w) (hc : w ≠ [','])
    (h1 : w ≠ ['\r']) (h2 : w ≠ ['\r', '\n']) (row : List Text) (hrow : row ≠ []) :
    ∀ (rec : Record) (out : List Record) (rest : Text), RestOk w rest →
      runW w .start 0 [] rec out (join [','] (row.map (renderFieldW tr w)) ++ '\r' :: '\n' :: rest)
        = runW w .start 0 [] [] (out ++ [rec ++ row.map (fv tr)]) rest := by
  induction row with
  | nil => exact absurd rfl hrow
  | cons v r ih =>
    intro rec out rest hr
    cases r with
    | nil =>
      simp only [List.map, join, renderFieldW]
      rw [run_fieldW w hne hub _ _ _ rec out (not_prefix_crlf w hne hub h1 h2 rest hr)]
      simp [runW, fv]
    | cons v2 r =>
      obtain ⟨t, ht⟩ := join_starts tr w (v2 :: r) (by simp) ('\r' :: '\n' :: rest)
      simp only [List.map, join, renderFieldW, List.append_assoc, List.cons_append, List.nil_append]
      simp only [List.map, renderFieldW] at ht
      rw [ht, run_fieldW w hne hub _ _ _ rec out (not_prefix_comma w hne hub hc t)]
      have := ih (by simp) (rec ++ [fv tr v]) out rest hr
      simp only [List.map, renderFieldW] at this
      rw [ht] at this
      simp only [runW, if_true]
      rw [fv] at this
      rw [this]
      simp [fv]

theorem run_rowsW (tr : Bool) (w : Text) (hne : w ≠ []) (hub : Unbordered w) (hc : w ≠ [','])
    (h1 : w ≠ ['\r']) (h2 : w ≠ ['\r', '\n']) (rows : List (List Text)) (hrows : ∀ r ∈ rows, r ≠ []) :
    ∀ out : List Record, runW w .start 0 [] [] out (rows.flatMap (renderRowW tr w))
      = some (out ++ rows.map (fun r => r.map (fv tr))) := by
  induction rows with
  | nil => intro out; simp [runW]
  | cons row rows ih =>
    intro out
    have hok : RestOk w (rows.flatMap (renderRowW tr w)) := by
      cases rows with
      | nil => left; rfl
      | cons r2 rows2 =>
        right
        obtain ⟨t, ht⟩ := join_starts tr w r2 (hrows r2 (by simp)) ('\r' :: '\n' :: rows2.flatMap (renderRowW tr w))
        exact ⟨t, by simp only [List.flatMap_cons, renderRowW, List.append_assoc, List.cons_append, List.nil_append]; exact ht⟩
    simp only [List.flatMap_cons, renderRowW, List.append_assoc, List.cons_append, List.nil_append]
    rw [run_rowW_aux tr w hne hub hc h1 h2 row (hrows row (by simp)) [] out _ hok,
      ih (fun r hr => hrows r (by simp [hr]))]
    simp


/-! ### the string-quote reader with a one-character string is a restriction of the RFC 4180 reader -/

theorem runW_refines (q : Char) (hc : q ≠ ',') (hr : q ≠ '\r') (n : Nat) :
    ∀ (s : Text), s.length ≤ n → ∀ (fld : Text) (rec : Record) (out r : List Record),
      (runW [q] .start 0 fld rec out s = some r → run ',' q .start [] rec out s = some r) ∧
      (runW [q] .quoted 0 fld rec out s = some r → run ',' q .quoted fld rec out s = some r) ∧
      (runW [q] .after 0 fld rec out s = some r → run ',' q .closing fld rec out s = some r) ∧
      (runW [q] .cr 0 fld rec out s = some r → run ',' q .cr fld rec out s = some r) := by
  induction n with
  | zero =>
    intro s hs fld rec out r
    have : s = [] := List.eq_nil_of_length_eq_zero (by omega)
    subst this
    refine ⟨?_, ?_, ?_, ?_⟩
    · simp only [runW, run]; split <;> simp
    · simp [runW]
    · simp [runW, run]
    · simp [runW]
  | succ n ih =>
    intro s hs fld rec out r
    cases s with
    | nil =>
      refine ⟨?_, ?_, ?_, ?_⟩
      · simp only [runW, run]; split <;> simp
      · simp [runW]
      · simp [runW, run]
      · simp [runW]
    | cons c cs =>
      have hcs : cs.length ≤ n := by simp at hs; omega
      refine ⟨?_, ?_, ?_, ?_⟩
      · -- start
        by_cases h : c = q
        · subst h
          simp only [runW, run, List.isPrefixOf_cons_cons, beq_self_eq_true, List.isPrefixOf_nil_left, Bool.and_self,
            if_true, List.length_cons, List.length_nil]
          exact (ih cs hcs [] rec out r).2.1
        · have : (q == c) = false := by simpa using fun e => h e.symm
          simp [runW, List.isPrefixOf_cons_cons, this]
      · -- quoted
        by_cases h : c = q
        · subst h
          cases cs with
          | nil => simp [runW, run, List.isPrefixOf]
          | cons d cs' =>
            have hcs' : cs'.length ≤ n := by simp at hcs; omega
            by_cases hd : d = c
            · subst hd
              simp only [runW, run, List.cons_append, List.nil_append, List.isPrefixOf_cons_cons, beq_self_eq_true,
                List.isPrefixOf_nil_left, Bool.and_self, if_true, List.length_cons, List.length_nil]
              exact (ih cs' hcs' (fld ++ [d]) rec out r).2.1
            · have hdq : (c == d) = false := by simpa using fun e => hd e.symm
              have := (ih (d :: cs') hcs fld rec out r).2.2.1
              simp only [runW, run, List.cons_append, List.nil_append, List.isPrefixOf_cons_cons, beq_self_eq_true,
                List.isPrefixOf_nil_left, hdq, Bool.and_false, Bool.false_and, Bool.and_self, if_true,
                List.length_cons, List.length_nil, Bool.false_eq_true, if_false]
              exact this
        · have hq : (q == c) = false := by simpa using fun e => h e.symm
          simp only [runW, run, List.cons_append, List.nil_append, List.isPrefixOf_cons_cons, hq, Bool.false_and,
            Bool.false_eq_true, if_false, h]
          exact (ih cs hcs (fld ++ [c]) rec out r).2.1
      · -- after / closing
        by_cases h1 : c = ','
        · subst h1
          have : ¬ (',' = q) := fun e => hc e.symm
          simp only [runW, run, this, if_true, if_false]
          exact (ih cs hcs [] (rec ++ [fld]) out r).1
        · by_cases h2 : c = '\r'
          · subst h2
            have : ¬ ('\r' = q) := fun e => hr e.symm
            simp only [runW, run, this, if_true, if_false, h1]
            exact (ih cs hcs fld rec out r).2.2.2
          · simp [runW, h1, h2]
      · -- cr
        by_cases h : c = '\n'
        · subst h
          simp only [runW, run, if_true]
          exact (ih cs hcs [] [] (out ++ [rec ++ [fld]]) r).1
        · simp [runW, h]


/-! ### what the reader has committed to: the first field of its result -/

/-- the first field of the result is fixed by the fields already completed, or extends the current one -/
def FirstField : ModeW → Text → Record → List Record → List Record → Prop
  | .start, _, rec, out, r => out.flatten ++ rec ≠ [] → r.flatten.head? = (out.flatten ++ rec).head?
  | .quoted, fld, rec, out, r => ∃ x, r.flatten.head? = (out.flatten ++ rec ++ [fld ++ x]).head?
  | .after, fld, rec, out, r => r.flatten.head? = (out.flatten ++ rec ++ [fld]).head?
  | .cr, fld, rec, out, r => r.flatten.head? = (out.flatten ++ rec ++ [fld]).head?

theorem head?_append_ne {α} (a b : List α) (h : a ≠ []) : (a ++ b).head? = a.head? := by
  cases a with
  | nil => exact absurd rfl h
  | cons x a => rfl

theorem runW_first (w : Text) : ∀ (s : Text) (m : ModeW) (k : Nat) (fld : Text) (rec : Record) (out r : List Record),
    runW w m k fld rec out s = some r → FirstField m fld rec out r := by
  intro s
  induction s with
  | nil =>
    intro m k fld rec out r h
    cases k with
    | succ k => simp [runW] at h
    | zero =>
      cases m with
      | start =>
        simp only [runW] at h
        split at h
        · rename_i he
          injection h with h; subst h
          have : rec = [] := by simpa using he
          subst this
          intro _; simp
        · cases h
      | quoted => simp [runW] at h
      | after =>
        simp only [runW] at h
        injection h with h; subst h
        simp [FirstField]
      | cr => simp [runW] at h
  | cons c cs ih =>
    intro m k fld rec out r h
    cases k with
    | succ k =>
      simp only [runW] at h
      have := ih m k fld rec out r h
      exact this
    | zero =>
      cases m with
      | start =>
        simp only [runW] at h
        split at h
        · obtain ⟨x, hx⟩ := ih .quoted _ [] rec out r h
          intro hpre
          rw [hx, head?_append_ne _ _ hpre]
        · cases h
      | quoted =>
        simp only [runW] at h
        split at h
        · obtain ⟨x, hx⟩ := ih .quoted _ (fld ++ w) rec out r h
          exact ⟨w ++ x, by rw [hx]; simp⟩
        · split at h
          · have := ih .after _ fld rec out r h
            exact ⟨[], by rw [this]; simp⟩
          · obtain ⟨x, hx⟩ := ih .quoted _ (fld ++ [c]) rec out r h
            exact ⟨c :: x, by rw [hx]; simp⟩
      | after =>
        simp only [runW] at h
        split at h
        · have := ih .start 0 [] (rec ++ [fld]) out r h (by simp)
          show r.flatten.head? = _
          rw [this]; simp
        · split at h
          · exact ih .cr 0 fld rec out r h
          · cases h
      | cr =>
        simp only [runW] at h
        split at h
        · have := ih .start 0 [] [] (out ++ [rec ++ [fld]]) r h (by simp)
          show r.flatten.head? = _
          rw [this]; simp
        · cases h

theorem escapeW_short (w : Text) : ∀ v : Text, v.length < w.length → escapeW w v = v := by
  intro v
  induction v with
  | nil => intro _; exact escapeW_nil w
  | cons c cs ih =>
    intro h
    have hp : ¬ w <+: c :: cs := fun hp => by have := hp.length_le; omega
    rw [escapeW_nomatch w c cs hp, ih (by simp at h; omega)]

end Umya.Lemmas.CsvWrap
