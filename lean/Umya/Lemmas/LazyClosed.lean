/-
  C11: every relationship written resolves.  `RawRelationships::write_to` writes a relationships part BEFORE
  the parts it points to, so the invariant is two-phase: `ClosedMod w ex` = every target of every
  relationships part of `w` is in `w` or among the pending names `ex`.
-/
import Umya.Lemmas.Lazy
namespace Umya.Lazy

variable {C : Type}

def ClosedMod (w : WM C) (ex : List PName) : Prop :=
  ∀ n ts, (n, Content.relsOf ts) ∈ w.parts → ∀ t, some t ∈ ts → w.has t = true ∨ t ∈ ex

/-- every relationship of every relationships part points to a part that is there -/
def Closed (w : WM C) : Prop := ClosedMod w []

theorem mem_add {w : WM C} {n : PName} {c : Content C} {x : PName × Content C} (h : x ∈ (w.add n c).parts) :
    x ∈ w.parts ∨ x = (n, c) := by
  unfold WM.add at h
  split at h
  · exact Or.inl h
  · simp only [List.mem_append, List.mem_singleton] at h
    exact h

theorem closedMod_add (w : WM C) (ex : List PName) (n : PName) (c : Content C) (h : ClosedMod w ex)
    (hc : ∀ ts, c = .relsOf ts → ∀ t, some t ∈ ts → (w.add n c).has t = true ∨ t ∈ ex) :
    ClosedMod (w.add n c) ex := by
  intro m ts hm t ht
  rcases mem_add hm with h1 | h1
  · rcases h m ts h1 t ht with h2 | h2
    · exact Or.inl (add_has_mono _ _ _ _ h2)
    · exact Or.inr h2
  · have := (Prod.mk.inj h1).2
    exact hc ts this.symm t ht

theorem closedMod_weaken (w : WM C) (ex ex' : List PName) (h : ClosedMod w ex) (hs : ∀ t ∈ ex, t ∈ ex') :
    ClosedMod w ex' := by
  intro m ts hm t ht
  rcases h m ts hm t ht with h1 | h1
  · exact Or.inl h1
  · exact Or.inr (hs t h1)

theorem closed_of_mod (w : WM C) (ex : List PName) (h : ClosedMod w ex) (hp : ∀ t ∈ ex, w.has t = true) : Closed w := by
  intro m ts hm t ht
  rcases h m ts hm t ht with h1 | h1
  · exact Or.inl h1
  · exact Or.inl (hp t h1)

theorem closed_has {w : WM C} (h : Closed w) {n : PName} {ts : List (Option PName)} (hm : (n, Content.relsOf ts) ∈ w.parts)
    {t : PName} (ht : some t ∈ ts) : w.has t = true := by
  rcases h n ts hm t ht with h1 | h1
  · exact h1
  · simp at h1

/-- adding a part that is not a relationships part -/
theorem closedMod_add_plain (w : WM C) (ex : List PName) (n : PName) (c : Content C) (h : ClosedMod w ex)
    (hc : ∀ ts, c ≠ .relsOf ts) : ClosedMod (w.add n c) ex :=
  closedMod_add w ex n c h (fun ts e => absurd e (hc ts))

/-- in every external-or-not relationship the data is there: `RawFile::write_to` skips empty data -/
def RelsWritable (q : RawRels) : Prop := ∀ r ∈ q.rels, r.ext = false → r.empty = false

theorem filesFold_spec (ex : List PName) (l : List RawRel) (w0 : WM C) (h : ClosedMod w0 ex) :
    let w1 := l.foldl (fun w r => if r.empty then w else w.add r.file (.bytes r.cid)) w0
    ClosedMod w1 ex ∧ (∀ m, w0.has m = true → w1.has m = true) ∧ (∀ r ∈ l, r.empty = false → w1.has r.file = true) := by
  induction l generalizing w0 with
  | nil => exact ⟨h, fun _ hm => hm, by simp⟩
  | cons r rs ih =>
    simp only [List.foldl_cons]
    by_cases he : r.empty = true
    · simp only [he, if_true]
      obtain ⟨a, b, c⟩ := ih w0 h
      refine ⟨a, b, ?_⟩
      intro r' hr' hne
      rcases List.mem_cons.mp hr' with e | e
      · subst e; simp [he] at hne
      · exact c r' e hne
    · simp only [he]
      have h' : ClosedMod (w0.add r.file (.bytes r.cid)) ex := closedMod_add_plain _ _ _ _ h (by intro ts e; cases e)
      obtain ⟨a, b, c⟩ := ih _ h'
      refine ⟨a, fun m hm => b m (add_has_mono _ _ _ _ hm), ?_⟩
      intro r' hr' hne
      rcases List.mem_cons.mp hr' with e | e
      · subst e; exact b _ (add_has_self _ _ _)
      · exact c r' e hne

theorem writeRels_spec (w : WM C) (q : RawRels) (tgt : PName) (h : Closed w) (hq : RelsWritable q) :
    Closed (writeRels w q tgt) := by
  unfold writeRels
  split
  · exact h
  · let ex := q.rels.filterMap (fun r => if r.ext then none else some r.file)
    have h1 : ClosedMod (w.add tgt (.relsOf q.targets)) ex := by
      apply closedMod_add _ _ _ _ (closedMod_weaken w [] ex h (by simp))
      intro ts e t ht
      injection e with e
      subst e
      right
      simp only [RawRels.targets, List.mem_map] at ht
      obtain ⟨r, hr, hrt⟩ := ht
      simp only [ex, List.mem_filterMap]
      refine ⟨r, hr, ?_⟩
      split at hrt
      · cases hrt
      · rename_i hne; simp only [hne]; simpa using hrt
    obtain ⟨a, _, c⟩ := filesFold_spec ex q.rels _ h1
    apply closed_of_mod _ ex a
    intro t ht
    simp only [ex, List.mem_filterMap] at ht
    obtain ⟨r, hr, hrt⟩ := ht
    split at hrt
    · cases hrt
    · rename_i hne
      injection hrt with hrt
      subst hrt
      exact c r hr (hq r hr (by simpa using hne))

def RawWritable (r : RawSheet) : Prop := ∀ q ∈ r.closure, RelsWritable q

theorem foldl_closed {α} (f : WM C → α → WM C) (l : List α) (hf : ∀ w x, x ∈ l → Closed w → Closed (f w x)) (w : WM C)
    (h : Closed w) : Closed (l.foldl f w) := by
  induction l generalizing w with
  | nil => exact h
  | cons x xs ih =>
    simp only [List.foldl_cons]
    exact ih (fun w y hy => hf w y (List.mem_cons_of_mem _ hy)) _ (hf w x (List.mem_cons_self ..) h)

theorem writeRaw_closed (w : WM C) (p : Nat) (r : RawSheet) (h : Closed w) (hr : RawWritable r) : Closed (writeRaw w p r) := by
  unfold writeRaw
  apply foldl_closed
  · intro w q hq hw
    exact writeRels_spec w q _ hw (hr q hq)
  · exact closedMod_add_plain _ _ _ _ h (by intro ts e; cases e)

/-! ### parts written for deserialized sheets: targets first, then the relationships part -/

def LeafOk (l : Leaf) : Prop := ∀ n, l ≠ .missing n

theorem emitLeaf_spec (w : WM C) (l : Leaf) (hl : LeafOk l) (h : Closed w) :
    Closed (emitLeaf w l).1 ∧ ∀ t, (emitLeaf w l).2 = some t → (emitLeaf w l).1.has t = true := by
  cases l with
  | alloc f =>
    refine ⟨closedMod_add_plain _ _ _ _ h (by intro ts e; cases e), ?_⟩
    intro t ht
    simp only [emitLeaf, Option.some.injEq] at ht ⊢
    subst ht
    exact add_has_self _ _ _
  | fixed n =>
    refine ⟨closedMod_add_plain _ _ _ _ h (by intro ts e; cases e), ?_⟩
    intro t ht
    simp only [emitLeaf, Option.some.injEq] at ht ⊢
    subst ht
    exact add_has_self _ _ _
  | ext => exact ⟨h, by intro t ht; simp [emitLeaf] at ht⟩
  | missing n => exact absurd rfl (hl n)

theorem emitLeaves_spec (ls : List Leaf) (w : WM C) (hl : ∀ l ∈ ls, LeafOk l) (h : Closed w) :
    Closed (emitLeaves w ls).1 ∧ ∀ t, some t ∈ (emitLeaves w ls).2 → (emitLeaves w ls).1.has t = true := by
  induction ls generalizing w with
  | nil => exact ⟨h, by simp [emitLeaves]⟩
  | cons l ls ih =>
    simp only [emitLeaves]
    obtain ⟨a, b⟩ := emitLeaf_spec w l (hl l (List.mem_cons_self ..)) h
    obtain ⟨c, d⟩ := ih (emitLeaf w l).1 (fun l' hl' => hl l' (List.mem_cons_of_mem _ hl')) a
    refine ⟨c, ?_⟩
    intro t ht
    rcases List.mem_cons.mp ht with e | e
    · exact (emitLeaves_ext (fun _ => True) (fun _ _ => trivial) ls _ (fun _ _ => trivial)).has_mono t (b t e.symm)
    · exact d t e

def ItemOk : Item → Prop
  | .leaf l => LeafOk l
  | .node _ kids => ∀ l ∈ kids, LeafOk l

theorem emitItem_spec (w : WM C) (x : Item) (hx : ItemOk x) (h : Closed w) :
    Closed (emitItem w x).1 ∧ ∀ t, (emitItem w x).2 = some t → (emitItem w x).1.has t = true := by
  cases x with
  | leaf l => exact emitLeaf_spec w l hx h
  | node f kids =>
    obtain ⟨a, b⟩ := emitLeaves_spec kids w hx h
    simp only [emitItem]
    have a2 : Closed ((emitLeaves w kids).1.add (.fam f ((emitLeaves w kids).1.firstFree f)) .gen) :=
      closedMod_add_plain _ _ _ _ a (by intro ts e; cases e)
    split
    · refine ⟨a2, ?_⟩
      intro t ht
      simp only [Option.some.injEq] at ht
      subst ht
      exact add_has_self _ _ _
    · refine ⟨?_, ?_⟩
      · apply closedMod_add _ _ _ _ a2
        intro ts e t ht
        injection e with e
        subst e
        exact Or.inl (add_has_mono _ _ _ _ (add_has_mono _ _ _ _ (b t ht)))
      · intro t ht
        simp only [Option.some.injEq] at ht
        subst ht
        exact add_has_mono _ _ _ _ (add_has_self _ _ _)

theorem emitItems_spec (xs : List Item) (w : WM C) (hx : ∀ x ∈ xs, ItemOk x) (h : Closed w) :
    Closed (emitItems w xs).1 ∧ ∀ t, some t ∈ (emitItems w xs).2 → (emitItems w xs).1.has t = true := by
  induction xs generalizing w with
  | nil => exact ⟨h, by simp [emitItems]⟩
  | cons x xs ih =>
    simp only [emitItems]
    obtain ⟨a, b⟩ := emitItem_spec w x (hx x (List.mem_cons_self ..)) h
    obtain ⟨c, d⟩ := ih (emitItem w x).1 (fun x' hx' => hx x' (List.mem_cons_of_mem _ hx')) a
    refine ⟨c, ?_⟩
    intro t ht
    rcases List.mem_cons.mp ht with e | e
    · exact (emitItems_ext (fun _ => True) (fun _ _ => trivial) (fun _ _ => trivial) xs _ (fun _ _ => trivial)).has_mono t (b t e.symm)
    · exact d t e

theorem emitSheet_closed (w : WM C) (p : Nat) (prof : Profile) (hx : ∀ x ∈ prof, ItemOk x) (h : Closed w) :
    Closed (emitSheet w p prof) := by
  obtain ⟨a, b⟩ := emitItems_spec prof w hx h
  unfold emitSheet
  simp only
  split
  · exact a
  · apply closedMod_add _ _ _ _ a
    intro ts e t ht
    injection e with e
    subst e
    exact Or.inl (add_has_mono _ _ _ _ (b t ht))

/-- what the theorem asks of a workbook: raw closures hold the data of their non-external targets; profiles name
    no part the serialiser fails to write -/
def SheetWritable (s : Sheet C) : Prop :=
  match s.body with
  | .raw r => RawWritable r
  | .loaded l => ∀ x ∈ l.prof, ItemOk x

theorem sheetStep_closed (w : WM C) (p : Nat) (s : Sheet C) (hs : SheetWritable s) (h : Closed w) :
    Closed (sheetStep false w p s) := by
  unfold sheetStep
  unfold SheetWritable at hs
  cases hb : s.body with
  | loaded l => exact closedMod_add_plain _ _ _ _ h (by intro ts e; cases e)
  | raw r =>
    simp only [hb] at hs
    simp only [Bool.false_eq_true, if_false]
    exact writeRaw_closed w p r h hs

theorem objStep_closed (w : WM C) (p : Nat) (s : Sheet C) (hs : SheetWritable s) (h : Closed w) :
    Closed (objStep w p s) := by
  unfold objStep
  unfold SheetWritable at hs
  cases hb : s.body with
  | loaded l =>
    simp only [hb] at hs
    exact emitSheet_closed w p l.prof hs h
  | raw r => exact h

theorem loop1_closed (ss : List (Sheet C)) (p : Nat) (w : WM C) (hs : ∀ s ∈ ss, SheetWritable s) (h : Closed w) :
    Closed (loop1 false w p ss) := by
  induction ss generalizing p w with
  | nil => exact h
  | cons s ss ih =>
    simp only [loop1]
    exact ih _ _ (fun s' hs' => hs s' (List.mem_cons_of_mem _ hs')) (sheetStep_closed w p s (hs s (List.mem_cons_self ..)) h)

theorem loop2_closed (ss : List (Sheet C)) (p : Nat) (w : WM C) (hs : ∀ s ∈ ss, SheetWritable s) (h : Closed w) :
    Closed (loop2 w p ss) := by
  induction ss generalizing p w with
  | nil => exact h
  | cons s ss ih =>
    simp only [loop2]
    exact ih _ _ (fun s' hs' => hs s' (List.mem_cons_of_mem _ hs')) (objStep_closed w p s (hs s (List.mem_cons_self ..)) h)

end Umya.Lazy
