/-
  C11: the package-consistency invariant (`Model/LazyPkg.lean`): what the reader's closure holds, that
  `lazyOpen` establishes `consistent`, and that no operation of a history creates or changes a raw sheet.
-/
import Umya.Model.LazyPkg
import Umya.Lemmas.Lazy
namespace Umya.Lazy

/-! ## `mapOpt` -/

theorem mapOpt_cons_some {α β} {f : α → Option β} {a : α} {as : List α} {l : List β} (h : mapOpt f (a :: as) = some l) :
    ∃ b bs, f a = some b ∧ mapOpt f as = some bs ∧ l = b :: bs := by
  simp only [mapOpt] at h
  cases hb : f a with
  | none => simp [hb] at h
  | some b =>
    cases hbs : mapOpt f as with
    | none => simp [hb, hbs] at h
    | some bs =>
      simp only [hb, hbs, Option.some.injEq] at h
      exact ⟨b, bs, rfl, rfl, h.symm⟩

theorem mapOpt_mem {α β} {f : α → Option β} : ∀ {l : List α} {bs : List β}, mapOpt f l = some bs →
    ∀ b ∈ bs, ∃ a ∈ l, f a = some b
  | [], bs, h, b, hb => by simp [mapOpt] at h; subst h; simp at hb
  | a :: as, bs, h, b, hb => by
    obtain ⟨b0, bs0, h1, h2, rfl⟩ := mapOpt_cons_some h
    rcases List.mem_cons.mp hb with e | e
    · subst e; exact ⟨a, List.mem_cons_self .., h1⟩
    · obtain ⟨a', ha', hf⟩ := mapOpt_mem h2 b e
      exact ⟨a', List.mem_cons_of_mem _ ha', hf⟩

theorem mapOpt_mem_src {α β} {f : α → Option β} : ∀ {l : List α} {bs : List β}, mapOpt f l = some bs →
    ∀ a ∈ l, ∃ b ∈ bs, f a = some b
  | [], _, _, a, ha => by simp at ha
  | a0 :: as, bs, h, a, ha => by
    obtain ⟨b0, bs0, h1, h2, rfl⟩ := mapOpt_cons_some h
    rcases List.mem_cons.mp ha with e | e
    · subst e; exact ⟨b0, List.mem_cons_self .., h1⟩
    · obtain ⟨b, hb, hf⟩ := mapOpt_mem_src h2 a e
      exact ⟨b, List.mem_cons_of_mem _ hb, hf⟩

/-! ## what the reader records -/

theorem readRelsPart_name {x : Pkg} {n : PName} {q : RawRels} (h : readRelsPart x n = some (some q)) : q.name = n := by
  unfold readRelsPart at h
  cases hp : x.get? n with
  | none => simp [hp] at h
  | some p =>
    simp only [hp] at h
    cases hm : mapOpt (readRel x) p.rels with
    | none => simp [hm] at h
    | some rs =>
      simp only [hm, Option.some.injEq] at h
      subst h; rfl

/-- every relationship recorded in a relationships part of `x`: external with no data, or the bytes of its
    target in `x` -/
theorem readRelsPart_rel {x : Pkg} {n : PName} {q : RawRels} (h : readRelsPart x n = some (some q)) :
    ∀ r ∈ q.rels, r = extRel ∨ (r.ext = false ∧ ∃ p, x.get? r.file = some p ∧ p.cid = r.cid ∧ p.empty = r.empty) := by
  unfold readRelsPart at h
  cases hp : x.get? n with
  | none => simp [hp] at h
  | some p =>
    simp only [hp] at h
    cases hm : mapOpt (readRel x) p.rels with
    | none => simp [hm] at h
    | some rs =>
      simp only [hm, Option.some.injEq] at h
      subst h
      intro r hr
      obtain ⟨e, _, he⟩ := mapOpt_mem hm r hr
      unfold readRel at he
      by_cases hx : e.ext = true
      · simp only [hx, if_true, Option.some.injEq] at he
        exact Or.inl he.symm
      · simp only [hx] at he
        cases hg : x.get? e.file with
        | none => simp [hg] at he
        | some p' =>
          simp only [hg, Bool.false_eq_true, if_false, Option.some.injEq] at he
          subst he
          exact Or.inr ⟨rfl, p', hg, rfl, rfl⟩

/-- the closure holds, under each name, exactly the relationships part of `x` with that name -/
theorem readClosure_sound (x : Pkg) : ∀ (fuel : Nat) (n : PName) (cl : List RawRels), readClosure x fuel n = some cl →
    ∀ q ∈ cl, readRelsPart x q.name = some (some q)
  | 0, _, _, h => by simp [readClosure] at h
  | fuel + 1, n, cl, h => by
    intro q hq
    simp only [readClosure] at h
    cases hr : readRelsPart x n with
    | none => simp [hr] at h
    | some o =>
      cases o with
      | none =>
        simp only [hr, Option.some.injEq] at h
        subst h; simp at hq
      | some q0 =>
        simp only [hr] at h
        cases hm : mapOpt (fun r => if r.ext then some [] else readClosure x fuel (.rels r.file)) q0.rels with
        | none => simp [hm] at h
        | some kids =>
          simp only [hm, Option.some.injEq] at h
          subst h
          rcases List.mem_append.mp hq with h1 | h1
          · obtain ⟨k, hk, hqk⟩ := List.mem_flatten.mp h1
            obtain ⟨r, _, hf⟩ := mapOpt_mem hm k hk
            by_cases hx : r.ext = true
            · simp only [hx, if_true, Option.some.injEq] at hf
              subst hf; simp at hqk
            · simp only [hx] at hf
              exact readClosure_sound x fuel _ k hf q hqk
          · simp only [List.mem_singleton] at h1
            subst h1
            rw [readRelsPart_name hr]; exact hr

/-- the sheet's own relationships part is the last entry of the closure; there is none iff `x` has none -/
theorem readClosure_top (x : Pkg) (fuel : Nat) (n : PName) (cl : List RawRels) (h : readClosure x fuel n = some cl) :
    (readRelsPart x n = some none ∧ cl = []) ∨ (∃ q0 kids, readRelsPart x n = some (some q0) ∧ cl = kids ++ [q0]) := by
  cases fuel with
  | zero => simp [readClosure] at h
  | succ fuel =>
    simp only [readClosure] at h
    cases hr : readRelsPart x n with
    | none => simp [hr] at h
    | some o =>
      cases o with
      | none =>
        simp only [hr, Option.some.injEq] at h
        exact Or.inl ⟨rfl, h.symm⟩
      | some q0 =>
        simp only [hr] at h
        cases hm : mapOpt (fun r => if r.ext then some [] else readClosure x fuel (.rels r.file)) q0.rels with
        | none => simp [hm] at h
        | some kids =>
          simp only [hm, Option.some.injEq] at h
          exact Or.inr ⟨q0, kids.flatten, rfl, h.symm⟩

/-- the closure is complete: the relationships part `x` has next to a non-external target of the closure is in it -/
theorem readClosure_complete (x : Pkg) : ∀ (fuel : Nat) (n : PName) (cl : List RawRels), readClosure x fuel n = some cl →
    ∀ q ∈ cl, ∀ r' ∈ q.rels, r'.ext = false →
      readRelsPart x (.rels r'.file) = some none ∨ ∃ q' ∈ cl, q'.name = .rels r'.file
  | 0, _, _, h => by simp [readClosure] at h
  | fuel + 1, n, cl, h => by
    intro q hq r' hr' hx
    simp only [readClosure] at h
    cases hr : readRelsPart x n with
    | none => simp [hr] at h
    | some o =>
      cases o with
      | none =>
        simp only [hr, Option.some.injEq] at h
        subst h; simp at hq
      | some q0 =>
        simp only [hr] at h
        cases hm : mapOpt (fun r => if r.ext then some [] else readClosure x fuel (.rels r.file)) q0.rels with
        | none => simp [hm] at h
        | some kids =>
          simp only [hm, Option.some.injEq] at h
          subst h
          rcases List.mem_append.mp hq with h1 | h1
          · obtain ⟨k, hk, hqk⟩ := List.mem_flatten.mp h1
            obtain ⟨r, _, hf⟩ := mapOpt_mem hm k hk
            by_cases hxr : r.ext = true
            · simp only [hxr, if_true, Option.some.injEq] at hf
              subst hf; simp at hqk
            · simp only [hxr] at hf
              rcases readClosure_complete x fuel _ k hf q hqk r' hr' hx with h2 | ⟨q', hq', hn'⟩
              · exact Or.inl h2
              · exact Or.inr ⟨q', List.mem_append_left _ (List.mem_flatten.mpr ⟨k, hk, hq'⟩), hn'⟩
          · simp only [List.mem_singleton] at h1
            subst h1
            obtain ⟨k, hk, hf⟩ := mapOpt_mem_src hm r' hr'
            simp only [hx, Bool.false_eq_true, if_false] at hf
            rcases readClosure_top x fuel _ k hf with ⟨a, _⟩ | ⟨q1, kids', a, b⟩
            · exact Or.inl a
            · right
              refine ⟨q1, List.mem_append_left _ (List.mem_flatten.mpr ⟨k, hk, by rw [b]; simp⟩), readRelsPart_name a⟩

theorem openRaw_spec {x : Pkg} {part : PName} {r : RawSheet} (h : openRaw x part = some r) :
    r.file = part ∧ (∃ p, x.get? part = some p ∧ p.cid = r.cid) ∧ readClosure x x.fuel (.rels part) = some r.closure := by
  unfold openRaw at h
  cases hp : x.get? part with
  | none => simp [hp] at h
  | some p =>
    simp only [hp] at h
    cases hc : readClosure x x.fuel (.rels part) with
    | none => simp [hc] at h
    | some cl =>
      simp only [hc, Option.map_some, Option.some.injEq] at h
      subst h
      exact ⟨rfl, ⟨p, rfl, rfl⟩, rfl⟩

/-! ## the invariant as a proposition -/

theorem mem_rawBodies {C : Type} {r : RawSheet} : ∀ {ss : List (Sheet C)}, r ∈ rawBodies ss ↔ ∃ s ∈ ss, s.body = .raw r
  | [] => by simp [rawBodies]
  | s :: ss => by
    simp only [rawBodies]
    cases hb : s.body with
    | raw r0 =>
      simp only [List.mem_cons, mem_rawBodies (ss := ss)]
      constructor
      · rintro (e | ⟨s', hs', hb'⟩)
        · subst e; exact ⟨s, Or.inl rfl, hb⟩
        · exact ⟨s', Or.inr hs', hb'⟩
      · rintro ⟨s', hs' | hs', hb'⟩
        · subst hs'; rw [hb] at hb'; injection hb' with e; exact Or.inl e.symm
        · exact Or.inr ⟨s', hs', hb'⟩
    | loaded l =>
      simp only [mem_rawBodies (ss := ss), List.mem_cons]
      constructor
      · rintro ⟨s', hs', hb'⟩; exact ⟨s', Or.inr hs', hb'⟩
      · rintro ⟨s', hs' | hs', hb'⟩
        · subst hs'; rw [hb] at hb'; cases hb'
        · exact ⟨s', hs', hb'⟩

/-- `Consistent x b`: the workbook's tables are those of `x`, and every sheet that is still raw holds exactly what
    the reader records for a sheet part of `x`, with a hygienic closure -/
def Consistent {C : Type} (x : Pkg) (b : Book C) : Prop := consistent x b = true

instance {C : Type} (x : Pkg) (b : Book C) : Decidable (Consistent x b) := by unfold Consistent; infer_instance

structure FromPkg (x : Pkg) (r : RawSheet) : Prop where
  sheetPart : r.file ∈ x.sheets.map (·.2)
  read : openRaw x r.file = some r
  hyg : hygienic r = true

theorem fromPkg_iff (x : Pkg) (r : RawSheet) : fromPkg x r = true ↔ FromPkg x r := by
  unfold fromPkg
  simp only [Bool.and_eq_true, List.contains_iff_mem, decide_eq_true_eq]
  constructor
  · rintro ⟨⟨a, b⟩, c⟩; exact ⟨a, b, c⟩
  · rintro ⟨a, b, c⟩; exact ⟨⟨a, b⟩, c⟩

theorem consistent_iff {C : Type} (x : Pkg) (b : Book C) :
    Consistent x b ↔ b.tables = x.tables ∧ ∀ s ∈ b.sheets, ∀ r, s.body = .raw r → FromPkg x r := by
  unfold Consistent consistent
  simp only [Bool.and_eq_true, decide_eq_true_eq, List.all_eq_true, fromPkg_iff]
  constructor
  · rintro ⟨ht, h⟩
    exact ⟨ht, fun s hs r hb => h r (mem_rawBodies.mpr ⟨s, hs, hb⟩)⟩
  · rintro ⟨ht, h⟩
    refine ⟨ht, fun r hr => ?_⟩
    obtain ⟨s, hs, hb⟩ := mem_rawBodies.mp hr
    exact h s hs r hb

/-! ## `lazyOpen` establishes it -/

theorem lazyOpen_spec {C : Type} {x : Pkg} {b : Book C} (h : lazyOpen x = some b) :
    b.tables = x.tables ∧ ∀ s ∈ b.sheets, ∃ e ∈ x.sheets, ∃ r, openRaw x e.2 = some r ∧ s = { name := e.1, body := .raw r } := by
  unfold lazyOpen at h
  cases hm : mapOpt (fun (e : Name × PName) => (openRaw x e.2).map (fun r => ({ name := e.1, body := .raw r } : Sheet C))) x.sheets with
  | none => simp [hm] at h
  | some ss =>
    simp only [hm, Option.map_some, Option.some.injEq] at h
    subst h
    refine ⟨rfl, ?_⟩
    intro s hs
    obtain ⟨e, he, hf⟩ := mapOpt_mem hm s hs
    cases ho : openRaw x e.2 with
    | none => simp [ho] at hf
    | some r =>
      simp only [ho, Option.map_some, Option.some.injEq] at hf
      exact ⟨e, he, r, ho, hf.symm⟩

theorem lazyOpen_consistent {C : Type} {x : Pkg} {b : Book C} (hx : pkgOk x = true) (h : lazyOpen x = some b) :
    Consistent x b := by
  obtain ⟨ht, hs⟩ := lazyOpen_spec h
  rw [consistent_iff]
  refine ⟨ht, ?_⟩
  intro s hs' r hb
  obtain ⟨e, he, r', hr', rfl⟩ := hs s hs'
  injection hb with hb
  subst hb
  have hf : r'.file = e.2 := (openRaw_spec hr').1
  refine ⟨?_, ?_, ?_⟩
  · rw [hf]; exact List.mem_map.mpr ⟨e, he, rfl⟩
  · rw [hf]; exact hr'
  · unfold pkgOk at hx
    have := List.all_eq_true.mp hx e he
    simpa [hr'] using this

/-! ## no operation creates or changes a raw sheet -/

theorem mem_modifyAt {α} (f : α → α) : ∀ (l : List α) (i : Nat) (y : α), y ∈ modifyAt f l i → y ∈ l ∨ ∃ z ∈ l, y = f z
  | [], _, y, h => by simp [modifyAt] at h
  | a :: as, 0, y, h => by
    simp only [modifyAt, List.mem_cons] at h
    rcases h with h | h
    · exact Or.inr ⟨a, List.mem_cons_self .., h⟩
    · exact Or.inl (List.mem_cons_of_mem _ h)
  | a :: as, i + 1, y, h => by
    simp only [modifyAt, List.mem_cons] at h
    rcases h with h | h
    · exact Or.inl (h ▸ List.mem_cons_self ..)
    · rcases mem_modifyAt f as i y h with h1 | ⟨z, hz, e⟩
      · exact Or.inl (List.mem_cons_of_mem _ h1)
      · exact Or.inr ⟨z, List.mem_cons_of_mem _ hz, e⟩

section steps
variable {C E : Type} (cd : Codec C E)

theorem materialise_raw (T : Tables) (s : Sheet C) (r : RawSheet) : (materialise cd T s).body ≠ .raw r := by
  have := materialise_notRaw cd T s
  intro h; simp [Sheet.isRaw, h] at this

theorem editSheet_raw (T : Tables) (e : E) (s : Sheet C) (r : RawSheet) : (editSheet cd T e s).body ≠ .raw r := by
  have := editSheet_notRaw cd T e s
  intro h; simp [Sheet.isRaw, h] at this

/-- every raw sheet after a step was a raw sheet, unchanged, before it -/
theorem step_raw_subset (b : Book C) (op : Op E) (s' : Sheet C) (r : RawSheet)
    (hs : s' ∈ (step cd b op).1.sheets) (hb : s'.body = .raw r) : ∃ s ∈ b.sheets, s.body = .raw r := by
  have viaMat : ∀ i, s' ∈ modifyAt (materialise cd b.tables) b.sheets i → ∃ s ∈ b.sheets, s.body = .raw r := by
    intro i h
    rcases mem_modifyAt _ _ _ _ h with h1 | ⟨z, _, e⟩
    · exact ⟨s', h1, hb⟩
    · subst e; exact absurd hb (materialise_raw cd _ _ _)
  cases op with
  | readSheet i =>
    by_cases h : i < b.sheets.length
    · simp only [step, h, if_true] at hs; exact viaMat i hs
    · simp only [step, h, if_false] at hs; exact ⟨s', hs, hb⟩
  | getMut i =>
    by_cases h : i < b.sheets.length
    · simp only [step, h, if_true] at hs; exact viaMat i hs
    · simp only [step, h, if_false] at hs; exact ⟨s', hs, hb⟩
  | byName n =>
    cases h : findName n b.sheets with
    | none => simp only [step, h] at hs; exact ⟨s', hs, hb⟩
    | some i => simp only [step, h] at hs; exact viaMat i hs
  | readAll =>
    simp only [step, List.mem_map] at hs
    obtain ⟨z, _, e⟩ := hs
    subst e; exact absurd hb (materialise_raw cd _ _ _)
  | edit i e =>
    by_cases h : i < b.sheets.length
    · simp only [step, h, if_true] at hs
      rcases mem_modifyAt _ _ _ _ hs with h1 | ⟨z, _, e'⟩
      · exact ⟨s', h1, hb⟩
      · subst e'; exact absurd hb (editSheet_raw cd _ _ _ _)
    · simp only [step, h, if_false] at hs; exact ⟨s', hs, hb⟩
  | newSheet n =>
    by_cases h : hasName n b.sheets = true
    · simp only [step, h, if_true] at hs; exact ⟨s', hs, hb⟩
    · simp only [step, h] at hs
      have hs := List.mem_append.mp hs
      simp only [List.mem_singleton] at hs
      rcases hs with h1 | h1
      · exact ⟨s', h1, hb⟩
      · subst h1; cases hb
  | removeSheet i =>
    by_cases h : i < b.sheets.length
    · simp only [step, h, if_true] at hs
      exact ⟨s', List.mem_of_mem_eraseIdx hs, hb⟩
    · simp only [step, h, if_false] at hs; exact ⟨s', hs, hb⟩
  | removeByName n =>
    by_cases h : hasName n b.sheets = true
    · simp only [step, h, if_true] at hs
      exact ⟨s', (List.mem_filter.mp hs).1, hb⟩
    · simp only [step, h] at hs; exact ⟨s', hs, hb⟩
  | setName i n =>
    by_cases h : hasName n b.sheets = true
    · simp only [step, h, if_true] at hs; exact ⟨s', hs, hb⟩
    · by_cases h' : i < b.sheets.length
      · simp only [step, h, h', if_true] at hs
        rcases mem_modifyAt _ _ _ _ hs with h1 | ⟨z, hz, e'⟩
        · exact ⟨s', h1, hb⟩
        · subst e'; exact ⟨z, hz, hb⟩
      · simp only [step, h, h', if_false] at hs; exact ⟨s', hs, hb⟩
  | wbEdit n e1 e2 =>
    simp only [step, List.mem_map] at hs
    obtain ⟨z, _, e⟩ := hs
    subst e
    split at hb
    · exact absurd hb (editSheet_raw cd _ _ _ _)
    · exact absurd hb (editSheet_raw cd _ _ _ _)

theorem step_consistent (x : Pkg) (b : Book C) (op : Op E) (h : Consistent x b) : Consistent x (step cd b op).1 := by
  rw [consistent_iff] at h ⊢
  refine ⟨by rw [step_tables]; exact h.1, ?_⟩
  intro s' hs' r hb
  obtain ⟨s, hs, hb'⟩ := step_raw_subset cd b op s' r hs' hb
  exact h.2 s hs r hb'

theorem run_consistent (x : Pkg) (b : Book C) (ops : List (Op E)) (h : Consistent x b) : Consistent x (run cd b ops) := by
  induction ops generalizing b with
  | nil => exact h
  | cons o os ih =>
    simp only [run, List.foldl_cons] at ih ⊢
    exact ih _ (step_consistent cd x b o h)

end steps

end Umya.Lazy
