import Umya.Lemmas.CellXml
import Umya.Thm.C17
namespace Umya.CellXml
open Umya.Xml Umya.Num Umya.Coord Umya.Dec Umya.InternC01

section
variable (F : NumFmt)

/-! ## which cells the round trip covers -/

/-- value kinds that survive: everything except a rich text without runs (an unresolved lazy value survives as
    the typed value `write_to` resolves it to, fix 6; a rich text under a formula survives since fix 5) -/
def rawOK : RawValue F.Num → Bool
  | .rich rs => !rs.isEmpty
  | _ => true

/-- resolving keeps a covered value covered: `guess_typed_data` never returns rich text -/
theorem rawOK_resolveRaw {r : RawValue F.Num} (h : rawOK F r = true) : rawOK F (resolveRaw F r) = true := by
  cases r with
  | lazy s =>
    show rawOK F (guess F s) = true
    rcases guess_cases F s with h | ⟨_, h⟩ | ⟨_, h⟩ | ⟨_, h⟩ | h <;> rw [h] <;> rfl
  | _ => exact h

def cellOK (c : Cell F.Num) : Bool :=
  decide (1 ≤ c.col ∧ c.col ≤ 16384 ∧ 1 ≤ c.row ∧ c.row ≤ 1048576) && rawOK F c.raw

/-- `sst` agrees with `tbl` on every index of `tbl` -/
def Extends (sst tbl : Table) : Prop := ∀ (i : Nat) (it : Item), tbl[i]? = some it → sst[i]? = some it

theorem Extends.trans_append {sst tbl ext : Table} (h : Extends sst (tbl ++ ext)) : Extends sst tbl :=
  fun i it hi => h i it (getElem?_append_left' hi)

theorem readF_write (fo : Option Text) : readF (fo.map partialEscape) = some fo := by
  cases fo <;> simp [readF, readText_false_partialEscape]

theorem readText_one : readText true (escape ['1']) = some ['1'] := by decide
theorem readText_zero : readText true (escape ['0']) = some ['0'] := by decide

/-- the shared-string branch: the index written resolves, in any table that extends the writer's,
    to the item registered -/
theorem sBranch (tbl : Table) (it : Item) (raw : RawValue F.Num) (fo : Option Text) (sst : Table)
    (hlen : sst.length < 18446744073709551616) (hext : Extends sst (intern tbl it).1) :
    (readText true (escape (decDigits (intern tbl it).2))).bind
      (fun sv => applyV F sst tS sv raw fo) = some (setSharedStringItem F it raw fo) := by
  have hres := (intern_spec tbl it).2
  have hs := hext _ _ hres
  have hlt : (intern tbl it).2 < sst.length := by
    rcases Nat.lt_or_ge (intern tbl it).2 sst.length with h | h
    · exact h
    · rw [List.getElem?_eq_none h] at hs; simp at hs
  rw [readText_true_escape _ (decDigits_ne_nil _) (decDigits_no_ws _)]
  have hp := parseUsize_decDigits (intern tbl it).2 (by omega)
  simp [applyV, tS, tSTR, hp, hs]

/-- value level: what `write_to` puts into `t=` and `<v>` for a value is read back as that value -/
theorem writeV_readV (hF : F.Sound) (tbl : Table) (raw : RawValue F.Num) (fo : Option Text)
    (hv : rawOK F raw = true) (hnl : raw.isLazy = false) (hne : ¬ (raw.isEmpty = true ∧ fo = none)) :
    (∃ ext, (writeV F tbl (dataTypeOf F raw fo) raw).1 = tbl ++ ext ∧ ∀ it ∈ ext, ItemOK it) ∧
    ∀ sst : Table, sst.length < 18446744073709551616 →
      Extends sst (writeV F tbl (dataTypeOf F raw fo) raw).1 →
      readV F sst (tAttrOf (dataTypeOf F raw fo)) (writeV F tbl (dataTypeOf F raw fo) raw).2 fo = some (raw, fo) := by
  cases raw with
  | empty =>
    cases fo with
    | none => exact absurd ⟨rfl, rfl⟩ hne
    | some f =>
      refine ⟨⟨[], by simp [writeV, RawValue.isEmpty], by simp⟩, ?_⟩
      intro sst _ _
      simp [writeV, RawValue.isEmpty, readV]
  | str s =>
    cases fo with
    | none =>
      have e : writeV F tbl (dataTypeOf F (.str s) none) (.str s)
          = ((intern tbl (itemOf F (.str s))).1, .text (escape (decDigits (intern tbl (itemOf F (.str s))).2))) := by
        simp [writeV, RawValue.isEmpty, dataTypeOf, RawValue.dataType]
      rw [e]
      obtain ⟨⟨ext, he, hx⟩, _⟩ := intern_spec tbl (itemOf F (.str s : RawValue F.Num))
      refine ⟨⟨ext, he, ?_⟩, ?_⟩
      · intro it hit; rw [hx it hit]; simp [ItemOK, itemOf, getRich]
      · intro sst hlen hext
        have := sBranch F tbl (itemOf F (.str s)) .empty none sst hlen hext
        simp only [readV, dataTypeOf, RawValue.dataType, tAttrOf, tS, tB, tSTR, tE] at this ⊢
        simpa [itemOf, getText, getRich, setSharedStringItem] using this
    | some f =>
      refine ⟨⟨[], by simp [writeV, RawValue.isEmpty, dataTypeOf, tS, tSTR], by simp⟩, ?_⟩
      intro sst _ _
      simp [writeV, RawValue.isEmpty, dataTypeOf, readV, tAttrOf, tS, tB, tSTR, tE, valueText,
        readText_false_partialEscape, applyV]
  | rich rs =>
    have hrs : rs ≠ [] := by
      intro e; subst e; simp [rawOK] at hv
    have hd : dataTypeOf F (.rich rs) fo = tS := by cases fo <;> rfl
    have e : writeV F tbl tS (.rich rs)
        = ((intern tbl (itemOf F (.rich rs))).1, .text (escape (decDigits (intern tbl (itemOf F (.rich rs))).2))) := by
      simp [writeV, RawValue.isEmpty]
    rw [hd, e]
    obtain ⟨⟨ext, he, hx⟩, _⟩ := intern_spec tbl (itemOf F (.rich rs : RawValue F.Num))
    refine ⟨⟨ext, he, ?_⟩, ?_⟩
    · intro it hit; rw [hx it hit]; simp [ItemOK, itemOf, getRich, hrs]
    · intro sst hlen hext
      have := sBranch F tbl (itemOf F (.rich rs)) .empty fo sst hlen hext
      simp only [readV, tAttrOf, tS, tB, tSTR, tE] at this ⊢
      simpa [itemOf, getText, getRich, setSharedStringItem] using this
  | num n =>
    have hd : dataTypeOf F (.num n) fo = tN := by cases fo <;> rfl
    rw [hd]
    refine ⟨⟨[], by simp [writeV, RawValue.isEmpty, tN, tS, tSTR, tB, tE], by simp⟩, ?_⟩
    intro sst _ _
    have hr := readText_true_partialEscape (F.fmt n) (hF.fmt_ne n) (fmt_no_ws F hF n)
    simp [writeV, RawValue.isEmpty, readV, tAttrOf, tN, tS, tB, tSTR, tE, valueText, hr, applyV, guess_fmt F hF n]
  | bool b =>
    have hd : dataTypeOf F (.bool b) fo = tB := by cases fo <;> rfl
    rw [hd]
    refine ⟨⟨[], by simp [writeV, RawValue.isEmpty, tN, tS, tSTR, tB, tE], by simp⟩, ?_⟩
    intro sst _ _
    cases b
    · have e : ¬ (upper (boolText false) = sTRUE) := by decide
      simp [writeV, RawValue.isEmpty, readV, tAttrOf, tS, tB, tSTR, tE, valueText, e, readText_zero, applyV]
    · have e : upper (boolText true) = sTRUE := by decide
      simp [writeV, RawValue.isEmpty, readV, tAttrOf, tS, tB, tSTR, tE, valueText, e, readText_one, applyV]
  | err e =>
    have hd : dataTypeOf F (.err e) fo = tE := by cases fo <;> rfl
    rw [hd]
    refine ⟨⟨[], by simp [writeV, RawValue.isEmpty, tN, tS, tSTR, tB, tE], by simp⟩, ?_⟩
    intro sst _ _
    have hr := readText_true_escape e.text (errText_ne_nil e) (errText_no_ws e)
    simp [writeV, RawValue.isEmpty, readV, tAttrOf, tS, tB, tSTR, tE, valueText, hr, applyV, guess_errText F e]
  | lazy s => simp [RawValue.isLazy] at hnl

/-- cell level, the body of `write_to` (value not lazy): a blank unstyled cell is not written; any other
    covered cell is written as one `<c>` that the reader turns back into the same cell (coordinate, kind, value,
    formula, styled), whatever later cells add to the string table -/
theorem writeCore_readCell (hF : F.Sound) (tbl : Table) (c : Cell F.Num) (hc : cellOK F c = true)
    (hnl : c.raw.isLazy = false) :
    ∃ tbl' ox, writeCore F tbl c = some (tbl', ox) ∧
      (∃ ext, tbl' = tbl ++ ext ∧ ∀ it ∈ ext, ItemOK it) ∧
      (blankCore F c = true → ox = none) ∧
      (blankCore F c = false → ∃ x, ox = some x ∧
        ∀ sst : Table, sst.length < 18446744073709551616 → Extends sst tbl' → readCell F sst x = some c) := by
  obtain ⟨col, row, raw, fo, styled⟩ := c
  simp only [cellOK, Bool.and_eq_true, decide_eq_true_eq] at hc
  obtain ⟨⟨hc1, hc2, hr1, hr2⟩, hv⟩ := hc
  obtain ⟨hco1, hco2⟩ := Umya.Thm.C17.C17_coord col row false false ⟨hc1, by omega⟩ (by omega)
  by_cases hb : blankCore F { col := col, row := row, raw := raw, formula := fo, styled := styled } = true
  · refine ⟨tbl, none, by simp [writeCore, hb], ⟨[], by simp, by simp⟩, fun _ => rfl, fun h => by simp [hb] at h⟩
  · have hb' : blankCore F { col := col, row := row, raw := raw, formula := fo, styled := styled } = false := by
      simpa using hb
    by_cases he : raw.isEmpty = true ∧ fo = none
    · -- `<c r= s= />`
      obtain ⟨he1, he2⟩ := he
      subst he2
      refine ⟨tbl, some { ref := coordinateFromIndexWithLock col row false false,
                          t := tAttrOf (dataTypeCrate F { col := col, row := row, raw := raw, formula := none, styled := styled }),
                          styled := styled }, ?_, ⟨[], by simp, by simp⟩, fun h => by simp [hb'] at h, fun _ => ⟨_, rfl, ?_⟩⟩
      · simp [writeCore, hb', hco1, he1]
      · intro sst _ _
        have hraw : raw = .empty := by cases raw <;> simp [RawValue.isEmpty] at he1 ⊢
        subst hraw
        simp [readCell, hco2, readF, readV, readIs]
    · obtain ⟨⟨ext, hext, hok⟩, hread⟩ := writeV_readV F hF tbl raw fo hv hnl he
      refine ⟨(writeV F tbl (dataTypeOf F raw fo) raw).1,
        some { ref := coordinateFromIndexWithLock col row false false, t := tAttrOf (dataTypeOf F raw fo), styled := styled,
               f := fo.map partialEscape, v := (writeV F tbl (dataTypeOf F raw fo) raw).2 }, ?_, ⟨ext, hext, hok⟩,
        fun h => by simp [hb'] at h, fun _ => ⟨_, rfl, ?_⟩⟩
      · simp [writeCore, hb', hco1, dataTypeCrate]
        intro h1 h2; exact absurd ⟨h1, h2⟩ he
      · intro sst hlen hx
        simp [readCell, hco2, readF_write, hread sst hlen hx, readIs]

theorem cellOK_resolved {c : Cell F.Num} (hc : cellOK F c = true) : cellOK F (Cell.resolved F c) = true := by
  simp only [cellOK, Bool.and_eq_true, decide_eq_true_eq] at hc ⊢
  exact ⟨hc.1, rawOK_resolveRaw F hc.2⟩

/-- cell level, `Cell::write_to` itself: what is written, and read back, is the cell with its value resolved
    (`Cell.resolved`: a lazy value as the typed value it stands for, every other cell unchanged) -/
theorem writeTo_readCell (hF : F.Sound) (tbl : Table) (c : Cell F.Num) (hc : cellOK F c = true) :
    ∃ tbl' ox, writeTo F tbl c = some (tbl', ox) ∧
      (∃ ext, tbl' = tbl ++ ext ∧ ∀ it ∈ ext, ItemOK it) ∧
      (blankUnstyled F c = true → ox = none) ∧
      (blankUnstyled F c = false → ∃ x, ox = some x ∧
        ∀ sst : Table, sst.length < 18446744073709551616 → Extends sst tbl' →
          readCell F sst x = some (Cell.resolved F c)) :=
  writeCore_readCell F hF tbl (Cell.resolved F c) (cellOK_resolved F hc) (resolveRaw_not_lazy F c.raw)

end

end Umya.CellXml
