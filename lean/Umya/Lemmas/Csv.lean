/-
  Helper lemmas for C20: how the RFC 4180 reader consumes what the CSV model writes.
-/
import Umya.Model.Csv
import Umya.Spec.Rfc4180
namespace Umya.Lemmas.Csv
open Umya.Csv Umya.Rfc4180

/-! ### the reader on an escaped field -/

theorem run_escape (d q : Char) (v fld : List Char) (rec : Record) (out : List Record) (rest : List Char) :
    run d q .quoted fld rec out (escape q v ++ q :: rest) = run d q .closing (fld ++ v) rec out rest := by
  induction v generalizing fld with
  | nil => simp [escape, run]
  | cons c v ih =>
    by_cases h : c = q
    · subst h
      have := ih (fld ++ [c])
      simp only [escape, List.flatMap_cons, if_true, List.cons_append, List.nil_append] at this ⊢
      simp only [run, if_true]
      rw [this]; simp
    · have := ih (fld ++ [c])
      simp only [escape, List.flatMap_cons, if_neg h, List.cons_append, List.nil_append] at this ⊢
      simp only [run, if_neg h]
      rw [this]; simp

theorem run_quoted (d q : Char) (v : List Char) (rec : Record) (out : List Record) (rest : List Char) :
    run d q .start [] rec out (quoted q v ++ rest) = run d q .closing v rec out rest := by
  have := run_escape d q v [] rec out rest
  simp only [quoted, List.cons_append, List.append_assoc, List.nil_append, run, if_true]
  simpa using this

/-! ### the reader on a non-escaped field -/

/-- no character of `v` is special for a reader with delimiter `d` and quote `q` -/
def Plain (d q : Char) (v : List Char) : Prop := ∀ c ∈ v, c ≠ q ∧ c ≠ d ∧ c ≠ '\r' ∧ c ≠ '\n'

theorem run_plain_plain (d q : Char) (v fld : List Char) (rec : Record) (out : List Record) (rest : List Char)
    (hv : Plain d q v) :
    run d q .plain fld rec out (v ++ rest) = run d q .plain (fld ++ v) rec out rest := by
  induction v generalizing fld with
  | nil => simp
  | cons c v ih =>
    have hc := hv c (by simp)
    have hv' : Plain d q v := fun x hx => hv x (by simp [hx])
    simp only [List.cons_append, run, if_neg hc.1, if_neg hc.2.1, if_neg hc.2.2.1, if_neg hc.2.2.2]
    rw [ih _ hv']; simp

/-- after a non-escaped field the reader is in `start` (empty field) or `plain` mode -/
theorem run_plain_start (d q : Char) (v : List Char) (rec : Record) (out : List Record) (rest : List Char)
    (hv : Plain d q v) :
    run d q .start [] rec out (v ++ rest) = run d q (if v = [] then .start else .plain) v rec out rest := by
  cases v with
  | nil => simp
  | cons c v =>
    have hc := hv c (by simp)
    have hv' : Plain d q v := fun x hx => hv x (by simp [hx])
    simp only [List.cons_append, run, if_neg hc.1, if_neg hc.2.1, if_neg hc.2.2.1, if_neg hc.2.2.2]
    rw [run_plain_plain _ _ _ _ _ _ _ hv']; simp

/-! ### field and record terminators -/

/-- the modes in which a field may end -/
def Ends (m : Mode) : Prop := m = .start ∨ m = .plain ∨ m = .closing

theorem run_delim (d q : Char) (m : Mode) (hm : Ends m) (hdq : d ≠ q) (fld : List Char) (rec : Record)
    (out : List Record) (rest : List Char) :
    run d q m fld rec out (d :: rest) = run d q .start [] (rec ++ [fld]) out rest := by
  rcases hm with h | h | h <;> subst h <;> simp [run, hdq]

theorem run_crlf (d q : Char) (m : Mode) (hm : Ends m) (hd : d ≠ '\r') (hq : q ≠ '\r') (fld : List Char)
    (rec : Record) (out : List Record) (rest : List Char) :
    run d q m fld rec out ('\r' :: '\n' :: rest) = run d q .start [] [] (out ++ [rec ++ [fld]]) rest := by
  have hd' : ¬ '\r' = d := fun h => hd h.symm
  have hq' : ¬ '\r' = q := fun h => hq h.symm
  rcases hm with h | h | h <;> subst h <;> simp [run, hd', hq']

end Umya.Lemmas.Csv

namespace Umya.Lemmas.Csv
open Umya.Csv Umya.Rfc4180

/-! ### one rendered field, one rendered row, all rows -/

/-- the quote character a reader has to be configured with: the wrap character, `"` if none -/
def quoteOf (o : Opts) : Char :=
  match o.wrap with
  | some q => q
  | none => '"'

theorem plain_of_not_needsQuote (v : Text) (h : needsQuote v = false) : Plain ',' '"' v := by
  intro c hc
  simp only [needsQuote, List.any_eq_false] at h
  have := h c hc
  simp only [Bool.or_eq_true, beq_iff_eq, not_or] at this
  exact ⟨this.1.1.2, this.1.1.1, this.1.2, this.2⟩

theorem run_field (o : Opts) (v : Text) (rec : Record) (out : List Record) :
    ∃ m, Ends m ∧ ∀ rest, run ',' (quoteOf o) .start [] rec out (renderField o v ++ rest)
        = run ',' (quoteOf o) m (fieldValue o v) rec out rest := by
  unfold renderField quoteOf
  cases hw : o.wrap with
  | some q =>
    exact ⟨.closing, Or.inr (Or.inr rfl), fun rest => by simpa using run_quoted ',' q _ rec out rest⟩
  | none =>
    by_cases hn : needsQuote (fieldValue o v) = true
    · exact ⟨.closing, Or.inr (Or.inr rfl), fun rest => by simpa [hn] using run_quoted ',' '"' _ rec out rest⟩
    · have hn' : needsQuote (fieldValue o v) = false := by simpa using hn
      have hp := plain_of_not_needsQuote _ hn'
      refine ⟨if fieldValue o v = [] then .start else .plain, ?_, fun rest => ?_⟩
      · by_cases h : fieldValue o v = [] <;> simp [h, Ends]
      · simpa [hn'] using run_plain_start ',' '"' _ rec out rest hp

/-- the fields the reader is expected to deliver for a row of cell values -/
def rowValues (o : Opts) (row : List Text) : List Text := row.map (fieldValue o)

theorem run_row_aux (o : Opts) (hq : quoteOf o ≠ ',') (hq2 : quoteOf o ≠ '\r') (row : List Text) (hne : row ≠ [])
    (rec : Record) (out : List Record) (rest : List Char) :
    run ',' (quoteOf o) .start [] rec out (join [','] (row.map (renderField o)) ++ '\r' :: '\n' :: rest)
      = run ',' (quoteOf o) .start [] [] (out ++ [rec ++ rowValues o row]) rest := by
  induction row generalizing rec with
  | nil => exact absurd rfl hne
  | cons v row ih =>
    obtain ⟨m, hm, hrun⟩ := run_field o v rec out
    cases row with
    | nil =>
      simp only [List.map_cons, List.map_nil, join, rowValues]
      rw [hrun, run_crlf ',' _ m hm (by decide) hq2]
    | cons w row =>
      have ih' := ih (by simp) (rec ++ [fieldValue o v])
      simp only [List.map_cons, join, rowValues, List.append_assoc, List.cons_append, List.nil_append] at ih' ⊢
      rw [hrun, run_delim ',' _ m hm (fun h => hq h.symm), ih']

theorem run_row (o : Opts) (hq : quoteOf o ≠ ',') (hq2 : quoteOf o ≠ '\r') (row : List Text) (hne : row ≠ [])
    (out : List Record) (rest : List Char) :
    run ',' (quoteOf o) .start [] [] out (renderRow o row ++ rest)
      = run ',' (quoteOf o) .start [] [] (out ++ [rowValues o row]) rest := by
  have := run_row_aux o hq hq2 row hne [] out rest
  simpa [renderRow] using this

theorem run_rows (o : Opts) (hq : quoteOf o ≠ ',') (hq2 : quoteOf o ≠ '\r') (rows : List (List Text))
    (hne : ∀ row ∈ rows, row ≠ []) (out : List Record) :
    run ',' (quoteOf o) .start [] [] out (rows.flatMap (renderRow o))
      = some (out ++ rows.map (rowValues o)) := by
  induction rows generalizing out with
  | nil => simp [run]
  | cons row rows ih =>
    simp only [List.flatMap_cons, List.map_cons]
    rw [run_row o hq hq2 row (hne row (by simp)), ih (fun r hr => hne r (by simp [hr]))]
    simp

end Umya.Lemmas.Csv
