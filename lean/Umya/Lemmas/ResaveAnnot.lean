/-
  Closure of the well-formedness predicates of the annotation codecs (tab colour, pane, sheet view) under their
  normal forms, and idempotence of `normTab`: what the second generation needs.
-/
import Umya.Lemmas.AnnotProt
import Umya.Lemmas.AnnotView
import Umya.Lemmas.AnnotPage
import Umya.Model.Coord
namespace Umya.AnnotProt
open Umya.AnnotCodec

/-- the hypotheses of `C06_tab_color_codec`, for an optional tab colour -/
def TabWF {Z : NumZ} (t : Option (Color Z)) : Prop :=
  ∀ c, t = some c → (∀ n, c.theme = some n → n < 4294967296) ∧ (∀ n, c.indexed = some n → n < 4294967296)

theorem Color.norm_isEmpty {Z : NumZ} (c : Color Z) : c.norm.isEmpty = c.isEmpty := by
  obtain ⟨ix, th, ar, ti⟩ := c
  cases th <;> cases ix <;> cases ar <;> cases ti <;> simp [Color.norm, Color.isEmpty]

theorem normTab_idem {Z : NumZ} (t : Option (Color Z)) : normTab (normTab t) = normTab t := by
  cases t with
  | none => rfl
  | some c =>
    cases he : c.isEmpty with
    | true => simp [normTab, he]
    | false => simp [normTab, he, Color.norm_isEmpty, Color.norm_idem]

theorem normTab_WF {Z : NumZ} (t : Option (Color Z)) (h : TabWF t) : TabWF (normTab t) := by
  cases t with
  | none => intro c hc; simp [normTab] at hc
  | some c =>
    obtain ⟨h1, h2⟩ := h c rfl
    intro d hd
    cases he : c.isEmpty with
    | true => simp [normTab, he] at hd
    | false =>
      simp only [normTab, he, Bool.false_eq_true, if_false, Option.some.injEq] at hd
      subst hd
      refine ⟨fun n hn => h1 n hn, fun n hn => ?_⟩
      simp only [Color.norm] at hn
      split at hn
      · cases hn
      · exact h2 n hn

/-- one save + load of the `<sheetPr>` tab colour -/
def tabRs {Z : NumZ} (t : Option (Color Z)) : Option (Option (Color Z)) := readSheetPr (writeSheetPr [] t)

theorem tabRs_eq {Z : NumZ} (hs : Z.F.Sound) (t : Option (Color Z)) (h : TabWF t) : tabRs t = some (normTab t) := by
  cases t with
  | none => rfl
  | some c => exact Color.read_writeTab hs c (h c rfl).1 (h c rfl).2

end Umya.AnnotProt

namespace Umya.AnnotView
open Umya.AnnotCodec

theorem Pane.norm_WF {Z : NumZ} (p : Pane Z) (h : p.WF) : p.norm.WF := h

theorem SheetView.norm_WF {Z : NumZ} (v : SheetView Z) (h : v.WF) : v.norm.WF := by
  obtain ⟨hp, hsel, h1, h2, h3, h4, h5⟩ := h
  refine ⟨?_, hsel, ?_, h2, h3, h4, h5⟩
  · intro p hp'
    simp only [SheetView.norm, Option.map_eq_some_iff] at hp'
    obtain ⟨q, hq, rfl⟩ := hp'
    exact hp q hq
  · intro n hn
    simp only [SheetView.norm, Option.some.injEq] at hn
    subst hn
    cases hw : v.workbookViewId with
    | none => simp
    | some w => simpa using h1 w hw

/-- one save + load of the pane, of one sheet view, of all views of a sheet -/
def paneRs {Z : NumZ} (p : Pane Z) : Option (Pane Z) := p.write.bind Pane.read
def selectionRs (s : Selection) : Option Selection := s.write.bind Selection.read
def viewRs {Z : NumZ} (v : SheetView Z) : Option (SheetView Z) := v.write.bind SheetView.read
def viewsRs {Z : NumZ} (vs : List (SheetView Z)) : Option (List (SheetView Z)) :=
  (writeViews vs).bind fun ns =>
    match ns with
    | [] => some []
    | n :: _ => readViews n

theorem paneRs_eq {Z : NumZ} (hs : Z.F.Sound) (p : Pane Z) (h : p.WF) : paneRs p = some p.norm := by
  obtain ⟨n, h1, h2⟩ := Pane.read_write hs p h
  simp [paneRs, h1, h2]

theorem selectionRs_eq (s : Selection) (h : s.WF) : selectionRs s = some s := by
  obtain ⟨n, h1, h2⟩ := Selection.read_write s h
  simp [selectionRs, h1, h2]

theorem viewRs_eq {Z : NumZ} (hs : Z.F.Sound) (v : SheetView Z) (h : v.WF) : viewRs v = some v.norm := by
  obtain ⟨n, h1, _, _, h2⟩ := SheetView.read_write hs v h
  simp [viewRs, h1, h2]

theorem viewsRs_eq {Z : NumZ} (hs : Z.F.Sound) (vs : List (SheetView Z)) (h : ∀ v ∈ vs, v.WF) :
    viewsRs vs = some (vs.map SheetView.norm) := by
  cases vs with
  | nil => rfl
  | cons v r =>
    obtain ⟨n, h1, h2⟩ := writeViews_readViews hs (v :: r) (by simp) h
    simp [viewsRs, h1, h2]

end Umya.AnnotView

namespace Umya.Resave
/-- a model result (`.panic` = a Rust panic) as an `Option` -/
def ofRes {α : Type} : Umya.Coord.Res α → Option α
  | .ok a => some a
  | .panic => none

@[simp] theorem ofRes_ok {α : Type} (a : α) : ofRes (Umya.Coord.Res.ok a) = some a := rfl
end Umya.Resave
