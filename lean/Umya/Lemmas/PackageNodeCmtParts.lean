/-
  Looking a part up by name (`Package.part?`) in the package of `Umya/Model/PackageNodeCmt.lean` (sheets that may
  carry comments), for every sheet number and every VML / comments number; the list of all its parts, classified.
-/
import Umya.Lemmas.PackageNodeCmtPath
import Umya.Lemmas.PackageNodeLookup
namespace Umya.PackageNode
open Umya.Xml Umya.CellXml Umya.CellNode Umya.SheetNode Umya.WorkbookNode Umya.Dec
open Umya.Spec.Xml (Node Attr)
open Umya.Spec.Sml
open Umya.AnnotComment (Comment writeVml writeComments)

/-- different sheets with comments have different VML numbers and different comments numbers -/
def NumsDistinct {α : Type} (an : List (α × Option (Nat × Nat))) : Prop :=
  an.Pairwise (fun a b => ∀ v w v' w', a.2 = some (v, w) → b.2 = some (v', w') → v ≠ v' ∧ w ≠ w')

theorem pairwise_zip_snd {α β : Type} (R : β → β → Prop) : ∀ (l1 : List α) (l2 : List β), l2.Pairwise R →
    (l1.zip l2).Pairwise (fun a b => R a.2 b.2) := by
  intro l1
  induction l1 with
  | nil => intro _ _; simp
  | cons a l1 ih =>
    intro l2 h
    cases l2 with
    | nil => simp
    | cons b l2 =>
      rw [List.zip_cons_cons]
      have hb := List.pairwise_cons.1 h
      refine List.Pairwise.cons ?_ (ih l2 hb.2)
      intro p hp
      exact hb.1 p.2 (List.of_mem_zip hp).2

theorem annotate_distinct {N : Type} (ss : List (SheetC N)) : NumsDistinct (annotate ss) := by
  unfold NumsDistinct annotate
  rw [numbering_nil]
  exact pairwise_zip_snd _ _ _ (numSpec_pairwise _ 0)

theorem annotate_length {N : Type} (ss : List (SheetC N)) : (annotate ss).length = ss.length := by
  unfold annotate
  rw [numbering_nil, List.length_zip, numSpec_length, List.length_map, Nat.min_self]

theorem annotate_fst {N : Type} (ss : List (SheetC N)) (i : Nat) (p : SheetC N × Option (Nat × Nat)) (h : (annotate ss)[i]? = some p) :
    ss[i]? = some p.1 := by
  unfold annotate at h
  rw [List.getElem?_zip_eq_some] at h
  exact h.1

theorem annotate_get {N : Type} (ss : List (SheetC N)) (i : Nat) (s : SheetC N) (h : ss[i]? = some s) :
    ∃ num, (annotate ss)[i]? = some (s, num) := by
  have hi : i < ss.length := by
    rcases Nat.lt_or_ge i ss.length with h' | h'
    · exact h'
    · rw [List.getElem?_eq_none h'] at h; cases h
  have : i < (annotate ss).length := by rw [annotate_length]; exact hi
  refine ⟨((annotate ss)[i]).2, ?_⟩
  have h2 := List.getElem?_eq_getElem this
  have h3 := annotate_fst ss i _ h2
  rw [h] at h3
  cases h3
  exact h2

/-! ## the VML and comments parts -/

section
variable {N : Type}

theorem cmtParts_names : ∀ (an : List (SheetC N × Option (Nat × Nat))) (cmt : List Part), cmtPartsC an = some cmt →
    ∀ part ∈ cmt, ∃ s v c, (s, some (v, c)) ∈ an ∧
      (part = xmlPart (vmlPartL v) (writeVml s.comments) ∨
       ∃ root, writeComments s.authors s.comments = some root ∧ part = xmlPart (commentsPartL c) root) := by
  intro an
  induction an with
  | nil => intro cmt h part hp; simp only [cmtPartsC, Option.some.injEq] at h; subst h; simp at hp
  | cons a an ih =>
    intro cmt h part hp
    obtain ⟨s, num⟩ := a
    cases num with
    | none =>
      simp only [cmtPartsC] at h
      obtain ⟨s', v, c, hm, hh⟩ := ih cmt h part hp
      exact ⟨s', v, c, List.mem_cons_of_mem _ hm, hh⟩
    | some vc =>
      obtain ⟨v, c⟩ := vc
      simp only [cmtPartsC] at h
      cases hw : writeComments s.authors s.comments with
      | none => rw [hw] at h; cases h
      | some root =>
        cases hr : cmtPartsC an with
        | none => rw [hw, hr] at h; cases h
        | some ps =>
          rw [hw, hr] at h
          simp only [Option.some.injEq] at h
          subst h
          rcases List.mem_cons.1 hp with rfl | hp
          · exact ⟨s, v, c, List.mem_cons_self, Or.inl rfl⟩
          rcases List.mem_cons.1 hp with rfl | hp
          · exact ⟨s, v, c, List.mem_cons_self, Or.inr ⟨root, hw, rfl⟩⟩
          · obtain ⟨s', v', c', hm, hh⟩ := ih ps hr part hp
            exact ⟨s', v', c', List.mem_cons_of_mem _ hm, hh⟩

theorem cmtParts_find_other (nm : List Char) (h1 : ∀ i, vmlPartL i ≠ nm) (h2 : ∀ i, commentsPartL i ≠ nm) :
    ∀ (an : List (SheetC N × Option (Nat × Nat))) (cmt : List Part), cmtPartsC an = some cmt →
    cmt.find? (fun x => x.name = String.ofList nm) = none := by
  intro an cmt h
  apply List.find?_eq_none.2
  intro part hp
  obtain ⟨s, v, c, _, hh⟩ := cmtParts_names an cmt h part hp
  rcases hh with rfl | ⟨root, _, rfl⟩
  · simp only [xmlPart, name_eq, decide_eq_true_eq]; exact h1 v
  · simp only [xmlPart, name_eq, decide_eq_true_eq]; exact h2 c

/-- the VML part with number `v` is the one of the sheet that was given `v` -/
theorem cmtParts_find_vml : ∀ (an : List (SheetC N × Option (Nat × Nat))) (cmt : List Part), cmtPartsC an = some cmt →
    NumsDistinct an → ∀ s v c, (s, some (v, c)) ∈ an →
    cmt.find? (fun x => x.name = String.ofList (vmlPartL v)) = some (xmlPart (vmlPartL v) (writeVml s.comments)) := by
  intro an
  induction an with
  | nil => intro cmt _ _ s v c hm; simp at hm
  | cons a an ih =>
    intro cmt h hd s v c hm
    obtain ⟨s0, num⟩ := a
    have hd' := List.pairwise_cons.1 hd
    cases num with
    | none =>
      simp only [cmtPartsC] at h
      rcases List.mem_cons.1 hm with he | hm
      · cases he
      · exact ih cmt h hd'.2 s v c hm
    | some vc =>
      obtain ⟨v0, c0⟩ := vc
      simp only [cmtPartsC] at h
      cases hw : writeComments s0.authors s0.comments with
      | none => rw [hw] at h; cases h
      | some root =>
        cases hr : cmtPartsC an with
        | none => rw [hw, hr] at h; cases h
        | some ps =>
          rw [hw, hr] at h
          simp only [Option.some.injEq] at h
          subst h
          rcases List.mem_cons.1 hm with he | hm
          · cases he; rw [find_cons_eq]
          · have hne := (hd'.1 _ hm v0 c0 v c rfl rfl).1
            rw [find_cons_ne _ _ _ _ (fun e => hne (vmlPartL_inj _ _ e)),
              find_cons_ne _ _ _ _ (fun e => vml_ne_comments v c0 e.symm)]
            exact ih ps hr hd'.2 s v c hm

/-- the comments part with number `c` is the one of the sheet that was given `c` -/
theorem cmtParts_find_comments : ∀ (an : List (SheetC N × Option (Nat × Nat))) (cmt : List Part), cmtPartsC an = some cmt →
    NumsDistinct an → ∀ s v c, (s, some (v, c)) ∈ an →
    ∃ root, writeComments s.authors s.comments = some root ∧
      cmt.find? (fun x => x.name = String.ofList (commentsPartL c)) = some (xmlPart (commentsPartL c) root) := by
  intro an
  induction an with
  | nil => intro cmt _ _ s v c hm; simp at hm
  | cons a an ih =>
    intro cmt h hd s v c hm
    obtain ⟨s0, num⟩ := a
    have hd' := List.pairwise_cons.1 hd
    cases num with
    | none =>
      simp only [cmtPartsC] at h
      rcases List.mem_cons.1 hm with he | hm
      · cases he
      · exact ih cmt h hd'.2 s v c hm
    | some vc =>
      obtain ⟨v0, c0⟩ := vc
      simp only [cmtPartsC] at h
      cases hw : writeComments s0.authors s0.comments with
      | none => rw [hw] at h; cases h
      | some root =>
        cases hr : cmtPartsC an with
        | none => rw [hw, hr] at h; cases h
        | some ps =>
          rw [hw, hr] at h
          simp only [Option.some.injEq] at h
          subst h
          rcases List.mem_cons.1 hm with he | hm
          · cases he
            refine ⟨root, hw, ?_⟩
            rw [find_cons_ne _ _ _ _ (vml_ne_comments v c), find_cons_eq]
          · have hne := (hd'.1 _ hm v0 c0 v c rfl rfl).2
            obtain ⟨root', hw', hf⟩ := ih ps hr hd'.2 s v c hm
            refine ⟨root', hw', ?_⟩
            rw [find_cons_ne _ _ _ _ (vml_ne_comments v0 c),
              find_cons_ne _ _ _ _ (fun e => hne (commentsPartL_inj _ _ e))]
            exact hf

end

/-! ## the sheet relationship parts -/

theorem relsPartsG_find_other (nm : List Char) (h : ∀ i, sheetRelsL i ≠ nm) : ∀ (L : List (List LinkW × List Node)) (k : Nat),
    (relsPartsG k L).find? (fun x => x.name = String.ofList nm) = none := by
  intro L
  induction L with
  | nil => intro _; rfl
  | cons p L ih =>
    intro k
    obtain ⟨ls, rest⟩ := p
    rw [relsPartsG, List.find?_append, ih]
    cases relsRoot ls rest with
    | none => rfl
    | some rr => simp only [find_cons_ne _ _ _ _ (h k)]; rfl

theorem relsPartsG_find_later (j : Nat) : ∀ (L : List (List LinkW × List Node)) (k' : Nat), j < k' →
    (relsPartsG k' L).find? (fun x => x.name = String.ofList (sheetRelsL j)) = none := by
  intro L
  induction L with
  | nil => intro _ _; rfl
  | cons p L ih =>
    intro k' hk'
    obtain ⟨ls, rest⟩ := p
    rw [relsPartsG, List.find?_append, ih (k' + 1) (by omega)]
    cases relsRoot ls rest with
    | none => rfl
    | some rr => simp only [find_cons_ne (sheetRelsL k') (sheetRelsL j) _ _ (fun e => by have := sheetRelsL_inj _ _ e; omega)]; rfl

theorem relsPartsG_find : ∀ (L : List (List LinkW × List Node)) (k j : Nat), k ≤ j →
    (relsPartsG k L).find? (fun x => x.name = String.ofList (sheetRelsL j)) =
      (L[j - k]?).bind (fun p => (relsRoot p.1 p.2).map (xmlPart (sheetRelsL j))) := by
  intro L
  induction L with
  | nil => intro _ _ _; rfl
  | cons p L ih =>
    intro k j hkj
    obtain ⟨ls, rest⟩ := p
    rw [relsPartsG, List.find?_append]
    by_cases hj : j = k
    · subst hj
      simp only [Nat.sub_self, List.getElem?_cons_zero, Option.bind_some]
      cases hrr : relsRoot ls rest with
      | some rr => simp only [find_cons_eq]; rfl
      | none =>
        simp only [List.find?_nil, Option.none_or, Option.map_none]
        exact relsPartsG_find_later j L (j + 1) (by omega)
    · have hne : sheetRelsL k ≠ sheetRelsL j := fun e => hj (sheetRelsL_inj _ _ e).symm
      have h2 : (List.find? (fun (x : Part) => decide (x.name = String.ofList (sheetRelsL j))) (relsPartsG (k + 1) L)) =
          ((ls, rest) :: L)[j - k]?.bind fun p => Option.map (xmlPart (sheetRelsL j)) (relsRoot p.1 p.2) := by
        rw [ih (k + 1) j (by omega)]
        have : j - k = (j - (k + 1)) + 1 := by omega
        rw [this, List.getElem?_cons_succ]
      cases relsRoot ls rest with
      | none => simpa using h2
      | some rr => simp only [find_cons_ne _ _ _ _ hne]; simpa using h2

theorem relsPartsG_names : ∀ (L : List (List LinkW × List Node)) (k : Nat) (part : Part), part ∈ relsPartsG k L →
    ∃ j p rr, k ≤ j ∧ L[j - k]? = some p ∧ relsRoot p.1 p.2 = some rr ∧ part = xmlPart (sheetRelsL j) rr := by
  intro L
  induction L with
  | nil => intro _ _ h; simp [relsPartsG] at h
  | cons p L ih =>
    intro k part h
    obtain ⟨ls, rest⟩ := p
    rw [relsPartsG] at h
    rcases List.mem_append.1 h with h | h
    · cases hrr : relsRoot ls rest with
      | none => rw [hrr] at h; simp at h
      | some rr =>
        rw [hrr] at h
        simp only [List.mem_singleton] at h
        exact ⟨k, (ls, rest), rr, by omega, by simp, hrr, h⟩
    · obtain ⟨j, p', rr, h1, h2, h3, h4⟩ := ih (k + 1) part h
      refine ⟨j, p', rr, by omega, ?_, h3, h4⟩
      have : j - k = (j - (k + 1)) + 1 := by omega
      rw [this, List.getElem?_cons_succ]; exact h2

/-! ## `Package.part?` on the assembled package -/

macro "fskipC" : tactic => `(tactic| rw [find_cons, if_neg (by first | decide | (intro e; simp [nApp, nCore, nRootRels, nTheme, nSst, nStyles, nWorkbookPart, nWorkbookRels, nContentTypes, sheetPartL, sheetRelsL, vmlPartL, commentsPartL] at e))])

section
variable (F : Umya.Num.NumFmt)

/-- the fixed parts at the head and at the tail of the list -/
def headC (b : BookC F.Num) : List Part := [xmlPart nApp b.app, xmlPart nCore b.core, xmlPart nRootRels rootRelsNode, xmlPart nTheme b.theme]
def tailC (b : BookC F.Num) (hs : Bool) : List Part :=
  [xmlPart nStyles b.styles,
   xmlPart nWorkbookPart (workbookNode b.wbFrame (b.sheets.map (·.entry)) b.names),
   xmlPart nWorkbookRels (workbookRelsNode b.sheets.length (wbRelsRest b.sheets.length hs)),
   xmlPart nContentTypes (contentTypesNodeC b.sheets.length hs (vmlNums (annotate b.sheets)) (cmtNums (annotate b.sheets)))]

theorem assembleC_eq (b : BookC F.Num) (hs : Bool) (roots : List Node) (cmt sst : List Part) :
    assembleC F b hs roots cmt sst =
      headC F b ++ sheetParts 1 roots ++ cmt ++ relsPartsG 1 (relsInput (annotate b.sheets)) ++ sst ++ tailC F b hs := rfl

theorem part_assembleC (b : BookC F.Num) (hs : Bool) (roots : List Node) (cmt sst : List Part) (nm : List Char) :
    (assembleC F b hs roots cmt sst).part? (String.ofList nm) =
      ((headC F b).find? (fun x => x.name = String.ofList nm)).or
       (((sheetParts 1 roots).find? (fun x => x.name = String.ofList nm)).or
        ((cmt.find? (fun x => x.name = String.ofList nm)).or
         (((relsPartsG 1 (relsInput (annotate b.sheets))).find? (fun x => x.name = String.ofList nm)).or
          ((sst.find? (fun x => x.name = String.ofList nm)).or
           ((tailC F b hs).find? (fun x => x.name = String.ofList nm)))))) := by
  simp only [assembleC_eq, Package.part?, List.find?_append, Option.or_assoc]

/-- the hypotheses under which the package was assembled -/
structure Built (b : BookC F.Num) (cmt : List Part) (tbl : Table) (sst : List Part) : Prop where
  cmt : cmtPartsC (annotate b.sheets) = some cmt
  sst : SstShape tbl sst

variable {F}

theorem part_closedC {b : BookC F.Num} {cmt : List Part} {tbl : Table} {sst : List Part} (hb : Built F b cmt tbl sst)
    (hs : Bool) (roots : List Node) (nm : List Char)
    (h1 : ∀ i, sheetPartL i ≠ nm) (h2 : ∀ i, sheetRelsL i ≠ nm) (h3 : nSst ≠ nm) (h4 : ∀ i, vmlPartL i ≠ nm) (h5 : ∀ i, commentsPartL i ≠ nm) :
    (assembleC F b hs roots cmt sst).part? (String.ofList nm) =
      ((headC F b).find? (fun x => x.name = String.ofList nm)).or ((tailC F b hs).find? (fun x => x.name = String.ofList nm)) := by
  rw [part_assembleC, sheetParts_find_other nm h1, cmtParts_find_other nm h4 h5 _ _ hb.cmt, relsPartsG_find_other nm h2,
    sst_find_other tbl sst hb.sst nm h3]
  simp only [Option.none_or]

variable {b : BookC F.Num} {cmt : List Part} {tbl : Table} {sst : List Part} (hb : Built F b cmt tbl sst) (hs : Bool) (roots : List Node)
include hb

theorem partC_rootRels : (assembleC F b hs roots cmt sst).part? (String.ofList nRootRels) = some (xmlPart nRootRels rootRelsNode) := by
  rw [part_closedC hb hs roots nRootRels (by intro i; simp [sheetPartL, nRootRels]) (by intro i; simp [sheetRelsL, nRootRels]) (by decide)
    (by intro i; simp [vmlPartL, nRootRels]) (by intro i; simp [commentsPartL, nRootRels])]
  unfold headC; fskipC; fskipC; fhit; rfl

theorem partC_app : (assembleC F b hs roots cmt sst).part? (String.ofList nApp) = some (xmlPart nApp b.app) := by
  rw [part_closedC hb hs roots nApp (by intro i; simp [sheetPartL, nApp]) (by intro i; simp [sheetRelsL, nApp]) (by decide)
    (by intro i; simp [vmlPartL, nApp]) (by intro i; simp [commentsPartL, nApp])]
  unfold headC; fhit; rfl

theorem partC_core : (assembleC F b hs roots cmt sst).part? (String.ofList nCore) = some (xmlPart nCore b.core) := by
  rw [part_closedC hb hs roots nCore (by intro i; simp [sheetPartL, nCore]) (by intro i; simp [sheetRelsL, nCore]) (by decide)
    (by intro i; simp [vmlPartL, nCore]) (by intro i; simp [commentsPartL, nCore])]
  unfold headC; fskipC; fhit; rfl

theorem partC_theme : (assembleC F b hs roots cmt sst).part? (String.ofList nTheme) = some (xmlPart nTheme b.theme) := by
  rw [part_closedC hb hs roots nTheme (by intro i; simp [sheetPartL, nTheme]) (by intro i; simp [sheetRelsL, nTheme]) (by decide)
    (by intro i; simp [vmlPartL, nTheme]) (by intro i; simp [commentsPartL, nTheme])]
  unfold headC; fskipC; fskipC; fskipC; fhit; rfl

theorem partC_styles : (assembleC F b hs roots cmt sst).part? (String.ofList nStyles) = some (xmlPart nStyles b.styles) := by
  rw [part_closedC hb hs roots nStyles (by intro i; simp [sheetPartL, nStyles]) (by intro i; simp [sheetRelsL, nStyles]) (by decide)
    (by intro i; simp [vmlPartL, nStyles]) (by intro i; simp [commentsPartL, nStyles])]
  unfold headC tailC; fskipC; fskipC; fskipC; fskipC; rw [List.find?_nil, Option.none_or]; fhit

theorem partC_workbook : (assembleC F b hs roots cmt sst).part? (String.ofList nWorkbookPart) =
    some (xmlPart nWorkbookPart (workbookNode b.wbFrame (b.sheets.map (·.entry)) b.names)) := by
  rw [part_closedC hb hs roots nWorkbookPart (by intro i; simp [sheetPartL, nWorkbookPart]) (by intro i; simp [sheetRelsL, nWorkbookPart]) (by decide)
    (by intro i; simp [vmlPartL, nWorkbookPart]) (by intro i; simp [commentsPartL, nWorkbookPart])]
  unfold headC tailC; fskipC; fskipC; fskipC; fskipC; rw [List.find?_nil, Option.none_or]; fskipC; fhit

theorem partC_workbookRels : (assembleC F b hs roots cmt sst).part? (String.ofList nWorkbookRels) =
    some (xmlPart nWorkbookRels (workbookRelsNode b.sheets.length (wbRelsRest b.sheets.length hs))) := by
  rw [part_closedC hb hs roots nWorkbookRels (by intro i; simp [sheetPartL, nWorkbookRels]) (by intro i; simp [sheetRelsL, nWorkbookRels]) (by decide)
    (by intro i; simp [vmlPartL, nWorkbookRels]) (by intro i; simp [commentsPartL, nWorkbookRels])]
  unfold headC tailC; fskipC; fskipC; fskipC; fskipC; rw [List.find?_nil, Option.none_or]; fskipC; fskipC; fhit

theorem partC_contentTypes : (assembleC F b hs roots cmt sst).part? (String.ofList nContentTypes) =
    some (xmlPart nContentTypes (contentTypesNodeC b.sheets.length hs (vmlNums (annotate b.sheets)) (cmtNums (annotate b.sheets)))) := by
  rw [part_closedC hb hs roots nContentTypes (by intro i; simp [sheetPartL, nContentTypes]) (by intro i; simp [sheetRelsL, nContentTypes]) (by decide)
    (by intro i; simp [vmlPartL, nContentTypes]) (by intro i; simp [commentsPartL, nContentTypes])]
  unfold headC tailC; fskipC; fskipC; fskipC; fskipC; rw [List.find?_nil, Option.none_or]; fskipC; fskipC; fskipC; fhit

theorem head_find_none (nm : List Char) (h : nm ∉ [nApp, nCore, nRootRels, nTheme]) :
    (headC F b).find? (fun x => x.name = String.ofList nm) = none := by
  simp only [List.mem_cons, List.not_mem_nil, or_false, not_or] at h
  unfold headC
  rw [find_cons, if_neg (Ne.symm h.1), find_cons, if_neg (Ne.symm h.2.1), find_cons, if_neg (Ne.symm h.2.2.1), find_cons, if_neg (Ne.symm h.2.2.2)]
  rfl

theorem tail_find_none (nm : List Char) (h : nm ∉ [nStyles, nWorkbookPart, nWorkbookRels, nContentTypes]) :
    (tailC F b hs).find? (fun x => x.name = String.ofList nm) = none := by
  simp only [List.mem_cons, List.not_mem_nil, or_false, not_or] at h
  unfold tailC
  rw [find_cons, if_neg (Ne.symm h.1), find_cons, if_neg (Ne.symm h.2.1), find_cons, if_neg (Ne.symm h.2.2.1), find_cons, if_neg (Ne.symm h.2.2.2)]
  rfl

theorem partC_sst : (assembleC F b hs roots cmt sst).part? (String.ofList nSst) = sst.head? := by
  rw [part_assembleC, sheetParts_find_other nSst (by intro i; simp [sheetPartL, nSst]),
    cmtParts_find_other nSst (by intro i; simp [vmlPartL, nSst]) (by intro i; simp [commentsPartL, nSst]) _ _ hb.cmt,
    relsPartsG_find_other nSst (by intro i; simp [sheetRelsL, nSst]),
    head_find_none hb nSst (by decide), tail_find_none hb hs nSst (by decide)]
  cases hb.sst with
  | absent _ => rfl
  | present root _ _ => simp only [Option.none_or, find_cons_eq]; rfl

theorem partC_sheet (k : Nat) (hk : 1 ≤ k) (root : Node) (hr : roots[k - 1]? = some root) :
    (assembleC F b hs roots cmt sst).part? (String.ofList (sheetPartL k)) = some (xmlPart (sheetPartL k) root) := by
  rw [part_assembleC, sheetParts_find roots 1 k hk, hr,
    head_find_none hb (sheetPartL k) (by simp [sheetPartL, nApp, nCore, nRootRels, nTheme])]
  rfl

theorem partC_sheetRels (k : Nat) (hk : 1 ≤ k) :
    (assembleC F b hs roots cmt sst).part? (String.ofList (sheetRelsL k)) =
      ((relsInput (annotate b.sheets))[k - 1]?).bind (fun p => (relsRoot p.1 p.2).map (xmlPart (sheetRelsL k))) := by
  rw [part_assembleC, sheetParts_find_other (sheetRelsL k) (fun i => sheetPart_ne_sheetRels i k),
    cmtParts_find_other (sheetRelsL k) (fun i e => sheetRels_ne_vml k i e.symm) (fun i e => sheetRels_ne_comments k i e.symm) _ _ hb.cmt,
    relsPartsG_find _ 1 k hk, sst_find_other tbl sst hb.sst _ (by simp [sheetRelsL, nSst]),
    head_find_none hb (sheetRelsL k) (by simp [sheetRelsL, nApp, nCore, nRootRels, nTheme]),
    tail_find_none hb hs (sheetRelsL k) (by simp [sheetRelsL, nStyles, nWorkbookPart, nWorkbookRels, nContentTypes])]
  simp

theorem partC_vml (s : SheetC F.Num) (v c : Nat) (hm : (s, some (v, c)) ∈ annotate b.sheets) :
    (assembleC F b hs roots cmt sst).part? (String.ofList (vmlPartL v)) = some (xmlPart (vmlPartL v) (writeVml s.comments)) := by
  rw [part_assembleC, sheetParts_find_other (vmlPartL v) (fun i => sheetPart_ne_vml i v),
    cmtParts_find_vml _ _ hb.cmt (annotate_distinct _) s v c hm,
    head_find_none hb (vmlPartL v) (by simp [vmlPartL, nApp, nCore, nRootRels, nTheme])]
  rfl

theorem partC_comments (s : SheetC F.Num) (v c : Nat) (hm : (s, some (v, c)) ∈ annotate b.sheets) :
    ∃ root, writeComments s.authors s.comments = some root ∧
      (assembleC F b hs roots cmt sst).part? (String.ofList (commentsPartL c)) = some (xmlPart (commentsPartL c) root) := by
  obtain ⟨root, hw, hf⟩ := cmtParts_find_comments _ _ hb.cmt (annotate_distinct _) s v c hm
  refine ⟨root, hw, ?_⟩
  rw [part_assembleC, sheetParts_find_other (commentsPartL c) (fun i => sheetPart_ne_comments i c), hf,
    head_find_none hb (commentsPartL c) (by simp [commentsPartL, nApp, nCore, nRootRels, nTheme])]
  rfl

/-- every part of the package, classified -/
theorem parts_classifiedC (part : Part) (h : part ∈ assembleC F b hs roots cmt sst) :
    (∃ nm r, part = xmlPart nm r ∧ nm ∈ [nApp, nCore, nRootRels, nTheme, nStyles, nWorkbookPart, nWorkbookRels, nContentTypes]) ∨
    (∃ r, tbl ≠ [] ∧ part = xmlPart nSst r) ∨
    (∃ j r, 1 ≤ j ∧ j < 1 + roots.length ∧ part = xmlPart (sheetPartL j) r) ∨
    (∃ j p rr, 1 ≤ j ∧ (relsInput (annotate b.sheets))[j - 1]? = some p ∧ relsRoot p.1 p.2 = some rr ∧ part = xmlPart (sheetRelsL j) rr) ∨
    (∃ s v c, (s, some (v, c)) ∈ annotate b.sheets ∧
      (part = xmlPart (vmlPartL v) (writeVml s.comments) ∨
       ∃ root, writeComments s.authors s.comments = some root ∧ part = xmlPart (commentsPartL c) root)) := by
  simp only [assembleC_eq, List.mem_append] at h
  rcases h with ((((h | h) | h) | h) | h) | h
  · simp only [headC, List.mem_cons, List.not_mem_nil, or_false] at h
    rcases h with rfl | rfl | rfl | rfl
    all_goals exact Or.inl ⟨_, _, rfl, by simp⟩
  · exact Or.inr (Or.inr (Or.inl (sheetParts_names roots 1 part h)))
  · exact Or.inr (Or.inr (Or.inr (Or.inr (cmtParts_names _ _ hb.cmt part h))))
  · exact Or.inr (Or.inr (Or.inr (Or.inl (relsPartsG_names _ 1 part h))))
  · cases hb.sst with
    | absent _ => simp at h
    | present root hne _ =>
      simp only [List.mem_singleton] at h
      exact Or.inr (Or.inl ⟨root, hne, h⟩)
  · simp only [tailC, List.mem_cons, List.not_mem_nil, or_false] at h
    rcases h with rfl | rfl | rfl | rfl
    all_goals exact Or.inl ⟨_, _, rfl, by simp⟩

end
end Umya.PackageNode
