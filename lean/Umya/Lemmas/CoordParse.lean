/-
  Parse-then-print for the coordinate and range codecs: every text of the canonical grammar
  (`Umya/Model/CoordCanon.lean`) IS the print of an in-bounds value, and every print of an in-bounds value is in the
  grammar.  With the print-then-parse theorems of `Umya/Thm/C17.lean` this gives both inverse laws.
-/
import Umya.Model.CoordCanon
import Umya.Thm.C17
namespace Umya.Coord
open Umya.Dec Umya.Thm.C17

/-! ### digits -/

theorem digitChar_toNat (d : Nat) (h : d < 10) : (digitChar d).toNat = 48 + d := by
  have : ∀ k : Fin 10, (digitChar k.val).toNat = 48 + k.val := by decide
  exact this ⟨d, h⟩

theorem digitChar_digitVal (c : Char) (h : isDigit c = true) : digitChar (digitVal c) = c := by
  simp only [isDigit, Bool.and_eq_true, decide_eq_true_eq] at h
  apply Char.toNat_inj.1
  rw [digitChar_toNat _ (by simp only [digitVal]; omega)]
  simp only [digitVal]; omega

theorem digitVal_lt (c : Char) (h : isDigit c = true) : digitVal c < 10 := by
  simp only [isDigit, Bool.and_eq_true, decide_eq_true_eq] at h
  simp only [digitVal]; omega

theorem digitVal_pos (c : Char) (h : isDigit c = true) (h0 : c ≠ '0') : 1 ≤ digitVal c := by
  simp only [isDigit, Bool.and_eq_true, decide_eq_true_eq] at h
  have : c.toNat ≠ 48 := by
    intro e; apply h0; apply Char.toNat_inj.1; rw [e]; rfl
  simp only [digitVal]; omega

theorem decDigits_lt10' (v : Nat) (h : v < 10) : decDigits v = [digitChar v] := by
  rw [decDigits]; simp [h]

theorem decDigits_ge10' (v : Nat) (h : 10 ≤ v) : decDigits v = decDigits (v / 10) ++ [digitChar (v % 10)] := by
  rw [decDigits]; simp [Nat.not_lt.mpr h]

/-- a non-empty digit string without a leading zero is the shortest decimal text of its value -/
theorem decDigits_parseDec_aux (n : Nat) : ∀ ds : List Char, ds.length = n + 1 → ds.all isDigit = true →
    ds.head? ≠ some '0' → decDigits (parseDec ds) = ds ∧ 1 ≤ parseDec ds := by
  induction n with
  | zero =>
    intro ds hl hd hh
    match ds, hl with
    | [c], _ =>
      simp only [List.all_cons, List.all_nil, Bool.and_true] at hd
      have hc0 : c ≠ '0' := by intro e; apply hh; simp [e]
      have hv : parseDec [c] = digitVal c := by simp [parseDec]
      rw [hv]
      exact ⟨by rw [decDigits_lt10' _ (digitVal_lt c hd), digitChar_digitVal c hd], digitVal_pos c hd hc0⟩
  | succ n ih =>
    intro ds hl hd hh
    have hne : ds ≠ [] := by intro e; subst e; simp at hl
    obtain ⟨xs, c, rfl⟩ : ∃ xs c, ds = xs ++ [c] := ⟨ds.dropLast, ds.getLast hne, (List.dropLast_concat_getLast hne).symm⟩
    have hxl : xs.length = n + 1 := by simp at hl; omega
    simp only [List.all_append, List.all_cons, List.all_nil, Bool.and_true, Bool.and_eq_true] at hd
    have hxh : xs.head? ≠ some '0' := by
      cases xs with
      | nil => simp at hxl
      | cons a r => simpa using hh
    obtain ⟨ih1, ih2⟩ := ih xs hxl hd.1 hxh
    have hc := digitVal_lt c hd.2
    rw [parseDec_append_single]
    refine ⟨?_, by omega⟩
    rw [decDigits_ge10' _ (by omega)]
    have e1 : (10 * parseDec xs + digitVal c) / 10 = parseDec xs := by omega
    have e2 : (10 * parseDec xs + digitVal c) % 10 = digitVal c := by omega
    rw [e1, e2, ih1, digitChar_digitVal c hd.2]

theorem canonDigits_spec (ds : List Char) (h : canonDigitsB ds = true) :
    parseDec ds < 4294967296 ∧ decDigits (parseDec ds) = ds := by
  simp only [canonDigitsB, Bool.and_eq_true, Bool.or_eq_true, decide_eq_true_eq, Bool.not_eq_true'] at h
  obtain ⟨⟨⟨hne, hd⟩, hz⟩, hb⟩ := h
  refine ⟨hb, ?_⟩
  rcases hz with rfl | hz
  · have : parseDec ['0'] = 0 := by decide
    rw [this, decDigits_lt10' 0 (by decide)]; rfl
  · cases ds with
    | nil => simp at hne
    | cons a r => exact (decDigits_parseDec_aux r.length (a :: r) rfl hd hz).1

theorem decDigits_head_ne_zero (n : Nat) (h : 1 ≤ n) : (decDigits n).head? ≠ some '0' := by
  induction n using Nat.strongRecOn with
  | _ n ih =>
    by_cases h10 : n < 10
    · rw [decDigits_lt10' n h10]
      have : ∀ k : Fin 10, 1 ≤ k.val → digitChar k.val ≠ '0' := by decide
      simpa using this ⟨n, h10⟩ h
    · rw [decDigits_ge10' n (by omega)]
      have := ih (n / 10) (by omega) (by omega)
      obtain ⟨c, r, hc, _⟩ : ∃ c r, decDigits (n / 10) = c :: r ∧ True := by
        cases hd : decDigits (n / 10) with
        | nil => exact absurd hd (decDigits_ne_nil _)
        | cons c r => exact ⟨c, r, rfl, trivial⟩
      rw [hc] at this ⊢
      simpa using this

theorem canonDigits_decDigits (n : Nat) (h : n < 4294967296) : canonDigitsB (decDigits n) = true := by
  simp only [canonDigitsB, Bool.and_eq_true, Bool.or_eq_true, decide_eq_true_eq, Bool.not_eq_true',
    decDigits_isEmpty, decDigits_all_digit, parseDec_decDigits, h, and_true, true_and]
  by_cases h0 : n = 0
  · subst h0; left; rw [decDigits_lt10' 0 (by decide)]; rfl
  · right; exact decDigits_head_ne_zero n (by omega)

/-! ### letters -/

theorem valRev_le3 (s : List Char) (hu : s.all isUpperAZ = true) (hl : s.length ≤ 3) : valRev s ≤ 18278 := by
  match s, hl with
  | [], _ => simp [valRev]
  | [a], _ =>
    simp only [List.all_cons, List.all_nil, Bool.and_true] at hu
    have := (isUpperAZ_iff a).1 hu
    simp only [valRev]; omega
  | [a, b], _ =>
    simp only [List.all_cons, List.all_nil, Bool.and_true, Bool.and_eq_true] at hu
    have := (isUpperAZ_iff a).1 hu.1
    have := (isUpperAZ_iff b).1 hu.2
    simp only [valRev]; omega
  | [a, b, c], _ =>
    simp only [List.all_cons, List.all_nil, Bool.and_true, Bool.and_eq_true] at hu
    have := (isUpperAZ_iff a).1 hu.1
    have := (isUpperAZ_iff b).1 hu.2.1
    have := (isUpperAZ_iff c).1 hu.2.2
    simp only [valRev]; omega

/-- 1–3 upper-case letters are the print of their own value, which lies in 1 … 18278 -/
theorem canonLetters_spec (ls : List Char) (h : canonLettersB ls = true) :
    1 ≤ valRev ls.reverse ∧ valRev ls.reverse ≤ 18278 ∧ indexToAlpha (valRev ls.reverse) = ls := by
  simp only [canonLettersB, Bool.and_eq_true, decide_eq_true_eq] at h
  obtain ⟨⟨h1, h3⟩, hu⟩ := h
  have hne : ls.reverse ≠ [] := by
    intro e; rw [List.reverse_eq_nil_iff] at e; subst e; simp at h1
  have hur : ls.reverse.all isUpperAZ = true := by simpa [List.all_reverse] using hu
  refine ⟨valRev_pos _ hne, valRev_le3 _ hur (by simpa using h3), ?_⟩
  simp only [indexToAlpha]
  rw [alphaRev_valRev ls.reverse hur hne, List.reverse_reverse]

theorem canonLetters_indexToAlpha (n : Nat) (h : 1 ≤ n ∧ n ≤ 18278) : canonLettersB (indexToAlpha n) = true := by
  simp only [canonLettersB, Bool.and_eq_true, decide_eq_true_eq, indexToAlpha_upper, and_true]
  simp only [indexToAlpha, List.length_reverse]
  exact ⟨alphaRev_length_pos _, alphaRev_length_le3 _ (by omega)⟩

/-! ### `stripDollar` -/

theorem stripDollar_eq (s : List Char) : s = dollar (stripDollar s).1 ++ (stripDollar s).2 := by
  unfold stripDollar
  split <;> simp [dollar]

theorem stripDollar_dollar (b : Bool) (r : List Char) (h : r.head? ≠ some '$') :
    stripDollar (dollar b ++ r) = (b, r) := by
  cases b
  · simp only [dollar, Bool.false_eq_true, if_false, List.nil_append]
    unfold stripDollar
    split
    · rename_i r' ; simp at h
    · rfl
  · simp [dollar, stripDollar]

/-! ### the three kinds of part -/

theorem canonCol_spec (s : List Char) (h : canonColB s = true) :
    ∃ c : Ref, (1 ≤ c.num ∧ c.num ≤ 18278) ∧ s = colRefText c := by
  obtain ⟨h1, h2, h3⟩ := canonLetters_spec _ h
  refine ⟨⟨valRev (stripDollar s).2.reverse, (stripDollar s).1⟩, ⟨h1, h2⟩, ?_⟩
  simp only [colRefText, h3]
  exact stripDollar_eq s

theorem canonRow_spec (s : List Char) (h : canonRowB s = true) :
    ∃ r : Ref, r.num < 4294967296 ∧ s = rowRefText r := by
  obtain ⟨h1, h2⟩ := canonDigits_spec _ h
  refine ⟨⟨parseDec (stripDollar s).2, (stripDollar s).1⟩, h1, ?_⟩
  simp only [rowRefText, h2]
  exact stripDollar_eq s

theorem canonCell_spec (s : List Char) (h : canonCellB s = true) :
    ∃ c r : Ref, (1 ≤ c.num ∧ c.num ≤ 18278) ∧ r.num < 4294967296 ∧ s = colRefText c ++ rowRefText r := by
  simp only [canonCellB, Bool.and_eq_true] at h
  obtain ⟨h1, h2, h3⟩ := canonLetters_spec _ h.1
  obtain ⟨r, hr, hre⟩ := canonRow_spec _ h.2
  refine ⟨⟨valRev ((stripDollar s).2.takeWhile isUpperAZ).reverse, (stripDollar s).1⟩, r, ⟨h1, h2⟩, hr, ?_⟩
  simp only [colRefText, h3, ← hre, List.append_assoc, List.takeWhile_append_dropWhile]
  exact stripDollar_eq s

theorem indexToAlpha_head_ne_dollar (n : Nat) : (indexToAlpha n).head? ≠ some '$' := by
  obtain ⟨c, r, h, hu⟩ := indexToAlpha_head n
  rw [h]
  intro e
  have : c = '$' := by simpa using e
  subst this
  simp [isUpperAZ] at hu

theorem decDigits_head_ne_dollar (n : Nat) : (decDigits n).head? ≠ some '$' := by
  obtain ⟨c, r, h, hu⟩ := decDigits_head n
  rw [h]
  intro e
  have : c = '$' := by simpa using e
  subst this
  simp [isDigit] at hu

theorem canonCol_colRefText (c : Ref) (hc : 1 ≤ c.num ∧ c.num ≤ 18278) : canonColB (colRefText c) = true := by
  have : colRefText c = dollar c.lock ++ indexToAlpha c.num := rfl
  simp only [canonColB, this, stripDollar_dollar _ _ (indexToAlpha_head_ne_dollar _)]
  exact canonLetters_indexToAlpha _ hc

theorem canonRow_rowRefText (r : Ref) (hr : r.num < 4294967296) : canonRowB (rowRefText r) = true := by
  have : rowRefText r = dollar r.lock ++ decDigits r.num := rfl
  simp only [canonRowB, this, stripDollar_dollar _ _ (decDigits_head_ne_dollar _)]
  exact canonDigits_decDigits _ hr

theorem takeWhile_upper_append (ls rest : List Char) (hu : ls.all isUpperAZ = true)
    (hr : rest = [] ∨ ∃ c r, rest = c :: r ∧ isUpperAZ c = false) :
    (ls ++ rest).takeWhile isUpperAZ = ls ∧ (ls ++ rest).dropWhile isUpperAZ = rest := by
  induction ls with
  | nil =>
    rcases hr with h | ⟨c, r, h, hc⟩
    · subst h; exact ⟨rfl, rfl⟩
    · subst h; simp [hc]
  | cons d ds ih =>
    simp only [List.all_cons, Bool.and_eq_true] at hu
    obtain ⟨i1, i2⟩ := ih hu.2
    simp [hu.1, i1, i2]

theorem canonCell_print (c r : Ref) (hc : 1 ≤ c.num ∧ c.num ≤ 18278) (hr : r.num < 4294967296) :
    canonCellB (colRefText c ++ rowRefText r) = true := by
  have e : colRefText c ++ rowRefText r = dollar c.lock ++ (indexToAlpha c.num ++ rowRefText r) := by
    simp [colRefText, dollar]
  have hh : (indexToAlpha c.num ++ rowRefText r).head? ≠ some '$' := by
    obtain ⟨a, as, ha, _⟩ := indexToAlpha_head c.num
    have := indexToAlpha_head_ne_dollar c.num
    rw [ha] at this ⊢
    simpa using this
  obtain ⟨ch, rs, hrow, hnu⟩ := rowRefText_head r
  obtain ⟨t1, t2⟩ := takeWhile_upper_append (indexToAlpha c.num) (rowRefText r) (indexToAlpha_upper _)
    (Or.inr ⟨ch, rs, hrow, hnu⟩)
  simp only [canonCellB, e, stripDollar_dollar _ _ hh, t1, t2, Bool.and_eq_true]
  exact ⟨canonLetters_indexToAlpha _ hc, canonRow_rowRefText r hr⟩

/-! ### `str::split(':')` is inverted by joining with `:` -/

def joinColon : List (List Char) → List Char
  | [] => []
  | [a] => a
  | a :: b :: r => a ++ ':' :: joinColon (b :: r)

theorem splitColon_go_ne_nil (s cur : List Char) : splitColon.go s cur ≠ [] := by
  induction s generalizing cur with
  | nil => simp [splitColon.go]
  | cons c r ih =>
    simp only [splitColon.go]
    split
    · simp
    · exact ih _

theorem joinColon_go (s cur : List Char) : joinColon (splitColon.go s cur) = cur.reverse ++ s := by
  induction s generalizing cur with
  | nil => simp [splitColon.go, joinColon]
  | cons c r ih =>
    simp only [splitColon.go]
    split
    · rename_i hc
      subst hc
      cases hg : splitColon.go r [] with
      | nil => exact absurd hg (splitColon_go_ne_nil r [])
      | cons y ys =>
        have := ih []
        rw [hg] at this
        simp only [joinColon, this, List.reverse_nil, List.nil_append]
    · rw [ih]; simp

theorem joinColon_splitColon (s : List Char) : joinColon (splitColon s) = s := by
  simp [splitColon, joinColon_go]

theorem splitColon_one_eq (t a : List Char) (h : splitColon t = [a]) : t = a := by
  have := joinColon_splitColon t
  rw [h] at this
  exact this.symm

theorem splitColon_two_eq (t a b : List Char) (h : splitColon t = [a, b]) : t = a ++ ':' :: b := by
  have := joinColon_splitColon t
  rw [h] at this
  exact this.symm

/-! ### ranges: the grammar is exactly the set of prints of in-bounds shapes -/

theorem canonRange_spec (t : List Char) (h : canonRangeB t = true) :
    ∃ ρ : Range, Range.IsShape ρ ∧ Range.InBounds ρ ∧ t = ρ.print := by
  unfold canonRangeB at h
  split at h
  · rename_i a ha
    obtain ⟨c, r, hc, hr, e⟩ := canonCell_spec a h
    refine ⟨⟨some c, some r, none, none⟩, Or.inl ⟨rfl, rfl, rfl, rfl⟩, ?_, ?_⟩
    · refine ⟨?_, ?_, ?_, ?_⟩ <;> intro x hx <;> simp at hx
      · subst hx; exact hc
      · subst hx; exact hr
    · rw [splitColon_one_eq t a ha, e]; simp [Range.print, optText]
  · rename_i a b hab
    have ht := splitColon_two_eq t a b hab
    simp only [Bool.or_eq_true, Bool.and_eq_true] at h
    rcases h with (⟨h1, h2⟩ | ⟨h1, h2⟩) | ⟨h1, h2⟩
    · obtain ⟨c, r, hc, hr, e⟩ := canonCell_spec a h1
      obtain ⟨c', r', hc', hr', e'⟩ := canonCell_spec b h2
      refine ⟨⟨some c, some r, some c', some r'⟩, Or.inr (Or.inl ⟨rfl, rfl, rfl, rfl⟩), ?_, ?_⟩
      · refine ⟨?_, ?_, ?_, ?_⟩ <;> intro x hx <;> simp at hx <;> subst hx <;> assumption
      · rw [ht, e, e']; simp [Range.print, optText]
    · obtain ⟨c, hc, e⟩ := canonCol_spec a h1
      obtain ⟨c', hc', e'⟩ := canonCol_spec b h2
      refine ⟨⟨some c, none, some c', none⟩, Or.inr (Or.inr (Or.inr ⟨rfl, rfl, rfl, rfl⟩)), ?_, ?_⟩
      · refine ⟨?_, ?_, ?_, ?_⟩ <;> intro x hx <;> simp at hx <;> subst hx <;> assumption
      · rw [ht, e, e']; simp [Range.print, optText]
    · obtain ⟨r, hr, e⟩ := canonRow_spec a h1
      obtain ⟨r', hr', e'⟩ := canonRow_spec b h2
      refine ⟨⟨none, some r, none, some r'⟩, Or.inr (Or.inr (Or.inl ⟨rfl, rfl, rfl, rfl⟩)), ?_, ?_⟩
      · refine ⟨?_, ?_, ?_, ?_⟩ <;> intro x hx <;> simp at hx <;> subst hx <;> assumption
      · rw [ht, e, e']; simp [Range.print, optText]
  · cases h

theorem canonRange_print (ρ : Range) (hs : Range.IsShape ρ) (hb : Range.InBounds ρ) :
    canonRangeB ρ.print = true := by
  obtain ⟨sc, sr, ec, er⟩ := ρ
  obtain ⟨b1, b2, b3, b4⟩ := hb
  simp only at b1 b2 b3 b4
  have fS := colon_free_text sc sr
  have fE := colon_free_text ec er
  unfold Range.IsShape at hs
  simp only at hs
  rcases hs with ⟨h1, h2, h3, h4⟩ | ⟨h1, h2, h3, h4⟩ | ⟨h1, h2, h3, h4⟩ | ⟨h1, h2, h3, h4⟩
  · cases sc <;> cases sr <;> cases ec <;> cases er <;> simp at h1 h2 h3 h4
    rename_i a b
    have hp : Range.print ⟨some a, some b, none, none⟩ = colRefText a ++ rowRefText b := by simp [Range.print, optText]
    simp only [optText] at fS
    rw [hp]; unfold canonRangeB
    rw [splitColon_one _ fS]
    exact canonCell_print a b (b1 a rfl) (b3 b rfl)
  · cases sc <;> cases sr <;> cases ec <;> cases er <;> simp at h1 h2 h3 h4
    rename_i a b x y
    have hp : Range.print ⟨some a, some b, some x, some y⟩
        = (colRefText a ++ rowRefText b) ++ ':' :: (colRefText x ++ rowRefText y) := by simp [Range.print, optText]
    simp only [optText] at fS fE
    rw [hp]; unfold canonRangeB
    rw [splitColon_two _ _ fS fE]
    simp [canonCell_print a b (b1 a rfl) (b3 b rfl), canonCell_print x y (b2 x rfl) (b4 y rfl)]
  · cases sc <;> cases sr <;> cases ec <;> cases er <;> simp at h1 h2 h3 h4
    rename_i x y
    have hp : Range.print ⟨none, some x, none, some y⟩ = rowRefText x ++ ':' :: rowRefText y := by simp [Range.print, optText]
    simp only [optText, List.nil_append] at fS fE
    rw [hp]; unfold canonRangeB
    rw [splitColon_two _ _ fS fE]
    simp [canonRow_rowRefText x (b3 x rfl), canonRow_rowRefText y (b4 y rfl)]
  · cases sc <;> cases sr <;> cases ec <;> cases er <;> simp at h1 h2 h3 h4
    rename_i x y
    have hp : Range.print ⟨some x, none, some y, none⟩ = colRefText x ++ ':' :: colRefText y := by simp [Range.print, optText]
    simp only [optText, List.append_nil] at fS fE
    rw [hp]; unfold canonRangeB
    rw [splitColon_two _ _ fS fE]
    simp [canonCol_colRefText x (b1 x rfl), canonCol_colRefText y (b2 y rfl)]

/-! ### the parser ignores whatever follows a complete coordinate (unanchored regex) -/

theorem matchRowGroup_rowText_rest (x : Ref) (rest : List Char)
    (hr : rest = [] ∨ ∃ c r, rest = c :: r ∧ isDigit c = false) :
    matchRowGroup (rowRefText x ++ rest) = some (x.lock, decDigits x.num) := by
  obtain ⟨d, ds, hd, hdig⟩ := decDigits_head x.num
  have htw := takeWhile_digits_append (decDigits x.num) rest (decDigits_all_digit _) hr
  cases hl : x.lock
  · have hnd : d ≠ '$' := by intro h; subst h; simp [isDigit] at hdig
    have e : rowRefText x ++ rest = decDigits x.num ++ rest := by simp [rowRefText, hl]
    rw [e]
    unfold matchRowGroup
    split
    · rename_i heq; rw [hd] at heq; injection heq with h1 _; exact absurd h1 hnd
    · simp [htw, decDigits_isEmpty]
  · have e : rowRefText x ++ rest = '$' :: (decDigits x.num ++ rest) := by simp [rowRefText, hl]
    rw [e]
    unfold matchRowGroup
    simp [htw, decDigits_isEmpty]

theorem indexFromCoordinate_suffix (c r : Ref) (rest : List Char) (hc : 1 ≤ c.num ∧ c.num ≤ 18278)
    (hr : r.num < 4294967296) (hrest : rest = [] ∨ ∃ ch rs, rest = ch :: rs ∧ isDigit ch = false) :
    indexFromCoordinate (colRefText c ++ rowRefText r ++ rest) = (some c.num, some r.num, some c.lock, some r.lock) := by
  obtain ⟨ch, rs, hrow, hnu⟩ := rowRefText_head r
  have h1 := matchColGroup_colText c (rowRefText r ++ rest) hc (Or.inr ⟨ch, rs ++ rest, by simp [hrow], hnu⟩)
  have h2 := matchRowGroup_rowText_rest r rest hrest
  rw [List.append_assoc]
  simp [indexFromCoordinate, h1, h2, parseU32_decDigits r.num hr, alphaVal_indexToAlpha c.num hc.1]

end Umya.Coord
