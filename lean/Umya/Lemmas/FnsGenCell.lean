/-
  (T) translator, part 3 — the `t=` choice of a cell: `CellRawValue::get_data_type`
  (src/structs/cell_raw_value.rs) and `CellValue::get_data_type_crate` (src/structs/cell_value.rs) as compiled
  from the source on this run are the hand model's `RawValue.dataType` / `dataTypeOf` (`Umya/Model/CellXml.lean`).
  Representation: the compiled code matches on the variant TAG of `CellRawValue` (payloads are wildcards in the
  source) and on `formula.is_some()`; `tagOf` / `Option.map (fun _ => ())` are the obvious abstractions.
-/
import Umya.Lemmas.FnsGen
import Umya.Model.CellXml
namespace Umya.Gen
open Umya.CellXml Umya.Num

/-- the variant of `CellRawValue` a model value stands for -/
def tagOf {N} : RawValue N → CellRawValue_tag
  | .empty => .Empty
  | .str _ => .String
  | .rich _ => .RichText
  | .num _ => .Numeric
  | .bool _ => .Bool
  | .err _ => .Error
  | .lazy _ => .Lazy

/-- every variant of the enum declaration is the tag of some model value (the enum has no variant the model lacks) -/
theorem tagOf_surjective (t : CellRawValue_tag) :
    ∃ r : RawValue Nat, tagOf r = t := by
  cases t
  · exact ⟨.str [], rfl⟩
  · exact ⟨.rich [], rfl⟩
  · exact ⟨.lazy [], rfl⟩
  · exact ⟨.num 0, rfl⟩
  · exact ⟨.bool true, rfl⟩
  · exact ⟨.err .div0, rfl⟩
  · exact ⟨.empty, rfl⟩

theorem gen_raw_get_data_type {N} (r : RawValue N) : raw_get_data_type (tagOf r) = r.dataType := by
  cases r <;> simp [raw_get_data_type, tagOf, RawValue.dataType, tS, tN, tB, tE]

theorem gen_get_data_type_crate (F : NumFmt) (r : RawValue F.Num) (f : Option (List Char)) :
    get_data_type_crate (tagOf r) (f.map fun _ => ()) = dataTypeOf F r f := by
  cases f <;> cases r <;>
    simp [get_data_type_crate, raw_get_data_type, tagOf, dataTypeOf, RawValue.dataType, tS, tN, tB, tE, tSTR]

end Umya.Gen
