/-
  Helper lemmas for C03, positions: the library's `set_coordinate` / `coordinate_from_index`
  (`Umya.Model.Coord`, regex based, 1–3 upper-case letters) against the spec's `colOf` / `rowOf` /
  `refText` (`Umya.Spec.Sml`, `Char.isAlpha`, `Char.isDigit`, `toString`).
-/
import Umya.Lemmas.Coord
import Umya.Lemmas.ReaderCell
namespace Umya.Reader.Lemmas
open Umya.Reader Umya.Spec.Xml Umya.Spec.Sml Umya.Coord Umya.Dec

/-! ## the two character classifications agree where it matters -/

theorem isDigit_bridge (c : Char) : Umya.Dec.isDigit c = c.isDigit := by
  simp [Umya.Dec.isDigit, Char.isDigit, UInt32.le_iff_toNat_le]

theorem upper_isAlpha (c : Char) (h : isUpperAZ c = true) : c.isAlpha = true := by
  simp [isUpperAZ] at h
  simp [Char.isAlpha, Char.isUpper, UInt32.le_iff_toNat_le, h]

theorem digit_not_alpha (c : Char) (h : Umya.Dec.isDigit c = true) : c.isAlpha = false := by
  simp [Umya.Dec.isDigit] at h
  simp [Char.isAlpha, Char.isUpper, Char.isLower, UInt32.le_iff_toNat_le]
  omega

theorem upper_toUpper (c : Char) (h : isUpperAZ c = true) : c.toUpper = c := by
  simp [isUpperAZ] at h
  simp [Char.toUpper, UInt32.le_iff_toNat_le]
  omega

theorem all_digit_bridge (ds : List Char) : ds.all Char.isDigit = ds.all Umya.Dec.isDigit := by
  induction ds with
  | nil => rfl
  | cons c r ih => simp only [List.all_cons, ih, isDigit_bridge]

/-! ## `toString` of a natural number is the model's `decDigits` -/

theorem digitChar_bridge (d : Nat) (h : d < 10) : Nat.digitChar d = Umya.Dec.digitChar d := by
  have : ∀ d : Fin 10, Nat.digitChar d.val = Umya.Dec.digitChar d.val := by decide
  exact this ⟨d, h⟩

theorem toDigits_eq (n : Nat) : Nat.toDigits 10 n = decDigits n := by
  induction n using Nat.strongRecOn with
  | _ n ih =>
    rw [Nat.toDigits_eq_if (by decide), decDigits]
    split
    · rename_i h; rw [digitChar_bridge n h]
    · rename_i h
      rw [ih (n / 10) (by omega), digitChar_bridge (n % 10) (by omega)]

theorem refText_eq (col row : Nat) : refText col row = coordinateFromIndexWithLock col row false false := by
  simp [refText, colLetters, coordinateFromIndexWithLock, toDigits_eq]

/-! ## a reference made of letters `ls` and digits `ds` -/

theorem takeWhile_alpha (ls ds : List Char) (hu : ls.all isUpperAZ = true) (hd : ds.all Umya.Dec.isDigit = true) :
    (ls ++ ds).takeWhile Char.isAlpha = ls ∧ (ls ++ ds).dropWhile Char.isAlpha = ds := by
  have h1 : ∀ a ∈ ls, Char.isAlpha a = true := fun a ha => upper_isAlpha a (List.all_eq_true.mp hu a ha)
  have h2 : ds.takeWhile Char.isAlpha = [] ∧ ds.dropWhile Char.isAlpha = ds := by
    cases ds with
    | nil => exact ⟨rfl, rfl⟩
    | cons d r =>
      simp only [List.all_cons, Bool.and_eq_true] at hd
      simp [List.takeWhile, List.dropWhile, digit_not_alpha d hd.1]
  rw [List.takeWhile_append_of_pos h1, List.dropWhile_append_of_pos h1, h2.1, h2.2, List.append_nil]
  exact ⟨rfl, rfl⟩

theorem foldl_upper (ls : List Char) (hu : ls.all isUpperAZ = true) (a : Nat) :
    ls.foldl (fun a c => 26 * a + (c.toUpper.toNat - 64)) a = ls.foldl (fun a c => 26 * a + (c.toNat - 65 + 1)) a := by
  induction ls generalizing a with
  | nil => rfl
  | cons c r ih =>
    simp only [List.all_cons, Bool.and_eq_true] at hu
    have hc := (isUpperAZ_iff c).1 hu.1
    simp only [List.foldl_cons, upper_toUpper c hu.1]
    rw [ih hu.2]
    congr 1
    omega

/-- the spec's column of a reference `ls ++ ds` is the positional value of the letters -/
theorem colOf_append (ls ds : List Char) (hu : ls.all isUpperAZ = true) (hd : ds.all Umya.Dec.isDigit = true) :
    colOf (ls ++ ds) = alphaToIndexGen ls := by
  unfold colOf alphaToIndexGen
  rw [(takeWhile_alpha ls ds hu hd).1, foldl_upper ls hu]

/-- the spec's row of a reference `ls ++ ds` is the value of the digits -/
theorem rowOf_append (ls ds : List Char) (hu : ls.all isUpperAZ = true) (hd : ds.all Umya.Dec.isDigit = true)
    (hne : ds ≠ []) : rowOf (ls ++ ds) = parseDec ds := by
  unfold rowOf
  rw [(takeWhile_alpha ls ds hu hd).2]
  unfold natOf
  rw [if_pos ⟨hne, by rw [all_digit_bridge]; exact hd⟩]
  rfl

/-- `set_coordinate` on 1–3 upper-case letters followed by digits whose value fits `u32` -/
theorem setCoordinate_append (ls ds : List Char) (hu : ls.all isUpperAZ = true) (h1 : 1 ≤ ls.length)
    (h3 : ls.length ≤ 3) (hd : ds.all Umya.Dec.isDigit = true) (hne : ds ≠ []) (hb : parseDec ds < 4294967296) :
    setCoordinate (ls ++ ds) = some (alphaToIndexGen ls, parseDec ds) := by
  obtain ⟨d, dr, hds⟩ : ∃ d dr, ds = d :: dr := by
    cases ds with
    | nil => exact absurd rfl hne
    | cons d dr => exact ⟨d, dr, rfl⟩
  obtain ⟨a, ar, hls⟩ : ∃ a ar, ls = a :: ar := by
    cases ls with
    | nil => simp at h1
    | cons a ar => exact ⟨a, ar, rfl⟩
  have hdd : Umya.Dec.isDigit d = true := by
    rw [hds] at hd; simp only [List.all_cons, Bool.and_eq_true] at hd; exact hd.1
  have hau : isUpperAZ a = true := by
    rw [hls] at hu; simp only [List.all_cons, Bool.and_eq_true] at hu; exact hu.1
  have hna : a ≠ '$' := by intro e; subst e; simp [isUpperAZ] at hau
  have hnd : d ≠ '$' := by intro e; subst e; simp [Umya.Dec.isDigit] at hdd
  have htake : takeUpTo3Upper (ls ++ ds) = (ls, ds) :=
    takeUpper_append 3 ls ds hu h3 (Or.inr (Or.inr ⟨d, dr, hds, isDigit_not_upper d hdd⟩))
  have hcol : matchColGroup (ls ++ ds) = some (false, ls, ds) := by
    unfold matchColGroup
    split
    · rename_i r heq; rw [hls] at heq; injection heq with e _; exact absurd e hna
    · have : ls.isEmpty = false := by rw [hls]; rfl
      simp [htake, this]
  have hrow : matchRowGroup ds = some (false, ds) := by
    have htw : ds.takeWhile Umya.Dec.isDigit = ds := by
      have := takeWhile_digits_append ds [] hd (Or.inl rfl)
      simpa using this
    have hemp : ds.isEmpty = false := by rw [hds]; rfl
    have hm : matchRowGroup (d :: dr) =
        (let ds' := (d :: dr).takeWhile Umya.Dec.isDigit; if ds'.isEmpty then none else some (false, ds')) := by
      unfold matchRowGroup
      split
      · rename_i r heq; injection heq with e _; exact absurd e hnd
      · rfl
    rw [hds, hm, ← hds]
    simp [htw, hemp]
  have hp : Umya.Dec.parseU32 ds = some (parseDec ds) := by
    have : ds.isEmpty = false := by rw [hds]; rfl
    simp [Umya.Dec.parseU32, this, hd, hb]
  simp [setCoordinate, indexFromCoordinate, hcol, hrow, hp, alphaVal]

theorem coordText_eq (col row : Nat) :
    coordinateFromIndexWithLock col row false false = indexToAlpha col ++ decDigits row := by
  simp [coordinateFromIndexWithLock]

/-- a printed reference: column `col ≥ 1`, any row -/
theorem colOf_refText (col row : Nat) (h : 1 ≤ col) : colOf (refText col row) = col := by
  rw [refText_eq, coordText_eq,
    colOf_append (indexToAlpha col) (decDigits row) (indexToAlpha_upper col) (decDigits_all_digit row)]
  exact alphaVal_indexToAlpha col h

theorem rowOf_refText (col row : Nat) : rowOf (refText col row) = row := by
  rw [refText_eq, coordText_eq,
    rowOf_append (indexToAlpha col) (decDigits row) (indexToAlpha_upper col) (decDigits_all_digit row)
      (decDigits_ne_nil row)]
  exact parseDec_decDigits row

theorem setCoordinate_refText (col row : Nat) (h1 : 1 ≤ col) (h2 : col ≤ 18278) (hr : row < 4294967296) :
    setCoordinate (coordinateFromIndexWithLock col row false false) = some (col, row) := by
  have hlen : (indexToAlpha col).length ≤ 3 := by
    simp only [indexToAlpha, List.length_reverse]; exact alphaRev_length_le3 _ (by omega)
  have hpos : 1 ≤ (indexToAlpha col).length := by
    simp only [indexToAlpha, List.length_reverse]; exact alphaRev_length_pos _
  rw [coordText_eq, setCoordinate_append (indexToAlpha col) (decDigits row) (indexToAlpha_upper col) hpos hlen
    (decDigits_all_digit row) (decDigits_ne_nil row) (by rw [parseDec_decDigits]; exact hr), parseDec_decDigits]
  have := alphaVal_indexToAlpha col h1
  unfold alphaVal at this
  rw [this]

/-! ## the walk over rows and cells -/

/-- an A1 reference as ST_CellRef writes it: 1–3 upper-case letters, then decimal digits (a value
    that fits `u32`) -/
def validRef (t : Text) : Bool :=
  decide (1 ≤ (t.takeWhile isUpperAZ).length) && decide ((t.takeWhile isUpperAZ).length ≤ 3) &&
  decide (t.dropWhile isUpperAZ ≠ []) && (t.dropWhile isUpperAZ).all Umya.Dec.isDigit &&
  decide (parseDec (t.dropWhile isUpperAZ) < 4294967296)

theorem validRef_pos (t : Text) (h : validRef t = true) :
    t ≠ [] ∧ setCoordinate t = some (colOf t, rowOf t) := by
  simp only [validRef, Bool.and_eq_true, decide_eq_true_eq] at h
  obtain ⟨⟨⟨⟨h1, h3⟩, hne⟩, hd⟩, hb⟩ := h
  have hu : (t.takeWhile isUpperAZ).all isUpperAZ = true := List.all_takeWhile
  have ht : t.takeWhile isUpperAZ ++ t.dropWhile isUpperAZ = t := List.takeWhile_append_dropWhile
  refine ⟨?_, ?_⟩
  · intro e; rw [e] at hne; exact hne rfl
  · rw [← ht, setCoordinate_append _ _ hu h1 h3 hd hne hb, colOf_append _ _ hu hd, rowOf_append _ _ hu hd hne]

/-- every `r` that a `<c>` of the list carries is a valid reference -/
def cellRefsOk (cells : List Node) : Bool :=
  cells.all fun c => match c.attr? "r".toList with | some v => validRef v | none => true

/-- the cells of one row: the model's walk = the spec's `fillRefs`, for any start column -/
theorem cells_agree (sst : List Text) (rn : Nat) (hrn : rn < 4294967296) : ∀ (cells : List Node) (prev : Nat),
    cellRefsOk cells = true →
    (fillRefs rn prev ((cells.map (decodeCell sst)).map (·.1))).all (fun c => decide (colOf c.ref ≤ 16384)) = true →
    cellPositions rn prev (cells.map (·.attr? "r".toList)) =
      some ((fillRefs rn prev ((cells.map (decodeCell sst)).map (·.1))).map fun c => (colOf c.ref, rowOf c.ref)) := by
  intro cells
  induction cells with
  | nil => intro prev _ _; rfl
  | cons c rest ih =>
    intro prev hok hgrid
    simp only [cellRefsOk, List.all_cons, Bool.and_eq_true] at hok
    have hrest : cellRefsOk rest = true := hok.2
    simp only [List.map_cons, fillRefs, decode_ref] at hgrid ⊢
    rcases Option.eq_none_or_eq_some (c.attr? "r".toList) with hr | ⟨v, hr⟩
    · simp only [hr, Option.getD_none, List.isEmpty_nil, if_true, List.all_cons, Bool.and_eq_true,
        decide_eq_true_eq] at hgrid ⊢
      have hcol : colOf (refText (prev + 1) rn) = prev + 1 := colOf_refText _ _ (by omega)
      have hle : prev + 1 ≤ 16384 := by rw [← hcol]; exact hgrid.1
      unfold cellPositions
      simp only []
      rw [setCoordinate_refText (prev + 1) rn (by omega) (by omega) hrn]
      simp only [ih (prev + 1) hrest hgrid.2, Option.map_some, List.map_cons, hcol, rowOf_refText]
    · have hv : validRef v = true := by have := hok.1; rw [hr] at this; exact this
      obtain ⟨hne, hset⟩ := validRef_pos v hv
      have hemp : v.isEmpty = false := by
        cases v with
        | nil => exact absurd rfl hne
        | cons _ _ => rfl
      simp only [hr, Option.getD_some, hemp, Bool.false_eq_true, if_false, List.all_cons, Bool.and_eq_true,
        decide_eq_true_eq] at hgrid ⊢
      unfold cellPositions
      simp only []
      rw [hset]
      simp only [ih (colOf v) hrest hgrid.2, Option.map_some, List.map_cons, decode_ref, hr, Option.getD_some]

/-- every `r` that a `<row>` of the list carries is an unsigned decimal that fits `u32` -/
def rowRefsOk (rows : List Node) : Bool :=
  rows.all fun r => match r.attr? "r".toList with | some v => uintOk u32Bound v | none => true

/-- the positions the SPEC assigns lie inside the grid: rows ≤ 1048576, columns ≤ 16384 (what
    `decodeSheet` reports as an error otherwise) -/
def inGrid (sst : List Text) (prev : Nat) (rows : List Node) : Bool :=
  (rowNumbers prev rows).all (fun n => decide (n ≤ 1048576)) &&
  (specPositions sst prev rows).all fun p => p.2.all fun q => decide (q.1 ≤ 16384)

theorem rows_agree (sst : List Text) : ∀ (rows : List Node) (prev : Nat),
    rowRefsOk rows = true → rows.all (fun r => cellRefsOk (r.kids "c")) = true → inGrid sst prev rows = true →
    sheetPositions prev rows = some (specPositions sst prev rows) := by
  intro rows
  induction rows with
  | nil => intro prev _ _ _; rfl
  | cons r rest ih =>
    intro prev h1 h2 h3
    simp only [rowRefsOk, List.all_cons, Bool.and_eq_true] at h1 h2
    -- the row number
    obtain ⟨n, hn1, hn2⟩ : ∃ n, rowNumber prev (r.attr? "r".toList) = some n ∧
        rowNumbers prev (r :: rest) = n :: rowNumbers n rest := by
      rcases Option.eq_none_or_eq_some (r.attr? "r".toList) with hr | ⟨v, hr⟩
      · have hr' : r.attr? ['r'] = none := hr
        refine ⟨prev + 1, ?_, by simp [rowNumbers, hr']⟩
        have hle : prev + 1 ≤ 1048576 := by
          simp only [inGrid, rowNumbers, hr, Option.bind_none, Option.getD_none, List.all_cons, Bool.and_eq_true,
            decide_eq_true_eq] at h3
          exact h3.1.1
        have hlt : prev + 1 < u32Bound := by unfold u32Bound; omega
        simp only [rowNumber, hr, if_pos hlt]
      · have hr' : r.attr? ['r'] = some v := hr
        have hv := h1.1
        rw [hr] at hv
        obtain ⟨n, e1, e2⟩ := uintOk_parse _ v hv
        exact ⟨n, by simp only [rowNumber, hr]; exact e2, by simp [rowNumbers, hr', e1]⟩
    simp only [inGrid, specPositions, hn2, List.zip_cons_cons, List.map_cons, List.all_cons, Bool.and_eq_true,
      decide_eq_true_eq] at h3 ⊢
    obtain ⟨⟨hn3, hrows⟩, hcols, hrest⟩ := h3
    have hcells := cells_agree sst n (by omega) (r.kids "c") 0 h2.1
      (by simpa [specRowPositions, List.all_map] using hcols)
    have hih := ih n h1.2 h2.2 (by simp only [inGrid, specPositions, Bool.and_eq_true]; exact ⟨hrows, hrest⟩)
    unfold sheetPositions
    simp only [hn1, hcells, hih, Option.map_some, specPositions, specRowPositions]

end Umya.Reader.Lemmas
