/-
  The relationships of the package of `Umya/Model/PackageNode.lean` as the decoder reads them (`relsOf`), their
  ids and their targets.
-/
import Umya.Lemmas.PackageNodeCT
namespace Umya.PackageNode
open Umya.Xml Umya.CellXml Umya.CellNode Umya.SheetNode Umya.WorkbookNode Umya.Dec
open Umya.Spec.Xml (Node Attr localName)
open Umya.Spec.Sml

def relRec (k : Nat) (type target : List Char) : Rel := { id := str (rIdText k), type := str type, target := str target, external := false }

theorem isKid_relEl (k : Nat) (t g : List Char) : isKid nRelationship (relEl k t g) = true := by
  unfold relEl; rw [isKid_elem]; decide

theorem relOf_relEl (k : Nat) (t g : List Char) : relOf (relEl k t g) = relRec k t g := by
  simp [relOf, relEl, relRec, Node.attr?, Node.attrs]

def tStylesTarget : List Char := ['s', 't', 'y', 'l', 'e', 's', '.', 'x', 'm', 'l']
def tThemeTarget : List Char := ['t', 'h', 'e', 'm', 'e', '/', 't', 'h', 'e', 'm', 'e', '1', '.', 'x', 'm', 'l']
def tSstTarget : List Char := ['s', 'h', 'a', 'r', 'e', 'd', 'S', 't', 'r', 'i', 'n', 'g', 's', '.', 'x', 'm', 'l']

def wbRestRecs (n : Nat) (hs : Bool) : List Rel :=
  [relRec (n + 1) tStyles tStylesTarget, relRec (n + 2) tTheme tThemeTarget] ++ (if hs then [relRec (n + 3) tSharedStrings tSstTarget] else [])

theorem wbRelsRest_recs (n : Nat) (hs : Bool) : ((wbRelsRest n hs).filter (isKid nRelationship)).map relOf = wbRestRecs n hs := by
  cases hs <;> simp [wbRelsRest, wbRestRecs, List.filter_cons, isKid_relEl, relOf_relEl, tStylesTarget, tThemeTarget, tSstTarget]

section
variable (F : Umya.Num.NumFmt)

theorem relsName_root : relsNameOf "" = String.ofList nRootRels := by
  have : "".toList = [] := rfl
  rw [relsNameOf, this]; exact congrArg _ (by decide)

theorem relsName_workbook : relsNameOf (String.ofList nWorkbookPart) = String.ofList nWorkbookRels := by
  rw [relsNameOf, String.toList_ofList]; exact congrArg _ (by decide)

theorem relsName_sheet (k : Nat) : relsNameOf (String.ofList (sheetPartL k)) = String.ofList (sheetRelsL k) := by
  rw [relsNameOf, String.toList_ofList, relsName_sheetPart]

/-- `_rels/.rels` as read -/
theorem relsOf_root (b : BookP F.Num) (hs : Bool) (roots : List Node) (tbl : Table) (sst : List Part) (hsst : SstShape tbl sst) :
    relsOf (assemble F b hs roots sst) "" = [relRec 3 tXprops nApp, relRec 2 tCoreprops nCore, relRec 1 tOfficeDoc nWorkbookPart] := by
  unfold relsOf
  rw [relsName_root, part_rootRels F b hs roots tbl sst hsst]
  show ((rootRelsNode.children).filter (isKid nRelationship)).map relOf = _
  simp only [rootRelsNode, Node.children, List.filter_cons, isKid_relEl, if_true, List.filter_nil,
    List.map_cons, List.map_nil, relOf_relEl]

/-- `xl/_rels/workbook.xml.rels` as read -/
theorem relsOf_wb (b : BookP F.Num) (hs : Bool) (roots : List Node) (tbl : Table) (sst : List Part) (hsst : SstShape tbl sst) :
    relsOf (assemble F b hs roots sst) (String.ofList nWorkbookPart) = wsRecs 1 b.sheets.length ++ wbRestRecs b.sheets.length hs := by
  rw [relsOf_workbook _ _ b.sheets.length (wbRelsRest b.sheets.length hs)
    (by rw [relsName_workbook, part_workbookRels F b hs roots tbl sst hsst]; rfl), wbRelsRest_recs]

/-- `xl/worksheets/_rels/sheetK.xml.rels` as read (nothing when the part is not written) -/
theorem relsOf_sheet (b : BookP F.Num) (hs : Bool) (roots : List Node) (tbl : Table) (sst : List Part) (hsst : SstShape tbl sst)
    (k : Nat) (hk : 1 ≤ k) (s : SheetP F.Num) (hsk : b.sheets[k - 1]? = some s) :
    ((assemble F b hs roots sst).part? (relsNameOf (String.ofList (sheetPartL k)))).bind (·.xml) = relsRoot s.sheet.links [] ∧
    relsOf (assemble F b hs roots sst) (String.ofList (sheetPartL k)) = relRecs 1 s.sheet.links := by
  have h1 : ((assemble F b hs roots sst).part? (relsNameOf (String.ofList (sheetPartL k)))).bind (·.xml) = relsRoot s.sheet.links [] := by
    rw [relsName_sheet, part_sheetRels F b hs roots tbl sst hsst k hk, hsk]
    cases hrr : relsRoot s.sheet.links [] <;> simp [xmlPart, hrr]
  refine ⟨h1, ?_⟩
  rw [relsOf_rendered _ _ s.sheet.links [] h1, relsView_eq]
  simp

/-! ### ids -/

theorem eraseDups_len_of_nodup {α} [BEq α] [LawfulBEq α] (l : List α) (h : l.Nodup) : l.eraseDups.length = l.length := by
  rw [eraseDups_nodup l h]

theorem rid_ne (i j : Nat) (h : i ≠ j) : str (rIdText i) ≠ str (rIdText j) := fun e => h (rIdText_inj i j e)

theorem wsRecs_ids (n : Nat) : ∀ k, (wsRecs k n).map (·.id) = (List.range' k n).map (fun i => str (rIdText i)) := by
  induction n with
  | zero => intro _; rfl
  | succ n ih => intro k; simp [wsRecs, List.range'_succ, ih]

theorem nodup_map_inj' {α β} (f : α → β) (hf : ∀ a b, f a = f b → a = b) : ∀ l : List α, l.Nodup → (l.map f).Nodup := by
  intro l
  induction l with
  | nil => intro _; simp
  | cons a as ih =>
    intro h
    have ha := List.nodup_cons.1 h
    rw [List.map_cons, List.nodup_cons]
    refine ⟨?_, ih ha.2⟩
    intro hm
    obtain ⟨b, hb, he⟩ := List.mem_map.1 hm
    have := hf b a he
    subst this
    exact ha.1 hb

theorem rids_nodup (l : List Nat) (h : l.Nodup) : (l.map (fun i => str (rIdText i))).Nodup :=
  nodup_map_inj' _ (fun a b e => rIdText_inj a b e) l h

theorem rids_unique (k m : Nat) (ids : List String) (h : ids = (List.range' k m).map (fun i => str (rIdText i))) :
    ids.eraseDups.length = ids.length := by
  rw [h]; exact eraseDups_len_of_nodup _ (rids_nodup _ (List.nodup_range' (step := 1)))

theorem relRecs_ids (ls : List LinkW) : ∀ k, ∃ m, (relRecs k ls).map (·.id) = (List.range' k m).map (fun i => str (rIdText i)) := by
  induction ls with
  | nil => intro k; exact ⟨0, rfl⟩
  | cons l ls ih =>
    intro k
    simp only [relRecs]
    split
    · exact ih k
    · obtain ⟨m, hm⟩ := ih (k + 1)
      exact ⟨m + 1, by simp [List.range'_succ, hm]⟩

theorem relRecs_external (ls : List LinkW) : ∀ k, ∀ r ∈ relRecs k ls, r.external = true := by
  induction ls with
  | nil => intro k r hr; simp [relRecs] at hr
  | cons l ls ih =>
    intro k r hr
    simp only [relRecs] at hr
    split at hr
    · exact ih k r hr
    · rcases List.mem_cons.1 hr with rfl | hr
      · rfl
      · exact ih _ r hr

theorem wb_ids (n : Nat) (hs : Bool) : ∃ m, (wsRecs 1 n ++ wbRestRecs n hs).map (·.id) = (List.range' 1 m).map (fun i => str (rIdText i)) := by
  cases hs
  · refine ⟨n + 2, ?_⟩
    have : List.range' 1 (n + 2) = List.range' 1 n ++ [n + 1, n + 2] := by
      rw [show n + 2 = n + (1 + 1) by omega, ← List.range'_append_1]; simp [List.range'_succ]; omega
    rw [this]
    simp [wsRecs_ids, wbRestRecs, relRec, Nat.add_comm]
  · refine ⟨n + 3, ?_⟩
    have : List.range' 1 (n + 3) = List.range' 1 n ++ [n + 1, n + 2, n + 3] := by
      rw [show n + 3 = n + (1 + 1 + 1) by omega, ← List.range'_append_1]; simp [List.range'_succ]; omega
    rw [this]
    simp [wsRecs_ids, wbRestRecs, relRec, Nat.add_comm]

end
end Umya.PackageNode
