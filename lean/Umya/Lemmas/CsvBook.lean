/-
  Helper lemmas for C20: highest row / column of the model cell store, UTF-8, the sheet list.
-/
import Umya.Model.Csv
namespace Umya.Lemmas.CsvBook
open Umya.Csv

/-! ### `foldl max` -/

theorem foldl_max_mono {α} (f : α → Nat) (l : List α) (m : Nat) :
    m ≤ l.foldl (fun m e => max m (f e)) m := by
  induction l generalizing m with
  | nil => simp
  | cons a l ih => simp only [List.foldl_cons]; exact Nat.le_trans (Nat.le_max_left _ _) (ih _)

theorem foldl_max_ge {α} (f : α → Nat) (l : List α) (m : Nat) :
    ∀ e ∈ l, f e ≤ l.foldl (fun m e => max m (f e)) m := by
  induction l generalizing m with
  | nil => simp
  | cons a l ih =>
    intro e he
    simp only [List.foldl_cons]
    rcases List.mem_cons.1 he with h | h
    · subst h; exact Nat.le_trans (Nat.le_max_right _ _) (foldl_max_mono f l _)
    · exact ih _ e h

theorem foldl_max_attained {α} (f : α → Nat) (l : List α) (m : Nat) :
    l.foldl (fun m e => max m (f e)) m = m ∨ ∃ e ∈ l, f e = l.foldl (fun m e => max m (f e)) m := by
  induction l generalizing m with
  | nil => simp
  | cons a l ih =>
    simp only [List.foldl_cons]
    rcases ih (max m (f a)) with h | ⟨e, he, h⟩
    · rw [h]
      by_cases hm : f a ≤ m
      · left; omega
      · right; exact ⟨a, by simp, by omega⟩
    · right; exact ⟨e, by simp [he], h⟩

/-! ### UTF-8 (Lean core's encoder; a `String` is its validated UTF-8 bytes) -/

theorem decodeUtf8_encodeUtf8 (s : Text) : decodeUtf8 (encodeUtf8 s) = some s := by
  unfold decodeUtf8 encodeUtf8
  have hb : ByteArray.mk ((String.ofList s).toUTF8.data.toList.toArray) = (String.ofList s).toUTF8 := by simp
  rw [hb]
  have h : (String.ofList s).toUTF8.IsValidUTF8 := (String.ofList s).isValidUTF8
  unfold String.fromUTF8?
  rw [dif_pos h]
  show some (String.fromUTF8 (String.ofList s).toUTF8 h).toList = some s
  have : String.fromUTF8 (String.ofList s).toUTF8 h = String.ofList s := rfl
  rw [this, String.toList_ofList]

/-! ### the sheet list -/

/-- the active tab points into the sheet list -/
def Inv (b : Book) : Prop := b.active < b.sheets.length

theorem inv_new : Inv Book.new := by simp [Inv, Book.new]

theorem inv_newSheet (b : Book) (h : Inv b) : Inv b.newSheet := by
  simp only [Inv, Book.newSheet, List.length_append, List.length_cons, List.length_nil] at h ⊢; omega

theorem inv_setActive (b : Book) (i : Nat) (hi : i < b.sheets.length) : Inv (b.setActive i) := by
  simpa [Inv, Book.setActive] using hi

/-- removing a sheet keeps the invariant as long as a sheet remains – whatever the active tab was -/
theorem inv_removeSheet (b b' : Book) (i : Nat) (h2 : 2 ≤ b.sheets.length)
    (hr : b.removeSheet i = some b') : Inv b' := by
  unfold Book.removeSheet at hr
  split at hr
  · exact absurd hr (by simp)
  · rename_i hlt
    have hlen : (b.sheets.eraseIdx i).length = b.sheets.length - 1 := by
      rw [List.length_eraseIdx]; simp [Nat.lt_of_not_le hlt]
    injection hr with hr
    subst hr
    simp only [Inv, hlen]
    split <;> omega

theorem inv_setCell (b b' : Book) (s r c : Nat) (v : Text) (h : Inv b) (hs : b.setCell s r c v = some b') : Inv b' := by
  unfold Book.setCell at hs
  split at hs
  · injection hs with hs; subst hs; simpa [Inv] using h
  · exact absurd hs (by simp)

theorem activeSheet_of_inv (b : Book) (h : Inv b) : ∃ g, b.activeSheet = some g := by
  unfold Book.activeSheet
  exact ⟨b.sheets[b.active], List.getElem?_eq_getElem h⟩

/-! ### `str::trim` -/

theorem all_takeWhile' {α} (p : α → Bool) (l : List α) : (l.takeWhile p).all p = true := by
  induction l with
  | nil => rfl
  | cons a l ih =>
    simp only [List.takeWhile_cons]
    split
    · simp [*]
    · rfl

theorem head_dropWhile' {α} (p : α → Bool) (l : List α) : ∀ x, (l.dropWhile p).head? = some x → p x = false := by
  induction l with
  | nil => simp
  | cons a l ih =>
    intro x
    simp only [List.dropWhile_cons]
    split
    · exact ih x
    · rename_i h; simp only [List.head?_cons, Option.some.injEq]; intro hx; subst hx; simpa using h

theorem trim_spec (v : Text) :
    ∃ a b, v = a ++ trim v ++ b ∧ a.all isWhitespace = true ∧ b.all isWhitespace = true ∧
      (∀ x, (trim v).head? = some x → isWhitespace x = false) ∧
      (∀ x, (trim v).getLast? = some x → isWhitespace x = false) := by
  let m := v.dropWhile isWhitespace
  let t := m.reverse.takeWhile isWhitespace
  let d := m.reverse.dropWhile isWhitespace
  have hv : v = v.takeWhile isWhitespace ++ m := (List.takeWhile_append_dropWhile).symm
  have hm : m = d.reverse ++ t.reverse := by
    have : m.reverse = t ++ d := (List.takeWhile_append_dropWhile).symm
    have := congrArg List.reverse this
    simpa using this
  have htrim : trim v = d.reverse := rfl
  refine ⟨v.takeWhile isWhitespace, t.reverse, ?_, all_takeWhile' _ _, ?_, ?_, ?_⟩
  · rw [htrim, List.append_assoc, ← hm]; exact hv
  · rw [List.all_reverse]; exact all_takeWhile' _ _
  · intro x hx
    rw [htrim] at hx
    have hmx : m.head? = some x := by
      rw [hm, List.head?_append, hx]; rfl
    exact head_dropWhile' isWhitespace v x hmx
  · intro x hx
    rw [htrim, List.getLast?_reverse] at hx
    exact head_dropWhile' isWhitespace m.reverse x hx

end Umya.Lemmas.CsvBook
