/-
  Fills: pattern fill, gradient fill, `<fill>`.
-/
import Umya.Lemmas.StyleCodecFont
namespace Umya.StyleCodec
open Umya.Spec.Xml (Node Attr)
open Umya.Dec

section
variable (cf : Tok → Tok)

theorem Color.write_cases (tag : String) (c : Color) :
    (c.attrs = [] ∧ c.write tag = []) ∨ (c.attrs ≠ [] ∧ c.write tag = [mkEl tag c.attrs []]) := by
  unfold Color.write
  cases h : c.attrs with
  | nil => left; simp
  | cons a l => right; simp

theorem PatternFill.seg_fg (o : Option Color) (h : optColorRange cf o) (acc : PatternFill) (hacc : acc.fg = none) :
    foldOpt (PatternFill.step cf) (optKids o (Color.write "fgColor")) acc = some { acc with fg := normOptColor o } := by
  cases o with
  | none => simp [optKids, normOptColor, ← hacc]
  | some c =>
    have hr := Color.read_attrs cf c (h c rfl)
    rcases Color.write_cases "fgColor" c with ⟨he, hw⟩ | ⟨he, hw⟩
    · simp [optKids, hw, normOptColor, he, ← hacc]
    · have : c.attrs.isEmpty = false := by cases hc : c.attrs <;> simp_all
      simp [optKids, hw, normOptColor, this, PatternFill.step, mkEl, hr]

theorem PatternFill.seg_bg (o : Option Color) (h : optColorRange cf o) (acc : PatternFill) (hacc : acc.bg = none) :
    foldOpt (PatternFill.step cf) (optKids o (Color.write "bgColor")) acc = some { acc with bg := normOptColor o } := by
  cases o with
  | none => simp [optKids, normOptColor, ← hacc]
  | some c =>
    have hr := Color.read_attrs cf c (h c rfl)
    rcases Color.write_cases "bgColor" c with ⟨he, hw⟩ | ⟨he, hw⟩
    · simp [optKids, hw, normOptColor, he, ← hacc]
    · have : c.attrs.isEmpty = false := by cases hc : c.attrs <;> simp_all
      simp [optKids, hw, normOptColor, this, PatternFill.step, mkEl, hr]

theorem patternAttr_read (t : Option Pattern) :
    enumAttr Pattern.fromStr (optAttr "patternType" t (fun t => t.toStr.toList)) "patternType" none = t := by
  cases t with
  | none => rfl
  | some v =>
    have := Pattern.fromStr_toStr v
    simp [enumAttr, optAttr, getAttr_cons, mkAttr, this]

theorem PatternFill.read_write (p : PatternFill) (h : p.Range cf) : PatternFill.read cf p.write = some p.norm := by
  obtain ⟨hf, hb⟩ := h
  simp only [PatternFill.read, PatternFill.write, children_mkEl, attrs_mkEl, patternAttr_read]
  rw [foldOpt_append, PatternFill.seg_fg cf _ hf _ rfl]
  simp only [Option.bind_some]
  rw [PatternFill.seg_bg cf _ hb _ rfl]
  rfl

theorem normOptColor_idem (o : Option Color) : normOptColor (normOptColor o) = normOptColor o := by
  cases o with
  | none => rfl
  | some c =>
    by_cases he : c.attrs = []
    · simp [normOptColor, he]
    · have : c.attrs.isEmpty = false := by cases hc : c.attrs <;> simp_all
      simp [normOptColor, this, Color.attrs_norm, Color.norm_idem]

theorem PatternFill.norm_idem (p : PatternFill) : p.norm.norm = p.norm := by
  simp [PatternFill.norm, normOptColor_idem]

theorem normOptColor_range (o : Option Color) (h : optColorRange cf o) : optColorRange cf (normOptColor o) := by
  intro c hc
  cases o with
  | none => simp [normOptColor] at hc
  | some d =>
    by_cases he : d.attrs.isEmpty = true
    · simp [normOptColor, he] at hc
    · simp only [normOptColor, he] at hc
      cases hc; exact Color.norm_range cf d (h d rfl)

theorem PatternFill.norm_range (p : PatternFill) (h : p.Range cf) : p.norm.Range cf :=
  ⟨normOptColor_range cf _ h.1, normOptColor_range cf _ h.2⟩

theorem optColorEff_norm (o : Option Color) (h : optOneForm o = true) : optColorEff (normOptColor o) = optColorEff o := by
  cases o with
  | none => rfl
  | some c =>
    have h' : c.OneForm = true := h
    by_cases he : c.attrs = []
    · have := Color.attrs_empty_norm c he
      rw [Color.norm_of_oneForm c h'] at this
      subst this
      rfl
    · have : c.attrs.isEmpty = false := by cases hc : c.attrs <;> simp_all
      simp [normOptColor, this, optColorEff, Color.norm_of_oneForm c h']

theorem PatternFill.eff_norm (p : PatternFill) (h1 : p.OneForm = true) : p.norm.eff = p.eff := by
  simp only [PatternFill.OneForm, Bool.and_eq_true] at h1
  simp only [PatternFill.norm, PatternFill.eff, optColorEff_norm _ h1.1, optColorEff_norm _ h1.2]

/-! ### gradient -/

theorem GradientStop.read_write (hz : cf zeroTok = zeroTok) (s : GradientStop) (h : s.Range cf) :
    GradientStop.read cf s.write = some s.norm := by
  obtain ⟨hp, hc⟩ := h
  have hpos : cf (s.position.getD zeroTok) = s.position.getD zeroTok := by
    cases hs : s.position with
    | none => exact hz
    | some t => exact hp t hs
  have hattr : floatAttr cf [mkAttr "position" (s.position.getD zeroTok)] "position" none = some (s.position.getD zeroTok) := by
    simp [floatAttr, getAttr_cons, mkAttr, hpos]
  have hfold := Color.write_fold cf "color" s.color hc (GradientStop.step cf)
    { position := some (s.position.getD zeroTok) } (fun a c => { a with color := c })
    (by intro as; simp [GradientStop.step, mkEl]) (by intro _; rfl)
  simp only [GradientStop.read, GradientStop.write, children_mkEl, attrs_mkEl, hattr, hfold]
  rfl

theorem GradientFill.step_stop (g : GradientFill) (as : List Attr) (cs : List Node) :
    GradientFill.step cf g (mkEl "stop" as cs) =
      (GradientStop.read cf (mkEl "stop" as cs)).map (fun s => { g with stops := g.stops ++ [s] }) := by
  simp [GradientFill.step, mkEl]

theorem GradientFill.stops_fold (hz : cf zeroTok = zeroTok) (l : List GradientStop) (h : ∀ s ∈ l, s.Range cf) (g : GradientFill) :
    foldOpt (GradientFill.step cf) (l.map GradientStop.write) g = some { g with stops := g.stops ++ l.map GradientStop.norm } := by
  induction l generalizing g with
  | nil => simp
  | cons s l ih =>
    have hs := GradientStop.read_write cf hz s (h s (by simp))
    have hstep : GradientFill.step cf g s.write = some { g with stops := g.stops ++ [s.norm] } := by
      have : s.write = mkEl "stop" [mkAttr "position" (s.position.getD zeroTok)] (s.color.write "color") := rfl
      rw [this] at hs ⊢
      rw [GradientFill.step_stop, hs]; rfl
    simp only [List.map_cons, foldOpt, hstep, Option.bind_some]
    rw [ih (fun s hs => h s (by simp [hs]))]
    simp

theorem GradientFill.read_write (hz : cf zeroTok = zeroTok) (g : GradientFill) (h : g.Range cf) :
    GradientFill.read cf g.write = some g.norm := by
  obtain ⟨hd, hs⟩ := h
  have hdeg : cf (g.degree.getD zeroTok) = g.degree.getD zeroTok := by
    cases hg : g.degree with
    | none => exact hz
    | some t => exact hd t hg
  simp only [GradientFill.read, GradientFill.write, children_mkEl, attrs_mkEl, floatAttr, getAttr_cons, mkAttr, if_true, hdeg]
  rw [GradientFill.stops_fold cf hz _ hs]
  simp [GradientFill.norm]

theorem GradientStop.norm_idem (s : GradientStop) : s.norm.norm = s.norm := by
  simp [GradientStop.norm, Color.norm_idem]

theorem GradientFill.norm_idem (g : GradientFill) : g.norm.norm = g.norm := by
  simp [GradientFill.norm, GradientStop.norm_idem]

theorem GradientFill.eff_norm (g : GradientFill) (h : g.stops.all (fun s => s.color.OneForm) = true) : g.norm.eff = g.eff := by
  simp only [List.all_eq_true] at h
  simp only [GradientFill.norm, GradientFill.eff, Option.getD_some, List.map_map, Prod.mk.injEq, true_and]
  apply List.map_congr_left
  intro s hs
  simp [GradientStop.norm, Color.norm_of_oneForm _ (h s hs)]

/-! ### `<fill>` -/

theorem Fill.step_pattern (f : Fill) (as : List Attr) (cs : List Node) :
    Fill.step cf f (mkEl "patternFill" as cs) =
      (PatternFill.read cf (mkEl "patternFill" as cs)).map (fun p => { pattern := some p, gradient := none }) := by
  simp [Fill.step, mkEl]

theorem Fill.step_gradient (f : Fill) (as : List Attr) (cs : List Node) :
    Fill.step cf f (mkEl "gradientFill" as cs) =
      (GradientFill.read cf (mkEl "gradientFill" as cs)).map (fun g => { pattern := none, gradient := some g }) := by
  simp [Fill.step, mkEl]

theorem Fill.read_write (hz : cf zeroTok = zeroTok) (f : Fill) (h : f.Range cf) : Fill.read cf f.write = some f.norm := by
  obtain ⟨hp, hg⟩ := h
  obtain ⟨pat, grad⟩ := f
  simp only [Fill.read, Fill.write, children_mkEl]
  cases pat with
  | none =>
    cases grad with
    | none => simp [optEl, Fill.norm]
    | some g =>
      have := GradientFill.read_write cf hz g (hg g rfl)
      simp only [optEl, List.nil_append, foldOpt_single]
      unfold GradientFill.write at this ⊢
      rw [Fill.step_gradient, this]; rfl
  | some p =>
    have hpr := PatternFill.read_write cf p (hp p rfl)
    cases grad with
    | none =>
      simp only [optEl, List.append_nil, foldOpt_single]
      unfold PatternFill.write at hpr ⊢
      rw [Fill.step_pattern, hpr]; rfl
    | some g =>
      have := GradientFill.read_write cf hz g (hg g rfl)
      simp only [optEl, List.cons_append, List.nil_append, foldOpt]
      unfold PatternFill.write at hpr ⊢
      unfold GradientFill.write at this ⊢
      rw [Fill.step_pattern, hpr]
      simp only [Option.map_some, Option.bind_some]
      rw [Fill.step_gradient, this]; rfl

theorem Fill.norm_idem (f : Fill) : f.norm.norm = f.norm := by
  obtain ⟨pat, grad⟩ := f
  cases grad with
  | some g => simp [Fill.norm, GradientFill.norm_idem]
  | none => cases pat <;> simp [Fill.norm, PatternFill.norm_idem]

theorem Fill.eff_norm (f : Fill) (h : f.WF = true) : f.norm.eff = f.eff := by
  obtain ⟨pat, grad⟩ := f
  cases grad with
  | some g =>
    cases pat with
    | some p => simp [Fill.WF] at h
    | none =>
      simp only [Fill.WF, Bool.true_and, Bool.and_eq_true] at h
      simp [Fill.norm, Fill.eff, GradientFill.eff_norm g h.1]
  | none =>
    cases pat with
    | none => simp [Fill.norm, Fill.eff]
    | some p =>
      simp only [Fill.WF, Bool.and_true] at h
      simp [Fill.norm, Fill.eff, PatternFill.eff_norm p h]

end
end Umya.StyleCodec
