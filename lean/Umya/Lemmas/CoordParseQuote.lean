/-
  The exact set of sheet names `Address::get_address_ptn2` prints WITHOUT apostrophes
  (`needsQuote n = false ↔ plainByLibraryB n`): the unanchored pattern of `index_from_coordinate` finds a column in every
  name that starts with an upper-case letter and a row in every name that starts with a digit run fitting `u32`.
-/
import Umya.Lemmas.CoordParseAddr
namespace Umya.Annot
open Umya.Coord Umya.Dec

theorem alnum_not_ws (c : Char) (h : isAlnumAscii c = true) : isWhitespace c = false := by
  simp only [isAlnumAscii, isDigit, isUpperAZ, isLowerAZ, Bool.or_eq_true, Bool.and_eq_true, decide_eq_true_eq] at h
  simp only [isWhitespace, Bool.or_eq_false_iff, Bool.and_eq_false_iff, decide_eq_false_iff_not]
  omega

theorem indexFromCoordinate_nil : indexFromCoordinate [] = (none, none, none, none) := by
  simp [indexFromCoordinate, matchColGroup_nil, matchRowGroup_nil]

theorem matchColGroup_upper (c : Char) (r : Text) (hu : isUpperAZ c = true) :
    ∃ x, matchColGroup (c :: r) = some x := by
  have hd : c ≠ '$' := by intro e; subst e; simp [isUpperAZ] at hu
  unfold matchColGroup
  split
  · rename_i heq; injection heq with h1 _; exact absurd h1 hd
  · simp [takeUpTo3Upper, takeUpper, hu]

theorem matchColGroup_not_upper (c : Char) (r : Text) (hu : isUpperAZ c = false) (hd : c ≠ '$') :
    matchColGroup (c :: r) = none := by
  unfold matchColGroup
  split
  · rename_i heq; injection heq with h1 _; exact absurd h1 hd
  · simp [takeUpTo3Upper, takeUpper, hu]

theorem matchRowGroup_not_digit (c : Char) (r : Text) (hu : isDigit c = false) (hd : c ≠ '$') :
    matchRowGroup (c :: r) = none := by
  unfold matchRowGroup
  split
  · rename_i heq; injection heq with h1 _; exact absurd h1 hd
  · simp [List.takeWhile, hu]

theorem matchRowGroup_digit (c : Char) (r : Text) (hu : isDigit c = true) :
    matchRowGroup (c :: r) = some (false, (c :: r).takeWhile isDigit) := by
  have hd : c ≠ '$' := by intro e; subst e; simp [isDigit] at hu
  unfold matchRowGroup
  split
  · rename_i heq; injection heq with h1 _; exact absurd h1 hd
  · simp [List.takeWhile, hu]

theorem takeWhile_all {α} (p : α → Bool) (l : List α) : (l.takeWhile p).all p = true := by
  induction l with
  | nil => rfl
  | cons a t ih =>
    simp only [List.takeWhile_cons]
    split
    · rename_i hp; simp [hp, ih]
    · rfl

/-- a name of `[0-9a-zA-Z]+`: which ones `index_from_coordinate` finds nothing in -/
theorem coordNone_alnum (c : Char) (r : Text) (hc : isAlnumAscii c = true) :
    (indexFromCoordinate (c :: r) == (none, none, none, none)) =
      (isLowerAZ c || (isDigit c && decide (4294967296 ≤ parseDec ((c :: r).takeWhile isDigit)))) := by
  have hcls : isDigit c = true ∨ isUpperAZ c = true ∨ isLowerAZ c = true := by
    simpa [isAlnumAscii, or_assoc] using hc
  have hd : c ≠ '$' := by intro e; subst e; simp [isAlnumAscii, isDigit, isUpperAZ, isLowerAZ] at hc
  rcases hcls with h | h | h
  · -- digit
    have hnu : isUpperAZ c = false := isDigit_not_upper c h
    have hnl : isLowerAZ c = false := by
      simp only [isDigit, Bool.and_eq_true, decide_eq_true_eq] at h
      simp only [isLowerAZ, Bool.and_eq_false_iff, decide_eq_false_iff_not]; omega
    have hall := takeWhile_all isDigit (c :: r)
    have hne : ((c :: r).takeWhile isDigit).isEmpty = false := by simp [List.takeWhile, h]
    simp only [indexFromCoordinate, matchColGroup_not_upper c r hnu hd, matchRowGroup_digit c r h, hnl, h,
      Bool.false_or, Bool.true_and, Option.bind_some, Option.map_none, parseU32, hne, hall, Bool.false_eq_true,
      if_false, if_true]
    by_cases hv : parseDec ((c :: r).takeWhile isDigit) < 4294967296
    · simp [hv, Nat.not_le.mpr hv]
    · simp [hv, Nat.not_lt.mp hv]
  · -- upper
    obtain ⟨x, hx⟩ := matchColGroup_upper c r h
    have hup := (isUpperAZ_iff c).1 h
    have hnl : isLowerAZ c = false := by
      simp only [isLowerAZ, Bool.and_eq_false_iff, decide_eq_false_iff_not]; omega
    have hnd : isDigit c = false := by
      simp only [isDigit, Bool.and_eq_false_iff, decide_eq_false_iff_not]; omega
    simp [indexFromCoordinate, hx, hnl, hnd]
  · -- lower
    have hlo : 97 ≤ c.toNat ∧ c.toNat ≤ 122 := by simpa [isLowerAZ] using h
    have hnu : isUpperAZ c = false := by
      simp only [isUpperAZ, Bool.and_eq_false_iff, decide_eq_false_iff_not]; omega
    have hnd : isDigit c = false := by
      simp only [isDigit, Bool.and_eq_false_iff, decide_eq_false_iff_not]; omega
    simp [indexFromCoordinate, matchColGroup_not_upper c r hnu hd, matchRowGroup_not_digit c r hnd hd, h]

/-- **the library's quoting rule, exactly** -/
theorem needsQuote_eq (n : Text) : needsQuote n = !plainByLibraryB n := by
  cases hE : n.any (fun c => !isAlnumAscii c)
  · have hal : ∀ c ∈ n, isAlnumAscii c = true := by
      intro c hc
      have := List.any_eq_false.1 hE c hc
      simpa using this
    have hA : n.any isWhitespace = false := by
      rw [List.any_eq_false]; intro c hc; simp [alnum_not_ws c (hal c hc)]
    have hmem : ∀ x : Char, isAlnumAscii x = false → n.contains x = false := by
      intro x hx
      rw [List.contains_eq_mem]
      simp only [decide_eq_false_iff_not]
      intro hm
      rw [hal x hm] at hx; cases hx
    have hall : n.all isAlnumAscii = true := List.all_eq_true.2 hal
    unfold needsQuote plainByLibraryB
    rw [hA, hE, hmem '!' (by decide), hmem '\'' (by decide), hmem '"' (by decide), hall]
    cases n with
    | nil => simp [indexFromCoordinate_nil]
    | cons c r =>
      have := coordNone_alnum c r (hal c (by simp))
      simp only [Bool.false_or, Bool.true_and, bne, this]
  · have hall : n.all isAlnumAscii = false := by
      rw [List.all_eq_false]
      obtain ⟨c, hc, hx⟩ := List.any_eq_true.1 hE
      exact ⟨c, hc, by simpa using hx⟩
    unfold needsQuote plainByLibraryB
    rw [hE, hall]; simp

end Umya.Annot
