/-
  Cells under re-saving: the blank unstyled cells `normalize` drops are exactly the ones the writer skips without
  touching the string table, so the SECOND save writes the very same facts as the first — same `<c>` elements, same
  shared-string part.  This gives closure of C01's side condition (the size of the written string table) under
  `normalize`, and locality of a single-cell edit.
-/
import Umya.Lemmas.BookRoundTrip
namespace Umya.CellXml
open Umya.Num

section
variable (F : NumFmt)

/-- `write_to` resolves first, so a cell whose value was resolved beforehand is written the same way -/
theorem writeTo_resolved (tbl : Table) (c : Cell F.Num) : writeTo F tbl (Cell.resolved F c) = writeTo F tbl c := by
  unfold writeTo; rw [resolved_idem]

theorem writeCells_filter : ∀ (cs : List (Cell F.Num)) (tbl : Table),
    writeCells F tbl ((cs.filter (fun c => !blankUnstyled F c)).map (Cell.resolved F)) = writeCells F tbl cs
  | [], _ => rfl
  | c :: cs, tbl => by
    cases hb : blankUnstyled F c with
    | true =>
      have hw : writeTo F tbl c = some (tbl, none) := by
        have hb' : blankCore F (Cell.resolved F c) = true := hb
        simp [writeTo, writeCore, hb']
      simp only [List.filter_cons, hb, Bool.not_true, Bool.false_eq_true, if_false, writeCells, hw,
        writeCells_filter cs tbl]
      cases writeCells F tbl cs with
      | none => rfl
      | some p => rfl
    | false =>
      simp only [List.filter_cons, hb, Bool.not_false, if_true, List.map_cons, writeCells, writeTo_resolved]
      cases writeTo F tbl c with
      | none => rfl
      | some p => simp only [writeCells_filter cs p.1]

theorem writeSheets_normalize : ∀ (sheets : List (List (Cell F.Num))) (tbl : Table),
    writeSheets F tbl (normalize F sheets) = writeSheets F tbl sheets
  | [], _ => rfl
  | s :: ss, tbl => by
    simp only [normalize, List.map_cons, writeSheets, writeCells_filter]
    cases writeCells F tbl s with
    | none => rfl
    | some p =>
      have := writeSheets_normalize ss p.1
      simp only [normalize] at this
      simp only [this]

/-- the second save writes the same package facts as the first -/
theorem writeBook_normalize (light : Bool) (sheets : List (List (Cell F.Num))) :
    writeBook F light (normalize F sheets) = writeBook F light sheets := by
  simp only [writeBook, writeSheets_normalize]

/-- a kept cell stays kept once resolved, and resolving it again changes nothing -/
theorem normSheet_idem (s : List (Cell F.Num)) :
    (((s.filter (fun c => !blankUnstyled F c)).map (Cell.resolved F)).filter (fun c => !blankUnstyled F c)).map (Cell.resolved F)
      = (s.filter (fun c => !blankUnstyled F c)).map (Cell.resolved F) := by
  induction s with
  | nil => rfl
  | cons c cs ih =>
    cases hb : blankUnstyled F c with
    | true => simpa [List.filter_cons, hb] using ih
    | false =>
      have hb' : blankUnstyled F (Cell.resolved F c) = false := by rw [blankUnstyled_resolved]; exact hb
      simp only [List.filter_cons, hb, hb', Bool.not_false, if_true, List.map_cons, resolved_idem]
      rw [ih]

theorem normalize_idem' (sheets : List (List (Cell F.Num))) : normalize F (normalize F sheets) = normalize F sheets := by
  simp only [normalize, List.map_map]
  apply List.map_congr_left
  intro s _
  exact normSheet_idem F s

theorem normalize_cellOK (sheets : List (List (Cell F.Num))) (h : ∀ s ∈ sheets, ∀ c ∈ s, cellOK F c = true) :
    ∀ s ∈ normalize F sheets, ∀ c ∈ s, cellOK F c = true := by
  intro s hs c hc
  simp only [normalize, List.mem_map] at hs
  obtain ⟨s0, hs0, rfl⟩ := hs
  obtain ⟨c0, hc0, rfl⟩ := List.mem_map.1 hc
  exact cellOK_resolved F (h s0 hs0 c0 (List.mem_filter.1 hc0).1)

/-- one save + load of all cells of a workbook -/
def cellsRs (light : Bool) (sheets : List (List (Cell F.Num))) : Option (List (List (Cell F.Num))) :=
  (writeBook F light sheets).bind (readBook F)

/-- the hypotheses of `C01_roundtrip`: covered cells, and fewer than 2^64 distinct strings written -/
def CellsWF (light : Bool) (sheets : List (List (Cell F.Num))) : Prop :=
  (∀ s ∈ sheets, ∀ c ∈ s, cellOK F c = true) ∧
  ∀ b, writeBook F light sheets = some b → b.sst.length < 18446744073709551616

theorem cellsRs_eq (hF : F.Sound) (light : Bool) (sheets : List (List (Cell F.Num))) (h : CellsWF F light sheets) :
    cellsRs F light sheets = some (normalize F sheets) := by
  obtain ⟨b, hw, hr⟩ := writeBook_readBook F hF light sheets h.1
  simp [cellsRs, hw, hr (h.2 b hw)]

theorem CellsWF_normalize (light : Bool) (sheets : List (List (Cell F.Num))) (h : CellsWF F light sheets) :
    CellsWF F light (normalize F sheets) :=
  ⟨normalize_cellOK F sheets h.1, fun b hb => h.2 b (by rw [← writeBook_normalize]; exact hb)⟩

/-! ### one cell edited -/

/-- `set_value…` on the cell at (row, column) `k` of one sheet's cell list: every cell with that coordinate is
    replaced by `f` of itself, every other cell is left alone -/
def editSheet (k : Nat × Nat) (f : Cell F.Num → Cell F.Num) (s : List (Cell F.Num)) : List (Cell F.Num) :=
  s.map (fun c => if (c.row, c.col) = k then f c else c)

/-- the same on sheet `i` of a workbook (nothing happens when there is no such sheet) -/
def editCells (cells : List (List (Cell F.Num))) (i : Nat) (k : Nat × Nat) (f : Cell F.Num → Cell F.Num) :
    List (List (Cell F.Num)) :=
  match cells[i]? with
  | some s => cells.set i (editSheet F k f s)
  | none => cells

theorem filter_editSheet (k : Nat × Nat) (f : Cell F.Num → Cell F.Num)
    (hf : ∀ c, blankUnstyled F (f c) = blankUnstyled F c) : ∀ s : List (Cell F.Num),
    (editSheet F k f s).filter (fun c => !blankUnstyled F c) = editSheet F k f (s.filter (fun c => !blankUnstyled F c))
  | [] => rfl
  | c :: s => by
    have ih := filter_editSheet k f hf s
    simp only [editSheet] at ih ⊢
    by_cases hk : (c.row, c.col) = k
    · cases hb : blankUnstyled F c <;> simp [List.filter_cons, hk, hf, hb, ih]
    · cases hb : blankUnstyled F c <;> simp [List.filter_cons, hk, hb, ih]

/-- an edit that commutes with resolving (it sets a definite value / formula / style, or leaves the value alone)
    can be applied before or after the cells are resolved: `resolved` keeps the coordinate the edit is keyed by -/
theorem map_resolved_editSheet (k : Nat × Nat) (f : Cell F.Num → Cell F.Num)
    (hr : ∀ c, Cell.resolved F (f c) = f (Cell.resolved F c)) (s : List (Cell F.Num)) :
    (editSheet F k f s).map (Cell.resolved F) = editSheet F k f (s.map (Cell.resolved F)) := by
  simp only [editSheet, List.map_map]
  apply List.map_congr_left
  intro c _
  show Cell.resolved F (if (c.row, c.col) = k then f c else c)
    = if ((Cell.resolved F c).row, (Cell.resolved F c).col) = k then f (Cell.resolved F c) else Cell.resolved F c
  have e : ((Cell.resolved F c).row, (Cell.resolved F c).col) = (c.row, c.col) := rfl
  rw [e]
  by_cases hk : (c.row, c.col) = k
  · rw [if_pos hk, if_pos hk, hr]
  · rw [if_neg hk, if_neg hk]

/-- saving and loading commutes with an edit that keeps the cell non-blank (or blank) and commutes with resolving:
    the edited cell is the only thing that differs, before and after -/
theorem normalize_editCells (cells : List (List (Cell F.Num))) (i : Nat) (k : Nat × Nat) (f : Cell F.Num → Cell F.Num)
    (hf : ∀ c, blankUnstyled F (f c) = blankUnstyled F c)
    (hr : ∀ c, Cell.resolved F (f c) = f (Cell.resolved F c)) :
    normalize F (editCells F cells i k f) = editCells F (normalize F cells) i k f := by
  unfold editCells
  cases h : cells[i]? with
  | none =>
    have : (normalize F cells)[i]? = none := by simp [normalize, h]
    simp [this]
  | some s =>
    have : (normalize F cells)[i]? = some ((s.filter (fun c => !blankUnstyled F c)).map (Cell.resolved F)) := by
      simp [normalize, h]
    simp only [this]
    simp only [normalize, List.map_set, filter_editSheet F k f hf, map_resolved_editSheet F k f hr]

/-- the other sheets are untouched by the edit -/
theorem editCells_other (cells : List (List (Cell F.Num))) (i i' : Nat) (k : Nat × Nat) (f : Cell F.Num → Cell F.Num)
    (hne : i' ≠ i) : (editCells F cells i k f)[i']? = cells[i']? := by
  unfold editCells
  cases h : cells[i]? with
  | none => rfl
  | some s => simp [List.getElem?_set, Ne.symm hne]

/-- on the edited sheet, every cell at another coordinate is untouched -/
theorem editSheet_other (k : Nat × Nat) (f : Cell F.Num → Cell F.Num) (s : List (Cell F.Num)) (j : Nat) (c : Cell F.Num)
    (hj : s[j]? = some c) (hk : (c.row, c.col) ≠ k) : (editSheet F k f s)[j]? = some c := by
  simp [editSheet, hj, hk]

end
end Umya.CellXml
