/-
  The standard model of IEEE-754 binary64 arithmetic (round to nearest), as HYPOTHESES on an instance
  of the model's float interface `Umya.Date.FloatOps F`, and the error analysis of the `f64` code of
  `helper/date.rs` under those hypotheses (helper lemmas for `Umya/Thm/C18Float.lean`).

  `StdModel F val fin`:  `val : F → ℚ` is the number a float stands for, `fin a` says that `a` is a
  finite float (not NaN, not ±∞).  For finite arguments, and as long as the exact result does not
  exceed `big = 2¹⁰²³` in magnitude (no overflow):
    * `add`, `sub` return a finite float whose value is the exact result times `1 + δ`, `|δ| ≤ u = 2⁻⁵³`;
    * `mul`, `div` return a finite float whose value is the exact result times `1 + δ` plus `η`,
      `|δ| ≤ u`, `|η| ≤ eta = 2⁻¹⁰⁷⁴` (`η` is the absolute error of a result in the subnormal range;
      the plain standard model `η = 0` is the special case "no underflow");
    * `floor`, `round` (half away from zero) are exact on the represented value and finite;
    * `ofInt n` is finite and exact for `|n| ≤ 2⁵³`;
    * `lt` is the order of the values; `toInt` (`as i64`) is truncation for `|value| ≤ 2⁵³`.
  Nothing here says that Lean's native `Float` (or Rust's `f64`) satisfies `StdModel`: `Float` is opaque
  to the kernel.  That link is an assumption (IEEE-754 conformance of the hardware/libm operations
  `+ - * / floor round`, conversion from `i32` and to `i64`), recorded in tools/props.d/C18.py.

  The hypotheses used are weaker than the textbook "every operation is exact times (1+δ)": an instance
  in which every operation is exact times `(1 + δ)` for all arguments satisfies `StdModel` with
  `fin := fun _ => True` and `η := 0`.

  Mathlib is imported here (ℚ as an ordered field, `Int.floor`, `linarith`); no model / driver file
  imports this module.
-/
import Umya.Model.Date
import Mathlib.Data.Rat.Floor
import Mathlib.Tactic.Linarith
import Mathlib.Tactic.NormNum
namespace Umya.Lemmas.FloatStd
open Umya.Date Umya.Date.FloatOps

/-- unit roundoff of binary64, `2⁻⁵³` -/
def u : ℚ := 1 / 2 ^ 53
/-- bound on the absolute error of a product / quotient that falls into the subnormal range
    (the spacing of subnormals, `2⁻¹⁰⁷⁴`; half of it would do) -/
def eta : ℚ := 1 / 2 ^ 1074
/-- results up to this magnitude do not overflow (`2¹⁰²³` < largest finite binary64) -/
def big : ℚ := 2 ^ 1023

theorem u_pos : 0 < u := by unfold u; norm_num
theorem u_le : u ≤ 1 / 2 ^ 53 := le_of_eq rfl
theorem u_val : u = 1 / 9007199254740992 := by unfold u; norm_num
theorem eta_nonneg : 0 ≤ eta := by unfold eta; positivity
theorem eta_le_u : eta ≤ u := by
  unfold eta u
  apply one_div_le_one_div_of_le (by positivity)
  exact pow_le_pow_right₀ (by norm_num) (by norm_num)
theorem big_ge : (2 : ℚ) ^ 53 ≤ big := by
  unfold big
  exact pow_le_pow_right₀ (by norm_num) (by norm_num)

/-- The standard model of binary64 arithmetic on the float interface of the date model. -/
structure StdModel (F : Type) [FloatOps F] (val : F → ℚ) (fin : F → Prop) : Prop where
  ofInt_exact : ∀ n : Int, |(n : ℚ)| ≤ 2 ^ 53 → fin (ofInt n : F) ∧ val (ofInt n : F) = n
  add_err : ∀ a b : F, fin a → fin b → |val a + val b| ≤ big →
    fin (add a b) ∧ ∃ δ : ℚ, |δ| ≤ u ∧ val (add a b) = (val a + val b) * (1 + δ)
  sub_err : ∀ a b : F, fin a → fin b → |val a - val b| ≤ big →
    fin (sub a b) ∧ ∃ δ : ℚ, |δ| ≤ u ∧ val (sub a b) = (val a - val b) * (1 + δ)
  mul_err : ∀ a b : F, fin a → fin b → |val a * val b| ≤ big →
    fin (mul a b) ∧ ∃ δ η : ℚ, |δ| ≤ u ∧ |η| ≤ eta ∧ val (mul a b) = (val a * val b) * (1 + δ) + η
  div_err : ∀ a b : F, fin a → fin b → val b ≠ 0 → |val a / val b| ≤ big →
    fin (div a b) ∧ ∃ δ η : ℚ, |δ| ≤ u ∧ |η| ≤ eta ∧ val (div a b) = (val a / val b) * (1 + δ) + η
  floor_exact : ∀ a : F, fin a → fin (floor a) ∧ val (floor a) = (⌊val a⌋ : ℚ)
  round_exact : ∀ a : F, fin a → fin (round a) ∧ val (round a) = (ratRound (val a) : ℚ)
  lt_exact : ∀ a b : F, fin a → fin b → (lt a b = true ↔ val a < val b)
  toInt_exact : ∀ a : F, fin a → |val a| ≤ 2 ^ 53 → toInt a = ratTrunc (val a)

/-- Correct rounding, the part that the error bounds do not imply: an operation whose exact result is
    itself (the value of) a finite float returns that value.  Needed only at 1900-01-01T00:00:00
    (serial exactly `1`, the threshold of the base-date comparison `excel_timestamp < 1`). -/
structure ExactRepr (F : Type) [FloatOps F] (val : F → ℚ) (fin : F → Prop) : Prop where
  add_exact : ∀ a b c : F, fin a → fin b → fin c → val a + val b = val c → val (add a b) = val c
  div_exact : ∀ a b c : F, fin a → fin b → fin c → val b ≠ 0 → val a / val b = val c →
    val (div a b) = val c

/-! ## rounding functions of the model on ℚ -/

/-- `ratRound` (half away from zero) returns the integer within `1/2` of its argument -/
theorem ratRound_eq (y : ℚ) (n : ℤ) (h : |y - n| < 1 / 2) : ratRound y = n := by
  obtain ⟨h1, h2⟩ := abs_lt.1 h
  unfold ratRound
  split
  · show ⌊y + 1 / 2⌋ = n
    rw [Int.floor_eq_iff]; constructor <;> linarith
  · have : ⌊-y + 1 / 2⌋ = -n := by
      rw [Int.floor_eq_iff]; push_cast; constructor <;> linarith
    show -⌊-y + 1 / 2⌋ = n
    rw [this]; simp

theorem ratTrunc_int (n : ℤ) : ratTrunc (n : ℚ) = n := by
  unfold ratTrunc
  split
  · show ⌊(n : ℚ)⌋ = n
    exact Int.floor_intCast n
  · show -⌊-(n : ℚ)⌋ = n
    have : -(n : ℚ) = ((-n : ℤ) : ℚ) := by push_cast; ring
    rw [this, Int.floor_intCast]; simp

/-! ## one operation: absolute error -/

theorem rel_to_abs (x δ B : ℚ) (hx : |x| ≤ B) (hδ : |δ| ≤ u) : |x * (1 + δ) - x| ≤ B * u := by
  have e : x * (1 + δ) - x = x * δ := by ring
  rw [e, abs_mul]
  exact mul_le_mul hx hδ (abs_nonneg _) (le_trans (abs_nonneg _) hx)

section ops
variable {F : Type} [FloatOps F] {val : F → ℚ} {fin : F → Prop}

theorem add_abs (h : StdModel F val fin) {a b : F} (fa : fin a) (fb : fin b) {B : ℚ}
    (hB : |val a + val b| ≤ B) (hb : B ≤ big) :
    fin (add a b) ∧ |val (add a b) - (val a + val b)| ≤ B * u := by
  obtain ⟨f, δ, hδ, e⟩ := h.add_err a b fa fb (le_trans hB hb)
  exact ⟨f, by rw [e]; exact rel_to_abs _ _ _ hB hδ⟩

theorem sub_abs (h : StdModel F val fin) {a b : F} (fa : fin a) (fb : fin b) {B : ℚ}
    (hB : |val a - val b| ≤ B) (hb : B ≤ big) :
    fin (sub a b) ∧ |val (sub a b) - (val a - val b)| ≤ B * u := by
  obtain ⟨f, δ, hδ, e⟩ := h.sub_err a b fa fb (le_trans hB hb)
  exact ⟨f, by rw [e]; exact rel_to_abs _ _ _ hB hδ⟩

theorem mul_abs (h : StdModel F val fin) {a b : F} (fa : fin a) (fb : fin b) {B : ℚ}
    (hB : |val a * val b| ≤ B) (hb : B ≤ big) :
    fin (mul a b) ∧ |val (mul a b) - val a * val b| ≤ B * u + eta := by
  obtain ⟨f, δ, η, hδ, hη, e⟩ := h.mul_err a b fa fb (le_trans hB hb)
  refine ⟨f, ?_⟩
  have r := rel_to_abs _ _ _ hB hδ
  rw [e]
  obtain ⟨r1, r2⟩ := abs_le.1 r
  obtain ⟨n1, n2⟩ := abs_le.1 hη
  exact abs_le.2 ⟨by linarith, by linarith⟩

theorem div_abs (h : StdModel F val fin) {a b : F} (fa : fin a) (fb : fin b) (hb0 : val b ≠ 0) {B : ℚ}
    (hB : |val a / val b| ≤ B) (hb : B ≤ big) :
    fin (div a b) ∧ |val (div a b) - val a / val b| ≤ B * u + eta := by
  obtain ⟨f, δ, η, hδ, hη, e⟩ := h.div_err a b fa fb hb0 (le_trans hB hb)
  refine ⟨f, ?_⟩
  have r := rel_to_abs _ _ _ hB hδ
  rw [e]
  obtain ⟨r1, r2⟩ := abs_le.1 r
  obtain ⟨n1, n2⟩ := abs_le.1 hη
  exact abs_le.2 ⟨by linarith, by linarith⟩

theorem ofInt_ok (h : StdModel F val fin) (n : ℤ) (h0 : -4503599627370496 ≤ n) (h1 : n ≤ 4503599627370496) :
    fin (ofInt n : F) ∧ val (ofInt n : F) = n := by
  apply h.ofInt_exact
  have a0 : (-4503599627370496 : ℚ) ≤ n := by exact_mod_cast h0
  have a1 : (n : ℚ) ≤ 4503599627370496 := by exact_mod_cast h1
  exact abs_le.2 ⟨by norm_num; linarith, by norm_num; linarith⟩

end ops

end Umya.Lemmas.FloatStd
