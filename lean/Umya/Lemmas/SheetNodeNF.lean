/-
  The `<worksheet>` and `<Relationships>` trees of `Umya/Model/SheetNode.lean` are in the XML reader's normal
  form as soon as the opaque frame is (`Frame.nf`, decidable): `renderSheet_isNF`, `relsRoot_isNF`.
-/
import Umya.Lemmas.CellNodeNF
import Umya.Lemmas.SheetNodeCells
namespace Umya.SheetNode
open Umya.Xml Umya.CellXml Umya.CellNode Umya.XmlWrite
open Umya.Spec.Xml (Node Attr)

/-- the opaque children of `<worksheet>` contain no empty text node and no two adjacent text nodes (what an
    XML reader delivers anyway) -/
def Frame.nf (fr : Frame) : Bool := isNFKids fr.pre && isNFKids fr.mid1 && isNFKids fr.mid2 && isNFKids fr.post

theorem isNFKids_of_all (l : List Node) (h : ∀ k ∈ l, k.isElem = true ∧ isNF k = true) : isNFKids l = true := by
  induction l with
  | nil => simp [isNFKids]
  | cons k r ih =>
    rw [isNFKids_elem_cons k r (h k (by simp)).1, (h k (by simp)).2, ih (fun x hx => h x (by simp [hx]))]; rfl

theorem mapOpt_all {α β} (f : α → Option β) (P : β → Prop) (hf : ∀ a b, f a = some b → P b) :
    ∀ (l : List α) (r : List β), mapOpt f l = some r → ∀ b ∈ r, P b := by
  intro l
  induction l with
  | nil => intro r h b hb; simp [mapOpt] at h; subst h; simp at hb
  | cons a as ih =>
    intro r h b hb
    simp only [mapOpt] at h
    cases h1 : f a with
    | none => simp [h1] at h
    | some b0 =>
      cases h2 : mapOpt f as with
      | none => simp [h1, h2] at h
      | some bs =>
        simp only [h1, h2] at h
        injection h with h
        subst h
        rcases List.mem_cons.1 hb with rfl | hb
        · exact hf a _ h1
        · exact ih bs h2 b hb

theorem sheetDataNode_nf {N} (xf : List Char → Nat) (ws : List (RowX N)) (sd : Node) (h : sheetDataNode xf ws = some sd) :
    sd.isElem = true ∧ isNF sd = true := by
  simp only [sheetDataNode, Option.map_eq_some_iff] at h
  obtain ⟨rows, hr, rfl⟩ := h
  refine ⟨rfl, ?_⟩
  show isNFKids rows = true
  apply isNFKids_of_all
  apply mapOpt_all (rowNode xf) (fun k => k.isElem = true ∧ isNF k = true) _ ws rows hr
  intro w b hb
  simp only [rowNode, Option.map_eq_some_iff] at hb
  obtain ⟨cs, hc, rfl⟩ := hb
  exact ⟨rfl, (renderCells_nf xf w.xs cs hc).2⟩

theorem mergeNodes_nf (ms : List (List Char)) : ∀ k ∈ mergeNodes ms, k.isElem = true ∧ isNF k = true := by
  intro k hk
  unfold mergeNodes at hk
  split at hk
  · simp at hk
  · simp only [List.mem_singleton] at hk
    subst hk
    refine ⟨rfl, ?_⟩
    show isNFKids _ = true
    apply isNFKids_of_all
    intro x hx
    obtain ⟨m, _, rfl⟩ := List.mem_map.1 hx
    exact ⟨rfl, by simp [isNF, isNFKids]⟩

theorem hlWalk_nf (ls : List LinkW) : ∀ k, ∀ x ∈ hlWalk k ls, x.isElem = true ∧ isNF x = true := by
  induction ls with
  | nil => intro k x hx; simp [hlWalk] at hx
  | cons l ls ih =>
    intro k x hx
    simp only [hlWalk] at hx
    split at hx
    · rcases List.mem_cons.1 hx with rfl | hx
      · exact ⟨rfl, by simp [isNF, isNFKids]⟩
      · exact ih _ x hx
    · rcases List.mem_cons.1 hx with rfl | hx
      · exact ⟨rfl, by simp [isNF, isNFKids]⟩
      · exact ih _ x hx

theorem hyperlinkNodes_nf (ls : List LinkW) : ∀ k ∈ hyperlinkNodes ls, k.isElem = true ∧ isNF k = true := by
  intro k hk
  unfold hyperlinkNodes at hk
  split at hk
  · simp at hk
  · simp only [List.mem_singleton] at hk
    subst hk
    exact ⟨rfl, isNFKids_of_all _ (hlWalk_nf ls 1)⟩

theorem relWalk_nf (ls : List LinkW) : ∀ k, ∀ x ∈ relWalk k ls, x.isElem = true ∧ isNF x = true := by
  induction ls with
  | nil => intro k x hx; simp [relWalk] at hx
  | cons l ls ih =>
    intro k x hx
    simp only [relWalk] at hx
    split at hx
    · exact ih _ x hx
    · rcases List.mem_cons.1 hx with rfl | hx
      · exact ⟨rfl, by simp [relNode, isNF, isNFKids]⟩
      · exact ih _ x hx

theorem opaqueOk_isElem (lo hi : Nat) (k : Node) (h : opaqueOk lo hi k = true) : k.isElem = true := by
  unfold opaqueOk at h
  simp only [Bool.and_eq_true] at h
  exact h.1

theorem frame_elems (fr : Frame) (h : fr.ok = true) :
    (∀ k ∈ fr.pre, k.isElem = true) ∧ (∀ k ∈ fr.mid1, k.isElem = true) ∧ (∀ k ∈ fr.mid2, k.isElem = true) ∧ (∀ k ∈ fr.post, k.isElem = true) := by
  unfold Frame.ok at h
  simp only [Bool.and_eq_true, List.all_eq_true] at h
  obtain ⟨⟨⟨⟨⟨⟨⟨h1, _⟩, h2⟩, _⟩, h3⟩, _⟩, h4⟩, _⟩ := h
  refine ⟨fun k hk => opaqueOk_isElem _ _ k (h1 k hk), fun k hk => opaqueOk_isElem _ _ k (h2 k hk),
    fun k hk => opaqueOk_isElem _ _ k (h3 k hk), fun k hk => ?_⟩
  have := h4 k hk
  simp only [Bool.or_eq_true] at this
  rcases this with h | h <;> exact opaqueOk_isElem _ _ k h

theorem isNFKids_all_elems (l : List Node) (h : isNFKids l = true) (he : ∀ k ∈ l, k.isElem = true) : ∀ k ∈ l, k.isElem = true ∧ isNF k = true := by
  induction l with
  | nil => intro k hk; simp at hk
  | cons a r ih =>
    rw [isNFKids_elem_cons a r (he a (by simp)), Bool.and_eq_true] at h
    intro k hk
    rcases List.mem_cons.1 hk with rfl | hk
    · exact ⟨he _ (by simp), h.1⟩
    · exact ih h.2 (fun x hx => he x (by simp [hx])) k hk

/-- the `<worksheet>` tree is in the reader's normal form -/
theorem worksheetNode_isNF (fr : Frame) (sd : Node) (merges : List (List Char)) (links : List LinkW)
    (hfr : fr.ok = true) (hnf : fr.nf = true) (hsd : sd.isElem = true ∧ isNF sd = true) :
    isNF (worksheetNode fr sd merges links) = true := by
  obtain ⟨e1, e2, e3, e4⟩ := frame_elems fr hfr
  unfold Frame.nf at hnf
  simp only [Bool.and_eq_true] at hnf
  obtain ⟨⟨⟨n1, n2⟩, n3⟩, n4⟩ := hnf
  show isNFKids _ = true
  apply isNFKids_of_all
  intro k hk
  simp only [List.mem_append, List.mem_singleton] at hk
  rcases hk with ((((((hk | hk) | hk) | hk) | hk) | hk) | hk) | hk
  · exact isNFKids_all_elems _ n1 e1 k hk
  · subst hk; exact hsd
  · exact isNFKids_all_elems _ n2 e2 k hk
  · exact mergeNodes_nf merges k hk
  · subst hk; exact phoneticPr_nf
  · exact isNFKids_all_elems _ n3 e3 k hk
  · exact hyperlinkNodes_nf links k hk
  · exact isNFKids_all_elems _ n4 e4 k hk

section
variable (F : Umya.Num.NumFmt)

theorem renderSheet_shape (xf : List Char → Nat) (fr : Frame) (tbl : Table) (s : SheetW F.Num) (tbl' : Table) (root : Node)
    (h : renderSheet F xf fr tbl s = some (tbl', root)) :
    ∃ sd, sd.isElem = true ∧ isNF sd = true ∧ root = worksheetNode fr sd s.merges s.links := by
  unfold renderSheet at h
  cases hw : writeRows F tbl (rowGroups s.rows s.cells) with
  | none => simp [hw] at h
  | some q =>
    obtain ⟨t1, ws⟩ := q
    simp only [hw, Option.map_eq_some_iff] at h
    obtain ⟨sd, hsd, he⟩ := h
    obtain ⟨h1, h2⟩ := sheetDataNode_nf xf ws sd hsd
    exact ⟨sd, h1, h2, (Prod.mk.inj he).2.symm⟩

theorem renderSheet_isNF (xf : List Char → Nat) (fr : Frame) (tbl : Table) (s : SheetW F.Num) (tbl' : Table) (root : Node)
    (h : renderSheet F xf fr tbl s = some (tbl', root)) (hfr : fr.ok = true) (hnf : fr.nf = true) : isNF root = true := by
  obtain ⟨sd, h1, h2, rfl⟩ := renderSheet_shape F xf fr tbl s tbl' root h
  exact worksheetNode_isNF fr sd _ _ hfr hnf ⟨h1, h2⟩

end

/-- the `<Relationships>` tree of a sheet is in the reader's normal form when the opaque relationships are -/
theorem relsRoot_isNF (links : List LinkW) (rest : List Node) (rr : Node) (h : relsRoot links rest = some rr)
    (hrest : isNFKids rest = true) : isNF rr = true := by
  unfold relsRoot at h
  split at h
  · cases h
  · cases h
    show isNFKids (relWalk 1 links ++ rest) = true
    rw [isNFKids_append _ _ (fun k hk => (relWalk_nf links 1 k hk).1), isNFKids_of_all _ (relWalk_nf links 1), hrest]; rfl

end Umya.SheetNode
