/-
  base64 (`Umya/Model/Base64.lean`, RFC 4648 standard alphabet with padding — the executable instance of
  `Prims.b64` / `Prims.unb64`): decoding inverts encoding for EVERY byte string (induction on 3-byte groups), and the
  encoded text consists of the 64 alphabet characters and `=` only (so it is `plain`: no XML escaping, ASCII).
-/
import Umya.Model.Base64
import Umya.Model.AgileInfoW
namespace Umya.Base64

set_option maxRecDepth 8000 in
theorem dec6_enc6 (n : Nat) : dec6 (enc6 n) = some (n % 64) := by
  have h : ∀ k : Fin 64, dec6 (enc6 k.val) = some k.val := by decide
  have := h ⟨n % 64, Nat.mod_lt _ (by omega)⟩
  simp only [enc6, Nat.mod_mod] at this ⊢
  exact this

set_option maxRecDepth 8000 in
theorem enc6_ne_pad (n : Nat) : enc6 n ≠ '=' := by
  have h : ∀ k : Fin 64, enc6 k.val ≠ '=' := by decide
  have := h ⟨n % 64, Nat.mod_lt _ (by omega)⟩
  simp only [enc6, Nat.mod_mod] at this ⊢
  exact this

theorem decode_pad2 (x y : Char) : decode [x, y, '=', '='] =
    match dec6 x, dec6 y with
    | some x, some y => some [UInt8.ofNat ((x * 64 + y) / 16)]
    | _, _ => none := by
  rw [decode]; rfl

theorem decode_pad1 (x y z : Char) (hz : z ≠ '=') : decode [x, y, z, '='] =
    match dec6 x, dec6 y, dec6 z with
    | some x, some y, some z =>
      let n := (x * 64 + y) * 64 + z
      some [UInt8.ofNat (n / 1024), UInt8.ofNat (n / 4 % 256)]
    | _, _, _ => none := by
  rw [decode]
  · rfl
  · exact hz

theorem decode_four (x y z w : Char) (rest : List Char) (hz : z ≠ '=') (hw : w ≠ '=') : decode (x :: y :: z :: w :: rest) =
    match dec6 x, dec6 y, dec6 z, dec6 w, decode rest with
    | some x, some y, some z, some w, some r =>
      let n := ((x * 64 + y) * 64 + z) * 64 + w
      some (UInt8.ofNat (n / 65536) :: UInt8.ofNat (n / 256 % 256) :: UInt8.ofNat (n % 256) :: r)
    | _, _, _, _, _ => none := by
  rw [decode]
  · rfl
  · intro a _ _; exact hz a
  · intro a _; exact hw a

theorem ofNat_toNat' (a : UInt8) (n : Nat) (h : n = a.toNat) : UInt8.ofNat n = a := by
  subst h; exact UInt8.ofNat_toNat

/-- **base64 decoding inverts encoding**, for every byte string (induction on 3-byte groups) -/
theorem decode_encode (bs : List UInt8) : decode (encode bs) = some bs := by
  induction bs using encode.induct with
  | case1 => rfl
  | case2 a =>
    simp only [encode]
    rw [decode_pad2, dec6_enc6, dec6_enc6]
    simp only [Option.some.injEq, List.cons.injEq, and_true]
    apply ofNat_toNat'
    have := a.toNat_lt
    omega
  | case3 a b =>
    simp only [encode]
    rw [decode_pad1 _ _ _ (enc6_ne_pad _), dec6_enc6, dec6_enc6, dec6_enc6]
    simp only [Option.some.injEq, List.cons.injEq, and_true]
    have := a.toNat_lt
    have := b.toNat_lt
    constructor <;> apply ofNat_toNat' <;> omega
  | case4 a b c rest ih =>
    simp only [encode]
    rw [decode_four _ _ _ _ _ (enc6_ne_pad _) (enc6_ne_pad _), dec6_enc6, dec6_enc6, dec6_enc6, dec6_enc6, ih]
    simp only [Option.some.injEq, List.cons.injEq, and_true]
    have := a.toNat_lt
    have := b.toNat_lt
    have := c.toNat_lt
    refine ⟨?_, ?_, ?_⟩ <;> apply ofNat_toNat' <;> omega

open Umya.Crypt (plainChar plain)

set_option maxRecDepth 8000 in
theorem enc6_plain (n : Nat) : plainChar (enc6 n) = true := by
  have h : ∀ k : Fin 64, plainChar (enc6 k.val) = true := by decide
  have := h ⟨n % 64, Nat.mod_lt _ (by omega)⟩
  simp only [enc6, Nat.mod_mod] at this ⊢
  exact this

/-- the encoded text needs no XML escaping and is ASCII -/
theorem encode_plain (bs : List UInt8) : plain (encode bs) = true := by
  induction bs using encode.induct with
  | case1 => rfl
  | case2 a => simp only [encode, plain, List.all_cons, enc6_plain, List.all_nil, Bool.and_true, Bool.true_and]; decide
  | case3 a b => simp only [encode, plain, List.all_cons, enc6_plain, List.all_nil, Bool.and_true, Bool.true_and]; decide
  | case4 a b c rest ih =>
    simp only [plain] at ih
    simp only [encode, plain, List.all_cons, enc6_plain, ih, Bool.and_self]

end Umya.Base64
