/-
  The sorted enumeration of the cell store (`Store.sorted`, `Umya/Model/CellStore.lean`): a merge sort of the entries
  by (row, column).  Lemmas: the sorted entries are a permutation of the store, strictly increasing by position when
  the store has no position twice, and two strictly increasing entry lists that answer every look-up alike are equal.
  Core Lean only (`List.mergeSort_perm`, `List.pairwise_mergeSort` of `Init/Data/List/Sort`).
-/
import Umya.Model.CellStore
namespace Umya.Reader.Lemmas.StoreSorted
open Umya.Reader

/-- the order `Store.sorted` sorts by: (row, column) lexicographically, as a Boolean `≤` -/
def posLe (a b : Pos) : Bool := a.1 < b.1 || (a.1 == b.1 && a.2 ≤ b.2)

/-- strictly before, by (row, column) -/
def posLt (a b : Pos) : Prop := a.1 < b.1 ∨ (a.1 = b.1 ∧ a.2 < b.2)

/-- the entries of the store in the order of `Store.sorted` -/
def sortedEntries {α : Type} (s : Store α) : Store α := s.mergeSort fun a b => posLe a.1 b.1

theorem sorted_eq {α : Type} (s : Store α) : s.sorted = (sortedEntries s).map (·.2) := rfl

theorem posLe_iff (a b : Pos) : posLe a b = true ↔ (a.1 < b.1 ∨ (a.1 = b.1 ∧ a.2 ≤ b.2)) := by
  simp [posLe]

theorem posLe_trans (a b c : Pos) (h1 : posLe a b = true) (h2 : posLe b c = true) : posLe a c = true := by
  rw [posLe_iff] at *
  omega

theorem posLe_total (a b : Pos) : (posLe a b || posLe b a) = true := by
  rw [Bool.or_eq_true, posLe_iff, posLe_iff]
  omega

/-- the order is antisymmetric on positions: `posLe` both ways only for EQUAL positions (the sort key is the position
    itself, so nothing is identified) -/
theorem posLe_antisymm (a b : Pos) (h1 : posLe a b = true) (h2 : posLe b a = true) : a = b := by
  rw [posLe_iff] at *
  apply Prod.ext <;> omega

theorem posLt_of_le_ne (a b : Pos) (h1 : posLe a b = true) (h2 : a ≠ b) : posLt a b := by
  rw [posLe_iff] at h1
  unfold posLt
  have : ¬ (a.1 = b.1 ∧ a.2 = b.2) := fun h => h2 (Prod.ext h.1 h.2)
  omega

theorem posLt_ne (a b : Pos) (h : posLt a b) : a ≠ b := by
  intro e; subst e; unfold posLt at h; omega

theorem posLt_asymm (a b : Pos) (h : posLt a b) (h' : posLt b a) : False := by
  unfold posLt at *; omega

theorem sortedEntries_perm {α : Type} (s : Store α) : (sortedEntries s).Perm s :=
  List.mergeSort_perm s _

theorem sortedEntries_pairwise_le {α : Type} (s : Store α) :
    (sortedEntries s).Pairwise (fun a b => posLe a.1 b.1 = true) :=
  List.pairwise_mergeSort (le := fun a b => posLe a.1 b.1) (fun a b c => posLe_trans a.1 b.1 c.1)
    (fun a b => posLe_total a.1 b.1) s

theorem sortedEntries_keys_nodup {α : Type} (s : Store α) (h : (s.map (·.1)).Nodup) :
    ((sortedEntries s).map (·.1)).Nodup :=
  ((sortedEntries_perm s).map (·.1)).nodup_iff.mpr h

/-- with no position twice the sorted entries are STRICTLY increasing by position -/
theorem sortedEntries_pairwise_lt {α : Type} (s : Store α) (h : (s.map (·.1)).Nodup) :
    (sortedEntries s).Pairwise (fun a b => posLt a.1 b.1) := by
  have hle := sortedEntries_pairwise_le s
  have hnd := sortedEntries_keys_nodup s h
  generalize sortedEntries s = l at hle hnd
  induction l with
  | nil => exact List.Pairwise.nil
  | cons a t ih =>
    rw [List.pairwise_cons] at hle ⊢
    simp only [List.map_cons, List.nodup_cons] at hnd
    refine ⟨fun b hb => posLt_of_le_ne _ _ (hle.1 b hb) ?_, ih hle.2 hnd.2⟩
    intro e
    exact hnd.1 (e ▸ List.mem_map_of_mem hb)

/-- `Pairwise posLt` on positions is the model's Boolean `strictlySorted` -/
theorem strictlySorted_of_pairwise : ∀ (l : List Pos), l.Pairwise posLt → strictlySorted l = true
  | [], _ => rfl
  | [_], _ => rfl
  | a :: b :: rest, h => by
    rw [List.pairwise_cons] at h
    have hab := h.1 b List.mem_cons_self
    have ih := strictlySorted_of_pairwise (b :: rest) h.2
    unfold posLt at hab
    simp only [strictlySorted, ih, Bool.and_true, Bool.or_eq_true, decide_eq_true_eq, Bool.and_eq_true, beq_iff_eq]
    exact hab

theorem get?_cons {α : Type} (e : Pos × α) (s : Store α) (k : Pos) :
    Store.get? (e :: s) k = if e.1 == k then some e.2 else Store.get? s k := by
  unfold Store.get?
  simp only [List.find?_cons]
  cases e.1 == k <;> rfl

theorem get?_none_of_forall_ne {α : Type} (s : Store α) (k : Pos) (h : ∀ e ∈ s, e.1 ≠ k) : Store.get? s k = none := by
  induction s with
  | nil => rfl
  | cons e t ih =>
    rw [get?_cons]
    have : (e.1 == k) = false := by simpa using h e List.mem_cons_self
    simp only [this, Bool.false_eq_true, if_false]
    exact ih fun x hx => h x (List.mem_cons_of_mem _ hx)

/-- with no position twice, a look-up finds `v` at `k` exactly when `(k, v)` is an entry -/
theorem get?_eq_some_iff {α : Type} (s : Store α) (h : (s.map (·.1)).Nodup) (k : Pos) (v : α) :
    Store.get? s k = some v ↔ (k, v) ∈ s := by
  induction s with
  | nil => simp [Store.get?]
  | cons e t ih =>
    simp only [List.map_cons, List.nodup_cons] at h
    rw [get?_cons, List.mem_cons]
    by_cases he : e.1 = k
    · have : (e.1 == k) = true := by simpa using he
      simp only [this, if_true, Option.some.injEq]
      constructor
      · intro hv; left; rw [← he, ← hv]
      · intro hm
        cases hm with
        | inl hm => rw [← hm]
        | inr hm => exact absurd (he ▸ List.mem_map_of_mem (f := (·.1)) hm) h.1
    · have : (e.1 == k) = false := by simpa using he
      simp only [this, Bool.false_eq_true, if_false]
      rw [ih h.2]
      constructor
      · exact Or.inr
      · intro hm
        cases hm with
        | inl hm => exact absurd (by rw [← hm]) he
        | inr hm => exact hm

/-- a permutation of a store with no position twice answers every look-up alike -/
theorem get?_perm {α : Type} (s t : Store α) (hp : s.Perm t) (h : (t.map (·.1)).Nodup) (k : Pos) :
    Store.get? s k = Store.get? t k := by
  have hs : (s.map (·.1)).Nodup := (hp.map (·.1)).nodup_iff.mpr h
  cases hx : Store.get? s k with
  | some v =>
    have := (get?_eq_some_iff t h k v).mpr (hp.mem_iff.mp ((get?_eq_some_iff s hs k v).mp hx))
    exact this.symm
  | none =>
    cases hy : Store.get? t k with
    | none => rfl
    | some v =>
      have := (get?_eq_some_iff s hs k v).mpr (hp.mem_iff.mpr ((get?_eq_some_iff t h k v).mp hy))
      rw [hx] at this; cases this

theorem get?_sortedEntries {α : Type} (s : Store α) (h : (s.map (·.1)).Nodup) (k : Pos) :
    Store.get? (sortedEntries s) k = Store.get? s k :=
  get?_perm _ _ (sortedEntries_perm s) h k

/-- **Uniqueness.**  Two entry lists, strictly increasing by position, whose look-ups show the same thing (through `f`
    resp. `g`) at every position show the same list of (position, shown value) -/
theorem strict_unique {α β γ : Type} (f : α → γ) (g : β → γ) : ∀ (l1 : Store α) (l2 : Store β),
    l1.Pairwise (fun a b => posLt a.1 b.1) → l2.Pairwise (fun a b => posLt a.1 b.1) →
    (∀ k, (Store.get? l1 k).map f = (Store.get? l2 k).map g) →
    l1.map (fun e => (e.1, f e.2)) = l2.map (fun e => (e.1, g e.2))
  | [], [], _, _, _ => rfl
  | [], b :: t2, _, _, h => by
    have := h b.1
    rw [get?_cons] at this
    simp [Store.get?] at this
  | a :: t1, [], _, _, h => by
    have := h a.1
    rw [get?_cons] at this
    simp [Store.get?] at this
  | a :: t1, b :: t2, h1, h2, h => by
    rw [List.pairwise_cons] at h1 h2
    have n1 : ∀ k, (k = a.1 ∨ posLt k a.1) → Store.get? t1 k = none := fun k hk =>
      get?_none_of_forall_ne t1 k fun e he ee => by
        have := h1.1 e he
        cases hk with
        | inl hk => rw [ee, hk] at this; exact posLt_ne _ _ this rfl
        | inr hk => rw [ee] at this; exact posLt_asymm _ _ this hk
    have n2 : ∀ k, (k = b.1 ∨ posLt k b.1) → Store.get? t2 k = none := fun k hk =>
      get?_none_of_forall_ne t2 k fun e he ee => by
        have := h2.1 e he
        cases hk with
        | inl hk => rw [ee, hk] at this; exact posLt_ne _ _ this rfl
        | inr hk => rw [ee] at this; exact posLt_asymm _ _ this hk
    -- the heads are at the same position
    have hab : a.1 = b.1 := by
      apply Classical.byContradiction
      intro hne
      have ha := h a.1
      have hb := h b.1
      rw [get?_cons, get?_cons] at ha hb
      have e1 : (a.1 == a.1) = true := by simp
      have e2 : (b.1 == b.1) = true := by simp
      have e3 : (b.1 == a.1) = false := by simpa using fun e => hne e.symm
      have e4 : (a.1 == b.1) = false := by simpa using hne
      simp only [e1, e2, e3, e4, if_true, Bool.false_eq_true, if_false] at ha hb
      -- a.1 < b.1 or b.1 < a.1
      by_cases hl : posLe a.1 b.1 = true
      · rw [n2 a.1 (Or.inr (posLt_of_le_ne _ _ hl hne))] at ha; cases ha
      · have hl' : posLe b.1 a.1 = true := by
          have := posLe_total a.1 b.1
          rw [Bool.or_eq_true] at this
          exact this.resolve_left hl
        rw [n1 b.1 (Or.inr (posLt_of_le_ne _ _ hl' (fun e => hne e.symm)))] at hb; cases hb
    have hv : f a.2 = g b.2 := by
      have ha := h a.1
      rw [get?_cons, get?_cons] at ha
      have e1 : (a.1 == a.1) = true := by simp
      have e2 : (b.1 == a.1) = true := by simp [hab]
      simpa only [e1, e2, if_true, Option.map_some, Option.some.injEq] using ha
    have ht : ∀ k, (Store.get? t1 k).map f = (Store.get? t2 k).map g := by
      intro k
      by_cases hk : k = a.1
      · rw [n1 k (Or.inl hk), n2 k (Or.inl (hk.trans hab))]; rfl
      · have hk' := h k
        rw [get?_cons, get?_cons] at hk'
        have e1 : (a.1 == k) = false := by simpa using fun e => hk e.symm
        have e2 : (b.1 == k) = false := by simpa using fun e => hk (hab.trans e).symm
        simpa only [e1, e2, Bool.false_eq_true, if_false] using hk'
    have ih := strict_unique f g t1 t2 h1.2 h2.2 ht
    simp only [List.map_cons, ih, hab, hv]

end Umya.Reader.Lemmas.StoreSorted
