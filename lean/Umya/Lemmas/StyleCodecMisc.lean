/-
  Alignment, protection, number format, row and column attributes.
-/
import Umya.Lemmas.StyleCodecFont
set_option linter.unusedSimpArgs false
namespace Umya.StyleCodec
open Umya.Spec.Xml (Node Attr)
open Umya.Dec

theorem getAttr_optAttr_self {α : Type} (k : String) (o : Option α) (f : α → Tok) (rest : List Attr) :
    getAttr (optAttr k o f ++ rest) k = match o with | some a => some (f a) | none => getAttr rest k := by
  cases o <;> simp [optAttr, getAttr_cons, mkAttr]

theorem getAttr_optAttr_other {α : Type} (k k' : String) (hk : k.toList ≠ k'.toList) (o : Option α) (f : α → Tok)
    (rest : List Attr) : getAttr (optAttr k o f ++ rest) k' = getAttr rest k' := by
  cases o <;> simp [optAttr, getAttr_cons, mkAttr, hk]

theorem getAttr_flagAttr_self (k : String) (o : Option Bool) (rest : List Attr) :
    getAttr (flagAttr k o ++ rest) k = if o.getD false then some (boolStr true) else getAttr rest k := by
  unfold flagAttr
  cases o.getD false <;> simp [getAttr_cons, mkAttr]

theorem getAttr_flagAttr_other (k k' : String) (hk : k.toList ≠ k'.toList) (o : Option Bool) (rest : List Attr) :
    getAttr (flagAttr k o ++ rest) k' = getAttr rest k' := by
  unfold flagAttr
  cases o.getD false <;> simp [getAttr_cons, mkAttr, hk]

/-! ### alignment -/

theorem Alignment.read_write (a : Alignment) (h : a.Range) : Alignment.read a.write = some a := by
  obtain ⟨ho, ve, wr, ro⟩ := a
  have hr : ∀ n, ro = some n → u32Of (decDigits n) = some n := fun n hn => u32Of_decDigits n (h n hn)
  simp only [Alignment.read, Alignment.write, attrs_mkEl]
  cases ho with
  | none =>
    cases ve with
    | none =>
      cases wr <;> cases ro <;>
        simp_all [optAttr, u32Attr, enumAttr, boolAttr, getAttr_cons, mkAttr]
    | some v =>
      have hv := VAlign.fromStr_toStr v
      cases wr <;> cases ro <;>
        simp_all [optAttr, u32Attr, enumAttr, boolAttr, getAttr_cons, mkAttr]
  | some x =>
    have hx := HAlign.fromStr_toStr x
    cases ve with
    | none =>
      cases wr <;> cases ro <;>
        simp_all [optAttr, u32Attr, enumAttr, boolAttr, getAttr_cons, mkAttr]
    | some v =>
      have hv := VAlign.fromStr_toStr v
      cases wr <;> cases ro <;>
        simp_all [optAttr, u32Attr, enumAttr, boolAttr, getAttr_cons, mkAttr]

/-! ### protection -/

theorem Protection.read_write (p : Protection) : Protection.read p.write = some p := by
  obtain ⟨l, hd⟩ := p
  cases l <;> cases hd <;> simp [Protection.read, Protection.write, optAttr, boolAttr, getAttr_cons, mkAttr]

/-! ### number format -/

theorem NumFmt.read_write (v : NumFmt) (h : u32Range v.id) : NumFmt.read v.write = some v := by
  have e := u32Of_decDigits v.id h
  have g1 : getAttr [mkAttr "numFmtId" (decDigits v.id), mkAttr "formatCode" v.code] "numFmtId" = some (decDigits v.id) := by
    simp [getAttr_cons, mkAttr]
  have g2 : getAttr [mkAttr "numFmtId" (decDigits v.id), mkAttr "formatCode" v.code] "formatCode" = some v.code := by
    simp [getAttr_cons, mkAttr]
  simp only [NumFmt.read, NumFmt.write, attrs_mkEl, g1, g2, e, Option.map_some]

/-! ### rows -/

theorem getAttr_single (k k' : String) (v : Tok) :
    getAttr [mkAttr k v] k' = if k.toList = k'.toList then some v else none := by
  simp [getAttr_cons, mkAttr]

theorem getAttr_optAttr {α : Type} (k k' : String) (o : Option α) (f : α → Tok) :
    getAttr (optAttr k o f) k' = if k.toList = k'.toList then o.map f else none := by
  cases o <;> simp [optAttr, getAttr_cons, mkAttr]

theorem getAttr_flagAttr (k k' : String) (o : Option Bool) :
    getAttr (flagAttr k o) k' = if k.toList = k'.toList ∧ o.getD false = true then some (boolStr true) else none := by
  unfold flagAttr
  cases o.getD false <;> simp [getAttr_cons, mkAttr]

theorem getAttr_ite (c : Prop) [Decidable c] (a b : List Attr) (k : String) :
    getAttr (if c then a else b) k = if c then getAttr a k else getAttr b k := by
  split <;> rfl

theorem normFlag_eq (b : Option Bool) : (if b.getD false = true then some (boolOf (boolStr true)) else none) = normFlag b := by
  cases b with
  | none => rfl
  | some v => cases v <;> rfl

theorem boolAttr_of (as : List Attr) (k : String) (b : Option Bool)
    (h : getAttr as k = if b.getD false = true then some (boolStr true) else none) : boolAttr as k none = normFlag b := by
  unfold boolAttr
  rw [h]
  cases b with
  | none => rfl
  | some v => cases v <;> rfl

theorem Row.read_write (cf : Tok → Tok) (r : Row) (h : r.Range cf) (xf : Nat) (hxf : u32Range xf) (spans : Option Tok)
    (kids : List Node) (last : Nat) :
    Row.read cf last (r.write xf spans kids) = some (r.norm, if xf > 0 then some xf else none) := by
  obtain ⟨hn, hh, hd⟩ := h
  have e1 := u32Of_decDigits r.num hn
  have e2 := u32Of_decDigits xf hxf
  clear hn hxf
  simp only [Row.read]
  generalize hA : (r.write xf spans kids).attrs = A
  simp only [Row.write, attrs_mkEl] at hA
  have gr : getAttr A "r" = some (decDigits r.num) := by
    subst hA; simp [getAttr_cons, mkAttr]
  have gs : getAttr A "s" = if 0 < xf then some (decDigits xf) else none := by
    subst hA; simp [getAttr_append, getAttr_single, getAttr_optAttr, getAttr_flagAttr, getAttr_ite, getAttr_cons, mkAttr]
  have ght : getAttr A "ht" = if r.height.getD zeroTok = zeroTok then none else some (r.height.getD zeroTok) := by
    subst hA; simp [getAttr_append, getAttr_single, getAttr_optAttr, getAttr_flagAttr, getAttr_ite, getAttr_cons, mkAttr]
  have gd : getAttr A "x14ac:dyDescent" = r.descent := by
    subst hA; simp [getAttr_append, getAttr_single, getAttr_optAttr, getAttr_flagAttr, getAttr_ite, getAttr_cons, mkAttr]
  have gt := boolAttr_of A "thickBot" r.thickBot (by
    subst hA; simp [getAttr_append, getAttr_single, getAttr_optAttr, getAttr_flagAttr, getAttr_ite, getAttr_cons, mkAttr])
  have gc := boolAttr_of A "customHeight" r.customHeight (by
    subst hA; simp [getAttr_append, getAttr_single, getAttr_optAttr, getAttr_flagAttr, getAttr_ite, getAttr_cons, mkAttr])
  have gh := boolAttr_of A "hidden" r.hidden (by
    subst hA; simp [getAttr_append, getAttr_single, getAttr_optAttr, getAttr_flagAttr, getAttr_ite, getAttr_cons, mkAttr])
  simp only [u32Attr, floatAttr, gr, gs, ght, gd, gt, gc, gh, e1, Option.map_some]
  obtain ⟨num, height, descent, thickBot, customHeight, hidden⟩ := r
  simp only at hh hd
  by_cases hx : 0 < xf
  · cases height with
    | none =>
      cases descent with
      | none => simp [hx, e2, Row.norm]
      | some d => simp [hx, e2, Row.norm, (hd d rfl).1, (hd d rfl).2]
    | some t =>
      by_cases ht : t = zeroTok
      · cases descent with
        | none => simp [hx, e2, Row.norm, ht]
        | some d => simp [hx, e2, Row.norm, ht, (hd d rfl).1, (hd d rfl).2]
      · cases descent with
        | none => simp [hx, e2, Row.norm, ht, hh t rfl]
        | some d => simp [hx, e2, Row.norm, ht, hh t rfl, (hd d rfl).1, (hd d rfl).2]
  · cases height with
    | none =>
      cases descent with
      | none => simp [hx, Row.norm]
      | some d => simp [hx, Row.norm, (hd d rfl).1, (hd d rfl).2]
    | some t =>
      by_cases ht : t = zeroTok
      · cases descent with
        | none => simp [hx, Row.norm, ht]
        | some d => simp [hx, Row.norm, ht, (hd d rfl).1, (hd d rfl).2]
      · cases descent with
        | none => simp [hx, Row.norm, ht, hh t rfl]
        | some d => simp [hx, Row.norm, ht, hh t rfl, (hd d rfl).1, (hd d rfl).2]

theorem Row.norm_idem (r : Row) : r.norm.norm = r.norm := by
  obtain ⟨num, height, descent, thickBot, customHeight, hidden⟩ := r
  cases height with
  | none => simp [Row.norm, normFlag_idem]
  | some t => by_cases ht : t = zeroTok <;> simp [Row.norm, normFlag_idem, ht]

theorem Row.eff_norm (r : Row) : r.norm.eff = r.eff := by
  obtain ⟨num, height, descent, thickBot, customHeight, hidden⟩ := r
  cases height with
  | none => simp [Row.norm, Row.eff, normFlag_getD]
  | some t => by_cases ht : t = zeroTok <;> simp [Row.norm, Row.eff, normFlag_getD, ht]

/-! ### columns -/

theorem Col.read_write (cf : Tok → Tok) (c : Col) (hw : cf c.width = c.width) (mn mx xf : Nat)
    (h1 : u32Range mn) (h2 : u32Range mx) (h3 : u32Range xf) :
    Col.read cf (c.write mn mx xf) = some (c.norm, mn, mx, if xf > 0 then some xf else none) := by
  have e1 := u32Of_decDigits mn h1
  have e2 := u32Of_decDigits mx h2
  have e3 := u32Of_decDigits xf h3
  clear h1 h2 h3
  simp only [Col.read]
  generalize hA : (c.write mn mx xf).attrs = A
  simp only [Col.write, attrs_mkEl] at hA
  have g1 : getAttr A "min" = some (decDigits mn) := by
    subst hA; simp [getAttr_cons, mkAttr]
  have g2 : getAttr A "max" = some (decDigits mx) := by
    subst hA; simp [getAttr_cons, mkAttr]
  have g3 : getAttr A "width" = some c.width := by
    subst hA; simp [getAttr_cons, mkAttr]
  have gs : getAttr A "style" = if 0 < xf then some (decDigits xf) else none := by
    subst hA; simp [getAttr_append, getAttr_single, getAttr_optAttr, getAttr_flagAttr, getAttr_ite, getAttr_cons, mkAttr]
  have gh := boolAttr_of A "hidden" c.hidden (by
    subst hA; simp [getAttr_append, getAttr_single, getAttr_optAttr, getAttr_flagAttr, getAttr_ite, getAttr_cons, mkAttr])
  have gb := boolAttr_of A "bestFit" c.bestFit (by
    subst hA; simp [getAttr_append, getAttr_single, getAttr_optAttr, getAttr_flagAttr, getAttr_ite, getAttr_cons, mkAttr])
  simp only [u32Attr, g1, g2, g3, gs, gh, gb, e1, e2, Option.bind_some, hw]
  by_cases hx : 0 < xf
  · simp [hx, e3, Col.norm]
  · simp [hx, Col.norm]

theorem Col.norm_idem (c : Col) : c.norm.norm = c.norm := by simp [Col.norm, normFlag_idem]
theorem Col.eff_norm (c : Col) : c.norm.eff = c.eff := by simp [Col.norm, Col.eff, normFlag_getD]

end Umya.StyleCodec
