/-
  Boolean checkers for the `Range` predicates at `cf = id` (used by the non-vacuity examples: `decide`).
-/
import Umya.Model.StyleCodec
namespace Umya.StyleCodec

def optAll {α : Type} (p : α → Bool) : Option α → Bool
  | none => true
  | some a => p a

theorem optAll_spec {α : Type} {p : α → Bool} {o : Option α} (h : optAll p o = true) : ∀ a, o = some a → p a = true := by
  intro a ha; subst ha; exact h

def Color.rangeB (c : Color) : Bool :=
  optAll (fun n => decide (u32Range n)) c.indexed && optAll (fun n => decide (u32Range n)) c.theme

theorem Color.range_id (c : Color) (h : c.rangeB = true) : c.Range id := by
  simp only [Color.rangeB, Bool.and_eq_true] at h
  exact ⟨fun n hn => of_decide_eq_true (optAll_spec h.1 n hn), fun n hn => of_decide_eq_true (optAll_spec h.2 n hn), fun _ _ => rfl⟩

def Font.rangeB (f : Font) : Bool :=
  optAll (fun z => decide (i32Range z)) f.family && optAll (fun z => decide (i32Range z)) f.charset && f.color.rangeB

theorem Font.range_id (f : Font) (h : f.rangeB = true) : f.Range id := by
  simp only [Font.rangeB, Bool.and_eq_true] at h
  exact ⟨fun _ _ => rfl, fun n hn => of_decide_eq_true (optAll_spec h.1.1 n hn),
    fun n hn => of_decide_eq_true (optAll_spec h.1.2 n hn), Color.range_id _ h.2⟩

def PatternFill.rangeB (p : PatternFill) : Bool := optAll Color.rangeB p.fg && optAll Color.rangeB p.bg
def GradientFill.rangeB (g : GradientFill) : Bool := g.stops.all (fun s => s.color.rangeB)
def Fill.rangeB (f : Fill) : Bool := optAll PatternFill.rangeB f.pattern && optAll GradientFill.rangeB f.gradient

theorem Fill.range_id (f : Fill) (h : f.rangeB = true) : f.Range id := by
  simp only [Fill.rangeB, Bool.and_eq_true] at h
  refine ⟨fun p hp => ?_, fun g hg => ?_⟩
  · have := optAll_spec h.1 p hp
    simp only [PatternFill.rangeB, Bool.and_eq_true] at this
    exact ⟨fun c hc => Color.range_id c (optAll_spec this.1 c hc), fun c hc => Color.range_id c (optAll_spec this.2 c hc)⟩
  · have := optAll_spec h.2 g hg
    simp only [GradientFill.rangeB, List.all_eq_true] at this
    exact ⟨fun _ _ => rfl, fun s hs => ⟨fun _ _ => rfl, Color.range_id _ (this s hs)⟩⟩

def Borders.rangeB (b : Borders) : Bool :=
  b.left.color.rangeB && b.right.color.rangeB && b.top.color.rangeB && b.bottom.color.rangeB && b.diagonal.color.rangeB &&
  b.vertical.color.rangeB && b.horizontal.color.rangeB

theorem Borders.range_id (b : Borders) (h : b.rangeB = true) : b.Range id := by
  simp only [Borders.rangeB, Bool.and_eq_true] at h
  obtain ⟨⟨⟨⟨⟨⟨h1, h2⟩, h3⟩, h4⟩, h5⟩, h6⟩, h7⟩ := h
  exact ⟨Color.range_id _ h1, Color.range_id _ h2, Color.range_id _ h3, Color.range_id _ h4, Color.range_id _ h5,
    Color.range_id _ h6, Color.range_id _ h7⟩

end Umya.StyleCodec
