/-
  Lemmas about the shared attribute machinery of the C06 codecs (`Model/AnnotCodec.lean`).
-/
import Umya.Model.AnnotCodec
namespace Umya.AnnotCodec
open Umya.Spec.Xml (Node Attr)
open Umya.Dec

/-- a key that no field carries is not found -/
theorem getAttr_render_absent (fs : List (Text × Option Text)) (k : Text) (h : k ∉ fs.map (·.1)) :
    getAttr (render fs) k = none := by
  induction fs with
  | nil => rfl
  | cons p r ih =>
    obtain ⟨k', v'⟩ := p
    simp only [List.map_cons, List.mem_cons, not_or] at h
    have ihr := ih h.2
    cases v' with
    | none => simpa [render, getAttr] using ihr
    | some t =>
      have hne : ¬ (k' = k) := fun e => h.1 e.symm
      simp only [render, List.filterMap_cons, Option.map_some, getAttr, List.find?_cons] at ihr ⊢
      simp only [hne, decide_false]
      exact ihr

/-- **The field table is a codec.**  When no two fields share an attribute name, `get_attribute` on the
    written attribute list returns, for every field, exactly the text that field wrote (and nothing
    when it wrote nothing) — whatever the other fields hold. -/
theorem getAttr_render (fs : List (Text × Option Text)) (hnd : (fs.map (·.1)).Nodup) {k : Text} {v : Option Text}
    (h : (k, v) ∈ fs) : getAttr (render fs) k = v := by
  induction fs with
  | nil => cases h
  | cons p r ih =>
    obtain ⟨k', v'⟩ := p
    simp only [List.map_cons, List.nodup_cons] at hnd
    rcases List.mem_cons.mp h with he | hr
    · injection he with hk hv
      subst hk; subst hv
      cases v with
      | none => simpa [render, getAttr] using getAttr_render_absent r k hnd.1
      | some t => simp [render, getAttr]
    · have hk : k ∈ r.map (·.1) := List.mem_map.mpr ⟨(k, v), hr, rfl⟩
      have hne : ¬ (k' = k) := fun e => hnd.1 (e ▸ hk)
      have ihr := ih hnd.2 hr
      cases v' with
      | none => simpa [render, getAttr] using ihr
      | some t =>
        simp only [render, List.filterMap_cons, Option.map_some, getAttr, List.find?_cons] at ihr ⊢
        simp only [hne, decide_false]
        exact ihr

/-! ## scalar codecs -/

theorem boolRead_boolStr (b : Bool) : boolRead (boolStr b) = b := by cases b <;> decide

theorem optBool_map_boolStr (v : Option Bool) : optBool (v.map boolStr) = v := by
  cases v <;> simp [optBool, boolRead_boolStr]

theorem decDigits_head_ne_plus (n : Nat) (r : List Char) : decDigits n ≠ '+' :: r := by
  intro h
  have := decDigits_all_digit n
  rw [h] at this
  simp [isDigit] at this

theorem u32Attr_decDigits (n : Nat) (h : n < 4294967296) : u32Attr (decDigits n) = some n := by
  unfold u32Attr
  split
  · rename_i r heq
    exact absurd heq (decDigits_head_ne_plus n r)
  · exact parseU32_decDigits n h

theorem optU32_map_decDigits (v : Option Nat) (h : ∀ n, v = some n → n < 4294967296) :
    optU32 (v.map decDigits) = some v := by
  cases v with
  | none => rfl
  | some n => simp [optU32, u32Attr_decDigits n (h n rfl)]

theorem numRead_fmt (Z : NumZ) (hs : Z.F.Sound) (x : Z.F.Num) : numRead Z (Z.F.fmt x) = x := by
  simp [numRead, hs.parse_fmt]

/-! ## split / join on one character -/

theorem splitCh_ne_nil (d : Char) (s : List Char) : splitCh d s ≠ [] := by
  induction s with
  | nil => simp [splitCh]
  | cons c r ih =>
    unfold splitCh
    split
    · simp
    · split <;> simp

theorem splitCh_free (d : Char) (a : List Char) (h : d ∉ a) : splitCh d a = [a] := by
  induction a with
  | nil => rfl
  | cons c r ih =>
    simp only [List.mem_cons, not_or] at h
    have hc : ¬ (c = d) := fun e => h.1 e.symm
    simp [splitCh, hc, ih h.2]

theorem splitCh_append (d : Char) (a rest : List Char) (h : d ∉ a) :
    splitCh d (a ++ d :: rest) = a :: splitCh d rest := by
  induction a with
  | nil => simp [splitCh]
  | cons c r ih =>
    simp only [List.mem_cons, not_or] at h
    have hc : ¬ (c = d) := fun e => h.1 e.symm
    simp [splitCh, hc, ih h.2]

/-- `join(d)` then `split(d)` gives the pieces back when no piece contains `d` (and there is one) -/
theorem splitCh_joinCh (d : Char) (ps : List (List Char)) (hne : ps ≠ []) (h : ∀ p ∈ ps, d ∉ p) :
    splitCh d (joinCh d ps) = ps := by
  induction ps with
  | nil => exact absurd rfl hne
  | cons a r ih =>
    cases r with
    | nil => simpa [joinCh] using splitCh_free d a (h a (by simp))
    | cons b r' =>
      have := ih (by simp) (fun p hp => h p (List.mem_cons_of_mem _ hp))
      simp only [joinCh]
      rw [splitCh_append d a _ (h a (by simp)), this]

end Umya.AnnotCodec
