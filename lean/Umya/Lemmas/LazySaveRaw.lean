/-
  C11: the first loop of the writer on a package-consistent workbook.  Under `FromPkg x r` the names a raw sheet
  writes fall into three disjoint classes (its sheet part, the relationships part next to it, closure names), and
  the content written under a closure name is a function of `x` and the name alone — so "first writer wins" is
  harmless between raw sheets.
-/
import Umya.Lemmas.LazySave
import Umya.Lemmas.LazySaveCons
namespace Umya.Lazy

variable {C : Type}

/-! ## hygiene, unfolded -/

theorem targetOk_spec {n : PName} (h : targetOk n = true) : isSheetName n = false ∧ isRelsName n = false ∧ reserved n = false := by
  unfold targetOk at h
  simp only [Bool.and_eq_true, Bool.not_eq_true'] at h
  exact ⟨h.1.1, h.1.2, h.2⟩

theorem targetOk_not_sheet {k : Nat} : targetOk (.sheet k) = false := rfl
theorem targetOk_not_rels {m : PName} : targetOk (.rels m) = false := by simp [targetOk, isSheetName, isRelsName]

theorem relOk_spec {r : RawRel} (h : relOk r = true) : (r.ext = true ∧ r.empty = true) ∨ (r.ext = false ∧ targetOk r.file = true) := by
  unfold relOk at h
  by_cases hx : r.ext = true
  · simp only [hx, if_true] at h; exact Or.inl ⟨hx, h⟩
  · have hx' : r.ext = false := by cases he : r.ext <;> simp_all
    simp only [hx', Bool.false_eq_true, if_false] at h
    exact Or.inr ⟨hx', h⟩

theorem relsNameOk_spec {root : PName} {cl : List RawRels} {n : PName} (h : relsNameOk root cl n = true) :
    ∃ m, n = .rels m ∧ (m = root ∨ ∃ q ∈ cl, ∃ r ∈ q.rels, r.ext = false ∧ r.file = m) := by
  cases n with
  | rels m =>
    refine ⟨m, rfl, ?_⟩
    simp only [relsNameOk, Bool.or_eq_true, decide_eq_true_eq, List.any_eq_true, Bool.and_eq_true, Bool.not_eq_true'] at h
    rcases h with h | ⟨q, hq, r, hr, h1, h2⟩
    · exact Or.inl h
    · exact Or.inr ⟨q, hq, r, hr, h1, h2⟩
  | sheet k => simp [relsNameOk] at h
  | fam f k => simp [relsNameOk] at h
  | other s => simp [relsNameOk] at h

structure Hyg (r : RawSheet) : Prop where
  fileNotRels : isRelsName r.file = false
  fileNotReserved : reserved r.file = false
  rel : ∀ q ∈ r.closure, ∀ r' ∈ q.rels, (r'.ext = true ∧ r'.empty = true) ∨ (r'.ext = false ∧ targetOk r'.file = true)
  notSelf : ∀ q ∈ r.closure, ∀ r' ∈ q.rels, r'.ext = false → r'.file ≠ r.file
  relsName : ∀ q ∈ r.closure, ∃ m, q.name = .rels m ∧
    (m = r.file ∨ (targetOk m = true ∧ ∃ q' ∈ r.closure, ∃ r' ∈ q'.rels, r'.ext = false ∧ r'.file = m))

theorem hygienic_spec {r : RawSheet} (h : hygienic r = true) : Hyg r := by
  unfold hygienic at h
  simp only [Bool.and_eq_true, Bool.not_eq_true', List.all_eq_true] at h
  obtain ⟨⟨h1, h2⟩, h3⟩ := h
  have hrel : ∀ q ∈ r.closure, ∀ r' ∈ q.rels, (r'.ext = true ∧ r'.empty = true) ∨ (r'.ext = false ∧ targetOk r'.file = true) :=
    fun q hq r' hr' => relOk_spec ((h3 q hq).2 r' hr').1
  have hself : ∀ q ∈ r.closure, ∀ r' ∈ q.rels, r'.ext = false → r'.file ≠ r.file := by
    intro q hq r' hr' hx
    have := ((h3 q hq).2 r' hr').2
    simpa [hx] using this
  refine ⟨h1, h2, hrel, hself, ?_⟩
  intro q hq
  obtain ⟨m, hm, hcase⟩ := relsNameOk_spec (h3 q hq).1
  refine ⟨m, hm, ?_⟩
  rcases hcase with e | ⟨q', hq', r', hr', hx, hf⟩
  · exact Or.inl e
  · right
    refine ⟨?_, q', hq', r', hr', hx, hf⟩
    rcases hrel q' hq' r' hr' with ⟨a, _⟩ | ⟨_, b⟩
    · rw [hx] at a; cases a
    · rw [← hf]; exact b

/-- a relationship with data is not external, and its target has a closure name -/
theorem Hyg.nonempty {r : RawSheet} (h : Hyg r) {q : RawRels} (hq : q ∈ r.closure) {r' : RawRel} (hr : r' ∈ q.rels)
    (he : r'.empty = false) : r'.ext = false ∧ targetOk r'.file = true := by
  rcases h.rel q hq r' hr with ⟨_, b⟩ | h2
  · rw [he] at b; cases b
  · exact h2

/-! ## which class a written name is in -/

/-- a part named like the relationships part of a sheet is written by the raw sheet AT that position only, and is
    that sheet's own relationships part -/
theorem rawP_sheetRels {r : RawSheet} (h : Hyg r) {k' k : Nat} {c : Content C} (hp : RawP k' r (.rels (.sheet k)) c) :
    k' = k ∧ ∃ q ∈ r.closure, q.name = .rels r.file ∧ q.rels.isEmpty = false ∧ c = .relsOf q.targets := by
  rcases hp with ⟨e, _⟩ | ⟨q, hq, hne, e, hc⟩ | ⟨q, hq, r', hr', he, e, _⟩
  · cases e
  · unfold relsTarget at e
    by_cases hown : q.name = .rels r.file
    · simp only [hown, if_true] at e
      injection e with e; injection e with e
      exact ⟨e.symm, q, hq, hown, hne, hc⟩
    · simp only [hown, if_false] at e
      obtain ⟨m, hm, hcase⟩ := h.relsName q hq
      rw [hm] at e
      injection e with e
      rcases hcase with e2 | ⟨e2, _⟩
      · exact absurd (by rw [hm, e2]) hown
      · rw [← e] at e2; cases e2
  · have := (h.nonempty hq hr' he).2
    rw [← e] at this
    rw [targetOk_not_rels] at this; cases this

/-- a relationships part of a closure target is written under its own name, with the recorded relationships -/
theorem rawP_closureRels {r : RawSheet} (h : Hyg r) {k' : Nat} {m : PName} (hm : targetOk m = true) {c : Content C}
    (hp : RawP k' r (.rels m) c) : ∃ q ∈ r.closure, q.name = .rels m ∧ q.rels.isEmpty = false ∧ c = .relsOf q.targets := by
  rcases hp with ⟨e, _⟩ | ⟨q, hq, hne, e, hc⟩ | ⟨q, hq, r', hr', he, e, _⟩
  · cases e
  · unfold relsTarget at e
    by_cases hown : q.name = .rels r.file
    · simp only [hown, if_true] at e
      injection e with e
      rw [e] at hm; cases hm
    · simp only [hown, if_false] at e
      exact ⟨q, hq, e.symm, hne, hc⟩
  · have := (h.nonempty hq hr' he).2
    rw [← e] at this
    rw [targetOk_not_rels] at this; cases this

/-- a data part of a closure is written under its own name, with the recorded bytes -/
theorem rawP_data {r : RawSheet} (h : Hyg r) {k' : Nat} {n : PName} (hn : targetOk n = true) {c : Content C}
    (hp : RawP k' r n c) : ∃ q ∈ r.closure, ∃ r' ∈ q.rels, r'.ext = false ∧ r'.empty = false ∧ n = r'.file ∧ c = .bytes r'.cid := by
  rcases hp with ⟨e, _⟩ | ⟨q, hq, _, e, _⟩ | ⟨q, hq, r', hr', he, e, hc⟩
  · rw [e] at hn; cases hn
  · exfalso
    unfold relsTarget at e
    by_cases hown : q.name = .rels r.file
    · simp only [hown, if_true] at e
      rw [e, targetOk_not_rels] at hn; cases hn
    · simp only [hown, if_false] at e
      obtain ⟨m, hm, _⟩ := h.relsName q hq
      rw [e, hm, targetOk_not_rels] at hn; cases hn
  · exact ⟨q, hq, r', hr', (h.nonempty hq hr' he).1, he, e, hc⟩

/-! ## what `x` says about the recorded closure -/

theorem FromPkg.closure_sound {x : Pkg} {r : RawSheet} (h : FromPkg x r) :
    ∀ q ∈ r.closure, readRelsPart x q.name = some (some q) := by
  have := (openRaw_spec h.read).2.2
  exact readClosure_sound x _ _ _ this

theorem FromPkg.bytes {x : Pkg} {r : RawSheet} (h : FromPkg x r) : ∃ p, x.get? r.file = some p ∧ p.cid = r.cid :=
  (openRaw_spec h.read).2.1

/-- two recorded relationship parts with the same name are the same (both are the part of `x`) -/
theorem closure_det {x : Pkg} {r1 r2 : RawSheet} (h1 : FromPkg x r1) (h2 : FromPkg x r2) {q1 q2 : RawRels}
    (hq1 : q1 ∈ r1.closure) (hq2 : q2 ∈ r2.closure) (e : q1.name = q2.name) : q1 = q2 := by
  have a := h1.closure_sound q1 hq1
  have b := h2.closure_sound q2 hq2
  rw [e] at a
  rw [a] at b
  injection b with b; injection b with b

/-- a recorded non-external relationship holds the bytes `x` has under the target's name -/
theorem FromPkg.rel_bytes {x : Pkg} {r : RawSheet} (h : FromPkg x r) {q : RawRels} (hq : q ∈ r.closure) {r' : RawRel}
    (hr : r' ∈ q.rels) (hx : r'.ext = false) : ∃ p, x.get? r'.file = some p ∧ p.cid = r'.cid ∧ p.empty = r'.empty := by
  rcases readRelsPart_rel (h.closure_sound q hq) r' hr with e | ⟨_, hp⟩
  · rw [e] at hx; cases hx
  · exact hp

theorem ownExpected_of_own {x : Pkg} {r : RawSheet} (h : FromPkg x r) {q : RawRels} (hq : q ∈ r.closure)
    (hown : q.name = .rels r.file) (hne : q.rels.isEmpty = false) : ownExpected (C := C) x r.file = some (.relsOf q.targets) := by
  have := h.closure_sound q hq
  rw [hown] at this
  simp [ownExpected, this, hne]

theorem own_of_ownExpected {x : Pkg} {r : RawSheet} (h : FromPkg x r) {c : Content C} (hc : ownExpected x r.file = some c) :
    ∃ q ∈ r.closure, q.name = .rels r.file ∧ q.rels.isEmpty = false ∧ c = .relsOf q.targets := by
  have hcl := (openRaw_spec h.read).2.2
  rcases readClosure_top x _ _ _ hcl with ⟨h1, _⟩ | ⟨q0, kids, h1, h2⟩
  · simp [ownExpected, h1] at hc
  · simp only [ownExpected, h1] at hc
    by_cases hne : q0.rels.isEmpty = true
    · simp [hne] at hc
    · have hne' : q0.rels.isEmpty = false := by cases hh : q0.rels.isEmpty <;> simp_all
      simp only [hne', Bool.false_eq_true, if_false, Option.some.injEq] at hc
      refine ⟨q0, ?_, readRelsPart_name h1, hne', hc.symm⟩
      rw [h2]; simp

/-! ## the first loop on a consistent workbook -/

def RawsFrom (x : Pkg) (ss : List (Sheet C)) : Prop := ∀ s ∈ ss, ∀ r, s.body = .raw r → FromPkg x r

theorem RawsFrom.at {x : Pkg} {ss : List (Sheet C)} (h : RawsFrom x ss) {j : Nat} {s : Sheet C} (hj : ss[j]? = some s)
    {r : RawSheet} (hb : s.body = .raw r) : FromPkg x r :=
  h s (List.mem_of_getElem? hj) r hb

/-- everything a raw sheet writes is in the package when the first loop is done -/
theorem loop1_has_raw (ss : List (Sheet C)) (p : Nat) (w : WM C) (j : Nat) (s : Sheet C) (r : RawSheet)
    (hj : ss[j]? = some s) (hb : s.body = .raw r) :
    let w' := loop1 false w p ss
    w'.has (.sheet (p + j)) = true ∧
    (∀ q ∈ r.closure, q.rels.isEmpty = false → w'.has (relsTarget (p + j) r q) = true) ∧
    (∀ q ∈ r.closure, ∀ r' ∈ q.rels, r'.empty = false → w'.has r'.file = true) := by
  intro w'
  obtain ⟨w0, _, h2⟩ := loop1_after_step ss p w j s hj
  have hs : sheetStep false w0 (p + j) s = writeRaw w0 (p + j) r := by simp [sheetStep, hb]
  rw [hs] at h2
  obtain ⟨a, b, c⟩ := writeRaw_has w0 (p + j) r
  exact ⟨h2.has_mono _ a, fun q hq hne => h2.has_mono _ (b q hq hne), fun q hq r' hr' he => h2.has_mono _ (c q hq r' hr' he)⟩

/-- the relationships part next to every sheet part, position by position: for a raw sheet exactly the relationships
    part `x` has next to the part the sheet was read from (none if `x` has none or an empty one); for a deserialized
    sheet nothing yet; nothing beyond the last position -/
theorem loop1_own (x : Pkg) (ss : List (Sheet C)) (p : Nat) (w : WM C) (hc : RawsFrom x ss)
    (hw : ∀ k, p ≤ k → w.has (.rels (.sheet k)) = false) :
    let w' := loop1 false w p ss
    (∀ j s r, ss[j]? = some s → s.body = .raw r → w'.lookup (.rels (.sheet (p + j))) = ownExpected x r.file) ∧
    (∀ j s l, ss[j]? = some s → s.body = .loaded l → w'.has (.rels (.sheet (p + j))) = false) ∧
    (∀ k, p + ss.length ≤ k → w'.has (.rels (.sheet k)) = false) := by
  intro w'
  -- whoever put `.rels (.sheet k)` there (k ≥ p) is the raw sheet at position k, writing its own relationships
  have key : ∀ k, p ≤ k → w'.has (.rels (.sheet k)) = true →
      ∃ j s r c, ss[j]? = some s ∧ s.body = .raw r ∧ k = p + j ∧ w'.lookup (.rels (.sheet k)) = some c ∧
        ∃ q ∈ r.closure, q.name = .rels r.file ∧ q.rels.isEmpty = false ∧ c = .relsOf q.targets := by
    intro k hk hh
    rcases (loop1_extC ss p w).lookup_new _ hh with ⟨h1, _⟩ | ⟨_, c, ⟨j, s, hj, hp⟩, hl⟩
    · rw [hw k hk] at h1; cases h1
    · unfold StepP at hp
      cases hb : s.body with
      | loaded l => simp only [hb] at hp; cases hp.1
      | raw r =>
        simp only [hb] at hp
        obtain ⟨e, q, hq, h1, h2, h3⟩ := rawP_sheetRels (hygienic_spec (hc.at hj hb).hyg) hp
        exact ⟨j, s, r, c, hj, hb, e.symm, hl, q, hq, h1, h2, h3⟩
  refine ⟨?_, ?_, ?_⟩
  · intro j s r hj hb
    have hf := hc.at hj hb
    by_cases hh : w'.has (.rels (.sheet (p + j))) = true
    · obtain ⟨j', s', r', c, hj', hb', e, hl, q, hq, h1, h2, h3⟩ := key _ (by omega) hh
      have : j' = j := by omega
      subst this
      rw [hj] at hj'; injection hj' with hj'; subst hj'
      rw [hb] at hb'; injection hb' with hb'; subst hb'
      rw [hl, h3, ownExpected_of_own hf hq h1 h2]
    · have hh' := has_false_of_not hh
      rw [lookup_none_of_not_has _ _ hh']
      cases ho : ownExpected (C := C) x r.file with
      | none => rfl
      | some c =>
        exfalso
        obtain ⟨q, hq, h1, h2, _⟩ := own_of_ownExpected hf ho
        have := (loop1_has_raw ss p w j s r hj hb).2.1 q hq h2
        simp only [relsTarget, h1, if_true] at this
        exact hh this
  · intro j s l hj hb
    apply has_false_of_not
    intro hh
    obtain ⟨j', s', r', c, hj', hb', e, _⟩ := key _ (by omega) hh
    have : j' = j := by omega
    subst this
    rw [hj] at hj'; injection hj' with hj'; subst hj'
    rw [hb] at hb'; cases hb'
  · intro k hk
    apply has_false_of_not
    intro hh
    obtain ⟨j', s', r', c, hj', _, e, _⟩ := key _ (by omega) hh
    have := (List.getElem?_eq_some_iff.mp hj').1
    omega

/-- every relationships part and every data part of the closure of every raw sheet is in the package under its
    original name, holding the recorded relationships / bytes — whichever raw sheet wrote it first -/
theorem loop1_closure (x : Pkg) (ss : List (Sheet C)) (p : Nat) (w : WM C) (hc : RawsFrom x ss)
    (hw : ∀ n, w.has n = false) (j : Nat) (s : Sheet C) (r : RawSheet) (hj : ss[j]? = some s) (hb : s.body = .raw r) :
    let w' := loop1 false w p ss
    (∀ q ∈ r.closure, q.name ≠ .rels r.file → q.rels.isEmpty = false → w'.lookup q.name = some (.relsOf q.targets)) ∧
    (∀ q ∈ r.closure, ∀ r' ∈ q.rels, r'.empty = false → w'.lookup r'.file = some (.bytes r'.cid)) := by
  intro w'
  have hf := hc.at hj hb
  have hy := hygienic_spec hf.hyg
  obtain ⟨_, hasRels, hasData⟩ := loop1_has_raw ss p w j s r hj hb
  refine ⟨?_, ?_⟩
  · intro q hq hown hne
    have hh := hasRels q hq hne
    simp only [relsTarget, hown, if_false] at hh
    obtain ⟨m, hm, hcase⟩ := hy.relsName q hq
    have hmok : targetOk m = true := by
      rcases hcase with e | ⟨e, _⟩
      · exact absurd (by rw [hm, e]) hown
      · exact e
    rcases (loop1_extC ss p w).lookup_new _ hh with ⟨h1, _⟩ | ⟨_, c, ⟨j2, s2, hj2, hp⟩, hl⟩
    · rw [hw] at h1; cases h1
    · rw [hl]
      unfold StepP at hp
      cases hb2 : s2.body with
      | loaded l => simp only [hb2] at hp; rw [hm] at hp; cases hp.1
      | raw r2 =>
        simp only [hb2] at hp
        have hf2 := hc.at hj2 hb2
        rw [hm] at hp
        obtain ⟨q2, hq2, hn2, _, hc2⟩ := rawP_closureRels (hygienic_spec hf2.hyg) hmok hp
        have : q2 = q := closure_det hf2 hf hq2 hq (by rw [hn2, hm])
        rw [hc2, this]
  · intro q hq r' hr' he
    have hh := hasData q hq r' hr' he
    obtain ⟨hx, hok⟩ := hy.nonempty hq hr' he
    rcases (loop1_extC ss p w).lookup_new _ hh with ⟨h1, _⟩ | ⟨_, c, ⟨j2, s2, hj2, hp⟩, hl⟩
    · rw [hw] at h1; cases h1
    · rw [hl]
      unfold StepP at hp
      cases hb2 : s2.body with
      | loaded l =>
        simp only [hb2] at hp
        rw [hp.1] at hok; cases hok
      | raw r2 =>
        simp only [hb2] at hp
        have hf2 := hc.at hj2 hb2
        obtain ⟨q2, hq2, r2', hr2', hx2, _, hn2, hc2⟩ := rawP_data (hygienic_spec hf2.hyg) hok hp
        obtain ⟨p1, hp1, hcid1, _⟩ := hf.rel_bytes hq hr' hx
        obtain ⟨p2, hp2, hcid2, _⟩ := hf2.rel_bytes hq2 hr2' hx2
        rw [← hn2, hp1] at hp2
        injection hp2 with hp2
        rw [hc2, ← hcid2, ← hp2, hcid1]

/-! ## relationship parts sit next to a part -/

/-- every relationships part sits next to a part -/
def RHS (w : WM C) : Prop := ∀ n, w.has (.rels n) = true → w.has n = true

theorem loop1_rhs (x : Pkg) (ss : List (Sheet C)) (p : Nat) (w : WM C) (hc : RawsFrom x ss)
    (hwr : ∀ s ∈ ss, ∀ r, s.body = .raw r → RawWritable r) (hw : ∀ n, w.has n = false) : RHS (loop1 false w p ss) := by
  intro n hh
  rcases (loop1_extC ss p w).lookup_new _ hh with ⟨h1, _⟩ | ⟨_, c, ⟨j, s, hj, hp⟩, _⟩
  · rw [hw] at h1; cases h1
  · unfold StepP at hp
    cases hb : s.body with
    | loaded l => simp only [hb] at hp; cases hp.1
    | raw r =>
      simp only [hb] at hp
      have hf := hc.at hj hb
      have hy := hygienic_spec hf.hyg
      obtain ⟨hasSheet, _, hasData⟩ := loop1_has_raw ss p w j s r hj hb
      rcases hp with ⟨e, _⟩ | ⟨q, hq, _, e, _⟩ | ⟨q, hq, r', hr', he, e, _⟩
      · cases e
      · unfold relsTarget at e
        by_cases hown : q.name = .rels r.file
        · simp only [hown, if_true] at e
          injection e with e
          rw [e]; exact hasSheet
        · simp only [hown, if_false] at e
          obtain ⟨m, hm, hcase⟩ := hy.relsName q hq
          rw [hm] at e
          injection e with e
          rcases hcase with e2 | ⟨_, q', hq', r', hr', hx, hfile⟩
          · exact absurd (by rw [hm, e2]) hown
          · have hne : r'.empty = false := hwr s (List.mem_of_getElem? hj) r hb q' hq' r' hr' hx
            rw [e, ← hfile]
            exact hasData q' hq' r' hr' hne
      · have := (hy.nonempty hq hr' he).2
        rw [← e, targetOk_not_rels] at this; cases this

theorem rhs_add_plain (w : WM C) (m : PName) (c : Content C) (h : RHS w) (hm : isRelsName m = false) : RHS (w.add m c) := by
  intro n hh
  rcases (add_has_iff _ _ _ _).mp hh with h1 | h1
  · exact add_has_mono _ _ _ _ (h n h1)
  · rw [← h1] at hm; cases hm

theorem rhs_add_rels (w : WM C) (m : PName) (c : Content C) (h : RHS w) (hm : w.has m = true) : RHS (w.add (.rels m) c) := by
  intro n hh
  rcases (add_has_iff _ _ _ _).mp hh with h1 | h1
  · exact add_has_mono _ _ _ _ (h n h1)
  · injection h1 with h1
    rw [h1]; exact add_has_mono _ _ _ _ hm

theorem emitLeaf_rhs (w : WM C) (l : Leaf) (h : RHS w) (hl : ∀ n, l = .fixed n → isRelsName n = false) : RHS (emitLeaf w l).1 := by
  cases l with
  | alloc f => exact rhs_add_plain _ _ _ h rfl
  | fixed n => exact rhs_add_plain _ _ _ h (hl n rfl)
  | ext => exact h
  | missing n => exact h

theorem emitLeaves_rhs (ls : List Leaf) (w : WM C) (h : RHS w) (hl : ∀ n ∈ leafNames ls, isRelsName n = false) :
    RHS (emitLeaves w ls).1 := by
  induction ls generalizing w with
  | nil => exact h
  | cons l ls ih =>
    simp only [emitLeaves]
    refine ih _ (emitLeaf_rhs w l h ?_) ?_
    · intro n e; subst e; exact hl n (by simp [leafNames])
    · intro n hn; apply hl
      cases l <;> simp [leafNames, hn]

theorem emitItem_rhs (w : WM C) (x : Item) (h : RHS w) (hl : ∀ n ∈ profNames [x], isRelsName n = false) : RHS (emitItem w x).1 := by
  cases x with
  | leaf l =>
    apply emitLeaf_rhs w l h
    intro n e; subst e; exact hl n (by simp [profNames])
  | node f kids =>
    simp only [emitItem]
    have h1 := emitLeaves_rhs kids w h (fun n hn => hl n (by simp [profNames, hn]))
    have h2 : RHS ((emitLeaves w kids).1.add (.fam f ((emitLeaves w kids).1.firstFree f)) .gen) := rhs_add_plain _ _ _ h1 rfl
    split
    · exact h2
    · exact rhs_add_rels _ _ _ h2 (add_has_self _ _ _)

theorem emitItems_rhs (xs : Profile) (w : WM C) (h : RHS w) (hl : ∀ n ∈ profNames xs, isRelsName n = false) : RHS (emitItems w xs).1 := by
  induction xs generalizing w with
  | nil => exact h
  | cons x xs ih =>
    simp only [emitItems]
    refine ih _ (emitItem_rhs w x h (fun n hn => hl n ((profNames_cons x xs n).mpr (Or.inl hn)))) ?_
    intro n hn; exact hl n ((profNames_cons x xs n).mpr (Or.inr hn))

theorem emitSheet_rhs (w : WM C) (p : Nat) (prof : Profile) (h : RHS w) (hs : w.has (.sheet p) = true)
    (hl : ∀ n ∈ profNames prof, isRelsName n = false) : RHS (emitSheet w p prof) := by
  unfold emitSheet
  simp only
  have h1 := emitItems_rhs prof w h hl
  split
  · exact h1
  · apply rhs_add_rels _ _ _ h1
    exact (emitItems_ext (fun _ => True) (fun _ _ => trivial) (fun _ _ => trivial) prof w (fun _ _ => trivial)).has_mono _ hs

def ProfNoRels (ss : List (Sheet C)) : Prop := ∀ s ∈ ss, ∀ l, s.body = .loaded l → ∀ n ∈ profNames l.prof, isRelsName n = false

theorem loop2_rhs (ss : List (Sheet C)) (p : Nat) (w : WM C) (h : RHS w) (hs : ∀ j, j < ss.length → w.has (.sheet (p + j)) = true)
    (hl : ProfNoRels ss) : RHS (loop2 w p ss) := by
  induction ss generalizing p w with
  | nil => exact h
  | cons s ss ih =>
    simp only [loop2]
    apply ih
    · unfold objStep
      cases hb : s.body with
      | raw r => exact h
      | loaded l =>
        exact emitSheet_rhs w p l.prof h (by simpa using hs 0 (by simp)) (hl s (List.mem_cons_self ..) l hb)
    · intro j hj
      have := hs (j + 1) (by simp only [List.length_cons]; omega)
      rw [show p + (j + 1) = p + 1 + j by omega] at this
      exact (objStep_ext w p s).has_mono _ this
    · intro s' hs'; exact hl s' (List.mem_cons_of_mem _ hs')

/-! ## relationship parts that `x` does not have are not in the package either -/

theorem ownExpected_of_rels {x : Pkg} {m : PName} {q : RawRels} (h : readRelsPart x (.rels m) = some (some q))
    (hne : q.rels.isEmpty = false) : ownExpected (C := C) x m = some (.relsOf q.targets) := by
  simp [ownExpected, h, hne]

theorem rels_of_ownExpected {x : Pkg} {m : PName} {c : Content C} (h : ownExpected x m = some c) :
    ∃ q, readRelsPart x (.rels m) = some (some q) ∧ q.rels.isEmpty = false ∧ c = .relsOf q.targets := by
  unfold ownExpected at h
  cases hr : readRelsPart x (.rels m) with
  | none => simp [hr] at h
  | some o =>
    cases o with
    | none => simp [hr] at h
    | some q =>
      simp only [hr] at h
      by_cases hne : q.rels.isEmpty = true
      · simp [hne] at h
      · have hne' : q.rels.isEmpty = false := by cases hh : q.rels.isEmpty <;> simp_all
        simp only [hne', Bool.false_eq_true, if_false, Option.some.injEq] at h
        exact ⟨q, rfl, hne', h.symm⟩

/-- after the first loop there is no relationships part next to a closure target unless `x` has one (with relationships) -/
theorem loop1_no_rels (x : Pkg) (ss : List (Sheet C)) (p : Nat) (w : WM C) (hc : RawsFrom x ss) (hw : ∀ n, w.has n = false)
    (m : PName) (hm : targetOk m = true) (hx : ownExpected (C := C) x m = none) : (loop1 false w p ss).has (.rels m) = false := by
  apply has_false_of_not
  intro hh
  rcases (loop1_extC ss p w).lookup_new _ hh with ⟨h1, _⟩ | ⟨_, c, ⟨j, s, hj, hp⟩, _⟩
  · rw [hw] at h1; cases h1
  · unfold StepP at hp
    cases hb : s.body with
    | loaded l => simp only [hb] at hp; cases hp.1
    | raw r =>
      simp only [hb] at hp
      have hf := hc.at hj hb
      obtain ⟨q, hq, hn, hne, _⟩ := rawP_closureRels (hygienic_spec hf.hyg) hm hp
      have := hf.closure_sound q hq
      rw [hn] at this
      rw [ownExpected_of_rels this hne] at hx
      cases hx

/-- `w` has no relationships part next to a part of `base` (other than a sheet part) that `base` did not have -/
def NNR (base w : WM C) : Prop :=
  ∀ m, base.has m = true → isSheetName m = false → w.has (.rels m) = true → base.has (.rels m) = true

theorem nnr_add_plain (base w : WM C) (n : PName) (c : Content C) (h : NNR base w) (hn : isRelsName n = false) : NNR base (w.add n c) := by
  intro m hm hs hh
  rcases (add_has_iff _ _ _ _).mp hh with h1 | h1
  · exact h m hm hs h1
  · rw [← h1] at hn; cases hn

theorem nnr_add_rels (base w : WM C) (t : PName) (c : Content C) (h : NNR base w) (ht : base.has t = false ∨ isSheetName t = true) :
    NNR base (w.add (.rels t) c) := by
  intro m hm hs hh
  rcases (add_has_iff _ _ _ _).mp hh with h1 | h1
  · exact h m hm hs h1
  · injection h1 with h1
    subst h1
    rcases ht with ht | ht
    · rw [hm] at ht; cases ht
    · rw [hs] at ht; cases ht

theorem emitLeaf_nnr (base w : WM C) (l : Leaf) (h : NNR base w) (hl : ∀ n, l = .fixed n → isRelsName n = false) : NNR base (emitLeaf w l).1 := by
  cases l with
  | alloc f => exact nnr_add_plain _ _ _ _ h rfl
  | fixed n => exact nnr_add_plain _ _ _ _ h (hl n rfl)
  | ext => exact h
  | missing n => exact h

theorem emitLeaves_nnr (base : WM C) (ls : List Leaf) (w : WM C) (h : NNR base w) (hl : ∀ n ∈ leafNames ls, isRelsName n = false) :
    NNR base (emitLeaves w ls).1 := by
  induction ls generalizing w with
  | nil => exact h
  | cons l ls ih =>
    simp only [emitLeaves]
    refine ih _ (emitLeaf_nnr base w l h ?_) ?_
    · intro n e; subst e; exact hl n (by simp [leafNames])
    · intro n hn; apply hl
      cases l <;> simp [leafNames, hn]

theorem emitItem_nnr (base w : WM C) (x : Item) (he : Ext (fun _ => True) base w) (h : NNR base w)
    (hl : ∀ n ∈ profNames [x], isRelsName n = false) : NNR base (emitItem w x).1 := by
  cases x with
  | leaf l =>
    apply emitLeaf_nnr base w l h
    intro n e; subst e; exact hl n (by simp [profNames])
  | node f kids =>
    simp only [emitItem]
    have h1 := emitLeaves_nnr base kids w h (fun n hn => hl n (by simp [profNames, hn]))
    have he1 : Ext (fun _ => True) base (emitLeaves w kids).1 :=
      he.trans (emitLeaves_ext (fun _ => True) (fun _ _ => trivial) kids w (fun _ _ => trivial))
    have h2 : NNR base ((emitLeaves w kids).1.add (.fam f ((emitLeaves w kids).1.firstFree f)) .gen) := nnr_add_plain _ _ _ _ h1 rfl
    split
    · exact h2
    · apply nnr_add_rels _ _ _ _ h2
      left
      apply has_false_of_not
      intro hb
      have := he1.has_mono _ hb
      rw [firstFree_free] at this; cases this

theorem emitItems_nnr (base : WM C) (xs : Profile) (w : WM C) (he : Ext (fun _ => True) base w) (h : NNR base w)
    (hl : ∀ n ∈ profNames xs, isRelsName n = false) : NNR base (emitItems w xs).1 := by
  induction xs generalizing w with
  | nil => exact h
  | cons x xs ih =>
    simp only [emitItems]
    refine ih _ (he.trans (emitItem_ext (fun _ => True) (fun _ _ => trivial) (fun _ _ => trivial) w x (fun _ _ => trivial)))
      (emitItem_nnr base w x he h (fun n hn => hl n ((profNames_cons x xs n).mpr (Or.inl hn)))) ?_
    intro n hn; exact hl n ((profNames_cons x xs n).mpr (Or.inr hn))

theorem emitSheet_nnr (base w : WM C) (p : Nat) (prof : Profile) (he : Ext (fun _ => True) base w) (h : NNR base w)
    (hl : ∀ n ∈ profNames prof, isRelsName n = false) : NNR base (emitSheet w p prof) := by
  unfold emitSheet
  simp only
  have h1 := emitItems_nnr base prof w he h hl
  split
  · exact h1
  · exact nnr_add_rels _ _ _ _ h1 (Or.inr rfl)

theorem loop2_nnr (base : WM C) (ss : List (Sheet C)) (p : Nat) (w : WM C) (he : Ext (fun _ => True) base w) (h : NNR base w)
    (hl : ProfNoRels ss) : NNR base (loop2 w p ss) := by
  induction ss generalizing p w with
  | nil => exact h
  | cons s ss ih =>
    simp only [loop2]
    apply ih
    · exact he.trans (objStep_ext w p s)
    · unfold objStep
      cases hb : s.body with
      | raw r => exact h
      | loaded l => exact emitSheet_nnr base w p l.prof he h (hl s (List.mem_cons_self ..) l hb)
    · intro s' hs'; exact hl s' (List.mem_cons_of_mem _ hs')


/-! ## helpers of the theorem file -/

/-- the hypotheses of `C11_save_sheet_parts` about raw sheets follow from the invariant -/
theorem rawsOk_of_consistent (x : Pkg) (b : Book C) (h : Consistent x b) : RawsOk b.sheets := by
  rw [consistent_iff] at h
  intro s hs r hb n hn k e
  have hf := h.2 s hs r hb
  have hy := hygienic_spec hf.hyg
  unfold RawSheet.names at hn
  obtain ⟨q, hq, hn⟩ := List.mem_flatMap.mp hn
  rcases List.mem_cons.mp hn with e1 | e1
  · obtain ⟨m, hm, _⟩ := hy.relsName q hq
    rw [e1, hm] at e; cases e
  · obtain ⟨r', hr', e2⟩ := List.mem_map.mp e1
    rcases hy.rel q hq r' hr' with ⟨hx, _⟩ | ⟨_, hok⟩
    · rcases readRelsPart_rel (hf.closure_sound q hq) r' hr' with e3 | ⟨e3, _⟩
      · rw [← e2, e3] at e; cases e
      · rw [hx] at e3; cases e3
    · rw [← e2] at e; rw [e] at hok; cases hok

theorem mem_closureTargets {r : RawSheet} {t : PName} :
    t ∈ closureTargets r ↔ ∃ q ∈ r.closure, ∃ r' ∈ q.rels, r'.ext = false ∧ r'.file = t := by
  unfold closureTargets
  simp only [List.mem_flatMap, List.mem_filterMap]
  constructor
  · rintro ⟨q, hq, r', hr', h⟩
    by_cases hx : r'.ext = true
    · simp [hx] at h
    · have hx' : r'.ext = false := by cases he : r'.ext <;> simp_all
      simp only [hx', Bool.false_eq_true, if_false, Option.some.injEq] at h
      exact ⟨q, hq, r', hr', hx', h⟩
  · rintro ⟨q, hq, r', hr', hx, h⟩
    exact ⟨q, hq, r', hr', by simp [hx, h]⟩

theorem targets_mem {q : RawRels} {t : PName} (h : some t ∈ q.targets) : ∃ r' ∈ q.rels, r'.ext = false ∧ r'.file = t := by
  unfold RawRels.targets at h
  obtain ⟨r', hr', e⟩ := List.mem_map.mp h
  by_cases hx : r'.ext = true
  · simp [hx] at e
  · have hx' : r'.ext = false := by cases he : r'.ext <;> simp_all
    simp only [hx', Bool.false_eq_true, if_false, Option.some.injEq] at e
    exact ⟨r', hr', hx', e⟩

theorem xLookup_plain (x : Pkg) (n : PName) (h : isRelsName n = false) :
    xLookup (C := C) x n = (x.get? n).map (fun p => .bytes p.cid) := by
  cases n <;> simp_all [xLookup, isRelsName]

/-- the relationships part `x` has next to a target of the closure is a member of the closure, under that name -/
theorem closure_rels_of_target {x : Pkg} {r : RawSheet} (hf : FromPkg x r) {m : PName} (hm : m ∈ closureTargets r) {c : Content C}
    (hc : ownExpected x m = some c) :
    ∃ q' ∈ r.closure, q'.name = .rels m ∧ q'.name ≠ .rels r.file ∧ q'.rels.isEmpty = false ∧ c = .relsOf q'.targets := by
  obtain ⟨q, hq, r', hr', hx, rfl⟩ := mem_closureTargets.mp hm
  obtain ⟨q1, hq1, hne, hc1⟩ := rels_of_ownExpected hc
  have hcl := (openRaw_spec hf.read).2.2
  rcases readClosure_complete x _ _ _ hcl q hq r' hr' hx with h | ⟨q', hq', hn'⟩
  · rw [h] at hq1; cases hq1
  · have := hf.closure_sound q' hq'
    rw [hn', hq1] at this
    injection this with this; injection this with this
    subst this
    refine ⟨q1, hq', hn', ?_, hne, hc1⟩
    rw [hn']
    intro e; injection e with e
    exact (hygienic_spec hf.hyg).notSelf q hq r' hr' hx e


end Umya.Lazy
