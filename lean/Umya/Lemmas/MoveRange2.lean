/-
  `move_or_copy_range` on a coherent sheet commutes with the reference `moveRect` / `copyRect`
  through the abstraction `content`.
-/
import Umya.Lemmas.MoveRangeScan
namespace Umya.Sheet
open Umya.Coord (Res)
open Umya.Spec.Grid

/-- in-range arguments pass the guard of `move_or_copy_range` -/
theorem inRange_guard (ρ : Rect) (dr dc : Int) (hin : InRange ρ dr dc) :
    ¬ ((ρ.cs : Int) + dc < 1 ∨ (ρ.rs : Int) + dr < 1 ∨ (ρ.ce : Int) + dc > 16384 ∨ (ρ.re : Int) + dr > 1048576) := by
  simp only [InRange, maxRow, maxCol] at hin
  omega

/-- a position is in the image rectangle iff it is the target of a position of the rectangle -/
theorem hasImage_iff (ρ : Rect) (dr dc : Int) (hin : InRange ρ dr dc) (r c : Nat) :
    ρ.hasImage dr dc r c ↔
      ∃ r0 c0 : Nat, ρ.rs ≤ r0 ∧ r0 ≤ ρ.re ∧ ρ.cs ≤ c0 ∧ c0 ≤ ρ.ce ∧
        (r, c) = (((r0 : Int) + dr).toNat, ((c0 : Int) + dc).toNat) := by
  simp only [InRange, maxRow, maxCol] at hin
  simp only [Rect.hasImage, Rect.has, Prod.mk.injEq]
  constructor
  · intro h
    exact ⟨((r : Int) - dr).toNat, ((c : Int) - dc).toNat, by omega, by omega, by omega, by omega, by omega, by omega⟩
  · rintro ⟨r0, c0, h1, h2, h3, h4, e1, e2⟩
    omega

theorem has_iff (ρ : Rect) (r c : Nat) :
    ρ.has r c ↔ ρ.rs ≤ r ∧ r ≤ ρ.re ∧ ρ.cs ≤ c ∧ c ≤ ρ.ce := by
  simp only [Rect.has]; omega

/-- the heart of both refinements: content after pasting the cells collected from `s` onto any sheet `s1` -/
theorem content_paste_copies (s s1 : Sheet) (h : Coherent s) (ρ : Rect) (dr dc : Int) (hin : InRange ρ dr dc)
    (coords : List Key) (hok : coordsInRange s ρ.rs ρ.re ρ.cs ρ.ce = .ok coords) (r c : Nat) :
    content (paste s1 (copiesOf s coords) dr dc) r c =
      if ρ.hasImage dr dc r c then
        match content s ((r : Int) - dr).toNat ((c : Int) - dc).toNat with
        | some x => some x
        | none => content s1 r c
      else content s1 r c := by
  obtain ⟨hA, hB⟩ := copiesOf_spec s h ρ.rs ρ.re ρ.cs ρ.ce coords hok
  have hin' := hin
  simp only [InRange, maxRow, maxCol] at hin'
  by_cases hI : ρ.hasImage dr dc r c
  · rw [if_pos hI]
    have hI' := hI
    simp only [Rect.hasImage, Rect.has] at hI'
    cases hl : lookup (((r : Int) - dr).toNat, ((c : Int) - dc).toNat) s.cells with
    | none =>
      have : content s ((r : Int) - dr).toNat ((c : Int) - dc).toNat = none := by simp [content, hl]
      rw [this]
      apply content_paste_miss
      intro y hy e
      obtain ⟨hly, b1, b2, b3, b4⟩ := hA y hy
      simp only [Prod.mk.injEq] at e
      have e1 : y.row = ((r : Int) - dr).toNat := by omega
      have e2 : y.col = ((c : Int) - dc).toNat := by omega
      rw [e1, e2, hl] at hly
      simp at hly
    | some x =>
      have hc : content s ((r : Int) - dr).toNat ((c : Int) - dc).toNat = some (x.val, x.sty) := by simp [content, hl]
      rw [hc]
      have hco := h.coord _ (lookup_some_mem hl)
      simp only at hco
      have hx : x ∈ copiesOf s coords := hB _ _ x hl (by omega) (by omega) (by omega) (by omega)
      apply content_paste_hit s1 _ dr dc r c x hx
      · rw [hco.1, hco.2]; simp only [Prod.mk.injEq]; omega
      · intro y hy e
        obtain ⟨hly, b1, b2, b3, b4⟩ := hA y hy
        simp only [Prod.mk.injEq] at e
        have e1 : y.row = ((r : Int) - dr).toNat := by omega
        have e2 : y.col = ((c : Int) - dc).toNat := by omega
        rw [e1, e2, hl] at hly
        injection hly with hly
        rw [hly]
  · rw [if_neg hI]
    apply content_paste_miss
    intro y hy e
    obtain ⟨_, b1, b2, b3, b4⟩ := hA y hy
    exact hI ((hasImage_iff ρ dr dc hin r c).2 ⟨y.row, y.col, b1, b2, b3, b4, e⟩)

/-- content after the clean-up pass of a move -/
theorem content_clearRect (s : Sheet) (ρ : Rect) (dr dc : Int) (hin : InRange ρ dr dc) (r c : Nat) :
    content (clearRect s ρ.rs ρ.re ρ.cs ρ.ce dr dc) r c =
      if ρ.hasImage dr dc r c ∨ ρ.has r c then none else content s r c := by
  by_cases hh : ρ.hasImage dr dc r c ∨ ρ.has r c
  · rw [if_pos hh]
    apply content_clearRect_hit
    rcases hh with hI | hS
    · obtain ⟨r0, c0, h1, h2, h3, h4, e⟩ := (hasImage_iff ρ dr dc hin r c).1 hI
      exact ⟨r0, c0, h1, h2, h3, h4, Or.inr e⟩
    · obtain ⟨h1, h2, h3, h4⟩ := (has_iff ρ r c).1 hS
      exact ⟨r, c, h1, h2, h3, h4, Or.inl rfl⟩
  · rw [if_neg hh]
    apply content_clearRect_miss
    intro r0 c0 h1 h2 h3 h4 e
    rcases e with e | e
    · simp only [Prod.mk.injEq] at e
      exact hh (Or.inr ((has_iff ρ r c).2 (by omega)))
    · exact hh (Or.inl ((hasImage_iff ρ dr dc hin r c).2 ⟨r0, c0, h1, h2, h3, h4, e⟩))

theorem moveOrCopy_ok (s : Sheet) (h : Coherent s) (ρ : Rect) (dr dc : Int) (hin : InRange ρ dr dc) (mv : Bool) :
    ∃ coords, coordsInRange s ρ.rs ρ.re ρ.cs ρ.ce = .ok coords ∧
      moveOrCopy s ρ.rs ρ.re ρ.cs ρ.ce dr dc mv =
        .ok (paste (if mv then clearRect s ρ.rs ρ.re ρ.cs ρ.ce dr dc else s) (copiesOf s coords) dr dc) := by
  have hin' := hin
  simp only [InRange] at hin'
  obtain ⟨coords, hok⟩ := coordsInRange_ok s ρ.rs ρ.re ρ.cs ρ.ce hin'.2.1 hin'.2.2.2.2.1
  refine ⟨coords, hok, ?_⟩
  rw [moveOrCopy_eq, if_neg (inRange_guard ρ dr dc hin), hok]
  simp only [collectCells_eq s h ρ.rs ρ.re ρ.cs ρ.ce coords hok]

theorem content_move (s : Sheet) (h : Coherent s) (ρ : Rect) (dr dc : Int) (hin : InRange ρ dr dc) :
    ∃ t, moveOrCopy s ρ.rs ρ.re ρ.cs ρ.ce dr dc true = .ok t ∧ Coherent t ∧
      content t = moveRect (content s) ρ dr dc := by
  obtain ⟨coords, hok, heq⟩ := moveOrCopy_ok s h ρ dr dc hin true
  refine ⟨_, heq, moveOrCopy_coherent s _ _ _ _ _ dr dc true h heq, ?_⟩
  funext r c
  simp only [if_true]
  rw [content_paste_copies s _ h ρ dr dc hin coords hok r c, content_clearRect s ρ dr dc hin r c]
  unfold moveRect
  by_cases hI : ρ.hasImage dr dc r c
  · have : ρ.hasImage dr dc r c ∨ ρ.has r c := Or.inl hI
    rw [if_pos hI, if_pos hI, if_pos this]
    cases content s ((r : Int) - dr).toNat ((c : Int) - dc).toNat <;> rfl
  · rw [if_neg hI, if_neg hI]
    by_cases hS : ρ.has r c
    · rw [if_pos (Or.inr hS), if_pos hS]
    · have : ¬ (ρ.hasImage dr dc r c ∨ ρ.has r c) := fun e => e.elim hI hS
      rw [if_neg this, if_neg hS]

theorem content_copy (s : Sheet) (h : Coherent s) (ρ : Rect) (dr dc : Int) (hin : InRange ρ dr dc) :
    ∃ t, moveOrCopy s ρ.rs ρ.re ρ.cs ρ.ce dr dc false = .ok t ∧ Coherent t ∧
      content t = copyRect (content s) ρ dr dc := by
  obtain ⟨coords, hok, heq⟩ := moveOrCopy_ok s h ρ dr dc hin false
  refine ⟨_, heq, moveOrCopy_coherent s _ _ _ _ _ dr dc false h heq, ?_⟩
  funext r c
  simp only [Bool.false_eq_true, if_false]
  rw [content_paste_copies s _ h ρ dr dc hin coords hok r c]
  unfold copyRect
  by_cases hI : ρ.hasImage dr dc r c
  · rw [if_pos hI, if_pos hI]
    cases content s ((r : Int) - dr).toNat ((c : Int) - dc).toNat <;> rfl
  · rw [if_neg hI, if_neg hI]

/-! ### row / column dimensions: a move / copy only ever appends -/

/-- `t` keeps the row table and the column list of `s` as they are, possibly with new entries behind -/
def DimsKept (s t : Sheet) : Prop := s.rows <+: t.rows ∧ s.cols <+: t.cols

theorem dimsKept_refl (s : Sheet) : DimsKept s s := ⟨List.prefix_refl _, List.prefix_refl _⟩

theorem dimsKept_trans {a b c : Sheet} (h1 : DimsKept a b) (h2 : DimsKept b c) : DimsKept a c :=
  ⟨h1.1.trans h2.1, h1.2.trans h2.2⟩

theorem removeCell_dims (s : Sheet) (c r : Nat) : DimsKept s (removeCell s c r) := by
  unfold removeCell; split <;> exact dimsKept_refl _

theorem ensureRow_dims (s : Sheet) (r : Nat) : DimsKept s (ensureRow s r) := by
  unfold ensureRow; split
  · exact dimsKept_refl _
  · exact ⟨List.prefix_append _ _, List.prefix_refl _⟩

theorem ensureCol_dims (s : Sheet) (c : Nat) : DimsKept s (ensureCol s c) := by
  unfold ensureCol; split
  · exact dimsKept_refl _
  · exact ⟨List.prefix_refl _, List.prefix_append _ _⟩

theorem getMut_dims (s : Sheet) (c r : Nat) : DimsKept s (getMut s c r) := by
  have h := dimsKept_trans (ensureRow_dims s r) (ensureCol_dims (ensureRow s r) c)
  unfold getMut
  simp only
  split <;> exact h

theorem setCell_dims (s : Sheet) (c r v st : Nat) : DimsKept s (setCell s c r v st) := by
  have h := getMut_dims s c r
  unfold setCell modify
  split <;> exact h

theorem foldl_dims {α} (f : Sheet → α → Sheet) (hf : ∀ s x, DimsKept s (f s x)) (l : List α) (s : Sheet) :
    DimsKept s (l.foldl f s) := by
  induction l generalizing s with
  | nil => exact dimsKept_refl _
  | cons x xs ih => exact dimsKept_trans (hf s x) (ih _)

theorem moveOrCopy_dims (s t : Sheet) (rs re cs ce : Nat) (dr dc : Int) (mv : Bool)
    (hok : moveOrCopy s rs re cs ce dr dc mv = .ok t) : DimsKept s t := by
  rw [moveOrCopy_eq] at hok
  split at hok
  · simp at hok
  · split at hok
    · simp at hok
    · split at hok
      · simp at hok
      · injection hok with hok; subst hok
        refine dimsKept_trans ?_ (foldl_dims _ (fun s x => setCell_dims s _ _ _ _) _ _)
        split
        · exact foldl_dims _ (fun s p => dimsKept_trans (removeCell_dims s _ _) (removeCell_dims _ _ _)) _ s
        · exact dimsKept_refl _

end Umya.Sheet
