/-
  C01 at tree level, one cell: the fact view (`Umya/Model/CellTree.lean::cellFact`) of the element tree that
  `Umya/Model/CellNode.lean::cellNode` renders for a written `<c>` fact is that fact up to the spelling of its
  raw texts, and C01's reader does not see the difference — so `writeTo_readCell` (the fact-level round trip)
  lifts to trees (`writeTo_readCellN`).
-/
import Umya.Model.CellTree
import Umya.Lemmas.CellDecode
namespace Umya.CellTree
open Umya.Xml Umya.CellXml Umya.CellNode Umya.Num Umya.Coord Umya.Dec Umya.InternC01
open Umya.Spec.Xml (Node Attr localName)

/-! ## the fact view of the closed form of a rendered `<c>` -/

/-- the `<v>` fact that a `<v>` child with the VALUE `ov` is viewed as -/
def vFactOf : Option Text → VNode
  | none => .absent
  | some s => if s = [] then .emptyTag else .text (escape s)

theorem txt_isEmpty (s : Text) : (txt s).isEmpty = decide (s = []) := by
  by_cases h : s = [] <;> simp [txt, h]

theorem lastKid_eq (n : Node) (name : String) : lastKid n name = (n.children.filter (isKid name.toList)).getLast? := rfl

theorem fOf_cElem (ref t : Text) (styled : Bool) (xf : Nat) (fo ov : Option Text) :
    fOf (cElem ref t styled xf fo ov) = fo.map escape := by
  unfold fOf
  rw [lastKid_eq, lit_f]
  cases fo <;> cases ov <;>
    simp [cElem, Node.children, fKids, vKids, isKid_elem, localName_f, localName_v, ownText_txt]

theorem vOf_cElem (ref t : Text) (styled : Bool) (xf : Nat) (fo ov : Option Text) :
    vOf (cElem ref t styled xf fo ov) = vFactOf ov := by
  unfold vOf
  rw [lastKid_eq, lit_v]
  cases fo <;> cases ov <;>
    simp [cElem, Node.children, fKids, vKids, isKid_elem, localName_f, localName_v, ownText_txt, vFactOf, txt_isEmpty]

theorem localName_is : localName ['i', 's'] = ['i', 's'] := by decide

theorem isOf_cElem (ref t : Text) (styled : Bool) (xf : Nat) (fo ov : Option Text) :
    isOf (cElem ref t styled xf fo ov) = none := by
  unfold isOf
  rw [lastKid_eq, lit_is]
  cases fo <;> cases ov <;>
    simp [cElem, Node.children, fKids, vKids, isKid_elem, localName_f, localName_v]

/-- **the fact view of a rendered `<c>`**: reference, type, styled flag as written; the formula and the value
    spelled with `escape`; a childless `<v>` as `<v/>` -/
theorem cellFact_cElem (ref t : Text) (styled : Bool) (xf : Nat) (fo ov : Option Text) :
    cellFact (cElem ref t styled xf fo ov)
      = { ref := ref, t := t, styled := styled, f := fo.map escape, v := vFactOf ov, is := none } := by
  unfold cellFact
  rw [attr_r, attr_t, attr_s, fOf_cElem, vOf_cElem, isOf_cElem]
  by_cases ht : t = [] <;> cases styled <;> simp [ht]

/-! ## C01's reader does not see the spelling -/

section
variable (F : NumFmt)

/-- `readCell` looks at `<f>` through `readF`, at `<v>` through `readV`; without `<is>` nothing else matters -/
theorem readCell_congr (sst : Table) (x y : CellX) (hr : x.ref = y.ref) (ht : x.t = y.t) (hs : x.styled = y.styled)
    (hf : readF x.f = readF y.f) (hv : ∀ fo, readV F sst x.t x.v fo = readV F sst y.t y.v fo)
    (hx : x.is = none) (hy : y.is = none) : readCell F sst x = readCell F sst y := by
  unfold readCell
  rw [hr, hf, hs, hx, hy]
  split
  · simp only [readIs, ht]
    congr 1
    funext formula
    have := hv formula
    rw [ht] at this
    rw [this]
  · rfl

theorem readF_escape (fo : Option Text) : readF (fo.map escape) = some fo := by
  cases fo <;> simp [readF, readText_false_escape]

theorem readV_text_congr (sst : Table) (t a b : Text) (fo : Option Text)
    (h : readText (decide (t ≠ tSTR)) a = readText (decide (t ≠ tSTR)) b) :
    readV F sst t (.text a) fo = readV F sst t (.text b) fo := by
  simp only [readV, h]

theorem escape_ne_nil {s : Text} (h : s ≠ []) : escape s ≠ [] := fun e => h (escape_eq_nil.1 e)

/-- value level: the `<v>` that `write_to` writes renders to a `<v>` child with some value `ov`, and the reader
    makes the same of the view of that child as of the written fact.  Excluded: the empty text under a formula. -/
theorem writeV_view (hF : F.Sound) (tbl : Table) (raw : RawValue F.Num) (fo : Option Text)
    (hnl : raw.isLazy = false) (hne : ¬ (raw.isEmpty = true ∧ fo = none))
    (hch : ¬ (raw = .str [] ∧ fo.isSome = true)) :
    ∃ ov, vNodes (writeV F tbl (dataTypeOf F raw fo) raw).2 = some (vKids ov) ∧
      ∀ (sst : Table) (fo' : Option Text),
        readV F sst (tAttrOf (dataTypeOf F raw fo)) (vFactOf ov) fo'
          = readV F sst (tAttrOf (dataTypeOf F raw fo)) (writeV F tbl (dataTypeOf F raw fo) raw).2 fo' := by
  cases raw with
  | empty =>
    cases fo with
    | none => exact absurd ⟨rfl, rfl⟩ hne
    | some f =>
      refine ⟨some [], by simp [writeV, RawValue.isEmpty, vNodes_emptyTag], fun sst fo' => ?_⟩
      simp [writeV, RawValue.isEmpty, vFactOf]
  | str s =>
    cases fo with
    | none =>
      have e : (writeV F tbl (dataTypeOf F (.str s) none) (.str s)).2
          = .text (escape (decDigits (intern tbl (itemOf F (.str s))).2)) := by
        simp [writeV, RawValue.isEmpty, dataTypeOf, RawValue.dataType]
      refine ⟨some (decDigits (intern tbl (itemOf F (.str s))).2), by rw [e]; exact vNodes_escape _, fun sst fo' => ?_⟩
      rw [e]
      simp [vFactOf, decDigits_ne_nil]
    | some f =>
      have hs : s ≠ [] := fun e => hch ⟨by rw [e], rfl⟩
      have e : (writeV F tbl (dataTypeOf F (.str s) (some f)) (.str s)).2 = .text (partialEscape s) := by
        simp [writeV, RawValue.isEmpty, dataTypeOf, tS, tSTR, valueText]
      refine ⟨some s, by rw [e]; exact vNodes_partialEscape _, fun sst fo' => ?_⟩
      rw [e]
      have hd : tAttrOf (dataTypeOf F (.str s) (some f)) = tSTR := tAttrOf_str
      rw [hd]
      simp only [vFactOf, hs, if_false]
      apply readV_text_congr
      simp [readText_false_escape, readText_false_partialEscape]
  | rich rs =>
    have hd : dataTypeOf F (.rich rs) fo = tS := by cases fo <;> rfl
    rw [hd]
    have e : (writeV F tbl tS (.rich rs)).2
        = .text (escape (decDigits (intern tbl (itemOf F (.rich rs))).2)) := by
      simp [writeV, RawValue.isEmpty]
    refine ⟨some (decDigits (intern tbl (itemOf F (.rich rs))).2), by rw [e]; exact vNodes_escape _, fun sst fo' => ?_⟩
    rw [e]
    simp [vFactOf, decDigits_ne_nil]
  | num n =>
    have hd : dataTypeOf F (.num n) fo = tN := by cases fo <;> rfl
    rw [hd]
    have e : (writeV F tbl tN (.num n)).2 = .text (partialEscape (F.fmt n)) := by
      simp [writeV, RawValue.isEmpty, tN, tS, tSTR, tB, tE, valueText]
    refine ⟨some (F.fmt n), by rw [e]; exact vNodes_partialEscape _, fun sst fo' => ?_⟩
    rw [e]
    simp only [vFactOf, hF.fmt_ne n, if_false]
    apply readV_text_congr
    have h1 := readText_true_partialEscape (F.fmt n) (hF.fmt_ne n) (fmt_no_ws F hF n)
    have h2 := readText_true_escape (F.fmt n) (hF.fmt_ne n) (fmt_no_ws F hF n)
    have hd2 : decide (tAttrOf tN ≠ tSTR) = true := by decide
    rw [hd2, h1, h2]
  | bool b =>
    have hd : dataTypeOf F (.bool b) fo = tB := by cases fo <;> rfl
    rw [hd]
    cases b
    · have e : (writeV F tbl tB (.bool false)).2 = .text (escape ['0']) := by
        have e' : ¬ (upper (boolText false) = sTRUE) := by decide
        simp [writeV, RawValue.isEmpty, tS, tB, tSTR, valueText, e']
      refine ⟨some ['0'], by rw [e]; exact vNodes_escape _, fun sst fo' => ?_⟩
      rw [e]; simp [vFactOf]
    · have e : (writeV F tbl tB (.bool true)).2 = .text (escape ['1']) := by
        have e' : upper (boolText true) = sTRUE := by decide
        simp [writeV, RawValue.isEmpty, tS, tB, tSTR, valueText, e']
      refine ⟨some ['1'], by rw [e]; exact vNodes_escape _, fun sst fo' => ?_⟩
      rw [e]; simp [vFactOf]
  | err e =>
    have hd : dataTypeOf F (.err e) fo = tE := by cases fo <;> rfl
    rw [hd]
    have e' : (writeV F tbl tE (.err e)).2 = .text (escape e.text) := by
      simp [writeV, RawValue.isEmpty, tS, tSTR, tB, tE, valueText]
    refine ⟨some e.text, by rw [e']; exact vNodes_escape _, fun sst fo' => ?_⟩
    rw [e']; simp [vFactOf, errText_ne_nil]
  | lazy s => simp [RawValue.isLazy] at hnl

/-- `charsCore` spelled out -/
theorem charsCore_iff (raw : RawValue F.Num) (fo : Option Text) :
    charsCore F raw fo = true ↔ ¬ (raw = .str [] ∧ fo.isSome = true) := by
  unfold charsCore
  constructor
  · intro h ⟨h1, h2⟩
    subst h1
    cases fo with
    | none => simp at h2
    | some f => simp at h
  · intro h
    split
    · rename_i h1 h2
      exact absurd ⟨rfl, rfl⟩ h
    · rfl

/-- the body of `Cell::write_to` (value not an unresolved lazy one), through the element tree -/
theorem writeCore_readCellN (hF : F.Sound) (tbl : Table) (c : Cell F.Num) (hc : cellOK F c = true)
    (hnl : c.raw.isLazy = false) (hch : charsCore F c.raw c.formula = true) :
    ∃ tbl' ox, writeCore F tbl c = some (tbl', ox) ∧
      (∃ ext, tbl' = tbl ++ ext ∧ ∀ it ∈ ext, ItemOK it) ∧
      (blankCore F c = true → ox = none) ∧
      (blankCore F c = false → ∃ x, ox = some x ∧ ∀ xf : Nat, ∃ node, cellNode xf x = some node ∧
        ∀ sst : Table, sst.length < 18446744073709551616 → Extends sst tbl' → readCellN F sst node = some c) := by
  obtain ⟨tbl', ox, hw, hext, hblank, hkeep⟩ := writeCore_readCell F hF tbl c hc hnl
  refine ⟨tbl', ox, hw, hext, hblank, fun hb => ?_⟩
  obtain ⟨x, hox, hrx⟩ := hkeep hb
  subst hox
  refine ⟨x, rfl, fun xf => ?_⟩
  have hch' := (charsCore_iff F c.raw c.formula).1 hch
  obtain ⟨col, row, raw, fo, styled⟩ := c
  simp only [cellOK, Bool.and_eq_true, decide_eq_true_eq] at hc
  obtain ⟨⟨hc1, _, _, _⟩, hv⟩ := hc
  have hco : coordinateFromIndexWithLock? col row false false = some (coordinateFromIndexWithLock col row false false) := by
    simp [coordinateFromIndexWithLock?, coordinateFromIndexWithLock, hc1]
  unfold writeCore at hw
  simp only [hb, hco, Bool.false_eq_true, if_false] at hw
  by_cases he : raw.isEmpty = true ∧ fo.isNone = true
  · rw [if_pos he] at hw
    injection hw with hw; injection hw with _ h2; injection h2 with h2
    subst h2
    obtain ⟨he1, he2⟩ := he
    have hraw : raw = .empty := by cases raw <;> simp [RawValue.isEmpty] at he1 ⊢
    have hfo : fo = none := by cases fo <;> simp at he2 ⊢
    subst hraw; subst hfo
    have hd : tAttrOf (dataTypeCrate F { col := col, row := row, raw := (.empty : RawValue F.Num), formula := none, styled := styled }) = [] := tAttrOf_nil
    refine ⟨cElem (coordinateFromIndexWithLock col row false false) [] styled xf none none, ?_, fun sst hlen hx => ?_⟩
    · rw [hd]
      exact cellNode_written xf _ [] styled none .absent none vNodes_absent
    · rw [← hrx sst hlen hx, readCellN, cellFact_cElem, hd]
      rfl
  · rw [if_neg he] at hw
    injection hw with hw; injection hw with _ h2; injection h2 with h2
    subst h2
    have hne : ¬ (raw.isEmpty = true ∧ fo = none) := by
      intro hh; apply he; exact ⟨hh.1, by rw [hh.2]; rfl⟩
    obtain ⟨ov, hvn, hrd⟩ := writeV_view F hF tbl raw fo hnl hne hch'
    refine ⟨cElem (coordinateFromIndexWithLock col row false false) (tAttrOf (dataTypeOf F raw fo)) styled xf fo ov, ?_, fun sst hlen hx => ?_⟩
    · exact cellNode_written xf _ _ styled fo _ ov hvn
    · rw [← hrx sst hlen hx, readCellN, cellFact_cElem]
      refine readCell_congr F sst _ _ rfl rfl rfl ?_ ?_ rfl rfl
      · show readF (fo.map escape) = readF (fo.map partialEscape)
        rw [readF_escape, readF_write]
      · intro fo'
        exact hrd sst fo'

/-- **One cell, through its element tree.**  As `writeTo_readCell`, with the written `<c>` fact rendered as the
    element tree an XML reader delivers (`cellNode`, any style index) and read back through the fact view of that
    TREE: the cell as `Cell::write_to` resolves it. -/
theorem writeTo_readCellN (hF : F.Sound) (tbl : Table) (c : Cell F.Num) (hc : cellOK F c = true) (hch : charsOK F c = true) :
    ∃ tbl' ox, writeTo F tbl c = some (tbl', ox) ∧
      (∃ ext, tbl' = tbl ++ ext ∧ ∀ it ∈ ext, ItemOK it) ∧
      (blankUnstyled F c = true → ox = none) ∧
      (blankUnstyled F c = false → ∃ x, ox = some x ∧ ∀ xf : Nat, ∃ node, cellNode xf x = some node ∧
        ∀ sst : Table, sst.length < 18446744073709551616 → Extends sst tbl' →
          readCellN F sst node = some (Cell.resolved F c)) :=
  writeCore_readCellN F hF tbl (Cell.resolved F c) (cellOK_resolved F hc) (resolveRaw_not_lazy F c.raw) hch

end

end Umya.CellTree
