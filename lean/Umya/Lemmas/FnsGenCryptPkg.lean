/-
  (T) translator, part 3 — `src/helper/crypt.rs`: `convert_password_to_key`, `create_iv`, `crypt_package` (encrypt direction) and
  `encrypt_parts` as compiled from the source on this run are the hand model's (`Umya/Model/Crypt.lean`), for all arguments.

  Representations: the compiled `hash` = `hashOf P` (`gen_hash`); `crypt(..)` = the extern `cryptOf P` (the model's `crypt`: the size
  checks of the Rust function + AES-CBC; its three leading arguments are ignored by the Rust function as well); `hmac` = the extern
  `hmacOf P`; the compiled `build_encryption_info(..)` = `infoOf P` (the model's descriptor record filled from the twenty arguments +
  `buildEncryptionInfo`: `gen_build_encryption_info`; the quick-xml writer is the text written so far); the k-th call of a
  `gen_random_N()` is a field of the model's `Randoms`.  The `while` loop of `crypt_package` runs on fuel `input.len() + 1`; the loop lemma shows it suffices.
-/
import Umya.Lemmas.FnsGenCryptBuf
import Umya.Model.Crypt
namespace Umya.Gen
open Umya.Crypto Umya.Crypt Umya.Agile
set_option linter.unusedSimpArgs false

/-- normal form of the byte-buffer programs (see `FnsGenCryptPw.lean`) -/
macro "crypt_norm'" : tactic => `(tactic| simp only [Option.bind_eq_bind, Option.bind_some, Option.bind_none, Option.bind_fun_some,
  rt_u16_le_bytes, rt_index_zero, rt_index_one, rt_index_succ, List.append_assoc, List.cons_append, List.nil_append, List.append_nil,
  rt_foldlM_some, foldl_append_flatMap, foldl_append_flatten, List.flatMap_id', utf16le_gen,
  gen_le32_none, gen_le32_some8, le32_mod, gen_buffer_alloc, gen_buffer_concat, gen_buffer_copy, gen_buffer_slice,
  List.flatten_cons, List.flatten_nil])

/-! ## truncate / pad (`match len.cmp(n)`) -/

theorem fit_lt (n : Nat) (x : Bytes) (h : x.length < n) : fit n x = x ++ List.replicate (n - x.length) 0x36 := by simp [fit, h]
theorem fit_ge (n : Nat) (x : Bytes) (h : ¬ x.length < n) : fit n x = x.take n := by simp [fit, h]

/-- closes `<truncate / pad of x to n bytes, as compiled> = some (fit n x)` whatever way the three cases are told apart (`match` on
    `len.cmp(n)` in any arm order, an `if` chain on `<` / `>`): in each case of the trichotomy every comparison the program may make is
    given to `simp` as a fact -/
syntax "fit_cases " term:max term:max : tactic
macro_rules
  | `(tactic| fit_cases $x $n) => `(tactic| (
      rcases Nat.lt_trichotomy (List.length $x) $n with hc | hc | hc
      · have h1 := Nat.compare_eq_lt.2 hc
        have h2 : ¬ $n < List.length $x := by omega
        have h3 : List.length $x ≤ $n := by omega
        have h4 : ¬ $n ≤ List.length $x := by omega
        have h5 : ¬ List.length $x = $n := by omega
        have h6 : ¬ $n = List.length $x := by omega
        simp [h1, hc, h2, h3, h4, h5, h6, fit_lt _ _ hc, List.drop_replicate, rt_bslice]
      · have h1 := Nat.compare_eq_eq.2 hc
        have h2 : ¬ List.length $x < $n := by omega
        have h3 : ¬ $n < List.length $x := by omega
        have h4 : List.length $x ≤ $n := by omega
        have h5 : $n ≤ List.length $x := by omega
        have h6 : $n = List.length $x := by omega
        simp [h1, hc, h2, h3, h4, h5, fit_ge _ _ h2, List.take_of_length_le h4, rt_bslice, List.drop_replicate] <;>
          simp [← h6, hc]
      · have h1 := Nat.compare_eq_gt.2 hc
        have h2 : ¬ List.length $x < $n := by omega
        have h3 : $n ≤ List.length $x := by omega
        have h4 : ¬ List.length $x ≤ $n := by omega
        have h5 : ¬ List.length $x = $n := by omega
        have h6 : ¬ $n = List.length $x := by omega
        simp [h1, hc, h2, h3, h4, h5, h6, fit_ge _ _ h2, rt_bslice]))

/-- `convert_password_to_key` for ALL arguments -/
theorem gen_convert_password_to_key (P : Prims) (pw alg : List Char) (salt : Bytes) (spin keyBits : Nat) (blockKey : Bytes) :
    crypt_convert_password_to_key P.sha512 [] shaUpd pw alg salt spin keyBits blockKey =
      if algOk alg then some (convertPasswordToKey P pw salt spin keyBits blockKey) else none := by
  gen_unfold_crypt_convert_password_to_key
  simp only [gen_hash]
  by_cases h : algOk alg
  · simp only [hashOf_ok P alg _ h, if_pos h]
    crypt_norm'
    simp only [convertPasswordToKey, spinLoop_eq_foldl, List.length_replicate]
    generalize P.sha512 (List.foldl _ _ _ ++ blockKey) = x
    fit_cases x (keyBits / 8)
  · simp only [hashOf_bad P alg _ h, if_neg h]
    crypt_norm'

/-- `create_iv` for ALL arguments -/
theorem gen_create_iv (P : Prims) (alg : List Char) (salt : Bytes) (blockSize : Nat) (blockKey : Bytes) :
    crypt_create_iv P.sha512 [] shaUpd alg salt blockSize blockKey =
      if algOk alg then some (createIv P salt blockSize blockKey) else none := by
  gen_unfold_crypt_create_iv
  simp only [gen_hash]
  by_cases h : algOk alg
  · simp only [hashOf_ok P alg _ h, if_pos h]
    crypt_norm'
    simp only [createIv, List.length_replicate]
    generalize P.sha512 (salt ++ blockKey) = x
    fit_cases x blockSize
  · simp only [hashOf_bad P alg _ h, if_neg h]
    crypt_norm'

/-! ## `crypt_package` (encrypt direction) -/

/-- `crypt(encrypt, cipher_algorithm, cipher_chaining, key, iv, input)`: the Rust function ignores its first three arguments -/
def cryptOf (P : Prims) (_enc : Bool) (_alg _chain : List Char) (key iv input : Bytes) : Option Bytes := Crypt.crypt P key iv input

theorem chunks_nil : chunks [] = [] := by rw [chunks]; simp
theorem chunks_cons (xs : Bytes) (h : xs.length ≠ 0) : chunks xs = xs.take chunkSize :: chunks (xs.drop chunkSize) := by
  rw [chunks]; simp [h]

theorem drop_min_length {α} (l : List α) (a : Nat) : l.drop (min a l.length) = l.drop a := by
  by_cases h : a ≤ l.length
  · rw [Nat.min_eq_left h]
  · rw [Nat.min_eq_right (by omega), List.drop_length, List.drop_of_length_le (by omega)]

/-- the `while` loop of `crypt_package` over any condition / body that meet the two step specifications: the chunks from offset `e` on,
    encrypted with their running number.  Fuel `> input.length - e` suffices. -/
theorem whileM_chunks (P : Prims) (salt key input : Bytes)
    (cond : List Bytes × Nat × Nat → Bool) (body : List Bytes × Nat × Nat → Option (List Bytes × Nat × Nat))
    (hc : ∀ oc i e, cond (oc, i, e) = decide (e < input.length))
    (hb : ∀ oc i e, e < input.length → body (oc, i, e) =
      (Crypt.crypt P key (createIv P salt 16 (le32 i)) (padChunk ((input.drop e).take chunkSize))).map
        (fun o => (oc ++ [o], i + 1, min (e + chunkSize) input.length))) :
    ∀ (fuel : Nat) (oc : List Bytes) (i e : Nat), e ≤ input.length → input.length - e < fuel →
      rt_whileM cond body fuel (oc, i, e) =
        (cryptChunks P salt key i (chunks (input.drop e))).map (fun os => (oc ++ os, i + os.length, input.length)) := by
  intro fuel
  induction fuel with
  | zero => intro oc i e _ h; omega
  | succ fuel ih =>
    intro oc i e he hf
    rw [rt_whileM, hc]
    by_cases hlt : e < input.length
    · have hne : (input.drop e).length ≠ 0 := by simp; omega
      rw [chunks_cons _ hne, cryptChunks, hb oc i e hlt]
      simp only [hlt, decide_true, if_true]
      cases hcr : Crypt.crypt P key (createIv P salt 16 (le32 i)) (padChunk ((input.drop e).take chunkSize)) with
      | none => simp
      | some o =>
        simp only [Option.map_some, Option.bind_some]
        rw [ih (oc ++ [o]) (i + 1) (min (e + chunkSize) input.length) (Nat.min_le_right _ _) (by simp [chunkSize]; omega)]
        rw [drop_min_length, List.drop_drop]
        cases cryptChunks P salt key (i + 1) (chunks (List.drop (e + chunkSize) input)) with
        | none => simp
        | some os => simp [Nat.add_assoc, Nat.add_comm 1]
    · have he' : e = input.length := by omega
      subst he'
      simp [chunks_nil, cryptChunks]

theorem ite_gt_min (a b : Nat) : (if a > b then b else a) = min a b := by
  split <;> omega
theorem nat_min_eq (a b : Nat) : Nat.min a b = min a b := rfl

theorem bslice_chunk (input : Bytes) (e : Nat) (he : e < input.length) :
    rt_bslice input e (min (e + chunkSize) input.length) = some ((input.drop e).take chunkSize) := by
  have h1 : e ≤ min (e + chunkSize) input.length ∧ min (e + chunkSize) input.length ≤ input.length := by omega
  simp only [rt_bslice, h1, and_self, if_true]
  congr 1
  by_cases h : e + chunkSize ≤ input.length
  · rw [Nat.min_eq_left h]; congr 1; omega
  · rw [Nat.min_eq_right (by omega), List.take_of_length_le (by simp), List.take_of_length_le (by simp; omega)]

theorem usub_mod16 (n : Nat) : usub 16 (n % 16) = some (16 - n % 16) := by
  have : n % 16 ≤ 16 := by omega
  simp [usub, this]

theorem gen_crypt_package (P : Prims) (cipher chain alg : List Char) (salt key input : Bytes) (h : algOk alg) :
    crypt_crypt_package (cryptOf P) P.sha512 [] shaUpd true cipher chain alg 16 salt key input = cryptPackage P salt key input := by
  gen_unfold_crypt_crypt_package
  rw [whileM_chunks P salt key input]
  case hc => intro oc i e; rfl
  case hb =>
    intro oc i e he
    simp only [beq_self_eq_true, if_true, Nat.add_zero, decide_eq_true_eq, ite_gt_min, nat_min_eq, show (4096 : Nat) = chunkSize from rfl,
      gen_buffer_slice, bslice_chunk input e he, Option.bind_eq_bind, Option.bind_some, rt_umod_pos _ 16 (by decide), usub_mod16]
    simp only [gen_buffer_concat, gen_buffer_alloc, List.flatten_cons, List.flatten_nil, List.append_nil, gen_le32_none, le32_mod,
      gen_create_iv, if_pos h, Option.bind_some, cryptOf]
    generalize List.take chunkSize (List.drop e input) = c
    -- whatever way the program asks whether the chunk needs padding (`> 0`, `!= 0`, ..): decide it here, give `simp` both spellings
    by_cases hr : c.length % 16 = 0
    · have h0 : ¬ (c.length % 16 > 0) := by omega
      have hp : padChunk c = c := by simp [padChunk, hr]
      simp only [hp, hr, h0, gt_iff_lt, Nat.lt_irrefl, ne_eq, not_true_eq_false, decide_false, decide_true, if_false, if_true,
        Bool.false_eq_true, not_false_eq_true, Option.bind_some]
      cases Crypt.crypt P key (createIv P salt 16 (le32 i)) c <;> rfl
    · have h0 : c.length % 16 > 0 := by omega
      have hp : padChunk c = c ++ List.replicate (16 - c.length % 16) 0 := by simp [padChunk, h0]
      simp only [hr, h0, hp, ne_eq, not_true_eq_false, not_false_eq_true, decide_false, decide_true, if_false, if_true,
        Bool.false_eq_true, Option.bind_some]
      cases Crypt.crypt P key (createIv P salt 16 (le32 i)) (c ++ List.replicate (16 - c.length % 16) 0) <;> rfl
  case a => exact Nat.zero_le _
  case a => omega
  simp only [List.drop_zero, if_true, gen_le32_some8, le32_mod, Option.bind_some, gen_buffer_concat, List.flatten_cons,
    List.flatten_nil, List.append_nil, List.nil_append, cryptPackage]
  cases cryptChunks P salt key 0 (chunks input) <;> simp

/-- `hmac(algorithm, key, buffers)`: HMAC-SHA-512 of the concatenation for `"SHA512"`, `Err` otherwise -/
def hmacOf (P : Prims) (alg : List Char) (key : Bytes) (bufs : List Bytes) : Option Bytes :=
  if alg = ['S', 'H', 'A', '5', '1', '2'] then some (P.hmac key bufs.flatten) else none

/-- the descriptor `build_encryption_info(..)` writes: the model's record filled from the twenty arguments in the order of the Rust
    signature (sizes as numbers, buffers in base64), rendered by the model's `buildEncryptionInfo` (`gen_build_encryption_info` below
    shows the compiled function produces exactly this) -/
def infoOf (P : Prims) (packageSalt : Bytes) (packageBlockSize packageKeyBits packageHashSize : Nat)
    (packageCipher packageChaining packageHash : List Char) (encHmacKey encHmacValue : Bytes) (spin : Nat) (keySalt : Bytes)
    (keyBlockSize keyKeyBits keyHashSize : Nat) (keyCipher keyChaining keyHash : List Char)
    (encVerifierInput encVerifierValue encKeyValue : Bytes) : Bytes :=
  buildEncryptionInfo
    { keyData := { saltSize := packageSalt.length, blockSize := packageBlockSize, keyBits := packageKeyBits, hashSize := packageHashSize,
                   cipherAlgorithm := packageCipher, cipherChaining := packageChaining, hashAlgorithm := packageHash,
                   saltValue := P.b64 packageSalt }
      encryptedHmacKey := P.b64 encHmacKey
      encryptedHmacValue := P.b64 encHmacValue
      spinCount := spin
      key := { saltSize := keySalt.length, blockSize := keyBlockSize, keyBits := keyKeyBits, hashSize := keyHashSize,
               cipherAlgorithm := keyCipher, cipherChaining := keyChaining, hashAlgorithm := keyHash, saltValue := P.b64 keySalt }
      encryptedVerifierHashInput := P.b64 encVerifierInput
      encryptedVerifierHashValue := P.b64 encVerifierValue
      encryptedKeyValue := P.b64 encKeyValue }

/-! the externs of `build_encryption_info`: the quick-xml writer as the text written so far, the helpers of `writer/driver.rs` as the
  model's `startTag` / `endTag` (attribute values unescaped: all values here are ASCII without XML-special characters, as in the model) -/

/-- `Event::Decl(BytesDecl::new(version, encoding, standalone))` -/
def xmlDecl (w v : List Char) (enc sa : Option (List Char)) : List Char :=
  w ++ "<?xml version=\"".toList ++ v ++ ['"'] ++
    (match enc with | some e => " encoding=\"".toList ++ e ++ ['"'] | none => []) ++
    (match sa with | some x => " standalone=\"".toList ++ x ++ ['"'] | none => []) ++ "?>".toList
def xmlNewLine (w : List Char) : List Char := w ++ ['\r', '\n']
def xmlStartTag (w name : List Char) (attrs : List (List Char × List Char)) (empty : Bool) : List Char := w ++ startTag name attrs empty
def xmlEndTag (w name : List Char) : List Char := w ++ endTag name
def xmlBytes (w : List Char) : Bytes := w.map fun c => UInt8.ofNat c.toNat

/-- `build_encryption_info(..)` as compiled from the source — the XML declaration, the five start tags with their attribute ↔ value
    tables (which argument goes to which attribute: `len().to_string()`, `to_string()`, base64, or the text itself), the end tags, the
    8-byte prefix — is the model's `buildEncryptionInfo` of the descriptor `infoOf` builds, for ALL twenty arguments -/
theorem gen_build_encryption_info (P : Prims) (packageSalt : Bytes) (packageBlockSize packageKeyBits packageHashSize : Nat)
    (packageCipher packageChaining packageHash : List Char) (encHmacKey encHmacValue : Bytes) (spin : Nat) (keySalt : Bytes)
    (keyBlockSize keyKeyBits keyHashSize : Nat) (keyCipher keyChaining keyHash : List Char)
    (encVerifierInput encVerifierValue encKeyValue : Bytes) :
    crypt_build_encryption_info (List Char) P.b64 xmlBytes xmlDecl xmlEndTag [] xmlNewLine xmlStartTag
        packageSalt packageBlockSize packageKeyBits packageHashSize packageCipher packageChaining packageHash encHmacKey encHmacValue
        spin keySalt keyBlockSize keyKeyBits keyHashSize keyCipher keyChaining keyHash encVerifierInput encVerifierValue encKeyValue =
      infoOf P packageSalt packageBlockSize packageKeyBits packageHashSize packageCipher packageChaining packageHash encHmacKey
        encHmacValue spin keySalt keyBlockSize keyKeyBits keyHashSize keyCipher keyChaining keyHash encVerifierInput encVerifierValue
        encKeyValue := by
  gen_unfold_crypt_build_encryption_info
  simp only [infoOf, buildEncryptionInfo]
  -- (`unfold`, not `simp only`: generating the equation lemmas of these definitions evaluates their long string literals)
  unfold encryptionInfoXml keyDataAttrs encryptionNs passwordNs certificateNs encryptionInfoPrefix
  simp only [xmlBytes, xmlDecl, xmlEndTag, xmlNewLine, xmlStartTag, gen_buffer_concat, List.flatten_cons, List.flatten_nil]
  simp only [String.reduceToList]
  simp only [List.append_assoc, List.cons_append, List.nil_append, List.append_nil]

/-- the three `gen_random_16()` calls of `encrypt_parts`, in source order -/
def draws16 (ρ : Randoms) : Nat → Bytes
  | 0 => ρ.packageSalt
  | 1 => ρ.keySalt
  | _ => ρ.verifierInput

theorem bind_fun_none {α β} (x : Option α) : (x.bind fun _ => (none : Option β)) = none := by cases x <;> rfl

theorem gen_encrypt_parts (P : Prims) (data : Bytes) (pw : List Char) (ρ : Randoms) :
    crypt_encrypt_parts (List Char) P.b64 (cryptOf P) (draws16 ρ) (fun _ => ρ.packageKey) (fun _ => ρ.hmacKey) (hmacOf P)
        P.sha512 [] shaUpd xmlBytes xmlDecl xmlEndTag [] xmlNewLine xmlStartTag data pw =
      (encrypt P data pw ρ).map (fun r => (buildEncryptionInfo r.1, r.2)) := by
  gen_unfold_crypt_encrypt_parts
  simp only [gen_crypt_package P _ _ _ _ _ _ algOk_sha512, gen_create_iv, gen_convert_password_to_key, if_pos algOk_sha512, gen_hash,
    gen_build_encryption_info,
    hashOf_ok P _ _ algOk_sha512, hmacOf, cryptOf, draws16, if_true, Option.bind_eq_bind, Option.bind_some, List.flatten_cons,
    List.flatten_nil, List.append_nil, encrypt, encryptWith]
  simp only [blkHmacKey, blkHmacValue, blkKey, blkVerifierInput, blkVerifierValue]
  -- the model tests the six results in one order, the program binds them in its own: split along the model, rewrite the program
  repeat' (split <;> simp_all only [Option.bind_none, Option.bind_some, Option.map_none, Option.map_some, bind_fun_none])
  all_goals simp_all [infoOf, aes, cbc, sha512Name, bind_fun_none]
end Umya.Gen
