/-
  (T) translator, part 2: the tables and pipelines regenerated from the source on every run
  (`Umya/Model/Gen/Tables.lean`, by tools/extract_tables.py) are the ones the hand model uses.
  A change of a table entry, of an escape replacement or of a normalisation step in the Rust source
  changes the generated file and breaks one of these proofs.
-/
import Umya.Model.Gen.Tables
import Umya.Model.Style
import Umya.Model.Formula
import Umya.Model.Date
import Umya.Model.Reader
import Umya.Model.CellXml
import Umya.Lemmas.Xml
import Umya.Lemmas.XmlEsc
namespace Umya.Gen
open Umya.XmlEsc

/-! ## constant tables -/

theorem gen_builtin_formats :
    builtin_format_codes.map (fun p => (p.1, p.2.toList)) = Umya.Style.builtinCodes := by decide

theorem gen_formula_errors : formula_errors.map String.toList = Umya.Formula.errors := by decide

theorem gen_date_replacements :
    date_format_replacements = Umya.Date.dateReplacements ∧
    date_format_replacements_24 = Umya.Date.dateReplacements24 ∧
    date_format_replacements_12 = Umya.Date.dateReplacements12 := by decide

/-- `Display` and `FromStr` of `CellErrorType` are inverse tables, and their texts are the model's -/
theorem gen_cell_errors :
    cell_error_from_str = cell_error_display.map (fun p => (p.2, p.1)) ∧
    cell_error_display.map (fun p => p.2.toList) = Umya.CellXml.ErrT.all.map Umya.CellXml.ErrT.text ∧
    cell_error_display.map (fun p => p.2.toList) = Umya.Reader.errorLits := by decide

/-! ## replace chains -/

theorem replaceChars_append (ps to a b : List Char) :
    replaceChars ps to (a ++ b) = replaceChars ps to a ++ replaceChars ps to b := by
  simp [replaceChars]

theorem replaceChars_flatMap (ps to : List Char) (f : Char → List Char) (s : List Char) :
    replaceChars ps to (s.flatMap f) = s.flatMap (fun c => replaceChars ps to (f c)) := by
  induction s with
  | nil => rfl
  | cons c r ih => simp [List.flatMap_cons, replaceChars_append, ih]

theorem flatMap_ext {α β} (f g : α → List β) (s : List α) (h : ∀ c, f c = g c) : s.flatMap f = s.flatMap g := by
  rw [show f = g from funext h]

theorem rc1_cons (c : Char) (l : List Char) :
    replaceChars ['\r'] ['\n'] (c :: l) = (if c = '\r' then '\n' else c) :: replaceChars ['\r'] ['\n'] l := by
  simp only [replaceChars, List.flatMap_cons]
  by_cases hc : c = '\r'
  · subst hc; simp
  · simp [hc]

/-! ### the writer's escape pipelines (writer/driver.rs) -/

theorem attr_char (c : Char) :
    replaceChars ['\r'] "&#13;".toList (replaceChars ['\n'] "&#10;".toList (replaceChars ['\t'] "&#9;".toList (escCharOld c))) =
      attrEscChar c := by
  by_cases h1 : c = '<'; · subst h1; decide
  by_cases h2 : c = '>'; · subst h2; decide
  by_cases h3 : c = '&'; · subst h3; decide
  by_cases h4 : c = '\''; · subst h4; decide
  by_cases h5 : c = '"'; · subst h5; decide
  by_cases h6 : c = '\t'; · subst h6; decide
  by_cases h7 : c = '\n'; · subst h7; decide
  by_cases h8 : c = '\r'; · subst h8; decide
  simp [escCharOld, attrEscChar, escChar, replaceChars, h1, h2, h3, h4, h5, h6, h7, h8]

theorem text_char (c : Char) : replaceChars ['\r'] "&#13;".toList (escCharOld c) = escChar c := by
  by_cases h1 : c = '<'; · subst h1; decide
  by_cases h2 : c = '>'; · subst h2; decide
  by_cases h3 : c = '&'; · subst h3; decide
  by_cases h4 : c = '\''; · subst h4; decide
  by_cases h5 : c = '"'; · subst h5; decide
  by_cases h8 : c = '\r'; · subst h8; decide
  simp [escCharOld, escChar, replaceChars, h1, h2, h3, h4, h5, h8]

theorem conv_char (c : Char) : replaceChars ['\r'] "&#13;".toList (pescCharOld c) = pescChar c := by
  by_cases h1 : c = '<'; · subst h1; decide
  by_cases h2 : c = '>'; · subst h2; decide
  by_cases h3 : c = '&'; · subst h3; decide
  by_cases h8 : c = '\r'; · subst h8; decide
  simp [pescCharOld, pescChar, replaceChars, h1, h2, h3, h8]

/-- `write_start_tag` as it is in the source = the model's attribute escaping -/
theorem gen_write_start_tag (s : List Char) :
    write_start_tag_escape.run escapeOld partialEscapeOld s = attrEscape s := by
  simp only [Pipeline.run, write_start_tag_escape, applySteps, List.foldl, Step.apply, escapeOld, attrEscape,
    replaceChars_flatMap]
  exact flatMap_ext _ _ s attr_char

/-- `write_text_node` as it is in the source = the model's text escaping -/
theorem gen_write_text_node (s : List Char) :
    write_text_node_escape.run escapeOld partialEscapeOld s = escape s := by
  simp only [Pipeline.run, write_text_node_escape, applySteps, List.foldl, Step.apply, escapeOld, escape,
    replaceChars_flatMap]
  exact flatMap_ext _ _ s text_char

/-- `write_text_node_conversion` as it is in the source = the model's partial escaping -/
theorem gen_write_text_node_conversion (s : List Char) :
    write_text_node_conversion_escape.run escapeOld partialEscapeOld s = partialEscape s := by
  simp only [Pipeline.run, write_text_node_conversion_escape, applySteps, List.foldl, Step.apply, partialEscapeOld,
    partialEscape, replaceChars_flatMap]
  exact flatMap_ext _ _ s conv_char

/-- the two models of the text channel (C01's `Umya.Xml`, C02/C04/C06's `Umya.XmlEsc`) are the same function -/
theorem xml_escape_eq (s : List Char) : Umya.Xml.escape s = escape s ∧ Umya.Xml.partialEscape s = partialEscape s := by
  constructor
  · simp only [Umya.Xml.escape, escape]
    refine flatMap_ext _ _ s (fun c => ?_)
    by_cases h8 : c = '\r'; · subst h8; decide
    by_cases h1 : c = '<'; · subst h1; decide
    by_cases h2 : c = '>'; · subst h2; decide
    by_cases h3 : c = '&'; · subst h3; decide
    by_cases h4 : c = '\''; · subst h4; decide
    by_cases h5 : c = '"'; · subst h5; decide
    simp [Umya.Xml.escChar, escChar, escCharOld, h1, h2, h3, h4, h5, h8]
  · simp only [Umya.Xml.partialEscape, partialEscape]
    refine flatMap_ext _ _ s (fun c => ?_)
    by_cases h8 : c = '\r'; · subst h8; decide
    by_cases h1 : c = '<'; · subst h1; decide
    by_cases h2 : c = '>'; · subst h2; decide
    by_cases h3 : c = '&'; · subst h3; decide
    simp [Umya.Xml.pescChar, pescChar, h1, h2, h3, h8]

/-! ### the reader's white-space normalisation (reader/driver.rs) -/

theorem crlf_prefix (c : Char) (r : List Char) :
    (['\r', '\n'].isPrefixOf (c :: r)) = true ↔ c = '\r' ∧ ∃ r', r = '\n' :: r' := by
  cases r with
  | nil => simp [List.isPrefixOf]
  | cons d r' =>
    simp only [List.isPrefixOf, Bool.and_true, Bool.and_eq_true, beq_iff_eq, List.cons.injEq, exists_eq_right']
    constructor
    · rintro ⟨h1, h2⟩; exact ⟨h1.symm, h2.symm⟩
    · rintro ⟨h1, h2⟩; exact ⟨h1.symm, h2.symm⟩

/-- `unescape_text`'s `.replace("\r\n", "\n").replace('\r', "\n")` = the model's `normEol` -/
theorem gen_unescape_text (s : List Char) : applySteps unescape_text_normalise s = Umya.Xml.normEol s := by
  show replaceChars ['\r'] ['\n'] (replaceGo ['\r', '\n'] ['\n'] 0 s) = Umya.Xml.normEol s
  fun_induction Umya.Xml.normEol s with
  | case1 => rfl
  | case2 cs ih =>
    have : replaceGo ['\r', '\n'] ['\n'] 0 ('\r' :: '\n' :: cs) = '\n' :: replaceGo ['\r', '\n'] ['\n'] 0 cs := by
      simp [replaceGo, List.isPrefixOf]
    rw [this, rc1_cons, ih]; simp
  | case3 c cs hne ih =>
    have hp : (['\r', '\n'].isPrefixOf (c :: cs)) = false := by
      cases hb : (['\r', '\n'].isPrefixOf (c :: cs)) with
      | false => rfl
      | true => obtain ⟨h1, r', h2⟩ := (crlf_prefix c cs).1 hb; exact absurd h2 (fun e => hne r' h1 e)
    have : replaceGo ['\r', '\n'] ['\n'] 0 (c :: cs) = c :: replaceGo ['\r', '\n'] ['\n'] 0 cs := by
      simp [replaceGo, hp]
    rw [this, rc1_cons, ih]

theorem rc3_cons (c : Char) (l : List Char) :
    replaceChars ['\t', '\n', '\r'] [' '] (c :: l) =
      (if c = '\t' ∨ c = '\n' ∨ c = '\r' then ' ' else c) :: replaceChars ['\t', '\n', '\r'] [' '] l := by
  simp only [replaceChars, List.flatMap_cons]
  by_cases hc : c = '\t' ∨ c = '\n' ∨ c = '\r'
  · rcases hc with h | h | h <;> subst h <;> simp
  · have h1 : c ≠ '\t' := fun e => hc (Or.inl e)
    have h2 : c ≠ '\n' := fun e => hc (Or.inr (Or.inl e))
    have h3 : c ≠ '\r' := fun e => hc (Or.inr (Or.inr e))
    simp [h1, h2, h3]

/-- `get_attribute_value`'s `.replace("\r\n", " ").replace(['\t', '\n', '\r'], " ")` = the model's `attrNorm` -/
theorem gen_get_attribute_value (s : List Char) : applySteps get_attribute_value_normalise s = attrNorm s := by
  show replaceChars ['\t', '\n', '\r'] [' '] (replaceGo ['\r', '\n'] [' '] 0 s) = attrNorm s
  fun_induction attrNorm s with
  | case1 => rfl
  | case2 cs ih =>
    have : replaceGo ['\r', '\n'] [' '] 0 ('\r' :: '\n' :: cs) = ' ' :: replaceGo ['\r', '\n'] [' '] 0 cs := by
      simp [replaceGo, List.isPrefixOf]
    rw [this, rc3_cons, ih]; simp
  | case3 c cs hne ih =>
    have hp : (['\r', '\n'].isPrefixOf (c :: cs)) = false := by
      cases hb : (['\r', '\n'].isPrefixOf (c :: cs)) with
      | false => rfl
      | true => obtain ⟨h1, r', h2⟩ := (crlf_prefix c cs).1 hb; exact absurd h2 (fun e => hne r' h1 e)
    have : replaceGo ['\r', '\n'] [' '] 0 (c :: cs) = c :: replaceGo ['\r', '\n'] [' '] 0 cs := by
      simp [replaceGo, hp]
    rw [this, rc3_cons, ih]

end Umya.Gen
