/-
  Helper lemmas for C18: evaluation of the model `convertDateCrate` (checked `i32` arithmetic,
  year-string slicing) on the domain of the property, and its relation to the reference day count.
-/
import Umya.Model.Date
import Umya.Lemmas.Calendar
namespace Umya.Lemmas.Date
open Umya.Date Umya.Dec Umya.Spec.Calendar Umya.Lemmas.Calendar

theorem parse2 : ∀ a b : Fin 10, parseI32 [digitChar a.val, digitChar b.val] = some ((10 * a.val + b.val : Nat) : Int) := by
  decide

theorem decDigits4 (k : Nat) (h0 : 1000 ≤ k) (h1 : k ≤ 9999) :
    decDigits k = [digitChar (k / 1000), digitChar (k / 100 % 10), digitChar (k / 10 % 10), digitChar (k % 10)] := by
  rw [decDigits, if_neg (by omega), decDigits, if_neg (by omega), decDigits, if_neg (by omega), decDigits, if_pos (by omega)]
  have e1 : k / 10 / 10 / 10 = k / 1000 := by omega
  have e2 : k / 10 / 10 % 10 = k / 100 % 10 := by omega
  rw [e1, e2]; rfl

theorem yearSlices (n : Int) (h0 : 1000 ≤ n) (h1 : n ≤ 9999) :
    (slice (i32ToString n) 0 2).bind parseI32 = some (n / 100) ∧
    (slice (i32ToString n) 2 4).bind parseI32 = some (n % 100) := by
  have hn : ¬ n < 0 := by omega
  unfold i32ToString
  rw [if_neg hn, decDigits4 n.toNat (by omega) (by omega)]
  have ha : n.toNat / 1000 < 10 := by omega
  have hb : n.toNat / 100 % 10 < 10 := by omega
  have hc : n.toNat / 10 % 10 < 10 := by omega
  have hd : n.toNat % 10 < 10 := by omega
  have p1 := parse2 ⟨_, ha⟩ ⟨_, hb⟩
  have p2 := parse2 ⟨_, hc⟩ ⟨_, hd⟩
  simp only at p1 p2
  constructor
  · simp only [slice, List.length_cons, List.length_nil, List.drop, List.take]
    simp
    rw [p1]; congr 1; omega
  · simp only [slice, List.length_cons, List.length_nil, List.drop, List.take]
    simp
    rw [p2]; congr 1; omega

theorem i32_ok (x : Int) (h : -2147483648 ≤ x ∧ x ≤ 2147483647) : i32? x = some x := by
  unfold i32?; rw [if_pos h]

theorem tdiv_nonneg_eq (a b : Int) (ha : 0 ≤ a) : a.tdiv b = a / b := Int.tdiv_eq_ediv_of_nonneg ha

/-- the unchecked arithmetic of `convert_date_crate` (1900 system) on a year already split -/
def rawDate (Y mp d leap : Int) : Int :=
  146097 * (Y / 100) / 4 + 1461 * (Y % 100) / 4 + (153 * mp + 2) / 5 + d + 1721119 - 2415020 + leap

theorem adjust_eq (y m Y mp : Int) (hm : 1 ≤ m ∧ m ≤ 12)
    (hY : (if m > 2 then y else y - 1) = Y) (hYb : 1000 ≤ Y ∧ Y ≤ 9999)
    (hmp : (if m > 2 then m - 3 else m + 9) = mp) : adjustMonthYear y m = some (mp, Y) := by
  have e1 : (if m > 2 then i32? (m - 3) else i32? (m + 9)) = some mp := by
    by_cases h2 : m > 2
    · rw [if_pos h2] at hmp ⊢; rw [hmp]; exact i32_ok _ (by omega)
    · rw [if_neg h2] at hmp ⊢; rw [hmp]; exact i32_ok _ (by omega)
  have e2 : (if m > 2 then some y else i32? (y - 1)) = some Y := by
    by_cases h2 : m > 2
    · rw [if_pos h2] at hY ⊢; rw [hY]
    · rw [if_neg h2] at hY ⊢; rw [hY]; exact i32_ok _ (by omega)
  unfold adjustMonthYear
  simp only [e1, e2, Option.bind_eq_bind, Option.bind_some, Option.pure_def]

theorem centuryDecade_eq (Y : Int) (hYb : 1000 ≤ Y ∧ Y ≤ 9999) :
    centuryDecade Y = some (Y / 100, Y % 100) := by
  obtain ⟨e3, e4⟩ := yearSlices Y hYb.1 hYb.2
  unfold centuryDecade
  simp only [e3, e4, Option.bind_eq_bind, Option.bind_some, Option.pure_def]

theorem excelDate_eq (cen dec mp d leap : Int) (hc : 10 ≤ cen ∧ cen ≤ 99) (hdc : 0 ≤ dec ∧ dec ≤ 99)
    (hmpb : 0 ≤ mp ∧ mp ≤ 11) (hd : 1 ≤ d ∧ d ≤ 31) (hleap : 0 ≤ leap ∧ leap ≤ 1) :
    excelDate cen dec mp d 2415020 leap =
      some (146097 * cen / 4 + 1461 * dec / 4 + (153 * mp + 2) / 5 + d + 1721119 - 2415020 + leap) := by
  have t1 : (146097 * cen).tdiv 4 = 146097 * cen / 4 := tdiv_nonneg_eq _ _ (by omega)
  have t2 : (1461 * dec).tdiv 4 = 1461 * dec / 4 := tdiv_nonneg_eq _ _ (by omega)
  have t3 : (153 * mp + 2).tdiv 5 = (153 * mp + 2) / 5 := tdiv_nonneg_eq _ _ (by omega)
  unfold excelDate
  simp only [Option.bind_eq_bind]
  rw [i32_ok (146097 * cen) (by omega)]; simp only [Option.bind_some]
  rw [i32_ok (1461 * dec) (by omega)]; simp only [Option.bind_some]
  rw [i32_ok (153 * mp) (by omega)]; simp only [Option.bind_some]
  rw [i32_ok (153 * mp + 2) (by omega)]; simp only [Option.bind_some]
  rw [t1, t2, t3]
  rw [i32_ok (146097 * cen / 4 + 1461 * dec / 4) (by omega)]; simp only [Option.bind_some]
  rw [i32_ok (146097 * cen / 4 + 1461 * dec / 4 + (153 * mp + 2) / 5) (by omega)]; simp only [Option.bind_some]
  rw [i32_ok (146097 * cen / 4 + 1461 * dec / 4 + (153 * mp + 2) / 5 + d) (by omega)]; simp only [Option.bind_some]
  rw [i32_ok (146097 * cen / 4 + 1461 * dec / 4 + (153 * mp + 2) / 5 + d + 1721119) (by omega)]; simp only [Option.bind_some]
  rw [i32_ok (146097 * cen / 4 + 1461 * dec / 4 + (153 * mp + 2) / 5 + d + 1721119 - 2415020) (by omega)]; simp only [Option.bind_some]
  rw [i32_ok (146097 * cen / 4 + 1461 * dec / 4 + (153 * mp + 2) / 5 + d + 1721119 - 2415020 + leap) (by omega)]

theorem excelSecs_eq (h mi s : Int) (hh : 0 ≤ h ∧ h < 24) (hmi : 0 ≤ mi ∧ mi < 60) (hs : 0 ≤ s ∧ s < 60) :
    excelSecs h mi s = some (h * 3600 + mi * 60 + s) := by
  unfold excelSecs
  simp only [Option.bind_eq_bind]
  rw [i32_ok (h * 3600) (by omega)]; simp only [Option.bind_some]
  rw [i32_ok (mi * 60) (by omega)]; simp only [Option.bind_some]
  rw [i32_ok (h * 3600 + mi * 60) (by omega)]; simp only [Option.bind_some]
  rw [i32_ok (h * 3600 + mi * 60 + s) (by omega)]

theorem convertDateCrate_eq (y m d h mi s Y mp : Int)
    (hm : 1 ≤ m ∧ m ≤ 12) (hd : 1 ≤ d ∧ d ≤ 31)
    (hY : (if m > 2 then y else y - 1) = Y) (hYb : 1000 ≤ Y ∧ Y ≤ 9999)
    (hmp : (if m > 2 then m - 3 else m + 9) = mp)
    (hh : 0 ≤ h ∧ h < 24) (hmi : 0 ≤ mi ∧ mi < 60) (hs : 0 ≤ s ∧ s < 60) :
    convertDateCrate y m d h mi s true =
      some (rawDate Y mp d (if y = 1900 ∧ m ≤ 2 then 0 else 1), h * 3600 + mi * 60 + s) := by
  have hmpb : 0 ≤ mp ∧ mp ≤ 11 := by
    by_cases h2 : m > 2
    · rw [if_pos h2] at hmp; omega
    · rw [if_neg h2] at hmp; omega
  have hleap : 0 ≤ (if y = 1900 ∧ m ≤ 2 then (0 : Int) else 1) ∧ (if y = 1900 ∧ m ≤ 2 then (0 : Int) else 1) ≤ 1 := by
    split <;> omega
  have a1 := adjust_eq y m Y mp hm hY hYb hmp
  have a2 := centuryDecade_eq Y hYb
  have a3 := excelDate_eq (Y / 100) (Y % 100) mp d _ (by omega) (by omega) hmpb hd hleap
  have a4 := excelSecs_eq h mi s hh hmi hs
  unfold convertDateCrate rawDate
  simp only [if_true, a1, a2, a3, a4, Option.bind_eq_bind, Option.bind_some, Option.pure_def]

theorem julian_vs_hinnant (Y X d : Int) :
    146097 * (Y / 100) / 4 + 1461 * (Y % 100) / 4 + X + d + 1721119 - 2415020 + 1 =
      yearStart Y + (X + d - 1) - 719468 - (-25569) := by
  unfold yearStart
  have h1 : 146097 * (Y / 100) / 4 = 36524 * (Y / 100) + Y / 100 / 4 := by omega
  have h2 : 1461 * (Y % 100) / 4 = 365 * (Y % 100) + Y % 100 / 4 := by omega
  have h3 : Y / 4 = 25 * (Y / 100) + Y % 100 / 4 := by omega
  have h4 : Y / 400 = Y / 100 / 4 := by omega
  rw [h1, h2, h3, h4]; omega

theorem excelEpoch_val : daysFromCivil 1899 12 30 = -25569 := by decide

theorem march_conv (y m : Int) : (if m > 2 then y else y - 1) = marchYear y m ∧
    (if m > 2 then m - 3 else m + 9) = marchMonth m := by
  unfold marchYear marchMonth
  by_cases h : m > 2
  · rw [if_pos h, if_neg (by omega), if_pos h]; exact ⟨rfl, rfl⟩
  · rw [if_neg h, if_pos (by omega), if_neg h]; exact ⟨rfl, rfl⟩

theorem rawDate_eq (y m d leap : Int) :
    rawDate (marchYear y m) (marchMonth m) d leap = daysFromCivil y m d - daysFromCivil 1899 12 30 - 1 + leap := by
  rw [daysFromCivil_linear, excelEpoch_val]
  unfold rawDate
  have := julian_vs_hinnant (marchYear y m) ((153 * marchMonth m + 2) / 5) d
  omega

/-! ### the day/time split in exact (fixed-point) arithmetic -/

open Umya.Date.FloatOps in
theorem fix_secs (D T base : Int) (hT : 0 ≤ T ∧ T < 86400) (hD : 0 ≤ D) :
    (serialOf Fix D T).n = 86400 * D + T ∧
    splitSeconds (serialOf Fix D T) base = (base + D) * 86400 + T := by
  simp only [splitSeconds, serialOf, FloatOps.ofInt, FloatOps.add, FloatOps.div, FloatOps.floor, FloatOps.sub, FloatOps.mul,
    FloatOps.round, FloatOps.toInt]
  have e0 : 86400 * (86400 * T) / (86400 * 86400) = T := by omega
  simp only [e0]
  have e1 : (86400 * D + T) / 86400 = D := by omega
  simp only [e1]
  have e2 : 86400 * D + T - D * 86400 = T := by omega
  simp only [e2]
  have e3 : T * (86400 * 24) / 86400 = 24 * T := by omega
  simp only [e3]
  obtain ⟨hh, hhd⟩ : ∃ hh, 24 * T / 86400 = hh := ⟨_, rfl⟩
  simp only [hhd]
  have hhb : 0 ≤ hh ∧ hh < 24 ∧ 3600 * hh ≤ T ∧ T < 3600 * hh + 3600 := by omega
  obtain ⟨r1, hr1⟩ : ∃ r, T - 3600 * hh = r := ⟨_, rfl⟩
  have e4 : 24 * T - hh * 86400 = 24 * r1 := by omega
  simp only [e4]
  have e5 : 24 * r1 * (86400 * 60) / 86400 = 1440 * r1 := by omega
  simp only [e5]
  obtain ⟨mm, hmd⟩ : ∃ mm, 1440 * r1 / 86400 = mm := ⟨_, rfl⟩
  simp only [hmd]
  have hmb : 0 ≤ mm ∧ mm < 60 ∧ 60 * mm ≤ r1 ∧ r1 < 60 * mm + 60 := by omega
  obtain ⟨r2, hr2⟩ : ∃ r, r1 - 60 * mm = r := ⟨_, rfl⟩
  have e6 : 1440 * r1 - mm * 86400 = 1440 * r2 := by omega
  simp only [e6]
  have e7 : 1440 * r2 * (86400 * 60) / 86400 = 86400 * r2 := by omega
  simp only [e7]
  have hr2b : 0 ≤ r2 ∧ r2 < 60 := by omega
  rw [if_pos (by omega)]
  have e8 : (2 * (86400 * r2) + 86400) / 172800 = r2 := by omega
  simp only [e8]
  have t1 : (D * 86400).tdiv 86400 = D := by rw [Int.tdiv_eq_ediv_of_nonneg (by omega)]; omega
  have t2 : (hh * 86400).tdiv 86400 = hh := by rw [Int.tdiv_eq_ediv_of_nonneg (by omega)]; omega
  have t3 : (mm * 86400).tdiv 86400 = mm := by rw [Int.tdiv_eq_ediv_of_nonneg (by omega)]; omega
  have t4 : (r2 * 86400).tdiv 86400 = r2 := by rw [Int.tdiv_eq_ediv_of_nonneg (by omega)]; omega
  rw [t1, t2, t3, t4]
  exact ⟨trivial, by omega⟩

end Umya.Lemmas.Date
