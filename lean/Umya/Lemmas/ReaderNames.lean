/-
  Helper definitions and lemmas for C03 at workbook level (`Umya/Model/ReaderBook.lean`): merged ranges through
  `Range::set_range` / `get_range` (from `C17_range`), defined names through `set_address` / `get_address` (from
  `C06_defined_name_roundtrip`, `C06_defined_name_text_kept`), the re-homing loop.
-/
import Umya.Model.ReaderBook
import Umya.Lemmas.ReaderBook
import Umya.Thm.C06
namespace Umya.Reader.Lemmas
open Umya.Reader Umya.Spec.Xml Umya.Spec.Sml Umya.Coord
open Umya.Annot (DefName Address splitStr isAddress AreaOK)

/-! ## merged ranges -/

/-- the `ref` texts of the theorem: the A1 text of a range of one of the four printable shapes (a cell, cell:cell, whole
    rows, whole columns; `$` locks allowed) inside the bounds of the codec (columns ≤ ZZZ, rows < 2^32) -/
def MergeRefOk (v : Text) : Prop :=
  ∃ ρ : Range, Umya.Thm.C17.Range.IsShape ρ ∧ Umya.Thm.C17.Range.InBounds ρ ∧ v = ρ.print

theorem refB_col (o : Option Ref) (h : refB 1 18278 o = true) : ∀ x, o = some x → 1 ≤ x.num ∧ x.num ≤ 18278 := by
  intro x hx
  subst hx
  simpa [refB] using h

theorem refB_row (o : Option Ref) (h : refB 0 4294967295 o = true) : ∀ x, o = some x → x.num < 4294967296 := by
  intro x hx
  subst hx
  simp [refB] at h
  omega

theorem mergeRefOkB_sound (v : Text) (h : mergeRefOkB v = true) : MergeRefOk v := by
  unfold mergeRefOkB at h
  split at h
  · rename_i ρ _
    simp only [Bool.and_eq_true, decide_eq_true_eq] at h
    obtain ⟨⟨⟨⟨⟨hs, h1⟩, h2⟩, h3⟩, h4⟩, hp⟩ := h
    refine ⟨ρ, ?_, ⟨refB_col _ h1, refB_col _ h2, refB_row _ h3, refB_row _ h4⟩, hp.symm⟩
    simp only [shapeB, Bool.or_eq_true, Bool.and_eq_true] at hs
    unfold Umya.Thm.C17.Range.IsShape
    rcases hs with ((hs | hs) | hs) | hs
    · exact Or.inl ⟨hs.1.1.1, hs.1.1.2, by simpa using hs.1.2, by simpa using hs.2⟩
    · exact Or.inr (Or.inl ⟨hs.1.1.1, hs.1.1.2, hs.1.2, hs.2⟩)
    · exact Or.inr (Or.inr (Or.inl ⟨by simpa using hs.1.1.1, hs.1.1.2, by simpa using hs.1.2, hs.2⟩))
    · exact Or.inr (Or.inr (Or.inr ⟨hs.1.1.1, by simpa using hs.1.1.2, hs.1.2, by simpa using hs.2⟩))
  · cases h

theorem mergeRange_ok (v : Text) (h : MergeRefOk v) : ∃ ρ, Range.parse v = .ok ρ ∧ ρ.print = v := by
  obtain ⟨ρ, hs, hb, rfl⟩ := h
  exact ⟨ρ, Umya.Thm.C17.C17_range ρ hs hb, rfl⟩

/-! ## defined names -/

/-- the name texts of the theorem: a text that is NOT a plain list of cell areas (a formula, a constant, whole rows or
    columns, a list with such a part: `set_address` keeps it as it stands), or the text of a list of areas in the spelling
    `get_address_ptn2` prints (the sheet name in apostrophes — with `''` for an apostrophe — unless it is made of digits and
    lower-case letters only; `AreaOK`: legal sheet name, a cell or cell:cell, inside the bounds) -/
def NameTextOk (v : Text) : Prop :=
  (splitStr v).all isAddress = false ∨ ∃ as : List Address, (∀ a ∈ as, AreaOK a) ∧ v = DefName.text { areas := as }

theorem areaOkB_sound (a : Address) (h : areaOkB a = true) : AreaOK a := by
  simp only [areaOkB, Bool.and_eq_true, Bool.or_eq_true, Bool.not_eq_true', decide_eq_true_eq, List.all_eq_true] at h
  obtain ⟨⟨⟨⟨⟨⟨⟨hne, hh⟩, hf⟩, hs⟩, h1⟩, h2⟩, h3⟩, h4⟩ := h
  refine ⟨⟨⟨?_, hh⟩, ?_⟩, ?_, ⟨refB_col _ h1, refB_col _ h2, refB_row _ h3, refB_row _ h4⟩⟩
  · intro e; rw [e] at hne; cases hne
  · intro c hc; exact hf c hc
  · rcases hs with hs | hs
    · exact Or.inl ⟨hs.1.1.1, hs.1.1.2, by simpa using hs.1.2, by simpa using hs.2⟩
    · exact Or.inr ⟨hs.1.1.1, hs.1.1.2, hs.1.2, hs.2⟩

theorem nameTextOkB_sound (v : Text) (h : nameTextOkB v = true) : NameTextOk v := by
  unfold nameTextOkB at h
  by_cases h0 : (splitStr v).all isAddress = false
  · exact Or.inl h0
  · rw [if_neg h0] at h
    cases hd : DefName.setAddress {} v with
    | panic => rw [hd] at h; cases h
    | ok d =>
      rw [hd] at h
      have h' : (d.str.isNone && d.areas.all areaOkB && decide (d.text = v)) = true := h
      simp only [Bool.and_eq_true, decide_eq_true_eq, List.all_eq_true, Option.isNone_iff_eq_none] at h'
      obtain ⟨⟨hstr, hall⟩, ht⟩ := h'
      refine Or.inr ⟨d.areas, fun a ha => areaOkB_sound a (hall a ha), ?_⟩
      rw [← ht]
      simp only [DefName.text, hstr]

theorem setAddress_ok (v : Text) (h : NameTextOk v) : ∃ b, DefName.setAddress {} v = .ok b ∧ b.text = v := by
  rcases h with h | ⟨as, has, rfl⟩
  · exact ⟨_, (Umya.Thm.C06.C06_defined_name_text_kept v h).1, (Umya.Thm.C06.C06_defined_name_text_kept v h).2⟩
  · exact ⟨_, Umya.Thm.C06.C06_defined_name_roundtrip as has, rfl⟩

/-- … and in the second case the areas are the ones written -/
theorem setAddress_areas (as : List Address) (has : ∀ a ∈ as, AreaOK a) :
    DefName.setAddress {} (DefName.text { areas := as }) = .ok { areas := as } :=
  Umya.Thm.C06.C06_defined_name_roundtrip as has

theorem definedNameB_agrees (d : Node) (h : validDefinedName d = true) (ht : NameTextOk d.ownText) :
    ∃ n, readDefinedNameB d = some n ∧ n.name = (specName d).name ∧ n.localSheetId = (specName d).scope ∧
      n.body.text = (specName d).text := by
  obtain ⟨b, hb, hbt⟩ := setAddress_ok _ ht
  refine ⟨⟨(specName d).name, (specName d).scope, b⟩, ?_, rfl, rfl, ?_⟩
  · unfold readDefinedNameB
    rw [definedName_agrees d h]
    have : (specName d).text = d.ownText := rfl
    simp only [this, hb]
  · exact hbt

/-! ## re-homing -/

theorem mapM_some' {α β} (f : α → Option β) : ∀ (l : List α), (∀ x ∈ l, (f x).isSome) →
    ∃ r, l.mapM f = some r ∧ r.length = l.length ∧ ∀ i (hi : i < l.length) (hr : i < r.length), f l[i] = some r[i] := by
  intro l
  induction l with
  | nil => intro _; exact ⟨[], rfl, rfl, fun i hi => absurd hi (Nat.not_lt_zero _)⟩
  | cons a t ih =>
    intro h
    obtain ⟨b, hb⟩ := Option.isSome_iff_exists.mp (h a List.mem_cons_self)
    obtain ⟨r, hr, hl, hi⟩ := ih (fun x hx => h x (List.mem_cons_of_mem _ hx))
    refine ⟨b :: r, ?_, by simp [hl], ?_⟩
    · simp only [List.mapM_cons, hb, hr]; rfl
    · intro i h1 h2
      cases i with
      | zero => exact hb
      | succ j => exact hi j (by simpa using h1) (by simpa using h2)

theorem homeOf_some (sheets : List SheetR) (n : NameB) (h : ∀ i, n.localSheetId = some i → i < sheets.length) :
    ∃ hm, homeOf sheets n = some hm := by
  unfold homeOf
  cases hl : n.localSheetId with
  | some i => simp only [h i hl, if_true]; exact ⟨_, rfl⟩
  | none =>
    simp only []
    cases n.body.areas.head? with
    | none => exact ⟨_, rfl⟩
    | some a =>
      simp only []
      cases sheets.findIdx? (fun s => decide (s.name = a.sheet)) <;> exact ⟨_, rfl⟩

theorem rehome_spec (sheets : List SheetR) : ∀ (names : List NameB),
    (∀ n ∈ names, ∀ i, n.localSheetId = some i → i < sheets.length) →
    ∃ l, rehome sheets names = some l ∧ l.map (·.1) = names ∧ ∀ p ∈ l, homeOf sheets p.1 = some p.2 := by
  intro names
  induction names with
  | nil => intro _; exact ⟨[], rfl, rfl, fun p hp => by cases hp⟩
  | cons n t ih =>
    intro h
    obtain ⟨hm, hh⟩ := homeOf_some sheets n (h n List.mem_cons_self)
    obtain ⟨l, hl, hm1, hm2⟩ := ih (fun x hx => h x (List.mem_cons_of_mem _ hx))
    refine ⟨(n, hm) :: l, ?_, by simp [hm1], ?_⟩
    · unfold rehome at hl ⊢
      simp only [List.mapM_cons, hh, Option.map_some, hl]; rfl
    · intro p hp
      rcases List.mem_cons.mp hp with e | e
      · subst e; exact hh
      · exact hm2 p e

end Umya.Reader.Lemmas
