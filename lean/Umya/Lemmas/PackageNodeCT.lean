/-
  `contentTypeOf` (the decoder's look-up: `Override` by part name, else `Default` by extension) on the
  `[Content_Types].xml` of `Umya/Model/PackageNode.lean`, for every part of the package.
-/
import Umya.Lemmas.PackageNodeLookup
namespace Umya.PackageNode
open Umya.Xml Umya.CellXml Umya.CellNode Umya.SheetNode Umya.WorkbookNode Umya.Dec
open Umya.Spec.Xml (Node Attr localName)
open Umya.Spec.Sml

def nOverride : List Char := ['O', 'v', 'e', 'r', 'r', 'i', 'd', 'e']
def nDefault : List Char := ['D', 'e', 'f', 'a', 'u', 'l', 't']

theorem isKid_override (a ct : List Char) : isKid nOverride (overrideEl a ct) = true ∧ isKid nDefault (overrideEl a ct) = false := by
  unfold overrideEl; rw [isKid_elem, isKid_elem]; exact ⟨by decide, by decide⟩

theorem isKid_default (a ct : List Char) : isKid nOverride (defaultEl a ct) = false ∧ isKid nDefault (defaultEl a ct) = true := by
  unfold defaultEl; rw [isKid_elem, isKid_elem]; exact ⟨by decide, by decide⟩

theorem sheetOverrides_kids (n : Nat) : ∀ k, (sheetOverrides k n).filter (isKid nOverride) = sheetOverrides k n ∧
    (sheetOverrides k n).filter (isKid nDefault) = [] := by
  induction n with
  | zero => intro _; exact ⟨rfl, rfl⟩
  | succ n ih =>
    intro k
    simp [sheetOverrides, List.filter_cons, (isKid_override _ _).1, (isKid_override _ _).2, (ih (k + 1)).1, (ih (k + 1)).2]

/-- the Overrides of the model's `[Content_Types].xml` -/
def overrides (n : Nat) (hs : Bool) : List Node :=
  [overrideEl nApp ctApp, overrideEl nCore ctCore] ++ (if hs then [overrideEl nSst ctSst] else []) ++
  [overrideEl nStyles ctStyles, overrideEl nTheme ctTheme, overrideEl nWorkbookPart ctWorkbook] ++ sheetOverrides 1 n

theorem ct_kids (n : Nat) (hs : Bool) :
    (contentTypesNode n hs).kids "Override" = overrides n hs ∧
    (contentTypesNode n hs).kids "Default" = [defaultEl ['r', 'e', 'l', 's'] ctRels, defaultEl ['x', 'm', 'l'] ctXml] := by
  have e1 : "Override".toList = nOverride := rfl
  have e2 : "Default".toList = nDefault := rfl
  rw [kids_eq, kids_eq, e1, e2]
  cases hs <;>
  simp [contentTypesNode, overrides, Node.children, List.filter_append, List.filter_cons, isKid_override, isKid_default, sheetOverrides_kids]

/-- the decoder's Override predicate for the part `nm` -/
def ovPred (nm : List Char) (o : Node) : Bool := decide (o.attr? ['P', 'a', 'r', 't', 'N', 'a', 'm', 'e'] = some ('/' :: nm))

theorem ovPred_el (a ct nm : List Char) : ovPred nm (overrideEl a ct) = decide (a = nm) := by
  simp [ovPred, overrideEl, Node.attr?, Node.attrs]

theorem ov_find_cons (a ct nm : List Char) (l : List Node) :
    (overrideEl a ct :: l).find? (ovPred nm) = if a = nm then some (overrideEl a ct) else l.find? (ovPred nm) := by
  rw [List.find?_cons, ovPred_el]
  by_cases h : a = nm <;> simp [h]

theorem sheetOverrides_find_other (nm : List Char) (h : ∀ i, sheetPartL i ≠ nm) (n : Nat) : ∀ k, (sheetOverrides k n).find? (ovPred nm) = none := by
  induction n with
  | zero => intro _; rfl
  | succ n ih => intro k; rw [sheetOverrides, ov_find_cons, if_neg (h k), ih]

theorem sheetOverrides_find (n : Nat) : ∀ k j, k ≤ j → j < k + n →
    (sheetOverrides k n).find? (ovPred (sheetPartL j)) = some (overrideEl (sheetPartL j) sheetContentType) := by
  induction n with
  | zero => intro k j h1 h2; omega
  | succ n ih =>
    intro k j h1 h2
    rw [sheetOverrides, ov_find_cons]
    by_cases hj : k = j
    · subst hj; rw [if_pos rfl]
    · rw [if_neg (fun e => hj (sheetPartL_inj _ _ e)), ih (k + 1) j (by omega) (by omega)]

theorem ct_attr (a ct : List Char) : ((overrideEl a ct).attr? "ContentType".toList).map str = some (str ct) := by
  have : "ContentType".toList = ['C', 'o', 'n', 't', 'e', 'n', 't', 'T', 'y', 'p', 'e'] := rfl
  rw [this]
  simp [overrideEl, Node.attr?, Node.attrs]

section
variable (F : Umya.Num.NumFmt)

/-- `contentTypeOf` unfolded on the assembled package: the Override for `nm` if there is one, else the Default
    for its extension -/
theorem contentTypeOf_assemble (b : BookP F.Num) (hs : Bool) (roots : List Node) (tbl : Table) (sst : List Part) (hsst : SstShape tbl sst)
    (nm : List Char) :
    contentTypeOf (assemble F b hs roots sst) (String.ofList nm) =
      match (overrides b.sheets.length hs).find? (ovPred nm) with
      | some o => (o.attr? "ContentType".toList).map str
      | none =>
        ([defaultEl ['r', 'e', 'l', 's'] ctRels, defaultEl ['x', 'm', 'l'] ctXml].find?
          (fun d => ((d.attr? "Extension".toList).map (fun e => (str e).toLower)) = some (String.ofList (extOfL nm)).toLower)).bind
          fun d => (d.attr? "ContentType".toList).map str := by
  have e0 : "[Content_Types].xml" = String.ofList nContentTypes := rfl
  have e1 : ("/" ++ String.ofList nm).toList = '/' :: nm := by simp
  have e2 : "PartName".toList = ['P', 'a', 'r', 't', 'N', 'a', 'm', 'e'] := rfl
  unfold contentTypeOf
  rw [e0, part_contentTypes F b hs roots tbl sst hsst]
  simp only [xmlPart, Option.bind_some, (ct_kids _ _).1, (ct_kids _ _).2, e1, e2, extOf, String.toList_ofList]
  rfl

theorem ct_override_hit (b : BookP F.Num) (hs : Bool) (roots : List Node) (tbl : Table) (sst : List Part) (hsst : SstShape tbl sst)
    (nm ct : List Char) (h : (overrides b.sheets.length hs).find? (ovPred nm) = some (overrideEl nm ct)) :
    contentTypeOf (assemble F b hs roots sst) (String.ofList nm) = some (str ct) := by
  rw [contentTypeOf_assemble F b hs roots tbl sst hsst, h]
  exact ct_attr nm ct

theorem ct_default_rels (b : BookP F.Num) (hs : Bool) (roots : List Node) (tbl : Table) (sst : List Part) (hsst : SstShape tbl sst)
    (nm : List Char) (h : (overrides b.sheets.length hs).find? (ovPred nm) = none) (hext : extOfL nm = ['r', 'e', 'l', 's']) :
    contentTypeOf (assemble F b hs roots sst) (String.ofList nm) = some (str ctRels) := by
  rw [contentTypeOf_assemble F b hs roots tbl sst hsst, h, hext]
  decide +kernel

/-! ### the closed names -/

theorem ov_app (n : Nat) (hs : Bool) : (overrides n hs).find? (ovPred nApp) = some (overrideEl nApp ctApp) := by
  simp only [overrides, List.cons_append, ov_find_cons, if_pos]

theorem ov_core (n : Nat) (hs : Bool) : (overrides n hs).find? (ovPred nCore) = some (overrideEl nCore ctCore) := by
  simp only [overrides, List.cons_append, ov_find_cons, if_neg (show nApp ≠ nCore by decide), if_pos]

theorem ov_sst (n : Nat) : (overrides n true).find? (ovPred nSst) = some (overrideEl nSst ctSst) := by
  simp only [overrides, List.cons_append, List.nil_append, if_true, ov_find_cons, if_neg (show nApp ≠ nSst by decide),
    if_neg (show nCore ≠ nSst by decide), if_pos]

theorem ov_styles (n : Nat) (hs : Bool) : (overrides n hs).find? (ovPred nStyles) = some (overrideEl nStyles ctStyles) := by
  cases hs <;> simp only [overrides, List.cons_append, List.nil_append, if_true, Bool.false_eq_true, if_false, ov_find_cons,
    if_neg (show nApp ≠ nStyles by decide), if_neg (show nCore ≠ nStyles by decide), if_neg (show nSst ≠ nStyles by decide), if_pos]

theorem ov_theme (n : Nat) (hs : Bool) : (overrides n hs).find? (ovPred nTheme) = some (overrideEl nTheme ctTheme) := by
  cases hs <;> simp only [overrides, List.cons_append, List.nil_append, if_true, Bool.false_eq_true, if_false, ov_find_cons,
    if_neg (show nApp ≠ nTheme by decide), if_neg (show nCore ≠ nTheme by decide), if_neg (show nSst ≠ nTheme by decide),
    if_neg (show nStyles ≠ nTheme by decide), if_pos]

theorem ov_workbook (n : Nat) (hs : Bool) : (overrides n hs).find? (ovPred nWorkbookPart) = some (overrideEl nWorkbookPart ctWorkbook) := by
  cases hs <;> simp only [overrides, List.cons_append, List.nil_append, if_true, Bool.false_eq_true, if_false, ov_find_cons,
    if_neg (show nApp ≠ nWorkbookPart by decide), if_neg (show nCore ≠ nWorkbookPart by decide), if_neg (show nSst ≠ nWorkbookPart by decide),
    if_neg (show nStyles ≠ nWorkbookPart by decide), if_neg (show nTheme ≠ nWorkbookPart by decide), if_pos]

/-- a name that is none of the overridden ones has no Override -/
theorem ov_none (n : Nat) (hs : Bool) (nm : List Char) (h1 : nApp ≠ nm) (h2 : nCore ≠ nm) (h3 : nSst ≠ nm) (h4 : nStyles ≠ nm) (h5 : nTheme ≠ nm)
    (h6 : nWorkbookPart ≠ nm) (h7 : ∀ i, sheetPartL i ≠ nm) : (overrides n hs).find? (ovPred nm) = none := by
  cases hs <;> simp only [overrides, List.cons_append, List.nil_append, if_true, Bool.false_eq_true, if_false, ov_find_cons,
    if_neg h1, if_neg h2, if_neg h3, if_neg h4, if_neg h5, if_neg h6, sheetOverrides_find_other nm h7]

theorem ov_sheet (n : Nat) (hs : Bool) (j : Nat) (h1 : 1 ≤ j) (h2 : j < 1 + n) :
    (overrides n hs).find? (ovPred (sheetPartL j)) = some (overrideEl (sheetPartL j) sheetContentType) := by
  have hne : ∀ nm ∈ [nApp, nCore, nSst, nStyles, nTheme, nWorkbookPart], nm ≠ sheetPartL j := by
    intro nm hnm e
    simp only [List.mem_cons, List.not_mem_nil, or_false] at hnm
    rcases hnm with rfl | rfl | rfl | rfl | rfl | rfl <;>
      simp [nApp, nCore, nSst, nStyles, nTheme, nWorkbookPart, sheetPartL] at e
  cases hs <;> simp only [overrides, List.cons_append, List.nil_append, if_true, Bool.false_eq_true, if_false, ov_find_cons,
    if_neg (hne nApp (by simp)), if_neg (hne nCore (by simp)), if_neg (hne nSst (by simp)), if_neg (hne nStyles (by simp)),
    if_neg (hne nTheme (by simp)), if_neg (hne nWorkbookPart (by simp)), sheetOverrides_find n 1 j h1 h2]

end
end Umya.PackageNode
