/-
  Bridge between the typed records of Umya/Model/StyleCodec.lean and the token records of Umya/Model/Style.lean
  (every scalar an `Option Tok` = the text `get_value_string()` gives), so that the concrete codecs instantiate the
  `Codec` parameters of the interning theorems (Umya/Thm/C05.lean).

  `ofTok` decodes a token record into a typed value when every token is the text of a value of its Rust type
  (`"1"`/`"0"`, an enum word, a `u32` / `i32` in range, a float text); the codec obtained from a typed round trip is
  that round trip on decodable records and the identity elsewhere (such records cannot be held by the Rust structs).
-/
import Umya.Model.Style
import Umya.Lemmas.StyleCodecFill
import Umya.Lemmas.StyleCodecBorder
import Umya.Lemmas.StyleCodecMisc
namespace Umya.StyleCodec
open Umya.Dec

/-! ### generic -/

structure Bridge (T A : Type) where
  toTok : T → A
  ofTok : A → Option T
  ok : T → Prop
  of_to : ∀ x, ok x → ofTok (toTok x) = some x
  of_ok : ∀ a x, ofTok a = some x → ok x

/-- the token-level codec of a typed round trip `rw` with normal form `norm` -/
def Bridge.codec {T A : Type} (B : Bridge T A) (rw : T → Option T) (norm : T → T)
    (h_rw : ∀ x, B.ok x → rw x = some (norm x)) (h_ok : ∀ x, B.ok x → B.ok (norm x))
    (h_idem : ∀ x, B.ok x → norm (norm x) = norm x) : Umya.Style.Codec A where
  rt a := match B.ofTok a with
    | some x => (rw x).map B.toTok
    | none => some a
  norm a := match B.ofTok a with
    | some x => B.toTok (norm x)
    | none => a
  rt_eq a := by
    cases h : B.ofTok a with
    | none => rfl
    | some x => simp [h_rw x (B.of_ok a x h)]
  idem a := by
    cases h : B.ofTok a with
    | none => simp [h]
    | some x =>
      have hx := B.of_ok a x h
      simp only []
      rw [B.of_to _ (h_ok x hx)]
      simp [h_idem x hx]

theorem Bridge.codec_norm_of {T A : Type} (B : Bridge T A) (rw : T → Option T) (norm : T → T) h1 h2 h3 (x : T) (hx : B.ok x) :
    (B.codec rw norm h1 h2 h3).norm (B.toTok x) = B.toTok (norm x) := by
  simp [Bridge.codec, B.of_to x hx]

theorem Bridge.codec_rt_of {T A : Type} (B : Bridge T A) (rw : T → Option T) (norm : T → T) h1 h2 h3 (x : T) (hx : B.ok x) :
    (B.codec rw norm h1 h2 h3).rt (B.toTok x) = (rw x).map B.toTok := by
  simp [Bridge.codec, B.of_to x hx]

/-- the effective attributes of a token record: those of the typed value it denotes, after the codec's normalisation -/
def Bridge.effTok {T A E : Type} (B : Bridge T A) (norm : T → T) (eff : T → E) (a : A) : Option E :=
  (B.ofTok a).map (fun x => eff (norm x))

/-- two token records with the same normal form under the codec show the same effective attributes -/
theorem Bridge.effTok_congr {T A E : Type} (B : Bridge T A) (rw : T → Option T) (norm : T → T) h1 h2 h3 (eff : T → E) (a b : A)
    (h : (B.codec rw norm h1 h2 h3).norm a = (B.codec rw norm h1 h2 h3).norm b) :
    B.effTok norm eff a = B.effTok norm eff b := by
  unfold Bridge.effTok
  simp only [Bridge.codec] at h
  cases ha : B.ofTok a with
  | none =>
    cases hb : B.ofTok b with
    | none => rfl
    | some y =>
      simp only [ha, hb] at h
      have := B.of_to _ (h2 y (B.of_ok b y hb))
      rw [← h, ha] at this
      cases this
  | some x =>
    cases hb : B.ofTok b with
    | none =>
      simp only [ha, hb] at h
      have := B.of_to _ (h2 x (B.of_ok a x ha))
      rw [h, hb] at this
      cases this
    | some y =>
      simp only [ha, hb] at h
      have e1 := B.of_to _ (h2 x (B.of_ok a x ha))
      have e2 := B.of_to _ (h2 y (B.of_ok b y hb))
      rw [h, e2] at e1
      have e3 : norm y = norm x := Option.some.inj e1
      simp [e3]

/-! ### scalar decoders -/

def decBool (t : Tok) : Option Bool := if t = "1".toList then some true else if t = "0".toList then some false else none
theorem decBool_boolStr (b : Bool) : decBool (boolStr b) = some b := by cases b <;> decide

def decOpt {α : Type} (d : Tok → Option α) : Option Tok → Option (Option α)
  | none => some none
  | some t => (d t).map some

theorem decOpt_map {α : Type} (d : Tok → Option α) (e : α → Tok) (o : Option α) (h : ∀ v, o = some v → d (e v) = some v) :
    decOpt d (o.map e) = some o := by
  cases o with
  | none => rfl
  | some v => simp [decOpt, h v rfl]

theorem decOpt_post {α : Type} {d : Tok → Option α} {o : Option Tok} {r : Option α} (h : decOpt d o = some r) :
    ∀ z, r = some z → ∃ t, d t = some z := by
  intro z hz
  cases o with
  | none => simp [decOpt] at h; subst h; cases hz
  | some t =>
    simp only [decOpt, Option.map_eq_some_iff] at h
    obtain ⟨v, hv, rfl⟩ := h
    cases hz; exact ⟨t, hv⟩

def decFloat (cf : Tok → Tok) (t : Tok) : Option Tok := if cf t = t then some t else none
theorem decFloat_post {cf : Tok → Tok} {t z : Tok} (h : decFloat cf t = some z) : cf z = z := by
  unfold decFloat at h
  split at h
  · cases h; assumption
  · cases h

theorem parseU32_range {s : Tok} {n : Nat} (h : parseU32 s = some n) : u32Range n := by
  unfold parseU32 at h
  split at h
  · cases h
  · split at h
    · simp only at h
      split at h
      · cases h; assumption
      · cases h
    · cases h

theorem u32Of_range {s : Tok} {n : Nat} (h : u32Of s = some n) : u32Range n := by
  unfold u32Of at h
  split at h <;> exact parseU32_range h

theorem natBelow_lt {b : Nat} {s : Tok} {n : Nat} (h : natBelow b s = some n) : n < b := by
  unfold natBelow at h
  split at h
  · cases h
  · split at h
    · simp only at h
      split at h
      · cases h; assumption
      · cases h
    · cases h

theorem i32Of_range {s : Tok} {z : Int} (h : i32Of s = some z) : i32Range z := by
  unfold i32Of at h
  unfold i32Range
  split at h
  · simp only [Option.map_eq_some_iff] at h
    obtain ⟨n, hn, rfl⟩ := h
    have := natBelow_lt hn
    simp only [Int.ofNat_eq_natCast]; omega
  · simp only [Option.map_eq_some_iff] at h
    obtain ⟨n, hn, rfl⟩ := h
    have := natBelow_lt hn
    simp only [Int.ofNat_eq_natCast]; omega
  · simp only [Option.map_eq_some_iff] at h
    obtain ⟨n, hn, rfl⟩ := h
    have := natBelow_lt hn
    simp only [Int.ofNat_eq_natCast]; omega


theorem decOpt_float (cf : Tok → Tok) (o : Option Tok) (h : ∀ t, o = some t → cf t = t) : decOpt (decFloat cf) o = some o := by
  cases o with
  | none => rfl
  | some t => simp [decOpt, decFloat, h t rfl]

theorem decOpt_float_post {cf : Tok → Tok} {o r : Option Tok} (h : decOpt (decFloat cf) o = some r) : ∀ t, r = some t → cf t = t := by
  intro t ht
  obtain ⟨t', h'⟩ := decOpt_post h t ht
  exact decFloat_post h'

theorem decOpt_u32_post {o : Option Tok} {r : Option Nat} (h : decOpt u32Of o = some r) : ∀ n, r = some n → u32Range n := by
  intro n hn
  obtain ⟨t', h'⟩ := decOpt_post h n hn
  exact u32Of_range h'

theorem decOpt_i32_post {o : Option Tok} {r : Option Int} (h : decOpt i32Of o = some r) : ∀ n, r = some n → i32Range n := by
  intro n hn
  obtain ⟨t', h'⟩ := decOpt_post h n hn
  exact i32Of_range h'

/-! ### colour -/

def colorToTok (c : Color) : Umya.Style.Color :=
  { indexed := c.indexed.map decDigits, theme := c.theme.map decDigits, argb := c.argb, tint := c.tint }

def colorOfTok (cf : Tok → Tok) (a : Umya.Style.Color) : Option Color := do
  let indexed ← decOpt u32Of a.indexed
  let theme ← decOpt u32Of a.theme
  let tint ← decOpt (decFloat cf) a.tint
  pure { indexed := indexed, theme := theme, argb := a.argb, tint := tint }

theorem colorOfTok_toTok (cf : Tok → Tok) (c : Color) (h : c.Range cf) : colorOfTok cf (colorToTok c) = some c := by
  obtain ⟨h1, h2, h3⟩ := h
  have e1 := decOpt_map u32Of decDigits c.indexed (fun v hv => u32Of_decDigits v (h1 v hv))
  have e2 := decOpt_map u32Of decDigits c.theme (fun v hv => u32Of_decDigits v (h2 v hv))
  have e3 := decOpt_float cf c.tint h3
  simp [colorOfTok, colorToTok, e1, e2, e3]

theorem colorOfTok_range (cf : Tok → Tok) (a : Umya.Style.Color) (c : Color) (h : colorOfTok cf a = some c) : c.Range cf := by
  simp only [colorOfTok, Option.bind_eq_bind, Option.bind_eq_some_iff, Option.pure_def, Option.some.injEq] at h
  obtain ⟨i, hi, t, ht, f, hf, rfl⟩ := h
  exact ⟨decOpt_u32_post hi, decOpt_u32_post ht, decOpt_float_post hf⟩

/-! ### font -/

def fontToTok (f : Font) : Umya.Style.Font :=
  { name := f.name, size := f.size, family := f.family.map i32Str, bold := f.bold.map boolStr, italic := f.italic.map boolStr,
    underline := f.underline.map (fun u => u.toStr.toList), strike := f.strike.map boolStr, color := colorToTok f.color,
    charset := f.charset.map i32Str, scheme := f.scheme.map (fun u => u.toStr.toList),
    vertAlign := f.vertAlign.map (fun u => u.toStr.toList) }

def fontOfTok (cf : Tok → Tok) (a : Umya.Style.Font) : Option Font := do
  let size ← decOpt (decFloat cf) a.size
  let family ← decOpt i32Of a.family
  let bold ← decOpt decBool a.bold
  let italic ← decOpt decBool a.italic
  let underline ← decOpt Underline.fromStr a.underline
  let strike ← decOpt decBool a.strike
  let color ← colorOfTok cf a.color
  let charset ← decOpt i32Of a.charset
  let scheme ← decOpt FontScheme.fromStr a.scheme
  let vertAlign ← decOpt VertRun.fromStr a.vertAlign
  pure { name := a.name, size := size, family := family, bold := bold, italic := italic, underline := underline,
         strike := strike, color := color, charset := charset, scheme := scheme, vertAlign := vertAlign }

theorem fontOfTok_toTok (cf : Tok → Tok) (f : Font) (h : f.Range cf) : fontOfTok cf (fontToTok f) = some f := by
  obtain ⟨h1, h2, h3, h4⟩ := h
  have e1 := decOpt_float cf f.size h1
  have e2 := decOpt_map i32Of i32Str f.family (fun v hv => i32Of_i32Str v (h2 v hv))
  have e3 := decOpt_map decBool boolStr f.bold (fun v _ => decBool_boolStr v)
  have e4 := decOpt_map decBool boolStr f.italic (fun v _ => decBool_boolStr v)
  have e5 := decOpt_map Underline.fromStr (fun u => u.toStr.toList) f.underline (fun v _ => Underline.fromStr_toStr v)
  have e6 := decOpt_map decBool boolStr f.strike (fun v _ => decBool_boolStr v)
  have e7 := colorOfTok_toTok cf f.color h4
  have e8 := decOpt_map i32Of i32Str f.charset (fun v hv => i32Of_i32Str v (h3 v hv))
  have e9 := decOpt_map FontScheme.fromStr (fun u => u.toStr.toList) f.scheme (fun v _ => FontScheme.fromStr_toStr v)
  have e10 := decOpt_map VertRun.fromStr (fun u => u.toStr.toList) f.vertAlign (fun v _ => VertRun.fromStr_toStr v)
  simp [fontOfTok, fontToTok, e1, e2, e3, e4, e5, e6, e7, e8, e9, e10]

theorem fontOfTok_range (cf : Tok → Tok) (a : Umya.Style.Font) (f : Font) (h : fontOfTok cf a = some f) : f.Range cf := by
  simp only [fontOfTok, Option.bind_eq_bind, Option.bind_eq_some_iff, Option.pure_def, Option.some.injEq] at h
  obtain ⟨_, h1, _, h2, _, _, _, _, _, _, _, _, _, h7, _, h8, _, _, _, _, rfl⟩ := h
  exact ⟨decOpt_float_post h1, decOpt_i32_post h2, decOpt_i32_post h8, colorOfTok_range cf _ _ h7⟩

def fontBridge (cf : Tok → Tok) : Bridge Font Umya.Style.Font where
  toTok := fontToTok
  ofTok := fontOfTok cf
  ok := Font.Range cf
  of_to := fontOfTok_toTok cf
  of_ok := fontOfTok_range cf

/-- the concrete font codec on token records -/
def fontCodec (cf : Tok → Tok) : Umya.Style.Codec Umya.Style.Font :=
  (fontBridge cf).codec (fun f => Font.read cf f.write) Font.norm (Font.read_write cf) (Font.norm_range cf)
    (fun f _ => Font.norm_idem f)


/-! ### fill (pattern fills and the empty fill; a gradient is ONE opaque token in Umya/Model/Style.lean, such fills
    are left to the identity here — the typed gradient codec is `GradientFill.read_write`) -/

def optColorToTok (o : Option Color) : Option Umya.Style.Color := o.map colorToTok
def optColorOfTok (cf : Tok → Tok) : Option Umya.Style.Color → Option (Option Color)
  | none => some none
  | some a => (colorOfTok cf a).map some

theorem optColorOfTok_toTok (cf : Tok → Tok) (o : Option Color) (h : optColorRange cf o) :
    optColorOfTok cf (optColorToTok o) = some o := by
  cases o with
  | none => rfl
  | some c => simp [optColorOfTok, optColorToTok, colorOfTok_toTok cf c (h c rfl)]

theorem optColorOfTok_range (cf : Tok → Tok) (a : Option Umya.Style.Color) (o : Option Color) (h : optColorOfTok cf a = some o) :
    optColorRange cf o := by
  intro c hc
  cases a with
  | none => simp [optColorOfTok] at h; subst h; cases hc
  | some t =>
    simp only [optColorOfTok, Option.map_eq_some_iff] at h
    obtain ⟨v, hv, rfl⟩ := h
    cases hc; exact colorOfTok_range cf t _ hv

def patternToTok (p : PatternFill) : Umya.Style.PatternFill :=
  { patternType := p.patternType.map (fun t => t.toStr.toList), fg := optColorToTok p.fg, bg := optColorToTok p.bg }

def patternOfTok (cf : Tok → Tok) (a : Umya.Style.PatternFill) : Option PatternFill := do
  let ty ← decOpt Pattern.fromStr a.patternType
  let fg ← optColorOfTok cf a.fg
  let bg ← optColorOfTok cf a.bg
  pure { patternType := ty, fg := fg, bg := bg }

def fillToTok (f : Fill) : Umya.Style.Fill := { pattern := f.pattern.map patternToTok, gradient := none }

def fillOfTok (cf : Tok → Tok) (a : Umya.Style.Fill) : Option Fill :=
  match a.gradient, a.pattern with
  | some _, _ => none
  | none, none => some {}
  | none, some p => (patternOfTok cf p).map (fun p => { pattern := some p })

def Fill.Ok (cf : Tok → Tok) (f : Fill) : Prop := f.Range cf ∧ f.gradient = none

theorem fillOfTok_toTok (cf : Tok → Tok) (f : Fill) (h : Fill.Ok cf f) : fillOfTok cf (fillToTok f) = some f := by
  obtain ⟨⟨hp, _⟩, hg⟩ := h
  obtain ⟨pat, grad⟩ := f
  simp only at hg; subst hg
  cases pat with
  | none => rfl
  | some p =>
    obtain ⟨h1, h2⟩ := hp p rfl
    have e1 := decOpt_map Pattern.fromStr (fun t => t.toStr.toList) p.patternType (fun v _ => Pattern.fromStr_toStr v)
    have e2 := optColorOfTok_toTok cf p.fg h1
    have e3 := optColorOfTok_toTok cf p.bg h2
    simp [fillOfTok, fillToTok, patternOfTok, patternToTok, e1, e2, e3]

theorem fillOfTok_ok (cf : Tok → Tok) (a : Umya.Style.Fill) (f : Fill) (h : fillOfTok cf a = some f) : Fill.Ok cf f := by
  unfold fillOfTok at h
  split at h
  · cases h
  · cases h; exact ⟨⟨fun p hp => (by cases hp), fun g hg => (by cases hg)⟩, rfl⟩
  · rename_i p _ _
    simp only [Option.map_eq_some_iff] at h
    obtain ⟨q, hq, rfl⟩ := h
    simp only [patternOfTok, Option.bind_eq_bind, Option.bind_eq_some_iff, Option.pure_def, Option.some.injEq] at hq
    obtain ⟨_, _, fg, hf, bg, hb, rfl⟩ := hq
    refine ⟨⟨?_, fun g hg => (by cases hg)⟩, rfl⟩
    intro p' hp'
    cases hp'
    exact ⟨optColorOfTok_range cf _ _ hf, optColorOfTok_range cf _ _ hb⟩

theorem Fill.norm_ok (cf : Tok → Tok) (f : Fill) (h : Fill.Ok cf f) : Fill.Ok cf f.norm := by
  obtain ⟨⟨hp, _⟩, hg⟩ := h
  obtain ⟨pat, grad⟩ := f
  simp only at hg; subst hg
  refine ⟨⟨?_, fun g hg => (by simp [Fill.norm] at hg)⟩, (by simp [Fill.norm])⟩
  intro p hp'
  simp only [Fill.norm, Option.map_eq_some_iff] at hp'
  obtain ⟨q, hq, rfl⟩ := hp'
  exact PatternFill.norm_range cf q (hp q hq)

def fillBridge (cf : Tok → Tok) : Bridge Fill Umya.Style.Fill where
  toTok := fillToTok
  ofTok := fillOfTok cf
  ok := Fill.Ok cf
  of_to := fillOfTok_toTok cf
  of_ok := fillOfTok_ok cf

def fillCodec (cf : Tok → Tok) (hz : cf zeroTok = zeroTok) : Umya.Style.Codec Umya.Style.Fill :=
  (fillBridge cf).codec (fun f => Fill.read cf f.write) Fill.norm (fun f h => Fill.read_write cf hz f h.1) (Fill.norm_ok cf)
    (fun f _ => Fill.norm_idem f)

/-! ### borders -/

def borderToTok (b : Border) : Umya.Style.Border :=
  { style := b.style.map (fun t => t.toStr.toList), color := colorToTok b.color }

def borderOfTok (cf : Tok → Tok) (a : Umya.Style.Border) : Option Border := do
  let st ← decOpt BorderStyle.fromStr a.style
  let c ← colorOfTok cf a.color
  pure { style := st, color := c }

theorem borderOfTok_toTok (cf : Tok → Tok) (b : Border) (h : b.color.Range cf) : borderOfTok cf (borderToTok b) = some b := by
  have e1 := decOpt_map BorderStyle.fromStr (fun t => t.toStr.toList) b.style (fun v _ => BorderStyle.fromStr_toStr v)
  simp [borderOfTok, borderToTok, e1, colorOfTok_toTok cf b.color h]

theorem borderOfTok_range (cf : Tok → Tok) (a : Umya.Style.Border) (b : Border) (h : borderOfTok cf a = some b) : b.color.Range cf := by
  simp only [borderOfTok, Option.bind_eq_bind, Option.bind_eq_some_iff, Option.pure_def, Option.some.injEq] at h
  obtain ⟨_, _, c, hc, rfl⟩ := h
  exact colorOfTok_range cf _ _ hc

def bordersToTok (b : Borders) : Umya.Style.Borders :=
  { left := borderToTok b.left, right := borderToTok b.right, top := borderToTok b.top, bottom := borderToTok b.bottom,
    diagonal := borderToTok b.diagonal, vertical := borderToTok b.vertical, horizontal := borderToTok b.horizontal,
    diagDown := b.diagonalDown.map boolStr, diagUp := b.diagonalUp.map boolStr }

def bordersOfTok (cf : Tok → Tok) (a : Umya.Style.Borders) : Option Borders := do
  let l ← borderOfTok cf a.left
  let r ← borderOfTok cf a.right
  let t ← borderOfTok cf a.top
  let b ← borderOfTok cf a.bottom
  let d ← borderOfTok cf a.diagonal
  let v ← borderOfTok cf a.vertical
  let h ← borderOfTok cf a.horizontal
  let dd ← decOpt decBool a.diagDown
  let du ← decOpt decBool a.diagUp
  let x : Borders := { left := l, right := r, top := t, bottom := b, diagonal := d, vertical := v, horizontal := h,
                       diagonalDown := dd, diagonalUp := du }
  if x.WF then some x else none

def Borders.Ok (cf : Tok → Tok) (b : Borders) : Prop := b.Range cf ∧ b.WF = true

theorem bordersOfTok_toTok (cf : Tok → Tok) (b : Borders) (h : Borders.Ok cf b) : bordersOfTok cf (bordersToTok b) = some b := by
  obtain ⟨⟨h1, h2, h3, h4, h5, h6, h7⟩, hw⟩ := h
  have e8 := decOpt_map decBool boolStr b.diagonalDown (fun v _ => decBool_boolStr v)
  have e9 := decOpt_map decBool boolStr b.diagonalUp (fun v _ => decBool_boolStr v)
  simp [bordersOfTok, bordersToTok, borderOfTok_toTok, h1, h2, h3, h4, h5, h6, h7, e8, e9, hw]

theorem bordersOfTok_ok (cf : Tok → Tok) (a : Umya.Style.Borders) (b : Borders) (h : bordersOfTok cf a = some b) : Borders.Ok cf b := by
  simp only [bordersOfTok, Option.bind_eq_bind, Option.bind_eq_some_iff] at h
  obtain ⟨l, hl, r, hr, t, ht, bo, hb, d, hd, v, hv, hh, hhh, dd, _, du, _, hx⟩ := h
  split at hx
  · rename_i hw
    cases hx
    exact ⟨⟨borderOfTok_range cf _ _ hl, borderOfTok_range cf _ _ hr, borderOfTok_range cf _ _ ht, borderOfTok_range cf _ _ hb,
      borderOfTok_range cf _ _ hd, borderOfTok_range cf _ _ hv, borderOfTok_range cf _ _ hhh⟩, hw⟩
  · cases hx

def bordersBridge (cf : Tok → Tok) : Bridge Borders Umya.Style.Borders where
  toTok := bordersToTok
  ofTok := bordersOfTok cf
  ok := Borders.Ok cf
  of_to := bordersOfTok_toTok cf
  of_ok := bordersOfTok_ok cf

def bordersCodec (cf : Tok → Tok) : Umya.Style.Codec Umya.Style.Borders :=
  (bordersBridge cf).codec (fun b => Borders.read cf b.write) Borders.norm (fun b h => Borders.read_write cf b h.1)
    (fun b h => ⟨Borders.norm_range cf b h.1, Borders.norm_WF b h.2⟩) (fun b h => Borders.norm_idem b h.2)

/-! ### alignment, protection, format code -/

def alignmentToTok (a : Alignment) : Umya.Style.Alignment :=
  { horizontal := a.horizontal.map (fun t => t.toStr.toList), vertical := a.vertical.map (fun t => t.toStr.toList),
    wrap := a.wrapText.map boolStr, rotation := a.textRotation.map decDigits }

def alignmentOfTok (a : Umya.Style.Alignment) : Option Alignment := do
  let h ← decOpt HAlign.fromStr a.horizontal
  let v ← decOpt VAlign.fromStr a.vertical
  let w ← decOpt decBool a.wrap
  let r ← decOpt u32Of a.rotation
  pure { horizontal := h, vertical := v, wrapText := w, textRotation := r }

def alignmentBridge : Bridge Alignment Umya.Style.Alignment where
  toTok := alignmentToTok
  ofTok := alignmentOfTok
  ok := Alignment.Range
  of_to a h := by
    have e1 := decOpt_map HAlign.fromStr (fun t => t.toStr.toList) a.horizontal (fun v _ => HAlign.fromStr_toStr v)
    have e2 := decOpt_map VAlign.fromStr (fun t => t.toStr.toList) a.vertical (fun v _ => VAlign.fromStr_toStr v)
    have e3 := decOpt_map decBool boolStr a.wrapText (fun v _ => decBool_boolStr v)
    have e4 := decOpt_map u32Of decDigits a.textRotation (fun v hv => u32Of_decDigits v (h v hv))
    simp [alignmentOfTok, alignmentToTok, e1, e2, e3, e4]
  of_ok a x h := by
    simp only [alignmentOfTok, Option.bind_eq_bind, Option.bind_eq_some_iff, Option.pure_def, Option.some.injEq] at h
    obtain ⟨_, _, _, _, _, _, r, hr, rfl⟩ := h
    exact decOpt_u32_post hr

def alignmentCodec : Umya.Style.Codec Umya.Style.Alignment :=
  alignmentBridge.codec (fun a => Alignment.read a.write) id Alignment.read_write (fun _ h => h) (fun _ _ => rfl)

def protectionToTok (p : Protection) : Umya.Style.Protection := { locked := p.locked.map boolStr, hidden := p.hidden.map boolStr }

def protectionOfTok (a : Umya.Style.Protection) : Option Protection := do
  let l ← decOpt decBool a.locked
  let h ← decOpt decBool a.hidden
  pure { locked := l, hidden := h }

def protectionBridge : Bridge Protection Umya.Style.Protection where
  toTok := protectionToTok
  ofTok := protectionOfTok
  ok := fun _ => True
  of_to p _ := by
    have e1 := decOpt_map decBool boolStr p.locked (fun v _ => decBool_boolStr v)
    have e2 := decOpt_map decBool boolStr p.hidden (fun v _ => decBool_boolStr v)
    simp [protectionOfTok, protectionToTok, e1, e2]
  of_ok _ _ _ := trivial

def protectionCodec : Umya.Style.Codec Umya.Style.Protection :=
  protectionBridge.codec (fun p => Protection.read p.write) id (fun p _ => Protection.read_write p) (fun _ h => h) (fun _ _ => rfl)

/-- the format code of a custom number format, through `<numFmt numFmtId formatCode>` (the id plays no role) -/
def codeCodec : Umya.Style.Codec Tok where
  rt c := (NumFmt.read (NumFmt.write { id := 176, code := c })).map (·.code)
  norm := id
  rt_eq c := by
    have := NumFmt.read_write { id := 176, code := c } (show u32Range 176 by decide)
    simp [this]
  idem _ := rfl

/-! ### the codecs on images of typed values, and congruence of the effective attributes -/

theorem fontCodec_rt (cf : Tok → Tok) (f : Font) (h : f.Range cf) :
    (fontCodec cf).rt (fontToTok f) = (Font.read cf f.write).map fontToTok :=
  Bridge.codec_rt_of (fontBridge cf) (fun f => Font.read cf f.write) Font.norm (Font.read_write cf) (Font.norm_range cf)
    (fun f _ => Font.norm_idem f) f h
theorem fontCodec_norm (cf : Tok → Tok) (f : Font) (h : f.Range cf) : (fontCodec cf).norm (fontToTok f) = fontToTok f.norm :=
  Bridge.codec_norm_of (fontBridge cf) (fun f => Font.read cf f.write) Font.norm (Font.read_write cf) (Font.norm_range cf)
    (fun f _ => Font.norm_idem f) f h
theorem fontCodec_eff (cf : Tok → Tok) (a b : Umya.Style.Font) (h : (fontCodec cf).norm a = (fontCodec cf).norm b) :
    (fontBridge cf).effTok Font.norm Font.eff a = (fontBridge cf).effTok Font.norm Font.eff b :=
  Bridge.effTok_congr (fontBridge cf) (fun f => Font.read cf f.write) Font.norm (Font.read_write cf) (Font.norm_range cf)
    (fun f _ => Font.norm_idem f) Font.eff a b h

theorem fillCodec_rt (cf : Tok → Tok) (hz : cf zeroTok = zeroTok) (f : Fill) (h : Fill.Ok cf f) :
    (fillCodec cf hz).rt (fillToTok f) = (Fill.read cf f.write).map fillToTok :=
  Bridge.codec_rt_of (fillBridge cf) (fun f => Fill.read cf f.write) Fill.norm (fun f h => Fill.read_write cf hz f h.1)
    (Fill.norm_ok cf) (fun f _ => Fill.norm_idem f) f h
theorem fillCodec_norm (cf : Tok → Tok) (hz : cf zeroTok = zeroTok) (f : Fill) (h : Fill.Ok cf f) :
    (fillCodec cf hz).norm (fillToTok f) = fillToTok f.norm :=
  Bridge.codec_norm_of (fillBridge cf) (fun f => Fill.read cf f.write) Fill.norm (fun f h => Fill.read_write cf hz f h.1)
    (Fill.norm_ok cf) (fun f _ => Fill.norm_idem f) f h
theorem fillCodec_eff (cf : Tok → Tok) (hz : cf zeroTok = zeroTok) (a b : Umya.Style.Fill)
    (h : (fillCodec cf hz).norm a = (fillCodec cf hz).norm b) :
    (fillBridge cf).effTok Fill.norm Fill.eff a = (fillBridge cf).effTok Fill.norm Fill.eff b :=
  Bridge.effTok_congr (fillBridge cf) (fun f => Fill.read cf f.write) Fill.norm (fun f h => Fill.read_write cf hz f h.1)
    (Fill.norm_ok cf) (fun f _ => Fill.norm_idem f) Fill.eff a b h

theorem bordersCodec_rt (cf : Tok → Tok) (b : Borders) (h : Borders.Ok cf b) :
    (bordersCodec cf).rt (bordersToTok b) = (Borders.read cf b.write).map bordersToTok :=
  Bridge.codec_rt_of (bordersBridge cf) (fun b => Borders.read cf b.write) Borders.norm (fun b h => Borders.read_write cf b h.1)
    (fun b h => ⟨Borders.norm_range cf b h.1, Borders.norm_WF b h.2⟩) (fun b h => Borders.norm_idem b h.2) b h
theorem bordersCodec_norm (cf : Tok → Tok) (b : Borders) (h : Borders.Ok cf b) :
    (bordersCodec cf).norm (bordersToTok b) = bordersToTok b.norm :=
  Bridge.codec_norm_of (bordersBridge cf) (fun b => Borders.read cf b.write) Borders.norm (fun b h => Borders.read_write cf b h.1)
    (fun b h => ⟨Borders.norm_range cf b h.1, Borders.norm_WF b h.2⟩) (fun b h => Borders.norm_idem b h.2) b h
theorem bordersCodec_eff (cf : Tok → Tok) (a b : Umya.Style.Borders) (h : (bordersCodec cf).norm a = (bordersCodec cf).norm b) :
    (bordersBridge cf).effTok Borders.norm Borders.eff a = (bordersBridge cf).effTok Borders.norm Borders.eff b :=
  Bridge.effTok_congr (bordersBridge cf) (fun b => Borders.read cf b.write) Borders.norm (fun b h => Borders.read_write cf b h.1)
    (fun b h => ⟨Borders.norm_range cf b h.1, Borders.norm_WF b h.2⟩) (fun b h => Borders.norm_idem b h.2) Borders.eff a b h

theorem alignmentCodec_rt (a : Alignment) (h : a.Range) :
    alignmentCodec.rt (alignmentToTok a) = (Alignment.read a.write).map alignmentToTok :=
  Bridge.codec_rt_of alignmentBridge (fun a => Alignment.read a.write) id Alignment.read_write (fun _ h => h) (fun _ _ => rfl) a h
theorem alignmentCodec_norm (a : Alignment) (h : a.Range) : alignmentCodec.norm (alignmentToTok a) = alignmentToTok a :=
  Bridge.codec_norm_of alignmentBridge (fun a => Alignment.read a.write) id Alignment.read_write (fun _ h => h) (fun _ _ => rfl) a h
theorem alignmentCodec_eff (a b : Umya.Style.Alignment) (h : alignmentCodec.norm a = alignmentCodec.norm b) :
    alignmentBridge.effTok id Alignment.eff a = alignmentBridge.effTok id Alignment.eff b :=
  Bridge.effTok_congr alignmentBridge (fun a => Alignment.read a.write) id Alignment.read_write (fun _ h => h) (fun _ _ => rfl)
    Alignment.eff a b h

theorem protectionCodec_rt (p : Protection) :
    protectionCodec.rt (protectionToTok p) = (Protection.read p.write).map protectionToTok :=
  Bridge.codec_rt_of protectionBridge (fun p => Protection.read p.write) id (fun p _ => Protection.read_write p) (fun _ h => h)
    (fun _ _ => rfl) p trivial
theorem protectionCodec_norm (p : Protection) : protectionCodec.norm (protectionToTok p) = protectionToTok p :=
  Bridge.codec_norm_of protectionBridge (fun p => Protection.read p.write) id (fun p _ => Protection.read_write p) (fun _ h => h)
    (fun _ _ => rfl) p trivial
theorem protectionCodec_eff (a b : Umya.Style.Protection) (h : protectionCodec.norm a = protectionCodec.norm b) :
    protectionBridge.effTok id id a = protectionBridge.effTok id id b :=
  Bridge.effTok_congr protectionBridge (fun p => Protection.read p.write) id (fun p _ => Protection.read_write p) (fun _ h => h)
    (fun _ _ => rfl) id a b h

/-- the concrete codecs, as one value of the parameter type of the interning theorems -/
def concreteCodecs (cf : Tok → Tok) (hz : cf zeroTok = zeroTok) : Umya.Style.Codecs :=
  { font := fontCodec cf, fill := fillCodec cf hz, borders := bordersCodec cf, alignment := alignmentCodec,
    protection := protectionCodec, code := codeCodec }

end Umya.StyleCodec
