/-
  Helper lemmas for C03, style resolution (continued): fills, borders, alignment, protection, number formats, `<xf>`.
-/
import Umya.Lemmas.ReaderStyle
namespace Umya.Reader.Lemmas
open Umya.Reader Umya.Spec.Xml Umya.Spec.Sml
open Umya.StyleCodec

/-! ## pattern fill, fill -/

/-- the colour child `k` read into a fresh colour (`fgColor` / `bgColor`) -/
def colorKidOk (cs : List Node) (k : String) : Bool :=
  uniq cs k && cs.all (fun c => if named k c then colorOk c.attrs else true)

/-- a valid `<patternFill>`: unprefixed children, at most one `fgColor` / `bgColor`, each a `colorOk`;
    `patternType`, when present, a word of ST_PatternType -/
def validPattern (pf : Node) : Bool :=
  pf.children.all plain && colorKidOk pf.children "fgColor" && colorKidOk pf.children "bgColor" &&
  valIn Pattern.fromStr "patternType" pf.attrs

def patV (pf : Node) : FillV :=
  { pattern := (pf.attr? "patternType".toList).getD "none".toList,
    fg := (pf.kid? "fgColor").map colorV, bg := (pf.kid? "bgColor").map colorV }

def patFacts (p : PatternFill) : FillV :=
  { pattern := (p.patternType.getD .none).toStr.toList, fg := p.fg.map colorFacts, bg := p.bg.map colorFacts }


theorem PatternFill.step_spec (cf : Tok → Tok) (p p' : PatternFill) (n : Node) (h : PatternFill.step cf p n = some p') :
    p'.patternType = p.patternType ∧
    p'.fg = (if named "fgColor" n then Color.readInto cf {} n.attrs else p.fg) ∧
    p'.bg = (if named "bgColor" n then Color.readInto cf {} n.attrs else p.bg) := by
  cases n with
  | text t => simp only [PatternFill.step, Option.some.injEq] at h; subst h; simp [named, Node.isElem]
  | elem nm as cs =>
    simp only [PatternFill.step] at h
    by_cases c1 : nm = "fgColor".toList
    · rw [if_pos c1] at h
      obtain ⟨c, hc, rfl⟩ := Option.map_eq_some_iff.mp h
      subst c1; simp [named, Node.isElem, Node.name, Node.attrs, hc]
    rw [if_neg c1] at h
    by_cases c2 : nm = "bgColor".toList
    · rw [if_pos c2] at h
      obtain ⟨c, hc, rfl⟩ := Option.map_eq_some_iff.mp h
      subst c2; simp [named, Node.isElem, Node.name, Node.attrs, hc]
    rw [if_neg c2] at h
    simp only [Option.some.injEq] at h; subst h
    simp_all [named, Node.isElem, Node.name, Node.attrs]

def patKidOk (c : Node) : Bool := if named "fgColor" c || named "bgColor" c then colorOk c.attrs else true

theorem PatternFill.step_total (cf : Tok → Tok) (p : PatternFill) (c : Node) (h : patKidOk c = true) :
    ∃ p', PatternFill.step cf p c = some p' := by
  cases c with
  | text t => exact ⟨p, rfl⟩
  | elem nm as cs =>
    simp only [PatternFill.step]
    by_cases c1 : nm = "fgColor".toList
    · rw [if_pos c1]
      have : colorOk as = true := by subst c1; simpa [patKidOk, named, Node.isElem, Node.name, Node.attrs] using h
      obtain ⟨c', hc'⟩ := Color.readInto_total cf {} as this
      exact ⟨_, by rw [hc']; rfl⟩
    rw [if_neg c1]
    by_cases c2 : nm = "bgColor".toList
    · rw [if_pos c2]
      have : colorOk as = true := by subst c2; simpa [patKidOk, named, Node.isElem, Node.name, Node.attrs] using h
      obtain ⟨c', hc'⟩ := Color.readInto_total cf {} as this
      exact ⟨_, by rw [hc']; rfl⟩
    rw [if_neg c2]; exact ⟨_, rfl⟩

/-- an optional colour child read into a fresh colour -/
theorem optColorKid_agrees (cf : Tok → Tok) (cs : List Node) (k : String)
    (hok : cs.all (fun c => if named k c then colorOk c.attrs else true) = true) :
    (((cs.find? (named k)).map (fun b => Color.readInto cf {} b.attrs)).getD none).map colorFacts =
      ((cs.find? (named k)).map colorV).map (cfColor cf) := by
  cases hf : cs.find? (named k) with
  | none => rfl
  | some b =>
    obtain ⟨as, ks, rfl⟩ := named_elem k b (List.find?_some hf)
    have := List.all_eq_true.mp hok _ (List.mem_of_find?_eq_some hf)
    rw [if_pos (List.find?_some hf)] at this
    obtain ⟨c, hc, hcv⟩ := color_agrees cf k.toList as ks this
    simp only [Option.map_some, Option.getD_some, Node.attrs, hc, hcv]

theorem enum_attr_text {ε : Type} (fromStr : Tok → Option ε) (toStr : ε → String) (dflt : ε) (k : String) (as : List Attr)
    (hinv : ∀ v e, fromStr v = some e → (toStr e).toList = v) (h : valIn fromStr k as = true) :
    (toStr ((enumAttr fromStr as k none).getD dflt)).toList = (getAttr as k).getD (toStr dflt).toList := by
  unfold valIn at h
  unfold enumAttr
  cases hv : getAttr as k with
  | none => rfl
  | some v =>
    rw [hv] at h
    obtain ⟨e, he⟩ := Option.isSome_iff_exists.mp h
    simp only [he, Option.getD_some, hinv v e he]

/-- **pattern fill** -/
theorem pattern_agrees (cf : Tok → Tok) (pf : Node) (h : validPattern pf = true) :
    ∃ p, PatternFill.read cf pf = some p ∧ patFacts p = cfFill cf (patV pf) := by
  simp only [validPattern, colorKidOk, Bool.and_eq_true, uniq, decide_eq_true_eq] at h
  obtain ⟨⟨⟨hpl, u1, k1⟩, u2, k2⟩, hv⟩ := h
  have hok : pf.children.all patKidOk = true := by
    apply List.all_eq_true.mpr
    intro c hc
    have a1 := List.all_eq_true.mp k1 c hc
    have a2 := List.all_eq_true.mp k2 c hc
    unfold patKidOk
    by_cases n1 : named "fgColor" c = true
    · simp only [n1, Bool.true_or, if_true]; rw [if_pos n1] at a1; exact a1
    · by_cases n2 : named "bgColor" c = true
      · simp only [n2, Bool.or_true, if_true]; rw [if_pos n2] at a2; exact a2
      · simp [n1, n2]
  obtain ⟨p, hp⟩ := foldOpt_total (PatternFill.step cf) patKidOk (fun a b hb => PatternFill.step_total cf a b hb)
    pf.children { patternType := enumAttr Pattern.fromStr pf.attrs "patternType" none } hok
  refine ⟨p, hp, ?_⟩
  have e0 := foldOpt_const (PatternFill.step cf) (·.patternType)
    (fun x b x' hx => (PatternFill.step_spec cf x x' b hx).1) pf.children _ p hp
  have e1 := foldOpt_field (PatternFill.step cf) (·.fg) (named "fgColor") (fun _ b => Color.readInto cf {} b.attrs)
    (fun x b x' hx => (PatternFill.step_spec cf x x' b hx).2.1) pf.children _ p hp u1
  have e2 := foldOpt_field (PatternFill.step cf) (·.bg) (named "bgColor") (fun _ b => Color.readInto cf {} b.attrs)
    (fun x b x' hx => (PatternFill.step_spec cf x x' b hx).2.2) pf.children _ p hp u2
  simp only [patFacts, cfFill, patV, kid?_eq_find pf _ hpl, e0, e1, e2, attr?_eq_getAttr,
    enum_attr_text Pattern.fromStr Pattern.toStr .none "patternType" pf.attrs Pattern.fromStr_toStr hv,
    optColorKid_agrees cf pf.children "fgColor" k1, optColorKid_agrees cf pf.children "bgColor" k2]
  rfl

/-- a valid `<fill>`: unprefixed children, at most one `patternFill` which is a `validPattern`, no `gradientFill` -/
def validFill (n : Node) : Bool :=
  n.children.all plain && uniq n.children "patternFill" && !(n.children.any (named "gradientFill")) &&
  n.children.all (fun c => if named "patternFill" c then validPattern c else true)

theorem Fill.step_spec (cf : Tok → Tok) (f f' : Fill) (n : Node) (h : Fill.step cf f n = some f') :
    f'.pattern = (if named "patternFill" n || named "gradientFill" n then
        (if named "patternFill" n then PatternFill.read cf n else none) else f.pattern) := by
  cases n with
  | text t => simp only [Fill.step, Option.some.injEq] at h; subst h; simp [named, Node.isElem]
  | elem nm as cs =>
    simp only [Fill.step] at h
    by_cases c1 : nm = "patternFill".toList
    · rw [if_pos c1] at h
      obtain ⟨c, hc, rfl⟩ := Option.map_eq_some_iff.mp h
      subst c1; simp [named, Node.isElem, Node.name]; exact hc.symm
    rw [if_neg c1] at h
    by_cases c2 : nm = "gradientFill".toList
    · rw [if_pos c2] at h
      obtain ⟨c, hc, rfl⟩ := Option.map_eq_some_iff.mp h
      subst c2; simp [named, Node.isElem, Node.name]
    rw [if_neg c2] at h
    simp only [Option.some.injEq] at h; subst h
    simp_all [named, Node.isElem, Node.name]

def fillKidOk (c : Node) : Bool := !(named "gradientFill" c) && (if named "patternFill" c then validPattern c else true)

theorem Fill.step_total (cf : Tok → Tok) (f : Fill) (c : Node) (h : fillKidOk c = true) :
    ∃ f', Fill.step cf f c = some f' := by
  cases c with
  | text t => exact ⟨f, rfl⟩
  | elem nm as cs =>
    simp only [Fill.step]
    by_cases c1 : nm = "patternFill".toList
    · rw [if_pos c1]
      have : validPattern (.elem nm as cs) = true := by
        subst c1; simpa [fillKidOk, named, Node.isElem, Node.name] using h
      obtain ⟨p, hp, _⟩ := pattern_agrees cf _ this
      exact ⟨_, by rw [hp]; rfl⟩
    rw [if_neg c1]
    by_cases c2 : nm = "gradientFill".toList
    · subst c2; simp [fillKidOk, named, Node.isElem, Node.name] at h
    rw [if_neg c2]; exact ⟨_, rfl⟩

/-- **fill** -/
theorem fill_agrees (cf : Tok → Tok) (n : Node) (h : validFill n = true) :
    ∃ f, Fill.read cf n = some f ∧ fillFacts f = cfFill cf (fillV n) := by
  simp only [validFill, Bool.and_eq_true, uniq, decide_eq_true_eq, Bool.not_eq_true'] at h
  obtain ⟨⟨⟨hpl, u1⟩, hng⟩, hk⟩ := h
  have hng' : ∀ c ∈ n.children, named "gradientFill" c = false := fun c hc => by
    simpa using List.any_eq_false.mp hng c hc
  have hok : n.children.all fillKidOk = true := by
    apply List.all_eq_true.mpr
    intro c hc
    simp only [fillKidOk, hng' c hc, Bool.not_false, Bool.true_and]
    exact List.all_eq_true.mp hk c hc
  obtain ⟨f, hf⟩ := foldOpt_total (Fill.step cf) fillKidOk (fun a b hb => Fill.step_total cf a b hb) n.children {} hok
  refine ⟨f, hf, ?_⟩
  have hfil : n.children.filter (fun c => named "patternFill" c || named "gradientFill" c) =
      n.children.filter (named "patternFill") :=
    List.filter_congr (fun c hc => by rw [hng' c hc, Bool.or_false])
  have hfind : n.children.find? (fun c => named "patternFill" c || named "gradientFill" c) =
      n.children.find? (named "patternFill") := by
    rw [← List.head?_filter, hfil, List.head?_filter]
  have e1 := foldOpt_field (Fill.step cf) (·.pattern) (fun c => named "patternFill" c || named "gradientFill" c)
    (fun _ b => if named "patternFill" b then PatternFill.read cf b else none)
    (fun x b x' hx => Fill.step_spec cf x x' b hx) n.children {} f hf (by rw [hfil]; exact u1)
  rw [hfind] at e1
  unfold fillFacts fillV
  rw [e1, kid?_eq_find n _ hpl]
  cases hp : n.children.find? (named "patternFill") with
  | none => rfl
  | some b =>
    have hb := List.find?_some hp
    have hv := List.all_eq_true.mp hk b (List.mem_of_find?_eq_some hp)
    rw [if_pos hb] at hv
    obtain ⟨p, hpr, hpv⟩ := pattern_agrees cf b hv
    simp only [Option.map_some, Option.getD_some, hb, if_true, hpr]
    exact hpv

/-! ## borders -/

/-- a valid edge (`<left>` …): unprefixed children, at most one `color` which is a `colorOk`; `style`, when present, a word
    of ST_BorderStyle -/
def validEdge (e : Node) : Bool :=
  e.children.all plain && colorKidOk e.children "color" && valIn BorderStyle.fromStr "style" e.attrs

def edgeOf (e : Node) : EdgeV :=
  { style := (e.attr? "style".toList).getD "none".toList, color := ((e.kid? "color").map colorV).getD {} }


theorem Border.colorStep_spec (cf : Tok → Tok) (b b' : Border) (n : Node) (h : Border.colorStep cf b n = some b') :
    b'.style = b.style ∧ b'.color = (if named "color" n then colorG cf b.color n else b.color) := by
  cases n with
  | text t => simp only [Border.colorStep, Option.some.injEq] at h; subst h; simp [named, Node.isElem]
  | elem nm as cs =>
    simp only [Border.colorStep] at h
    by_cases c1 : nm = "color".toList
    · rw [if_pos c1] at h
      obtain ⟨c, hc, rfl⟩ := Option.map_eq_some_iff.mp h
      subst c1; simp [named, Node.isElem, Node.name, Node.attrs, colorG, hc]
    rw [if_neg c1] at h
    simp only [Option.some.injEq] at h; subst h
    simp_all [named, Node.isElem, Node.name]

theorem Border.colorStep_total (cf : Tok → Tok) (b : Border) (c : Node)
    (h : (if named "color" c then colorOk c.attrs else true) = true) : ∃ b', Border.colorStep cf b c = some b' := by
  cases c with
  | text t => exact ⟨b, rfl⟩
  | elem nm as cs =>
    simp only [Border.colorStep]
    by_cases c1 : nm = "color".toList
    · rw [if_pos c1]
      have : colorOk as = true := by subst c1; simpa [named, Node.isElem, Node.name, Node.attrs] using h
      obtain ⟨c', hc'⟩ := Color.readInto_total cf b.color as this
      exact ⟨_, by rw [hc']; rfl⟩
    rw [if_neg c1]; exact ⟨_, rfl⟩

/-- **one edge**, read into a fresh `Border` -/
theorem edge_agrees (cf : Tok → Tok) (e : Node) (h : validEdge e = true) :
    ∃ b, Border.readInto cf {} e = some b ∧ edgeFacts b = cfEdge cf (edgeOf e) := by
  simp only [validEdge, colorKidOk, Bool.and_eq_true, uniq, decide_eq_true_eq] at h
  obtain ⟨⟨hpl, u1, k1⟩, hv⟩ := h
  obtain ⟨b, hb⟩ := foldOpt_total (Border.colorStep cf) (fun c => if named "color" c then colorOk c.attrs else true)
    (fun a c hc => Border.colorStep_total cf a c hc) e.children
    { ({} : Border) with style := enumAttr BorderStyle.fromStr e.attrs "style" ({} : Border).style } k1
  refine ⟨b, hb, ?_⟩
  have e0 := foldOpt_const (Border.colorStep cf) (·.style)
    (fun x c x' hx => (Border.colorStep_spec cf x x' c hx).1) e.children _ b hb
  have e1 := foldOpt_field (Border.colorStep cf) (·.color) (named "color") (fun c n => colorG cf c n)
    (fun x c x' hx => (Border.colorStep_spec cf x x' c hx).2) e.children _ b hb u1
  simp only [edgeFacts, cfEdge, edgeOf, kid?_eq_find e _ hpl, e0, e1, attr?_eq_getAttr]
  have hs := enum_attr_text BorderStyle.fromStr BorderStyle.toStr .none "style" e.attrs BorderStyle.fromStr_toStr hv
  have hc := colorKid_agrees cf e.children "color" (fun n hn => by
    have := List.all_eq_true.mp k1 n (List.mem_of_find?_eq_some hn)
    rw [if_pos (List.find?_some hn)] at this; exact this)
  show EdgeV.mk _ _ = EdgeV.mk _ _
  congr 1

end Umya.Reader.Lemmas
