/-
  (T) translator, part 3 — `src/helper/crypt.rs`, the functions.  Shared layer: the buffer helpers (`buffer_slice`, `buffer_alloc`,
  `buffer_concat`, `buffer_copy`, `create_uint32_le_buffer` with `buffer_write_u_int32_le`) as compiled from the source on this run equal
  fixed list specifications, for all arguments; the interpretation of the externs (`hash`, `crypt`, `hmac`, base64, the random draws) by
  the abstract primitives `Prims` of the hand models; and the normal forms the proofs of the larger functions reduce to
  (loops: one fold lemma each, reused).

  Proof style: a compiled definition is unfolded by the tactic the translator emits next to it (`gen_unfold_<name>`: the function and
  whatever was lifted out of it, so a proof does not know how many loop bodies / closures there are), then normalised by `simp` with the
  lemmas below (binds of `some`, list algebra, folds to `flatMap` / `foldl`); the proofs do not follow the shape of the term.
-/
import Umya.Lemmas.FnsGen
import Umya.Model.Prims
namespace Umya.Gen
open Umya.Crypto
set_option linter.unusedSimpArgs false

/-! ## run-time library facts -/

theorem rt_foldlM_some {σ α} (g : σ → α → σ) (s : σ) (l : List α) :
    rt_foldlM (fun s a => some (g s a)) s l = some (List.foldl g s l) := by
  induction l generalizing s with
  | nil => rfl
  | cons a l ih => simp [rt_foldlM, ih]

theorem rt_foldlM_none {σ α} (s : σ) (l : List α) (h : l ≠ []) :
    rt_foldlM (fun (_ : σ) (_ : α) => (none : Option σ)) s l = none := by
  cases l with
  | nil => exact absurd rfl h
  | cons a l => simp [rt_foldlM]

theorem foldl_append_flatMap {α β} (h : α → List β) (init : List β) (l : List α) :
    List.foldl (fun s a => s ++ h a) init l = init ++ l.flatMap h := by
  induction l generalizing init with
  | nil => simp
  | cons a l ih => simp [ih, List.flatMap_cons]

theorem foldl_append_flatten {β} (init : List β) (l : List (List β)) :
    List.foldl (fun s a => s ++ a) init l = init ++ l.flatten := by
  induction l generalizing init with
  | nil => simp
  | cons a l ih => simp [ih]

theorem rt_index_zero {α} (a : α) (l : List α) : rt_index (a :: l) 0 = some a := rfl
theorem rt_index_succ {α} (a : α) (l : List α) (n : Nat) : rt_index (a :: l) (n + 1) = rt_index l n := by
  simp [rt_index]
theorem rt_index_one {α} (a b : α) (l : List α) : rt_index (a :: b :: l) 1 = some b := rfl

theorem rt_umod_pos (a b : Nat) (h : b ≠ 0) : rt_umod a b = some (a % b) := by simp [rt_umod, h]

/-- the UTF-16LE bytes of a text as the translator produces them = `utf16le` of the hand models -/
theorem utf16le_gen (s : List Char) :
    (rt_encode_utf16 s).flatMap (fun u => [UInt8.ofNat (u % 256), UInt8.ofNat (u / 256 % 256)]) = utf16le s := by
  unfold rt_encode_utf16 utf16le utf16Units
  induction s with
  | nil => rfl
  | cons c s ih =>
    simp only [List.flatMap_cons, List.flatMap_append, ih]

theorem le32_gen (n : Nat) : rt_u32_le_bytes n = le32 n := rfl

theorem le32_mod (n : Nat) : le32 (n % 4294967296) = le32 n := by
  unfold le32
  have h1 : n % 4294967296 % 256 = n % 256 := by omega
  have h2 : n % 4294967296 / 256 % 256 = n / 256 % 256 := by omega
  have h3 : n % 4294967296 / 65536 % 256 = n / 65536 % 256 := by omega
  have h4 : n % 4294967296 / 16777216 % 256 = n / 16777216 % 256 := by omega
  rw [h1, h2, h3, h4]

/-- the spin loop of the hand models (`spinLoop`, written with an accumulator) as the left fold the translator produces -/
theorem spinLoop_eq_foldl (f : Nat → Bytes → Bytes) (n : Nat) (h : Bytes) :
    spinLoop f n h = List.foldl (fun acc i => f i acc) h (List.range n) := by
  rw [spinLoop_eq_spinUp, spinUp_eq_foldl]

/-! ## interpretation of the externs by the abstract primitives -/

/-- the two spellings `hash` accepts -/
def algOk (alg : List Char) : Prop := alg = ['S', 'H', 'A', '5', '1', '2'] ∨ alg = ['S', 'H', 'A', '-', '5', '1', '2']
instance (alg : List Char) : Decidable (algOk alg) := by unfold algOk; infer_instance

/-- `hash(algorithm, buffers)`: SHA-512 of the concatenation for `"SHA512"` / `"SHA-512"`, `Err` otherwise -/
def hashOf (P : Prims) (alg : List Char) (bufs : List Bytes) : Option Bytes :=
  if algOk alg then some (P.sha512 bufs.flatten) else none

theorem hashOf_ok (P : Prims) (alg : List Char) (bufs : List Bytes) (h : algOk alg) :
    hashOf P alg bufs = some (P.sha512 bufs.flatten) := by simp [hashOf, h]
theorem hashOf_bad (P : Prims) (alg : List Char) (bufs : List Bytes) (h : ¬ algOk alg) : hashOf P alg bufs = none := by
  simp [hashOf, h]
theorem algOk_sha512 : algOk ['S', 'H', 'A', '5', '1', '2'] := Or.inl rfl
theorem algOk_sha_512 : algOk ['S', 'H', 'A', '-', '5', '1', '2'] := Or.inr rfl

/-- the streaming interface of the `sha2` crate as the hand models see it: the state of a hasher is the bytes fed so far
    (`Sha512::new()` = none yet, `update` appends), `finalize` is SHA-512 of them -/
abbrev shaUpd : Bytes → Bytes → Bytes := fun a b => a ++ b

/-! ## the buffer helpers -/

theorem gen_buffer_slice (b : Bytes) (s e : Nat) : crypt_buffer_slice b s e = rt_bslice b s e := by
  gen_unfold_crypt_buffer_slice
  cases rt_bslice b s e <;> rfl

theorem gen_buffer_alloc (c : UInt8) (n : Nat) : crypt_buffer_alloc c n = List.replicate n c := by
  gen_unfold_crypt_buffer_alloc

theorem gen_buffer_concat (bs : List Bytes) : crypt_buffer_concat bs = bs.flatten := by
  gen_unfold_crypt_buffer_concat
  simp [foldl_append_flatten]

theorem take_succ_set {α} (b1 : List α) (i : Nat) (x : α) (hi : i < b1.length) :
    List.take (i + 1) (List.set b1 i x) = List.take i b1 ++ [x] := by
  apply List.ext_getElem?
  intro k
  simp only [List.getElem?_take, List.getElem?_set, List.getElem?_append, List.length_take]
  grind

theorem drop_succ_set {α} (b1 : List α) (i n : Nat) (x : α) :
    List.drop (i + 1 + n) (List.set b1 i x) = List.drop (i + (n + 1)) b1 := by
  rw [List.drop_set_of_lt (by omega)]
  congr 1; omega

/-- the fold of `buffer_copy`: `b1[i] = b2[i]` for every index of `b2`, from index `i` on -/
theorem copy_fold (b2 : Bytes) : ∀ (i : Nat) (b1 : Bytes),
    rt_foldlM (fun (st : Bytes) (x : Nat × UInt8) => rt_list_set st x.1 x.2) b1 (rt_enumerate_from i b2) =
      if i + b2.length ≤ b1.length ∨ b2.length = 0 then some (b1.take i ++ b2 ++ b1.drop (i + b2.length)) else none := by
  induction b2 with
  | nil => intro i b1; simp [rt_enumerate_from, rt_foldlM]
  | cons x b2 ih =>
    intro i b1
    have hs : rt_list_set b1 i x = if i < b1.length then some (b1.set i x) else none := rfl
    simp only [rt_enumerate_from, rt_foldlM, hs, List.length_cons]
    by_cases hi : i < b1.length
    · simp only [hi, if_true, Option.bind_some]
      rw [ih (i + 1) (b1.set i x)]
      simp only [List.length_set]
      by_cases h2 : i + (b2.length + 1) ≤ b1.length
      · have h3 : i + 1 + b2.length ≤ b1.length := by omega
        simp only [h2, h3, true_or, if_true]
        congr 1
        rw [take_succ_set b1 i x hi, drop_succ_set]
        simp
      · have h3 : ¬ (i + 1 + b2.length ≤ b1.length) := by omega
        by_cases h4 : b2.length = 0
        · exfalso; omega
        · simp [h2, h3, h4]
    · have h2 : ¬ (i + (b2.length + 1) ≤ b1.length) := by omega
      simp [hi, h2]

/-- `buffer_copy(&mut b1, &b2)`: `b2` over the front of `b1`; a longer `b2` = panic (index out of bounds) -/
theorem gen_buffer_copy (b1 b2 : Bytes) :
    crypt_buffer_copy b1 b2 = if b2.length ≤ b1.length then some (b2 ++ b1.drop b2.length) else none := by
  gen_unfold_crypt_buffer_copy
  simp only [Option.bind_eq_bind, Option.bind_some, Option.bind_fun_some, rt_enumerate]
  have e : (fun (st : Bytes) (x : Nat × UInt8) => (rt_list_set st x.1 x.2).bind fun b => some b) =
      (fun (st : Bytes) (x : Nat × UInt8) => rt_list_set st x.1 x.2) := by
    funext st x; cases rt_list_set st x.1 x.2 <;> rfl
  first
    | rw [copy_fold b2 0 b1]
    | (rw [e, copy_fold b2 0 b1])
    | (simp only [e]; rw [copy_fold b2 0 b1])
  by_cases h : b2.length ≤ b1.length
  · simp [h]
  · by_cases h0 : b2.length = 0
    · exfalso; omega
    · simp [h, h0]

theorem gen_write_u32 (b : Bytes) (v c : Nat) : crypt_buffer_write_u_int32_le b v c = rt_write_u32_le b v := by
  gen_unfold_crypt_buffer_write_u_int32_le
  cases rt_write_u32_le b v <;> rfl

/-- `create_uint32_le_buffer(v, size)`: `le32 v` followed by zeros up to `size` (default 4); a size below 4 = panic -/
theorem gen_create_uint32_le_buffer (v : Nat) (sz : Option Nat) :
    crypt_create_uint32_le_buffer v sz =
      if 4 ≤ sz.getD 4 then some (le32 v ++ List.replicate (sz.getD 4 - 4) 0) else none := by
  gen_unfold_crypt_create_uint32_le_buffer
  simp only [gen_buffer_alloc, gen_write_u32, rt_write_u32_le, List.length_replicate, le32_gen, List.drop_replicate]
  split <;> simp

theorem gen_le32_none (v : Nat) : crypt_create_uint32_le_buffer v none = some (le32 v) := by
  rw [gen_create_uint32_le_buffer]; simp

theorem gen_le32_some8 (v : Nat) : crypt_create_uint32_le_buffer v (some 8) = some (le32 v ++ [0, 0, 0, 0]) := by
  rw [gen_create_uint32_le_buffer]; simp [List.replicate]

/-- `hash(algorithm, buffers)` as compiled from the source — the `match` on the algorithm name, `Sha512::new()`, one `update` with
    `buffer_concat(buffers)`, `finalize` — is `hashOf`: SHA-512 of the concatenation for `"SHA512"` / `"SHA-512"`, `Err` otherwise -/
theorem gen_hash (P : Prims) (alg : List Char) (bufs : List Bytes) :
    crypt_hash P.sha512 [] shaUpd alg bufs = hashOf P alg bufs := by
  gen_unfold_crypt_hash
  by_cases h1 : alg = ['S', 'H', 'A', '5', '1', '2']
  · subst h1; simp [hashOf, algOk, gen_buffer_concat, shaUpd]
  · by_cases h2 : alg = ['S', 'H', 'A', '-', '5', '1', '2']
    · subst h2; simp [hashOf, algOk, gen_buffer_concat, shaUpd]
    · have hn : ¬ algOk alg := by simp [algOk, h1, h2]
      rw [hashOf_bad P alg bufs hn]
      -- however the two names are tested (a `match` with `|` in either order, separate arms, an `if` on `==`): neither holds
      first
        | (simp [h1, h2]; done)
        | (split <;> simp_all <;> done)
        | (split <;> first | rfl | (exfalso; simp_all))

end Umya.Gen
