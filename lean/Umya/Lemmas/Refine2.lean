/-
  Refinement of remove to the reference grid, and absence of panics for in-range arguments.
-/
import Umya.Lemmas.Refine
namespace Umya.Sheet
open Umya.Coord (Res)

theorem lookup_map_inj_on (f : Key → Key) (g : CellM → CellM) (l : List (Key × CellM)) (k : Key)
    (hf : ∀ p ∈ l, f p.1 = f k → p.1 = k) :
    lookup (f k) (l.map (fun p => (f p.1, g p.2))) = (lookup k l).map g := by
  induction l with
  | nil => rfl
  | cons p r ih =>
    obtain ⟨k', c'⟩ := p
    simp only [List.map_cons, lookup]
    by_cases e : k' = k
    · subst e; simp
    · have : f k' ≠ f k := fun h => e (hf (k', c') (by simp) h)
      simp only [this, if_false, e]
      exact ih (fun p hp => hf p (List.mem_cons_of_mem _ hp))

theorem removeAdj_ok_cells (s t : Sheet) (rc oc rr or_ : Nat) (hne : ¬ (oc = 0 ∧ or_ = 0))
    (hok : removeAdj s rc oc rr or_ = .ok t) :
    ∃ cells, cellsRemove s.cells rc oc rr or_ = .ok cells ∧ t.cells = (rebuild cells).1 := by
  unfold removeAdj at hok
  split at hok
  · rw [if_neg hne] at hok
    split at hok
    · simp at hok
    · rename_i cells hcells
      injection hok with hok; subst hok
      exact ⟨cells, hcells, rfl⟩
  · simp at hok

/-- the cells after a successful remove, in closed form -/
theorem removeAdj_cells (s t : Sheet) (h : Coherent s) (rc oc rr or_ : Nat) (hne : ¬ (oc = 0 ∧ or_ = 0))
    (hok : removeAdj s rc oc rr or_ = .ok t) :
    t.cells = (s.cells.filter (fun p => !(isRem p.1.2 rc oc || isRem p.1.1 rr or_))).map
      (fun p => ((adjRemT p.1.1 rr or_, adjRemT p.1.2 rc oc),
        ({ p.2 with col := adjRemT p.2.col rc oc, row := adjRemT p.2.row rr or_ } : CellM))) := by
  obtain ⟨cells, hcells, ht⟩ := removeAdj_ok_cells s t rc oc rr or_ hne hok
  unfold cellsRemove at hcells
  obtain ⟨ecells, hcellsok⟩ := mapRes_ok _ _ _ hcells
  have hfilt : s.cells.filter (fun p => !(isRem p.2.col rc oc || isRem p.2.row rr or_))
      = s.cells.filter (fun p => !(isRem p.1.2 rc oc || isRem p.1.1 rr or_)) := by
    apply List.filter_congr
    intro p hp
    have := h.coord p hp
    rw [this.1, this.2]
  rw [ht, ecells]
  simp only [rebuild, List.map_map]
  rw [← hfilt]
  apply List.map_congr_left
  intro p hp
  have hok' := hcellsok p hp
  have hc := h.coord p (List.mem_filter.1 hp).1
  cases hcc : adjRem p.2.col rc oc with
  | panic => rw [hcc] at hok'; simp [Res.bind] at hok'
  | ok c =>
    cases hrr : adjRem p.2.row rr or_ with
    | panic => rw [hcc, hrr] at hok'; simp [Res.bind] at hok'
    | ok r =>
      obtain ⟨e1, _⟩ := adjRem_ok hcc
      obtain ⟨e3, _⟩ := adjRem_ok hrr
      simp only [Function.comp, hcc, hrr, Res.bind, Res.getD]
      rw [← e1, ← e3]
      simp only [← hc.1, ← hc.2, e1, e3]

theorem adjRemT_zero (x : Nat) : adjRemT x 0 0 = x := by simp [adjRemT]
theorem isRem_zero (x : Nat) : isRem x 0 0 = false := by simp [isRem]

theorem content_removeRows (s t : Sheet) (h : Coherent s) (p n : Nat) (hp : 1 ≤ p) (hn : n ≠ 0)
    (hok : removeAdj s 0 0 p n = .ok t) :
    content t = Umya.Spec.Grid.removeRows (content s) p n := by
  funext r c
  have hne : ¬ ((0 : Nat) = 0 ∧ n = 0) := by omega
  simp only [content, removeAdj_cells s t h 0 0 p n hne hok, Umya.Spec.Grid.removeRows, isRem_zero,
    Bool.false_or, adjRemT_zero]
  let f : Key → Key := fun k => (adjRemT k.1 p n, k.2)
  let g : CellM → CellM := fun x => { x with col := x.col, row := adjRemT x.row p n }
  have hmap : ∀ l : List (Key × CellM), l.map (fun q => ((adjRemT q.1.1 p n, q.1.2),
        ({ q.2 with col := q.2.col, row := adjRemT q.2.row p n } : CellM)))
      = l.map (fun q => (f q.1, g q.2)) := fun _ => rfl
  rw [hmap]
  have hP : (fun q : Key × CellM => !isRem q.1.1 p n) = (fun q => (fun k : Key => !isRem k.1 p n) q.1) := rfl
  have hrem : ∀ x, isRem x p n = decide (x ≥ p ∧ x < p + n) := by
    intro x; unfold isRem
    have : p ≠ 0 ∧ n ≠ 0 := ⟨by omega, hn⟩
    rw [if_pos this]
  by_cases h1 : r < p
  · rw [if_pos h1]
    have e : (r, c) = f (r, c) := by
      simp only [f, adjRemT, Prod.mk.injEq, and_true]
      have : ¬ (r ≥ p ∧ n ≠ 0) := by omega
      rw [if_neg this]
    conv => lhs; rw [e]
    rw [lookup_map_inj_on f g]
    · rw [hP, lookup_filter_key (fun k : Key => !isRem k.1 p n)]
      have : (!isRem r p n) = true := by rw [hrem]; simp; omega
      simp only [this, if_true]
      cases lookup (r, c) s.cells <;> simp [g]
    · intro q hq hfe
      have hk := (List.mem_filter.1 hq).2
      simp only [hrem, Bool.not_eq_true', decide_eq_false_iff_not] at hk
      simp only [f, adjRemT, Prod.mk.injEq] at hfe
      obtain ⟨h1', h2'⟩ := hfe
      apply Prod.ext _ h2'
      simp only
      split at h1' <;> split at h1' <;> omega
  · rw [if_neg h1]
    have e : (r, c) = f (r + n, c) := by
      simp only [f, adjRemT, Prod.mk.injEq, and_true]
      have : r + n ≥ p ∧ n ≠ 0 := ⟨by omega, hn⟩
      rw [if_pos this]; omega
    conv => lhs; rw [e]
    rw [lookup_map_inj_on f g]
    · rw [hP, lookup_filter_key (fun k : Key => !isRem k.1 p n)]
      have : (!isRem (r + n) p n) = true := by rw [hrem]; simp; omega
      simp only [this, if_true]
      cases lookup (r + n, c) s.cells <;> simp [g]
    · intro q hq hfe
      have hk := (List.mem_filter.1 hq).2
      simp only [hrem, Bool.not_eq_true', decide_eq_false_iff_not] at hk
      simp only [f, adjRemT, Prod.mk.injEq] at hfe
      obtain ⟨h1', h2'⟩ := hfe
      apply Prod.ext _ h2'
      simp only
      split at h1' <;> split at h1' <;> omega

theorem content_removeCols (s t : Sheet) (h : Coherent s) (p n : Nat) (hp : 1 ≤ p) (hn : n ≠ 0)
    (hok : removeAdj s p n 0 0 = .ok t) :
    content t = Umya.Spec.Grid.removeCols (content s) p n := by
  funext r c
  have hne : ¬ (n = 0 ∧ (0 : Nat) = 0) := by omega
  simp only [content, removeAdj_cells s t h p n 0 0 hne hok, Umya.Spec.Grid.removeCols, isRem_zero,
    Bool.or_false, adjRemT_zero]
  let f : Key → Key := fun k => (k.1, adjRemT k.2 p n)
  let g : CellM → CellM := fun x => { x with col := adjRemT x.col p n, row := x.row }
  have hmap : ∀ l : List (Key × CellM), l.map (fun q => ((q.1.1, adjRemT q.1.2 p n),
        ({ q.2 with col := adjRemT q.2.col p n, row := q.2.row } : CellM)))
      = l.map (fun q => (f q.1, g q.2)) := fun _ => rfl
  rw [hmap]
  have hP : (fun q : Key × CellM => !isRem q.1.2 p n) = (fun q => (fun k : Key => !isRem k.2 p n) q.1) := rfl
  have hrem : ∀ x, isRem x p n = decide (x ≥ p ∧ x < p + n) := by
    intro x; unfold isRem
    have : p ≠ 0 ∧ n ≠ 0 := ⟨by omega, hn⟩
    rw [if_pos this]
  by_cases h1 : c < p
  · rw [if_pos h1]
    have e : (r, c) = f (r, c) := by
      simp only [f, adjRemT, Prod.mk.injEq, true_and]
      have : ¬ (c ≥ p ∧ n ≠ 0) := by omega
      rw [if_neg this]
    conv => lhs; rw [e]
    rw [lookup_map_inj_on f g]
    · rw [hP, lookup_filter_key (fun k : Key => !isRem k.2 p n)]
      have : (!isRem c p n) = true := by rw [hrem]; simp; omega
      simp only [this, if_true]
      cases lookup (r, c) s.cells <;> simp [g]
    · intro q hq hfe
      have hk := (List.mem_filter.1 hq).2
      simp only [hrem, Bool.not_eq_true', decide_eq_false_iff_not] at hk
      simp only [f, adjRemT, Prod.mk.injEq] at hfe
      obtain ⟨h1', h2'⟩ := hfe
      apply Prod.ext h1'
      simp only
      split at h2' <;> split at h2' <;> omega
  · rw [if_neg h1]
    have e : (r, c) = f (r, c + n) := by
      simp only [f, adjRemT, Prod.mk.injEq, true_and]
      have : c + n ≥ p ∧ n ≠ 0 := ⟨by omega, hn⟩
      rw [if_pos this]; omega
    conv => lhs; rw [e]
    rw [lookup_map_inj_on f g]
    · rw [hP, lookup_filter_key (fun k : Key => !isRem k.2 p n)]
      have : (!isRem (c + n) p n) = true := by rw [hrem]; simp; omega
      simp only [this, if_true]
      cases lookup (r, c + n) s.cells <;> simp [g]
    · intro q hq hfe
      have hk := (List.mem_filter.1 hq).2
      simp only [hrem, Bool.not_eq_true', decide_eq_false_iff_not] at hk
      simp only [f, adjRemT, Prod.mk.injEq] at hfe
      obtain ⟨h1', h2'⟩ := hfe
      apply Prod.ext h1'
      simp only
      split at h2' <;> split at h2' <;> omega

/-! ### no panic for in-range arguments -/

theorem mapRes_exists {α β} (f : α → Res β) (l : List α) (h : ∀ x ∈ l, ∃ y, f x = .ok y) :
    ∃ l', mapRes f l = .ok l' := by
  induction l with
  | nil => exact ⟨[], rfl⟩
  | cons x xs ih =>
    obtain ⟨y, hy⟩ := h x (by simp)
    obtain ⟨ys, hys⟩ := ih (fun z hz => h z (List.mem_cons_of_mem _ hz))
    exact ⟨y :: ys, by simp [mapRes, hy, hys]⟩

theorem adjRem_kept_ok (x root off : Nat) (hroot : 1 ≤ root ∨ off = 0) (hk : isRem x root off = false) :
    ∃ y, adjRem x root off = .ok y := by
  unfold adjRem
  by_cases hc : x ≥ root ∧ off ≠ 0
  · rw [if_pos hc]
    have hr : root ≠ 0 ∧ off ≠ 0 := ⟨by omega, hc.2⟩
    unfold isRem at hk
    rw [if_pos hr] at hk
    have : ¬ (x ≥ root ∧ x < root + off) := by simpa using hk
    have : off ≤ x := by omega
    rw [if_pos this]; exact ⟨_, rfl⟩
  · rw [if_neg hc]; exact ⟨_, rfl⟩

theorem isRemV_ok (x root off : Nat) (hoff : off ≠ 0) : isRemV x root off = .ok (decide (x ≥ root ∧ x ≤ root + off - 1)) := by
  unfold isRemV
  by_cases hn : x ≥ root
  · have : 1 ≤ root + off := by omega
    simp [hn, this]
  · simp [hn]

theorem adjRemV_kept_ok (x root off : Nat) (hroot : 1 ≤ root) (hk : ¬ (x ≥ root ∧ x ≤ root + off - 1)) :
    ∃ y, adjRemV x root off = .ok y := by
  unfold adjRemV
  by_cases hn : x ≥ root
  · have : off ≤ x := by omega
    simp [hn, this]
  · simp [hn]

theorem colsRemove_no_panic (cols : List ColM) (rc oc : Nat) (hc : 1 ≤ rc ∨ oc = 0) :
    ∃ cols', colsRemove cols rc oc = .ok cols' := by
  unfold colsRemove
  by_cases ho : oc = 0
  · simp [ho]
  · have hrc : 1 ≤ rc := by omega
    simp only [ne_eq, ho, not_false_eq_true, if_true]
    obtain ⟨fl, hfl⟩ := mapRes_exists (fun c : ColM => (isRemV c.num rc oc).bind fun b => Res.ok (c, b)) cols
      (fun x _ => ⟨_, by rw [isRemV_ok _ _ _ ho]; rfl⟩)
    rw [hfl]
    simp only
    obtain ⟨efl, _⟩ := mapRes_ok _ _ _ hfl
    apply mapRes_exists
    intro x hx
    obtain ⟨⟨y, b⟩, hy, e⟩ := List.mem_map.1 hx
    simp only at e; subst e
    obtain ⟨hy1, hy2⟩ := List.mem_filter.1 hy
    rw [efl] at hy1
    obtain ⟨w, _, ew⟩ := List.mem_map.1 hy1
    rw [isRemV_ok _ _ _ ho] at ew
    simp only [Res.bind, Res.getD] at ew
    injection ew with e1 e2; subst e1
    simp only [← e2, Bool.not_eq_true', decide_eq_false_iff_not] at hy2
    obtain ⟨z, hz⟩ := adjRemV_kept_ok w.num rc oc hrc hy2
    exact ⟨_, by rw [hz]; rfl⟩

theorem rowsRemove_no_panic (rows : List (Nat × RowM)) (rr or_ : Nat) (hr : 1 ≤ rr ∨ or_ = 0) :
    ∃ rows', rowsRemove rows rr or_ = .ok rows' := by
  unfold rowsRemove
  by_cases ho : or_ = 0
  · simp [ho]
  · have hrr : 1 ≤ rr := by omega
    simp only [ne_eq, ho, not_false_eq_true, if_true]
    obtain ⟨fl, hfl⟩ := mapRes_exists (fun p : Nat × RowM => (isRemV p.2.num rr or_).bind fun b => Res.ok (p, b)) rows
      (fun x _ => ⟨_, by rw [isRemV_ok _ _ _ ho]; rfl⟩)
    rw [hfl]
    simp only
    obtain ⟨efl, _⟩ := mapRes_ok _ _ _ hfl
    apply mapRes_exists
    intro x hx
    obtain ⟨⟨y, b⟩, hy, e⟩ := List.mem_map.1 hx
    simp only at e; subst e
    obtain ⟨hy1, hy2⟩ := List.mem_filter.1 hy
    rw [efl] at hy1
    obtain ⟨w, _, ew⟩ := List.mem_map.1 hy1
    rw [isRemV_ok _ _ _ ho] at ew
    simp only [Res.bind, Res.getD] at ew
    injection ew with e1 e2; subst e1
    simp only [← e2, Bool.not_eq_true', decide_eq_false_iff_not] at hy2
    obtain ⟨z, hz⟩ := adjRemV_kept_ok w.2.num rr or_ hrr hy2
    exact ⟨_, by rw [hz]; rfl⟩

theorem cellsRemove_no_panic (cells : List (Key × CellM)) (rc oc rr or_ : Nat) (hc : 1 ≤ rc ∨ oc = 0)
    (hr : 1 ≤ rr ∨ or_ = 0) : ∃ cells', cellsRemove cells rc oc rr or_ = .ok cells' := by
  unfold cellsRemove
  apply mapRes_exists
  intro x hx
  have hk := (List.mem_filter.1 hx).2
  simp only [Bool.not_eq_true', Bool.or_eq_false_iff] at hk
  obtain ⟨a, ha⟩ := adjRem_kept_ok x.2.col rc oc hc hk.1
  obtain ⟨b, hb⟩ := adjRem_kept_ok x.2.row rr or_ hr hk.2
  exact ⟨_, by rw [ha, hb]; rfl⟩

theorem removeAdj_no_panic (s : Sheet) (rc oc rr or_ : Nat) (hc : 1 ≤ rc ∨ oc = 0) (hr : 1 ≤ rr ∨ or_ = 0) :
    ∃ t, removeAdj s rc oc rr or_ = .ok t := by
  unfold removeAdj
  obtain ⟨cols, hcols⟩ := colsRemove_no_panic s.cols rc oc hc
  obtain ⟨rows, hrows⟩ := rowsRemove_no_panic s.rows rr or_ hr
  obtain ⟨cells, hcells⟩ := cellsRemove_no_panic s.cells rc oc rr or_ hc hr
  rw [hcols, hrows]
  simp only
  by_cases h0 : oc = 0 ∧ or_ = 0
  · rw [if_pos h0]; exact ⟨_, rfl⟩
  · rw [if_neg h0, hcells]; exact ⟨_, rfl⟩

end Umya.Sheet
