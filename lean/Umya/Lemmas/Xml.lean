import Umya.Model.Xml
namespace Umya.Xml

/-! ## unescape ∘ escape -/

theorem unescGo_lit (c : Char) (cs : Text) (h : c ≠ '&') :
    unescGo none (c :: cs) = (unescGo none cs).map (c :: ·) := by
  simp [unescGo, h]

theorem unescGo_lt (cs : Text) :
    unescGo none ('&' :: 'l' :: 't' :: ';' :: cs) = (unescGo none cs).map ('<' :: ·) := by
  simp [unescGo, resolveEntity]

theorem unescGo_gt (cs : Text) :
    unescGo none ('&' :: 'g' :: 't' :: ';' :: cs) = (unescGo none cs).map ('>' :: ·) := by
  simp [unescGo, resolveEntity]

theorem unescGo_amp (cs : Text) :
    unescGo none ('&' :: 'a' :: 'm' :: 'p' :: ';' :: cs) = (unescGo none cs).map ('&' :: ·) := by
  simp [unescGo, resolveEntity]

theorem unescGo_apos (cs : Text) :
    unescGo none ('&' :: 'a' :: 'p' :: 'o' :: 's' :: ';' :: cs) = (unescGo none cs).map ('\'' :: ·) := by
  simp [unescGo, resolveEntity]

theorem unescGo_quot (cs : Text) :
    unescGo none ('&' :: 'q' :: 'u' :: 'o' :: 't' :: ';' :: cs) = (unescGo none cs).map ('"' :: ·) := by
  simp [unescGo, resolveEntity]

theorem unescGo_cr (cs : Text) :
    unescGo none ('&' :: '#' :: '1' :: '3' :: ';' :: cs) = (unescGo none cs).map ('\r' :: ·) := by
  have h : resolveEntity ['#', '1', '3'] = some ['\r'] := by decide
  simp [unescGo] at h ⊢
  simp [h]

theorem escape_cons (c : Char) (cs : Text) : escape (c :: cs) = escChar c ++ escape cs := by
  simp [escape]

theorem partialEscape_cons (c : Char) (cs : Text) : partialEscape (c :: cs) = pescChar c ++ partialEscape cs := by
  simp [partialEscape]

/-- `unescape (escape s) = Ok(s)` for every text -/
theorem unescape_escape (s : Text) : unescape (escape s) = some s := by
  unfold unescape
  induction s with
  | nil => rfl
  | cons c cs ih =>
    rw [escape_cons]
    unfold escChar
    by_cases h0 : c = '\r'
    · subst h0; simp only [if_true, List.cons_append, List.nil_append]; rw [unescGo_cr, ih]; rfl
    rw [if_neg h0]
    by_cases h1 : c = '<'
    · subst h1; simp only [if_true, List.cons_append, List.nil_append]; rw [unescGo_lt, ih]; rfl
    · by_cases h2 : c = '>'
      · subst h2; simp only [if_neg h1, if_true, List.cons_append, List.nil_append]; rw [unescGo_gt, ih]; rfl
      · by_cases h3 : c = '&'
        · subst h3; simp only [if_neg h1, if_neg h2, if_true, List.cons_append, List.nil_append]; rw [unescGo_amp, ih]; rfl
        · by_cases h4 : c = '\''
          · subst h4; simp only [if_neg h1, if_neg h2, if_neg h3, if_true, List.cons_append, List.nil_append]
            rw [unescGo_apos, ih]; rfl
          · by_cases h5 : c = '"'
            · subst h5; simp only [if_neg h1, if_neg h2, if_neg h3, if_neg h4, if_true, List.cons_append, List.nil_append]
              rw [unescGo_quot, ih]; rfl
            · simp only [if_neg h1, if_neg h2, if_neg h3, if_neg h4, if_neg h5, List.cons_append, List.nil_append]
              rw [unescGo_lit c _ h3, ih]; rfl

/-- `unescape (partial_escape s) = Ok(s)` for every text -/
theorem unescape_partialEscape (s : Text) : unescape (partialEscape s) = some s := by
  unfold unescape
  induction s with
  | nil => rfl
  | cons c cs ih =>
    rw [partialEscape_cons]
    unfold pescChar
    by_cases h0 : c = '\r'
    · subst h0; simp only [if_true, List.cons_append, List.nil_append]; rw [unescGo_cr, ih]; rfl
    rw [if_neg h0]
    by_cases h1 : c = '<'
    · subst h1; simp only [if_true, List.cons_append, List.nil_append]; rw [unescGo_lt, ih]; rfl
    · by_cases h2 : c = '>'
      · subst h2; simp only [if_neg h1, if_true, List.cons_append, List.nil_append]; rw [unescGo_gt, ih]; rfl
      · by_cases h3 : c = '&'
        · subst h3; simp only [if_neg h1, if_neg h2, if_true, List.cons_append, List.nil_append]; rw [unescGo_amp, ih]; rfl
        · simp only [if_neg h1, if_neg h2, if_neg h3, List.cons_append, List.nil_append]
          rw [unescGo_lit c _ h3, ih]; rfl

/-! ## text events -/

theorem escape_eq_nil {s : Text} : escape s = [] ↔ s = [] := by
  cases s with
  | nil => simp [escape]
  | cons c cs =>
    simp only [escape_cons, reduceCtorEq, iff_false]
    unfold escChar
    repeat' split
    all_goals simp

theorem partialEscape_eq_nil {s : Text} : partialEscape s = [] ↔ s = [] := by
  cases s with
  | nil => simp [partialEscape]
  | cons c cs =>
    simp only [partialEscape_cons, reduceCtorEq, iff_false]
    unfold pescChar
    repeat' split
    all_goals simp


/-! ## line-end normalisation of the reader (`unescape_text`) -/

theorem normEol_of_no_cr (s : Text) (h : ∀ c ∈ s, c ≠ '\r') : normEol s = s := by
  fun_induction normEol s with
  | case1 => rfl
  | case2 cs _ => exact absurd rfl (h '\r' (by simp))
  | case3 c cs _ ih =>
    have hc : c ≠ '\r' := h c (by simp)
    rw [if_neg hc, ih (fun d hd => h d (by simp [hd]))]

theorem escChar_no_cr (c : Char) : ∀ d ∈ escChar c, d ≠ '\r' := by
  intro d hd
  unfold escChar at hd
  repeat' split at hd
  all_goals simp at hd
  all_goals (try (rcases hd with h | h | h | h | h | h <;> subst h <;> decide))
  all_goals (try (rcases hd with h | h | h | h | h <;> subst h <;> decide))
  all_goals (try (rcases hd with h | h | h | h <;> subst h <;> decide))
  all_goals (subst hd; assumption)

theorem pescChar_no_cr (c : Char) : ∀ d ∈ pescChar c, d ≠ '\r' := by
  intro d hd
  unfold pescChar at hd
  repeat' split at hd
  all_goals simp at hd
  all_goals (try (rcases hd with h | h | h | h | h <;> subst h <;> decide))
  all_goals (try (rcases hd with h | h | h | h <;> subst h <;> decide))
  all_goals (subst hd; assumption)

theorem escape_no_cr (s : Text) : ∀ d ∈ escape s, d ≠ '\r' := by
  intro d hd
  simp only [escape, List.mem_flatMap] at hd
  obtain ⟨c, _, hd⟩ := hd
  exact escChar_no_cr c d hd

theorem partialEscape_no_cr (s : Text) : ∀ d ∈ partialEscape s, d ≠ '\r' := by
  intro d hd
  simp only [partialEscape, List.mem_flatMap] at hd
  obtain ⟨c, _, hd⟩ := hd
  exact pescChar_no_cr c d hd

/-- what the writer emits contains no literal carriage return, so the reader's line-end
    normalisation leaves it alone and the round trip is exact for every text -/
theorem unescapeText_escape (s : Text) : unescapeText (escape s) = some s := by
  unfold unescapeText; rw [normEol_of_no_cr _ (escape_no_cr s)]; exact unescape_escape s

theorem unescapeText_partialEscape (s : Text) : unescapeText (partialEscape s) = some s := by
  unfold unescapeText; rw [normEol_of_no_cr _ (partialEscape_no_cr s)]; exact unescape_partialEscape s

/-- a literal CR LF in character data is ONE line feed for the application (XML 1.0 2.11) while
    a carriage return written as a reference survives -/
example : unescapeText ['a', '\r', '\n', 'b', '\r', 'c', '&', '#', '1', '3', ';'] =
    some ['a', '\n', 'b', '\n', 'c', '\r'] := by decide

/-- untrimmed reading returns what was escaped, whatever the text (blank, padded, empty) -/
theorem readText_false_escape (s : Text) : readText false (escape s) = some s := by
  unfold readText textEvent
  by_cases h : escape s = []
  · have := escape_eq_nil.1 h; subst this; simp [escape]
  · simp only [Bool.false_eq_true, if_false, if_neg h]; exact unescapeText_escape s

theorem readText_false_partialEscape (s : Text) : readText false (partialEscape s) = some s := by
  unfold readText textEvent
  by_cases h : partialEscape s = []
  · have := partialEscape_eq_nil.1 h; subst this; simp [partialEscape]
  · simp only [Bool.false_eq_true, if_false, if_neg h]; exact unescapeText_partialEscape s

theorem dropWhile_eq_self_of_all_false {α} (p : α → Bool) (l : List α) (h : ∀ a ∈ l, p a = false) :
    l.dropWhile p = l := by
  cases l with
  | nil => rfl
  | cons a as => simp [List.dropWhile, h a (by simp)]

/-- trimming does nothing to a text without XML blanks -/
theorem textEvent_true_of_no_ws (s : Text) (hne : s ≠ []) (h : ∀ c ∈ s, isXmlWs c = false) :
    textEvent true s = some s := by
  unfold textEvent trimStart trimEnd
  rw [dropWhile_eq_self_of_all_false _ s h]
  rw [dropWhile_eq_self_of_all_false _ s.reverse (by intro a ha; exact h a (List.mem_reverse.1 ha))]
  simp [hne]

theorem escChar_no_ws (c : Char) (h : isXmlWs c = false) : ∀ d ∈ escChar c, isXmlWs d = false := by
  unfold escChar
  repeat' split
  all_goals (intro d hd; simp at hd)
  all_goals first
    | (subst hd; exact h)
    | (rcases hd with hd | hd | hd | hd | hd | hd <;> subst hd <;> decide)
    | (rcases hd with hd | hd | hd | hd | hd <;> subst hd <;> decide)
    | (rcases hd with hd | hd | hd | hd <;> subst hd <;> decide)

theorem pescChar_no_ws (c : Char) (h : isXmlWs c = false) : ∀ d ∈ pescChar c, isXmlWs d = false := by
  unfold pescChar
  repeat' split
  all_goals (intro d hd; simp at hd)
  all_goals first
    | (subst hd; exact h)
    | (rcases hd with hd | hd | hd | hd | hd <;> subst hd <;> decide)
    | (rcases hd with hd | hd | hd | hd <;> subst hd <;> decide)

theorem escape_no_ws (s : Text) (h : ∀ c ∈ s, isXmlWs c = false) : ∀ d ∈ escape s, isXmlWs d = false := by
  intro d hd
  simp only [escape, List.mem_flatMap] at hd
  obtain ⟨c, hc, hd⟩ := hd
  exact escChar_no_ws c (h c hc) d hd

theorem partialEscape_no_ws (s : Text) (h : ∀ c ∈ s, isXmlWs c = false) : ∀ d ∈ partialEscape s, isXmlWs d = false := by
  intro d hd
  simp only [partialEscape, List.mem_flatMap] at hd
  obtain ⟨c, hc, hd⟩ := hd
  exact pescChar_no_ws c (h c hc) d hd

/-- trimmed reading returns what was escaped when the text is non-empty and has no XML blank -/
theorem readText_true_escape (s : Text) (hne : s ≠ []) (h : ∀ c ∈ s, isXmlWs c = false) :
    readText true (escape s) = some s := by
  unfold readText
  rw [textEvent_true_of_no_ws _ (fun e => hne (escape_eq_nil.1 e)) (escape_no_ws s h)]
  exact unescapeText_escape s

theorem readText_true_partialEscape (s : Text) (hne : s ≠ []) (h : ∀ c ∈ s, isXmlWs c = false) :
    readText true (partialEscape s) = some s := by
  unfold readText
  rw [textEvent_true_of_no_ws _ (fun e => hne (partialEscape_eq_nil.1 e)) (partialEscape_no_ws s h)]
  exact unescapeText_partialEscape s

/-- with trimming ON, padded text does NOT survive: the defect repaired by fix 3 / fix 4 -/
theorem readText_true_trims : readText true (partialEscape [' ', 'x', ' ']) = some ['x'] := by decide

end Umya.Xml
