/-
  Conditional formatting under re-saving: the dxf table a workbook is loaded with already holds every style of its
  rules, so the second save appends nothing to it (find-or-append finds) — the table, too, is a fixed point.
-/
import Umya.Lemmas.AnnotCf
namespace Umya.AnnotCf

theorem internSty_of_mem : ∀ (t : List Sty) (s : Sty), s ∈ t → (internSty t s).1 = t
  | [], _, h => by cases h
  | e :: t, s, h => by
    unfold internSty
    by_cases he : e = s
    · simp [he]
    · have hs : s ∈ t := by
        rcases List.mem_cons.1 h with h | h
        · exact absurd h.symm he
        · exact h
      simp [he, internSty_of_mem t s hs]

theorem internSty_mem : ∀ (t : List Sty) (s : Sty), s ∈ (internSty t s).1
  | [], s => by simp [internSty]
  | e :: t, s => by
    unfold internSty
    by_cases he : e = s
    · simp [he]
    · simp only [he, if_false]
      exact List.mem_cons_of_mem _ (internSty_mem t s)

theorem Ext.mem {t t' : List Sty} (h : Ext t t') {s : Sty} (hs : s ∈ t) : s ∈ t' := by
  obtain ⟨l, rfl⟩ := h
  exact List.mem_append_left _ hs

/-- the styles the rules of a block list carry -/
def ruleStyles (rs : List Rule) : List Sty := rs.filterMap (·.style)
def blockStyles (bs : List Block) : List Sty := bs.flatMap (fun b => ruleStyles b.rules)

theorem writeRules_stable : ∀ (rs : List Rule) (t : List Sty), (∀ s ∈ ruleStyles rs, s ∈ t) → (writeRules t rs).1 = t
  | [], _, _ => rfl
  | r :: rs, t, h => by
    have h1 : (writeRule t r).1 = t := by
      simp only [writeRule, dxfOf]
      cases hs : r.style with
      | none => rfl
      | some s => exact internSty_of_mem t s (h s (by simp [ruleStyles, hs]))
    have h2 := writeRules_stable rs t (fun s hs => h s (by
      simp only [ruleStyles, List.filterMap_cons] at hs ⊢
      cases r.style <;> simp [hs]))
    simp only [writeRules, h1, h2]

theorem writeRules_holds : ∀ (rs : List Rule) (t : List Sty), ∀ s ∈ ruleStyles rs, s ∈ (writeRules t rs).1
  | [], _, s, h => by simp [ruleStyles] at h
  | r :: rs, t, s, h => by
    simp only [writeRules]
    simp only [ruleStyles, List.filterMap_cons] at h
    cases hs : r.style with
    | none =>
      simp only [hs] at h
      exact writeRules_holds rs _ s h
    | some x =>
      simp only [hs, List.mem_cons] at h
      rcases h with rfl | h
      · refine (writeRules_ext rs _).mem ?_
        simp only [writeRule, dxfOf, hs]
        exact internSty_mem t s
      · exact writeRules_holds rs _ s h

theorem writeBlocks_stable : ∀ (bs : List Block) (t : List Sty), (∀ s ∈ blockStyles bs, s ∈ t) → (writeBlocks t bs).1 = t
  | [], _, _ => rfl
  | b :: bs, t, h => by
    have h1 : (writeBlock t b).1 = t :=
      writeRules_stable b.rules t (fun s hs => h s (by simp [blockStyles, hs]))
    have h2 := writeBlocks_stable bs t (fun s hs => h s (by
      simp only [blockStyles, List.flatMap_cons, List.mem_append] at hs ⊢
      exact Or.inr hs))
    simp only [writeBlocks, h1, h2]

theorem writeBlocks_holds : ∀ (bs : List Block) (t : List Sty), ∀ s ∈ blockStyles bs, s ∈ (writeBlocks t bs).1
  | [], _, s, h => by simp [blockStyles] at h
  | b :: bs, t, s, h => by
    simp only [writeBlocks]
    simp only [blockStyles, List.flatMap_cons, List.mem_append] at h
    rcases h with h | h
    · exact (writeBlocks_ext bs _).mem (writeRules_holds b.rules t s h)
    · exact writeBlocks_holds bs _ s h

/-- the table after a save is not grown by saving the same blocks again -/
theorem writeBlocks_table_fixed (t0 : List Sty) (bs : List Block) :
    (writeBlocks (writeBlocks t0 bs).1 bs).1 = (writeBlocks t0 bs).1 :=
  writeBlocks_stable bs _ (writeBlocks_holds bs t0)

/-- one save + load of the conditional-formatting blocks together with the dxf table they are written against:
    the table after the save is the table of the loaded workbook -/
def cfRs (x : List Sty × List Block) : Option (List Sty × List Block) :=
  match readBlocks (writeBlocks x.1 x.2).1 (writeBlocks x.1 x.2).2 with
  | .ok bs => some ((writeBlocks x.1 x.2).1, bs)
  | .panic => none

def cfNorm (x : List Sty × List Block) : List Sty × List Block := ((writeBlocks x.1 x.2).1, x.2)

def CfWF (x : List Sty × List Block) : Prop :=
  (∀ b ∈ x.2, BlockWF b) ∧ (writeBlocks x.1 x.2).1.length ≤ 18446744073709551616

theorem cfRs_eq (x : List Sty × List Block) (h : CfWF x) : cfRs x = some (cfNorm x) := by
  simp [cfRs, cfNorm, readBlocks_written x.2 x.1 _ h.1 (Ext.refl _) h.2]

theorem cfNorm_idem (x : List Sty × List Block) : cfNorm (cfNorm x) = cfNorm x := by
  simp [cfNorm, writeBlocks_table_fixed]

theorem cfNorm_WF (x : List Sty × List Block) (h : CfWF x) : CfWF (cfNorm x) :=
  ⟨h.1, by simpa [cfNorm, writeBlocks_table_fixed] using h.2⟩

end Umya.AnnotCf
