/-
  (T) the regular-expression texts regenerated from the current source are the ones the model's matchers were written for.
-/
import Umya.Model.Gen.Tables
import Umya.Model.RegexTexts
namespace Umya.Gen

theorem gen_regex_texts : regex_literals = Umya.RegexTexts.texts := by decide

/-- the expressions of one file -/
def regexOf (file : String) (l : List (String × String)) : List String :=
  (l.filter fun r => r.1.startsWith file).map (·.2)

theorem gen_regex_coordinate : regexOf "src/helper/coordinate.rs" regex_literals = regexOf "src/helper/coordinate.rs" Umya.RegexTexts.texts := by
  rw [gen_regex_texts]

end Umya.Gen
