import Umya.Lemmas.CellRoundTrip
namespace Umya.CellXml
open Umya.Xml Umya.Num Umya.Coord Umya.Dec Umya.InternC01

section
variable (F : NumFmt)

def keep (c : Cell F.Num) : Bool := !blankUnstyled F c

/-- one sheet: every covered cell that (with its value resolved) is not blank-and-unstyled is written once, in
    order, and read back as itself (a lazy value as the typed value it stands for); the table only grows -/
theorem writeCells_readCells (hF : F.Sound) (cs : List (Cell F.Num)) :
    ∀ (tbl : Table), (∀ c ∈ cs, cellOK F c = true) →
    ∃ tbl' xs, writeCells F tbl cs = some (tbl', xs) ∧
      (∃ ext, tbl' = tbl ++ ext ∧ ∀ it ∈ ext, ItemOK it) ∧
      ∀ sst : Table, sst.length < 18446744073709551616 → Extends sst tbl' →
        mapOpt (readCell F sst) xs = some ((cs.filter (keep F)).map (Cell.resolved F)) := by
  induction cs with
  | nil =>
    intro tbl _
    exact ⟨tbl, [], rfl, ⟨[], by simp, by simp⟩, fun _ _ _ => rfl⟩
  | cons c cs ih =>
    intro tbl h
    obtain ⟨t1, ox, hw, ⟨e1, he1, hok1⟩, hblank, hkeep⟩ := writeTo_readCell F hF tbl c (h c (by simp))
    obtain ⟨t2, xs, hws, ⟨e2, he2, hok2⟩, hrd⟩ := ih t1 (fun d hd => h d (by simp [hd]))
    refine ⟨t2, consOpt ox xs, by simp [writeCells, hw, hws],
      ⟨e1 ++ e2, by rw [he2, he1, List.append_assoc], ?_⟩, ?_⟩
    · intro it hit
      rcases List.mem_append.1 hit with h1 | h1
      · exact hok1 it h1
      · exact hok2 it h1
    · intro sst hlen hx
      have hx1 : Extends sst t1 := by rw [he2] at hx; exact hx.trans_append
      cases hb : blankUnstyled F c with
      | true =>
        rw [hblank hb]
        simp only [consOpt, List.filter_cons, keep, hb, Bool.not_true, Bool.false_eq_true, if_false]
        exact hrd sst hlen hx
      | false =>
        obtain ⟨x, hox, hrx⟩ := hkeep hb
        rw [hox]
        simp only [consOpt, mapOpt, hrx sst hlen hx1, hrd sst hlen hx, List.filter_cons, keep, hb, Bool.not_false, if_true, List.map_cons]

theorem writeSheets_readSheets (hF : F.Sound) (sheets : List (List (Cell F.Num))) :
    ∀ (tbl : Table), (∀ s ∈ sheets, ∀ c ∈ s, cellOK F c = true) →
    ∃ tbl' xss, writeSheets F tbl sheets = some (tbl', xss) ∧
      (∃ ext, tbl' = tbl ++ ext ∧ ∀ it ∈ ext, ItemOK it) ∧
      ∀ sst : Table, sst.length < 18446744073709551616 → Extends sst tbl' →
        mapOpt (mapOpt (readCell F sst)) xss = some (normalize F sheets) := by
  induction sheets with
  | nil =>
    intro tbl _
    exact ⟨tbl, [], rfl, ⟨[], by simp, by simp⟩, fun _ _ _ => rfl⟩
  | cons s ss ih =>
    intro tbl h
    obtain ⟨t1, xs, hw, ⟨e1, he1, hok1⟩, hr1⟩ := writeCells_readCells F hF s tbl (h s (by simp))
    obtain ⟨t2, xss, hws, ⟨e2, he2, hok2⟩, hr2⟩ := ih t1 (fun s' hs' => h s' (by simp [hs']))
    refine ⟨t2, xs :: xss, by simp [writeSheets, hw, hws], ⟨e1 ++ e2, by rw [he2, he1, List.append_assoc], ?_⟩, ?_⟩
    · intro it hit
      rcases List.mem_append.1 hit with h1 | h1
      · exact hok1 it h1
      · exact hok2 it h1
    · intro sst hlen hx
      have hx1 : Extends sst t1 := by rw [he2] at hx; exact hx.trans_append
      have e : (fun c => !blankUnstyled F c) = keep F := rfl
      simp only [mapOpt, hr1 sst hlen hx1, hr2 sst hlen hx, normalize, List.map_cons, e]

/-- the whole package: what is written reads back as the workbook without its blank unstyled cells -/
theorem writeBook_readBook (hF : F.Sound) (light : Bool) (sheets : List (List (Cell F.Num)))
    (h : ∀ s ∈ sheets, ∀ c ∈ s, cellOK F c = true) :
    ∃ b, writeBook F light sheets = some b ∧
      (b.sst.length < 18446744073709551616 → readBook F b = some (normalize F sheets)) := by
  obtain ⟨t, xss, hw, ⟨ext, he, hok⟩, hr⟩ := writeSheets_readSheets F hF sheets [] h
  refine ⟨{ sheets := xss, sst := t.map siOf }, by simp [writeBook, hw], ?_⟩
  intro hlen
  have hall : ∀ it ∈ t, ItemOK it := by
    intro it hit; rw [he] at hit; exact hok it (by simpa using hit)
  have hs := readSst_writeSst t hall
  have hl : t.length < 18446744073709551616 := by simpa using hlen
  simp only [readBook, hs, Option.bind_some]
  exact hr t hl (fun _ _ hi => hi)

end

end Umya.CellXml
