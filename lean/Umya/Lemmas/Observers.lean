/-
  What the observers of the cell store return in a coherent state, and the writer's row loop.
-/
import Umya.Lemmas.Coherent3
namespace Umya.Sheet
open Umya.Coord (Res)

/-! ### last element of a strictly sorted list is the maximum -/

theorem sorted_le_last (l : List Key) (h : SSorted l) (k : Key) (hk : k ∈ l) :
    ∃ m, l.getLast? = some m ∧ (k = m ∨ keyLt k m = true) := by
  induction l generalizing k with
  | nil => simp at hk
  | cons x xs ih =>
    have hx := List.pairwise_cons.1 h
    cases xs with
    | nil =>
      simp at hk; subst hk
      exact ⟨k, by simp, Or.inl rfl⟩
    | cons y ys =>
      rcases List.mem_cons.1 hk with rfl | hk
      · obtain ⟨m, hm, hym⟩ := ih hx.2 y (by simp : y ∈ y :: ys)
        refine ⟨m, by simpa [List.getLast?_cons_cons] using hm, Or.inr ?_⟩
        have hky := hx.1 y (by simp)
        rcases hym with rfl | hym
        · exact hky
        · exact keyLt_trans hky hym
      · obtain ⟨m, hm, hkm⟩ := ih hx.2 k hk
        exact ⟨m, by simpa [List.getLast?_cons_cons] using hm, hkm⟩

theorem getLast?_mem {α} (l : List α) (m : α) (h : l.getLast? = some m) : m ∈ l := by
  induction l with
  | nil => simp at h
  | cons x xs ih =>
    cases xs with
    | nil => simp at h; subst h; simp
    | cons y ys =>
      rw [List.getLast?_cons_cons] at h
      exact List.mem_cons_of_mem _ (ih h)

/-! ### by-row / by-column listings -/

theorem colsInRow_spec (s : Sheet) (h : Coherent s) (r : Nat) :
    (colsInRow s r).Pairwise (· < ·) ∧ ∀ c, c ∈ colsInRow s r ↔ (r, c) ∈ keysOf s := by
  unfold colsInRow
  constructor
  · rw [List.pairwise_map]
    have := List.Pairwise.filter (fun k : Key => decide (k.1 = r)) h.rsorted
    refine List.Pairwise.imp_of_mem ?_ this
    intro a b ha hb hab
    have ha' := (List.mem_filter.1 ha).2
    have hb' := (List.mem_filter.1 hb).2
    simp only [decide_eq_true_eq] at ha' hb'
    rw [keyLt_iff] at hab
    omega
  · intro c
    simp only [List.mem_map, List.mem_filter, decide_eq_true_eq]
    constructor
    · rintro ⟨k, ⟨hk, hr⟩, hc⟩
      have : k = (r, c) := Prod.ext hr hc
      rw [← this]; exact (h.rmem k).1 hk
    · intro hk
      exact ⟨(r, c), ⟨(h.rmem _).2 hk, rfl⟩, rfl⟩

theorem rowsInCol_spec (s : Sheet) (h : Coherent s) (c : Nat) :
    (rowsInCol s c).Pairwise (· < ·) ∧ ∀ r, r ∈ rowsInCol s c ↔ (r, c) ∈ keysOf s := by
  unfold rowsInCol
  constructor
  · rw [List.pairwise_map]
    have := List.Pairwise.filter (fun k : Key => decide (k.1 = c)) h.csorted
    refine List.Pairwise.imp_of_mem ?_ this
    intro a b ha hb hab
    have ha' := (List.mem_filter.1 ha).2
    have hb' := (List.mem_filter.1 hb).2
    simp only [decide_eq_true_eq] at ha' hb'
    rw [keyLt_iff] at hab
    omega
  · intro r
    simp only [List.mem_map, List.mem_filter, decide_eq_true_eq]
    constructor
    · rintro ⟨k, ⟨hk, hc⟩, hr⟩
      have : swap k = (r, c) := Prod.ext hr hc
      rw [← this]; exact (h.cmem k).1 hk
    · intro hk
      exact ⟨(c, r), ⟨(h.cmem _).2 hk, rfl⟩, rfl⟩

/-! ### range scan -/

theorem coordsInRange_spec (s : Sheet) (h : Coherent s) (rs re cs ce : Nat) (l : List Key)
    (hok : coordsInRange s rs re cs ce = .ok l) :
    SSorted (l.map swap) ∧
    ∀ k : Key, swap k ∈ l ↔ (k ∈ keysOf s ∧ rs ≤ k.1 ∧ k.1 ≤ re ∧ cs ≤ k.2 ∧ k.2 ≤ ce) := by
  unfold coordsInRange at hok
  split at hok
  · simp at hok
  · rename_i hnot
    injection hok with hok; subst hok
    constructor
    · rw [List.map_map]
      have e : (swap ∘ swap) = id := by funext k; rfl
      rw [e, List.map_id]
      exact List.Pairwise.filter _ (List.Pairwise.filter _ h.rsorted)
    · intro k
      simp only [List.mem_map, List.mem_filter, Bool.and_eq_true, decide_eq_true_eq]
      have hnot' : ¬ keyLt (re, ce) (rs, cs) = true := hnot
      rw [keyLt_iff] at hnot'
      constructor
      · rintro ⟨a, ⟨⟨ha, hle1, hle2⟩, hc1, hc2⟩, e⟩
        have : a = k := by
          have := congrArg swap e; simpa [swap_swap] using this
        subst this
        refine ⟨(h.rmem _).1 ha, ?_, ?_, hc1, hc2⟩
        · simp only [keyLe, Bool.or_eq_true, decide_eq_true_eq, keyLt_iff] at hle1
          rcases hle1 with hh | hh
          · omega
          · rw [← hh]; exact Nat.le_refl _
        · simp only [keyLe, Bool.or_eq_true, decide_eq_true_eq, keyLt_iff] at hle2
          rcases hle2 with hh | hh
          · omega
          · rw [hh]; exact Nat.le_refl _
      · rintro ⟨hk, h1, h2, h3, h4⟩
        refine ⟨k, ⟨⟨(h.rmem _).2 hk, ?_, ?_⟩, h3, h4⟩, rfl⟩
        · simp only [keyLe, Bool.or_eq_true, decide_eq_true_eq, keyLt_iff]
          by_cases e1 : rs = k.1
          · by_cases e2 : cs = k.2
            · right; exact Prod.ext e1 e2
            · left; right; exact ⟨e1, by omega⟩
          · left; left; omega
        · simp only [keyLe, Bool.or_eq_true, decide_eq_true_eq, keyLt_iff]
          by_cases e1 : k.1 = re
          · by_cases e2 : k.2 = ce
            · right; exact Prod.ext e1 e2
            · left; right; exact ⟨e1, by omega⟩
          · left; left; omega

/-! ### highest row / column -/

theorem highest_spec (s : Sheet) (h : Coherent s) :
    (∀ k ∈ keysOf s, k.1 ≤ (highest s).2 ∧ k.2 ≤ (highest s).1) ∧
    (keysOf s = [] → highest s = (0, 0)) ∧
    (keysOf s ≠ [] → (∃ k ∈ keysOf s, k.1 = (highest s).2) ∧ (∃ k ∈ keysOf s, k.2 = (highest s).1)) := by
  refine ⟨?_, ?_, ?_⟩
  · intro k hk
    constructor
    · obtain ⟨m, hm, hkm⟩ := sorted_le_last s.rowIdx h.rsorted k ((h.rmem k).2 hk)
      simp only [highest, hm, Option.map_some, Option.getD_some]
      rcases hkm with rfl | hkm
      · exact Nat.le_refl _
      · rw [keyLt_iff] at hkm; omega
    · have hk' : swap k ∈ s.colIdx := (h.cmem (swap k)).2 (by simpa [swap_swap] using hk)
      obtain ⟨m, hm, hkm⟩ := sorted_le_last s.colIdx h.csorted (swap k) hk'
      simp only [highest, hm, Option.map_some, Option.getD_some]
      rcases hkm with e | hkm
      · rw [← e]; exact Nat.le_refl _
      · rw [keyLt_iff] at hkm; simp only [swap] at hkm; omega
  · intro he
    have r0 : s.rowIdx = [] := by
      cases hr : s.rowIdx with
      | nil => rfl
      | cons x xs => have := (h.rmem x).1 (by rw [hr]; simp); rw [he] at this; simp at this
    have c0 : s.colIdx = [] := by
      cases hr : s.colIdx with
      | nil => rfl
      | cons x xs => have := (h.cmem x).1 (by rw [hr]; simp); rw [he] at this; simp at this
    simp [highest, r0, c0]
  · intro hne
    obtain ⟨k0, hk0⟩ : ∃ k, k ∈ keysOf s := by
      cases hk : keysOf s with
      | nil => exact absurd hk hne
      | cons x xs => exact ⟨x, by simp⟩
    constructor
    · obtain ⟨m, hm, _⟩ := sorted_le_last s.rowIdx h.rsorted k0 ((h.rmem k0).2 hk0)
      exact ⟨m, (h.rmem m).1 (getLast?_mem _ _ hm), by simp [highest, hm]⟩
    · have hk' : swap k0 ∈ s.colIdx := (h.cmem (swap k0)).2 (by simpa [swap_swap] using hk0)
      obtain ⟨m, hm, _⟩ := sorted_le_last s.colIdx h.csorted (swap k0) hk'
      exact ⟨swap m, (h.cmem m).1 (getLast?_mem _ _ hm), by simp [highest, hm, swap]⟩

/-! ### the writer's row loop emits every cell -/

theorem sortedCells_coords (s : Sheet) (h : Coherent s) :
    (sortedCells s).map (fun c => (c.row, c.col)) = s.rowIdx := by
  unfold sortedCells
  have : ∀ l : List Key, (∀ k ∈ l, k ∈ keysOf s) →
      (l.filterMap (fun k => lookup k s.cells)).map (fun c => (c.row, c.col)) = l := by
    intro l
    induction l with
    | nil => intro _; rfl
    | cons k ks ih =>
      intro hl
      have hk := hl k (by simp)
      obtain ⟨p, hp, e⟩ := List.mem_map.1 hk
      have hlk : lookup k s.cells = some p.2 := by
        apply lookup_of_mem_nodup h.nodup
        rw [← e]; exact hp
      simp only [List.filterMap_cons, hlk, List.map_cons]
      have hc := h.coord p hp
      rw [ih (fun k' hk' => hl k' (List.mem_cons_of_mem _ hk'))]
      congr 1
      rw [← e]; exact Prod.ext hc.1 hc.2
  exact this s.rowIdx (fun k hk => (h.rmem k).1 hk)

theorem mem_insertRowSorted (r x : RowM) (l : List RowM) : x ∈ insertRowSorted r l ↔ x = r ∨ x ∈ l := by
  induction l with
  | nil => simp [insertRowSorted]
  | cons y ys ih =>
    simp only [insertRowSorted]
    split
    · simp
    · simp [ih]; constructor
      · rintro (h | h | h) <;> simp [h]
      · rintro (h | h | h) <;> simp [h]

theorem sorted_insertRowSorted (r : RowM) (l : List RowM) (h : l.Pairwise (fun a b => a.num < b.num))
    (hne : ∀ x ∈ l, x.num ≠ r.num) : (insertRowSorted r l).Pairwise (fun a b => a.num < b.num) := by
  induction l with
  | nil => simp [insertRowSorted]
  | cons y ys ih =>
    have hy := List.pairwise_cons.1 h
    simp only [insertRowSorted]
    split
    · rename_i hlt
      apply List.pairwise_cons.2
      refine ⟨?_, h⟩
      intro z hz
      rcases List.mem_cons.1 hz with rfl | hz
      · exact hlt
      · exact Nat.lt_trans hlt (hy.1 z hz)
    · rename_i hnlt
      apply List.pairwise_cons.2
      refine ⟨?_, ih hy.2 (fun x hx => hne x (List.mem_cons_of_mem _ hx))⟩
      intro z hz
      rcases (mem_insertRowSorted r z ys).1 hz with rfl | hz
      · have := hne y (by simp); omega
      · exact hy.1 z hz

theorem sortedRows_spec (s : Sheet) (h : Coherent s) :
    (sortedRows s).Pairwise (fun a b => a.num < b.num) ∧ ∀ n, n ∈ (sortedRows s).map (·.num) ↔ n ∈ s.rows.map (·.1) := by
  unfold sortedRows
  have key : ∀ l : List (Nat × RowM), (∀ q ∈ l, q.2.num = q.1) → (l.map (·.1)).Nodup →
      ((l.map (·.2)).foldr insertRowSorted []).Pairwise (fun a b => a.num < b.num) ∧
      ∀ x, x ∈ (l.map (·.2)).foldr insertRowSorted [] ↔ x ∈ l.map (·.2) := by
    intro l
    induction l with
    | nil => intro _ _; simp
    | cons q qs ih =>
      intro hk hn
      simp only [List.map_cons, List.nodup_cons] at hn
      obtain ⟨i1, i2⟩ := ih (fun q' hq' => hk q' (List.mem_cons_of_mem _ hq')) hn.2
      simp only [List.map_cons, List.foldr_cons]
      constructor
      · apply sorted_insertRowSorted _ _ i1
        intro x hx
        rw [i2] at hx
        obtain ⟨w, hw, e⟩ := List.mem_map.1 hx
        subst e
        intro he
        apply hn.1
        rw [hk q (by simp)] at he
        rw [hk w (List.mem_cons_of_mem _ hw)] at he
        exact List.mem_map.2 ⟨w, hw, he⟩
      · intro x; rw [mem_insertRowSorted, i2]; simp only [List.mem_cons]
  obtain ⟨k1, k2⟩ := key s.rows h.rowKey h.rowNodup
  refine ⟨k1, ?_⟩
  intro n
  simp only [List.mem_map]
  constructor
  · rintro ⟨x, hx, e⟩
    obtain ⟨w, hw, e2⟩ := List.mem_map.1 ((k2 x).1 hx)
    exact ⟨w, hw, by rw [← h.rowKey w hw, e2, e]⟩
  · rintro ⟨w, hw, e⟩
    exact ⟨w.2, (k2 _).2 (List.mem_map.2 ⟨w, hw, rfl⟩), by rw [h.rowKey w hw, e]⟩

theorem takeRow_split (n : Nat) (cells : List CellM) :
    (takeRow n cells).1 ++ (takeRow n cells).2 = cells ∧ (∀ c ∈ (takeRow n cells).1, c.row = n) ∧
    (∀ c, (takeRow n cells).2.head? = some c → c.row ≠ n) := by
  induction cells with
  | nil => simp [takeRow]
  | cons c cs ih =>
    simp only [takeRow]
    split
    · rename_i hc
      obtain ⟨i1, i2, i3⟩ := ih
      refine ⟨by simp [i1], ?_, i3⟩
      intro x hx
      rcases List.mem_cons.1 hx with rfl | hx
      · exact hc
      · exact i2 x hx
    · rename_i hc
      refine ⟨by simp, by simp, ?_⟩
      intro x hx; simp at hx; subst hx; exact hc

/-- the peek-and-consume loop hands over every cell when rows are strictly ascending, cells are
    ordered by row, and every cell's row is in the row list -/
theorem rowLoop_all (rs : List RowM) (cells : List CellM)
    (hrs : rs.Pairwise (fun a b => a.num < b.num))
    (hcs : cells.Pairwise (fun a b => a.row ≤ b.row))
    (hin : ∀ c ∈ cells, c.row ∈ rs.map (·.num)) : rowLoop rs cells = cells := by
  induction rs generalizing cells with
  | nil =>
    cases cells with
    | nil => rfl
    | cons c cs => have := hin c (by simp); simp at this
  | cons r rs ih =>
    simp only [rowLoop]
    obtain ⟨s1, s2, s3⟩ := takeRow_split r.num cells
    have hr := List.pairwise_cons.1 hrs
    -- every remaining cell has a row different from r.num, hence in rs
    have hrest : ∀ c ∈ (takeRow r.num cells).2, c.row ∈ rs.map (·.num) := by
      intro c hc
      have hc' : c ∈ cells := by rw [← s1]; exact List.mem_append_right _ hc
      have hmem := hin c hc'
      simp only [List.map_cons, List.mem_cons] at hmem
      rcases hmem with hmem | hmem
      · exfalso
        -- c.row = r.num but c is after the first non-r cell in a row-sorted list
        cases hrest2 : (takeRow r.num cells).2 with
        | nil => rw [hrest2] at hc; simp at hc
        | cons d ds =>
          have hd : d.row ≠ r.num := s3 d (by rw [hrest2]; rfl)
          have hsorted2 : ((takeRow r.num cells).1 ++ (takeRow r.num cells).2).Pairwise (fun a b => a.row ≤ b.row) := by
            rw [s1]; exact hcs
          have hs2 := (List.pairwise_append.1 hsorted2).2.1
          rw [hrest2] at hs2 hc
          have hdc : d.row ≤ c.row := by
            rcases List.mem_cons.1 hc with rfl | hc
            · exact Nat.le_refl _
            · exact (List.pairwise_cons.1 hs2).1 c hc
          -- d.row is in r :: rs, not r → in rs → > r.num
          have hdm := hin d (by rw [← s1, hrest2]; simp)
          simp only [List.map_cons, List.mem_cons] at hdm
          rcases hdm with hdm | hdm
          · exact hd hdm
          · obtain ⟨w, hw, ew⟩ := List.mem_map.1 hdm
            have := hr.1 w hw
            omega
      · exact hmem
    have hsorted2 : ((takeRow r.num cells).1 ++ (takeRow r.num cells).2).Pairwise (fun a b => a.row ≤ b.row) := by
      rw [s1]; exact hcs
    rw [ih _ hr.2 (List.pairwise_append.1 hsorted2).2.1 hrest]
    exact s1

theorem emitted_all (s : Sheet) (h : Coherent s) : emitted s = sortedCells s := by
  unfold emitted
  obtain ⟨r1, r2⟩ := sortedRows_spec s h
  have hco := sortedCells_coords s h
  apply rowLoop_all _ _ r1
  · -- sorted by row
    have : ((sortedCells s).map (fun c => (c.row, c.col))).Pairwise (fun a b => keyLt a b = true) := by
      rw [hco]; exact h.rsorted
    rw [List.pairwise_map] at this
    refine List.Pairwise.imp ?_ this
    intro a b hab
    rw [keyLt_iff] at hab; simp only at hab; omega
  · intro c hc
    rw [r2]
    have : (c.row, c.col) ∈ s.rowIdx := by
      rw [← hco]; exact List.mem_map.2 ⟨c, hc, rfl⟩
    exact h.rowKnown _ ((h.rmem _).1 this)

end Umya.Sheet
