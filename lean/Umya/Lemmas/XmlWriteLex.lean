/-
  The independent XML 1.0 lexer (`Umya/Spec/XmlLex.lean::lexGo`) on the characters the writer model
  (`Umya/Model/XmlWrite.lean`) produces: one lemma per token kind of the shape

      lexGo (.text acc) (render tok ++ rest) = flush acc (tok :: lexGo (.text []) rest)

  and their composition over a whole sequence of writer events.
-/
import Umya.Model.XmlWrite
import Umya.Lemmas.XmlChannel
namespace Umya.XmlWrite
open Umya.XmlEsc Umya.XmlChannel
open Umya.Spec.Xml

/-! ## character facts -/

theorem nameStart_facts (c : Char) (h : isNameStart c = true) :
    isSpace c = false ∧ c ≠ '>' ∧ c ≠ '/' ∧ c ≠ '?' ∧ c ≠ '!' ∧ c ≠ '=' ∧ isNameChar c = true := by
  refine ⟨?_, ?_, ?_, ?_, ?_, ?_, ?_⟩
  · cases hs : isSpace c
    · rfl
    · exfalso
      simp only [isSpace, Bool.or_eq_true, decide_eq_true_eq] at hs
      rcases hs with ((rfl | rfl) | rfl) | rfl <;> revert h <;> decide
  · rintro rfl; revert h; decide
  · rintro rfl; revert h; decide
  · rintro rfl; revert h; decide
  · rintro rfl; revert h; decide
  · rintro rfl; revert h; decide
  · simp [isNameChar, h]

theorem xml_consts : isXmlChar '<' = true ∧ isXmlChar '>' = true ∧ isXmlChar '/' = true ∧ isXmlChar ' ' = true ∧
    isXmlChar '=' = true ∧ isXmlChar '"' = true ∧ isXmlChar '?' = true ∧ isXmlChar '\r' = true ∧ isXmlChar '\n' = true := by decide

theorem wfName_cons (c : Char) (cs : List Char) (h : wfName (c :: cs) = true) :
    isNameStart c = true ∧ isXmlChar c = true ∧ ∀ d ∈ cs, isNameChar d = true ∧ isXmlChar d = true := by
  simp only [wfName, Bool.and_eq_true, List.all_eq_true] at h
  exact ⟨h.1.1, h.1.2, h.2⟩

/-! ## single steps of the lexer -/

theorem lex_text_step (acc : List Char) (c : Char) (r : List Char) (hx : isXmlChar c = true) (hc : c ≠ '<') :
    lexGo (.text acc) (c :: r) = lexGo (.text (c :: acc)) r := by
  rw [lexGo]; simp [hx, hc]

theorem lex_text_lt (acc : List Char) (r : List Char) :
    lexGo (.text acc) ('<' :: r) = flushText acc (lexGo .lt r) := by
  rw [lexGo]; simp [xml_consts.1]

/-- a run of character data is accumulated -/
theorem lex_text_run (raw : List Char) (hx : ∀ c ∈ raw, isXmlChar c = true) (hlt : '<' ∉ raw) :
    ∀ (acc rest : List Char), lexGo (.text acc) (raw ++ rest) = lexGo (.text (raw.reverse ++ acc)) rest := by
  induction raw with
  | nil => intro acc rest; rfl
  | cons c r ih =>
    intro acc rest
    have hc : c ≠ '<' := by intro e; subst e; simp at hlt
    rw [List.cons_append, lex_text_step acc c _ (hx c (by simp)) hc,
      ih (fun d hd => hx d (by simp [hd])) (fun h => hlt (by simp [h])) (c :: acc) rest]
    simp

theorem lex_lt_name (c : Char) (r : List Char) (hs : isNameStart c = true) (hx : isXmlChar c = true) :
    lexGo .lt (c :: r) = lexGo (.startName [c]) r := by
  obtain ⟨_, _, h2, h3, h4, _, _⟩ := nameStart_facts c hs
  rw [lexGo]; simp [hx, h2, h3, h4, hs]

theorem lex_lt_slash (r : List Char) : lexGo .lt ('/' :: r) = lexGo (.endName []) r := by
  rw [lexGo]; simp [xml_consts.2.2.1]

theorem lex_startName_run (cs : List Char) (h : ∀ d ∈ cs, isNameChar d = true ∧ isXmlChar d = true) :
    ∀ (acc rest : List Char), lexGo (.startName acc) (cs ++ rest) = lexGo (.startName (cs.reverse ++ acc)) rest := by
  induction cs with
  | nil => intro acc rest; rfl
  | cons c r ih =>
    intro acc rest
    have hc := h c (by simp)
    rw [List.cons_append, lexGo]
    simp only [hc.1, hc.2, Bool.not_true, Bool.false_eq_true, if_false, if_true]
    rw [ih (fun d hd => h d (by simp [hd])) (c :: acc) rest]
    simp

/-- after the element name the three possible continuations behave as after an attribute -/
theorem lex_startName_delim (acc : List Char) (c : Char) (r : List Char) (hc : c = ' ' ∨ c = '>' ∨ c = '/') :
    lexGo (.startName acc) (c :: r) = lexGo (.needSpace acc.reverse []) (c :: r) := by
  rcases hc with rfl | rfl | rfl
  · rw [lexGo, lexGo]; simp [xml_consts, isNameChar, isNameStart, isSpace]
  · rw [lexGo, lexGo]; simp [xml_consts, isNameChar, isNameStart, isSpace]
  · rw [lexGo, lexGo]; simp [xml_consts, isNameChar, isNameStart, isSpace]

/-! ## escaped characters are legal characters -/

theorem attrEscChar_xml (d c : Char) (hd : isXmlChar d = true) (hc : c ∈ attrEscChar d) : isXmlChar c = true := by
  unfold attrEscChar escChar escCharOld at hc
  repeat' split at hc
  all_goals first
    | exact List.all_eq_true.1 (by decide) c hc
    | (simp at hc; subst hc; exact hd)

theorem escChar_xml (d c : Char) (hd : isXmlChar d = true) (hc : c ∈ escChar d) : isXmlChar c = true := by
  unfold escChar escCharOld at hc
  repeat' split at hc
  all_goals first
    | exact List.all_eq_true.1 (by decide) c hc
    | (simp at hc; subst hc; exact hd)

theorem pescChar_xml (d c : Char) (hd : isXmlChar d = true) (hc : c ∈ pescChar d) : isXmlChar c = true := by
  unfold pescChar at hc
  repeat' split at hc
  all_goals first
    | exact List.all_eq_true.1 (by decide) c hc
    | (simp at hc; subst hc; exact hd)

theorem allXml_iff (s : List Char) : allXml s = true ↔ ∀ c ∈ s, isXmlChar c = true := by
  simp [allXml, List.all_eq_true]

theorem attrEscape_xml (s : List Char) (h : allXml s = true) : ∀ c ∈ attrEscape s, isXmlChar c = true := by
  intro c hc
  simp only [attrEscape, List.mem_flatMap] at hc
  obtain ⟨d, hd, hcd⟩ := hc
  exact attrEscChar_xml d c ((allXml_iff s).1 h d hd) hcd

theorem escape_xml (s : List Char) (h : allXml s = true) : ∀ c ∈ escape s, isXmlChar c = true := by
  intro c hc
  simp only [escape, List.mem_flatMap] at hc
  obtain ⟨d, hd, hcd⟩ := hc
  exact escChar_xml d c ((allXml_iff s).1 h d hd) hcd

theorem partialEscape_xml (s : List Char) (h : allXml s = true) : ∀ c ∈ partialEscape s, isXmlChar c = true := by
  intro c hc
  simp only [partialEscape, List.mem_flatMap] at hc
  obtain ⟨d, hd, hcd⟩ := hc
  exact pescChar_xml d c ((allXml_iff s).1 h d hd) hcd

/-! ## attributes -/

theorem lex_attrName_run (n : List Char) (as : List Attr) (cs : List Char)
    (h : ∀ d ∈ cs, isNameChar d = true ∧ isXmlChar d = true) :
    ∀ (acc rest : List Char), lexGo (.attrName n as acc) (cs ++ rest) = lexGo (.attrName n as (cs.reverse ++ acc)) rest := by
  induction cs with
  | nil => intro acc rest; rfl
  | cons c r ih =>
    intro acc rest
    have hc := h c (by simp)
    rw [List.cons_append, lexGo]
    simp only [hc.1, hc.2, Bool.not_true, Bool.false_eq_true, if_false, if_true]
    rw [ih (fun d hd => h d (by simp [hd])) (c :: acc) rest]
    simp

theorem lex_attrVal_run (n : List Char) (as : List Attr) (an : List Char) (v : List Char)
    (hx : ∀ c ∈ v, isXmlChar c = true) (hq : '"' ∉ v) (hlt : '<' ∉ v) :
    ∀ (acc rest : List Char), lexGo (.attrVal n as an '"' acc) (v ++ rest) = lexGo (.attrVal n as an '"' (v.reverse ++ acc)) rest := by
  induction v with
  | nil => intro acc rest; rfl
  | cons c r ih =>
    intro acc rest
    have h1 : c ≠ '"' := by intro e; subst e; simp at hq
    have h2 : c ≠ '<' := by intro e; subst e; simp at hlt
    rw [List.cons_append, lexGo]
    simp only [hx c (by simp), h1, h2, Bool.not_true, Bool.false_eq_true, if_false]
    rw [ih (fun d hd => hx d (by simp [hd])) (fun h => hq (by simp [h])) (fun h => hlt (by simp [h])) (c :: acc) rest]
    simp

/-- one attribute as `push_attribute` writes it -/
theorem lex_attr (n : List Char) (as : List Attr) (a : Attr) (hn : wfName a.name = true) (hv : allXml a.value = true)
    (hnew : a.name ∉ as.map (·.name)) (rest : List Char) :
    lexGo (.needSpace n as) (renderAttr a ++ rest) = lexGo (.needSpace n (as ++ [a])) rest := by
  obtain ⟨k, v⟩ := a
  cases k with
  | nil => simp [wfName] at hn
  | cons c cs =>
    obtain ⟨hs, hxc, hcs⟩ := wfName_cons c cs hn
    obtain ⟨f1, f2, f3, _, _, _, _⟩ := nameStart_facts c hs
    have hsafe := attrEscape_safe v
    simp only [renderAttr, List.cons_append, List.append_assoc, List.nil_append]
    -- the blank
    rw [lexGo]; simp only [xml_consts, Bool.not_true, Bool.false_eq_true, if_false]
    simp only [show isSpace ' ' = true by decide, if_true]
    -- first character of the name
    rw [lexGo]; simp only [hxc, f1, f2, f3, hs, Bool.not_true, Bool.false_eq_true, if_false, if_true]
    rw [lex_attrName_run n as cs hcs]
    -- `=`
    rw [lexGo]; simp only [xml_consts, show isNameChar '=' = false by decide, Bool.not_true, Bool.false_eq_true, if_false, if_true]
    -- opening quote
    rw [lexGo]; simp only [xml_consts, show isSpace '"' = false by decide, Bool.not_true, Bool.false_eq_true, if_false, true_or, if_true]
    rw [lex_attrVal_run n as _ (attrEscape v) (attrEscape_xml v hv) (fun h => (hsafe _ h).2.1 rfl) (fun h => (hsafe _ h).1 rfl)]
    -- closing quote
    rw [lexGo]; simp only [xml_consts, Bool.not_true, Bool.false_eq_true, if_false, if_true]
    have hany : as.any (fun x => decide (x.name = c :: cs)) = false := by
      rw [List.any_eq_false]
      intro x hx
      simp only [decide_eq_true_eq]
      intro e
      exact hnew (by simp only [List.mem_map]; exact ⟨x, hx, e⟩)
    simp [finishAttr, hany, attrValue_attrEscape]

def tagTail (e : Bool) : List Char := if e then ['/', '>'] else ['>']

theorem lex_attrs (n : List Char) (bs : List Attr) :
    ∀ (as : List Attr) (e : Bool) (rest : List Char),
      (∀ b ∈ bs, wfName b.name = true ∧ allXml b.value = true) → ((as ++ bs).map (·.name)).Nodup →
      lexGo (.needSpace n as) (renderAttrs bs ++ (tagTail e ++ rest)) =
        (lexGo (.text []) rest).map (Token.open n (as ++ bs) e :: ·) := by
  induction bs with
  | nil =>
    intro as e rest _ _
    cases e
    · simp only [renderAttrs, List.flatMap_nil, List.nil_append, tagTail, Bool.false_eq_true, if_false, List.cons_append, List.append_nil]
      rw [lexGo]; simp [xml_consts, isSpace]
    · simp only [renderAttrs, List.flatMap_nil, List.nil_append, tagTail, if_true, List.cons_append, List.append_nil]
      rw [lexGo]; simp only [xml_consts, Bool.not_true, Bool.false_eq_true, if_false]
      simp only [show isSpace '/' = false by decide, Bool.false_eq_true, if_false, show ('/' = '>') = False by decide, if_true]
      rw [lexGo]; simp [xml_consts]
  | cons b bs ih =>
    intro as e rest hb hnd
    have hb1 := hb b (by simp)
    have hnew : b.name ∉ as.map (·.name) := by
      simp only [List.map_append, List.map_cons] at hnd
      have := (List.nodup_append.1 hnd).2.2
      intro hm
      exact this _ hm _ (by simp) rfl
    simp only [renderAttrs, List.flatMap_cons, List.append_assoc]
    rw [lex_attr n as b hb1.1 hb1.2 hnew]
    have := ih (as ++ [b]) e rest (fun x hx => hb x (by simp [hx])) (by simpa using hnd)
    simp only [renderAttrs] at this
    rw [this]
    simp

theorem attrs_head (as : List Attr) (e : Bool) (rest : List Char) :
    ∃ d r, renderAttrs as ++ (tagTail e ++ rest) = d :: r ∧ (d = ' ' ∨ d = '>' ∨ d = '/') := by
  cases as with
  | nil =>
    cases e
    · exact ⟨'>', rest, by simp [renderAttrs, tagTail], by simp⟩
    · exact ⟨'/', '>' :: rest, by simp [renderAttrs, tagTail], by simp⟩
  | cons a as => exact ⟨' ', _, by simp only [renderAttrs, List.flatMap_cons, renderAttr, List.cons_append]; rfl, by simp⟩

theorem wfAttrs_iff (as : List Attr) : wfAttrs as = true ↔
    (∀ b ∈ as, wfName b.name = true ∧ allXml b.value = true) ∧ (as.map (·.name)).Nodup := by
  simp [wfAttrs, List.all_eq_true]

theorem flushText_nil (x : Option (List Token)) : flushText [] x = x := by simp [flushText]

theorem writeStartTag_eq (n : List Char) (as : List Attr) (e : Bool) (rest : List Char) :
    writeStartTag n as e ++ rest = '<' :: (n ++ (renderAttrs as ++ (tagTail e ++ rest))) := by
  cases e <;> simp [writeStartTag, startKind, writeEvent, tagTail]

/-- **start tag / empty-element tag**: what `write_start_tag` writes is lexed as one `open` token with the
    name, the attributes in the order written with their unescaped values, and the flag -/
theorem lex_startTag (n : List Char) (as : List Attr) (e : Bool) (hn : wfName n = true) (ha : wfAttrs as = true)
    (acc rest : List Char) :
    lexGo (.text acc) (writeStartTag n as e ++ rest) =
      flushText acc ((lexGo (.text []) rest).map (Token.open n as e :: ·)) := by
  cases n with
  | nil => simp [wfName] at hn
  | cons c cs =>
    obtain ⟨hs, hxc, hcs⟩ := wfName_cons c cs hn
    obtain ⟨ha1, ha2⟩ := (wfAttrs_iff as).1 ha
    rw [writeStartTag_eq, lex_text_lt, List.cons_append, lex_lt_name c _ hs hxc, lex_startName_run cs hcs]
    obtain ⟨d, r, hdr, hd⟩ := attrs_head as e rest
    rw [hdr, lex_startName_delim _ d r hd, ← hdr]
    have := lex_attrs (c :: cs) as [] e rest ha1 (by simpa using ha2)
    simp only [List.nil_append] at this
    simp only [List.reverse_append, List.reverse_cons, List.reverse_nil, List.nil_append, List.reverse_reverse, List.singleton_append]
    rw [this]

/-! ## end tag -/

theorem lex_endName_run (cs : List Char) (h : ∀ d ∈ cs, isNameChar d = true ∧ isXmlChar d = true) :
    ∀ (acc rest : List Char), acc ≠ [] → lexGo (.endName acc) (cs ++ rest) = lexGo (.endName (cs.reverse ++ acc)) rest := by
  induction cs with
  | nil => intro acc rest _; rfl
  | cons c r ih =>
    intro acc rest hne
    have hc := h c (by simp)
    have he : acc.isEmpty = false := by cases acc <;> simp_all
    rw [List.cons_append, lexGo]
    simp only [hc.1, hc.2, he, Bool.not_true, Bool.false_eq_true, if_false, if_true]
    rw [ih (fun d hd => h d (by simp [hd])) (c :: acc) rest (by simp)]
    simp

/-- **end tag** -/
theorem lex_endTag (n : List Char) (hn : wfName n = true) (acc rest : List Char) :
    lexGo (.text acc) (writeEndTag n ++ rest) = flushText acc ((lexGo (.text []) rest).map (Token.close n :: ·)) := by
  cases n with
  | nil => simp [wfName] at hn
  | cons c cs =>
    obtain ⟨hs, hxc, hcs⟩ := wfName_cons c cs hn
    simp only [writeEndTag, writeEvent, List.cons_append, List.append_assoc, List.nil_append]
    rw [lex_text_lt, lex_lt_slash]
    rw [lexGo]; simp only [hxc, hs, List.isEmpty_nil, Bool.not_true, Bool.false_eq_true, if_false, if_true]
    rw [lex_endName_run cs hcs [c] _ (by simp)]
    rw [lexGo]
    have he : (cs.reverse ++ [c]).isEmpty = false := by simp
    simp only [xml_consts, he, show isNameChar '>' = false by decide, show isSpace '>' = false by decide,
      Bool.not_true, Bool.false_eq_true, if_false, if_true]
    simp

/-! ## the XML declaration -/

theorem lex_pi_run (body : List Char) (hx : ∀ c ∈ body, isXmlChar c = true) (hgt : '>' ∉ body) :
    ∀ (q : Bool) (rest : List Char), lexGo (.pi q) (body ++ '?' :: '>' :: rest) = lexGo (.text []) rest := by
  induction body with
  | nil =>
    intro q rest
    rw [List.nil_append, lexGo]; simp only [xml_consts, Bool.not_true, Bool.false_eq_true, if_false]
    simp only [show ('?' = '>') = False by decide, false_and, if_false]
    rw [lexGo]; simp [xml_consts]
  | cons c r ih =>
    intro q rest
    have h1 : c ≠ '>' := by intro e; subst e; simp at hgt
    rw [List.cons_append, lexGo]
    simp only [hx c (by simp), h1, Bool.not_true, Bool.false_eq_true, if_false, false_and]
    exact ih (fun d hd => hx d (by simp [hd])) (fun h => hgt (by simp [h])) _ rest

/-- **declaration**: skipped by the reader -/
theorem lex_decl (rest : List Char) : lexGo (.text []) (writeDecl ++ rest) = lexGo (.text []) rest := by
  simp only [writeDecl, List.cons_append, List.append_assoc, List.nil_append]
  rw [lex_text_lt, flushText_nil]
  rw [lexGo]; simp only [xml_consts, Bool.not_true, Bool.false_eq_true, if_false]
  simp only [show ('?' = '/') = False by decide, if_false, if_true]
  exact lex_pi_run declBody (List.all_eq_true.1 (by decide)) (by decide) false rest

end Umya.XmlWrite
