/-
  `contentTypeOf` (the decoder's look-up: `Override` by part name, else `Default` by extension) on the
  `[Content_Types].xml` of `Umya/Model/PackageNodeCmt.lean`, for every part of the package — the Overrides of the
  comments parts and the `vml` Default included.
-/
import Umya.Lemmas.PackageNodeCmtParts
import Umya.Lemmas.PackageNodeCT
namespace Umya.PackageNode
open Umya.Xml Umya.CellXml Umya.CellNode Umya.SheetNode Umya.WorkbookNode Umya.Dec
open Umya.Spec.Xml (Node Attr localName)
open Umya.Spec.Sml

theorem commentsOverrides_kids (cs : List Nat) : (commentsOverrides cs).filter (isKid nOverride) = commentsOverrides cs ∧
    (commentsOverrides cs).filter (isKid nDefault) = [] := by
  induction cs with
  | nil => exact ⟨rfl, rfl⟩
  | cons c cs ih =>
    have e : commentsOverrides (c :: cs) = overrideEl (commentsPartL c) ctComments :: commentsOverrides cs := rfl
    rw [e]
    simp [List.filter_cons, (isKid_override _ _).1, (isKid_override _ _).2, ih.1, ih.2]

/-- what follows the comments Overrides -/
def overridesRest (n : Nat) (hs : Bool) : List Node :=
  (if hs then [overrideEl nSst ctSst] else []) ++
  [overrideEl nStyles ctStyles, overrideEl nTheme ctTheme, overrideEl nWorkbookPart ctWorkbook] ++ sheetOverrides 1 n

def overridesC (n : Nat) (hs : Bool) (cs : List Nat) : List Node :=
  [overrideEl nApp ctApp, overrideEl nCore ctCore] ++ (commentsOverrides cs ++ overridesRest n hs)

def defaultsC (vs : List Nat) : List Node :=
  [defaultEl ['r', 'e', 'l', 's'] ctRels, defaultEl ['x', 'm', 'l'] ctXml] ++ (if vs.isEmpty then [] else [defaultEl ['v', 'm', 'l'] ctVml])

theorem overrides_eq (n : Nat) (hs : Bool) : overrides n hs = [overrideEl nApp ctApp, overrideEl nCore ctCore] ++ overridesRest n hs := by
  simp [overrides, overridesRest]

theorem ct_kidsC (n : Nat) (hs : Bool) (vs cs : List Nat) :
    (contentTypesNodeC n hs vs cs).kids "Override" = overridesC n hs cs ∧
    (contentTypesNodeC n hs vs cs).kids "Default" = defaultsC vs := by
  have e1 : "Override".toList = nOverride := rfl
  have e2 : "Default".toList = nDefault := rfl
  rw [kids_eq, kids_eq, e1, e2]
  cases hs <;> cases vs.isEmpty <;>
  simp [contentTypesNodeC, overridesC, overridesRest, defaultsC, Node.children, List.filter_append, List.filter_cons, isKid_override, isKid_default,
    sheetOverrides_kids, commentsOverrides_kids]

theorem commentsOverrides_find_other (nm : List Char) (h : ∀ i, commentsPartL i ≠ nm) (cs : List Nat) :
    (commentsOverrides cs).find? (ovPred nm) = none := by
  induction cs with
  | nil => rfl
  | cons c cs ih =>
    have e : commentsOverrides (c :: cs) = overrideEl (commentsPartL c) ctComments :: commentsOverrides cs := rfl
    rw [e, ov_find_cons, if_neg (h c), ih]

theorem commentsOverrides_find (c : Nat) (cs : List Nat) (hc : c ∈ cs) :
    (commentsOverrides cs).find? (ovPred (commentsPartL c)) = some (overrideEl (commentsPartL c) ctComments) := by
  induction cs with
  | nil => simp at hc
  | cons c' cs ih =>
    have e : commentsOverrides (c' :: cs) = overrideEl (commentsPartL c') ctComments :: commentsOverrides cs := rfl
    rw [e, ov_find_cons]
    by_cases h : c' = c
    · subst h; rw [if_pos rfl]
    · rw [if_neg (fun e => h (commentsPartL_inj _ _ e))]
      rcases List.mem_cons.1 hc with rfl | hc
      · exact absurd rfl h
      · exact ih hc

/-- a name that is not a comments part: the comments Overrides do not matter -/
theorem overridesC_other (n : Nat) (hs : Bool) (cs : List Nat) (nm : List Char) (h : ∀ i, commentsPartL i ≠ nm) :
    (overridesC n hs cs).find? (ovPred nm) = (overrides n hs).find? (ovPred nm) := by
  rw [overrides_eq, overridesC, List.find?_append, List.find?_append, List.find?_append, commentsOverrides_find_other nm h, Option.none_or]

theorem overridesC_comments (n : Nat) (hs : Bool) (cs : List Nat) (c : Nat) (hc : c ∈ cs) :
    (overridesC n hs cs).find? (ovPred (commentsPartL c)) = some (overrideEl (commentsPartL c) ctComments) := by
  have h1 : nApp ≠ commentsPartL c := by intro e; simp [nApp, commentsPartL] at e
  have h2 : nCore ≠ commentsPartL c := by intro e; simp [nCore, commentsPartL] at e
  rw [overridesC, List.cons_append, List.cons_append, List.nil_append, ov_find_cons, if_neg h1, ov_find_cons, if_neg h2,
    List.find?_append, commentsOverrides_find c cs hc]
  rfl

/-- the decoder's Default predicate for the extension `ext` -/
def dfPred (ext : List Char) (d : Node) : Bool :=
  decide (((d.attr? "Extension".toList).map (fun e => (str e).toLower)) = some (String.ofList ext).toLower)

theorem defaults_rels (vs : List Nat) :
    ((defaultsC vs).find? (dfPred ['r', 'e', 'l', 's'])).bind (fun d => (d.attr? "ContentType".toList).map str) = some (str ctRels) := by
  unfold defaultsC
  generalize vs.isEmpty = e
  cases e <;> decide +kernel

theorem defaults_vml (vs : List Nat) (h : vs ≠ []) :
    ((defaultsC vs).find? (dfPred ['v', 'm', 'l'])).bind (fun d => (d.attr? "ContentType".toList).map str) = some (str ctVml) := by
  unfold defaultsC
  have : vs.isEmpty = false := by cases vs with | nil => exact absurd rfl h | cons _ _ => rfl
  rw [this]
  decide +kernel

section
variable {F : Umya.Num.NumFmt}
variable {b : BookC F.Num} {cmt : List Part} {tbl : Table} {sst : List Part} (hb : Built F b cmt tbl sst) (hs : Bool) (roots : List Node)
include hb

/-- `contentTypeOf` unfolded on the assembled package: the Override for `nm` if there is one, else the Default
    for its extension -/
theorem contentTypeOf_assembleC (nm : List Char) :
    contentTypeOf (assembleC F b hs roots cmt sst) (String.ofList nm) =
      match (overridesC b.sheets.length hs (cmtNums (annotate b.sheets))).find? (ovPred nm) with
      | some o => (o.attr? "ContentType".toList).map str
      | none =>
        ((defaultsC (vmlNums (annotate b.sheets))).find? (dfPred (extOfL nm))).bind fun d => (d.attr? "ContentType".toList).map str := by
  have e0 : "[Content_Types].xml" = String.ofList nContentTypes := rfl
  have e1 : ("/" ++ String.ofList nm).toList = '/' :: nm := by simp
  have e2 : "PartName".toList = ['P', 'a', 'r', 't', 'N', 'a', 'm', 'e'] := rfl
  unfold contentTypeOf
  rw [e0, partC_contentTypes hb hs roots]
  simp only [xmlPart, Option.bind_some, (ct_kidsC _ _ _ _).1, (ct_kidsC _ _ _ _).2, e1, e2, extOf, String.toList_ofList]
  rfl

theorem ctC_override_hit (nm ct : List Char)
    (h : (overridesC b.sheets.length hs (cmtNums (annotate b.sheets))).find? (ovPred nm) = some (overrideEl nm ct)) :
    contentTypeOf (assembleC F b hs roots cmt sst) (String.ofList nm) = some (str ct) := by
  rw [contentTypeOf_assembleC hb hs roots, h]
  exact ct_attr nm ct

/-- a part that is not a comments part and has an Override in the plain model has it here -/
theorem ctC_plain_hit (nm ct : List Char) (hn : ∀ i, commentsPartL i ≠ nm)
    (h : (overrides b.sheets.length hs).find? (ovPred nm) = some (overrideEl nm ct)) :
    contentTypeOf (assembleC F b hs roots cmt sst) (String.ofList nm) = some (str ct) :=
  ctC_override_hit hb hs roots nm ct (by rw [overridesC_other _ _ _ nm hn, h])

theorem ctC_default_rels (nm : List Char) (hn : ∀ i, commentsPartL i ≠ nm)
    (h : (overrides b.sheets.length hs).find? (ovPred nm) = none) (hext : extOfL nm = ['r', 'e', 'l', 's']) :
    contentTypeOf (assembleC F b hs roots cmt sst) (String.ofList nm) = some (str ctRels) := by
  rw [contentTypeOf_assembleC hb hs roots, overridesC_other _ _ _ nm hn, h, hext]
  exact defaults_rels _

theorem ctC_default_vml (v : Nat) (hv : vmlNums (annotate b.sheets) ≠ []) :
    contentTypeOf (assembleC F b hs roots cmt sst) (String.ofList (vmlPartL v)) = some (str ctVml) := by
  have hno : (overrides b.sheets.length hs).find? (ovPred (vmlPartL v)) = none :=
    ov_none _ _ _ (by simp [vmlPartL, nApp]) (by simp [vmlPartL, nCore]) (by simp [vmlPartL, nSst]) (by simp [vmlPartL, nStyles])
      (by simp [vmlPartL, nTheme]) (by simp [vmlPartL, nWorkbookPart]) (fun i => sheetPart_ne_vml i v)
  rw [contentTypeOf_assembleC hb hs roots, overridesC_other _ _ _ _ (fun i e => vml_ne_comments v i e.symm), hno, ext_vmlPart]
  exact defaults_vml _ hv

theorem ctC_comments (c : Nat) (hc : c ∈ cmtNums (annotate b.sheets)) :
    contentTypeOf (assembleC F b hs roots cmt sst) (String.ofList (commentsPartL c)) = some (str ctComments) :=
  ctC_override_hit hb hs roots _ _ (overridesC_comments _ _ _ c hc)

end

theorem mem_vmlNums {N : Type} (an : List (SheetC N × Option (Nat × Nat))) (s : SheetC N) (v c : Nat) (h : (s, some (v, c)) ∈ an) :
    v ∈ vmlNums an ∧ c ∈ cmtNums an := by
  unfold vmlNums cmtNums
  exact ⟨List.mem_filterMap.2 ⟨_, h, rfl⟩, List.mem_filterMap.2 ⟨_, h, rfl⟩⟩

end Umya.PackageNode
