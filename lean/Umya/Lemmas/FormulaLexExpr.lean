/-
  Lexer correctness on printed expressions: the induction on the expression (pass 1), and what
  `lex1` returns on the printed text.  Helper lemmas for `Umya/Thm/C09Lex.lean`.
-/
import Umya.Lemmas.FormulaLex
namespace Umya.Formula
open Umya.Coord Umya.Dec Umya.Spec

/-- an operand text that pass 3 classifies as Range: not a number for `str::parse::<f64>`, not a
    boolean -/
def isRangeText (t : List Char) : Bool := !parseF64Ok t && !eqUpper t "TRUE" && !eqUpper t "FALSE"

mutual
  /-- the printed text of `e` is inside the fragment for which lexer correctness is proved:
      numbers are non-empty texts of ordinary characters that `parse::<f64>` accepts (so no sign
      inside: `1E+5` is excluded, the tokenizer cuts it in three), names and function names are
      non-empty texts of ordinary characters (no operator, quote, bracket, blank, comma), names are
      not numbers / booleans, function names do not start with `@`, unquoted sheet qualifiers
      consist of ordinary characters; no intersections, array constants, structured references -/
  def LexOk : Expr → Prop
    | .num t => t ≠ [] ∧ ordText t = true ∧ parseF64Ok t = true
    | .str _ => True
    | .bool _ => True
    | .err _ => True
    | .name n => n ≠ [] ∧ ordText n = true ∧ isRangeText n = true
    | .ref r => RefLexOk r ∧ isRangeText r.text = true
    | .opaque _ => False
    | .array _ => False
    | .neg e => LexOk e
    | .pos e => LexOk e
    | .pct e => LexOk e
    | .bin _ a b => LexOk a ∧ LexOk b
    | .isect _ _ => False
    | .union es => LexOkA es
    | .paren e => LexOk e
    | .call f as => (f ≠ [] ∧ ordText f = true ∧ f.head? ≠ some '@') ∧ LexOkA as
  def LexOkA : Args → Prop
    | .nil => True
    | .cons e rest => LexOk e ∧ LexOkA rest
    | .skip rest => LexOkA rest
end

theorem lex_op (op : BinOp) (p : Pend) (T S : List Tok) :
    Startable (op.text.foldl step (p.st T S)) (T ++ p.toks ++ [op1 op]) S := by
  cases op <;> simp only [BinOp.text, List.foldl_cons, List.foldl_nil] <;>
    rw [step_delim p T S _ (by decide)]
  case lt =>
    right; exact ⟨'<', T ++ p.toks, by simp [stepNormal, LexSt.flush], by simp [op1, BinOp.text]⟩
  case gt =>
    right; exact ⟨'>', T ++ p.toks, by simp [stepNormal, LexSt.flush], by simp [op1, BinOp.text]⟩
  all_goals
    (left; simp [op1, BinOp.text, stepNormal, LexSt.flush, LexSt.push, isInfixChar, step, isMultiCmp])

theorem step_comma (p : Pend) (T S : List Tok) (t : Tok) :
    step (p.st T (t :: S)) ',' =
      ⟨T ++ p.toks ++ [sepTok t.ty], ⟨[], t.ty, .stop, t.arr⟩ :: S, [], .normal⟩ := by
  rw [step_delim p T _ ',' (by decide)]
  by_cases h : t.ty = .function <;>
    simp [stepNormal, LexSt.flush, LexSt.push, isInfixChar, sepTok, h]

theorem step_close (p : Pend) (T S : List Tok) (t : Tok) :
    step (p.st T (t :: S)) ')' = ⟨T ++ p.toks ++ [⟨[], t.ty, .stop, t.arr⟩], S, [], .normal⟩ := by
  rw [step_delim p T _ ')' (by decide)]
  simp [stepNormal, LexSt.flush, LexSt.close, isInfixChar]

theorem step_open_sub (T S : List Tok) :
    stepNormal ⟨T, S, [], .normal⟩ '(' =
      ⟨T ++ [⟨[], .subexpression, .start, .none⟩], ⟨[], .subexpression, .start, .none⟩ :: S, [], .normal⟩ := by
  simp [stepNormal, LexSt.open_, isInfixChar]

theorem step_open_fn (T S : List Tok) (f : List Char) (hf : f ≠ []) :
    step ⟨T, S, f, .normal⟩ '(' =
      ⟨T ++ [⟨f, .function, .start, .none⟩], ⟨f, .function, .start, .none⟩ :: S, [], .normal⟩ := by
  simp [step, stepNormal, LexSt.open_, isInfixChar, hf]

theorem step_sign (T S : List Tok) (c : Char) (hc : c = '-' ∨ c = '+') :
    stepNormal ⟨T, S, [], .normal⟩ c = ⟨T ++ [⟨[c], .opInfix, .nothing, .none⟩], S, [], .normal⟩ := by
  rcases hc with h | h <;> subst h <;> simp [stepNormal, LexSt.flush, LexSt.push, isInfixChar]

theorem step_pct (p : Pend) (T S : List Tok) :
    step (p.st T S) '%' = ⟨T ++ p.toks ++ [⟨['%'], .opPostfix, .nothing, .none⟩], S, [], .normal⟩ := by
  rw [step_delim p T S '%' (by decide)]
  simp [stepNormal, LexSt.flush, LexSt.push, isInfixChar]

mutual
  /-- **pass 1 on one expression**: from a token boundary, the printed text of `e` leaves the machine
      with the tokens `preE e` emitted, the stack unchanged and `pendE e` pending -/
  theorem lex_expr (e : Expr) (h : LexOk e) (st : LexSt) (T S : List Tok) (hs : Startable st T S) :
      e.print.foldl step st = (pendE e).st (T ++ preE e) S := by
    match e, h with
    | .num t, h =>
      simp only [Expr.print, pendE, preE, Pend.st, List.append_nil]; exact lex_ord t h.1 h.2.1 st T S hs
    | .str s, _ =>
      simp only [Expr.print, pendE, preE, Pend.st, List.append_nil]; exact lex_str s st T S hs
    | .bool b, _ =>
      cases b <;>
        (simp only [Expr.print, pendE, preE, Pend.st, List.append_nil, boolText]
         exact lex_ord _ (by simp) (by decide) st T S hs)
    | .err e, _ => simp only [Expr.print, pendE, preE, Pend.st]; exact lex_err e st T S hs
    | .name n, h =>
      simp only [Expr.print, pendE, preE, Pend.st, List.append_nil]; exact lex_ord n h.1 h.2.1 st T S hs
    | .ref r, h =>
      simp only [Expr.print, pendE, preE, Pend.st, List.append_nil]; exact lex_ref r h.1 st T S hs
    | .opaque _, h => exact absurd h (by simp [LexOk])
    | .array _, h => exact absurd h (by simp [LexOk])
    | .isect _ _, h => exact absurd h (by simp [LexOk])
    | .neg e, h =>
      simp only [Expr.print, List.foldl_cons, pendE, preE]
      rw [step_start st T S hs '-' (by decide) (by decide), step_sign T S '-' (Or.inl rfl),
        lex_expr e h _ _ S (startable_fresh _ _)]
      simp
    | .pos e, h =>
      simp only [Expr.print, List.foldl_cons, pendE, preE]
      rw [step_start st T S hs '+' (by decide) (by decide), step_sign T S '+' (Or.inr rfl),
        lex_expr e h _ _ S (startable_fresh _ _)]
      simp
    | .pct e, h =>
      simp only [Expr.print, List.foldl_append, List.foldl_cons, List.foldl_nil, pendE, preE, Pend.st]
      rw [lex_expr e h st T S hs, step_pct]
      simp
    | .bin op a b, h =>
      simp only [Expr.print, List.foldl_append, pendE, preE]
      rw [lex_expr a h.1 st T S hs, lex_expr b h.2 _ _ S (lex_op op (pendE a) (T ++ preE a) S)]
      simp
    | .paren e, h =>
      simp only [Expr.print, List.foldl_cons, List.foldl_append, List.foldl_nil, pendE, preE, Pend.st]
      rw [step_start st T S hs '(' (by decide) (by decide), step_open_sub,
        lex_expr e h _ _ _ (startable_fresh _ _), step_close]
      simp
    | .union es, h =>
      simp only [Expr.print, List.foldl_cons, List.foldl_append, List.foldl_nil, pendE, preE, Pend.st]
      rw [step_start st T S hs '(' (by decide) (by decide), step_open_sub]
      obtain ⟨t', ht', hr⟩ := lex_args es h .subexpression ⟨[], .subexpression, .start, .none⟩ ⟨rfl, rfl⟩
        (T ++ [⟨[], .subexpression, .start, .none⟩]) S
      rw [hr, step_close, ht'.1, ht'.2]
      simp
    | .call f as, h =>
      simp only [Expr.print, List.foldl_cons, List.foldl_append, List.foldl_nil, pendE, preE, Pend.st]
      rw [lex_ord f h.1.1 h.1.2.1 st T S hs, step_open_fn T S f h.1.1]
      obtain ⟨t', ht', hr⟩ := lex_args as h.2 .function ⟨f, .function, .start, .none⟩ ⟨rfl, rfl⟩
        (T ++ [⟨f, .function, .start, .none⟩]) S
      rw [hr, step_close, ht'.1, ht'.2]
      simp
  theorem lex_args (as : Args) (h : LexOkA as) (k : TT) (t : Tok) (ht : t.ty = k ∧ t.arr = .none)
      (T S : List Tok) :
      ∃ t', (t'.ty = k ∧ t'.arr = .none) ∧
        as.print.foldl step ⟨T, t :: S, [], .normal⟩ = (pendA as).st (T ++ preA k as) (t' :: S) := by
    match as, h with
    | .nil, _ => exact ⟨t, ht, by simp [Args.print, pendA, preA, Pend.st]⟩
    | .cons e .nil, h =>
      refine ⟨t, ht, ?_⟩
      simp only [Args.print, pendA, preA]
      exact lex_expr e h.1 _ T _ (startable_fresh _ _)
    | .cons e (.cons e2 r), h =>
      obtain ⟨t', ht', hr⟩ := lex_args (.cons e2 r) h.2 k ⟨[], t.ty, .stop, t.arr⟩ ⟨ht.1, ht.2⟩
        (T ++ preE e ++ (pendE e).toks ++ [sepTok t.ty]) S
      refine ⟨t', ht', ?_⟩
      simp only [Args.print, List.foldl_append, List.foldl_cons, pendA, preA]
      rw [lex_expr e h.1 _ T _ (startable_fresh _ _), step_comma, hr, ht.1]
      simp
    | .cons e (.skip r), h =>
      obtain ⟨t', ht', hr⟩ := lex_args (.skip r) h.2 k ⟨[], t.ty, .stop, t.arr⟩ ⟨ht.1, ht.2⟩
        (T ++ preE e ++ (pendE e).toks ++ [sepTok t.ty]) S
      refine ⟨t', ht', ?_⟩
      simp only [Args.print, List.foldl_append, List.foldl_cons, pendA, preA]
      rw [lex_expr e h.1 _ T _ (startable_fresh _ _), step_comma, hr, ht.1]
      simp
    | .skip .nil, _ => exact ⟨t, ht, by simp [Args.print, pendA, preA, Pend.st]⟩
    | .skip (.cons e2 r), h =>
      obtain ⟨t', ht', hr⟩ := lex_args (.cons e2 r) h k ⟨[], t.ty, .stop, t.arr⟩ ⟨ht.1, ht.2⟩
        (T ++ [sepTok t.ty]) S
      refine ⟨t', ht', ?_⟩
      simp only [Args.print, List.foldl_cons, pendA, preA]
      have := step_comma .none T S t
      simp only [Pend.st, Pend.toks, List.append_nil] at this
      rw [this, hr, ht.1]
      simp
    | .skip (.skip r), h =>
      obtain ⟨t', ht', hr⟩ := lex_args (.skip r) h k ⟨[], t.ty, .stop, t.arr⟩ ⟨ht.1, ht.2⟩
        (T ++ [sepTok t.ty]) S
      refine ⟨t', ht', ?_⟩
      simp only [Args.print, List.foldl_cons, pendA, preA]
      have := step_comma .none T S t
      simp only [Pend.st, Pend.toks, List.append_nil] at this
      rw [this, hr, ht.1]
      simp
end

end Umya.Formula
