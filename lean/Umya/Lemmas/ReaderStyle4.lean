/-
  Helper lemmas for C03, style resolution (end): `<xf>`, the tables of `styles.xml`, `get_style_by_cell_format`.
-/
import Umya.Lemmas.ReaderStyle3
namespace Umya.Reader.Lemmas
open Umya.Reader Umya.Spec.Xml Umya.Spec.Sml
open Umya.StyleCodec

/-! ## `<xf>` -/

/-- a valid `<xf>`: unprefixed children, at most one `alignment` (a `validAlign`) and one `protection`; the four ids,
    when present, unsigned decimals that fit `u32` -/
def validXf (n : Node) : Bool :=
  n.children.all plain && uniq n.children "alignment" && uniq n.children "protection" &&
  uintAttrOk n.attrs "numFmtId" && uintAttrOk n.attrs "fontId" && uintAttrOk n.attrs "fillId" &&
  uintAttrOk n.attrs "borderId" &&
  n.children.all (fun c => if named "alignment" c then validAlign c else true)

/-- the scalar part of an `XfR` -/
def xfScalars (x : XfR) : (Nat × Nat × Nat × Nat) × (Option Bool × Option Bool × Option Bool × Option Bool × Option Bool × Option Bool) :=
  ((x.numFmtId, x.fontId, x.fillId, x.borderId),
   (x.applyNumFmt, x.applyFont, x.applyFill, x.applyBorder, x.applyAlignment, x.applyProtection))

theorem xfStep_spec (x x' : XfR) (n : Node) (h : xfStep x n = some x') :
    xfScalars x' = xfScalars x ∧
    x'.alignment = (if named "alignment" n then Alignment.read n else x.alignment) ∧
    x'.protection = (if named "protection" n then Protection.read n else x.protection) := by
  unfold xfStep at h
  by_cases c1 : named "alignment" n = true
  · rw [if_pos c1] at h
    obtain ⟨a, ha, rfl⟩ := Option.map_eq_some_iff.mp h
    obtain ⟨as, ks, rfl⟩ := named_elem _ _ c1
    simp [xfScalars, named, Node.isElem, Node.name]; exact ha.symm
  rw [if_neg c1] at h
  by_cases c2 : named "protection" n = true
  · rw [if_pos c2] at h
    obtain ⟨a, ha, rfl⟩ := Option.map_eq_some_iff.mp h
    simp [xfScalars, c1, c2, ha]
  rw [if_neg c2] at h
  simp only [Option.some.injEq] at h; subst h
  simp [c1, c2]

theorem xfStep_total (x : XfR) (c : Node) (h : (if named "alignment" c then validAlign c else true) = true) :
    ∃ x', xfStep x c = some x' := by
  unfold xfStep
  by_cases c1 : named "alignment" c = true
  · rw [if_pos c1] at h ⊢
    obtain ⟨a, ha, _⟩ := align_agrees c h
    exact ⟨_, by rw [ha]; rfl⟩
  rw [if_neg c1]
  by_cases c2 : named "protection" c = true
  · rw [if_pos c2]; exact ⟨_, rfl⟩
  rw [if_neg c2]; exact ⟨_, rfl⟩

/-- what the decoder reads of an `<xf>`, attribute by attribute -/
structure XfAgrees (x : XfR) (n : Node) : Prop where
  numFmtId : x.numFmtId = ((n.attr? "numFmtId".toList).bind natOf).getD 0
  fontId : x.fontId = ((n.attr? "fontId".toList).bind natOf).getD 0
  fillId : x.fillId = ((n.attr? "fillId".toList).bind natOf).getD 0
  borderId : x.borderId = ((n.attr? "borderId".toList).bind natOf).getD 0
  aNumFmt : x.applyNumFmt.getD true = applied n "applyNumberFormat"
  aFont : x.applyFont.getD true = applied n "applyFont"
  aFill : x.applyFill.getD true = applied n "applyFill"
  aBorder : x.applyBorder.getD true = applied n "applyBorder"
  aAlignment : x.applyAlignment.getD true = applied n "applyAlignment"
  aProtection : x.applyProtection.getD true = applied n "applyProtection"
  alignment : x.alignment.map alignFacts = (n.kid? "alignment").map alignV
  protection : x.protection.map protFacts = (n.kid? "protection").map protV
  -- the flags and children as such (for the `cellStyleXfs` record)
  flags : (x.applyNumFmt, x.applyFont, x.applyFill, x.applyBorder, x.applyAlignment, x.applyProtection) =
    ((n.attr? "applyNumberFormat".toList).map xsdTrue, (n.attr? "applyFont".toList).map xsdTrue,
     (n.attr? "applyFill".toList).map xsdTrue, (n.attr? "applyBorder".toList).map xsdTrue,
     (n.attr? "applyAlignment".toList).map xsdTrue, (n.attr? "applyProtection".toList).map xsdTrue)

/-- **`<xf>`**: `CellFormat::set_attributes` on a valid `<xf>` does not panic and reads what the decoder reads -/
theorem xf_agrees (n : Node) (h : validXf n = true) : ∃ x, readXf n = some x ∧ XfAgrees x n := by
  simp only [validXf, Bool.and_eq_true, uniq, decide_eq_true_eq] at h
  obtain ⟨⟨⟨⟨⟨⟨⟨hpl, u1⟩, u2⟩, i1⟩, i2⟩, i3⟩, i4⟩, hk⟩ := h
  unfold readXf
  rw [u32Attr_natOf _ _ i1, u32Attr_natOf _ _ i2, u32Attr_natOf _ _ i3, u32Attr_natOf _ _ i4]
  simp only []
  obtain ⟨x, hx⟩ := foldOpt_total xfStep (fun c => if named "alignment" c then validAlign c else true)
    (fun a c hc => xfStep_total a c hc) n.children
    { numFmtId := ((getAttr n.attrs "numFmtId").bind natOf).getD 0, fontId := ((getAttr n.attrs "fontId").bind natOf).getD 0,
      fillId := ((getAttr n.attrs "fillId").bind natOf).getD 0, borderId := ((getAttr n.attrs "borderId").bind natOf).getD 0,
      applyNumFmt := StyleCodec.boolAttr n.attrs "applyNumberFormat" none, applyFont := StyleCodec.boolAttr n.attrs "applyFont" none,
      applyFill := StyleCodec.boolAttr n.attrs "applyFill" none, applyBorder := StyleCodec.boolAttr n.attrs "applyBorder" none,
      applyAlignment := StyleCodec.boolAttr n.attrs "applyAlignment" none,
      applyProtection := StyleCodec.boolAttr n.attrs "applyProtection" none } hk
  refine ⟨x, hx, ?_⟩
  have e0 := foldOpt_const xfStep xfScalars (fun a c a' ha => (xfStep_spec a a' c ha).1) n.children _ x hx
  have e1 := foldOpt_field xfStep (·.alignment) (named "alignment") (fun _ c => Alignment.read c)
    (fun a c a' ha => (xfStep_spec a a' c ha).2.1) n.children _ x hx u1
  have e2 := foldOpt_field xfStep (·.protection) (named "protection") (fun _ c => Protection.read c)
    (fun a c a' ha => (xfStep_spec a a' c ha).2.2) n.children _ x hx u2
  simp only [xfScalars, Prod.mk.injEq, boolAttr_xsd] at e0
  obtain ⟨⟨a1, a2, a3, a4⟩, b1, b2, b3, b4, b5, b6⟩ := e0
  have hal : x.alignment.map alignFacts = (n.kid? "alignment").map alignV := by
    rw [e1, kid?_eq_find n _ hpl]
    cases hf : n.children.find? (named "alignment") with
    | none => rfl
    | some c =>
      have := List.all_eq_true.mp hk c (List.mem_of_find?_eq_some hf)
      rw [if_pos (List.find?_some hf)] at this
      obtain ⟨a, ha, hav⟩ := align_agrees c this
      simp only [Option.map_some, Option.getD_some, ha, hav]
  have hpr : x.protection.map protFacts = (n.kid? "protection").map protV := by
    rw [e2, kid?_eq_find n _ hpl]
    cases hf : n.children.find? (named "protection") with
    | none => rfl
    | some c =>
      obtain ⟨p, hp, hpv⟩ := prot_agrees c
      simp only [Option.map_some, Option.getD_some, hp, hpv]
  exact { numFmtId := by rw [a1, attr?_eq_getAttr], fontId := by rw [a2, attr?_eq_getAttr],
          fillId := by rw [a3, attr?_eq_getAttr], borderId := by rw [a4, attr?_eq_getAttr],
          aNumFmt := by rw [b1]; simp only [applied, attr?_eq_getAttr],
          aFont := by rw [b2]; simp only [applied, attr?_eq_getAttr],
          aFill := by rw [b3]; simp only [applied, attr?_eq_getAttr],
          aBorder := by rw [b4]; simp only [applied, attr?_eq_getAttr],
          aAlignment := by rw [b5]; simp only [applied, attr?_eq_getAttr],
          aProtection := by rw [b6]; simp only [applied, attr?_eq_getAttr],
          alignment := hal, protection := hpr,
          flags := by simp only [b1, b2, b3, b4, b5, b6, attr?_eq_getAttr] }

/-! ## tables -/

/-- the decoder's item list of a table -/
def tableNodes (root : Node) (t i : String) : List Node := ((root.kid? t).map (·.kids i)).getD []

theorem tableOf_eq (root : Node) (t i : String) (hpl : root.children.all plain = true)
    (hu : uniq root.children t = true) (hin : root.children.all (fun c => c.children.all plain) = true) :
    tableOf root t i = tableNodes root t i := by
  simp only [uniq, decide_eq_true_eq] at hu
  unfold tableOf tableNodes
  rw [kid?_eq_find root t hpl, ← List.head?_filter]
  cases hf : root.children.filter (named t) with
  | nil => rfl
  | cons x r =>
    cases r with
    | cons y r' => rw [hf] at hu; simp at hu
    | nil =>
      have hx : x ∈ root.children := (List.mem_filter.mp (by rw [hf]; exact List.mem_singleton.mpr rfl)).1
      have := List.all_eq_true.mp hin x hx
      simp only [List.flatMap_cons, List.flatMap_nil, List.append_nil, List.head?_cons, Option.map_some, Option.getD_some]
      exact (kids_eq_filter x i this).symm

theorem mapM_view {α β γ : Type} (f : α → Option β) (view : β → γ) (spec : α → γ) :
    ∀ (l : List α), (∀ x ∈ l, ∃ y, f x = some y ∧ view y = spec x) →
      ∃ ys, l.mapM f = some ys ∧ ys.map view = l.map spec := by
  intro l
  induction l with
  | nil => intro _; exact ⟨[], rfl, rfl⟩
  | cons a r ih =>
    intro h
    obtain ⟨y, hy, hv⟩ := h a List.mem_cons_self
    obtain ⟨ys, hys, hvs⟩ := ih (fun x hx => h x (List.mem_cons_of_mem _ hx))
    refine ⟨y :: ys, ?_, by simp only [List.map_cons, hv, hvs]⟩
    simp only [List.mapM_cons, hy, hys]
    rfl

theorem mapM_rel {α β : Type} (f : α → Option β) (R : β → α → Prop) :
    ∀ (l : List α), (∀ x ∈ l, ∃ y, f x = some y ∧ R y x) →
      ∃ ys, l.mapM f = some ys ∧ ys.length = l.length ∧ ∀ (i : Nat) (b : α), l[i]? = some b → ∃ a, ys[i]? = some a ∧ R a b := by
  intro l
  induction l with
  | nil => intro _; exact ⟨[], rfl, rfl, fun i b hb => by simp at hb⟩
  | cons a r ih =>
    intro h
    obtain ⟨y, hy, hv⟩ := h a List.mem_cons_self
    obtain ⟨ys, hys, hl, hvs⟩ := ih (fun x hx => h x (List.mem_cons_of_mem _ hx))
    refine ⟨y :: ys, ?_, by simp [hl], ?_⟩
    · simp only [List.mapM_cons, hy, hys]
      rfl
    · intro i b hb
      cases i with
      | zero => simp only [List.getElem?_cons_zero, Option.some.injEq] at hb; subst hb; exact ⟨_, rfl, hv⟩
      | succ j => simp only [List.getElem?_cons_succ] at hb ⊢; exact hvs j b hb

theorem getElem?_of_map_eq {α β γ : Type} (l : List α) (m : List β) (f : α → γ) (g : β → γ)
    (h : l.map f = m.map g) (i : Nat) (b : β) (hb : m[i]? = some b) : ∃ a, l[i]? = some a ∧ f a = g b := by
  have : (l[i]?).map f = (m[i]?).map g := by rw [← List.getElem?_map, ← List.getElem?_map, h]
  rw [hb] at this
  cases ha : l[i]? with
  | none => rw [ha] at this; cases this
  | some a => rw [ha] at this; exact ⟨a, rfl, by simpa using this⟩

end Umya.Reader.Lemmas
