/-
  Re-saving, generically.

  A *codec* is one save followed by one load of some family of values, seen as a partial function
  `rs : X → Option X` (`none` = a Rust panic on the way), together with an explicit normal form `norm`
  and a well-formedness predicate `WF` ("the value is one a Rust struct can hold / the setters build"),
  such that
    * `rt`     : on well-formed values, `rs x = some (norm x)`;
    * `idem`   : `norm` is idempotent on them;
    * `closed` : the normal form is well-formed again.
  `closed` is what makes the SECOND generation fall under `rt` again; with `idem` it gives the fixed point.
  Everything here is proved once; `Umya/Thm/C04Fix.lean` instantiates it with the concrete codec models and
  their existing round-trip theorems.  Core Lean only.
-/
namespace Umya.Resave

structure Codec (X : Type) where
  rs : X → Option X
  norm : X → X
  WF : X → Prop
  rt : ∀ x, WF x → rs x = some (norm x)
  idem : ∀ x, WF x → norm (norm x) = norm x
  closed : ∀ x, WF x → WF (norm x)

variable {X : Type}

/-- `n` generations of save + load -/
def Codec.gens (c : Codec X) : Nat → X → Option X
  | 0, x => some x
  | n + 1, x => (c.rs x).bind (c.gens n)

/-- the normal form is a fixed point of save + load -/
theorem Codec.rs_norm (c : Codec X) (x : X) (h : c.WF x) : c.rs (c.norm x) = some (c.norm x) := by
  rw [c.rt _ (c.closed x h), c.idem x h]

/-- **Generic fixed point.**  For a well-formed `x`: generation 1 exists and is `norm x`; generation 2 exists and
    IS generation 1; generation 1 is well-formed; and every observation that does not see `norm` gives the same
    answer on generation 1 as on the original. -/
theorem Codec.fixpoint (c : Codec X) (x : X) (h : c.WF x) :
    ∃ g1, c.rs x = some g1 ∧ g1 = c.norm x ∧ c.rs g1 = some g1 ∧ c.WF g1 ∧
      ∀ {O : Type} (P : X → O), (∀ y, c.WF y → P (c.norm y) = P y) → P g1 = P x :=
  ⟨c.norm x, c.rt x h, rfl, c.rs_norm x h, c.closed x h, fun _ hP => hP x h⟩

/-- every later generation is generation 1 -/
theorem Codec.gens_succ (c : Codec X) (x : X) (h : c.WF x) : ∀ n, c.gens (n + 1) x = some (c.norm x)
  | 0 => by simp [Codec.gens, c.rt x h]
  | n + 1 => by
    have ih := Codec.gens_succ c (c.norm x) (c.closed x h) n
    rw [c.idem x h] at ih
    show (c.rs x).bind (c.gens (n + 1)) = _
    rw [c.rt x h]; exact ih

/-! ## building codecs -/

/-- a codec whose normal form is the identity: `rs x = some x` on `WF` -/
def Codec.ofId (rs : X → Option X) (WF : X → Prop) (h : ∀ x, WF x → rs x = some x) : Codec X :=
  { rs := rs, norm := id, WF := WF, rt := h, idem := fun _ _ => rfl, closed := fun _ hx => hx }

/-- map in the `Option` monad, by structural recursion -/
def mapO {A B : Type} (f : A → Option B) : List A → Option (List B)
  | [] => some []
  | a :: r => (f a).bind fun b => (mapO f r).map (b :: ·)

theorem mapO_eq_map {A B : Type} (f : A → Option B) (g : A → B) :
    ∀ l : List A, (∀ a ∈ l, f a = some (g a)) → mapO f l = some (l.map g)
  | [], _ => rfl
  | a :: r, h => by
    simp only [mapO, h a (List.mem_cons_self ..), Option.bind_some,
      mapO_eq_map f g r (fun b hb => h b (List.mem_cons_of_mem _ hb)), Option.map_some, List.map_cons]

/-- any number of values of one family, in order -/
def Codec.list (c : Codec X) : Codec (List X) :=
  { rs := mapO c.rs
    norm := List.map c.norm
    WF := fun l => ∀ x ∈ l, c.WF x
    rt := fun l h => mapO_eq_map c.rs c.norm l (fun x hx => c.rt x (h x hx))
    idem := fun l h => by
      rw [List.map_map]
      exact List.map_congr_left (fun x hx => c.idem x (h x hx))
    closed := fun l h y hy => by
      obtain ⟨x, hx, rfl⟩ := List.mem_map.1 hy
      exact c.closed x (h x hx) }

/-- an optional value -/
def Codec.opt (c : Codec X) : Codec (Option X) :=
  { rs := fun o => match o with | some x => (c.rs x).map some | none => some none
    norm := Option.map c.norm
    WF := fun o => ∀ x, o = some x → c.WF x
    rt := fun o h => by
      cases o with
      | none => rfl
      | some x => simp [c.rt x (h x rfl)]
    idem := fun o h => by
      cases o with
      | none => rfl
      | some x => simp [c.idem x (h x rfl)]
    closed := fun o h y hy => by
      cases o with
      | none => simp at hy
      | some x =>
        simp only [Option.map_some, Option.some.injEq] at hy
        subst hy
        exact c.closed x (h x rfl) }

/-- two families side by side -/
def Codec.prod {Y : Type} (c : Codec X) (d : Codec Y) : Codec (X × Y) :=
  { rs := fun p => (c.rs p.1).bind fun a => (d.rs p.2).map fun b => (a, b)
    norm := fun p => (c.norm p.1, d.norm p.2)
    WF := fun p => c.WF p.1 ∧ d.WF p.2
    rt := fun p h => by simp [c.rt _ h.1, d.rt _ h.2]
    idem := fun p h => by simp [c.idem _ h.1, d.idem _ h.2]
    closed := fun p h => ⟨c.closed _ h.1, d.closed _ h.2⟩ }

/-- the observations of the list codec: an observation per element that does not see `norm` -/
theorem Codec.list_obs {O : Type} (c : Codec X) (P : X → O) (hP : ∀ y, c.WF y → P (c.norm y) = P y)
    (l : List X) (h : c.list.WF l) : (c.list.norm l).map P = l.map P := by
  show (l.map c.norm).map P = l.map P
  rw [List.map_map]
  exact List.map_congr_left (fun x hx => hP x (h x hx))

/-- the same codec on an isomorphic carrier (a record ↔ the tuple of its fields) -/
def Codec.transport {Y : Type} (c : Codec X) (to : Y → X) (back : X → Y) (h1 : ∀ y, back (to y) = y)
    (h2 : ∀ x, to (back x) = x) : Codec Y :=
  { rs := fun y => (c.rs (to y)).map back
    norm := fun y => back (c.norm (to y))
    WF := fun y => c.WF (to y)
    rt := fun y h => by simp [c.rt _ h]
    idem := fun y h => by simp [h2, c.idem _ h]
    closed := fun y h => by simpa [h2] using c.closed _ h }

/-- a codec on fewer values: `Q` is an extra invariant that the normal form keeps -/
def Codec.restrict (c : Codec X) (Q : X → Prop) (hQ : ∀ x, c.WF x → Q x → Q (c.norm x)) : Codec X :=
  { rs := c.rs, norm := c.norm, WF := fun x => c.WF x ∧ Q x
    rt := fun x h => c.rt x h.1, idem := fun x h => c.idem x h.1
    closed := fun x h => ⟨c.closed x h.1, hQ x h.1 h.2⟩ }

theorem Codec.opt_obs {O : Type} (c : Codec X) (P : X → O) (hP : ∀ y, c.WF y → P (c.norm y) = P y)
    (o : Option X) (h : c.opt.WF o) : (c.opt.norm o).map P = o.map P := by
  cases o with
  | none => rfl
  | some x => simp [Codec.opt, hP x (h x rfl)]

end Umya.Resave
