/-
  From the characters of a rendered writer-call tree (`Umya/Model/XmlWrite.lean`) to the element tree the
  independent XML 1.0 reader (`Umya/Spec/XmlLex.lean`) returns:

  1. character data: `textValue` of concatenated pieces (general lemmas on `expandGo`);
  2. the lexer on a sequence of writer events (`lex_events`, by induction on the sequence, from the
     per-token lemmas of `Lemmas/XmlWriteLex.lean`);
  3. the tree builder on the tokens of a tree (`build_kids`, by induction on the tree);
  4. `parse_renderDoc`: the main theorem.
-/
import Umya.Lemmas.XmlWriteLex
namespace Umya.XmlWrite
open Umya.XmlEsc Umya.XmlChannel
open Umya.Spec.Xml

/-! ## 1. character data -/

theorem resolveRef_ne_nil (p v : List Char) (h : resolveRef p = some v) : v ≠ [] := by
  unfold resolveRef at h
  split at h
  · simp only [Option.bind_eq_some_iff] at h
    obtain ⟨n, _, h2⟩ := h
    split at h2
    · injection h2 with h2; subst h2; simp
    · simp at h2
  · simp only [Option.bind_eq_some_iff] at h
    obtain ⟨n, _, h2⟩ := h
    split at h2
    · injection h2 with h2; subst h2; simp
    · simp at h2
  · repeat' split at h
    all_goals first
      | (injection h with h; subst h; simp)
      | simp at h

/-- reading a piece of character data that is complete in itself does not depend on what follows -/
theorem expandGo_append (lit : Char → List Char) (r : List Char) :
    ∀ (st : Option (List Char)) (v rest : List Char), expandGo lit st r = some v →
      expandGo lit st (r ++ rest) = (expandGo lit none rest).map (v ++ ·) := by
  induction r with
  | nil =>
    intro st v rest h
    cases st with
    | none => simp [expandGo] at h; subst h; simp
    | some p => simp [expandGo] at h
  | cons c r ih =>
    intro st v rest h
    cases st with
    | none =>
      simp only [expandGo] at h
      simp only [List.cons_append, expandGo]
      split at h
      · rename_i hc; rw [if_pos hc]; exact ih _ _ _ h
      · rename_i hc; rw [if_neg hc]
        simp only [Option.map_eq_some_iff] at h
        obtain ⟨v', h1, h2⟩ := h
        rw [ih _ _ rest h1, ← h2]
        cases expandGo lit none rest <;> simp
    | some p =>
      simp only [expandGo] at h
      simp only [List.cons_append, expandGo]
      split at h
      · rename_i hc; rw [if_pos hc]
        simp only [Option.bind_eq_some_iff, Option.map_eq_some_iff] at h
        obtain ⟨x, hx, v', h1, h2⟩ := h
        rw [hx, ih _ _ rest h1, ← h2]
        cases expandGo lit none rest <;> simp
      · rename_i hc; rw [if_neg hc]
        split at h
        · simp at h
        · rename_i hc2; rw [if_neg hc2]; exact ih _ _ _ h

/-- non-empty character data never reads as the empty text -/
theorem expandGo_ne_nil (lit : Char → List Char) (hlit : ∀ c, lit c ≠ []) (r : List Char) :
    (expandGo lit none r = some [] → r = []) ∧ (∀ p, expandGo lit (some p) r ≠ some []) := by
  induction r with
  | nil => exact ⟨fun _ => rfl, fun p => by simp [expandGo]⟩
  | cons c r ih =>
    constructor
    · intro h
      simp only [expandGo] at h
      split at h
      · exact absurd h (ih.2 _)
      · simp only [Option.map_eq_some_iff] at h
        obtain ⟨v', _, h2⟩ := h
        have := hlit c
        cases hl : lit c with
        | nil => exact absurd hl this
        | cons a b => rw [hl] at h2; simp at h2
    · intro p h
      simp only [expandGo] at h
      split at h
      · simp only [Option.bind_eq_some_iff, Option.map_eq_some_iff] at h
        obtain ⟨x, hx, v', _, h2⟩ := h
        have := resolveRef_ne_nil _ _ hx
        cases x with
        | nil => exact this rfl
        | cons a b => simp at h2
      · split at h
        · simp at h
        · exact ih.2 _ h

theorem normalizeEol_cons_ne (c : Char) (r : List Char) (hc : c ≠ '\r') : normalizeEol (c :: r) = c :: normalizeEol r := by
  conv => lhs; unfold normalizeEol
  split
  · rename_i heq; injection heq with h1 _; exact absurd h1 hc
  · rename_i heq; injection heq with h1 _; exact absurd h1 hc
  · rename_i heq; injection heq with h1 h2; subst h1; subst h2; rfl
  · rename_i heq; simp at heq

theorem normalizeEol_append_noCR (s rest : List Char) (h : '\r' ∉ s) : normalizeEol (s ++ rest) = s ++ normalizeEol rest := by
  induction s with
  | nil => rfl
  | cons c r ih =>
    have hc : c ≠ '\r' := by intro e; subst e; simp at h
    have hr : '\r' ∉ r := by intro e; exact h (List.mem_cons_of_mem _ e)
    rw [List.cons_append, normalizeEol_cons_ne c _ hc, ih hr]; rfl

theorem textValue_nil : textValue [] = some [] := by decide

/-- what the lexing theorem needs to know about one piece of character data `r` standing for `v` -/
structure CharsOK (r v : List Char) : Prop where
  xml : ∀ c ∈ r, isXmlChar c = true
  noLt : '<' ∉ r
  empty : r = [] ↔ v = []
  comp : ∀ rest, textValue (r ++ rest) = (textValue rest).map (v ++ ·)

theorem charsOK_of_raw (r v : List Char) (hx : ∀ c ∈ r, isXmlChar c = true) (hlt : '<' ∉ r) (hcr : '\r' ∉ r)
    (hv : textValue r = some v) : CharsOK r v := by
  have hv' : expandGo (fun c => [c]) none r = some v := by
    unfold textValue at hv; rwa [normalizeEol_noCR r hcr] at hv
  refine ⟨hx, hlt, ⟨?_, ?_⟩, ?_⟩
  · rintro rfl; simp [expandGo] at hv'; exact hv'
  · rintro rfl; exact (expandGo_ne_nil _ (by simp) r).1 hv'
  · intro rest
    unfold textValue
    rw [normalizeEol_append_noCR r rest hcr]
    exact expandGo_append _ r none v _ hv'

theorem charsOK_text (s : List Char) (h : allXml s = true) : CharsOK (escape s) s :=
  charsOK_of_raw _ _ (escape_xml s h) (escape_noLt s) (escape_noCR s) (textValue_escape s)

theorem charsOK_conv (s : List Char) (h : allXml s = true) : CharsOK (partialEscape s) s :=
  charsOK_of_raw _ _ (partialEscape_xml s h) (partialEscape_noLt s) (fun hm => (partialEscape_safe s _ hm).2 rfl)
    (textValue_partialEscape s)

theorem charsOK_wfRaw (r v : List Char) (h : wfRaw r v = true) : CharsOK r v := by
  simp only [wfRaw, Bool.and_eq_true, Bool.not_eq_true', decide_eq_true_eq] at h
  obtain ⟨⟨⟨h1, h2⟩, h3⟩, h4⟩ := h
  refine charsOK_of_raw r v ((allXml_iff r).1 h1) ?_ ?_ h4
  · intro hm; simp [hm] at h2
  · intro hm; simp [hm] at h3

theorem charsOK_nl : CharsOK newLineLit ['\n'] := by
  refine ⟨by decide, by decide, by decide, ?_⟩
  intro rest
  simp only [newLineLit, List.cons_append, List.nil_append, textValue, normalizeEol, expandGo]
  simp

/-! ## 2. the lexer on a sequence of writer events -/

inductive WEv where
  | tagO (n : List Char) (as : List Attr) (e : Bool)
  | tagC (n : List Char)
  | chars (r v : List Char)

def renderEv : WEv → List Char
  | .tagO n as e => writeStartTag n as e
  | .tagC n => writeEndTag n
  | .chars r _ => r

def renderEvs (es : List WEv) : List Char := es.flatMap renderEv

def wfEv : WEv → Prop
  | .tagO n as _ => wfName n = true ∧ wfAttrs as = true
  | .tagC n => wfName n = true
  | .chars r v => CharsOK r v

def flushP (p : List Char) (ts : List Token) : List Token := if p = [] then ts else Token.text p :: ts

/-- the tokens of an event sequence; `p` = character data read but not yet delivered -/
def toks : List Char → List WEv → List Token
  | p, [] => flushP p []
  | p, .chars _ v :: r => toks (p ++ v) r
  | p, .tagO n as e :: r => flushP p (Token.open n as e :: toks [] r)
  | p, .tagC n :: r => flushP p (Token.close n :: toks [] r)

/-- the lexer's raw accumulator `acc` (reversed) stands for the pending text `p` -/
structure Pending (acc p : List Char) : Prop where
  empty : acc = [] ↔ p = []
  comp : ∀ rest, textValue (acc.reverse ++ rest) = (textValue rest).map (p ++ ·)

theorem pending_nil : Pending [] [] := ⟨Iff.rfl, fun rest => by simp⟩

theorem flush_pending (acc p : List Char) (h : Pending acc p) (ts : List Token) :
    flushText acc (some ts) = some (flushP p ts) := by
  unfold flushText flushP
  by_cases ha : acc = []
  · have := h.empty.1 ha; subst ha; subst this; simp
  · have hp : p ≠ [] := fun e => ha (h.empty.2 e)
    have hv := h.comp []
    rw [List.append_nil, textValue_nil] at hv
    simp only [Option.map_some, List.append_nil] at hv
    have he : acc.isEmpty = false := by cases acc <;> simp_all
    simp [he, hv, hp]

theorem lex_events (es : List WEv) (h : ∀ e ∈ es, wfEv e) :
    ∀ (acc p : List Char), Pending acc p → lexGo (.text acc) (renderEvs es) = some (toks p es) := by
  induction es with
  | nil =>
    intro acc p hp
    simp only [renderEvs, List.flatMap_nil, toks]
    rw [lexGo]
    exact flush_pending acc p hp []
  | cons e es ih =>
    intro acc p hp
    have he := h e (by simp)
    have ih' := ih (fun x hx => h x (by simp [hx]))
    simp only [renderEvs, List.flatMap_cons]
    cases e with
    | tagO n as e =>
      obtain ⟨h1, h2⟩ := he
      have := ih' [] [] pending_nil
      simp only [renderEvs] at this
      simp only [renderEv, toks]
      rw [lex_startTag n as e h1 h2, this]
      exact flush_pending acc p hp _
    | tagC n =>
      have := ih' [] [] pending_nil
      simp only [renderEvs] at this
      simp only [renderEv, toks]
      rw [lex_endTag n he, this]
      exact flush_pending acc p hp _
    | chars r v =>
      have hc : CharsOK r v := he
      simp only [renderEv, toks]
      rw [lex_text_run r hc.xml hc.noLt]
      refine ih' _ _ ⟨?_, ?_⟩
      · constructor
        · intro e0
          have : r.reverse = [] ∧ acc = [] := by simpa using e0
          have hr : r = [] := by simpa using this.1
          simp [hp.empty.1 this.2, hc.empty.1 hr]
        · intro e0
          have : p = [] ∧ v = [] := by simpa using e0
          simp [hp.empty.2 this.1, hc.empty.2 this.2]
      · intro rest
        simp only [List.reverse_append, List.reverse_reverse, List.append_assoc]
        rw [hp.comp, hc.comp]
        cases textValue rest <;> simp

/-! ## events of a tree -/

def evsKids : List WNode → List WEv
  | [] => []
  | .elem n as ks :: r => .tagO n as false :: (evsKids ks ++ (.tagC n :: evsKids r))
  | .empty n as :: r => .tagO n as true :: evsKids r
  | .text s :: r => .chars (escape s) s :: evsKids r
  | .conv s :: r => .chars (partialEscape s) s :: evsKids r
  | .raw x v :: r => .chars x v :: evsKids r
  | .nl :: r => .chars newLineLit ['\n'] :: evsKids r

theorem renderEvs_append (a b : List WEv) : renderEvs (a ++ b) = renderEvs a ++ renderEvs b := by
  simp [renderEvs]

theorem renderEvs_cons (e : WEv) (b : List WEv) : renderEvs (e :: b) = renderEv e ++ renderEvs b := by
  simp [renderEvs]

theorem renderKids_evs : ∀ ws : List WNode, renderKids ws = renderEvs (evsKids ws)
  | [] => by simp [renderKids, evsKids, renderEvs]
  | .elem n as ks :: r => by
    simp only [renderKids, evsKids, renderEvs_cons, renderEvs_append, renderEv]
    rw [renderKids_evs ks, renderKids_evs r]
  | .empty n as :: r => by
    simp only [renderKids, evsKids, renderEvs_cons, renderEv]; rw [renderKids_evs r]
  | .text s :: r => by
    simp only [renderKids, evsKids, renderEvs_cons, renderEv, writeTextNode, writeEvent]; rw [renderKids_evs r]
  | .conv s :: r => by
    simp only [renderKids, evsKids, renderEvs_cons, renderEv, writeTextNodeConversion, writeTextNodeNoEscape]; rw [renderKids_evs r]
  | .raw x v :: r => by
    simp only [renderKids, evsKids, renderEvs_cons, renderEv, writeTextNodeNoEscape]; rw [renderKids_evs r]
  | .nl :: r => by
    simp only [renderKids, evsKids, renderEvs_cons, renderEv, writeNewLine, writeTextNodeNoEscape]; rw [renderKids_evs r]

theorem wfEv_kids : ∀ ws : List WNode, wfKids ws = true → ∀ e ∈ evsKids ws, wfEv e
  | [], _ => by simp [evsKids]
  | .elem n as ks :: r, h => by
    simp only [wfKids, Bool.and_eq_true] at h
    obtain ⟨⟨⟨h1, h2⟩, h3⟩, h4⟩ := h
    intro e he
    simp only [evsKids, List.mem_cons, List.mem_append] at he
    rcases he with rfl | he | rfl | he
    · exact ⟨h1, h2⟩
    · exact wfEv_kids ks h3 e he
    · exact h1
    · exact wfEv_kids r h4 e he
  | .empty n as :: r, h => by
    simp only [wfKids, Bool.and_eq_true] at h
    intro e he
    simp only [evsKids, List.mem_cons] at he
    rcases he with rfl | he
    · exact ⟨h.1.1, h.1.2⟩
    · exact wfEv_kids r h.2 e he
  | .text s :: r, h => by
    simp only [wfKids, Bool.and_eq_true] at h
    intro e he
    simp only [evsKids, List.mem_cons] at he
    rcases he with rfl | he
    · exact charsOK_text s h.1
    · exact wfEv_kids r h.2 e he
  | .conv s :: r, h => by
    simp only [wfKids, Bool.and_eq_true] at h
    intro e he
    simp only [evsKids, List.mem_cons] at he
    rcases he with rfl | he
    · exact charsOK_conv s h.1
    · exact wfEv_kids r h.2 e he
  | .raw x v :: r, h => by
    simp only [wfKids, Bool.and_eq_true] at h
    intro e he
    simp only [evsKids, List.mem_cons] at he
    rcases he with rfl | he
    · exact charsOK_wfRaw x v h.1
    · exact wfEv_kids r h.2 e he
  | .nl :: r, h => by
    simp only [wfKids] at h
    intro e he
    simp only [evsKids, List.mem_cons] at he
    rcases he with rfl | he
    · exact charsOK_nl
    · exact wfEv_kids r h e he

/-! ## 3. the tree builder on the tokens of a tree -/

theorem build_text (f : Frame) (fs : List Frame) (root : Option Node) (s : List Char) (rest : List Token) :
    buildGo (f :: fs) root (.text s :: rest) = buildGo ({ f with kids := pushText f.kids s } :: fs) root rest := by
  rw [buildGo]

theorem build_openE (f : Frame) (fs : List Frame) (root : Option Node) (n : List Char) (as : List Attr) (rest : List Token) :
    buildGo (f :: fs) root (.open n as true :: rest) = buildGo ({ f with kids := .elem n as [] :: f.kids } :: fs) root rest := by
  rw [buildGo]

theorem build_open (f : Frame) (fs : List Frame) (root : Option Node) (n : List Char) (as : List Attr) (rest : List Token) :
    buildGo (f :: fs) root (.open n as false :: rest) = buildGo (⟨n, as, []⟩ :: f :: fs) root rest := by
  rw [buildGo]; simp

theorem build_close (n : List Char) (as : List Attr) (ks : List Node) (g : Frame) (gs : List Frame) (root : Option Node)
    (rest : List Token) :
    buildGo (⟨n, as, ks⟩ :: g :: gs) root (.close n :: rest) =
      buildGo ({ g with kids := .elem n as ks.reverse :: g.kids } :: gs) root rest := by
  rw [buildGo]; simp

theorem build_flushP (f : Frame) (fs : List Frame) (root : Option Node) (p : List Char) (rest : List Token) :
    buildGo (f :: fs) root (flushP p rest) = buildGo ({ f with kids := pushP f.kids p } :: fs) root rest := by
  by_cases hp : p = []
  · subst hp; simp [flushP, pushP]
  · simp [flushP, pushP, hp, build_text]

theorem pushText_pushText (k : List Node) (a b : List Char) : pushText (pushText k a) b = pushText k (a ++ b) := by
  cases k with
  | nil => simp [pushText]
  | cons x xs => cases x <;> simp [pushText]

theorem pushP_pushP (k : List Node) (a b : List Char) : pushP (pushP k a) b = pushP k (a ++ b) := by
  unfold pushP
  by_cases ha : a = []
  · subst ha; simp
  · by_cases hb : b = []
    · subst hb; simp [ha]
    · simp [ha, hb, pushText_pushText]

theorem pushP_nil (k : List Node) : pushP k [] = k := by simp [pushP]

theorem toks_chars_append (p r v : List Char) (es : List WEv) : toks p (.chars r v :: es) = toks (p ++ v) es := by
  simp [toks]

/-- **the stack machine on the children of an element**: the tokens of the children `ws`, followed by the
    end tag of the enclosing element, leave the enclosing frame with the normal form of the children appended -/
theorem build_kids : ∀ (ws : List WNode) (p : List Char) (f : Frame) (fs : List Frame) (root : Option Node)
    (m : List Char) (E : List WEv),
    buildGo (f :: fs) root (toks p (evsKids ws ++ (.tagC m :: E))) =
      buildGo ({ f with kids := normKidsAcc (pushP f.kids p) (eraseKids ws) } :: fs) root (Token.close m :: toks [] E)
  | [], p, f, fs, root, m, E => by
    simp only [evsKids, List.nil_append, toks, eraseKids, normKidsAcc]
    exact build_flushP f fs root p _
  | .elem n as ks :: r, p, f, fs, root, m, E => by
    simp only [evsKids, List.cons_append, List.append_assoc, toks, eraseKids, normKidsAcc]
    rw [build_flushP, build_open, build_kids ks [] ⟨n, as, []⟩ _ root n _]
    simp only [pushP_nil]
    rw [build_close, build_kids r [] _ fs root m E]
    simp only [pushP_nil]
  | .empty n as :: r, p, f, fs, root, m, E => by
    simp only [evsKids, List.cons_append, toks, eraseKids, normKidsAcc]
    rw [build_flushP, build_openE, build_kids r [] _ fs root m E]
    simp only [pushP_nil, List.reverse_nil]
  | .text s :: r, p, f, fs, root, m, E => by
    simp only [evsKids, List.cons_append, toks, eraseKids, normKidsAcc]
    rw [build_kids r (p ++ s) f fs root m E, pushP_pushP]
  | .conv s :: r, p, f, fs, root, m, E => by
    simp only [evsKids, List.cons_append, toks, eraseKids, normKidsAcc]
    rw [build_kids r (p ++ s) f fs root m E, pushP_pushP]
  | .raw x v :: r, p, f, fs, root, m, E => by
    simp only [evsKids, List.cons_append, toks, eraseKids, normKidsAcc]
    rw [build_kids r (p ++ v) f fs root m E, pushP_pushP]
  | .nl :: r, p, f, fs, root, m, E => by
    simp only [evsKids, List.cons_append, toks, eraseKids, normKidsAcc]
    rw [build_kids r (p ++ ['\n']) f fs root m E, pushP_pushP]

/-! ## 4. the whole document -/

theorem isBlank_nl : isBlank ['\n'] = true := by decide

theorem build_top_text (root : Option Node) (s : List Char) (rest : List Token) (hb : isBlank s = true) :
    buildGo [] root (.text s :: rest) = buildGo [] root rest := by
  rw [buildGo]; simp [hb]

theorem build_top_open (n : List Char) (as : List Attr) (rest : List Token) :
    buildGo [] none (.open n as false :: rest) = buildGo [⟨n, as, []⟩] none rest := by
  rw [buildGo]

theorem build_top_openE (n : List Char) (as : List Attr) (rest : List Token) :
    buildGo [] none (.open n as true :: rest) = buildGo [] (some (.elem n as [])) rest := by
  rw [buildGo]

theorem build_top_close (n : List Char) (as : List Attr) (ks : List Node) (root : Option Node) (rest : List Token) :
    buildGo [⟨n, as, ks⟩] root (.close n :: rest) = buildGo [] (some (.elem n as ks.reverse)) rest := by
  rw [buildGo]; simp

theorem build_top_end (root : Option Node) : buildGo [] root [] = root := by
  rw [buildGo]

/-- the root element on an empty stack, after the new line that follows the declaration -/
theorem build_root (w : WNode) (hw : isElemW w = true) :
    buildGo [] none (toks ['\n'] (evsKids [w])) = some (normNode (erase w)) := by
  cases w with
  | elem n as ks =>
    have h := build_kids ks [] ⟨n, as, []⟩ [] none n []
    simp only [evsKids, toks, flushP] at h ⊢
    simp only [show (['\n'] = ([] : List Char)) = False by simp, if_false]
    rw [build_top_text _ _ _ isBlank_nl, build_top_open, h, pushP_nil, build_top_close]
    simp only [if_true]
    rw [build_top_end]
    simp [normNode, erase, normKids]
  | empty n as =>
    simp only [evsKids, toks, flushP]
    simp only [show (['\n'] = ([] : List Char)) = False by simp, if_false, if_true]
    rw [build_top_text _ _ _ isBlank_nl, build_top_openE, build_top_end]
    simp [normNode, erase, normKids, normKidsAcc, eraseKids]
  | text s => simp [isElemW] at hw
  | conv s => simp [isElemW] at hw
  | raw r v => simp [isElemW] at hw
  | nl => simp [isElemW] at hw

/-- **Main theorem.**  The independent XML 1.0 reader, given the characters of a rendered part, returns the
    element tree that was written, in the reader's normal form. -/
theorem parse_renderDoc (w : WNode) (hw : isElemW w = true) (hwf : WF w = true) :
    parse (renderDoc w) = some (normNode (erase w)) := by
  unfold parse lex renderDoc
  rw [lex_decl]
  have hev : ∀ e ∈ evsKids (.nl :: [w]), wfEv e := wfEv_kids (.nl :: [w]) (by simpa [wfKids, WF] using hwf)
  have hr : writeNewLine ++ renderNode w = renderEvs (evsKids (.nl :: [w])) := by
    rw [← renderKids_evs]; simp [renderKids, renderNode]
  rw [hr, lex_events _ hev [] [] pending_nil]
  simp only [Option.bind_some]
  have : toks [] (evsKids (.nl :: [w])) = toks ['\n'] (evsKids [w]) := by
    cases w <;> simp [evsKids, toks]
  rw [this]
  exact build_root w hw

end Umya.XmlWrite
